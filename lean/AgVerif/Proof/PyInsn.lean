/-
The constructors `Instruction<fmt>.__init__` as translated from the Python source by gen/py2lean.py
(AgVerif.Gen.PyInsn, init mode: the struct unpack is not interpreted, `init_<fmt>` takes the unpacked
values) agree with the hand-written model `AgVerif.Insn.post` that the instruction theorems are about:
for every list of values `struct.unpack` can return for the format's struct string, the constructor
raises exactly when the model reports an error, and otherwise sets `OP` and the attributes the model
keeps in `Insn.v` (order documented at `post`) to the model's values.
-/
import AgVerif.Gen.PyInsn
import AgVerif.Model.Insn
import AgVerif.Proof.PyInt
set_option linter.unusedSimpArgs false
namespace AgVerif.PyInsn
open AgVerif.Insn AgVerif.Py AgVerif.Gen AgVerif.Gen.PyInsn

def InRangeL : List SC → List Int → Prop
  | [], [] => True
  | c :: cs, v :: vs => SC.inRange c v = true ∧ InRangeL cs vs
  | _, _ => False

/-- `vs` is what `struct.unpack` can return for the unpack format of `f` -/
def InRange (f : Fmt) (vs : List Int) : Prop := InRangeL (Opcodes.unpackFmt f) vs

/-- the translated constructor `g` and the model result `m` agree: both raise, or the attribute
    `OP` and the attributes `names` (the model's `v`, in its order) have the model's values -/
def Agrees (g : Option (List (String × Int))) (names : List String) (m : Except Err Insn) : Prop :=
  match m with
  | .ok x => ∃ fl, g = some fl ∧ fl.lookup "OP" = some (x.op : Int) ∧
      names.map (fun n => fl.lookup n) = x.v.map some
  | .error _ => g = none

theorem band_0F (x : Int) : band x 15 = x % 16 := band_mask x 4

theorem hi_mask (n : Nat) (m k : Nat) : (n &&& m) >>> k = (n >>> k) &&& (m >>> k) :=
  Nat.shiftRight_and_distrib

theorem band_F0_shr (x : Int) (h : 0 ≤ x) : shr (band x 240) 4 = x / 16 % 16 := by
  obtain ⟨n, rfl⟩ := Int.eq_ofNat_of_zero_le h
  rw [band_cast_lit, shr_cast, hi_mask]
  have : (240 : Nat) >>> 4 = 2 ^ 4 - 1 := by decide
  rw [this, Nat.and_two_pow_sub_one_eq_mod, Nat.shiftRight_eq_div_pow]
  simp
theorem band_F00_shr (x : Int) (h : 0 ≤ x) : shr (band x 3840) 8 = x / 256 % 16 := by
  obtain ⟨n, rfl⟩ := Int.eq_ofNat_of_zero_le h
  rw [band_cast_lit, shr_cast, hi_mask]
  have : (3840 : Nat) >>> 8 = 2 ^ 4 - 1 := by decide
  rw [this, Nat.and_two_pow_sub_one_eq_mod, Nat.shiftRight_eq_div_pow]
  simp
theorem band_F000_shr (x : Int) (h : 0 ≤ x) : shr (band x 61440) 12 = x / 4096 % 16 := by
  obtain ⟨n, rfl⟩ := Int.eq_ofNat_of_zero_le h
  rw [band_cast_lit, shr_cast, hi_mask]
  have : (61440 : Nat) >>> 12 = 2 ^ 4 - 1 := by decide
  rw [this, Nat.and_two_pow_sub_one_eq_mod, Nat.shiftRight_eq_div_pow]
  simp

macro "insn_close " d:ident : tactic => `(tactic|
  (simp only [Agrees, $d:ident, post, m0, m1, m2, m3, m4, m5, m7, m8]
   first
   | (split <;> simp_all [band_FF, band_0F, shr_eq, shl_eq, List.lookup] <;> omega)
   | (simp_all [band_FF, band_0F, shr_eq, shl_eq, List.lookup] <;> omega)))

/-- `Instruction35c.__init__` as translated from the source agrees with the model's `post .f35c`. -/
theorem init_35c_eq (vs : List Int) (hr : InRange .f35c vs) :
    Agrees (init_35c vs) ["A", "BBBB", "C", "D", "E", "F", "G"] (post .f35c vs) := by
  simp only [InRange, Opcodes.unpackFmt] at hr
  match vs, hr with
  | [v0, v1, v2], hr =>
    simp only [InRangeL, SC.inRange, Bool.and_eq_true, decide_eq_true_eq] at hr
    insn_close init_35c

/-- `Instruction10x.__init__` as translated from the source agrees with the model's `post .f10x`. -/
theorem init_10x_eq (vs : List Int) (hr : InRange .f10x vs) :
    Agrees (init_10x vs) [] (post .f10x vs) := by
  simp only [InRange, Opcodes.unpackFmt] at hr
  match vs, hr with
  | [v0, v1], hr =>
    simp only [InRangeL, SC.inRange, Bool.and_eq_true, decide_eq_true_eq] at hr
    simp only [Agrees, init_10x, post, m0, m1, m2, m3, m4]
    by_cases hp : v1 = 0 <;> simp_all [List.lookup] <;> omega

/-- `Instruction21h.__init__` as translated from the source agrees with the model's `post .f21h`. -/
theorem init_21h_eq (vs : List Int) (hr : InRange .f21h vs) :
    Agrees (init_21h vs) ["AA", "__BBBB", "BBBB"] (post .f21h vs) := by
  simp only [InRange, Opcodes.unpackFmt] at hr
  match vs, hr with
  | [v0, v1, v2], hr =>
    simp only [InRangeL, SC.inRange, Bool.and_eq_true, decide_eq_true_eq] at hr
    simp only [Agrees, init_21h, post, m3]
    by_cases h21 : v0 = 21 <;> by_cases h25 : v0 = 25 <;>
      simp_all [shl_eq, List.lookup] <;> omega

/-- `Instruction11n.__init__` as translated from the source agrees with the model's `post .f11n`. -/
theorem init_11n_eq (vs : List Int) (hr : InRange .f11n vs) :
    Agrees (init_11n vs) ["A", "B"] (post .f11n vs) := by
  simp only [InRange, Opcodes.unpackFmt] at hr
  match vs, hr with
  | [v0, v1], hr =>
    simp only [InRangeL, SC.inRange, Bool.and_eq_true, decide_eq_true_eq] at hr
    insn_close init_11n

/-- `Instruction21c.__init__` as translated from the source agrees with the model's `post .f21c`. -/
theorem init_21c_eq (vs : List Int) (hr : InRange .f21c vs) :
    Agrees (init_21c vs) ["AA", "BBBB"] (post .f21c vs) := by
  simp only [InRange, Opcodes.unpackFmt] at hr
  match vs, hr with
  | [v0, v1, v2], hr =>
    simp only [InRangeL, SC.inRange, Bool.and_eq_true, decide_eq_true_eq] at hr
    insn_close init_21c

/-- `Instruction21s.__init__` as translated from the source agrees with the model's `post .f21s`. -/
theorem init_21s_eq (vs : List Int) (hr : InRange .f21s vs) :
    Agrees (init_21s vs) ["AA", "BBBB"] (post .f21s vs) := by
  simp only [InRange, Opcodes.unpackFmt] at hr
  match vs, hr with
  | [v0, v1, v2], hr =>
    simp only [InRangeL, SC.inRange, Bool.and_eq_true, decide_eq_true_eq] at hr
    insn_close init_21s

/-- `Instruction22c.__init__` as translated from the source agrees with the model's `post .f22c`. -/
theorem init_22c_eq (vs : List Int) (hr : InRange .f22c vs) :
    Agrees (init_22c vs) ["A", "B", "CCCC"] (post .f22c vs) := by
  simp only [InRange, Opcodes.unpackFmt] at hr
  match vs, hr with
  | [v0, v1], hr =>
    simp only [InRangeL, SC.inRange, Bool.and_eq_true, decide_eq_true_eq] at hr
    insn_close init_22c

/-- `Instruction22cs.__init__` as translated from the source agrees with the model's `post .f22cs`. -/
theorem init_22cs_eq (vs : List Int) (hr : InRange .f22cs vs) :
    Agrees (init_22cs vs) ["A", "B", "CCCC"] (post .f22cs vs) := by
  simp only [InRange, Opcodes.unpackFmt] at hr
  match vs, hr with
  | [v0, v1], hr =>
    simp only [InRangeL, SC.inRange, Bool.and_eq_true, decide_eq_true_eq] at hr
    insn_close init_22cs

/-- `Instruction31t.__init__` as translated from the source agrees with the model's `post .f31t`. -/
theorem init_31t_eq (vs : List Int) (hr : InRange .f31t vs) :
    Agrees (init_31t vs) ["AA", "BBBBBBBB"] (post .f31t vs) := by
  simp only [InRange, Opcodes.unpackFmt] at hr
  match vs, hr with
  | [v0, v1, v2], hr =>
    simp only [InRangeL, SC.inRange, Bool.and_eq_true, decide_eq_true_eq] at hr
    insn_close init_31t

/-- `Instruction31c.__init__` as translated from the source agrees with the model's `post .f31c`. -/
theorem init_31c_eq (vs : List Int) (hr : InRange .f31c vs) :
    Agrees (init_31c vs) ["AA", "BBBBBBBB"] (post .f31c vs) := by
  simp only [InRange, Opcodes.unpackFmt] at hr
  match vs, hr with
  | [v0, v1, v2], hr =>
    simp only [InRangeL, SC.inRange, Bool.and_eq_true, decide_eq_true_eq] at hr
    insn_close init_31c

/-- `Instruction12x.__init__` as translated from the source agrees with the model's `post .f12x`. -/
theorem init_12x_eq (vs : List Int) (hr : InRange .f12x vs) :
    Agrees (init_12x vs) ["A", "B"] (post .f12x vs) := by
  simp only [InRange, Opcodes.unpackFmt] at hr
  match vs, hr with
  | [v0], hr =>
    simp only [InRangeL, SC.inRange, Bool.and_eq_true, decide_eq_true_eq] at hr
    insn_close init_12x

/-- `Instruction11x.__init__` as translated from the source agrees with the model's `post .f11x`. -/
theorem init_11x_eq (vs : List Int) (hr : InRange .f11x vs) :
    Agrees (init_11x vs) ["AA"] (post .f11x vs) := by
  simp only [InRange, Opcodes.unpackFmt] at hr
  match vs, hr with
  | [v0, v1], hr =>
    simp only [InRangeL, SC.inRange, Bool.and_eq_true, decide_eq_true_eq] at hr
    insn_close init_11x

/-- `Instruction51l.__init__` as translated from the source agrees with the model's `post .f51l`. -/
theorem init_51l_eq (vs : List Int) (hr : InRange .f51l vs) :
    Agrees (init_51l vs) ["AA", "BBBBBBBBBBBBBBBB"] (post .f51l vs) := by
  simp only [InRange, Opcodes.unpackFmt] at hr
  match vs, hr with
  | [v0, v1, v2], hr =>
    simp only [InRangeL, SC.inRange, Bool.and_eq_true, decide_eq_true_eq] at hr
    insn_close init_51l

/-- `Instruction31i.__init__` as translated from the source agrees with the model's `post .f31i`. -/
theorem init_31i_eq (vs : List Int) (hr : InRange .f31i vs) :
    Agrees (init_31i vs) ["AA", "BBBBBBBB"] (post .f31i vs) := by
  simp only [InRange, Opcodes.unpackFmt] at hr
  match vs, hr with
  | [v0, v1, v2], hr =>
    simp only [InRangeL, SC.inRange, Bool.and_eq_true, decide_eq_true_eq] at hr
    insn_close init_31i

/-- `Instruction22x.__init__` as translated from the source agrees with the model's `post .f22x`. -/
theorem init_22x_eq (vs : List Int) (hr : InRange .f22x vs) :
    Agrees (init_22x vs) ["AA", "BBBB"] (post .f22x vs) := by
  simp only [InRange, Opcodes.unpackFmt] at hr
  match vs, hr with
  | [v0, v1, v2], hr =>
    simp only [InRangeL, SC.inRange, Bool.and_eq_true, decide_eq_true_eq] at hr
    insn_close init_22x

/-- `Instruction23x.__init__` as translated from the source agrees with the model's `post .f23x`. -/
theorem init_23x_eq (vs : List Int) (hr : InRange .f23x vs) :
    Agrees (init_23x vs) ["AA", "BB", "CC"] (post .f23x vs) := by
  simp only [InRange, Opcodes.unpackFmt] at hr
  match vs, hr with
  | [v0, v1, v2, v3], hr =>
    simp only [InRangeL, SC.inRange, Bool.and_eq_true, decide_eq_true_eq] at hr
    insn_close init_23x

/-- `Instruction20t.__init__` as translated from the source agrees with the model's `post .f20t`. -/
theorem init_20t_eq (vs : List Int) (hr : InRange .f20t vs) :
    Agrees (init_20t vs) ["AAAA"] (post .f20t vs) := by
  simp only [InRange, Opcodes.unpackFmt] at hr
  match vs, hr with
  | [v0, v1, v2], hr =>
    simp only [InRangeL, SC.inRange, Bool.and_eq_true, decide_eq_true_eq] at hr
    simp only [Agrees, init_20t, post, m0, m1, m2, m3, m4]
    by_cases hp : v1 = 0 <;> simp_all [List.lookup] <;> omega

/-- `Instruction21t.__init__` as translated from the source agrees with the model's `post .f21t`. -/
theorem init_21t_eq (vs : List Int) (hr : InRange .f21t vs) :
    Agrees (init_21t vs) ["AA", "BBBB"] (post .f21t vs) := by
  simp only [InRange, Opcodes.unpackFmt] at hr
  match vs, hr with
  | [v0, v1, v2], hr =>
    simp only [InRangeL, SC.inRange, Bool.and_eq_true, decide_eq_true_eq] at hr
    insn_close init_21t

/-- `Instruction10t.__init__` as translated from the source agrees with the model's `post .f10t`. -/
theorem init_10t_eq (vs : List Int) (hr : InRange .f10t vs) :
    Agrees (init_10t vs) ["AA"] (post .f10t vs) := by
  simp only [InRange, Opcodes.unpackFmt] at hr
  match vs, hr with
  | [v0, v1], hr =>
    simp only [InRangeL, SC.inRange, Bool.and_eq_true, decide_eq_true_eq] at hr
    insn_close init_10t

/-- `Instruction22t.__init__` as translated from the source agrees with the model's `post .f22t`. -/
theorem init_22t_eq (vs : List Int) (hr : InRange .f22t vs) :
    Agrees (init_22t vs) ["A", "B", "CCCC"] (post .f22t vs) := by
  simp only [InRange, Opcodes.unpackFmt] at hr
  match vs, hr with
  | [v0, v1], hr =>
    simp only [InRangeL, SC.inRange, Bool.and_eq_true, decide_eq_true_eq] at hr
    insn_close init_22t

/-- `Instruction22s.__init__` as translated from the source agrees with the model's `post .f22s`. -/
theorem init_22s_eq (vs : List Int) (hr : InRange .f22s vs) :
    Agrees (init_22s vs) ["A", "B", "CCCC"] (post .f22s vs) := by
  simp only [InRange, Opcodes.unpackFmt] at hr
  match vs, hr with
  | [v0, v1], hr =>
    simp only [InRangeL, SC.inRange, Bool.and_eq_true, decide_eq_true_eq] at hr
    insn_close init_22s

/-- `Instruction22b.__init__` as translated from the source agrees with the model's `post .f22b`. -/
theorem init_22b_eq (vs : List Int) (hr : InRange .f22b vs) :
    Agrees (init_22b vs) ["AA", "BB", "CC"] (post .f22b vs) := by
  simp only [InRange, Opcodes.unpackFmt] at hr
  match vs, hr with
  | [v0, v1, v2, v3], hr =>
    simp only [InRangeL, SC.inRange, Bool.and_eq_true, decide_eq_true_eq] at hr
    insn_close init_22b

/-- `Instruction30t.__init__` as translated from the source agrees with the model's `post .f30t`. -/
theorem init_30t_eq (vs : List Int) (hr : InRange .f30t vs) :
    Agrees (init_30t vs) ["AAAAAAAA"] (post .f30t vs) := by
  simp only [InRange, Opcodes.unpackFmt] at hr
  match vs, hr with
  | [v0, v1, v2], hr =>
    simp only [InRangeL, SC.inRange, Bool.and_eq_true, decide_eq_true_eq] at hr
    simp only [Agrees, init_30t, post, m0, m1, m2, m3, m4]
    by_cases hp : v1 = 0 <;> simp_all [List.lookup] <;> omega

/-- `Instruction3rc.__init__` as translated from the source agrees with the model's `post .f3rc`. -/
theorem init_3rc_eq (vs : List Int) (hr : InRange .f3rc vs) :
    Agrees (init_3rc vs) ["AA", "BBBB", "CCCC"] (post .f3rc vs) := by
  simp only [InRange, Opcodes.unpackFmt] at hr
  match vs, hr with
  | [v0, v1, v2, v3], hr =>
    simp only [InRangeL, SC.inRange, Bool.and_eq_true, decide_eq_true_eq] at hr
    insn_close init_3rc

/-- `Instruction32x.__init__` as translated from the source agrees with the model's `post .f32x`. -/
theorem init_32x_eq (vs : List Int) (hr : InRange .f32x vs) :
    Agrees (init_32x vs) ["AAAA", "BBBB"] (post .f32x vs) := by
  simp only [InRange, Opcodes.unpackFmt] at hr
  match vs, hr with
  | [v0, v1, v2, v3], hr =>
    simp only [InRangeL, SC.inRange, Bool.and_eq_true, decide_eq_true_eq] at hr
    simp only [Agrees, init_32x, post, m0, m1, m2, m3, m4]
    by_cases hp : v1 = 0 <;> simp_all [List.lookup] <;> omega

/-- `Instruction20bc.__init__` as translated from the source agrees with the model's `post .f20bc`. -/
theorem init_20bc_eq (vs : List Int) (hr : InRange .f20bc vs) :
    Agrees (init_20bc vs) ["AA", "BBBB"] (post .f20bc vs) := by
  simp only [InRange, Opcodes.unpackFmt] at hr
  match vs, hr with
  | [v0, v1, v2], hr =>
    simp only [InRangeL, SC.inRange, Bool.and_eq_true, decide_eq_true_eq] at hr
    insn_close init_20bc

/-- `Instruction35mi.__init__` as translated from the source agrees with the model's `post .f35mi`. -/
theorem init_35mi_eq (vs : List Int) (hr : InRange .f35mi vs) :
    Agrees (init_35mi vs) ["A", "BBBB", "C", "D", "E", "F", "G"] (post .f35mi vs) := by
  simp only [InRange, Opcodes.unpackFmt] at hr
  match vs, hr with
  | [v0, v1, v2], hr =>
    simp only [InRangeL, SC.inRange, Bool.and_eq_true, decide_eq_true_eq] at hr
    insn_close init_35mi

/-- `Instruction35ms.__init__` as translated from the source agrees with the model's `post .f35ms`. -/
theorem init_35ms_eq (vs : List Int) (hr : InRange .f35ms vs) :
    Agrees (init_35ms vs) ["A", "BBBB", "C", "D", "E", "F", "G"] (post .f35ms vs) := by
  simp only [InRange, Opcodes.unpackFmt] at hr
  match vs, hr with
  | [v0, v1, v2], hr =>
    simp only [InRangeL, SC.inRange, Bool.and_eq_true, decide_eq_true_eq] at hr
    insn_close init_35ms

/-- `Instruction3rmi.__init__` as translated from the source agrees with the model's `post .f3rmi`. -/
theorem init_3rmi_eq (vs : List Int) (hr : InRange .f3rmi vs) :
    Agrees (init_3rmi vs) ["AA", "BBBB", "CCCC"] (post .f3rmi vs) := by
  simp only [InRange, Opcodes.unpackFmt] at hr
  match vs, hr with
  | [v0, v1, v2, v3], hr =>
    simp only [InRangeL, SC.inRange, Bool.and_eq_true, decide_eq_true_eq] at hr
    insn_close init_3rmi

/-- `Instruction3rms.__init__` as translated from the source agrees with the model's `post .f3rms`. -/
theorem init_3rms_eq (vs : List Int) (hr : InRange .f3rms vs) :
    Agrees (init_3rms vs) ["AA", "BBBB", "CCCC"] (post .f3rms vs) := by
  simp only [InRange, Opcodes.unpackFmt] at hr
  match vs, hr with
  | [v0, v1, v2, v3], hr =>
    simp only [InRangeL, SC.inRange, Bool.and_eq_true, decide_eq_true_eq] at hr
    insn_close init_3rms

/-- `Instruction41c.__init__` as translated from the source agrees with the model's `post .f41c`. -/
theorem init_41c_eq (vs : List Int) (hr : InRange .f41c vs) :
    Agrees (init_41c vs) ["BBBBBBBB", "AAAA"] (post .f41c vs) := by
  simp only [InRange, Opcodes.unpackFmt] at hr
  match vs, hr with
  | [v0, v1, v2], hr =>
    simp only [InRangeL, SC.inRange, Bool.and_eq_true, decide_eq_true_eq] at hr
    insn_close init_41c

/-- `Instruction40sc.__init__` as translated from the source agrees with the model's `post .f40sc`. -/
theorem init_40sc_eq (vs : List Int) (hr : InRange .f40sc vs) :
    Agrees (init_40sc vs) ["BBBBBBBB", "AAAA"] (post .f40sc vs) := by
  simp only [InRange, Opcodes.unpackFmt] at hr
  match vs, hr with
  | [v0, v1, v2], hr =>
    simp only [InRangeL, SC.inRange, Bool.and_eq_true, decide_eq_true_eq] at hr
    insn_close init_40sc

/-- `Instruction52c.__init__` as translated from the source agrees with the model's `post .f52c`. -/
theorem init_52c_eq (vs : List Int) (hr : InRange .f52c vs) :
    Agrees (init_52c vs) ["CCCCCCCC", "AAAA", "BBBB"] (post .f52c vs) := by
  simp only [InRange, Opcodes.unpackFmt] at hr
  match vs, hr with
  | [v0, v1, v2, v3], hr =>
    simp only [InRangeL, SC.inRange, Bool.and_eq_true, decide_eq_true_eq] at hr
    insn_close init_52c

/-- `Instruction5rc.__init__` as translated from the source agrees with the model's `post .f5rc`. -/
theorem init_5rc_eq (vs : List Int) (hr : InRange .f5rc vs) :
    Agrees (init_5rc vs) ["BBBBBBBB", "AAAA", "CCCC"] (post .f5rc vs) := by
  simp only [InRange, Opcodes.unpackFmt] at hr
  match vs, hr with
  | [v0, v1, v2, v3], hr =>
    simp only [InRangeL, SC.inRange, Bool.and_eq_true, decide_eq_true_eq] at hr
    insn_close init_5rc

/-- `Instruction45cc.__init__` as translated from the source agrees with the model's `post .f45cc`. -/
theorem init_45cc_eq (vs : List Int) (hr : InRange .f45cc vs) :
    Agrees (init_45cc vs) ["A", "BBBB", "C", "D", "E", "F", "G", "HHHH"] (post .f45cc vs) := by
  simp only [InRange, Opcodes.unpackFmt] at hr
  match vs, hr with
  | [v0, v1, v2, v3, v4], hr =>
    simp only [InRangeL, SC.inRange, Bool.and_eq_true, decide_eq_true_eq] at hr
    simp only [Agrees, init_45cc, post, m5]
    rw [band_F0_shr v1 hr.2.1.1, band_F0_shr v3 hr.2.2.2.1.1, band_F00_shr v3 hr.2.2.2.1.1,
      band_F000_shr v3 hr.2.2.2.1.1]
    by_cases hc : 5 < v1 / 16 % 16 <;> simp [hc, band_0F, List.lookup] <;> omega

/-- `Instruction4rcc.__init__` as translated from the source agrees with the model's `post .f4rcc`. -/
theorem init_4rcc_eq (vs : List Int) (hr : InRange .f4rcc vs) :
    Agrees (init_4rcc vs) ["AA", "BBBB", "CCCC", "HHHH"] (post .f4rcc vs) := by
  simp only [InRange, Opcodes.unpackFmt] at hr
  match vs, hr with
  | [v0, v1, v2, v3, v4], hr =>
    simp only [InRangeL, SC.inRange, Bool.and_eq_true, decide_eq_true_eq] at hr
    insn_close init_4rcc

/-! ### the struct string and the slice length of every translated constructor are the generated ones -/

def scOfChar (c : Char) : Option SC :=
  if c = 'B' then some .B else if c = 'b' then some .b else if c = 'H' then some .H else if c = 'h' then some .h
  else if c = 'I' then some .I else if c = 'i' then some .i else if c = 'L' then some .L else if c = 'l' then some .l
  else if c = 'Q' then some .Q else if c = 'q' then some .q else none

/-- a `struct` format string without byte-order prefix: characters with an optional repeat count -/
def parseFmt : List Char → Option Nat → Option (List SC)
  | [], none => some []
  | [], some _ => none
  | c :: r, cnt =>
    if c.isDigit then
      parseFmt r (some ((match cnt with | none => 0 | some k => k * 10) + (c.toNat - 48)))
    else
      match scOfChar c, parseFmt r none with
      | some sc, some rest => some (List.replicate (match cnt with | none => 1 | some k => k) sc ++ rest)
      | _, _ => none

/-- (format, `init_<fmt>_unpack`) for every translated constructor -/
def unpackTable : List (Fmt × (String × Nat)) :=
  [(.f35c, init_35c_unpack),
   (.f10x, init_10x_unpack),
   (.f21h, init_21h_unpack),
   (.f11n, init_11n_unpack),
   (.f21c, init_21c_unpack),
   (.f21s, init_21s_unpack),
   (.f22c, init_22c_unpack),
   (.f22cs, init_22cs_unpack),
   (.f31t, init_31t_unpack),
   (.f31c, init_31c_unpack),
   (.f12x, init_12x_unpack),
   (.f11x, init_11x_unpack),
   (.f51l, init_51l_unpack),
   (.f31i, init_31i_unpack),
   (.f22x, init_22x_unpack),
   (.f23x, init_23x_unpack),
   (.f20t, init_20t_unpack),
   (.f21t, init_21t_unpack),
   (.f10t, init_10t_unpack),
   (.f22t, init_22t_unpack),
   (.f22s, init_22s_unpack),
   (.f22b, init_22b_unpack),
   (.f30t, init_30t_unpack),
   (.f3rc, init_3rc_unpack),
   (.f32x, init_32x_unpack),
   (.f20bc, init_20bc_unpack),
   (.f35mi, init_35mi_unpack),
   (.f35ms, init_35ms_unpack),
   (.f3rmi, init_3rmi_unpack),
   (.f3rms, init_3rms_unpack),
   (.f41c, init_41c_unpack),
   (.f40sc, init_40sc_unpack),
   (.f52c, init_52c_unpack),
   (.f5rc, init_5rc_unpack),
   (.f45cc, init_45cc_unpack),
   (.f4rcc, init_4rcc_unpack)]

/-- Every translated constructor unpacks with the struct string and the slice length that
    gen/opcodes.py reads from the source for the model (`Opcodes.unpackFmt`, `Opcodes.length`). -/
theorem unpack_formats_agree :
    unpackTable.all (fun (f, u) =>
      parseFmt u.1.toList none == some (Opcodes.unpackFmt f) && u.2 == Opcodes.length f) = true := by
  decide +kernel

example : unpackTable.length = 36 := by decide


/-! ### from `post` to `decode`: the values come from `struct.unpack` -/

theorem leNat_lt (l : List Nat) (h : ∀ b ∈ l, b < 256) : leNat l < 256 ^ l.length := by
  induction l with
  | nil => simp [leNat]
  | cons b r ih =>
    have hb := h b (by simp)
    have hr := ih (fun x hx => h x (by simp [hx]))
    simp only [leNat, List.length_cons, Nat.pow_succ]
    omega

theorem value_inRange (c : SC) (u : Nat) (h : u < 256 ^ c.size) : c.inRange (c.value u) = true := by
  cases c <;> simp [SC.size] at h <;>
    simp only [SC.inRange, SC.value, Bool.and_eq_true] <;>
    (constructor <;> apply decide_eq_true <;> omega)

theorem unpackGo_inRange (cs : List SC) : ∀ bs : List Nat, (∀ b ∈ bs, b < 256) →
    InRangeL cs (unpackGo cs bs) := by
  induction cs with
  | nil => intro bs _; simp [unpackGo, InRangeL]
  | cons c cs ih =>
    intro bs hb
    simp only [unpackGo, InRangeL]
    refine ⟨value_inRange c _ ?_, ih _ (fun b hx => hb b (List.mem_of_mem_drop hx))⟩
    have h1 := leNat_lt (bs.take c.size) (fun b hx => hb b (List.mem_of_mem_take hx))
    have h2 : (bs.take c.size).length ≤ c.size := by simp [List.length_take]; omega
    exact Nat.lt_of_lt_of_le h1 (Nat.pow_le_pow_right (by decide) h2)

/-- the translated constructor `g` agrees with the model's `decode f` on the bytes `bs`:
    a buffer shorter than the instruction is `struct.error` (the constructor is not entered past
    the unpack), otherwise `g` applied to the unpacked values agrees with the model -/
def DecodeAgrees (f : Fmt) (g : List Int → Option (List (String × Int))) (names : List String)
    (bs : List Nat) : Prop :=
  match unpack (Opcodes.unpackFmt f) (bs.take (Opcodes.length f)) with
  | none => decode f bs = .error .short
  | some vs => Agrees (g vs) names (decode f bs)

theorem decode_agrees (f : Fmt) (hf : f ≠ .f00x) (g : List Int → Option (List (String × Int)))
    (names : List String) (hgen : ∀ vs, InRange f vs → Agrees (g vs) names (post f vs))
    (bs : List Nat) (hb : ∀ b ∈ bs, b < 256) : DecodeAgrees f g names bs := by
  have hd : decode f bs = (match unpack (Opcodes.unpackFmt f) (bs.take (Opcodes.length f)) with
      | none => .error .short | some vs => post f vs) := by
    cases f <;> first | exact absurd rfl hf | rfl
  unfold DecodeAgrees
  rw [hd]
  unfold unpack
  by_cases hl : (bs.take (Opcodes.length f)).length = calcsize (Opcodes.unpackFmt f)
  · simp only [hl, if_true]
    exact hgen _ (unpackGo_inRange _ _ (fun b hx => hb b (List.mem_of_mem_take hx)))
  · simp only [hl, if_false]

/-! one corollary per format -/
theorem decode_35c (bs : List Nat) (hb : ∀ b ∈ bs, b < 256) : DecodeAgrees .f35c init_35c ["A", "BBBB", "C", "D", "E", "F", "G"] bs :=
  decode_agrees .f35c (by decide) init_35c ["A", "BBBB", "C", "D", "E", "F", "G"] init_35c_eq bs hb
theorem decode_10x (bs : List Nat) (hb : ∀ b ∈ bs, b < 256) : DecodeAgrees .f10x init_10x [] bs :=
  decode_agrees .f10x (by decide) init_10x [] init_10x_eq bs hb
theorem decode_21h (bs : List Nat) (hb : ∀ b ∈ bs, b < 256) : DecodeAgrees .f21h init_21h ["AA", "__BBBB", "BBBB"] bs :=
  decode_agrees .f21h (by decide) init_21h ["AA", "__BBBB", "BBBB"] init_21h_eq bs hb
theorem decode_11n (bs : List Nat) (hb : ∀ b ∈ bs, b < 256) : DecodeAgrees .f11n init_11n ["A", "B"] bs :=
  decode_agrees .f11n (by decide) init_11n ["A", "B"] init_11n_eq bs hb
theorem decode_21c (bs : List Nat) (hb : ∀ b ∈ bs, b < 256) : DecodeAgrees .f21c init_21c ["AA", "BBBB"] bs :=
  decode_agrees .f21c (by decide) init_21c ["AA", "BBBB"] init_21c_eq bs hb
theorem decode_21s (bs : List Nat) (hb : ∀ b ∈ bs, b < 256) : DecodeAgrees .f21s init_21s ["AA", "BBBB"] bs :=
  decode_agrees .f21s (by decide) init_21s ["AA", "BBBB"] init_21s_eq bs hb
theorem decode_22c (bs : List Nat) (hb : ∀ b ∈ bs, b < 256) : DecodeAgrees .f22c init_22c ["A", "B", "CCCC"] bs :=
  decode_agrees .f22c (by decide) init_22c ["A", "B", "CCCC"] init_22c_eq bs hb
theorem decode_22cs (bs : List Nat) (hb : ∀ b ∈ bs, b < 256) : DecodeAgrees .f22cs init_22cs ["A", "B", "CCCC"] bs :=
  decode_agrees .f22cs (by decide) init_22cs ["A", "B", "CCCC"] init_22cs_eq bs hb
theorem decode_31t (bs : List Nat) (hb : ∀ b ∈ bs, b < 256) : DecodeAgrees .f31t init_31t ["AA", "BBBBBBBB"] bs :=
  decode_agrees .f31t (by decide) init_31t ["AA", "BBBBBBBB"] init_31t_eq bs hb
theorem decode_31c (bs : List Nat) (hb : ∀ b ∈ bs, b < 256) : DecodeAgrees .f31c init_31c ["AA", "BBBBBBBB"] bs :=
  decode_agrees .f31c (by decide) init_31c ["AA", "BBBBBBBB"] init_31c_eq bs hb
theorem decode_12x (bs : List Nat) (hb : ∀ b ∈ bs, b < 256) : DecodeAgrees .f12x init_12x ["A", "B"] bs :=
  decode_agrees .f12x (by decide) init_12x ["A", "B"] init_12x_eq bs hb
theorem decode_11x (bs : List Nat) (hb : ∀ b ∈ bs, b < 256) : DecodeAgrees .f11x init_11x ["AA"] bs :=
  decode_agrees .f11x (by decide) init_11x ["AA"] init_11x_eq bs hb
theorem decode_51l (bs : List Nat) (hb : ∀ b ∈ bs, b < 256) : DecodeAgrees .f51l init_51l ["AA", "BBBBBBBBBBBBBBBB"] bs :=
  decode_agrees .f51l (by decide) init_51l ["AA", "BBBBBBBBBBBBBBBB"] init_51l_eq bs hb
theorem decode_31i (bs : List Nat) (hb : ∀ b ∈ bs, b < 256) : DecodeAgrees .f31i init_31i ["AA", "BBBBBBBB"] bs :=
  decode_agrees .f31i (by decide) init_31i ["AA", "BBBBBBBB"] init_31i_eq bs hb
theorem decode_22x (bs : List Nat) (hb : ∀ b ∈ bs, b < 256) : DecodeAgrees .f22x init_22x ["AA", "BBBB"] bs :=
  decode_agrees .f22x (by decide) init_22x ["AA", "BBBB"] init_22x_eq bs hb
theorem decode_23x (bs : List Nat) (hb : ∀ b ∈ bs, b < 256) : DecodeAgrees .f23x init_23x ["AA", "BB", "CC"] bs :=
  decode_agrees .f23x (by decide) init_23x ["AA", "BB", "CC"] init_23x_eq bs hb
theorem decode_20t (bs : List Nat) (hb : ∀ b ∈ bs, b < 256) : DecodeAgrees .f20t init_20t ["AAAA"] bs :=
  decode_agrees .f20t (by decide) init_20t ["AAAA"] init_20t_eq bs hb
theorem decode_21t (bs : List Nat) (hb : ∀ b ∈ bs, b < 256) : DecodeAgrees .f21t init_21t ["AA", "BBBB"] bs :=
  decode_agrees .f21t (by decide) init_21t ["AA", "BBBB"] init_21t_eq bs hb
theorem decode_10t (bs : List Nat) (hb : ∀ b ∈ bs, b < 256) : DecodeAgrees .f10t init_10t ["AA"] bs :=
  decode_agrees .f10t (by decide) init_10t ["AA"] init_10t_eq bs hb
theorem decode_22t (bs : List Nat) (hb : ∀ b ∈ bs, b < 256) : DecodeAgrees .f22t init_22t ["A", "B", "CCCC"] bs :=
  decode_agrees .f22t (by decide) init_22t ["A", "B", "CCCC"] init_22t_eq bs hb
theorem decode_22s (bs : List Nat) (hb : ∀ b ∈ bs, b < 256) : DecodeAgrees .f22s init_22s ["A", "B", "CCCC"] bs :=
  decode_agrees .f22s (by decide) init_22s ["A", "B", "CCCC"] init_22s_eq bs hb
theorem decode_22b (bs : List Nat) (hb : ∀ b ∈ bs, b < 256) : DecodeAgrees .f22b init_22b ["AA", "BB", "CC"] bs :=
  decode_agrees .f22b (by decide) init_22b ["AA", "BB", "CC"] init_22b_eq bs hb
theorem decode_30t (bs : List Nat) (hb : ∀ b ∈ bs, b < 256) : DecodeAgrees .f30t init_30t ["AAAAAAAA"] bs :=
  decode_agrees .f30t (by decide) init_30t ["AAAAAAAA"] init_30t_eq bs hb
theorem decode_3rc (bs : List Nat) (hb : ∀ b ∈ bs, b < 256) : DecodeAgrees .f3rc init_3rc ["AA", "BBBB", "CCCC"] bs :=
  decode_agrees .f3rc (by decide) init_3rc ["AA", "BBBB", "CCCC"] init_3rc_eq bs hb
theorem decode_32x (bs : List Nat) (hb : ∀ b ∈ bs, b < 256) : DecodeAgrees .f32x init_32x ["AAAA", "BBBB"] bs :=
  decode_agrees .f32x (by decide) init_32x ["AAAA", "BBBB"] init_32x_eq bs hb
theorem decode_20bc (bs : List Nat) (hb : ∀ b ∈ bs, b < 256) : DecodeAgrees .f20bc init_20bc ["AA", "BBBB"] bs :=
  decode_agrees .f20bc (by decide) init_20bc ["AA", "BBBB"] init_20bc_eq bs hb
theorem decode_35mi (bs : List Nat) (hb : ∀ b ∈ bs, b < 256) : DecodeAgrees .f35mi init_35mi ["A", "BBBB", "C", "D", "E", "F", "G"] bs :=
  decode_agrees .f35mi (by decide) init_35mi ["A", "BBBB", "C", "D", "E", "F", "G"] init_35mi_eq bs hb
theorem decode_35ms (bs : List Nat) (hb : ∀ b ∈ bs, b < 256) : DecodeAgrees .f35ms init_35ms ["A", "BBBB", "C", "D", "E", "F", "G"] bs :=
  decode_agrees .f35ms (by decide) init_35ms ["A", "BBBB", "C", "D", "E", "F", "G"] init_35ms_eq bs hb
theorem decode_3rmi (bs : List Nat) (hb : ∀ b ∈ bs, b < 256) : DecodeAgrees .f3rmi init_3rmi ["AA", "BBBB", "CCCC"] bs :=
  decode_agrees .f3rmi (by decide) init_3rmi ["AA", "BBBB", "CCCC"] init_3rmi_eq bs hb
theorem decode_3rms (bs : List Nat) (hb : ∀ b ∈ bs, b < 256) : DecodeAgrees .f3rms init_3rms ["AA", "BBBB", "CCCC"] bs :=
  decode_agrees .f3rms (by decide) init_3rms ["AA", "BBBB", "CCCC"] init_3rms_eq bs hb
theorem decode_41c (bs : List Nat) (hb : ∀ b ∈ bs, b < 256) : DecodeAgrees .f41c init_41c ["BBBBBBBB", "AAAA"] bs :=
  decode_agrees .f41c (by decide) init_41c ["BBBBBBBB", "AAAA"] init_41c_eq bs hb
theorem decode_40sc (bs : List Nat) (hb : ∀ b ∈ bs, b < 256) : DecodeAgrees .f40sc init_40sc ["BBBBBBBB", "AAAA"] bs :=
  decode_agrees .f40sc (by decide) init_40sc ["BBBBBBBB", "AAAA"] init_40sc_eq bs hb
theorem decode_52c (bs : List Nat) (hb : ∀ b ∈ bs, b < 256) : DecodeAgrees .f52c init_52c ["CCCCCCCC", "AAAA", "BBBB"] bs :=
  decode_agrees .f52c (by decide) init_52c ["CCCCCCCC", "AAAA", "BBBB"] init_52c_eq bs hb
theorem decode_5rc (bs : List Nat) (hb : ∀ b ∈ bs, b < 256) : DecodeAgrees .f5rc init_5rc ["BBBBBBBB", "AAAA", "CCCC"] bs :=
  decode_agrees .f5rc (by decide) init_5rc ["BBBBBBBB", "AAAA", "CCCC"] init_5rc_eq bs hb
theorem decode_45cc (bs : List Nat) (hb : ∀ b ∈ bs, b < 256) : DecodeAgrees .f45cc init_45cc ["A", "BBBB", "C", "D", "E", "F", "G", "HHHH"] bs :=
  decode_agrees .f45cc (by decide) init_45cc ["A", "BBBB", "C", "D", "E", "F", "G", "HHHH"] init_45cc_eq bs hb
theorem decode_4rcc (bs : List Nat) (hb : ∀ b ∈ bs, b < 256) : DecodeAgrees .f4rcc init_4rcc ["AA", "BBBB", "CCCC", "HHHH"] bs :=
  decode_agrees .f4rcc (by decide) init_4rcc ["AA", "BBBB", "CCCC", "HHHH"] init_4rcc_eq bs hb

/-- All 36 constructors at once (for Props/C01.lean): on every byte list, each `Instruction<fmt>.__init__`
    as translated from the source today agrees with the model's `decode` of that format. -/
theorem source_constructors_agree (bs : List Nat) (hb : ∀ b ∈ bs, b < 256) :
    DecodeAgrees .f35c init_35c ["A", "BBBB", "C", "D", "E", "F", "G"] bs ∧
    DecodeAgrees .f10x init_10x [] bs ∧
    DecodeAgrees .f21h init_21h ["AA", "__BBBB", "BBBB"] bs ∧
    DecodeAgrees .f11n init_11n ["A", "B"] bs ∧
    DecodeAgrees .f21c init_21c ["AA", "BBBB"] bs ∧
    DecodeAgrees .f21s init_21s ["AA", "BBBB"] bs ∧
    DecodeAgrees .f22c init_22c ["A", "B", "CCCC"] bs ∧
    DecodeAgrees .f22cs init_22cs ["A", "B", "CCCC"] bs ∧
    DecodeAgrees .f31t init_31t ["AA", "BBBBBBBB"] bs ∧
    DecodeAgrees .f31c init_31c ["AA", "BBBBBBBB"] bs ∧
    DecodeAgrees .f12x init_12x ["A", "B"] bs ∧
    DecodeAgrees .f11x init_11x ["AA"] bs ∧
    DecodeAgrees .f51l init_51l ["AA", "BBBBBBBBBBBBBBBB"] bs ∧
    DecodeAgrees .f31i init_31i ["AA", "BBBBBBBB"] bs ∧
    DecodeAgrees .f22x init_22x ["AA", "BBBB"] bs ∧
    DecodeAgrees .f23x init_23x ["AA", "BB", "CC"] bs ∧
    DecodeAgrees .f20t init_20t ["AAAA"] bs ∧
    DecodeAgrees .f21t init_21t ["AA", "BBBB"] bs ∧
    DecodeAgrees .f10t init_10t ["AA"] bs ∧
    DecodeAgrees .f22t init_22t ["A", "B", "CCCC"] bs ∧
    DecodeAgrees .f22s init_22s ["A", "B", "CCCC"] bs ∧
    DecodeAgrees .f22b init_22b ["AA", "BB", "CC"] bs ∧
    DecodeAgrees .f30t init_30t ["AAAAAAAA"] bs ∧
    DecodeAgrees .f3rc init_3rc ["AA", "BBBB", "CCCC"] bs ∧
    DecodeAgrees .f32x init_32x ["AAAA", "BBBB"] bs ∧
    DecodeAgrees .f20bc init_20bc ["AA", "BBBB"] bs ∧
    DecodeAgrees .f35mi init_35mi ["A", "BBBB", "C", "D", "E", "F", "G"] bs ∧
    DecodeAgrees .f35ms init_35ms ["A", "BBBB", "C", "D", "E", "F", "G"] bs ∧
    DecodeAgrees .f3rmi init_3rmi ["AA", "BBBB", "CCCC"] bs ∧
    DecodeAgrees .f3rms init_3rms ["AA", "BBBB", "CCCC"] bs ∧
    DecodeAgrees .f41c init_41c ["BBBBBBBB", "AAAA"] bs ∧
    DecodeAgrees .f40sc init_40sc ["BBBBBBBB", "AAAA"] bs ∧
    DecodeAgrees .f52c init_52c ["CCCCCCCC", "AAAA", "BBBB"] bs ∧
    DecodeAgrees .f5rc init_5rc ["BBBBBBBB", "AAAA", "CCCC"] bs ∧
    DecodeAgrees .f45cc init_45cc ["A", "BBBB", "C", "D", "E", "F", "G", "HHHH"] bs ∧
    DecodeAgrees .f4rcc init_4rcc ["AA", "BBBB", "CCCC", "HHHH"] bs :=
  ⟨decode_35c bs hb, decode_10x bs hb, decode_21h bs hb, decode_11n bs hb, decode_21c bs hb, decode_21s bs hb, decode_22c bs hb, decode_22cs bs hb, decode_31t bs hb, decode_31c bs hb, decode_12x bs hb, decode_11x bs hb, decode_51l bs hb, decode_31i bs hb, decode_22x bs hb, decode_23x bs hb, decode_20t bs hb, decode_21t bs hb, decode_10t bs hb, decode_22t bs hb, decode_22s bs hb, decode_22b bs hb, decode_30t bs hb, decode_3rc bs hb, decode_32x bs hb, decode_20bc bs hb, decode_35mi bs hb, decode_35ms bs hb, decode_3rmi bs hb, decode_3rms bs hb, decode_41c bs hb, decode_40sc bs hb, decode_52c bs hb, decode_5rc bs hb, decode_45cc bs hb, decode_4rcc bs hb⟩

example : init_22c [0x2152, 7] = some [("CCCC", 7), ("OP", 0x52), ("A", 1), ("B", 2)] := by decide
example : init_10x [0x0e, 1] = none := by decide

end AgVerif.PyInsn
