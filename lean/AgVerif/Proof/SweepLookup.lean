/-
C02: `DCode.off_to_pos` / `DCode.get_ins_off` look an instruction up by its byte offset = prefix sum of the
lengths of the instructions before it.
-/
import AgVerif.Proof.Sweep
set_option linter.unusedVariables false
namespace AgVerif.Sweep
open AgVerif.Insn AgVerif.Gen

/-- the yielded list is the list of its items laid out from the start index: the recorded offsets are the running
    `idx` of the Python loops in `off_to_pos` / `get_ins_off` -/
theorem sweepFrom_withOffsets (odex : Bool) (bs : List Nat) (maxIdx : Nat) :
    ∀ (n idx : Nat), maxIdx - idx ≤ n →
      (sweepFrom odex bs maxIdx idx).1 = withOffsets idx ((sweepFrom odex bs maxIdx idx).1.map Prod.snd) ∧
      ∀ p ∈ (sweepFrom odex bs maxIdx idx).1, 0 < p.2.length := by
  intro n
  induction n with
  | zero =>
    intro idx hn
    rw [sweepFrom_eq, if_neg (by omega)]
    exact ⟨rfl, by simp⟩
  | succ n ih =>
    intro idx hn
    rw [sweepFrom_eq]
    split
    · split
      · exact ⟨rfl, by simp⟩
      · rename_i it hs
        have hpos := step_len_pos hs
        obtain ⟨h1, h2⟩ := ih (idx + it.length) (by omega)
        refine ⟨?_, ?_⟩
        · simp only [List.map_cons, withOffsets]
          rw [← h1]
        · intro p hp
          simp only [List.mem_cons] at hp
          rcases hp with rfl | hp
          · exact hpos
          · exact h2 p hp
    · exact ⟨rfl, by simp⟩

/-- byte offset of the `n`-th item: the sum of the lengths before it -/
def offsetOf (prog : List Item) (n : Nat) : Nat := totalLen (prog.take n)

theorem lookup_hit : ∀ (prog : List Item) (idx n : Nat), (∀ it ∈ prog, 0 < it.length) → (hn : n < prog.length) →
    (withOffsets idx prog).findIdx? (fun p => p.1 == idx + offsetOf prog n) = some n ∧
    (withOffsets idx prog).find? (fun p => p.1 == idx + offsetOf prog n) = some (idx + offsetOf prog n, prog[n]) := by
  intro prog
  induction prog with
  | nil => intro idx n _ hn; simp at hn
  | cons it r ih =>
    intro idx n hpos hn
    cases n with
    | zero =>
      simp [withOffsets, offsetOf, totalLen, List.findIdx?_cons]
    | succ n =>
      have hit : 0 < it.length := hpos it (List.mem_cons_self)
      have hn' : n < r.length := by simpa using hn
      obtain ⟨h1, h2⟩ := ih (idx + it.length) n (fun x hx => hpos x (List.mem_cons_of_mem _ hx)) hn'
      have e : idx + offsetOf (it :: r) (n + 1) = idx + it.length + offsetOf r n := by
        simp only [offsetOf, List.take_succ_cons, totalLen]; omega
      have hne : (idx == idx + it.length + offsetOf r n) = false := by
        simp only [beq_eq_false_iff_ne, ne_eq]; omega
      rw [e]
      simp only [withOffsets, List.findIdx?_cons, List.find?_cons, hne, h1, h2, Option.map_some,
        List.getElem_cons_succ]
      simp

theorem lookup_miss : ∀ (prog : List Item) (idx off : Nat), (∀ n, n < prog.length → off ≠ idx + offsetOf prog n) →
    (withOffsets idx prog).findIdx? (fun p => p.1 == off) = none ∧
    (withOffsets idx prog).find? (fun p => p.1 == off) = none := by
  intro prog
  induction prog with
  | nil => intro idx off _; simp [withOffsets]
  | cons it r ih =>
    intro idx off h
    have h0 : off ≠ idx := by
      have := h 0 (by simp)
      simpa [offsetOf, totalLen] using this
    have hr : ∀ n, n < r.length → off ≠ idx + it.length + offsetOf r n := by
      intro n hn
      have := h (n + 1) (by simpa using hn)
      simp only [offsetOf, List.take_succ_cons, totalLen] at this
      simp only [offsetOf]
      omega
    obtain ⟨h1, h2⟩ := ih (idx + it.length) off hr
    have hne : (idx == off) = false := by
      simp only [beq_eq_false_iff_ne, ne_eq]; omega
    simp [withOffsets, List.findIdx?_cons, List.find?_cons, hne, h1, h2]

/-- `off_to_pos` / `get_ins_off` on a laid-out item list: the position / the item whose offset is the prefix sum -/
theorem offToPos_hit (prog : List Item) (n : Nat) (hpos : ∀ it ∈ prog, 0 < it.length) (hn : n < prog.length) :
    offToPos (withOffsets 0 prog) (offsetOf prog n) = (n : Int) ∧
    getInsOff (withOffsets 0 prog) (offsetOf prog n) = some prog[n] := by
  obtain ⟨h1, h2⟩ := lookup_hit prog 0 n hpos hn
  simp only [Nat.zero_add] at h1 h2
  simp [offToPos, getInsOff, h1, h2]

theorem offToPos_miss (prog : List Item) (off : Nat) (h : ∀ n, n < prog.length → off ≠ offsetOf prog n) :
    offToPos (withOffsets 0 prog) off = -1 ∧ getInsOff (withOffsets 0 prog) off = none := by
  obtain ⟨h1, h2⟩ := lookup_miss prog 0 off (by simpa using h)
  simp [offToPos, getInsOff, h1, h2]

end AgVerif.Sweep
