/-
C05, file level, extension by static values (vocabulary of `parse_encode_static_values`).

  TablesX     the base tables plus the encoded_array_item section: every array with the values it
              denotes (format document, AgVerif.Spec.EncodedValue) and its bytes
  EncodesX    `file` holds the base tables, and the section 0x2005 at the offset its map entry gives
              as the concatenation of the arrays' encodings; no annotation sections (this step)
  WFX         decidable well-formedness on top of WF: an array section comes with the four id
              sections its values may refer to; class defs have no annotations directory (this
              step); static_values_off ≠ 0 designates a stored array when the class has class data
  poolsOf     the id sections as lookups (what `cm.get_raw_string / get_type / get_field / get_method`
              return on the loaded file)
  tablesCMX   the extended ClassManager state the tables denote
  declaredX   the extended view the tables denote
-/
import AgVerif.Proof.DexTables
import AgVerif.Proof.DexXValue
namespace AgVerif.C05
open AgVerif.DexFile AgVerif.LoadOrder AgVerif.DexX
open AgVerif.EncodedValue (Value embed toCM)
open AgVerif.Spec.EncodedValue (SValue Pools)

structure TablesX where
  base : Tables
  encArrays : List (List SValue × Bytes)      -- values and an encoding of them (EncArray)

/-- what the ClassManager lookups of EncodedValue return on the loaded file -/
def poolsOf (T : Tables) (L : Layout) : Pools where
  string := fun i => bstr (strAt T L i)
  type := fun i => bstr (typeAt T L i)
  field := fun i =>
    match (T.fieldIds.map (fieldR T L))[i]? with
    | none => ["AG:IFI:invalid_class_name;", "(AG:IFI:invalid_type)", "AG:IFI:invalid_name"]
    | some r => [bstr r.clsS, bstr r.typS, bstr r.nameS]
  method := fun i =>
    match (T.methodIds.map (methodR T L))[i]? with
    | none => ["AG:IMI:invalid_class_name;", "AG:IMI:invalid_name", "()AG:IMI:invalid_proto"]
    | some r => [bstr r.clsS, bstr r.nameS, bstr r.paramsS, bstr r.retS]

def TablesX.eaItems (TX : TablesX) (L : Layout) : List (List Value × Bytes) :=
  TX.encArrays.map fun p => (p.1.map (embed (poolsOf TX.base L)), p.2)

/-- the arrays keyed by the offsets the layout gives them -/
def eaTab (TX : TablesX) (L : Layout) : List (Nat × List Value) := tab L 0x2005 (TX.eaItems L)

/-- no annotation sections (this step of the extension) -/
def NoAnn (L : Layout) : Prop :=
  L.sec 0x2004 = none ∧ L.sec 0x1003 = none ∧ L.sec 0x1002 = none ∧ L.sec 0x2006 = none

instance (L : Layout) : Decidable (NoAnn L) := by unfold NoAnn; exact inferInstance

structure EncodesX (file : Bytes) (L : Layout) (TX : TablesX) : Prop where
  base : Encodes file L TX.base
  arrays : ∀ p ∈ TX.encArrays, EncArray p.2 p.1
  encArrays : Section file L 0x2005 TX.encArrays.length (bytesOf TX.encArrays) false
  noAnn : NoAnn L

/-- the static values of a class def: the array stored at static_values_off (None for 0 and when
    no array starts there) -/
def staticsAt (TX : TablesX) (L : Layout) (off : Nat) : Option (List Value) :=
  if off = 0 then none else lookupOff off (eaTab TX L)

def classXOf (TX : TablesX) (L : Layout) (c : ClassDef) : ClassX := ⟨none, staticsAt TX L c.staticOff⟩

/-- the set_static_fields call of a class def, if it makes one -/
def initOf (TX : TablesX) (L : Layout) (c : ClassDef) : Option (Nat × List Value) :=
  match classDataAt TX.base L c.dataOff, staticsAt TX L c.staticOff with
  | some _, some vs => some (c.dataOff, vs)
  | _, _ => none

structure WFX (TX : TablesX) (L : Layout) : Prop where
  base : WF TX.base L
  arraySecs : TX.encArrays ≠ [] →
    (L.sec 0x0001).isSome ∧ (L.sec 0x0002).isSome ∧ (L.sec 0x0004).isSome ∧ (L.sec 0x0005).isSome
  noDirs : ∀ c ∈ TX.base.classDefs, c.annOff = 0
  statics : ∀ c ∈ TX.base.classDefs, c.staticOff ≠ 0 →
    (L.sec 0x2005).isSome ∧ ((classDataAt TX.base L c.dataOff).isSome → (staticsAt TX L c.staticOff).isSome)

instance (TX : TablesX) (L : Layout) : Decidable (WFX TX L) :=
  decidable_of_iff
    (WF TX.base L ∧
     (TX.encArrays ≠ [] →
        (L.sec 0x0001).isSome ∧ (L.sec 0x0002).isSome ∧ (L.sec 0x0004).isSome ∧ (L.sec 0x0005).isSome) ∧
     (∀ c ∈ TX.base.classDefs, c.annOff = 0) ∧
     (∀ c ∈ TX.base.classDefs, c.staticOff ≠ 0 →
        (L.sec 0x2005).isSome ∧ ((classDataAt TX.base L c.dataOff).isSome → (staticsAt TX L c.staticOff).isSome)))
    ⟨fun ⟨h1, h2, h3, h4⟩ => ⟨h1, h2, h3, h4⟩, fun h => ⟨h.base, h.arraySecs, h.noDirs, h.statics⟩⟩

/-- the extended ClassManager state the tables denote -/
def tablesCMX (TX : TablesX) (L : Layout) : CMx :=
  { base := tablesCM TX.base L
    encArrays := (L.sec 0x2005).map fun _ => eaTab TX L
    classX := (L.sec 0x0006).elim [] fun _ => TX.base.classDefs.map (classXOf TX L)
    inits := (L.sec 0x0006).elim [] fun _ => TX.base.classDefs.filterMap (initOf TX L) }

/-- the extended view of one class: init value of static field i = the values bound by the recorded
    set_static_fields calls on its class data item -/
def classVX (TX : TablesX) (L : Layout) (c : ClassDef) : ClassVX :=
  { base := classV TX.base L c
    inits := match classDataAt TX.base L c.dataOff with
      | none => []
      | some d => initsOf (TX.base.classDefs.filterMap (initOf TX L)) c.dataOff d.sf.length
    statics := staticsAt TX L c.staticOff
    annDir := none
    annotations := [] }

def declaredX (TX : TablesX) (L : Layout) : DexVX :=
  ⟨declared TX.base L, TX.base.classDefs.map (classVX TX L)⟩

end AgVerif.C05
