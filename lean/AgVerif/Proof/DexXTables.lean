/-
C05, file level, extension by static values and annotations (vocabulary of
`parse_encode_static_values` / `parse_encode_annotations`).

  TablesX     the base tables plus five sections: encoded_array_item (every array with the values it
              denotes — format document, AgVerif.Spec.EncodedValue — and its bytes), annotation_item
              (visibility, type, elements, bytes), annotation_set_item and annotation_set_ref_list
              (offset lists), annotations_directory_item (offset records)
  EncodesX    `file` holds the base tables and each of the five sections at the offset its map entry
              gives, as the concatenation of the encodings of its rows
  WFX         decidable well-formedness on top of WF: value ranges; a section with encoded values
              comes with the four id sections its values may refer to; a class def that names an
              annotations directory / static values comes with that section; static_values_off
              designates a stored array when the class has class data; the class annotation set of a
              found directory designates stored annotation items
  poolsOf     the id sections as lookups (what `cm.get_raw_string / get_type / get_field / get_method`
              return on the loaded file)
  tablesCMX   the extended ClassManager state the tables denote
  declaredX   the extended view the tables denote
-/
import AgVerif.Proof.DexTables
import AgVerif.Proof.DexXValue
namespace AgVerif.C05
open AgVerif.DexFile AgVerif.LoadOrder AgVerif.DexX
open AgVerif.EncodedValue (Value embed toCM)
open AgVerif.Spec.EncodedValue (SValue Pools)

/-- annotation_item as the format document has it: visibility, type_idx, (name_idx, value) elements -/
structure AnnRow where
  visibility : Nat
  typeIdx : Nat
  elems : List (Nat × SValue)

structure TablesX where
  base : Tables
  encArrays : List (List SValue × Bytes)      -- values and an encoding of them (EncArray)
  annItems : List (AnnRow × Bytes) := []       -- content and an encoding of it (EncAnnItem)
  annSets : List (List Nat) := []              -- annotation_set_item: annotation_off entries
  annRefs : List (List Nat) := []              -- annotation_set_ref_list: annotations_off entries
  annDirs : List AnnDir := []                  -- annotations_directory_item

/-- what the ClassManager lookups of EncodedValue return on the loaded file -/
def poolsOf (T : Tables) (L : Layout) : Pools where
  string := fun i => bstr (strAt T L i)
  type := fun i => bstr (typeAt T L i)
  field := fun i =>
    match (T.fieldIds.map (fieldR T L))[i]? with
    | none => ["AG:IFI:invalid_class_name;", "(AG:IFI:invalid_type)", "AG:IFI:invalid_name"]
    | some r => [bstr r.clsS, bstr r.typS, bstr r.nameS]
  method := fun i =>
    match (T.methodIds.map (methodR T L))[i]? with
    | none => ["AG:IMI:invalid_class_name;", "AG:IMI:invalid_name", "()AG:IMI:invalid_proto"]
    | some r => [bstr r.clsS, bstr r.nameS, bstr r.paramsS, bstr r.retS]

def TablesX.eaItems (TX : TablesX) (L : Layout) : List (List Value × Bytes) :=
  TX.encArrays.map fun p => (p.1.map (embed (poolsOf TX.base L)), p.2)

def annItemOf (P : Pools) (r : AnnRow) : AnnItem :=
  ⟨r.visibility, r.typeIdx, r.elems.map fun e => (e.1, embed P e.2)⟩

def TablesX.aiItems (TX : TablesX) (L : Layout) : List (AnnItem × Bytes) :=
  TX.annItems.map fun p => (annItemOf (poolsOf TX.base L) p.1, p.2)

def TablesX.setItems (TX : TablesX) : List (List Nat × Bytes) := TX.annSets.map fun l => (l, encOffList l)
def TablesX.refItems (TX : TablesX) : List (List Nat × Bytes) := TX.annRefs.map fun l => (l, encOffList l)
def TablesX.dirItems (TX : TablesX) : List (AnnDir × Bytes) := TX.annDirs.map fun d => (d, encAnnDir d)

/-- the rows keyed by the offsets the layout gives them -/
def eaTab (TX : TablesX) (L : Layout) : List (Nat × List Value) := tab L 0x2005 (TX.eaItems L)
def aiTab (TX : TablesX) (L : Layout) : List (Nat × AnnItem) := tab L 0x2004 (TX.aiItems L)
def setTab (TX : TablesX) (L : Layout) : List (Nat × List Nat) := tab L 0x1003 TX.setItems
def refTab (TX : TablesX) (L : Layout) : List (Nat × List Nat) := tab L 0x1002 TX.refItems
def dirTab (TX : TablesX) (L : Layout) : List (Nat × AnnDir) := tab L 0x2006 TX.dirItems

/-- no annotation sections (the hypothesis of the first step, `parse_encode_static_values`) -/
def NoAnn (L : Layout) : Prop :=
  L.sec 0x2004 = none ∧ L.sec 0x1003 = none ∧ L.sec 0x1002 = none ∧ L.sec 0x2006 = none

instance (L : Layout) : Decidable (NoAnn L) := by unfold NoAnn; exact inferInstance

structure EncodesX (file : Bytes) (L : Layout) (TX : TablesX) : Prop where
  base : Encodes file L TX.base
  arrays : ∀ p ∈ TX.encArrays, EncArray p.2 p.1
  items : ∀ p ∈ TX.annItems, EncAnnItem p.2 p.1.visibility p.1.typeIdx p.1.elems
  encArrays : Section file L 0x2005 TX.encArrays.length (bytesOf TX.encArrays) false
  annItems : Section file L 0x2004 TX.annItems.length (bytesOf TX.annItems) false
  annSets : Section file L 0x1003 TX.annSets.length (bytesOf TX.setItems) true
  annRefs : Section file L 0x1002 TX.annRefs.length (bytesOf TX.refItems) true
  annDirs : Section file L 0x2006 TX.annDirs.length (bytesOf TX.dirItems) true

/-- the static values of a class def: the array stored at static_values_off (None for 0 and when
    no array starts there) -/
def staticsAt (TX : TablesX) (L : Layout) (off : Nat) : Option (List Value) :=
  if off = 0 then none else lookupOff off (eaTab TX L)

/-- the annotations directory of a class def -/
def annDirAt (TX : TablesX) (L : Layout) (off : Nat) : Option AnnDir :=
  if off = 0 then none else lookupOff off (dirTab TX L)

def classXOf (TX : TablesX) (L : Layout) (c : ClassDef) : ClassX :=
  ⟨annDirAt TX L c.annOff, staticsAt TX L c.staticOff⟩

/-- the set_static_fields call of a class def, if it makes one -/
def initOf (TX : TablesX) (L : Layout) (c : ClassDef) : Option (Nat × List Value) :=
  match classDataAt TX.base L c.dataOff, staticsAt TX L c.staticOff with
  | some _, some vs => some (c.dataOff, vs)
  | _, _ => none

/-- the annotation_off entries of the class annotation set of a class def ([]: no directory, or no
    set stored at class_annotations_off) -/
def classAnnOffs (TX : TablesX) (L : Layout) (c : ClassDef) : List Nat :=
  match annDirAt TX L c.annOff with
  | none => []
  | some d => (lookupOff d.classOff (setTab TX L)).getD []

/-- ClassDefItem.get_annotations(): the type descriptors of the class annotations -/
def annotationsAt (TX : TablesX) (L : Layout) (c : ClassDef) : List Bytes :=
  (classAnnOffs TX L c).map fun off =>
    match lookupOff off (aiTab TX L) with
    | some it => typeAt TX.base L it.typeIdx
    | none => []           -- WFX: isSome

def OffListOk (l : List Nat) : Prop := l.length < 2 ^ 32 ∧ ∀ x ∈ l, x < 2 ^ 32
def PairsOk (l : List (Nat × Nat)) : Prop := l.length < 2 ^ 32 ∧ ∀ p ∈ l, p.1 < 2 ^ 32 ∧ p.2 < 2 ^ 32
def AnnDirOk (d : AnnDir) : Prop := d.classOff < 2 ^ 32 ∧ PairsOk d.fields ∧ PairsOk d.methods ∧ PairsOk d.params

instance (l : List Nat) : Decidable (OffListOk l) := by unfold OffListOk; exact inferInstance
instance (l : List (Nat × Nat)) : Decidable (PairsOk l) := by unfold PairsOk; exact inferInstance
instance (d : AnnDir) : Decidable (AnnDirOk d) := by unfold AnnDirOk; exact inferInstance

structure WFX (TX : TablesX) (L : Layout) : Prop where
  base : WF TX.base L
  /- value ranges of the offset records -/
  setsOk : ∀ l ∈ TX.annSets, OffListOk l
  refsOk : ∀ l ∈ TX.annRefs, OffListOk l
  dirsOk : ∀ d ∈ TX.annDirs, AnnDirOk d
  /- sections with encoded values come with the id sections -/
  arraySecs : TX.encArrays ≠ [] →
    (L.sec 0x0001).isSome ∧ (L.sec 0x0002).isSome ∧ (L.sec 0x0004).isSome ∧ (L.sec 0x0005).isSome
  itemSecs : TX.annItems ≠ [] →
    (L.sec 0x0001).isSome ∧ (L.sec 0x0002).isSome ∧ (L.sec 0x0004).isSome ∧ (L.sec 0x0005).isSome
  /- a class def that names a directory / static values comes with that section -/
  dirs : ∀ c ∈ TX.base.classDefs, c.annOff ≠ 0 → (L.sec 0x2006).isSome
  statics : ∀ c ∈ TX.base.classDefs, c.staticOff ≠ 0 →
    (L.sec 0x2005).isSome ∧ ((classDataAt TX.base L c.dataOff).isSome → (staticsAt TX L c.staticOff).isSome)
  /- the class annotation set of a found directory: the set section exists, and the entries of a
     found set designate stored annotation items -/
  classSets : ∀ c ∈ TX.base.classDefs, (annDirAt TX L c.annOff).isSome → (L.sec 0x1003).isSome
  classItems : ∀ c ∈ TX.base.classDefs, ∀ off ∈ classAnnOffs TX L c,
    (L.sec 0x2004).isSome ∧ (lookupOff off (aiTab TX L)).isSome

instance (TX : TablesX) (L : Layout) : Decidable (WFX TX L) :=
  decidable_of_iff
    (WF TX.base L ∧ (∀ l ∈ TX.annSets, OffListOk l) ∧ (∀ l ∈ TX.annRefs, OffListOk l) ∧ (∀ d ∈ TX.annDirs, AnnDirOk d) ∧
     (TX.encArrays ≠ [] →
        (L.sec 0x0001).isSome ∧ (L.sec 0x0002).isSome ∧ (L.sec 0x0004).isSome ∧ (L.sec 0x0005).isSome) ∧
     (TX.annItems ≠ [] →
        (L.sec 0x0001).isSome ∧ (L.sec 0x0002).isSome ∧ (L.sec 0x0004).isSome ∧ (L.sec 0x0005).isSome) ∧
     (∀ c ∈ TX.base.classDefs, c.annOff ≠ 0 → (L.sec 0x2006).isSome) ∧
     (∀ c ∈ TX.base.classDefs, c.staticOff ≠ 0 →
        (L.sec 0x2005).isSome ∧ ((classDataAt TX.base L c.dataOff).isSome → (staticsAt TX L c.staticOff).isSome)) ∧
     (∀ c ∈ TX.base.classDefs, (annDirAt TX L c.annOff).isSome → (L.sec 0x1003).isSome) ∧
     (∀ c ∈ TX.base.classDefs, ∀ off ∈ classAnnOffs TX L c,
        (L.sec 0x2004).isSome ∧ (lookupOff off (aiTab TX L)).isSome))
    ⟨fun ⟨h1, h2, h3, h4, h5, h6, h7, h8, h9, h10⟩ => ⟨h1, h2, h3, h4, h5, h6, h7, h8, h9, h10⟩,
     fun h => ⟨h.base, h.setsOk, h.refsOk, h.dirsOk, h.arraySecs, h.itemSecs, h.dirs, h.statics, h.classSets,
       h.classItems⟩⟩

/-- the extended ClassManager state the tables denote -/
def tablesCMX (TX : TablesX) (L : Layout) : CMx :=
  { base := tablesCM TX.base L
    encArrays := (L.sec 0x2005).map fun _ => eaTab TX L
    annItems := (L.sec 0x2004).map fun _ => aiTab TX L
    annSets := (L.sec 0x1003).map fun _ => setTab TX L
    annRefs := (L.sec 0x1002).map fun _ => refTab TX L
    annDirs := (L.sec 0x2006).map fun _ => dirTab TX L
    classX := (L.sec 0x0006).elim [] fun _ => TX.base.classDefs.map (classXOf TX L)
    inits := (L.sec 0x0006).elim [] fun _ => TX.base.classDefs.filterMap (initOf TX L) }

/-- the extended view of one class: init value of static field i = the values bound by the recorded
    set_static_fields calls on its class data item -/
def classVX (TX : TablesX) (L : Layout) (c : ClassDef) : ClassVX :=
  { base := classV TX.base L c
    inits := match classDataAt TX.base L c.dataOff with
      | none => []
      | some d => initsOf (TX.base.classDefs.filterMap (initOf TX L)) c.dataOff d.sf.length
    statics := staticsAt TX L c.staticOff
    annDir := annDirAt TX L c.annOff
    annotations := annotationsAt TX L c }

def declaredX (TX : TablesX) (L : Layout) : DexVX :=
  ⟨declared TX.base L, TX.base.classDefs.map (classVX TX L)⟩

end AgVerif.C05
