/-
Helper lemmas for C09 (Adler-32 and the header guards).  Core Lean only.
-/
import AgVerif.Model.Header
import AgVerif.Spec.Header
namespace AgVerif.Header
open AgVerif.Gen.Header

instance : DecidableEq (Except Err Unit) := fun a b =>
  match a, b with
  | .ok (), .ok () => isTrue rfl
  | .error e, .error e' =>
    if h : e = e' then isTrue (by rw [h]) else isFalse (by intro h'; cases h'; exact h rfl)
  | .ok (), .error _ => isFalse (by intro h; cases h)
  | .error _, .ok () => isFalse (by intro h; cases h)

/-! ### Adler-32 -/

/-- the low half is `(start + Σ bytes) mod 65521` -/
theorem foldl_adler_fst (bs : List Nat) (a b : Nat) (ha : a < 65521) :
    (bs.foldl adlerStep (a, b)).1 = (a + bs.sum) % 65521 := by
  induction bs generalizing a b with
  | nil => simp; omega
  | cons x xs ih =>
    simp only [List.foldl_cons, adlerStep, List.sum_cons]
    rw [ih _ _ (Nat.mod_lt _ (by decide))]
    omega

theorem foldl_adler_snd_lt (bs : List Nat) (a b : Nat) (hb : b < 65521) :
    (bs.foldl adlerStep (a, b)).2 < 65521 := by
  induction bs generalizing a b with
  | nil => simpa using hb
  | cons x xs ih =>
    simp only [List.foldl_cons, adlerStep]
    exact ih _ _ (Nat.mod_lt _ (by decide))

theorem adlerState_fst (bs : List Nat) : (adlerState bs).1 = (1 + bs.sum) % 65521 :=
  foldl_adler_fst bs 1 0 (by decide)

theorem adlerState_fst_lt (bs : List Nat) : (adlerState bs).1 < 65521 := by
  rw [adlerState_fst]; exact Nat.mod_lt _ (by decide)

theorem adlerState_snd_lt (bs : List Nat) : (adlerState bs).2 < 65521 :=
  foldl_adler_snd_lt bs 1 0 (by decide)

/-- the high half: every byte is added once per remaining step (RFC 1950 closed form) -/
theorem foldl_adler_snd (bs : List Nat) (a b : Nat) :
    (bs.foldl adlerStep (a, b)).2 % 65521
      = (b + bs.length * a + Spec.Header.weighted bs) % 65521 := by
  induction bs generalizing a b with
  | nil => simp [Spec.Header.weighted]
  | cons x xs ih =>
    simp only [List.foldl_cons, adlerStep, List.length_cons, Spec.Header.weighted]
    rw [ih]
    generalize xs.length = n
    generalize Spec.Header.weighted xs = W
    have h1 : n * (a + x) = n * a + n * x := Nat.mul_add ..
    have h2 : n * (a + x) = 65521 * (n * ((a + x) / 65521)) + n * ((a + x) % 65521) := by
      have := Nat.div_add_mod (a + x) 65521
      calc n * (a + x) = n * (65521 * ((a + x) / 65521) + (a + x) % 65521) := by rw [this]
        _ = n * (65521 * ((a + x) / 65521)) + n * ((a + x) % 65521) := Nat.mul_add ..
        _ = 65521 * (n * ((a + x) / 65521)) + n * ((a + x) % 65521) := by
            rw [Nat.mul_left_comm]
    have h3 : (n + 1) * a = n * a + a := Nat.succ_mul ..
    have h4 : (n + 1) * x = n * x + x := Nat.succ_mul ..
    omega

/-- the model of `zlib.adler32` equals the closed form of the specification -/
theorem adler32_closed_form (bs : List Nat) : adler32 bs = Spec.Header.adler32 bs := by
  have h1 := adlerState_fst bs
  have h2 := foldl_adler_snd bs 1 0
  have h3 := adlerState_snd_lt bs
  simp only [adler32, Spec.Header.adler32, Spec.Header.s1, Spec.Header.s2]
  unfold adlerState at h1 h3
  unfold adlerState
  rw [h1]
  rw [Nat.mod_eq_of_lt h3] at h2
  rw [h2]
  simp

/-- replacing one element moves the sum by the difference -/
theorem sum_set (bs : List Nat) (i : Nat) (h : i < bs.length) (b' : Nat) :
    (bs.set i b').sum + bs[i] = bs.sum + b' := by
  induction bs generalizing i with
  | nil => simp at h
  | cons x xs ih =>
    cases i with
    | zero => simp; omega
    | succ j =>
      simp only [List.set_cons_succ, List.sum_cons, List.getElem_cons_succ]
      have := ih j (by simpa using h)
      omega

/-- `zlib.adler32` fits 32 bits -/
theorem adler32_lt (bs : List Nat) : adler32 bs < 2 ^ 32 := by
  have h1 := adlerState_fst_lt bs
  have h2 := adlerState_snd_lt bs
  simp only [adler32]
  omega

/-- the low 16 bits of `adler32` are `(1 + Σ bytes) mod 65521` -/
theorem adler32_low (bs : List Nat) : adler32 bs % 65536 = (1 + bs.sum) % 65521 := by
  have h1 := adlerState_fst_lt bs
  have h := adlerState_fst bs
  simp only [adler32]
  omega

/-- Changing one byte changes the checksum, for lists of any length. -/
theorem adler32_set_ne (bs : List Nat) (i : Nat) (h : i < bs.length) (b' : Nat)
    (hb : bs[i] < 256) (hb' : b' < 256) (hne : b' ≠ bs[i]) :
    adler32 (bs.set i b') ≠ adler32 bs := by
  intro heq
  have l1 := adler32_low (bs.set i b')
  have l2 := adler32_low bs
  have hs := sum_set bs i h b'
  rw [heq] at l1
  omega

/-! ### little-endian 32-bit fields -/

theorem le32_lt (b0 b1 b2 b3 : Nat) (h0 : b0 < 256) (h1 : b1 < 256) (h2 : b2 < 256) (h3 : b3 < 256) :
    le32 b0 b1 b2 b3 < 2 ^ 32 := by
  simp only [le32]; omega

theorem le32_inj (a0 a1 a2 a3 b0 b1 b2 b3 : Nat)
    (ha0 : a0 < 256) (ha1 : a1 < 256) (ha2 : a2 < 256) (_ha3 : a3 < 256)
    (hb0 : b0 < 256) (hb1 : b1 < 256) (hb2 : b2 < 256) (_hb3 : b3 < 256)
    (h : le32 a0 a1 a2 a3 = le32 b0 b1 b2 b3) : a0 = b0 ∧ a1 = b1 ∧ a2 = b2 ∧ a3 = b3 := by
  simp only [le32] at h; omega

/-- a field read does not see a change outside its four bytes -/
theorem u32At_set_of_not_mem (f : List Nat) (off i b : Nat) (h : i < off ∨ off + 4 ≤ i) :
    u32At (f.set i b) off = u32At f off := by
  unfold u32At
  rw [List.getElem?_set_ne (by omega), List.getElem?_set_ne (by omega),
    List.getElem?_set_ne (by omega), List.getElem?_set_ne (by omega)]

theorem u32At_eq_some (f : List Nat) (off v : Nat) (h : u32At f off = some v) :
    ∃ b0 b1 b2 b3, f[off]? = some b0 ∧ f[off + 1]? = some b1 ∧ f[off + 2]? = some b2
      ∧ f[off + 3]? = some b3 ∧ v = le32 b0 b1 b2 b3 := by
  unfold u32At at h
  split at h
  · rename_i b0 b1 b2 b3 e0 e1 e2 e3
    exact ⟨b0, b1, b2, b3, e0, e1, e2, e3, by simpa using h.symm⟩
  · simp at h

theorem u32At_isSome_of_length (f : List Nat) (off : Nat) (h : off + 4 ≤ f.length) :
    ∃ v, u32At f off = some v := by
  unfold u32At
  rw [List.getElem?_eq_getElem (by omega), List.getElem?_eq_getElem (by omega),
    List.getElem?_eq_getElem (by omega), List.getElem?_eq_getElem (by omega)]
  exact ⟨_, rfl⟩

/-! ### running the guards -/

theorem runAll_ok_iff (f : List Nat) (cs : List Check) :
    runAll f cs = .ok () ↔ ∀ c ∈ cs, runCheck f c = .ok () := by
  induction cs with
  | nil => simp [runAll]
  | cons c cs ih =>
    simp only [runAll, List.mem_cons, forall_eq_or_imp]
    cases hc : runCheck f c with
    | error e => simp
    | ok u => cases u; simp [ih]

/-- every result is either acceptance or an error (Except Err Unit has no third value) -/
theorem not_ok_iff_error (r : Except Err Unit) : r ≠ .ok () ↔ ∃ e, r = .error e := by
  cases r with
  | error e => simp
  | ok u => cases u; simp

/-- a failing guard that is in the list makes the whole check fail -/
theorem runAll_error_of_mem (f : List Nat) (cs : List Check) (c : Check) (hc : c ∈ cs)
    (h : runCheck f c ≠ .ok ()) : ∃ e, runAll f cs = .error e := by
  rw [← not_ok_iff_error]
  intro hok
  exact h ((runAll_ok_iff f cs).1 hok c hc)

/-- the first failing guard decides the error -/
theorem runAll_first_error (f : List Nat) (pre post : List Check) (c : Check) (e : Err)
    (hpre : ∀ d ∈ pre, runCheck f d = .ok ()) (hc : runCheck f c = .error e) :
    runAll f (pre ++ c :: post) = .error e := by
  induction pre with
  | nil => simp [runAll, hc]
  | cons d ds ih =>
    have hd := hpre d (by simp)
    simp only [List.cons_append, runAll, hd]
    exact ih (fun x hx => hpre x (by simp [hx]))

/-! ### each guard, against literal constants (re-checked whenever Gen/Header.lean changes) -/

theorem size_ok_iff (f : List Nat) : runCheck f .size = .ok () ↔ 112 ≤ f.length := by
  simp [runCheck, sizeCmp, headerLength, Cmp.eval]

theorem size_error (f : List Nat) (h : f.length < 112) : runCheck f .size = .error .tooShort := by
  simp [runCheck, sizeCmp, headerLength, Cmp.eval, h]

theorem unpack_ok_iff (f : List Nat) : runCheck f .unpack = .ok () ↔ 112 ≤ f.length := by
  simp [runCheck, fmtSize, unpackSize]

theorem endian_ok_iff (f : List Nat) :
    runCheck f .endian = .ok () ↔ u32At f 40 = some 0x12345678 := by
  simp only [runCheck, endianOff]
  cases h : u32At f 40 with
  | none => simp
  | some tag =>
    simp only [endianCases, endianElse, endianAction]
    by_cases h1 : tag = 0x78563412
    · subst h1; simp
    · by_cases h2 : tag = 0x12345678
      · subst h2; simp
      · simp [h1, h2]

theorem endian_swapped (f : List Nat) (h : u32At f 40 = some 0x78563412) :
    runCheck f .endian = .error .endianSwapped := by
  simp [runCheck, endianOff, h, endianCases, endianAction]

theorem endian_other (f : List Nat) (tag : Nat) (h : u32At f 40 = some tag)
    (h1 : tag ≠ 0x78563412) (h2 : tag ≠ 0x12345678) :
    runCheck f .endian = .error .badEndian := by
  simp [runCheck, endianOff, h, endianCases, endianElse, endianAction, h1, h2]

theorem checksum_ok_iff (f : List Nat) :
    runCheck f .checksum = .ok () ↔ u32At f 8 = some (adler32 (f.drop 12)) := by
  simp only [runCheck, checksumOff, checksumStart, checksumCmp, Cmp.eval]
  cases h : u32At f 8 with
  | none => simp
  | some v =>
    by_cases hv : adler32 (f.drop 12) = v
    · simp [hv]
    · have : v ≠ adler32 (f.drop 12) := fun h => hv h.symm
      simp [hv, this]

theorem checksum_error (f : List Nat) (v : Nat) (h : u32At f 8 = some v)
    (hv : v ≠ adler32 (f.drop 12)) : runCheck f .checksum = .error .badChecksum := by
  have : adler32 (f.drop 12) ≠ v := fun h => hv h.symm
  simp [runCheck, checksumOff, checksumStart, checksumCmp, Cmp.eval, h, this]

theorem headerSize_ok_iff (f : List Nat) :
    runCheck f .headerSize = .ok () ↔ u32At f 36 = some 0x70 := by
  simp only [runCheck, fieldGuard, headerSizeOff, headerSizeCmp, headerSizeConst, Cmp.eval]
  cases h : u32At f 36 with
  | none => simp
  | some v => by_cases hv : v = 0x70 <;> simp [hv]

theorem headerSize_error (f : List Nat) (v : Nat) (h : u32At f 36 = some v) (hv : v ≠ 0x70) :
    runCheck f .headerSize = .error .badHeaderSize := by
  simp [runCheck, fieldGuard, headerSizeOff, headerSizeCmp, headerSizeConst, Cmp.eval, h, hv]

theorem typeIds_ok_iff (f : List Nat) :
    runCheck f .typeIds = .ok () ↔ ∃ v, u32At f 64 = some v ∧ v ≤ 65535 := by
  simp only [runCheck, fieldGuard, typeIdsOff, typeIdsCmp, typeIdsConst, Cmp.eval]
  cases h : u32At f 64 with
  | none => simp
  | some v => by_cases hv : v ≤ 65535 <;> simp [hv] <;> omega

theorem protoIds_ok_iff (f : List Nat) :
    runCheck f .protoIds = .ok () ↔ ∃ v, u32At f 72 = some v ∧ v ≤ 65535 := by
  simp only [runCheck, fieldGuard, protoIdsOff, protoIdsCmp, protoIdsConst, Cmp.eval]
  cases h : u32At f 72 with
  | none => simp
  | some v => by_cases hv : v ≤ 65535 <;> simp [hv] <;> omega

/-- the magic guard accepts exactly `de`, `x|y`, `\n`, any three bytes, `\0` -/
theorem magic_ok_iff (f : List Nat) :
    runCheck f .magic = .ok () ↔
      (f[0]? = some 0x64 ∧ f[1]? = some 0x65 ∧ (f[2]? = some 0x78 ∨ f[2]? = some 0x79)
        ∧ f[3]? = some 0x0a ∧ f[7]? = some 0x00) := by
  simp only [runCheck, magicClauses, magicOf, magicOff, magicLen]
  rcases f with _ | ⟨a, _ | ⟨b, _ | ⟨c, _ | ⟨d, _ | ⟨e, _ | ⟨g, _ | ⟨h, _ | ⟨k, rest⟩⟩⟩⟩⟩⟩⟩⟩ <;>
    simp [MagicClause.raises] <;> omega

/-- every named guard is executed -/
theorem all_checks_run (c : Check) : c ∈ checkOrder := by
  cases c <;> decide

end AgVerif.Header
