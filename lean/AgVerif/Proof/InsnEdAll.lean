/- C01/C02: `encode_decode` over all 26 specification classes.  GENERATED text. -/
import AgVerif.Proof.InsnEdA
import AgVerif.Proof.InsnEdB
import AgVerif.Proof.InsnEdC
import AgVerif.Proof.InsnEdD
set_option linter.unusedSimpArgs false
set_option linter.unusedVariables false
namespace AgVerif.Insn
open AgVerif.Gen

/-- `lo ≤ v < hi` -/
def rg (lo hi v : Int) : Bool := decide (lo ≤ v ∧ v < hi)

/-- the instance attributes `v` of an object of class `f` with opcode `op` are in the ranges of the format document
    (nibble / byte / 16 / 32 / 64 bit fields, signed where the document says so; register count A ≤ 5 for 45cc; the
    scaled literal of 21h is the one derived from BBBB).  Attribute order: see `post`. -/
def fieldsOK (f : Fmt) (op : Nat) (v : List Int) : Bool :=
  match f, v with
  | .f10x, [] => true
  | .f12x, [v0, v1] => rg (0) 16 v0 && (rg (0) 16 v1)
  | .f11n, [v0, v1] => rg (0) 16 v0 && (rg (-8) 8 v1)
  | .f11x, [v0] => rg (0) 256 v0
  | .f10t, [v0] => rg (-128) 128 v0
  | .f20t, [v0] => rg (-32768) 32768 v0
  | .f22x, [v0, v1] => rg (0) 256 v0 && (rg (0) 65536 v1)
  | .f21t, [v0, v1] => rg (0) 256 v0 && (rg (-32768) 32768 v1)
  | .f21s, [v0, v1] => rg (0) 256 v0 && (rg (-32768) 32768 v1)
  | .f21h, [v0, v1, s] => rg (0) 256 v0 && (rg (-32768) 32768 v1 && (decide (s = if (op : Int) = 0x15 then v1 * 65536 else if (op : Int) = 0x19 then v1 * 281474976710656 else v1)))
  | .f21c, [v0, v1] => rg (0) 256 v0 && (rg (0) 65536 v1)
  | .f23x, [v0, v1, v2] => rg (0) 256 v0 && (rg (0) 256 v1 && (rg (0) 256 v2))
  | .f22b, [v0, v1, v2] => rg (0) 256 v0 && (rg (0) 256 v1 && (rg (-128) 128 v2))
  | .f22t, [v0, v1, v2] => rg (0) 16 v0 && (rg (0) 16 v1 && (rg (-32768) 32768 v2))
  | .f22s, [v0, v1, v2] => rg (0) 16 v0 && (rg (0) 16 v1 && (rg (-32768) 32768 v2))
  | .f22c, [v0, v1, v2] => rg (0) 16 v0 && (rg (0) 16 v1 && (rg (0) 65536 v2))
  | .f30t, [v0] => rg (-2147483648) 2147483648 v0
  | .f32x, [v0, v1] => rg (0) 65536 v0 && (rg (0) 65536 v1)
  | .f31i, [v0, v1] => rg (0) 256 v0 && (rg (-2147483648) 2147483648 v1)
  | .f31t, [v0, v1] => rg (0) 256 v0 && (rg (-2147483648) 2147483648 v1)
  | .f31c, [v0, v1] => rg (0) 256 v0 && (rg (0) 4294967296 v1)
  | .f35c, [v0, v1, v2, v3, v4, v5, v6] => rg (0) 16 v0 && (rg (0) 65536 v1 && (rg (0) 16 v2 && (rg (0) 16 v3 && (rg (0) 16 v4 && (rg (0) 16 v5 && (rg (0) 16 v6))))))
  | .f3rc, [v0, v1, v2] => rg (0) 256 v0 && (rg (0) 65536 v1 && (rg (0) 65536 v2))
  | .f45cc, [v0, v1, v2, v3, v4, v5, v6, v7] => rg (0) 6 v0 && (rg (0) 65536 v1 && (rg (0) 16 v2 && (rg (0) 16 v3 && (rg (0) 16 v4 && (rg (0) 16 v5 && (rg (0) 16 v6 && (rg (0) 65536 v7)))))))
  | .f4rcc, [v0, v1, v2, v3] => rg (0) 256 v0 && (rg (0) 65536 v1 && (rg (0) 65536 v2 && (rg (0) 65536 v3)))
  | .f51l, [v0, v1] => rg (0) 256 v0 && (rg (-9223372036854775808) 9223372036854775808 v1)
  | _, _ => false

/-- Encode-then-decode, every specification class: an object whose attributes are in range re-encodes (`get_raw()`
    does not raise) to `length` bytes starting with the opcode, and the class constructor applied to those bytes,
    followed by anything, rebuilds exactly the object. -/
theorem encode_decode_fields (f : Fmt) (op : Nat) (v : List Int) (hop : op < 256) (h : fieldsOK f op v = true) :
    EncDec ⟨f, op, v⟩ := by
  unfold fieldsOK at h
  split at h
  · exact ed_10x op hop
  · rename_i v0 v1
    simp only [rg, Bool.and_eq_true, decide_eq_true_eq] at h
    obtain ⟨h0, h1⟩ := h
    exact ed_12x op v0 v1 hop h0 h1
  · rename_i v0 v1
    simp only [rg, Bool.and_eq_true, decide_eq_true_eq] at h
    obtain ⟨h0, h1⟩ := h
    exact ed_11n op v0 v1 hop h0 h1
  · rename_i v0
    simp only [rg, Bool.and_eq_true, decide_eq_true_eq] at h
    have h0 := h
    exact ed_11x op v0 hop h0
  · rename_i v0
    simp only [rg, Bool.and_eq_true, decide_eq_true_eq] at h
    have h0 := h
    exact ed_10t op v0 hop h0
  · rename_i v0
    simp only [rg, Bool.and_eq_true, decide_eq_true_eq] at h
    have h0 := h
    exact ed_20t op v0 hop h0
  · rename_i v0 v1
    simp only [rg, Bool.and_eq_true, decide_eq_true_eq] at h
    obtain ⟨h0, h1⟩ := h
    exact ed_22x op v0 v1 hop h0 h1
  · rename_i v0 v1
    simp only [rg, Bool.and_eq_true, decide_eq_true_eq] at h
    obtain ⟨h0, h1⟩ := h
    exact ed_21t op v0 v1 hop h0 h1
  · rename_i v0 v1
    simp only [rg, Bool.and_eq_true, decide_eq_true_eq] at h
    obtain ⟨h0, h1⟩ := h
    exact ed_21s op v0 v1 hop h0 h1
  · rename_i v0 v1 s
    simp only [rg, Bool.and_eq_true, decide_eq_true_eq] at h
    obtain ⟨h0, h1, h2⟩ := h
    subst h2
    exact ed_21h op v0 v1 hop h0 h1
  · rename_i v0 v1
    simp only [rg, Bool.and_eq_true, decide_eq_true_eq] at h
    obtain ⟨h0, h1⟩ := h
    exact ed_21c op v0 v1 hop h0 h1
  · rename_i v0 v1 v2
    simp only [rg, Bool.and_eq_true, decide_eq_true_eq] at h
    obtain ⟨h0, h1, h2⟩ := h
    exact ed_23x op v0 v1 v2 hop h0 h1 h2
  · rename_i v0 v1 v2
    simp only [rg, Bool.and_eq_true, decide_eq_true_eq] at h
    obtain ⟨h0, h1, h2⟩ := h
    exact ed_22b op v0 v1 v2 hop h0 h1 h2
  · rename_i v0 v1 v2
    simp only [rg, Bool.and_eq_true, decide_eq_true_eq] at h
    obtain ⟨h0, h1, h2⟩ := h
    exact ed_22t op v0 v1 v2 hop h0 h1 h2
  · rename_i v0 v1 v2
    simp only [rg, Bool.and_eq_true, decide_eq_true_eq] at h
    obtain ⟨h0, h1, h2⟩ := h
    exact ed_22s op v0 v1 v2 hop h0 h1 h2
  · rename_i v0 v1 v2
    simp only [rg, Bool.and_eq_true, decide_eq_true_eq] at h
    obtain ⟨h0, h1, h2⟩ := h
    exact ed_22c op v0 v1 v2 hop h0 h1 h2
  · rename_i v0
    simp only [rg, Bool.and_eq_true, decide_eq_true_eq] at h
    have h0 := h
    exact ed_30t op v0 hop h0
  · rename_i v0 v1
    simp only [rg, Bool.and_eq_true, decide_eq_true_eq] at h
    obtain ⟨h0, h1⟩ := h
    exact ed_32x op v0 v1 hop h0 h1
  · rename_i v0 v1
    simp only [rg, Bool.and_eq_true, decide_eq_true_eq] at h
    obtain ⟨h0, h1⟩ := h
    exact ed_31i op v0 v1 hop h0 h1
  · rename_i v0 v1
    simp only [rg, Bool.and_eq_true, decide_eq_true_eq] at h
    obtain ⟨h0, h1⟩ := h
    exact ed_31t op v0 v1 hop h0 h1
  · rename_i v0 v1
    simp only [rg, Bool.and_eq_true, decide_eq_true_eq] at h
    obtain ⟨h0, h1⟩ := h
    exact ed_31c op v0 v1 hop h0 h1
  · rename_i v0 v1 v2 v3 v4 v5 v6
    simp only [rg, Bool.and_eq_true, decide_eq_true_eq] at h
    obtain ⟨h0, h1, h2, h3, h4, h5, h6⟩ := h
    exact ed_35c op v0 v1 v2 v3 v4 v5 v6 hop h0 h1 h2 h3 h4 h5 h6
  · rename_i v0 v1 v2
    simp only [rg, Bool.and_eq_true, decide_eq_true_eq] at h
    obtain ⟨h0, h1, h2⟩ := h
    exact ed_3rc op v0 v1 v2 hop h0 h1 h2
  · rename_i v0 v1 v2 v3 v4 v5 v6 v7
    simp only [rg, Bool.and_eq_true, decide_eq_true_eq] at h
    obtain ⟨h0, h1, h2, h3, h4, h5, h6, h7⟩ := h
    exact ed_45cc op v0 v1 v2 v3 v4 v5 v6 v7 hop h0 h1 h2 h3 h4 h5 h6 h7
  · rename_i v0 v1 v2 v3
    simp only [rg, Bool.and_eq_true, decide_eq_true_eq] at h
    obtain ⟨h0, h1, h2, h3⟩ := h
    exact ed_4rcc op v0 v1 v2 v3 hop h0 h1 h2 h3
  · rename_i v0 v1
    simp only [rg, Bool.and_eq_true, decide_eq_true_eq] at h
    obtain ⟨h0, h1⟩ := h
    exact ed_51l op v0 v1 hop h0 h1
  · simp at h

end AgVerif.Insn
