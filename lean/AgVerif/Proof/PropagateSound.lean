import AgVerif.Model.Propagate
/-!
# C21 — register propagation on one basic block: soundness of the changes that pass `safeStep`
-/
namespace AgVerif.Propagate

variable (S : Sem)

/-- the value of a pure expression -/
def Expr.pval (ρ : Env) : Expr → Int
  | .var r => ρ r
  | .const c => c
  | .un op _ a => S.un op (a.pval ρ)
  | .bin op _ a _ b => (S.bin op (a.pval ρ) (b.pval ρ)).getD 0
  | .call _ _ _ => 0

theorem eval_pure (ρ : Env) (w : World) : ∀ e : Expr, e.pure = true → e.eval S ρ w = .ok (e.pval S ρ) w
  | .var _, _ => rfl
  | .const _, _ => rfl
  | .un op k a, h => by
    simp only [Expr.pure] at h
    simp [Expr.eval, Expr.pval, eval_pure ρ w a h]
  | .bin op k1 a k2 b, h => by
    simp only [Expr.pure, Bool.and_eq_true, bne_iff_ne, ne_eq] at h
    obtain ⟨⟨⟨h1, h2⟩, ha⟩, hb⟩ := h
    have ht := S.total op (a.pval S ρ) (b.pval S ρ) h1 h2
    obtain ⟨v, hv⟩ := Option.isSome_iff_exists.mp ht
    simp [Expr.eval, Expr.pval, eval_pure ρ w a ha, eval_pure ρ w b hb, hv]
  | .call _ _ _, h => by simp [Expr.pure] at h

/-- an expression only reads its registers -/
theorem eval_congr (ρ ρ' : Env) : ∀ (e : Expr) (w : World), (∀ r ∈ e.vars, ρ r = ρ' r) → e.eval S ρ w = e.eval S ρ' w
  | .var r, w, h => by simp [Expr.eval, h r (by simp [Expr.vars])]
  | .const _, _, _ => rfl
  | .un op k a, w, h => by
    simp only [Expr.eval]
    rw [eval_congr ρ ρ' a w (fun r hr => h r (by simpa [Expr.vars] using hr))]
  | .bin op k1 a k2 b, w, h => by
    simp only [Expr.eval]
    rw [eval_congr ρ ρ' a w (fun r hr => h r (by simp [Expr.vars, hr]))]
    cases a.eval S ρ' w with
    | throw w => rfl
    | ok va w1 =>
      simp only
      rw [eval_congr ρ ρ' b w1 (fun r hr => h r (by simp [Expr.vars, hr]))]
  | .call f k a, w, h => by
    simp only [Expr.eval]
    rw [eval_congr ρ ρ' a w (fun r hr => h r (by simpa [Expr.vars] using hr))]

theorem pval_congr (ρ ρ' : Env) : ∀ (e : Expr), (∀ r ∈ e.vars, ρ r = ρ' r) → e.pval S ρ = e.pval S ρ'
  | .var r, h => by simp [Expr.pval, h r (by simp [Expr.vars])]
  | .const _, _ => rfl
  | .un op k a, h => by
    simp only [Expr.pval]
    rw [pval_congr ρ ρ' a (fun r hr => h r (by simpa [Expr.vars] using hr))]
  | .bin op k1 a k2 b, h => by
    simp only [Expr.pval]
    rw [pval_congr ρ ρ' a (fun r hr => h r (by simp [Expr.vars, hr])),
        pval_congr ρ ρ' b (fun r hr => h r (by simp [Expr.vars, hr]))]
  | .call _ _ _, _ => rfl

/-- the value of an expression without invoke; `none`: it throws -/
def Expr.oval (ρ : Env) : Expr → Option Int
  | .var r => some (ρ r)
  | .const c => some c
  | .un op _ a => (a.oval ρ).map (S.un op)
  | .bin op _ a _ b =>
    match a.oval ρ, b.oval ρ with
    | some va, some vb => S.bin op va vb
    | _, _ => none
  | .call _ _ _ => none

theorem eval_nocall (ρ : Env) : ∀ (e : Expr) (w : World), e.nocall = true →
    e.eval S ρ w = (match e.oval S ρ with | some v => .ok v w | none => .throw w)
  | .var _, _, _ => rfl
  | .const _, _, _ => rfl
  | .un op k a, w, h => by
    simp only [Expr.nocall] at h
    simp only [Expr.eval, Expr.oval, eval_nocall ρ a w h]
    cases a.oval S ρ <;> rfl
  | .bin op k1 a k2 b, w, h => by
    simp only [Expr.nocall, Bool.and_eq_true] at h
    simp only [Expr.eval, Expr.oval, eval_nocall ρ a w h.1]
    cases a.oval S ρ with
    | none => rfl
    | some va =>
      simp only [eval_nocall ρ b w h.2]
      cases b.oval S ρ with
      | none => rfl
      | some vb => simp only; cases S.bin op va vb <;> rfl
  | .call _ _ _, _, h => by simp [Expr.nocall] at h

/-- an expression without invoke that evaluates once evaluates to the same value in every world -/
theorem eval_nocall_ok (ρ : Env) (e : Expr) (hn : e.nocall = true) (w w1 : World) (v : Int)
    (h : e.eval S ρ w = .ok v w1) : ∀ w', e.eval S ρ w' = .ok v w' := by
  intro w'
  rw [eval_nocall S ρ e w hn] at h
  rw [eval_nocall S ρ e w' hn]
  cases ho : e.oval S ρ with
  | none => rw [ho] at h; simp at h
  | some v' => rw [ho] at h; simp at h; simp [h.1]

/-! ## `replace` overwrites occurrences of `x` with something of the same value -/

theorem slot_facts (ps : List Nat) (x : Nat) (k : Key) (a : Expr)
    (h : (if !(a.atom ps) then a.keyed ps x else (k != some x || a == .var x)) = true) :
    (a.atom ps = false → a.keyed ps x = true) ∧ (a.atom ps = true → k = some x → a = .var x) := by
  cases ha : a.atom ps
  · simp [ha] at h; simp [h]
  · simp [ha] at h
    refine ⟨by simp, fun _ hk => ?_⟩
    rcases h with h | h
    · exact absurd hk h
    · exact h

theorem repl_eval (ps : List Nat) (ρ : Env) (x : Nat) (e : Expr) (hev : ∀ w, e.eval S ρ w = .ok (ρ x) w) :
    ∀ (t : Expr) (w : World), t.keyed ps x = true → (Expr.repl ps x e t).eval S ρ w = t.eval S ρ w
  | .var _, _, _ => rfl
  | .const _, _, _ => rfl
  | .un op k a, w, h => by
    simp only [Expr.keyed] at h
    obtain ⟨f1, f2⟩ := slot_facts ps x k a h
    cases ha : a.atom ps
    · have ih := fun w => repl_eval ps ρ x e hev a w (f1 ha)
      simp [Expr.repl, Expr.eval, ha, ih]
    · by_cases hk : k = some x
      · have := f2 ha hk; subst this
        simp [Expr.repl, Expr.eval, ha, hk, hev]
      · simp [Expr.repl, Expr.eval, ha, hk]
  | .call f k a, w, h => by
    simp only [Expr.keyed] at h
    obtain ⟨f1, f2⟩ := slot_facts ps x k a h
    cases ha : a.atom ps
    · have ih := fun w => repl_eval ps ρ x e hev a w (f1 ha)
      simp [Expr.repl, Expr.eval, ha, ih]
    · by_cases hk : k = some x
      · have := f2 ha hk; subst this
        simp [Expr.repl, Expr.eval, ha, hk, hev]
      · simp [Expr.repl, Expr.eval, ha, hk]
  | .bin op k1 a k2 b, w, h => by
    by_cases hk1 : k1 = some x <;> by_cases hk2 : k2 = some x
    · simp only [Expr.keyed, hk1, hk2, beq_self_eq_true, if_true, bne_self_eq_false, Bool.false_or,
        Bool.and_eq_true, beq_iff_eq] at h
      obtain ⟨h1, hab⟩ := h
      subst hab
      cases ha : a.atom ps
      · have ih := fun w => repl_eval ps ρ x e hev a w (by simpa [ha] using h1)
        simp [Expr.repl, Expr.eval, ha, hk1, hk2, ih]
      · have : a = .var x := by simpa [ha] using h1
        subst this
        simp [Expr.repl, Expr.eval, ha, hk1, hk2, hev]
    · have hk2' : (k2 != some x) = true := by simpa using hk2
      simp only [Expr.keyed, hk1, beq_self_eq_true, if_true, hk2', Bool.true_or, Bool.and_true] at h
      cases ha : a.atom ps
      · have ih := fun w => repl_eval ps ρ x e hev a w (by simpa [ha] using h)
        simp [Expr.repl, Expr.eval, ha, hk1, hk2, ih]
      · have : a = .var x := by simpa [ha] using h
        subst this
        simp [Expr.repl, Expr.eval, ha, hk1, hk2, hev]
    · have hk1' : (k1 == some x) = false := by simpa using hk1
      simp only [Expr.keyed, hk1', hk2, beq_self_eq_true, if_true, Bool.false_eq_true, if_false] at h
      cases hb : b.atom ps
      · have ih := fun w => repl_eval ps ρ x e hev b w (by simpa [hb] using h)
        simp [Expr.repl, Expr.eval, hb, hk1, hk2, ih]
      · have : b = .var x := by simpa [hb] using h
        subst this
        simp [Expr.repl, Expr.eval, hb, hk1, hk2, hev]
    · have hk1' : (k1 == some x) = false := by simpa using hk1
      have hk2' : (k2 == some x) = false := by simpa using hk2
      simp only [Expr.keyed, hk1', hk2', Bool.false_eq_true, if_false, Bool.and_eq_true, Bool.or_eq_true] at h
      obtain ⟨h1, h2⟩ := h
      have iha : a.atom ps = false → ∀ w, (Expr.repl ps x e a).eval S ρ w = a.eval S ρ w :=
        fun ha w => repl_eval ps ρ x e hev a w (by simpa [ha] using h1)
      have ihb : b.atom ps = false → ∀ w, (Expr.repl ps x e b).eval S ρ w = b.eval S ρ w :=
        fun hb w => repl_eval ps ρ x e hev b w (by simpa [hb] using h2)
      cases ha : a.atom ps <;> cases hb : b.atom ps <;>
        simp [Expr.repl, Expr.eval, ha, hb, hk1, hk2, iha, ihb]

/-! ## statements and lists -/

theorem run_cons_congr (t : Stmt) (l1 l2 : List Stmt) (h : ∀ ρ w, run S ρ w l1 = run S ρ w l2) :
    ∀ ρ w, run S ρ w (t :: l1) = run S ρ w (t :: l2) := by
  intro ρ w
  cases t with
  | ret k a => simp [run]
  | assign lo r =>
    simp only [run]
    cases r.eval S ρ w with
    | throw w => rfl
    | ok v w1 => cases lo <;> simp [h]

theorem stmt_repl_run (ps : List Nat) (ρ : Env) (x : Nat) (e : Expr) (hev : ∀ w, e.eval S ρ w = .ok (ρ x) w)
    (t : Stmt) (ht : t.keyed ps x = true) (rest : List Stmt) (w : World) :
    run S ρ w (t.repl ps x e :: rest) = run S ρ w (t :: rest) := by
  cases t with
  | assign lo r =>
    simp only [Stmt.keyed] at ht
    simp only [Stmt.repl, run, repl_eval S ps ρ x e hev r w ht]
  | ret k a =>
    simp only [Stmt.keyed] at ht
    obtain ⟨f1, f2⟩ := slot_facts ps x k a ht
    cases ha : a.atom ps
    · simp [Stmt.repl, run, ha, repl_eval S ps ρ x e hev a w (f1 ha)]
    · by_cases hk : k = some x
      · have := f2 ha hk; subst this
        simp [Stmt.repl, run, ha, hk, hev, Expr.eval]
      · simp [Stmt.repl, run, ha, hk]

theorem at_cons (j : Int) (t : Stmt) (l : Ins) (loc : Int) :
    Ins.at ((j, t) :: l) loc = if j = loc then some t else Ins.at l loc := by
  unfold Ins.at
  by_cases h : j = loc <;> simp [h]

theorem at_mem (l : Ins) (loc : Int) (c : Stmt) (h : Ins.at l loc = some c) : (loc, c) ∈ l := by
  induction l with
  | nil => simp [Ins.at] at h
  | cons hd tl ih =>
    obtain ⟨j, t⟩ := hd
    rw [at_cons] at h
    by_cases hj : j = loc
    · simp [hj] at h; simp [hj, h]
    · simp [hj] at h; exact List.mem_cons_of_mem _ (ih h)

theorem inc_cons (j : Int) (l : List Int) (h : increasing (j :: l) = true) :
    (∀ k ∈ l, j < k) ∧ increasing l = true := by
  simpa [increasing] using h

theorem setAt_noop (l : Ins) (i : Int) (s : Stmt) (h : ∀ e ∈ l, e.1 ≠ i) : Ins.setAt l i s = l := by
  unfold Ins.setAt
  conv => rhs; rw [← List.map_id l]
  apply List.map_congr_left
  intro e he
  simp [h e he]

theorem setAt_cons (j : Int) (t : Stmt) (l : Ins) (i : Int) (s : Stmt) :
    Ins.setAt ((j, t) :: l) i s = (if j = i then (j, s) else (j, t)) :: Ins.setAt l i s := by
  by_cases h : j = i <;> simp [Ins.setAt, h]

theorem set_other (ρ : Env) (y x : Nat) (v : Int) (h : y ≠ x) : (ρ.set y v) x = ρ x := by
  simp [Env.set, Ne.symm h]

theorem subst_suffix (ps : List Nat) (x : Nat) (e : Expr) (hxe : x ∉ e.vars) (i : Int)
    (cur : Stmt) (hc : cur.keyed ps x = true) :
    ∀ (l : Ins) (ρ : Env) (w : World), (∀ w, e.eval S ρ w = .ok (ρ x) w) → increasing (l.map (·.1)) = true →
      Ins.at l i = some cur →
      (∀ s ∈ l, s.1 < i → ∀ y, s.2.lhs = some y → y ≠ x ∧ y ∉ e.vars) →
      run S ρ w ((Ins.setAt l i (cur.repl ps x e)).map (·.2)) = run S ρ w (l.map (·.2))
  | [], _, _, _, _, h, _ => by simp [Ins.at] at h
  | (j, t) :: l, ρ, w, hx, hinc, hat, hmid => by
    obtain ⟨hall, hinc'⟩ := inc_cons j (l.map (·.1)) (by simpa using hinc)
    rw [at_cons] at hat
    rw [setAt_cons]
    by_cases hj : j = i
    · simp only [hj, if_true] at hat ⊢
      have ht : t = cur := by simpa using hat
      subst ht
      rw [setAt_noop l i _ (fun e he => by
        have := hall e.1 (List.mem_map_of_mem (f := (·.1)) he)
        omega)]
      simpa using stmt_repl_run S ps ρ x e hx t hc (l.map (·.2)) w
    · simp only [hj, if_false] at hat ⊢
      have hji : j < i := by
        have hm := at_mem l i cur hat
        have := hall i (by simpa using List.mem_map_of_mem (f := (·.1)) hm)
        exact this
      have hl := hmid (j, t) (by simp) hji
      simp only [List.map_cons]
      cases t with
      | ret k a => simp [run]
      | assign lo r =>
        simp only [run]
        cases hr : r.eval S ρ w with
        | throw w => rfl
        | ok v w1 =>
          have hrest1 := fun ρ' (hx' : ∀ w, e.eval S ρ' w = .ok (ρ' x) w) => subst_suffix ps x e hxe i cur hc l ρ' w1 hx' hinc' hat
            (fun s hs => hmid s (List.mem_cons_of_mem _ hs))
          cases lo with
          | none => exact hrest1 ρ hx
          | some y =>
            obtain ⟨hyx, hye⟩ := hl y rfl
            apply hrest1
            intro w'
            rw [set_other ρ y x v hyx, ← hx w']
            apply eval_congr
            intro r hr
            have : r ≠ y := fun h => hye (h ▸ hr)
            simp [Env.set, this]

theorem subst_sound (ps : List Nat) (x : Nat) (e : Expr) (hn : e.nocall = true) (hxe : x ∉ e.vars) (i loc : Int)
    (hlt : loc < i) (cur : Stmt) (hc : cur.keyed ps x = true) :
    ∀ (l : Ins), increasing (l.map (·.1)) = true → Ins.at l loc = some (.assign (some x) e) → Ins.at l i = some cur →
      (∀ s ∈ l, loc < s.1 → s.1 < i → ∀ y, s.2.lhs = some y → y ≠ x ∧ y ∉ e.vars) →
      ∀ (ρ : Env) (w : World),
        run S ρ w ((Ins.setAt l i (cur.repl ps x e)).map (·.2)) = run S ρ w (l.map (·.2))
  | [], _, h, _, _ => by simp [Ins.at] at h
  | (j, t) :: l, hinc, hloc, hat, hmid => by
    obtain ⟨hall, hinc'⟩ := inc_cons j (l.map (·.1)) (by simpa using hinc)
    rw [at_cons] at hloc hat
    rw [setAt_cons]
    by_cases hj : j = loc
    · have hji : j ≠ i := by omega
      simp only [hj, if_true] at hloc
      have ht : t = .assign (some x) e := by simpa using hloc
      subst ht
      simp only [hji, if_false] at hat ⊢
      intro ρ w
      simp only [List.map_cons, run]
      cases hr : e.eval S ρ w with
      | throw w => rfl
      | ok v w1 =>
        simp only
        apply subst_suffix S ps x e hxe i cur hc l _ w1 _ hinc' hat
        · intro s hs hsi y hy
          have := hall s.1 (List.mem_map_of_mem (f := (·.1)) hs)
          exact hmid s (List.mem_cons_of_mem _ hs) (by omega) hsi y hy
        · intro w'
          have : (ρ.set x v) x = v := by simp [Env.set]
          rw [this, ← eval_nocall_ok S ρ e hn w w1 v hr w']
          apply eval_congr
          intro r hr
          have : r ≠ x := fun h => hxe (h ▸ hr)
          simp [Env.set, this]
    · simp only [hj, if_false] at hloc
      have hjl : j < loc := by
        have hm := at_mem l loc _ hloc
        exact hall loc (by simpa using List.mem_map_of_mem (f := (·.1)) hm)
      have hji : j ≠ i := by omega
      simp only [hji, if_false] at hat ⊢
      simp only [List.map_cons]
      exact run_cons_congr S t _ _ (subst_sound ps x e hn hxe i loc hlt cur hc l hinc' hloc hat
        (fun s hs => hmid s (List.mem_cons_of_mem _ hs)))

/-! ## deleting a dead pure definition -/

theorem dead_run (x : Nat) : ∀ (l : List Stmt) (ρ ρ' : Env) (w : World), (∀ y, y ≠ x → ρ y = ρ' y) →
    deadAfter x l = true → run S ρ w l = run S ρ' w l
  | [], _, _, _, _, _ => rfl
  | t :: l, ρ, ρ', w, hag, hd => by
    simp only [deadAfter, Bool.and_eq_true, Bool.not_eq_true', Bool.or_eq_true] at hd
    obtain ⟨hnx, hrest⟩ := hd
    have hnx' : x ∉ t.rhs.vars := by simpa [Stmt.vars] using hnx
    have hev : ∀ w, t.rhs.eval S ρ w = t.rhs.eval S ρ' w := fun w =>
      eval_congr S ρ ρ' t.rhs w (fun r hr => hag r (fun h => hnx' (h ▸ hr)))
    cases t with
    | ret k a => simp only [Stmt.rhs] at hev; simp [run, hev]
    | assign lo r =>
      simp only [Stmt.rhs] at hev
      simp only [run, hev]
      cases r.eval S ρ' w with
      | throw w => rfl
      | ok v w1 =>
        cases lo with
        | none =>
          simp only
          rcases hrest with h | h
          · simp [Stmt.lhs] at h
          · exact dead_run x l ρ ρ' w1 hag h
        | some y =>
          simp only
          rcases hrest with h | h
          · have hy : y = x := by simpa [Stmt.lhs] using h
            subst hy
            have : ρ.set y v = ρ'.set y v := by
              funext z
              by_cases hz : z = y
              · simp [Env.set, hz]
              · simp [Env.set, hz, hag z hz]
            rw [this]
          · apply dead_run x l _ _ w1 _ h
            intro z hz
            by_cases hzy : z = y
            · simp [Env.set, hzy]
            · simp [Env.set, hzy, hag z hz]

theorem filter_all (l : Ins) (p : Int × Stmt → Bool) (h : ∀ e ∈ l, p e = true) : l.filter p = l :=
  List.filter_eq_self.mpr h

theorem pure_nocall : ∀ e : Expr, e.pure = true → e.nocall = true
  | .var _, _ => rfl
  | .const _, _ => rfl
  | .un _ _ a, h => by simp only [Expr.pure] at h; simpa [Expr.nocall] using pure_nocall a h
  | .bin _ _ a _ b, h => by
    simp only [Expr.pure, Bool.and_eq_true] at h
    simp [Expr.nocall, pure_nocall a h.1.2, pure_nocall b h.2]
  | .call _ _ _, h => by simp [Expr.pure] at h

theorem oval_congr (ρ ρ' : Env) : ∀ (e : Expr), (∀ r ∈ e.vars, ρ r = ρ' r) → e.oval S ρ = e.oval S ρ'
  | .var r, h => by simp [Expr.oval, h r (by simp [Expr.vars])]
  | .const _, _ => rfl
  | .un op k a, h => by
    simp only [Expr.oval]
    rw [oval_congr ρ ρ' a (fun r hr => h r (by simpa [Expr.vars] using hr))]
  | .bin op k1 a k2 b, h => by
    simp only [Expr.oval]
    rw [oval_congr ρ ρ' a (fun r hr => h r (by simp [Expr.vars, hr])),
        oval_congr ρ ρ' b (fun r hr => h r (by simp [Expr.vars, hr]))]
  | .call _ _ _, _ => rfl

/-- a call-free expression with a throwing subexpression throws -/
theorem oval_occurs (ρ : Env) (e : Expr) (he : e.oval S ρ = none) :
    ∀ t : Expr, e.occurs t = true → t.oval S ρ = none
  | .var r, h => by
    have : e = .var r := by simpa [Expr.occurs] using h
    rw [← this]; exact he
  | .const c, h => by
    have : e = .const c := by simpa [Expr.occurs] using h
    rw [← this]; exact he
  | .un op k a, h => by
    simp only [Expr.occurs, Bool.or_eq_true, beq_iff_eq] at h
    rcases h with h | h
    · rw [← h]; exact he
    · simp [Expr.oval, oval_occurs ρ e he a h]
  | .bin op k1 a k2 b, h => by
    simp only [Expr.occurs, Bool.or_eq_true, beq_iff_eq] at h
    rcases h with (h | h) | h
    · rw [← h]; exact he
    · simp [Expr.oval, oval_occurs ρ e he a h]
    · simp only [Expr.oval, oval_occurs ρ e he b h]
      cases a.oval S ρ <;> rfl
  | .call f k a, h => by simp [Expr.oval]

theorem forces_throw (e : Expr) : ∀ (l : List Stmt) (ρ : Env) (w : World), e.oval S ρ = none →
    forces e l = true → run S ρ w l = .throw w
  | [], _, _, _, h => by simp [forces] at h
  | s :: rest, ρ, w, he, h => by
    simp only [forces, Bool.and_eq_true, Bool.or_eq_true] at h
    obtain ⟨hn, h⟩ := h
    cases s with
    | ret k a =>
      simp only [Stmt.rhs] at hn h
      have hocc : e.occurs a = true := by
        rcases h with h | h
        · exact h
        · simp at h
      simp [run, eval_nocall S ρ a w hn, oval_occurs S ρ e he a hocc]
    | assign lo r =>
      simp only [Stmt.rhs] at hn h
      simp only [run, eval_nocall S ρ r w hn]
      rcases h with h | h
      · simp [oval_occurs S ρ e he r h]
      · cases r.oval S ρ with
        | none => rfl
        | some v =>
          cases lo with
          | none => exact forces_throw e rest ρ w he (by simpa using h)
          | some l =>
            simp only [Bool.and_eq_true, Bool.not_eq_true'] at h
            have hl : l ∉ e.vars := by simpa using h.1
            apply forces_throw e rest _ w _ h.2
            rw [← he]
            apply oval_congr
            intro r hr
            have : r ≠ l := fun h => hl (h ▸ hr)
            simp [Env.set, this]

theorem remove_sound (x : Nat) (e : Expr) (hn : e.nocall = true) (loc : Int) :
    ∀ (l : Ins), increasing (l.map (·.1)) = true → Ins.at l loc = some (.assign (some x) e) →
      deadAfter x (stmtsAfter l loc) = true → (e.pure = true ∨ forces e (stmtsAfter l loc) = true) →
      ∀ (ρ : Env) (w : World), run S ρ w ((Ins.removeAt l loc).map (·.2)) = run S ρ w (l.map (·.2))
  | [], _, h, _, _ => by simp [Ins.at] at h
  | (j, t) :: l, hinc, hloc, hd, hf => by
    obtain ⟨hall, hinc'⟩ := inc_cons j (l.map (·.1)) (by simpa using hinc)
    rw [at_cons] at hloc
    by_cases hj : j = loc
    · simp only [hj, if_true] at hloc
      have ht : t = .assign (some x) e := by simpa using hloc
      subst ht
      have hgt : ∀ s ∈ l, loc < s.1 := fun s hs => hj ▸ hall s.1 (List.mem_map_of_mem (f := (·.1)) hs)
      have h1 : Ins.removeAt ((j, Stmt.assign (some x) e) :: l) loc = l := by
        simp only [Ins.removeAt, List.filter_cons, hj, bne_self_eq_false, Bool.false_eq_true, if_false]
        exact filter_all l _ (fun s hs => by have := hgt s hs; simp; omega)
      have h2 : stmtsAfter ((j, Stmt.assign (some x) e) :: l) loc = l.map (·.2) := by
        simp only [stmtsAfter, List.filter_cons, hj, Int.lt_irrefl, decide_false, Bool.false_eq_true, if_false]
        rw [filter_all l _ (fun s hs => by simpa using hgt s hs)]
      rw [h1]
      rw [h2] at hd hf
      intro ρ w
      simp only [List.map_cons, run, eval_nocall S ρ e w hn]
      cases ho : e.oval S ρ with
      | some v =>
        exact dead_run S x (l.map (·.2)) ρ (ρ.set x v) w (fun y hy => by simp [Env.set, hy]) hd
      | none =>
        rcases hf with hp | hf
        · have := eval_pure S ρ w e hp
          rw [eval_nocall S ρ e w hn, ho] at this
          simp at this
        · exact forces_throw S e (l.map (·.2)) ρ w ho hf
    · simp only [hj, if_false] at hloc
      have hjl : j < loc := by
        have hm := at_mem l loc _ hloc
        exact hall loc (by simpa using List.mem_map_of_mem (f := (·.1)) hm)
      have h1 : Ins.removeAt ((j, t) :: l) loc = (j, t) :: Ins.removeAt l loc := by
        simp [Ins.removeAt, hj]
      have h2 : stmtsAfter ((j, t) :: l) loc = stmtsAfter l loc := by
        have : ¬ loc < j := by omega
        simp [stmtsAfter, this]
      rw [h1]
      rw [h2] at hd hf
      simp only [List.map_cons]
      exact run_cons_congr S t _ _ (remove_sound x e hn loc l hinc' hloc hd hf)

/-! ## one change of the pass -/

theorem setAt_locs (l : Ins) (i : Int) (s : Stmt) : (Ins.setAt l i s).map (·.1) = l.map (·.1) := by
  unfold Ins.setAt
  rw [List.map_map]
  apply List.map_congr_left
  intro e _
  by_cases h : e.1 = i <;> simp [h]

theorem at_setAt_ne (l : Ins) (i loc : Int) (s : Stmt) (h : loc ≠ i) : Ins.at (Ins.setAt l i s) loc = Ins.at l loc := by
  induction l with
  | nil => rfl
  | cons hd tl ih =>
    obtain ⟨j, t⟩ := hd
    rw [setAt_cons, at_cons]
    by_cases hj : j = i
    · have : j ≠ loc := by omega
      simp only [hj, if_true]
      rw [at_cons]
      have h' : i ≠ loc := by omega
      simp only [h', if_false]
      rw [← hj] at ih ⊢
      simpa [hj] using ih
    · simp only [hj, if_false]
      rw [at_cons, ih]

theorem step_sound (ps : List Nat) (ins : Ins) (i : Int) (x : Nat) (loc : Int) (e : Expr) (cur : Stmt) (removes : Bool)
    (h : safeStep ps ins i x loc e cur removes = true) :
    ∀ (ρ : Env) (w : World),
      run S ρ w ((stepIns ps ins i x loc e cur removes).map (·.2)) = run S ρ w (ins.map (·.2)) := by
  simp only [safeStep, Bool.and_eq_true] at h
  obtain ⟨⟨⟨⟨⟨⟨⟨⟨hloc, hat⟩, hlt⟩, hp⟩, hxe⟩, hmid⟩, hc⟩, hd⟩, hinc⟩ := h
  have hloc : Ins.at ins loc = some (.assign (some x) e) := by simpa using hloc
  have hat : Ins.at ins i = some cur := by simpa using hat
  have hlt : loc < i := by simpa using hlt
  have hxe' : x ∉ e.vars := by simpa using hxe
  have hmid' : ∀ s ∈ ins, loc < s.1 → s.1 < i → ∀ y, s.2.lhs = some y → y ≠ x ∧ y ∉ e.vars := by
    intro s hs h1 h2 y hy
    have := List.all_eq_true.mp hmid s hs
    simp only [h1, h2, decide_true, Bool.and_self, Bool.not_true, Bool.false_or, hy] at this
    simpa using this
  have hsub := subst_sound S ps x e hp hxe' i loc hlt cur hc ins hinc hloc hat hmid'
  intro ρ w
  cases removes with
  | false => simpa [stepIns] using hsub ρ w
  | true =>
    simp only [stepIns, if_true]
    have hd' : deadAfter x (stmtsAfter (Ins.setAt ins i (cur.repl ps x e)) loc) = true ∧
        (e.pure = true ∨ forces e (stmtsAfter (Ins.setAt ins i (cur.repl ps x e)) loc) = true) := by simpa using hd
    rw [remove_sound S x e hp loc (Ins.setAt ins i (cur.repl ps x e)) (by rw [setAt_locs]; exact hinc)
      (by rw [at_setAt_ne _ _ _ _ (by omega)]; exact hloc) hd'.1 hd'.2 ρ w]
    exact hsub ρ w

/-! ## the loops -/

/-- as long as every change passed `safeStep`, the live list computes what `orig` computes -/
def Inv (orig : List Stmt) (st : St) : Prop :=
  st.ok = true → ∀ (ρ : Env) (w : World), run S ρ w (st.ins.map (·.2)) = run S ρ w orig

theorem applyStep_inv (ps : List Nat) (orig : List Stmt) (i : Int) (st : St) (var : Nat) (loc : Int) (o cur : Stmt)
    (h : Inv S orig st) : Inv S orig (applyStep ps i st var loc o cur) := by
  intro hok ρ w
  simp only [applyStep, Bool.and_eq_true] at hok
  simp only [applyStep]
  rw [step_sound S ps st.ins i var loc o.rhs cur _ hok.2 ρ w]
  exact h hok.1 ρ w

theorem varStep_inv (ps : List Nat) (orig : List Stmt) (i : Int) (st : St) (var : Nat)
    (h : Inv S orig st) : Inv S orig (varStep ps i st var) := by
  unfold varStep
  split
  · split
    · exact h
    · split
      · split
        · exact h
        · split
          · exact h
          · exact applyStep_inv S ps orig i st var _ _ _ h
      · exact h
  · exact h

theorem foldl_inv (ps : List Nat) (orig : List Stmt) (i : Int) : ∀ (vars : List Nat) (st : St),
    Inv S orig st → Inv S orig (vars.foldl (varStep ps i) st)
  | [], _, h => h
  | v :: vs, st, h => foldl_inv ps orig i vs _ (varStep_inv S ps orig i st v h)

theorem insLoop_inv (ps : List Nat) (orig : List Stmt) : ∀ (fuel k : Nat) (st : St),
    Inv S orig st → Inv S orig (insLoop ps fuel k st)
  | 0, _, _, h => h
  | fuel + 1, k, st, h => by
    unfold insLoop
    split
    · exact h
    · exact insLoop_inv ps orig fuel (k + 1) _ (foldl_inv S ps orig _ _ st h)

theorem whileLoop_inv (ps : List Nat) (orig : List Stmt) (n : Nat) : ∀ (fuel : Nat) (st : St),
    Inv S orig st → Inv S orig (whileLoop ps n fuel st)
  | 0, _, h => h
  | fuel + 1, st, h => by
    unfold whileLoop
    have h1 : Inv S orig (insLoop ps n 0 { st with change := false }) := insLoop_inv S ps orig n 0 _ h
    simp only
    split
    · exact whileLoop_inv ps orig n fuel _ h1
    · exact h1

theorem number_map (l : List Stmt) : (number l).map (·.2) = l := by
  unfold number
  rw [List.map_map]
  have : ((fun e : Int × Stmt => e.2) ∘ fun (x : Nat × Stmt) => ((x.1 : Int), x.2)) = (fun x : Nat × Stmt => x.2) := rfl
  rw [this]
  exact List.map_snd_zip (by simp)

/-- `propagate_sound`: when every change the pass makes on `b` passes `safeStep`, the block it leaves has, for every
    meaning of the operators and of the calls, in every environment and world, the outcome of `b` -/
theorem propagate_sound (b : Block) (hs : SafeBlock b) (ρ : Env) (w : World) :
    run S ρ w (propagate b).stmts = run S ρ w b.stmts := by
  have h0 : Inv S b.stmts (initSt b) := by
    intro _ ρ w
    simp [initSt, number_map]
  exact whileLoop_inv S b.params b.stmts _ _ _ h0 hs ρ w

/-! ## `dead_code_elimination` -/

theorem drop_sound (x : Nat) (e : Expr) (loc : Int) :
    ∀ (l : Ins), increasing (l.map (·.1)) = true → Ins.at l loc = some (.assign (some x) e) →
      deadAfter x (stmtsAfter l loc) = true →
      ∀ (ρ : Env) (w : World),
        run S ρ w ((Ins.setAt l loc (.assign none e)).map (·.2)) = run S ρ w (l.map (·.2))
  | [], _, h, _ => by simp [Ins.at] at h
  | (j, t) :: l, hinc, hloc, hd => by
    obtain ⟨hall, hinc'⟩ := inc_cons j (l.map (·.1)) (by simpa using hinc)
    rw [at_cons] at hloc
    rw [setAt_cons]
    by_cases hj : j = loc
    · simp only [hj, if_true] at hloc ⊢
      have ht : t = .assign (some x) e := by simpa using hloc
      subst ht
      have hgt : ∀ s ∈ l, loc < s.1 := fun s hs => hj ▸ hall s.1 (List.mem_map_of_mem (f := (·.1)) hs)
      rw [setAt_noop l loc _ (fun s hs => by have := hgt s hs; omega)]
      have h2 : stmtsAfter ((j, Stmt.assign (some x) e) :: l) loc = l.map (·.2) := by
        simp only [stmtsAfter, List.filter_cons, hj, Int.lt_irrefl, decide_false, Bool.false_eq_true, if_false]
        rw [filter_all l _ (fun s hs => by simpa using hgt s hs)]
      rw [h2] at hd
      intro ρ w
      simp only [List.map_cons, run]
      cases e.eval S ρ w with
      | throw w => rfl
      | ok v w1 =>
        exact dead_run S x (l.map (·.2)) ρ (ρ.set x v) w1 (fun y hy => by simp [Env.set, hy]) hd
    · simp only [hj, if_false] at hloc ⊢
      have hjl : j < loc := by
        have hm := at_mem l loc _ hloc
        exact hall loc (by simpa using List.mem_map_of_mem (f := (·.1)) hm)
      have h2 : stmtsAfter ((j, t) :: l) loc = stmtsAfter l loc := by
        have : ¬ loc < j := by omega
        simp [stmtsAfter, this]
      rw [h2] at hd
      simp only [List.map_cons]
      exact run_cons_congr S t _ _ (drop_sound x e loc l hinc' hloc hd)

theorem safeDel_sound (ins : Ins) (loc : Int) (h : safeDel ins loc = true) :
    ∀ (ρ : Env) (w : World), run S ρ w ((Ins.removeAt ins loc).map (·.2)) = run S ρ w (ins.map (·.2)) := by
  unfold safeDel at h
  split at h
  · next x e hat =>
    simp only [Bool.and_eq_true] at h
    exact remove_sound S x e (pure_nocall e h.1.1) loc ins h.2 hat h.1.2 (Or.inl h.1.1)
  · exact absurd h (by simp)

theorem setAt_same (l : Ins) (loc : Int) (s : Stmt) (h : Ins.at l loc = some s) (hinc : increasing (l.map (·.1)) = true) :
    Ins.setAt l loc s = l := by
  induction l with
  | nil => rfl
  | cons hd tl ih =>
    obtain ⟨j, t⟩ := hd
    obtain ⟨hall, hinc'⟩ := inc_cons j (tl.map (·.1)) (by simpa using hinc)
    rw [at_cons] at h
    rw [setAt_cons]
    by_cases hj : j = loc
    · simp only [hj, if_true] at h ⊢
      have : t = s := by simpa using h
      subst this
      rw [setAt_noop tl loc _ (fun e he => by
        have := hall e.1 (List.mem_map_of_mem (f := (·.1)) he)
        omega)]
    · simp only [hj, if_false] at h ⊢
      rw [ih h hinc']

theorem safeDrop_sound (ins : Ins) (loc : Int) (d : Stmt) (h : safeDrop ins loc d = true) :
    ∀ (ρ : Env) (w : World), run S ρ w ((Ins.setAt ins loc d.dropLhs).map (·.2)) = run S ρ w (ins.map (·.2)) := by
  unfold safeDrop at h
  simp only [Bool.and_eq_true, beq_iff_eq] at h
  obtain ⟨⟨hd, hinc⟩, h⟩ := h
  cases d with
  | ret k a => simp at h
  | assign lo e =>
    cases lo with
    | some x => exact drop_sound S x e loc ins hinc hd h
    | none =>
      intro ρ w
      simp only [Stmt.dropLhs]
      rw [setAt_same ins loc _ hd hinc]

/-- as long as every deletion passed its check, the live list computes what `orig` computes -/
def DInv (orig : List Stmt) (st : DSt) : Prop :=
  st.ok = true → ∀ (ρ : Env) (w : World), run S ρ w (st.ins.map (·.2)) = run S ρ w orig

theorem kill_inv (orig : List Stmt) (rec : Int → List Nat → DSt → DSt)
    (hrec : ∀ loc used st, DInv S orig st → DInv S orig (rec loc used st))
    (loc : Int) (d : Stmt) (st : DSt) (h : DInv S orig st) :
    DInv S orig (st.kill rec loc d) := by
  unfold DSt.kill
  split
  · intro hok ρ w
    simp only [Bool.and_eq_true] at hok
    simp only
    rw [safeDrop_sound S st.ins loc d hok.2 ρ w]
    exact h hok.1 ρ w
  · split
    · exact h
    · apply hrec
      intro hok ρ w
      simp only [Bool.and_eq_true] at hok
      simp only
      rw [safeDel_sound S st.ins loc hok.2 ρ w]
      exact h hok.1 ρ w

theorem updateChain_inv (orig : List Stmt) : ∀ (fuel : Nat) (loc : Int) (used : List Nat) (st : DSt),
    DInv S orig st → DInv S orig (updateChain fuel loc used st)
  | 0, _, _, _, h => h
  | fuel + 1, loc, used, st, h => by
    unfold updateChain
    -- both folds keep the invariant
    have inner : ∀ (var : Nat) (ds : List Int) (st : DSt), DInv S orig st →
        DInv S orig (ds.foldl (fun st defLoc =>
          let du := st.du.set (var, defLoc) (rem1 (st.du.get (var, defLoc)) loc)
          let udl := rem1 (st.ud.get (var, loc)) defLoc
          let ud := if udl.isEmpty then st.ud.pop (var, loc) else st.ud.set (var, loc) udl
          let st := { st with ud := ud, du := du }
          if defLoc ≥ 0 && (st.du.get (var, defLoc)).isEmpty then
            let st := { st with du := st.du.pop (var, defLoc) }
            match st.ins.at defLoc with
            | none => st
            | some d => st.kill (updateChain fuel) defLoc d
          else st) st) := by
      intro var ds
      induction ds with
      | nil => intro st h; exact h
      | cons dl ds ih =>
        intro st h
        simp only [List.foldl_cons]
        apply ih
        split
        · split
          · exact h
          · next d hd =>
            exact kill_inv S orig (updateChain fuel) (fun loc used st h => updateChain_inv orig fuel loc used st h) dl d _ h
        · exact h
    have outer : ∀ (vars : List Nat) (st : DSt), DInv S orig st →
        DInv S orig (vars.foldl (fun st var =>
          (st.ud.get (var, loc)).foldl (fun st defLoc =>
            let du := st.du.set (var, defLoc) (rem1 (st.du.get (var, defLoc)) loc)
            let udl := rem1 (st.ud.get (var, loc)) defLoc
            let ud := if udl.isEmpty then st.ud.pop (var, loc) else st.ud.set (var, loc) udl
            let st := { st with ud := ud, du := du }
            if defLoc ≥ 0 && (st.du.get (var, defLoc)).isEmpty then
              let st := { st with du := st.du.pop (var, defLoc) }
              match st.ins.at defLoc with
              | none => st
              | some d => st.kill (updateChain fuel) defLoc d
            else st) st) st) := by
      intro vars
      induction vars with
      | nil => intro st h; exact h
      | cons v vs ih =>
        intro st h
        simp only [List.foldl_cons]
        exact ih _ (inner v _ st h)
    exact outer _ st h

theorem dceLoop_inv (orig : List Stmt) (n : Nat) : ∀ (fuel k : Nat) (st : DSt),
    DInv S orig st → DInv S orig (dceLoop n fuel k st)
  | 0, _, _, h => h
  | fuel + 1, k, st, h => by
    unfold dceLoop
    split
    · exact h
    · next i s _ =>
      apply dceLoop_inv orig n fuel (k + 1)
      split
      · exact h
      · split
        · exact h
        · exact kill_inv S orig (updateChain n) (fun loc used st h => updateChain_inv S orig n loc used st h) i s st h

/-- `dce_sound`: when every deletion `dead_code_elimination` makes on `b` passes its check (a pure definition, or the
    defined register of a call, that is dead), the block it leaves has the outcome of `b` -/
theorem dce_sound (b : Block) (hs : (dcePass b).ok = true) (ρ : Env) (w : World) :
    run S ρ w (dce b).stmts = run S ρ w b.stmts := by
  have h0 : DInv S b.stmts (DSt.mk (number b.stmts) (buildUD b.params (number b.stmts))
      (buildDU (buildUD b.params (number b.stmts))) true) := by
    intro _ ρ w
    simp [number_map]
  exact dceLoop_inv S b.stmts _ _ _ _ h0 hs ρ w

/-- the two passes in the order of the pipeline -/
theorem dce_propagate_sound (b : Block) (hs : (dceThenPropagate b).ok = true) (ρ : Env) (w : World) :
    run S ρ w ((dceThenPropagate b).ins.map (·.2)) = run S ρ w b.stmts := by
  have h0 : DInv S b.stmts (dcePass b) := by
    have h0 : DInv S b.stmts (DSt.mk (number b.stmts) (buildUD b.params (number b.stmts))
        (buildDU (buildUD b.params (number b.stmts))) true) := by
      intro _ ρ w
      simp [number_map]
    exact dceLoop_inv S b.stmts _ _ _ _ h0
  have h1 : Inv S b.stmts (St.mk (dcePass b).ins (dcePass b).ud (dcePass b).du true (dcePass b).ok) := fun hok => h0 hok
  exact whileLoop_inv S b.params b.stmts _ _ _ h1 hs ρ w

end AgVerif.Propagate
