/- C01: the per-class lemmas assembled over every class; totality of `decode`. -/
import AgVerif.Spec.DalvikFormats
import AgVerif.Proof.InsnRtA
import AgVerif.Proof.InsnRtB
import AgVerif.Proof.InsnRtC
import AgVerif.Proof.InsnRtD
import AgVerif.Proof.InsnRtE
import AgVerif.Proof.InsnRtF
import AgVerif.Proof.InsnRtG
import AgVerif.Proof.InsnRtH
set_option linter.unusedSimpArgs false
set_option linter.unusedVariables false
namespace AgVerif.Insn
open AgVerif.Gen

/-- `get_raw()` of every successfully constructed instruction is the first `length` input bytes -/
theorem roundtrip_all (f : Fmt) (bs : List Nat) (hb : AllBytes bs) (x : Insn) (h : decode f bs = .ok x) :
    encode x = some (bs.take (Opcodes.length f)) := by
  cases f
  case f10x => exact rt_10x bs hb x h
  case f12x => exact rt_12x bs hb x h
  case f11n => exact rt_11n bs hb x h
  case f11x => exact rt_11x bs hb x h
  case f10t => exact rt_10t bs hb x h
  case f20t => exact rt_20t bs hb x h
  case f20bc => exact rt_20bc bs hb x h
  case f22x => exact rt_22x bs hb x h
  case f21t => exact rt_21t bs hb x h
  case f21s => exact rt_21s bs hb x h
  case f21h => exact rt_21h bs hb x h
  case f21c => exact rt_21c bs hb x h
  case f23x => exact rt_23x bs hb x h
  case f22b => exact rt_22b bs hb x h
  case f22t => exact rt_22t bs hb x h
  case f22s => exact rt_22s bs hb x h
  case f22c => exact rt_22c bs hb x h
  case f22cs => exact rt_22cs bs hb x h
  case f30t => exact rt_30t bs hb x h
  case f32x => exact rt_32x bs hb x h
  case f31i => exact rt_31i bs hb x h
  case f31t => exact rt_31t bs hb x h
  case f31c => exact rt_31c bs hb x h
  case f35c => exact rt_35c bs hb x h
  case f35ms => exact rt_35ms bs hb x h
  case f35mi => exact rt_35mi bs hb x h
  case f3rc => exact rt_3rc bs hb x h
  case f3rms => exact rt_3rms bs hb x h
  case f3rmi => exact rt_3rmi bs hb x h
  case f41c => exact rt_41c bs hb x h
  case f40sc => exact rt_40sc bs hb x h
  case f45cc => exact rt_45cc bs hb x h
  case f4rcc => exact rt_4rcc bs hb x h
  case f51l => exact rt_51l bs hb x h
  case f52c => exact rt_52c bs hb x h
  case f5rc => exact rt_5rc bs hb x h
  case f00x => simp [decode] at h; split at h <;> simp at h

theorem unpack_none {cs : List SC} {bs : List Nat} (h : bs.length ≠ calcsize cs) : unpack cs bs = none := by
  simp [unpack, h]

/-- a buffer shorter than `length` is rejected (struct.error ↦ InvalidInstruction) by every class but 00x -/
theorem decode_short (f : Fmt) (hf : f ≠ .f00x) (bs : List Nat) (hl : bs.length < Opcodes.length f) :
    decode f bs = .error .short := by
  have hu : unpack (Opcodes.unpackFmt f) (bs.take (Opcodes.length f)) = none := by
    apply unpack_none
    rw [List.length_take]
    cases f <;> simp [Opcodes.unpackFmt, calcsize, SC.size, Opcodes.length] at hl ⊢ <;> omega
  cases f <;> first
    | (exact absurd rfl hf)
    | (simp only [decode, hu])

/-- the constructed object records the class and `get_length()` is the class attribute -/
theorem decode_fmt {f : Fmt} {bs : List Nat} {x : Insn} (h : decode f bs = .ok x) : x.fmt = f := by
  have hl := decode_ok_length h
  cases f <;> simp only [decode] at h <;> (try (split at h <;> simp at h)) <;>
    (split at h <;> first
      | (simp at h; done)
      | (rename_i vs hu
         simp only [unpack] at hu
         split at hu <;> simp at hu
         subst hu
         simp only [post, m0, m1, m2, m3, m4, m5, m7, m8, Opcodes.unpackFmt, unpackGo] at h
         first
           | (simp only [Except.ok.injEq] at h; subst h; rfl)
           | (split at h <;> first | (simp at h; done) | (simp only [Except.ok.injEq] at h; subst h; rfl))))

/-- the specification format a class implements; `none` for the ODEX-only classes and for 00x -/
def toSpec : Fmt → Option Spec.Dalvik.Format
  | .f10x => some .f10x | .f12x => some .f12x | .f11n => some .f11n | .f11x => some .f11x
  | .f10t => some .f10t | .f20t => some .f20t | .f22x => some .f22x | .f21t => some .f21t
  | .f21s => some .f21s | .f21h => some .f21h | .f21c => some .f21c | .f23x => some .f23x
  | .f22b => some .f22b | .f22t => some .f22t | .f22s => some .f22s | .f22c => some .f22c
  | .f30t => some .f30t | .f32x => some .f32x | .f31i => some .f31i | .f31t => some .f31t
  | .f31c => some .f31c | .f35c => some .f35c | .f3rc => some .f3rc | .f45cc => some .f45cc
  | .f4rcc => some .f4rcc | .f51l => some .f51l
  | _ => none

theorem calcsize_eq_length (f : Fmt) : calcsize (Opcodes.unpackFmt f) = Opcodes.length f := by
  cases f <;> rfl

/-- with enough bytes every class but 00x builds an object, except for the explicit checks:
    non-zero pad byte (10x, 20t, 30t, 32x) and A > 5 (45cc) -/
theorem decode_total_all (f : Fmt) (hf : f ≠ .f00x) (bs : List Nat) (hl : Opcodes.length f ≤ bs.length) :
    (∃ x, decode f bs = .ok x) ∨ decode f bs = .error .pad ∨ decode f bs = .error .count := by
  have hu : unpack (Opcodes.unpackFmt f) (bs.take (Opcodes.length f))
      = some (unpackGo (Opcodes.unpackFmt f) (bs.take (Opcodes.length f))) := by
    simp [unpack, calcsize_eq_length, List.length_take, Nat.min_eq_left hl]
  cases f <;> first
    | (exact absurd rfl hf)
    | (simp only [decode, hu]
       simp only [Opcodes.unpackFmt, unpackGo, post, m0, m1, m2, m3, m4, m5, m7, m8]
       first
         | (exact Or.inl ⟨_, rfl⟩)
         | (split
            · first | exact Or.inr (Or.inl rfl) | exact Or.inr (Or.inr rfl)
            · exact Or.inl ⟨_, rfl⟩))

end AgVerif.Insn
