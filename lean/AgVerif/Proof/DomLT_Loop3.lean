/-
C18, Lengauer–Tarjan correctness, layer 5b: the main-loop invariant `LInv` and Step 3 (`step3`, the
bucket loop): every vertex taken out of `bucket[parent[w]]` gets its immediate dominator or a vertex
with the same immediate dominator and a smaller number (`Rel`, Corollary 1 of the paper).
-/
import AgVerif.Proof.DomLT_Loop
namespace AgVerif.DomLT
open AgVerif AgVerif.Spec

/-- `v ∈ bucket[u]` at level `i`: `v` is processed, `u` is its semidominator, and the child of `u`
    towards `v` is not linked yet -/
def BucketOK (s0 : St) (i : Nat) (semi : Nat → Nat) (u v : Nat) : Prop :=
  i < s0.semi v ∧ semi v = s0.semi u ∧ s0.semi u ≠ 0 ∧ Anc s0.parent u v ∧ u ≠ v ∧
  ∀ c, s0.parent c = some u → Anc s0.parent c v → s0.semi c ≤ i

/-- what Step 3 stores in `dom[v]`: the immediate dominator when it is the semidominator, otherwise a
    vertex `d` numbered below `v` (not the entry) with the same immediate dominator -/
def Rel (g : Digraph) (s0 : St) (v d : Nat) : Prop :=
  ∃ sv, IsSemi g.Edge s0.semi sv v ∧
    ((d = sv ∧ IDom g.Edge g.entry d v) ∨
     (d ≠ sv ∧ 1 < s0.semi d ∧ s0.semi d < s0.semi v ∧
      ∀ x, IDom g.Edge g.entry x d → IDom g.Edge g.entry x v))

/-- invariant of `for i in range(n, 1, -1)` before the iteration for the vertex numbered `i` -/
structure LInv (g : Digraph) (s0 : St) (i : Nat) (s : St) : Prop where
  core : Core g s0 i s
  finv : FInv s0.semi s0.parent i s
  semi_lo : ∀ v, s0.semi v ≤ i → s.semi v = s0.semi v
  bucket : ∀ u v, v ∈ s.bucket u → BucketOK s0 i s.semi u v
  dom : ∀ v, i < s0.semi v → (∃ u, v ∈ s.bucket u) ∨ ∃ d, s.dom v = some d ∧ Rel g s0 v d

/-- invariant of the Step 3 loop after linking `w` (numbered `i + 1`) to `pw`; `rem` = the part of
    `bucket[pw]` still to be popped -/
structure P3 (g : Digraph) (s0 : St) (i w pw : Nat) (s : St) (rem : List Nat) : Prop where
  core : Core g s0 i s
  finv : FInv s0.semi s0.parent i s
  semi_lo : ∀ v, s0.semi v ≤ i → s.semi v = s0.semi v
  bucket_o : ∀ u v, u ≠ pw → v ∈ s.bucket u → BucketOK s0 i s.semi u v
  rem_ok : ∀ v ∈ rem, s.semi v = s0.semi pw ∧ Anc s0.parent w v
  dom : ∀ v, i < s0.semi v →
    (∃ u, u ≠ pw ∧ v ∈ s.bucket u) ∨ v ∈ rem ∨ ∃ d, s.dom v = some d ∧ Rel g s0 v d

/-- Corollary 1 of the paper for a vertex `v` popped from `bucket[pw]`: `u` is what `_eval(v)` returned -/
theorem rel_of_eval {g : Digraph} {s0 : St} {n : Nat} (C : Ctx g s0 n) {i w pw v u : Nat}
    {semi : Nat → Nat} (hi : 1 ≤ i) (hw : s0.semi w = i + 1) (hp : s0.parent w = some pw)
    (hsemi : ∀ z, i < s0.semi z → ∃ sz, IsSemi g.Edge s0.semi sz z ∧ semi z = s0.semi sz)
    (hv : semi v = s0.semi pw) (hwv : Anc s0.parent w v)
    (hui : i < s0.semi u) (huv : Anc s0.parent u v)
    (hmin : ∀ z, Anc s0.parent z v → i < s0.semi z → semi u ≤ semi z) :
    Rel g s0 v (if semi u < semi v then u else pw) := by
  have T := C.tree
  obtain ⟨_, hp0, hplt⟩ := T.par_edge w pw hp
  have hwle := T.anc_le hwv
  have hvi : i < s0.semi v := by omega
  have hv0 : s0.semi v ≠ 0 := by omega
  have hvr : v ≠ g.entry := fun e => by have := C.facts.entry_one; rw [← e] at this; omega
  obtain ⟨sv, hsv, hsv2⟩ := hsemi v hvi
  have : sv = pw := T.inj sv pw hsv.1.1 (by omega)
  subst this
  -- every vertex of the segment (pw, v] is linked
  have hseg : ∀ z, Anc s0.parent sv z → z ≠ sv → Anc s0.parent z v → i < s0.semi z := by
    intro z h1 h2 h3
    rcases h3.chain hwv with h | h
    · cases h with
      | refl => omega
      | step hp' hz =>
        rw [hp] at hp'; cases hp'
        exact absurd (T.anc_antisymm hz h1) h2
    · have := T.anc_le h; omega
  have hwu : Anc s0.parent w u := by
    rcases hwv.chain huv with h | h
    · exact h
    · have := T.anc_le h
      have : u = w := T.inj u w (by omega) (by omega)
      subst this; exact Anc.refl _
  have hpu : Anc s0.parent sv u := (Anc.parent hp).trans hwu
  have hune : u ≠ sv := fun e => by subst e; omega
  obtain ⟨su, hsu, hsu2⟩ := hsemi u hui
  refine ⟨sv, hsv, ?_⟩
  by_cases hc : semi u < semi v
  · rw [if_pos hc]
    right
    refine ⟨hune, by omega, ?_, ?_⟩
    · rcases T.anc_lt huv with h | h
      · subst h; omega
      · exact h.2
    · intro x hx
      refine T.rel_idom hv0 hvr hsv hpu hune huv hsu ?_ hx
      intro u' h1 h2 h3 x' hx'
      obtain ⟨su', hsu', hsu'2⟩ := hsemi u' (hseg u' h1 h2 h3)
      have := hmin u' h3 (hseg u' h1 h2 h3)
      have := hsu'.2 x' hx'
      omega
  · rw [if_neg hc]
    left
    refine ⟨rfl, T.semi_is_idom hv0 hvr hsv ?_⟩
    intro u' h1 h2 h3 x' hx'
    obtain ⟨su', hsu', hsu'2⟩ := hsemi u' (hseg u' h1 h2 h3)
    have := hmin u' h3 (hseg u' h1 h2 h3)
    have := hsu'.2 x' hx'
    omega

/-- the Step 3 loop: total, and empties the remaining list while keeping `P3` -/
theorem step3_spec {g : Digraph} {s0 : St} {n : Nat} (C : Ctx g s0 n) {i w pw f : Nat} (hi : 1 ≤ i)
    (hw : s0.semi w = i + 1) (hp : s0.parent w = some pw) (hf : ∀ v, s0.semi v < f) :
    ∀ (rem : List Nat) (s : St), P3 g s0 i w pw s rem →
      ∃ s', step3 f pw rem s = some s' ∧ P3 g s0 i w pw s' [] ∧ s'.bucket = s.bucket
  | [], s, h => ⟨s, rfl, h, rfl⟩
  | v :: rem, s, h => by
    have T := C.tree
    obtain ⟨hsv, hwv⟩ := h.rem_ok v (List.mem_cons_self ..)
    have hwle := T.anc_le hwv
    have hv0 : s0.semi v ≠ 0 := by omega
    obtain ⟨s1, u, he, hF1, hS, hres⟩ := eval_spec T i f s v h.finv hv0 (hf v)
    rcases hres with ⟨hvi, _⟩ | ⟨hvi, hui, huv, hmin⟩
    · omega
    · have hrel := rel_of_eval C hi hw hp h.core.semi_hi hsv hwv hui huv hmin
      rw [← hS.semi] at hrel
      have hP : P3 g s0 i w pw
          { s1 with dom := upd s1.dom v (some (if s1.semi u < s1.semi v then u else pw)) } rem := by
        refine ⟨⟨⟨hS.vertex.trans h.core.stat.vertex, hS.parent.trans h.core.stat.parent,
            hS.pred.trans h.core.stat.pred⟩, ?_, ?_⟩, hF1.congr rfl rfl (fun _ _ => rfl), ?_, ?_, ?_, ?_⟩
        · intro x hx
          obtain ⟨sx, h1, h2⟩ := h.core.semi_hi x hx
          exact ⟨sx, h1, by rw [← h2]; show s1.semi x = _; rw [hS.semi]⟩
        · intro x hx
          have hxv : x ≠ v := fun e => by subst e; exact hv0 hx
          show upd s1.dom v _ x = none
          simp only [upd, if_neg hxv]; rw [hS.dom]; exact h.core.dom_none x hx
        · intro x hx; show s1.semi x = _; rw [hS.semi]; exact h.semi_lo x hx
        · intro a b ha hb
          have hb' : b ∈ s.bucket a := by rw [← hS.bucket]; exact hb
          show BucketOK s0 i s1.semi a b
          rw [hS.semi]; exact h.bucket_o a b ha hb'
        · intro x hx
          show s1.semi x = _ ∧ _
          rw [hS.semi]; exact h.rem_ok x (List.mem_cons_of_mem _ hx)
        · intro x hx
          by_cases hxv : x = v
          · subst hxv
            exact Or.inr (Or.inr ⟨_, by simp [upd], hrel⟩)
          · rcases h.dom x hx with ⟨a, ha, hb⟩ | hm | ⟨d, hd, hr⟩
            · exact Or.inl ⟨a, ha, by show x ∈ s1.bucket a; rw [hS.bucket]; exact hb⟩
            · rcases List.mem_cons.mp hm with hm | hm
              · exact absurd hm hxv
              · exact Or.inr (Or.inl hm)
            · refine Or.inr (Or.inr ⟨d, ?_, hr⟩)
              show upd s1.dom v _ x = some d
              simp only [upd, if_neg hxv]; rw [hS.dom]; exact hd
      obtain ⟨s', hst, hP', hb'⟩ := step3_spec C hi hw hp hf rem _ hP
      exact ⟨s', by simp only [step3, he]; exact hst, hP', hb'.trans hS.bucket⟩

end AgVerif.DomLT
