/- C31, full manifest: `get_main_activities` / `get_main_activity` on `AppManifest.toXml`. -/
import AgVerif.Proof.ManifestAnswers
import AgVerif.Proof.ManifestMain
set_option linter.unusedSimpArgs false
namespace AgVerif.Proof.Manifest
open AgVerif.Manifest AgVerif.Spec.Manifest AgVerif.Gen.AxmlConsts
open AgVerif.Axml (Str Node Attr lit)

/-- activities first, then aliases: the order of `findall("activity") + findall("activity-alias")` -/
def ordered (m : AppManifest) : List Activity := m.activities.filter (!·.alias) ++ m.activities.filter (·.alias)

theorem mem_ordered (m : AppManifest) (a : Activity) : a ∈ ordered m ↔ a ∈ m.activities := by
  simp only [ordered, List.mem_append, List.mem_filter]
  cases a.alias <;> simp

theorem findall_activity (a : Activity) (T : Tag) :
    findall (activityEl a) T.str = a.filters.flatMap fun f => (filterDesc f).filter (isTag T) := by
  simp only [findall, activityEl, mkEl, descList_map, descNode_filter]
  exact filter_flatMap _ _ _

theorem actions_of (a : Activity) :
    findall (activityEl a) Tag.action.str = a.filters.flatMap fun f => f.actions.map (namedEl .action) := by
  rw [findall_activity]; simp [filter_filterDesc]

theorem categories_of (a : Activity) :
    findall (activityEl a) Tag.category.str = a.filters.flatMap fun f => f.categories.map (namedEl .category) := by
  rw [findall_activity]; simp [filter_filterDesc]

/-- the names collected for one half (MAIN actions, or LAUNCHER categories) -/
def half (live : List El) (sub want : Str) : List Str :=
  live.flatMap fun it => (findall it sub).filterMap fun s =>
    if getAttr s nsAndroid (lit attrName) == some want then attrOr it (lit attrName) else none

theorem mem_half (L : List Activity) (hn : ∀ a ∈ L, a.name ≠ []) (T : Tag) (sel : Filter → List Str)
    (hsel : ∀ a, findall (activityEl a) T.str = a.filters.flatMap fun f => (sel f).map (namedEl T)) (want n : Str) :
    n ∈ half (L.map activityEl) T.str want ↔ ∃ a ∈ L, (a.filters.any fun f => (sel f).contains want) = true ∧ a.name = n := by
  simp only [half, List.mem_flatMap, List.mem_map, List.mem_filterMap, lit_attrName]
  constructor
  · rintro ⟨it, ⟨a, ha, rfl⟩, s, hs, hif⟩
    rw [hsel] at hs
    simp only [List.mem_flatMap, List.mem_map] at hs
    obtain ⟨f, hf, x, hx, rfl⟩ := hs
    simp only [named_name_get, activity_name a (hn a ha)] at hif
    split at hif
    · rename_i hw
      simp only [beq_iff_eq, Option.some.injEq] at hw hif
      subst hw
      exact ⟨a, ha, by simp only [List.any_eq_true]; exact ⟨f, hf, by simpa using hx⟩, hif⟩
    · simp at hif
  · rintro ⟨a, ha, hany, rfl⟩
    simp only [List.any_eq_true] at hany
    obtain ⟨f, hf, hw⟩ := hany
    refine ⟨activityEl a, ⟨a, ha, rfl⟩, namedEl T want, ?_, ?_⟩
    · rw [hsel]; simp only [List.mem_flatMap, List.mem_map]
      exact ⟨f, hf, want, by simpa using hw, rfl⟩
    · simp [named_name_get, activity_name a (hn a ha)]

theorem live_items (m : AppManifest) :
    ((findall (rootEl m) (lit tagActivity) ++ findall (rootEl m) (lit tagActivityAlias)).filter fun it =>
      getAttr it nsAndroid (lit attrEnabled) != some (lit valFalse)) = ((ordered m).filter Activity.live).map activityEl := by
  rw [lit_tagActivity, lit_tagActivityAlias, findall_root, findall_root, activities_found, aliases_found, ← List.map_append,
    List.filter_map]
  congr 1
  apply List.filter_congr
  intro a _
  simp only [Function.comp, lit_attrEnabled, activity_enabled, Activity.live]

theorem mainActivities_eq (m : AppManifest) :
    (analyse (some m.toXml)).mainActivities =
      dedup ((half (((ordered m).filter Activity.live).map activityEl) Tag.action.str (lit actionMain)).filter fun n =>
        (half (((ordered m).filter Activity.live).map activityEl) Tag.category.str (lit categoryLauncher)).contains n) := by
  simp only [Analysis.mainActivities, root_toXml, live_items, half, lit_tagAction, lit_tagCategory]

/-- `get_main_activities` on the XML of a well-formed manifest: the names of the enabled activities and aliases that have
    a launcher filter -/
theorem mem_mainActivities (m : AppManifest) (h : m.WF) (n : Str) :
    n ∈ (analyse (some m.toXml)).mainActivities ↔ n ∈ m.mainNames := by
  obtain ⟨_, _, _, _, _, hact, _, hco⟩ := h
  have hn : ∀ a ∈ (ordered m).filter Activity.live, a.name ≠ [] :=
    fun a ha => hact a ((mem_ordered m a).1 (List.mem_filter.1 ha).1)
  rw [mainActivities_eq, mem_dedup, List.mem_filter, List.contains_iff_mem,
    mem_half _ hn .action (·.actions) actions_of, mem_half _ hn .category (·.categories) categories_of]
  simp only [AppManifest.mainNames, List.mem_map, List.mem_filter, mem_ordered]
  constructor
  · rintro ⟨⟨a, ⟨ha, hla⟩, hma, rfl⟩, b, ⟨hb, hlb⟩, hlb', hab⟩
    have := hco a ha b hb hla hlb hma hlb' hab.symm
    exact ⟨a, ⟨ha, by simp [Activity.isMain, hla, this]⟩, rfl⟩
  · rintro ⟨a, ⟨ha, hmain⟩, rfl⟩
    simp only [Activity.isMain, Bool.and_eq_true, List.any_eq_true] at hmain
    obtain ⟨hl, f, hf, hfl⟩ := hmain
    simp only [Filter.isLauncher, Bool.and_eq_true] at hfl
    exact ⟨⟨a, ⟨ha, hl⟩, by simp only [List.any_eq_true]; exact ⟨f, hf, hfl.1⟩, rfl⟩,
      a, ⟨ha, hl⟩, by simp only [List.any_eq_true]; exact ⟨f, hf, hfl.2⟩, rfl⟩

theorem wf_iff (m : AppManifest) : m.WF ↔ m.WF0 ∧ m.LauncherCoherent := by
  unfold AppManifest.WF AppManifest.WF0 AppManifest.LauncherCoherent
  constructor
  · rintro ⟨h1, h2, h3, h4, h5, h6, h7, h8⟩; exact ⟨⟨h1, h2, h3, h4, h5, h6, h7⟩, h8⟩
  · rintro ⟨⟨h1, h2, h3, h4, h5, h6, h7⟩, h8⟩; exact ⟨h1, h2, h3, h4, h5, h6, h7, h8⟩

/-- `get_main_activities` on the XML of ANY manifest with non-empty names: androguard's by-name rule, no coherence assumed -/
theorem mem_mainActivities_byName (m : AppManifest) (h : m.WF0) (n : Str) :
    n ∈ (analyse (some m.toXml)).mainActivities ↔ m.IsMainName n := by
  obtain ⟨_, _, _, _, _, hact, _⟩ := h
  have hn : ∀ a ∈ (ordered m).filter Activity.live, a.name ≠ [] :=
    fun a ha => hact a ((mem_ordered m a).1 (List.mem_filter.1 ha).1)
  rw [mainActivities_eq, mem_dedup, List.mem_filter, List.contains_iff_mem,
    mem_half _ hn .action (·.actions) actions_of, mem_half _ hn .category (·.categories) categories_of]
  simp only [AppManifest.IsMainName, List.mem_filter, mem_ordered, Activity.hasMainAction, Activity.hasLauncherCategory]
  constructor
  · rintro ⟨⟨a, ⟨ha, hla⟩, hma, rfl⟩, b, ⟨hb, hlb⟩, hlb', hab⟩
    exact ⟨⟨a, ha, hla, hma, rfl⟩, b, hb, hlb, hlb', hab⟩
  · rintro ⟨⟨a, ha, hla, hma, rfl⟩, b, hb, hlb, hlb', hab⟩
    exact ⟨⟨a, ⟨ha, hla⟩, hma, rfl⟩, b, ⟨hb, hlb⟩, hlb', hab⟩

/-- on coherent manifests the by-name rule is Android's per-filter rule -/
theorem isMainName_iff_perFilter (m : AppManifest) (hco : m.LauncherCoherent) (n : Str) :
    m.IsMainName n ↔ ∃ a ∈ m.activities, a.isMain = true ∧ a.name = n := by
  constructor
  · rintro ⟨⟨a, ha, hla, hma, rfl⟩, b, hb, hlb, hlb', hab⟩
    exact ⟨a, ha, by simp [Activity.isMain, hla, hco a ha b hb hla hlb hma hlb' hab.symm], rfl⟩
  · rintro ⟨a, ha, hmain, rfl⟩
    simp only [Activity.isMain, Bool.and_eq_true, List.any_eq_true] at hmain
    obtain ⟨hl, f, hf, hfl⟩ := hmain
    simp only [Filter.isLauncher, Bool.and_eq_true] at hfl
    exact ⟨⟨a, ha, hl, by simp only [Activity.hasMainAction, List.any_eq_true]; exact ⟨f, hf, hfl.1⟩, rfl⟩,
      a, ha, hl, by simp only [Activity.hasLauncherCategory, List.any_eq_true]; exact ⟨f, hf, hfl.2⟩, rfl⟩

/-- … and a per-filter main activity is a by-name main activity on every manifest (the converse is what coherence adds) -/
theorem perFilter_isMainName (m : AppManifest) (a : Activity) (ha : a ∈ m.activities) (hmain : a.isMain = true) :
    m.IsMainName a.name := by
  simp only [Activity.isMain, Bool.and_eq_true, List.any_eq_true] at hmain
  obtain ⟨hl, f, hf, hfl⟩ := hmain
  simp only [Filter.isLauncher, Bool.and_eq_true] at hfl
  exact ⟨⟨a, ha, hl, by simp only [Activity.hasMainAction, List.any_eq_true]; exact ⟨f, hf, hfl.1⟩, rfl⟩,
    a, ha, hl, by simp only [Activity.hasLauncherCategory, List.any_eq_true]; exact ⟨f, hf, hfl.2⟩, rfl⟩

theorem mainActivities_nodup (xml : Option Node) : (analyse xml).mainActivities.Nodup := by
  unfold Analysis.mainActivities
  split
  · simp
  · exact dedup_nodup _

theorem mainActivity_none (a : Analysis) (h : a.mainActivities = []) : a.mainActivity = none := by
  simp [Analysis.mainActivity, h]

theorem mainActivity_some (a : Analysis) (h : a.mainActivities ≠ []) : ∃ r, a.mainActivity = some r := by
  cases hxs : a.mainActivities with
  | nil => exact absurd hxs h
  | cons y ys =>
    cases ys with
    | nil => exact ⟨formatValue a.package y, by simp [Analysis.mainActivity, hxs]⟩
    | cons z zs =>
      simp only [Analysis.mainActivity, hxs]
      have hne : dedup ((y :: z :: zs).map (formatValue a.package)) ≠ [] := by
        intro e
        have : formatValue a.package y ∈ dedup ((y :: z :: zs).map (formatValue a.package)) := by
          rw [mem_dedup]; simp
        rw [e] at this; simp at this
      obtain ⟨m, hm⟩ := minStr_ne_nil _ hne
      split
      · exact ⟨_, rfl⟩
      · exact ⟨m, hm⟩

theorem mem_candidates_congr (L1 L2 D : List Str) (h : ∀ y, y ∈ L1 ↔ y ∈ L2) (y : Str) :
    y ∈ candidates L1 D ↔ y ∈ candidates L2 D := by
  have hf : ∀ y, y ∈ L1.filter (D.contains ·) ↔ y ∈ L2.filter (D.contains ·) := by
    intro y; simp only [List.mem_filter, h]
  have hnil : L1.filter (D.contains ·) = [] ↔ L2.filter (D.contains ·) = [] := by
    simp only [List.eq_nil_iff_forall_not_mem, hf]
  unfold candidates
  by_cases h1 : L1.filter (D.contains ·) = []
  · simp only [h1, hnil.1 h1, if_true, h]
  · simp only [h1, mt hnil.2 h1, if_false, hf]

/-- `get_main_activity` on the XML of a well-formed manifest: none without a launcher activity; otherwise the least (code-point
    order) completed launcher name among those that are declared `<activity>` names, or among all of them when none is -/
theorem mainActivity_toXml (m : AppManifest) (h : m.WF) :
    (m.mainNames = [] → (analyse (some m.toXml)).mainActivity = none) ∧
    (m.mainNames ≠ [] → ∃ r, (analyse (some m.toXml)).mainActivity = some r ∧
      r ∈ candidates (m.mainNames.map (complete m.package)) m.answers.activities ∧
      ∀ y ∈ candidates (m.mainNames.map (complete m.package)) m.answers.activities, strLt y r = false) := by
  have hmem := mem_mainActivities m h
  have hact : (analyse (some m.toXml)).activities = m.answers.activities := activities_toXml m h.2.2.2.2.2.1
  have hL : ∀ y, y ∈ (analyse (some m.toXml)).mainActivities.map (formatValue (analyse (some m.toXml)).package) ↔
      y ∈ m.mainNames.map (complete m.package) := by
    intro y
    simp only [List.mem_map, package_toXml, formatValue_complete, hmem]
  constructor
  · intro h0
    apply mainActivity_none
    rw [List.eq_nil_iff_forall_not_mem]
    intro n hn; rw [hmem, h0] at hn; simp at hn
  · intro h1
    have hne : (analyse (some m.toXml)).mainActivities ≠ [] := by
      intro e
      obtain ⟨n, hn⟩ := List.exists_mem_of_ne_nil _ h1
      have := (hmem n).2 hn
      rw [e] at this; simp at this
    obtain ⟨r, hr⟩ := mainActivity_some _ hne
    obtain ⟨h2, h3⟩ := mainActivity_least _ r hr
    rw [hact] at h2 h3
    exact ⟨r, hr, (mem_candidates_congr _ _ _ hL r).1 h2, fun y hy => h3 y ((mem_candidates_congr _ _ _ hL y).2 hy)⟩

end AgVerif.Proof.Manifest
