/-
C02 lemmas about the sweep loop (`sweepFrom`): by induction on the loop.
-/
import AgVerif.Model.Sweep
import AgVerif.Proof.InsnAll
set_option linter.unusedVariables false
namespace AgVerif.Sweep
open AgVerif.Insn AgVerif.Gen

theorem sweepFrom_eq (odex : Bool) (bs : List Nat) (maxIdx idx : Nat) :
    sweepFrom odex bs maxIdx idx =
      if idx < maxIdx then
        match step odex bs maxIdx idx with
        | none => ([], .invalid idx)
        | some it => ((idx, it) :: (sweepFrom odex bs maxIdx (idx + it.length)).1,
                      (sweepFrom odex bs maxIdx (idx + it.length)).2)
      else ([], .done) := by
  rw [sweepFrom]
  split
  · split <;> simp_all
  · rfl

/-- a built item never runs past `maxIdx` -/
theorem step_bound {odex : Bool} {bs : List Nat} {maxIdx idx : Nat} {it : Item}
    (h : step odex bs maxIdx idx = some it) : idx + it.length ≤ maxIdx ∧ idx + 2 ≤ maxIdx := by
  unfold step at h
  split at h
  · simp at h
  · rename_i h2
    split at h
    · split at h
      · simp at h
      · simp only [Option.some.injEq] at h; subst h; omega
    · simp at h

/-- every yielded item was built by `step` at its offset, starts at or after the start index and ends inside
    the code -/
theorem sweepFrom_sound (odex : Bool) (bs : List Nat) (maxIdx : Nat) :
    ∀ (n idx : Nat), maxIdx - idx ≤ n → ∀ p ∈ (sweepFrom odex bs maxIdx idx).1,
      idx ≤ p.1 ∧ p.1 + p.2.length ≤ maxIdx ∧ step odex bs maxIdx p.1 = some p.2 := by
  intro n
  induction n with
  | zero =>
    intro idx hn p hp
    rw [sweepFrom_eq, if_neg (by omega)] at hp
    simp at hp
  | succ n ih =>
    intro idx hn p hp
    rw [sweepFrom_eq] at hp
    split at hp
    · split at hp
      · simp at hp
      · rename_i it hs
        have hpos := step_len_pos hs
        simp only [List.mem_cons] at hp
        rcases hp with rfl | hp
        · exact ⟨Nat.le_refl _, (step_bound hs).1, hs⟩
        · have := ih (idx + it.length) (by omega) p hp
          exact ⟨by omega, this.2.1, this.2.2⟩
    · simp at hp

/-- the outcome is `done` or `invalid o` with `step` failing at `o` -/
theorem sweepFrom_outcome (odex : Bool) (bs : List Nat) (maxIdx : Nat) :
    ∀ (n idx : Nat), maxIdx - idx ≤ n →
      (sweepFrom odex bs maxIdx idx).2 = .done ∨
      ∃ o, (sweepFrom odex bs maxIdx idx).2 = .invalid o ∧ idx ≤ o ∧ o < maxIdx ∧ step odex bs maxIdx o = none := by
  intro n
  induction n with
  | zero =>
    intro idx hn
    rw [sweepFrom_eq, if_neg (by omega)]
    exact Or.inl rfl
  | succ n ih =>
    intro idx hn
    rw [sweepFrom_eq]
    split
    · rename_i hlt
      split
      · rename_i hs
        exact Or.inr ⟨idx, rfl, Nat.le_refl _, hlt, hs⟩
      · rename_i it hs
        have hpos := step_len_pos hs
        rcases ih (idx + it.length) (by omega) with h | ⟨o, h1, h2, h3, h4⟩
        · exact Or.inl h
        · exact Or.inr ⟨o, h1, by omega, h3, h4⟩
    · exact Or.inl rfl

/-- offsets of a program laid out from `idx` -/
def withOffsets : Nat → List Item → List (Nat × Item)
  | _, [] => []
  | idx, it :: r => (idx, it) :: withOffsets (idx + it.length) r

/-- each item of the program is what `step` builds at its offset -/
def StepsOK (odex : Bool) (bs : List Nat) (maxIdx : Nat) : Nat → List Item → Prop
  | _, [] => True
  | idx, it :: r => idx < maxIdx ∧ step odex bs maxIdx idx = some it ∧ StepsOK odex bs maxIdx (idx + it.length) r

def totalLen : List Item → Nat
  | [] => 0
  | it :: r => it.length + totalLen r

/-- if every item is built at its prefix-sum offset and the items fill the code exactly, the sweep yields exactly
    those items, in order, at those offsets, and ends normally -/
theorem sweepFrom_exact (odex : Bool) (bs : List Nat) (maxIdx : Nat) :
    ∀ (prog : List Item) (idx : Nat), StepsOK odex bs maxIdx idx prog → idx + totalLen prog = maxIdx →
      sweepFrom odex bs maxIdx idx = (withOffsets idx prog, .done) := by
  intro prog
  induction prog with
  | nil =>
    intro idx _ hlen
    simp only [totalLen, Nat.add_zero] at hlen
    rw [sweepFrom_eq, if_neg (by omega)]
    rfl
  | cons it r ih =>
    intro idx hok hlen
    obtain ⟨hlt, hs, hrest⟩ := hok
    simp only [totalLen] at hlen
    rw [sweepFrom_eq, if_pos hlt, hs]
    simp only
    rw [ih (idx + it.length) hrest (by omega)]
    rfl

/-- an instruction item re-encodes to the bytes at its offset -/
theorem insn_raw {odex : Bool} {bs : List Nat} {maxIdx o : Nat} {f : Fmt} {x : Insn} (hb : AllBytes bs)
    (h : step odex bs maxIdx o = some (.insn f x)) :
    (Item.insn f x).raw = some ((bs.drop o).take (Item.insn f x).length) ∧ decode f (bs.drop o) = .ok x := by
  have hdec : decode f (bs.drop o) = .ok x := by
    unfold step at h
    split at h
    · simp at h
    · split at h
      · rename_i it hbuild
        split at h
        · simp at h
        · simp only [Option.some.injEq] at h
          subst h
          unfold build at hbuild
          have key : ∀ (g : Option Fmt), insnItem g (bs.drop o) = some (.insn f x) → decode f (bs.drop o) = .ok x := by
            intro g hg
            unfold insnItem at hg
            split at hg
            · split at hg
              · rename_i f' x' hd
                simp only [Option.some.injEq, Item.insn.injEq] at hg
                obtain ⟨rfl, rfl⟩ := hg
                exact hd
              · simp at hg
            · simp at hg
          have nomap : ∀ {α} (o' : Option α) (g : α → Item), (∀ a, g a ≠ .insn f x) → o'.map g ≠ some (.insn f x) := by
            intro α o' g hg
            cases o' with
            | none => simp
            | some a => simp [hg a]
          split at hbuild
          · simp only at hbuild
            split at hbuild
            · split at hbuild
              · exact absurd hbuild (nomap _ _ (by intro a; simp))
              · split at hbuild
                · exact absurd hbuild (nomap _ _ (by intro a; simp))
                · split at hbuild
                  · exact absurd hbuild (nomap _ _ (by intro a; simp))
                  · split at hbuild
                    · exact key _ hbuild
                    · split at hbuild
                      · exact key _ hbuild
                      · simp at hbuild
            · exact key _ hbuild
          · simp at hbuild
      · simp at h
  have hb' : AllBytes (bs.drop o) := fun b hbm => hb b (List.mem_of_mem_drop hbm)
  refine ⟨?_, hdec⟩
  show encode x = some ((bs.drop o).take (Opcodes.length f))
  exact roundtrip_all f _ hb' x hdec

end AgVerif.Sweep
