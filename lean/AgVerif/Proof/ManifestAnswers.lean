/- C31, full manifest: every listed query on `AppManifest.toXml` answers what the manifest declares. -/
import AgVerif.Proof.ManifestQueries
set_option linter.unusedSimpArgs false
namespace AgVerif.Proof.Manifest
open AgVerif.Manifest AgVerif.Spec.Manifest AgVerif.Gen.AxmlConsts
open AgVerif.Axml (Str Node Attr lit)

/-- `_format_value` is Android's name completion -/
theorem formatValue_complete (pkg v : Str) : formatValue (some pkg) v = complete pkg v := by
  unfold formatValue complete
  by_cases h0 : v = [] ∨ pkg = []
  · have : v.isEmpty = true ∨ pkg.isEmpty = true := by
      rcases h0 with h | h <;> simp [h]
    simp [h0, this]
  · have h1 : ¬ (v.isEmpty = true ∨ pkg.isEmpty = true) := by
      simp only [List.isEmpty_iff]; exact h0
    simp only [h1, h0, if_false]
    by_cases hd : v.head? = some 0x2E
    · simp [(findDot_zero v).2 hd, hd]
    · by_cases hm : 0x2E ∈ v
      · have hn : findDot v ≠ none := fun e => (findDot_none v).1 e hm
        have hz : findDot v ≠ some 0 := fun e => hd ((findDot_zero v).1 e)
        cases hf : findDot v with
        | none => exact absurd hf hn
        | some k =>
          cases k with
          | zero => exact absurd hf hz
          | succ k => simp [hd, hm]
      · simp [(findDot_none v).2 hm, hd, hm]

/-! ### package and versions -/

theorem package_toXml (m : AppManifest) : (analyse (some m.toXml)).package = some m.package := by
  rw [analyse_toXml]
  simp only [first_root m _ _ (root_package m), optFirst]

theorem versionCode_toXml (m : AppManifest) (h : ∀ v ∈ m.versionCode.toList, v.render ≠ []) :
    (analyse (some m.toXml)).versionCode = optFirst (m.versionCode.map Val.render) := by
  rw [analyse_toXml]
  refine first_root m _ _ (attrOr_of _ _ _ (root_bare m .versionCode) ?_ ?_)
  · rw [lit_attrVersionCode, root_lookup]; simp
  · intro v hv; simp only [Option.mem_def, Option.map_eq_some_iff] at hv
    obtain ⟨w, hw, rfl⟩ := hv; exact h w (by simp [hw])

theorem versionName_toXml (m : AppManifest) (h : ∀ s ∈ m.versionName.toList, s ≠ []) :
    (analyse (some m.toXml)).versionName = optFirst m.versionName := by
  rw [analyse_toXml]
  refine first_root m _ _ (attrOr_of _ _ _ (root_bare m .versionName) ?_ ?_)
  · rw [lit_attrVersionName, root_lookup]; simp
  · intro v hv; exact h v (by simpa using hv)

theorem root_toXml (m : AppManifest) : (analyse (some m.toXml)).root = some (rootEl m) := by
  rw [analyse_toXml]

/-! ### lists of names -/

theorem filterMap_names {α : Type} (l : List α) (g : α → El) (nm : α → Str) (f : Str → Str)
    (h : ∀ x ∈ l, attrOr (g x) AName.name.str = some (nm x)) :
    (l.map g).filterMap (fun e => (attrOr e AName.name.str).map f) = l.map fun x => f (nm x) := by
  induction l with
  | nil => rfl
  | cons x r ih =>
    simp only [List.map_cons, List.filterMap_cons, h x (by simp), Option.map_some]
    rw [ih (fun y hy => h y (by simp [hy]))]

theorem names_named (m : AppManifest) (pkg : Option Str) (c : Bool) (T : Tag) (l : List Str) (hl : ∀ n ∈ l, n ≠ [])
    (hf : (allDesc m).filter (isTag T) = l.map (namedEl T)) (hT : T ≠ .manifest) :
    allAttrValues (some (rootEl m)) pkg T.str (lit attrName) c = l.map fun v => if c then formatValue pkg v else v := by
  simp only [allAttrValues, findTags_root m T hT, hf, lit_attrName]
  exact filterMap_names l (namedEl T) id _ (fun x hx => named_name T x (hl x hx))

theorem activity_tag_eq (a : Activity) : decide (a.tag = .activity) = !a.alias := by
  cases h : a.alias <;> simp [Activity.tag, h]

theorem activity_tag_alias (a : Activity) : decide (a.tag = .activityAlias) = a.alias := by
  cases h : a.alias <;> simp [Activity.tag, h]

theorem activity_tag_ne (a : Activity) (T : Tag) (h1 : T ≠ .activity) (h2 : T ≠ .activityAlias) : ¬ a.tag = T := by
  cases h : a.alias <;> simp [Activity.tag, h, Ne.symm h1, Ne.symm h2]

theorem activities_found (m : AppManifest) :
    (allDesc m).filter (isTag .activity) = (m.activities.filter (!·.alias)).map activityEl := by
  rw [filter_allDesc m .activity (by decide)]
  simp [activity_tag_eq]

theorem aliases_found (m : AppManifest) :
    (allDesc m).filter (isTag .activityAlias) = (m.activities.filter (·.alias)).map activityEl := by
  rw [filter_allDesc m .activityAlias (by decide)]
  simp [activity_tag_alias]

theorem activities_toXml (m : AppManifest) (h : ∀ a ∈ m.activities, a.name ≠ []) :
    (analyse (some m.toXml)).activities = (m.activities.filter (!·.alias)).map fun a => complete m.package a.name := by
  simp only [Analysis.activities, Analysis.components, root_toXml, package_toXml, lit_tagActivity, allAttrValues,
    findTags_root m .activity (by decide), activities_found, lit_attrName]
  rw [filterMap_names _ activityEl (·.name) _ (fun a ha => activity_name a (h a (List.mem_filter.1 ha).1))]
  simp [completeActivities, formatValue_complete]

theorem services_toXml (m : AppManifest) (h : ∀ n ∈ m.services, n ≠ []) :
    (analyse (some m.toXml)).services = m.services.map (complete m.package) := by
  simp only [Analysis.services, Analysis.components, root_toXml, package_toXml, lit_tagService]
  rw [names_named m _ _ .service m.services h (by rw [filter_allDesc m .service (by decide)]; simp; exact fun a _ => activity_tag_ne a _ (by decide) (by decide)) (by decide)]
  simp [completeServices, formatValue_complete]

theorem receivers_toXml (m : AppManifest) (h : ∀ n ∈ m.receivers, n ≠ []) :
    (analyse (some m.toXml)).receivers = m.receivers.map (complete m.package) := by
  simp only [Analysis.receivers, Analysis.components, root_toXml, package_toXml, lit_tagReceiver]
  rw [names_named m _ _ .receiver m.receivers h (by rw [filter_allDesc m .receiver (by decide)]; simp; exact fun a _ => activity_tag_ne a _ (by decide) (by decide)) (by decide)]
  simp [completeReceivers, formatValue_complete]

theorem providers_toXml (m : AppManifest) (h : ∀ n ∈ m.providers, n ≠ []) :
    (analyse (some m.toXml)).providers = m.providers.map (complete m.package) := by
  simp only [Analysis.providers, Analysis.components, root_toXml, package_toXml, lit_tagProvider]
  rw [names_named m _ _ .provider m.providers h (by rw [filter_allDesc m .provider (by decide)]; simp; exact fun a _ => activity_tag_ne a _ (by decide) (by decide)) (by decide)]
  simp [completeProviders, formatValue_complete]

theorem libraries_toXml (m : AppManifest) (h : ∀ n ∈ m.libraries, n ≠ []) :
    (analyse (some m.toXml)).libraries = m.libraries := by
  simp only [Analysis.libraries, Analysis.components, root_toXml, package_toXml, lit_tagUsesLibrary]
  rw [names_named m _ _ .usesLibrary m.libraries h (by rw [filter_allDesc m .usesLibrary (by decide)]; simp; exact fun a _ => activity_tag_ne a _ (by decide) (by decide)) (by decide)]
  simp [completeLibraries]

theorem features_toXml (m : AppManifest) (h : ∀ n ∈ m.features, n ≠ []) :
    (analyse (some m.toXml)).features = m.features := by
  simp only [Analysis.features, Analysis.components, root_toXml, package_toXml, lit_tagUsesFeature]
  rw [names_named m _ _ .usesFeature m.features h (by rw [filter_allDesc m .usesFeature (by decide)]; simp; exact fun a _ => activity_tag_ne a _ (by decide) (by decide)) (by decide)]
  simp [completeFeatures]

/-! ### permissions -/

theorem permissions_found (m : AppManifest) : (allDesc m).filter (isTag .usesPermission) = m.permissions.map permissionEl := by
  rw [filter_allDesc m .usesPermission (by decide)]
  simp
  exact fun a _ => activity_tag_ne a _ (by decide) (by decide)

theorem permissions_toXml (m : AppManifest) (h : ∀ p ∈ m.permissions, p.name ≠ []) :
    (analyse (some m.toXml)).permissions = dedup (m.permissions.map (·.name)) := by
  rw [analyse_toXml]
  simp only [allAttrValues, lit_tagUsesPermission, findTags_root m .usesPermission (by decide), permissions_found, lit_attrName]
  rw [filterMap_names _ permissionEl (·.name) _ (fun p hp => permission_name p (h p hp))]
  simp [completePermissions]

theorem usesPermissions_toXml (m : AppManifest) :
    (analyse (some m.toXml)).usesPermissions = m.permissions.map fun p => (some p.name, (p.maxSdk.map Val.render).bind intOrNone) := by
  rw [analyse_toXml]
  simp only [lit_tagUsesPermission, findTags_root m .usesPermission (by decide), permissions_found, lit_attrName, List.map_map]
  apply List.map_congr_left
  intro p _
  simp only [Function.comp, permission_name_value, permissionMaxSdk, lit_attrMaxSdk, permission_maxSdk]
  cases p.maxSdk with
  | none => rfl
  | some v => simp only [Option.map_some, Option.bind_some, intOrNone]; cases pyInt v.render <;> rfl

/-! ### uses-sdk -/

theorem usesSdk_found (m : AppManifest) : (allDesc m).filter (isTag .usesSdk) = m.usesSdk.toList.map usesSdkEl := by
  rw [filter_allDesc m .usesSdk (by decide)]
  simp
  exact fun a _ => activity_tag_ne a _ (by decide) (by decide)

theorem sdk_first (m : AppManifest) (n : AName) (g : UsesSdk → Option Val)
    (hg : ∀ s, lookup (usesSdkEl s).attrs nsAndroid n.str = (g s).map Val.render)
    (hne : ∀ s ∈ m.usesSdk.toList, ∀ v ∈ (g s).toList, v.render ≠ []) :
    firstAttrValue (some (rootEl m)) Tag.usesSdk.str n.str = optFirst (m.sdkVal g) := by
  simp only [firstAttrValue, allAttrValues, findTags_root m .usesSdk (by decide), usesSdk_found, AppManifest.sdkVal]
  cases hs : m.usesSdk with
  | none => simp [optFirst]
  | some s =>
    have h1 : attrOr (usesSdkEl s) n.str = (g s).map Val.render := by
      refine attrOr_of _ _ _ (usesSdk_bare s _) (hg s) ?_
      intro v hv
      simp only [Option.mem_def, Option.map_eq_some_iff] at hv
      obtain ⟨w, hw, rfl⟩ := hv
      exact hne s (by simp [hs]) w (by simp [hw])
    simp only [Option.toList, List.map_cons, List.map_nil, List.filterMap_cons, List.filterMap_nil, h1, Option.bind_some]
    cases g s <;> simp [optFirst]

theorem sdk_toXml (m : AppManifest) (h : ∀ s ∈ m.usesSdk.toList, ∀ v ∈ s.vals, v.render ≠ []) :
    (analyse (some m.toXml)).sdk attrMinSdk = optFirst (m.sdkVal (·.min)) ∧
    (analyse (some m.toXml)).sdk attrTargetSdk = optFirst (m.sdkVal (·.target)) ∧
    (analyse (some m.toXml)).sdk attrMaxSdk = optFirst (m.sdkVal (·.max)) := by
  simp only [Analysis.sdk, root_toXml, lit_tagUsesSdk, lit_attrMinSdk, lit_attrTargetSdk, lit_attrMaxSdk]
  refine ⟨sdk_first m .minSdk _ (fun s => by rw [usesSdk_lookup]; simp) ?_,
    sdk_first m .targetSdk _ (fun s => by rw [usesSdk_lookup]; simp) ?_,
    sdk_first m .maxSdk _ (fun s => by rw [usesSdk_lookup]; simp) ?_⟩ <;>
  · intro s hs v hv
    exact h s hs v (by simp only [UsesSdk.vals, List.mem_append]; simp [hv])

theorem effectiveTarget_toXml (m : AppManifest) (h : ∀ s ∈ m.usesSdk.toList, ∀ v ∈ s.vals, v.render ≠ []) :
    (analyse (some m.toXml)).effectiveTarget = m.answers.effectiveTarget := by
  obtain ⟨h1, h2, _⟩ := sdk_toXml m h
  have hne : ∀ s, m.sdkVal (·.target) = some s → s.isEmpty = false := by
    intro s hs
    simp only [AppManifest.sdkVal, Option.map_eq_some_iff, Option.bind_eq_some_iff] at hs
    obtain ⟨v, ⟨u, hu, hv⟩, rfl⟩ := hs
    have := h u (by simp [hu]) v (by simp [UsesSdk.vals, hv])
    simpa using this
  simp only [Analysis.effectiveTarget, h1, h2, AppManifest.answers]
  cases ht : m.sdkVal (·.target) with
  | none =>
    cases hm : m.sdkVal (·.min) with
    | none => simp [optFirst]
    | some s => simp only [optFirst, intOrOne]; cases hp : pyInt s <;> simp [hp]
  | some s =>
    simp only [optFirst, hne s ht, intOrOne]
    cases hp : pyInt s <;> simp [hp]

/-- every listed query, on the XML of a well-formed manifest -/
theorem answers_toXml (m : AppManifest) (h : m.WF) : answersOfAnalysis (analyse (some m.toXml)) = m.answers := by
  obtain ⟨_, hvc, hvn, hsdk, hperm, hact, hnames, _⟩ := h
  obtain ⟨s1, s2, s3⟩ := sdk_toXml m hsdk
  have e := effectiveTarget_toXml m hsdk
  simp only [answersOfAnalysis, package_toXml, versionCode_toXml m hvc, versionName_toXml m hvn,
    permissions_toXml m (fun p hp => (hperm p hp).1), usesPermissions_toXml, activities_toXml m hact,
    services_toXml m (fun n hn => hnames n (by simp [hn])), receivers_toXml m (fun n hn => hnames n (by simp [hn])),
    providers_toXml m (fun n hn => hnames n (by simp [hn])), libraries_toXml m (fun n hn => hnames n (by simp [hn])),
    features_toXml m (fun n hn => hnames n (by simp [hn])), s1, s2, s3, e]
  rfl

end AgVerif.Proof.Manifest
