/- Helper lemmas for C31, full manifest: the elements of `AppManifest.toXml` and what `findall` / `find_tags` find among them. -/
import AgVerif.Spec.ManifestFull
import AgVerif.Proof.Manifest
set_option linter.unusedSimpArgs false
namespace AgVerif.Proof.Manifest
open AgVerif.Axml AgVerif.Manifest AgVerif.Spec.Manifest AgVerif.Gen.AxmlConsts

/-! ### names -/

theorem Tag.str_beq (t u : Tag) : (t.str == u.str) = decide (t = u) := by
  cases t <;> cases u <;> decide

theorem Tag.str_inj (t u : Tag) : t.str = u.str ↔ t = u := by
  have := Tag.str_beq t u
  constructor
  · intro h; rw [h] at this; simpa using this
  · intro h; rw [h]

theorem AName.str_beq (t u : AName) : (t.str == u.str) = decide (t = u) := by
  cases t <;> cases u <;> decide

theorem AName.str_ne_package (t : AName) : (t.str == lit attrPackage) = false := by
  cases t <;> decide

theorem ns_beq_self : (nsAndroid == nsAndroid) = true := by decide
theorem nil_beq_ns : (([] : Str) == nsAndroid) = false := by decide
theorem ns_beq_nil : (nsAndroid == ([] : Str)) = false := by decide

/-! the string constants of the model in the vocabulary of the specification -/
theorem lit_tagManifest : lit tagManifest = Tag.manifest.str := rfl
theorem lit_tagUsesSdk : lit tagUsesSdk = Tag.usesSdk.str := rfl
theorem lit_tagUsesPermission : lit tagUsesPermission = Tag.usesPermission.str := rfl
theorem lit_tagUsesFeature : lit tagUsesFeature = Tag.usesFeature.str := rfl
theorem lit_tagActivity : lit tagActivity = Tag.activity.str := rfl
theorem lit_tagActivityAlias : lit tagActivityAlias = Tag.activityAlias.str := rfl
theorem lit_tagAction : lit tagAction = Tag.action.str := rfl
theorem lit_tagCategory : lit tagCategory = Tag.category.str := rfl
theorem lit_tagService : lit tagService = Tag.service.str := rfl
theorem lit_tagReceiver : lit tagReceiver = Tag.receiver.str := rfl
theorem lit_tagProvider : lit tagProvider = Tag.provider.str := rfl
theorem lit_tagUsesLibrary : lit tagUsesLibrary = Tag.usesLibrary.str := rfl
theorem lit_attrName : lit attrName = AName.name.str := rfl
theorem lit_attrVersionCode : lit attrVersionCode = AName.versionCode.str := rfl
theorem lit_attrVersionName : lit attrVersionName = AName.versionName.str := rfl
theorem lit_attrMinSdk : lit attrMinSdk = AName.minSdk.str := rfl
theorem lit_attrTargetSdk : lit attrTargetSdk = AName.targetSdk.str := rfl
theorem lit_attrMaxSdk : lit attrMaxSdk = AName.maxSdk.str := rfl
theorem lit_attrEnabled : lit attrEnabled = AName.enabled.str := rfl

/-! ### elements -/

def mkEl (t : Tag) (attrs : List Attr) (kids : List Node) : El := ⟨t.str, [], attrs, kids⟩

theorem elOf_el (t : Tag) (a : List Attr) (k : List Node) : elOf (el t a k) = some (mkEl t a k) := rfl

theorem descNode_el (t : Tag) (a : List Attr) (k : List Node) : descNode (el t a k) = mkEl t a k :: descList k := by
  simp [el, descNode, mkEl]

theorem descList_map {α : Type} (f : α → Node) (l : List α) : descList (l.map f) = l.flatMap fun x => descNode (f x) := by
  induction l with
  | nil => simp [descList]
  | cons x r ih => simp [descList, ih]

/-- `d.ns.isEmpty && d.tag == T` on an element of the manifest -/
def isTag (T : Tag) (d : El) : Bool := d.ns.isEmpty && d.tag == T.str

theorem isTag_mkEl (T t : Tag) (a : List Attr) (k : List Node) : isTag T (mkEl t a k) = decide (t = T) := by
  simp [isTag, mkEl, Tag.str_beq]

theorem filter_isTag_map {α : Type} (T t : Tag) (fa : α → List Attr) (fk : α → List Node) (l : List α) :
    (l.map fun x => mkEl t (fa x) (fk x)).filter (isTag T) = if t = T then l.map (fun x => mkEl t (fa x) (fk x)) else [] := by
  induction l with
  | nil => simp
  | cons x r ih =>
    by_cases h : t = T <;> simp [isTag_mkEl, h] at ih ⊢ <;> try exact ih

theorem filter_flatMap {α β : Type} (p : β → Bool) (g : α → List β) (l : List α) :
    (l.flatMap g).filter p = l.flatMap fun x => (g x).filter p := by
  induction l with
  | nil => rfl
  | cons x r ih => simp [List.flatMap_cons, List.filter_append, ih]

theorem flatMap_nil' {α β : Type} (l : List α) : (l.flatMap fun _ => ([] : List β)) = [] := by
  induction l with
  | nil => rfl
  | cons x r ih => simp

theorem flatMap_ite_singleton {α β : Type} (p : α → Bool) (f : α → β) (l : List α) :
    (l.flatMap fun x => if p x then [f x] else []) = (l.filter p).map f := by
  induction l with
  | nil => rfl
  | cons x r ih =>
    by_cases h : p x <;> simp [List.flatMap_cons, h, ih]

/-! ### the elements of a manifest -/

def namedEl (t : Tag) (n : Str) : El := mkEl t [att .name n] []
def filterDesc (f : Filter) : List El :=
  mkEl .intentFilter [] (f.actions.map (named .action) ++ f.categories.map (named .category)) ::
    (f.actions.map (namedEl .action) ++ f.categories.map (namedEl .category))
def activityEl (a : Activity) : El :=
  mkEl a.tag (att .name a.name :: (optAtt .enabled (a.enabled.map Val.render) ++ optAtt .targetActivity a.target)) (a.filters.map Filter.toXml)
def activityDesc (a : Activity) : List El := activityEl a :: a.filters.flatMap filterDesc
def permissionEl (p : UsesPermission) : El := mkEl .usesPermission (att .name p.name :: optAtt .maxSdk (p.maxSdk.map Val.render)) []
def usesSdkEl (s : UsesSdk) : El :=
  mkEl .usesSdk (optAtt .minSdk (s.min.map Val.render) ++ (optAtt .targetSdk (s.target.map Val.render) ++ optAtt .maxSdk (s.max.map Val.render))) []

def appKids (m : AppManifest) : List Node :=
  m.activities.map Activity.toXml ++ (m.services.map (named .service) ++ (m.receivers.map (named .receiver) ++
    (m.providers.map (named .provider) ++ m.libraries.map (named .usesLibrary))))

def rootKids (m : AppManifest) : List Node :=
  m.usesSdk.toList.map UsesSdk.toXml ++ (m.permissions.map UsesPermission.toXml ++ (m.features.map (named .usesFeature) ++
    [el .application [] (appKids m)]))

def rootEl (m : AppManifest) : El :=
  mkEl .manifest (⟨[], lit attrPackage, m.package⟩ :: (optAtt .versionCode (m.versionCode.map Val.render) ++ optAtt .versionName m.versionName))
    (rootKids m)

theorem elOf_toXml (m : AppManifest) : elOf m.toXml = some (rootEl m) := rfl

/-- all elements below the root, document order -/
def allDesc (m : AppManifest) : List El :=
  m.usesSdk.toList.map usesSdkEl ++ (m.permissions.map permissionEl ++ (m.features.map (namedEl .usesFeature) ++
    (mkEl .application [] (appKids m) :: (m.activities.flatMap activityDesc ++ (m.services.map (namedEl .service) ++
      (m.receivers.map (namedEl .receiver) ++ (m.providers.map (namedEl .provider) ++ m.libraries.map (namedEl .usesLibrary))))))))

theorem descNode_named (t : Tag) (n : Str) : descNode (named t n) = [namedEl t n] := by
  simp [named, descNode_el, namedEl, descList]

theorem descList_map_single {α : Type} (f : α → Node) (g : α → El) (h : ∀ x, descNode (f x) = [g x]) (l : List α) :
    descList (l.map f) = l.map g := by
  induction l with
  | nil => simp [descList]
  | cons x r ih => simp [descList, ih, h]

theorem descList_named (t : Tag) (l : List Str) : descList (l.map (named t)) = l.map (namedEl t) :=
  descList_map_single _ _ (descNode_named t) l

theorem descNode_filter (f : Filter) : descNode f.toXml = filterDesc f := by
  simp [Filter.toXml, descNode_el, filterDesc, descList_append, descList_named]

theorem descNode_activity (a : Activity) : descNode a.toXml = activityDesc a := by
  simp only [Activity.toXml, descNode_el, activityDesc, activityEl, descList_map, descNode_filter]

theorem descList_rootKids (m : AppManifest) : descList (rootKids m) = allDesc m := by
  have h1 : descList (m.usesSdk.toList.map UsesSdk.toXml) = m.usesSdk.toList.map usesSdkEl :=
    descList_map_single _ _ (fun s => by simp [UsesSdk.toXml, descNode_el, usesSdkEl, descList]) _
  have h2 : descList (m.permissions.map UsesPermission.toXml) = m.permissions.map permissionEl :=
    descList_map_single _ _ (fun s => by simp [UsesPermission.toXml, descNode_el, permissionEl, descList]) _
  have h3 : descList (m.activities.map Activity.toXml) = m.activities.flatMap activityDesc := by
    rw [descList_map]; simp only [descNode_activity]
  simp only [rootKids, allDesc, descList_append, h1, h2, descList_named, descList, descNode_el, List.append_nil]
  simp only [appKids, descList_append, h3, descList_named]

/-! ### what `findall` finds -/

theorem filter_isTag_const {α : Type} (T t : Tag) (g : α → El) (h : ∀ x, isTag T (g x) = decide (t = T)) (l : List α) :
    (l.map g).filter (isTag T) = if t = T then l.map g else [] := by
  induction l with
  | nil => simp
  | cons x r ih =>
    by_cases ht : t = T <;> simp [h, ht] at ih ⊢ <;> try exact ih

theorem filter_named (T t : Tag) (l : List Str) : (l.map (namedEl t)).filter (isTag T) = if t = T then l.map (namedEl t) else [] :=
  filter_isTag_const T t _ (fun _ => isTag_mkEl ..) l
theorem filter_permissions (T : Tag) (l : List UsesPermission) :
    (l.map permissionEl).filter (isTag T) = if Tag.usesPermission = T then l.map permissionEl else [] :=
  filter_isTag_const T _ _ (fun _ => isTag_mkEl ..) l
theorem filter_usesSdk (T : Tag) (l : List UsesSdk) :
    (l.map usesSdkEl).filter (isTag T) = if Tag.usesSdk = T then l.map usesSdkEl else [] :=
  filter_isTag_const T _ _ (fun _ => isTag_mkEl ..) l

theorem filter_filterDesc (T : Tag) (f : Filter) :
    (filterDesc f).filter (isTag T) =
      (if Tag.intentFilter = T then [mkEl .intentFilter [] (f.actions.map (named .action) ++ f.categories.map (named .category))] else []) ++
      ((if Tag.action = T then f.actions.map (namedEl .action) else []) ++ (if Tag.category = T then f.categories.map (namedEl .category) else [])) := by
  simp only [filterDesc, List.filter_cons, List.filter_append, filter_named, isTag_mkEl]
  by_cases h : Tag.intentFilter = T <;> simp [h]

/-- a tag that is not one of the three below a component -/
def topTag (T : Tag) : Prop := T ≠ .intentFilter ∧ T ≠ .action ∧ T ≠ .category
instance (T : Tag) : Decidable (topTag T) := by unfold topTag; infer_instance

theorem filter_activityDesc (T : Tag) (hT : topTag T) (a : Activity) :
    (activityDesc a).filter (isTag T) = if a.tag = T then [activityEl a] else [] := by
  obtain ⟨h1, h2, h3⟩ := hT
  have hf : ∀ f : Filter, (filterDesc f).filter (isTag T) = [] := by
    intro f
    rw [filter_filterDesc]
    simp [Ne.symm h1, Ne.symm h2, Ne.symm h3]
  simp only [activityDesc, List.filter_cons, filter_flatMap, hf, flatMap_nil', activityEl, isTag_mkEl]
  by_cases h : a.tag = T <;> simp [h]

theorem filter_activities (T : Tag) (hT : topTag T) (l : List Activity) :
    (l.flatMap activityDesc).filter (isTag T) = (l.filter fun a => decide (a.tag = T)).map activityEl := by
  rw [filter_flatMap]
  simp only [filter_activityDesc T hT]
  rw [← flatMap_ite_singleton]
  simp

/-- the elements with a given (top-level) tag, document order -/
theorem filter_allDesc (m : AppManifest) (T : Tag) (hT : topTag T) :
    (allDesc m).filter (isTag T) =
      (if Tag.usesSdk = T then m.usesSdk.toList.map usesSdkEl else []) ++ ((if Tag.usesPermission = T then m.permissions.map permissionEl else []) ++
      ((if Tag.usesFeature = T then m.features.map (namedEl .usesFeature) else []) ++ ((if Tag.application = T then [mkEl .application [] (appKids m)] else []) ++
      ((m.activities.filter fun a => decide (a.tag = T)).map activityEl ++ ((if Tag.service = T then m.services.map (namedEl .service) else []) ++
      ((if Tag.receiver = T then m.receivers.map (namedEl .receiver) else []) ++ ((if Tag.provider = T then m.providers.map (namedEl .provider) else []) ++
      (if Tag.usesLibrary = T then m.libraries.map (namedEl .usesLibrary) else [])))))))) := by
  simp only [allDesc, List.filter_append, List.filter_cons, filter_named, filter_permissions, filter_usesSdk, filter_activities T hT,
    isTag_mkEl]
  by_cases h : Tag.application = T <;> simp [h]

theorem allDesc_plain (m : AppManifest) : ∀ e ∈ allDesc m, e.ns = [] := by
  intro e he
  simp only [allDesc, activityDesc, filterDesc, List.mem_append, List.mem_map, List.mem_cons, List.mem_flatMap] at he
  rcases he with ⟨_, _, rfl⟩ | ⟨_, _, rfl⟩ | ⟨_, _, rfl⟩ | rfl | ⟨a, _, rfl | ⟨f, _, rfl | ⟨_, _, rfl⟩ | ⟨_, _, rfl⟩⟩⟩ | ⟨_, _, rfl⟩ | ⟨_, _, rfl⟩ |
    ⟨_, _, rfl⟩ | ⟨_, _, rfl⟩ <;> rfl

theorem findall_root (m : AppManifest) (T : Tag) : findall (rootEl m) T.str = (allDesc m).filter (isTag T) := by
  simp only [findall, rootEl, mkEl, descList_rootKids]; rfl

theorem findallNs_root (m : AppManifest) (name : Str) : findallNs (rootEl m) nsAndroid name = [] := by
  simp only [findallNs, rootEl, mkEl, descList_rootKids, List.filter_eq_nil_iff]
  intro e he
  rw [allDesc_plain m e he, nil_beq_ns]; simp

theorem findTags_root (m : AppManifest) (T : Tag) (h : T ≠ .manifest) :
    findTags (some (rootEl m)) T.str = (allDesc m).filter (isTag T) := by
  have h' : (Tag.manifest.str == T.str) = false := by rw [Tag.str_beq]; simpa using Ne.symm h
  simp only [findTags, findallNs_root, List.append_nil, findall_root]
  simp [rootEl, mkEl, h']

theorem findTags_manifest (m : AppManifest) : findTags (some (rootEl m)) Tag.manifest.str = [rootEl m] := by
  simp [findTags, rootEl, mkEl]

end AgVerif.Proof.Manifest
