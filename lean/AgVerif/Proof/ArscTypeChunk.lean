/-
C28 deepening, step 4c: a whole type chunk at a cursor (`readTypeChunk_at`), the invariant of the
package's running `mResId`, and the ids as `package << 24 | type << 16 | index`.  Core Lean only.
-/
import AgVerif.Proof.ArscSlots
namespace AgVerif.Arsc
open AgVerif.Gen.ArscConsts AgVerif.Spec.Arsc
attribute [local irreducible] enc16 enc32

/-- the running `mResId` of a package: 32 bits, package id in the top byte -/
def IdInv (pkgId cur : Nat) : Prop := cur < 4294967296 ∧ cur / 16777216 = pkgId

theorem inv_type {pkgId cur ty : Nat} (h : IdInv pkgId cur) (hty : ty < 256) : IdInv pkgId (typeResId cur ty) := by
  unfold IdInv at *
  rw [typeResId_eq cur ty (by simpa using h.1) hty]
  simp only [Nat.reducePow]
  omega

theorem inv_entry {pkgId cur i : Nat} (h : IdInv pkgId cur) (hi : i < 65536) : IdInv pkgId (entryResId cur i) := by
  unfold IdInv at *
  rw [entryResId_eq cur i (by simpa using h.1) hi]
  simp only [Nat.reducePow]
  omega

theorem inv_last {pkgId cur : Nat} (l : ArrLayout) (slots : List (Option Entry)) (h : IdInv pkgId cur)
    (hn : slots.length < 65536) :
    IdInv pkgId (lastId (arrFlags l) (arrCount l (slotOffsets 0 slots)) cur
      ((present (slotOffsets 0 slots) 0).map fun oi => (oi.1, entryResId cur oi.2))) := by
  have hlen := slotOffsets_length 0 slots
  unfold lastId
  cases l with
  | plain =>
    rw [if_neg (by decide), show arrCount ArrLayout.plain (slotOffsets 0 slots) = (slotOffsets 0 slots).length from rfl]
    by_cases hz : (slotOffsets 0 slots).length = 0
    · rw [if_pos hz]; exact h
    · rw [if_neg hz]; exact inv_entry h (by omega)
  | offset16 =>
    rw [if_neg (by decide), show arrCount ArrLayout.offset16 (slotOffsets 0 slots) = (slotOffsets 0 slots).length from rfl]
    by_cases hz : (slotOffsets 0 slots).length = 0
    · rw [if_pos hz]; exact h
    · rw [if_neg hz]; exact inv_entry h (by omega)
  | sparse =>
    rw [if_pos (by decide)]
    split
    · rename_i x hx
      have hm := List.mem_of_getLast? hx
      simp only [List.mem_map] at hm
      obtain ⟨q, hq, rfl⟩ := hm
      have := present_bounds _ 0 q hq
      exact inv_entry h (by omega)
    · exact h

theorem encTypeChunk_length (l : ArrLayout) (tc : Spec.Arsc.TypeChunk) :
    (encTypeChunk l tc).length = 84 + (encArr l (slotOffsets 0 tc.slots)).length + (bodies tc.slots).length := by
  simp only [encTypeChunk, chunk_length, List.length_append, enc32_length, encConfig_length, List.length_cons,
    List.length_nil]
  omega

theorem wfChunk_iff (l : ArrLayout) (tc : Spec.Arsc.TypeChunk) : wfChunk l tc = true ↔
    tc.typeId < 256 ∧ wfConfig tc.config = true ∧ tc.slots.length < 65536 ∧ wfSlots tc.slots = true ∧
      wfArr l tc.slots = true := by
  simp [wfChunk, and_assoc]

theorem arrFlags_lt (l : ArrLayout) : arrFlags l < 256 := by cases l <;> decide

/-- (4) a whole type chunk at a cursor: header, configuration, entry-offset array (any of the three
    layouts), entries -/
theorem readTypeChunk_at {bs r : List Nat} {p cur pkgId : Nat} (l : ArrLayout) (tc : Spec.Arsc.TypeChunk)
    (h : bs.drop p = encTypeChunk l tc ++ r) (hwf : wfChunk l tc = true)
    (hlen : (encTypeChunk l tc).length < 4294967296) (hcur : IdInv pkgId cur) :
    readHdr bs.toArray p none = some ⟨p, p, 513, 84, (encTypeChunk l tc).length⟩ ∧
    ∃ cur', readTypeChunk bs.toArray ⟨p, p, 513, 84, (encTypeChunk l tc).length⟩ cur
        = some (⟨tc.typeId, tc.config.words, atesFrom (typeResId cur tc.typeId) 0 tc.slots⟩, cur') ∧
      IdInv pkgId cur' := by
  obtain ⟨hty, hcfg, hn, hslots, harrwf⟩ := (wfChunk_iff l tc).mp hwf
  have hL := encTypeChunk_length l tc
  have h0 : bs.drop p = chunk 513 ([tc.typeId, arrFlags l, 0, 0] ++ enc32 (arrCount l (slotOffsets 0 tc.slots))
      ++ enc32 (84 + (encArr l (slotOffsets 0 tc.slots)).length) ++ encConfig tc.config)
      (encArr l (slotOffsets 0 tc.slots) ++ bodies tc.slots) ++ r := by simpa only [encTypeChunk] using h
  generalize hoffs : slotOffsets 0 tc.slots = offs at *
  generalize harr : encArr l offs = arr at *
  have hal := encArr_length l offs
  rw [harr] at hal
  generalize hwd : arrCount l offs * arrWidth l = wd at hal
  have hhdr : readHdr bs.toArray p none = some ⟨p, p, 513, 84, (encTypeChunk l tc).length⟩ := by
    have := readHdr_at none h0 (Or.inr (by omega))
      (by simp only [List.length_append, enc32_length, encConfig_length, List.length_cons, List.length_nil]; omega)
      (by simp only [List.length_append, enc32_length, encConfig_length, List.length_cons, List.length_nil]; omega)
      (by intro x hx; cases hx)
    rw [this, hL]
    simp only [List.length_append, enc32_length, encConfig_length, List.length_cons, List.length_nil]
    congr 2; omega
  refine ⟨hhdr, ?_⟩
  have a8 : bs.drop (p + 8) = tc.typeId :: arrFlags l :: 0 :: 0 :: (enc32 (arrCount l offs) ++
      (enc32 (84 + arr.length) ++ (encConfig tc.config ++ (arr ++ (bodies tc.slots ++ r))))) := by
    have := chunk_body_at h0
    rw [this]
    simp only [List.append_assoc, List.cons_append, List.nil_append]
  have a9 : bs.drop (p + 8 + 1) = arrFlags l :: 0 :: 0 :: (enc32 (arrCount l offs) ++
      (enc32 (84 + arr.length) ++ (encConfig tc.config ++ (arr ++ (bodies tc.slots ++ r))))) :=
    drop_at' (x := [tc.typeId]) 1 a8 rfl
  have a10 : bs.drop (p + 8 + 2) = 0 :: 0 :: (enc32 (arrCount l offs) ++
      (enc32 (84 + arr.length) ++ (encConfig tc.config ++ (arr ++ (bodies tc.slots ++ r))))) :=
    drop_at' (x := [tc.typeId, arrFlags l]) 2 a8 rfl
  have a12 : bs.drop (p + 8 + 4) = enc32 (arrCount l offs) ++
      (enc32 (84 + arr.length) ++ (encConfig tc.config ++ (arr ++ (bodies tc.slots ++ r)))) :=
    drop_at' (x := [tc.typeId, arrFlags l, 0, 0]) 4 a8 rfl
  have a16 : bs.drop (p + 8 + 8) = enc32 (84 + arr.length) ++ (encConfig tc.config ++ (arr ++ (bodies tc.slots ++ r))) := by
    have := drop_at' 4 a12 (enc32_length _); rwa [Nat.add_assoc] at this
  have a20 : bs.drop (p + 8 + 12) = encConfig tc.config ++ (arr ++ (bodies tc.slots ++ r)) := by
    have := drop_at' 4 a16 (enc32_length _); rwa [Nat.add_assoc] at this
  have a84 : bs.drop (p + 8 + 12 + 64) = arr ++ (bodies tc.slots ++ r) := drop_at' 64 a20 (encConfig_length _)
  have ab : bs.drop (p + (84 + arr.length) + 0) = bodies tc.slots ++ r := by
    have := drop_at a84
    rw [← this]; congr 1; omega
  have hcount : arrCount l offs < 4294967296 := by
    have : arrCount l offs ≤ offs.length := by
      cases l <;> simp only [arrCount] <;> try omega
      -- sparse: present slots ≤ slots
      have : ∀ (o : List (Option Nat)) (i : Nat), (present o i).length ≤ o.length := by
        intro o
        induction o with
        | nil => intro i; simp [present]
        | cons s t ih => intro i; cases s <;> simp only [present, List.length_cons] <;> have := ih (i + 1) <;> omega
      exact this offs 0
    have := slotOffsets_length 0 tc.slots
    rw [hoffs] at this
    omega
  have hsz : p + 84 + arr.length + (bodies tc.slots).length + r.length = bs.length := by
    have h2 := congrArg List.length a20
    simp only [List.length_drop, List.length_append, encConfig_length] at h2
    omega
  have r3 : rd16 bs.toArray (p + 8 + 2) = some (0 + 0 * 256) := by
    rw [rd16_eq, toArray_toList_drop, a10]; rfl
  have hw : ¬ arrCount l offs * (if arrFlags l &&& flagSparse ≠ 0 then 4 else if arrFlags l &&& flagOffset16 ≠ 0 then 2 else 4)
      > (bs.toArray : Buf).size := by
    rw [arrWidth_eq, hwd]; simp only [List.size_toArray]; omega
  have hea : entryArray (arrFlags l) (arrCount l offs) (slice bs.toArray (p + 8 + 12 + 64) (arrCount l offs *
      (if arrFlags l &&& flagSparse ≠ 0 then 4 else if arrFlags l &&& flagOffset16 ≠ 0 then 2 else 4)))
      = some (present offs 0, []) := by
    rw [arrWidth_eq, slice_eq, a84, ← harr, ← hoffs]
    exact entryArray_at l tc.slots _ hn harrwf
  have hcur' := inv_type hcur hty
  have hat := readAtes_slots (bs := bs) (r := r) (base := p + (84 + arr.length)) (eoc := p + (encTypeChunk l tc).length)
    (cur := typeResId cur tc.typeId) tc.slots 0 0 ab hslots (by omega)
  rw [hoffs] at hat
  have := readTypeChunk_of (b := bs.toArray) (h := ⟨p, p, 513, 84, (encTypeChunk l tc).length⟩) (cur := cur)
    (rd8_at a8) (rd8_at a9) r3 (rd32_at a12 hcount) (rd32_at a16 (by omega))
    (readConfig_at tc.config a20 hcfg) hw hea hat
  refine ⟨_, this, ?_⟩
  rw [← hoffs]
  exact inv_last l tc.slots hcur' hn


/-- the entries of a chunk with the resource ids of the specification -/
def atesOf (pkgId typeId : Nat) : Nat → List (Option Entry) → List Ate
  | _, [] => []
  | i, none :: r => atesOf pkgId typeId (i + 1) r
  | i, some e :: r => ⟨resId pkgId typeId i, rawOf e⟩ :: atesOf pkgId typeId (i + 1) r

theorem entry_id_eq {pkgId cur ty i : Nat} (h : IdInv pkgId cur) (hty : ty < 256) (hi : i < 65536) :
    entryResId (typeResId cur ty) i = resId pkgId ty i := by
  have h1 := typeResId_eq cur ty (by simpa using h.1) hty
  have h2 := inv_type h hty
  rw [entryResId_eq _ i (by simpa using h2.1) hi, h1]
  unfold IdInv at h
  unfold resId
  simp only [Nat.reducePow]
  omega

theorem atesFrom_eq {pkgId cur ty : Nat} (h : IdInv pkgId cur) (hty : ty < 256) (slots : List (Option Entry))
    (i : Nat) (hi : i + slots.length ≤ 65536) :
    atesFrom (typeResId cur ty) i slots = atesOf pkgId ty i slots := by
  induction slots generalizing i with
  | nil => rfl
  | cons s r ih =>
    simp only [List.length_cons] at hi
    cases s with
    | none => simp only [atesFrom, atesOf]; exact ih (i + 1) (by omega)
    | some e =>
      simp only [atesFrom, atesOf]
      rw [ih (i + 1) (by omega), entry_id_eq h hty (by omega)]

end AgVerif.Arsc
