/-
Lemmas for C36: invariants of the session-identifier protocols (model AgVerif.Session).
-/
import AgVerif.Model.Session
import AgVerif.Spec.Session
import Mathlib.Data.List.Induction
import Mathlib.Data.List.Nodup
namespace AgVerif.Session
open AgVerif.Spec.Session

@[simp] theorem upd_same {α : Type} (f : Nat → α) (i : Nat) (v : α) : upd f i v i = v := by
  simp [upd]

theorem upd_other {α : Type} (f : Nat → α) {i j : Nat} (h : j ≠ i) (v : α) : upd f i v j = f j := by
  simp [upd, h]

theorem run_snoc (step : St → Nat → St) (σ : List Nat) (x : Nat) (s : St) :
    run step (σ ++ [x]) s = step (run step σ s) x := by
  simp [run, List.foldl_append]

theorem count_snoc (σ : List Nat) (x i : Nat) :
    (σ ++ [x]).count i = σ.count i + (if x = i then 1 else 0) := by
  rw [List.count_append, List.count_singleton]
  by_cases h : x = i <;> simp [h]

theorem range_contains (n k : Nat) : (List.range n).contains k = true ↔ k < n := by
  simp

/-- what one step of the retry protocol does, case by case -/
theorem stepRetry_idle (s : St) (x : Nat) (h : s.pc x = .idle) :
    stepRetry s x = { s with pc := upd s.pc x (.counted s.ids.length) } := by
  simp [stepRetry, h]

theorem stepRetry_reject (s : St) (x k : Nat) (h : s.pc x = .counted k) (hk : s.ids.contains k = true) :
    stepRetry s x = { s with pc := upd s.pc x .idle, retries := upd s.retries x (s.retries x + 1) } := by
  simp only [stepRetry, h, hk, if_true]

theorem stepRetry_accept (s : St) (x k : Nat) (h : s.pc x = .counted k) (hk : s.ids.contains k = false) :
    stepRetry s x = { s with ids := s.ids ++ [k], pc := upd s.pc x (.done k), log := s.log ++ [x] } := by
  simp only [stepRetry, h, hk, Bool.false_eq_true, if_false]

theorem stepRetry_done (s : St) (x k : Nat) (h : s.pc x = .done k) : stepRetry s x = s := by
  simp [stepRetry, h]

theorem stepRetry_failed (s : St) (x k : Nat) (h : s.pc x = .failed k) : stepRetry s x = s := by
  simp [stepRetry, h]

/-- invariant of the retry protocol after the schedule prefix σ -/
structure RetryInv (N b : Nat) (σ : List Nat) (s : St) : Prop where
  ids_range : s.ids = List.range s.ids.length
  len_eq : s.ids.length = b + s.log.length
  log_nodup : s.log.Nodup
  log_done : ∀ i, i ∈ s.log → i < N ∧ ∃ k, s.pc i = .done k
  done_in_log : ∀ i k, s.pc i = .done k → i ∈ s.log
  counted_bound : ∀ i k, s.pc i = .counted k → b ≤ k ∧ k ≤ s.ids.length ∧ s.retries i ≤ k - b
  idle_bound : ∀ i, s.pc i = .idle → s.retries i ≤ s.log.length
  done_lt : ∀ i k, s.pc i = .done k → b ≤ k ∧ k < s.ids.length
  done_inj : ∀ i j k, s.pc i = .done k → s.pc j = .done k → i = j
  no_failed : ∀ i k, s.pc i ≠ .failed k
  steps_idle : ∀ i, s.pc i = .idle → σ.count i = 2 * s.retries i
  steps_counted : ∀ i k, s.pc i = .counted k → σ.count i = 2 * s.retries i + 1

theorem retryInv_init (N b : Nat) : RetryInv N b [] (St.init b) where
  ids_range := by simp [St.init]
  len_eq := by simp [St.init]
  log_nodup := by simp [St.init]
  log_done := by simp [St.init]
  done_in_log := by simp [St.init]
  counted_bound := by simp [St.init]
  idle_bound := by simp [St.init]
  done_lt := by simp [St.init]
  done_inj := by simp [St.init]
  no_failed := by simp [St.init]
  steps_idle := by simp [St.init]
  steps_counted := by simp [St.init]

theorem retryInv_step (N b : Nat) (σ : List Nat) (s : St) (x : Nat) (hx : x < N)
    (inv : RetryInv N b σ s) : RetryInv N b (σ ++ [x]) (stepRetry s x) := by
  cases hpc : s.pc x with
  | idle =>
    rw [stepRetry_idle s x hpc]
    have hxlog : x ∉ s.log := fun h => by
      obtain ⟨_, k, hk⟩ := inv.log_done x h; rw [hpc] at hk; cases hk
    refine
      { ids_range := inv.ids_range, len_eq := inv.len_eq, log_nodup := inv.log_nodup,
        log_done := ?_, done_in_log := ?_, counted_bound := ?_, idle_bound := ?_, done_lt := ?_,
        done_inj := ?_, no_failed := ?_, steps_idle := ?_, steps_counted := ?_ }
    · intro i hi
      have hne : i ≠ x := fun e => hxlog (e ▸ hi)
      simpa [upd_other _ hne] using inv.log_done i hi
    · intro i k h
      by_cases hi : i = x
      · subst hi; simp at h
      · exact inv.done_in_log i k (by simpa [upd_other _ hi] using h)
    · intro i k h
      by_cases hi : i = x
      · subst hi
        simp only [upd_same, PC.counted.injEq] at h
        subst h
        have := inv.idle_bound i hpc
        have := inv.len_eq
        dsimp only
        omega
      · exact inv.counted_bound i k (by simpa [upd_other _ hi] using h)
    · intro i h
      by_cases hi : i = x
      · subst hi; simp at h
      · exact inv.idle_bound i (by simpa [upd_other _ hi] using h)
    · intro i k h
      by_cases hi : i = x
      · subst hi; simp at h
      · exact inv.done_lt i k (by simpa [upd_other _ hi] using h)
    · intro i j k h1 h2
      by_cases hi : i = x
      · subst hi; simp at h1
      · by_cases hj : j = x
        · subst hj; simp at h2
        · exact inv.done_inj i j k (by simpa [upd_other _ hi] using h1) (by simpa [upd_other _ hj] using h2)
    · intro i k h
      by_cases hi : i = x
      · subst hi; simp at h
      · exact inv.no_failed i k (by simpa [upd_other _ hi] using h)
    · intro i h
      by_cases hi : i = x
      · subst hi; simp at h
      · have h' : s.pc i = .idle := by simpa [upd_other _ hi] using h
        rw [count_snoc, if_neg (fun e => hi e.symm)]
        simpa using inv.steps_idle i h'
    · intro i k h
      by_cases hi : i = x
      · subst hi
        rw [count_snoc, if_pos rfl, inv.steps_idle i hpc]
      · have h' : s.pc i = .counted k := by simpa [upd_other _ hi] using h
        rw [count_snoc, if_neg (fun e => hi e.symm)]
        simpa using inv.steps_counted i k h'
  | counted k =>
    have hb := inv.counted_bound x k hpc
    have hxlog : x ∉ s.log := fun h => by
      obtain ⟨_, k', hk⟩ := inv.log_done x h; rw [hpc] at hk; cases hk
    cases hk : s.ids.contains k with
    | true =>
      rw [stepRetry_reject s x k hpc hk]
      have hklt : k < s.ids.length := by
        rw [inv.ids_range] at hk; simpa using hk
      refine
        { ids_range := inv.ids_range, len_eq := inv.len_eq, log_nodup := inv.log_nodup,
          log_done := ?_, done_in_log := ?_, counted_bound := ?_, idle_bound := ?_, done_lt := ?_,
          done_inj := ?_, no_failed := ?_, steps_idle := ?_, steps_counted := ?_ }
      · intro i hi
        have hne : i ≠ x := fun e => hxlog (e ▸ hi)
        simpa [upd_other _ hne] using inv.log_done i hi
      · intro i k' h
        by_cases hi : i = x
        · subst hi; simp at h
        · exact inv.done_in_log i k' (by simpa [upd_other _ hi] using h)
      · intro i k' h
        by_cases hi : i = x
        · subst hi; simp at h
        · have h' : s.pc i = .counted k' := by simpa [upd_other _ hi] using h
          simpa [upd_other _ hi] using inv.counted_bound i k' h'
      · intro i h
        by_cases hi : i = x
        · subst hi
          have := inv.len_eq
          simp only [upd_same]
          omega
        · have h' : s.pc i = .idle := by simpa [upd_other _ hi] using h
          simpa [upd_other _ hi] using inv.idle_bound i h'
      · intro i k' h
        by_cases hi : i = x
        · subst hi; simp at h
        · exact inv.done_lt i k' (by simpa [upd_other _ hi] using h)
      · intro i j k' h1 h2
        by_cases hi : i = x
        · subst hi; simp at h1
        · by_cases hj : j = x
          · subst hj; simp at h2
          · exact inv.done_inj i j k' (by simpa [upd_other _ hi] using h1) (by simpa [upd_other _ hj] using h2)
      · intro i k' h
        by_cases hi : i = x
        · subst hi; simp at h
        · exact inv.no_failed i k' (by simpa [upd_other _ hi] using h)
      · intro i h
        by_cases hi : i = x
        · subst hi
          rw [count_snoc, if_pos rfl, inv.steps_counted i k hpc]
          simp only [upd_same]; omega
        · have h' : s.pc i = .idle := by simpa [upd_other _ hi] using h
          rw [count_snoc, if_neg (fun e => hi e.symm)]
          simpa [upd_other _ hi] using inv.steps_idle i h'
      · intro i k' h
        by_cases hi : i = x
        · subst hi; simp at h
        · have h' : s.pc i = .counted k' := by simpa [upd_other _ hi] using h
          rw [count_snoc, if_neg (fun e => hi e.symm)]
          simpa [upd_other _ hi] using inv.steps_counted i k' h'
    | false =>
      rw [stepRetry_accept s x k hpc hk]
      have hkeq : k = s.ids.length := by
        have : ¬ k < s.ids.length := by
          intro hlt
          have : s.ids.contains k = true := by rw [inv.ids_range]; simpa using hlt
          rw [hk] at this; cases this
        omega
      subst hkeq
      refine
        { ids_range := ?_, len_eq := ?_, log_nodup := ?_,
          log_done := ?_, done_in_log := ?_, counted_bound := ?_, idle_bound := ?_, done_lt := ?_,
          done_inj := ?_, no_failed := ?_, steps_idle := ?_, steps_counted := ?_ }
      · show s.ids ++ [s.ids.length] = List.range (s.ids ++ [s.ids.length]).length
        rw [List.length_append, List.length_singleton, List.range_succ, ← inv.ids_range]
      · show (s.ids ++ [s.ids.length]).length = b + (s.log ++ [x]).length
        have := inv.len_eq
        simp only [List.length_append, List.length_singleton]; omega
      · show (s.log ++ [x]).Nodup
        rw [List.nodup_append]
        refine ⟨inv.log_nodup, List.nodup_singleton x, ?_⟩
        intro a ha c hc
        simp only [List.mem_singleton] at hc
        subst hc
        exact fun e => hxlog (e ▸ ha)
      · intro i hi
        show i < N ∧ ∃ k, upd s.pc x (.done s.ids.length) i = .done k
        rcases List.mem_append.1 hi with h | h
        · have hne : i ≠ x := fun e => hxlog (e ▸ h)
          simpa [upd_other _ hne] using inv.log_done i h
        · simp only [List.mem_singleton] at h; subst h; exact ⟨hx, _, upd_same _ _ _⟩
      · intro i k' h
        show i ∈ s.log ++ [x]
        by_cases hi : i = x
        · subst hi; simp
        · have h' : s.pc i = .done k' := by simpa [upd_other _ hi] using h
          exact List.mem_append_left _ (inv.done_in_log i k' h')
      · intro i k' h
        by_cases hi : i = x
        · subst hi; simp at h
        · have h' : s.pc i = .counted k' := by simpa [upd_other _ hi] using h
          have := inv.counted_bound i k' h'
          show b ≤ k' ∧ k' ≤ (s.ids ++ [s.ids.length]).length ∧ s.retries i ≤ k' - b
          simp only [List.length_append, List.length_singleton]; omega
      · intro i h
        by_cases hi : i = x
        · subst hi; simp at h
        · have h' : s.pc i = .idle := by simpa [upd_other _ hi] using h
          have := inv.idle_bound i h'
          show s.retries i ≤ (s.log ++ [x]).length
          simp only [List.length_append, List.length_singleton]; omega
      · intro i k' h
        show b ≤ k' ∧ k' < (s.ids ++ [s.ids.length]).length
        simp only [List.length_append, List.length_singleton]
        by_cases hi : i = x
        · subst hi
          have : k' = s.ids.length := by simpa using h.symm
          omega
        · have h' : s.pc i = .done k' := by simpa [upd_other _ hi] using h
          have := inv.done_lt i k' h'; omega
      · intro i j k' h1 h2
        by_cases hi : i = x
        · by_cases hj : j = x
          · rw [hi, hj]
          · subst hi
            have e1 : k' = s.ids.length := by simpa using h1.symm
            have h2' : s.pc j = .done k' := by simpa [upd_other _ hj] using h2
            have := inv.done_lt j k' h2'; omega
        · have h1' : s.pc i = .done k' := by simpa [upd_other _ hi] using h1
          by_cases hj : j = x
          · subst hj
            have e2 : k' = s.ids.length := by simpa using h2.symm
            have := inv.done_lt i k' h1'; omega
          · have h2' : s.pc j = .done k' := by simpa [upd_other _ hj] using h2
            exact inv.done_inj i j k' h1' h2'
      · intro i k' h
        by_cases hi : i = x
        · subst hi; simp at h
        · have : s.pc i = .failed k' := by simpa [upd_other _ hi] using h
          exact inv.no_failed i k' this
      · intro i h
        by_cases hi : i = x
        · subst hi; simp at h
        · have h' : s.pc i = .idle := by simpa [upd_other _ hi] using h
          rw [count_snoc, if_neg (fun e => hi e.symm)]
          simpa using inv.steps_idle i h'
      · intro i k' h
        by_cases hi : i = x
        · subst hi; simp at h
        · have h' : s.pc i = .counted k' := by simpa [upd_other _ hi] using h
          rw [count_snoc, if_neg (fun e => hi e.symm)]
          simpa using inv.steps_counted i k' h'
  | done k =>
    rw [stepRetry_done s x k hpc]
    refine { inv with steps_idle := ?_, steps_counted := ?_ }
    · intro i h
      have hi : i ≠ x := fun e => by subst e; rw [hpc] at h; cases h
      rw [count_snoc, if_neg (fun e => hi e.symm)]
      simpa using inv.steps_idle i h
    · intro i k' h
      have hi : i ≠ x := fun e => by subst e; rw [hpc] at h; cases h
      rw [count_snoc, if_neg (fun e => hi e.symm)]
      simpa using inv.steps_counted i k' h
  | failed k => exact absurd hpc (inv.no_failed x k)

theorem retryInv_run (N b : Nat) (σ : List Nat) (hσ : ∀ i, i ∈ σ → i < N) :
    RetryInv N b σ (run stepRetry σ (St.init b)) := by
  induction σ using List.reverseRecOn with
  | nil => exact retryInv_init N b
  | append_singleton σ x ih =>
    rw [run_snoc]
    exact retryInv_step N b σ _ x (hσ x (by simp)) (ih (fun i hi => hσ i (by simp [hi])))

/-- pigeonhole: a duplicate-free list of numbers below N has at most N elements -/
theorem nodup_lt_length_le (l : List Nat) (N : Nat) (hn : l.Nodup) (hl : ∀ i, i ∈ l → i < N) :
    l.length ≤ N := by
  have : l ⊆ List.range N := fun i hi => List.mem_range.2 (hl i hi)
  simpa using List.Nodup.length_le_of_subset hn this

/-! ### the unfixed protocol -/

theorem stepOld_idle (s : St) (x : Nat) (h : s.pc x = .idle) :
    stepOld s x = { s with pc := upd s.pc x (.counted s.ids.length) } := by
  simp [stepOld, h]

theorem stepOld_reject (s : St) (x k : Nat) (h : s.pc x = .counted k) (hk : s.ids.contains k = true) :
    stepOld s x = { s with pc := upd s.pc x (.failed k) } := by
  simp only [stepOld, h, hk, if_true]

theorem stepOld_accept (s : St) (x k : Nat) (h : s.pc x = .counted k) (hk : s.ids.contains k = false) :
    stepOld s x = { s with ids := s.ids ++ [k], pc := upd s.pc x (.done k), log := s.log ++ [x] } := by
  simp only [stepOld, h, hk, Bool.false_eq_true, if_false]

theorem stepOld_done (s : St) (x k : Nat) (h : s.pc x = .done k) : stepOld s x = s := by
  simp [stepOld, h]

theorem stepOld_failed (s : St) (x k : Nat) (h : s.pc x = .failed k) : stepOld s x = s := by
  simp [stepOld, h]

/-- a failure is already certain: someone failed, or someone holds a stale count, or two sessions
    hold a count at the same time -/
def Doomed (s : St) : Prop :=
  (∃ i k, s.pc i = .failed k) ∨ (∃ i k, s.pc i = .counted k ∧ k < s.ids.length) ∨
  (∃ i j ki kj, i ≠ j ∧ s.pc i = .counted ki ∧ s.pc j = .counted kj)

theorem overlap_snoc (σ : List Nat) (x : Nat) :
    Overlap (σ ++ [x]) ↔ Overlap σ ∨ (σ.count x = 0 ∧ ∃ i, i ≠ x ∧ σ.count i = 1) := by
  constructor
  · rintro ⟨σ₁, σ₂, i, j, he, hij, hci, hcj⟩
    rcases List.eq_nil_or_concat σ₂ with rfl | ⟨σ₂', y, rfl⟩
    · have := List.append_inj' he (by simp)
      obtain ⟨h1, h2⟩ := this
      simp only [List.cons.injEq, and_true] at h2
      subst h1; subst h2
      exact Or.inr ⟨hcj, i, hij, hci⟩
    · have he' : σ ++ [x] = (σ₁ ++ j :: σ₂') ++ [y] := by simpa using he
      have := (List.append_inj' he' (by simp)).1
      exact Or.inl ⟨σ₁, σ₂', i, j, this, hij, hci, hcj⟩
  · rintro (⟨σ₁, σ₂, i, j, he, hij, hci, hcj⟩ | ⟨hcx, i, hix, hci⟩)
    · exact ⟨σ₁, σ₂ ++ [x], i, j, by simp [he], hij, hci, hcj⟩
    · exact ⟨σ, [], i, x, rfl, hix, hci, hcx⟩

/-- invariant of the unfixed protocol after the schedule prefix σ -/
structure OldInv (b : Nat) (σ : List Nat) (s : St) : Prop where
  ids_range : s.ids = List.range s.ids.length
  counted_le : ∀ i k, s.pc i = .counted k → k ≤ s.ids.length
  done_lt : ∀ i k, s.pc i = .done k → k < s.ids.length
  done_inj : ∀ i j k, s.pc i = .done k → s.pc j = .done k → i = j
  t_idle : ∀ i, s.pc i = .idle → σ.count i = 0
  t_counted : ∀ i k, s.pc i = .counted k → σ.count i = 1
  t_done : ∀ i k, s.pc i = .done k → 2 ≤ σ.count i
  t_failed : ∀ i k, s.pc i = .failed k → 2 ≤ σ.count i
  noov : ¬ Overlap σ → (∀ i k, s.pc i ≠ .failed k) ∧ (∀ i k, s.pc i = .counted k → k = s.ids.length) ∧
            (∀ i j, σ.count i = 1 → σ.count j = 1 → i = j)
  ov : Overlap σ → Doomed s

theorem OldInv.pc_of_count0 {b σ s} (inv : OldInv b σ s) (i : Nat) (h : σ.count i = 0) : s.pc i = .idle := by
  cases hp : s.pc i with
  | idle => rfl
  | counted k => have := inv.t_counted i k hp; omega
  | done k => have := inv.t_done i k hp; omega
  | failed k => have := inv.t_failed i k hp; omega

theorem OldInv.pc_of_count1 {b σ s} (inv : OldInv b σ s) (i : Nat) (h : σ.count i = 1) :
    ∃ k, s.pc i = .counted k := by
  cases hp : s.pc i with
  | idle => have := inv.t_idle i hp; omega
  | counted k => exact ⟨k, rfl⟩
  | done k => have := inv.t_done i k hp; omega
  | failed k => have := inv.t_failed i k hp; omega

theorem oldInv_init (b : Nat) : OldInv b [] (St.init b) where
  ids_range := by simp [St.init]
  counted_le := by simp [St.init]
  done_lt := by simp [St.init]
  done_inj := by simp [St.init]
  t_idle := by simp
  t_counted := by simp [St.init]
  t_done := by simp [St.init]
  t_failed := by simp [St.init]
  noov := by intro _; simp [St.init]
  ov := by
    rintro ⟨σ₁, σ₂, i, j, he, _⟩
    simp at he

theorem doomed_step (s : St) (x : Nat) (hr : s.ids = List.range s.ids.length)
    (hc : ∀ i k, s.pc i = .counted k → k ≤ s.ids.length) (hd : Doomed s) : Doomed (stepOld s x) := by
  have contains_of_lt : ∀ k, k < s.ids.length → s.ids.contains k = true := by
    intro k hk; rw [hr]; simpa using hk
  cases hpc : s.pc x with
  | idle =>
    rw [stepOld_idle s x hpc]
    rcases hd with ⟨i, k, h⟩ | ⟨i, k, h, hlt⟩ | ⟨i, j, ki, kj, hij, hi, hj⟩
    · have hne : i ≠ x := fun e => by subst e; rw [hpc] at h; cases h
      exact Or.inl ⟨i, k, by simpa [upd_other _ hne] using h⟩
    · have hne : i ≠ x := fun e => by subst e; rw [hpc] at h; cases h
      exact Or.inr (Or.inl ⟨i, k, by simpa [upd_other _ hne] using h, hlt⟩)
    · have hni : i ≠ x := fun e => by subst e; rw [hpc] at hi; cases hi
      have hnj : j ≠ x := fun e => by subst e; rw [hpc] at hj; cases hj
      exact Or.inr (Or.inr ⟨i, j, ki, kj, hij, by simpa [upd_other _ hni] using hi,
        by simpa [upd_other _ hnj] using hj⟩)
  | counted k =>
    cases hk : s.ids.contains k with
    | true =>
      rw [stepOld_reject s x k hpc hk]
      exact Or.inl ⟨x, k, by simp⟩
    | false =>
      rw [stepOld_accept s x k hpc hk]
      have hkl : ¬ k < s.ids.length := fun h => by rw [contains_of_lt k h] at hk; cases hk
      rcases hd with ⟨i, k', h⟩ | ⟨i, k', h, hlt⟩ | ⟨i, j, ki, kj, hij, hi, hj⟩
      · have hne : i ≠ x := fun e => by subst e; rw [hpc] at h; cases h
        exact Or.inl ⟨i, k', by simpa [upd_other _ hne] using h⟩
      · have hne : i ≠ x := fun e => by
          subst e; rw [hpc] at h; cases h; exact hkl hlt
        refine Or.inr (Or.inl ⟨i, k', by simpa [upd_other _ hne] using h, ?_⟩)
        show k' < (s.ids ++ [k]).length
        simp only [List.length_append, List.length_singleton]; omega
      · -- two sessions hold a count; x is one of them or not
        by_cases hix : i = x
        · subst hix
          have hnj : j ≠ i := fun e => hij e.symm
          have := hc j kj hj
          refine Or.inr (Or.inl ⟨j, kj, by simpa [upd_other _ hnj] using hj, ?_⟩)
          show kj < (s.ids ++ [k]).length
          simp only [List.length_append, List.length_singleton]; omega
        · by_cases hjx : j = x
          · subst hjx
            have := hc i ki hi
            refine Or.inr (Or.inl ⟨i, ki, by simpa [upd_other _ hix] using hi, ?_⟩)
            show ki < (s.ids ++ [k]).length
            simp only [List.length_append, List.length_singleton]; omega
          · exact Or.inr (Or.inr ⟨i, j, ki, kj, hij, by simpa [upd_other _ hix] using hi,
              by simpa [upd_other _ hjx] using hj⟩)
  | done k => rw [stepOld_done s x k hpc]; exact hd
  | failed k => rw [stepOld_failed s x k hpc]; exact hd

theorem oldInv_step (b : Nat) (σ : List Nat) (s : St) (x : Nat) (inv : OldInv b σ s) :
    OldInv b (σ ++ [x]) (stepOld s x) := by
  have hov : Overlap (σ ++ [x]) → Doomed (stepOld s x) := by
    intro h
    rcases (overlap_snoc σ x).1 h with h | ⟨hcx, i, hix, hci⟩
    · exact doomed_step s x inv.ids_range inv.counted_le (inv.ov h)
    · have hpx := inv.pc_of_count0 x hcx
      obtain ⟨ki, hpi⟩ := inv.pc_of_count1 i hci
      rw [stepOld_idle s x hpx]
      exact Or.inr (Or.inr ⟨i, x, ki, s.ids.length, hix, by simpa [upd_other _ hix] using hpi, by simp⟩)
  have hsplit : ¬ Overlap (σ ++ [x]) → ¬ Overlap σ ∧ ¬ (σ.count x = 0 ∧ ∃ i, i ≠ x ∧ σ.count i = 1) := by
    intro h
    exact ⟨fun h' => h ((overlap_snoc σ x).2 (Or.inl h')), fun h' => h ((overlap_snoc σ x).2 (Or.inr h'))⟩
  cases hpc : s.pc x with
  | idle =>
    have hcx := inv.t_idle x hpc
    rw [stepOld_idle s x hpc]
    refine
      { ids_range := inv.ids_range, counted_le := ?_, done_lt := ?_, done_inj := ?_, t_idle := ?_,
        t_counted := ?_, t_done := ?_, t_failed := ?_, noov := ?_,
        ov := by rw [← stepOld_idle s x hpc]; exact hov }
    · intro i k h
      by_cases hi : i = x
      · subst hi
        have : k = s.ids.length := by simpa using h.symm
        show k ≤ s.ids.length
        omega
      · exact inv.counted_le i k (by simpa [upd_other _ hi] using h)
    · intro i k h
      by_cases hi : i = x
      · subst hi; simp at h
      · exact inv.done_lt i k (by simpa [upd_other _ hi] using h)
    · intro i j k h1 h2
      by_cases hi : i = x
      · subst hi; simp at h1
      · by_cases hj : j = x
        · subst hj; simp at h2
        · exact inv.done_inj i j k (by simpa [upd_other _ hi] using h1) (by simpa [upd_other _ hj] using h2)
    · intro i h
      by_cases hi : i = x
      · subst hi; simp at h
      · rw [count_snoc, if_neg (fun e => hi e.symm)]
        simpa using inv.t_idle i (by simpa [upd_other _ hi] using h)
    · intro i k h
      by_cases hi : i = x
      · subst hi; rw [count_snoc, if_pos rfl, hcx]
      · rw [count_snoc, if_neg (fun e => hi e.symm)]
        simpa using inv.t_counted i k (by simpa [upd_other _ hi] using h)
    · intro i k h
      by_cases hi : i = x
      · subst hi; simp at h
      · rw [count_snoc, if_neg (fun e => hi e.symm)]
        simpa using inv.t_done i k (by simpa [upd_other _ hi] using h)
    · intro i k h
      by_cases hi : i = x
      · subst hi; simp at h
      · rw [count_snoc, if_neg (fun e => hi e.symm)]
        simpa using inv.t_failed i k (by simpa [upd_other _ hi] using h)
    · intro hno
      obtain ⟨hnoσ, hnew⟩ := hsplit hno
      obtain ⟨a1, a2, a3⟩ := inv.noov hnoσ
      have nobody : ∀ i, i ≠ x → σ.count i ≠ 1 := fun i hi h1 => hnew ⟨hcx, i, hi, h1⟩
      refine ⟨?_, ?_, ?_⟩
      · intro i k h
        by_cases hi : i = x
        · subst hi; simp at h
        · exact a1 i k (by simpa [upd_other _ hi] using h)
      · intro i k h
        by_cases hi : i = x
        · subst hi; simpa using h.symm
        · exact absurd (inv.t_counted i k (by simpa [upd_other _ hi] using h)) (nobody i hi)
      · intro i j hi hj
        rw [count_snoc] at hi hj
        by_cases hix : i = x
        · by_cases hjx : j = x
          · rw [hix, hjx]
          · rw [if_neg (fun e => hjx e.symm)] at hj
            exact absurd (by simpa using hj) (nobody j hjx)
        · rw [if_neg (fun e => hix e.symm)] at hi
          exact absurd (by simpa using hi) (nobody i hix)
  | counted k =>
    have hcx := inv.t_counted x k hpc
    cases hk : s.ids.contains k with
    | true =>
      rw [stepOld_reject s x k hpc hk]
      have hklt : k < s.ids.length := by rw [inv.ids_range] at hk; simpa using hk
      refine
        { ids_range := inv.ids_range, counted_le := ?_, done_lt := ?_, done_inj := ?_, t_idle := ?_,
          t_counted := ?_, t_done := ?_, t_failed := ?_, noov := ?_,
          ov := by rw [← stepOld_reject s x k hpc hk]; exact hov }
      · intro i k' h
        by_cases hi : i = x
        · subst hi; simp at h
        · exact inv.counted_le i k' (by simpa [upd_other _ hi] using h)
      · intro i k' h
        by_cases hi : i = x
        · subst hi; simp at h
        · exact inv.done_lt i k' (by simpa [upd_other _ hi] using h)
      · intro i j k' h1 h2
        by_cases hi : i = x
        · subst hi; simp at h1
        · by_cases hj : j = x
          · subst hj; simp at h2
          · exact inv.done_inj i j k' (by simpa [upd_other _ hi] using h1) (by simpa [upd_other _ hj] using h2)
      · intro i h
        by_cases hi : i = x
        · subst hi; simp at h
        · rw [count_snoc, if_neg (fun e => hi e.symm)]
          simpa using inv.t_idle i (by simpa [upd_other _ hi] using h)
      · intro i k' h
        by_cases hi : i = x
        · subst hi; simp at h
        · rw [count_snoc, if_neg (fun e => hi e.symm)]
          simpa using inv.t_counted i k' (by simpa [upd_other _ hi] using h)
      · intro i k' h
        by_cases hi : i = x
        · subst hi; simp at h
        · rw [count_snoc, if_neg (fun e => hi e.symm)]
          simpa using inv.t_done i k' (by simpa [upd_other _ hi] using h)
      · intro i k' h
        by_cases hi : i = x
        · subst hi; rw [count_snoc, if_pos rfl, hcx]; omega
        · rw [count_snoc, if_neg (fun e => hi e.symm)]
          have := inv.t_failed i k' (by simpa [upd_other _ hi] using h)
          omega
      · intro hno
        obtain ⟨hnoσ, _⟩ := hsplit hno
        obtain ⟨_, a2, _⟩ := inv.noov hnoσ
        have := a2 x k hpc
        omega
    | false =>
      rw [stepOld_accept s x k hpc hk]
      have hkeq : k = s.ids.length := by
        have : ¬ k < s.ids.length := by
          intro hlt
          have : s.ids.contains k = true := by rw [inv.ids_range]; simpa using hlt
          rw [hk] at this; cases this
        have := inv.counted_le x k hpc
        omega
      refine
        { ids_range := ?_, counted_le := ?_, done_lt := ?_, done_inj := ?_, t_idle := ?_,
          t_counted := ?_, t_done := ?_, t_failed := ?_, noov := ?_,
          ov := by rw [← stepOld_accept s x k hpc hk]; exact hov }
      · show s.ids ++ [k] = List.range (s.ids ++ [k]).length
        rw [hkeq, List.length_append, List.length_singleton, List.range_succ, ← inv.ids_range]
      · intro i k' h
        show k' ≤ (s.ids ++ [k]).length
        simp only [List.length_append, List.length_singleton]
        by_cases hi : i = x
        · subst hi; simp at h
        · have := inv.counted_le i k' (by simpa [upd_other _ hi] using h); omega
      · intro i k' h
        show k' < (s.ids ++ [k]).length
        simp only [List.length_append, List.length_singleton]
        by_cases hi : i = x
        · subst hi
          have : k' = k := by simpa using h.symm
          omega
        · have := inv.done_lt i k' (by simpa [upd_other _ hi] using h); omega
      · intro i j k' h1 h2
        by_cases hi : i = x
        · by_cases hj : j = x
          · rw [hi, hj]
          · subst hi
            have e1 : k' = k := by simpa using h1.symm
            have := inv.done_lt j k' (by simpa [upd_other _ hj] using h2); omega
        · have h1' : s.pc i = .done k' := by simpa [upd_other _ hi] using h1
          by_cases hj : j = x
          · subst hj
            have e2 : k' = k := by simpa using h2.symm
            have := inv.done_lt i k' h1'; omega
          · exact inv.done_inj i j k' h1' (by simpa [upd_other _ hj] using h2)
      · intro i h
        by_cases hi : i = x
        · subst hi; simp at h
        · rw [count_snoc, if_neg (fun e => hi e.symm)]
          simpa using inv.t_idle i (by simpa [upd_other _ hi] using h)
      · intro i k' h
        by_cases hi : i = x
        · subst hi; simp at h
        · rw [count_snoc, if_neg (fun e => hi e.symm)]
          simpa using inv.t_counted i k' (by simpa [upd_other _ hi] using h)
      · intro i k' h
        by_cases hi : i = x
        · subst hi; rw [count_snoc, if_pos rfl, hcx]; omega
        · rw [count_snoc, if_neg (fun e => hi e.symm)]
          have := inv.t_done i k' (by simpa [upd_other _ hi] using h)
          omega
      · intro i k' h
        by_cases hi : i = x
        · subst hi; simp at h
        · rw [count_snoc, if_neg (fun e => hi e.symm)]
          have := inv.t_failed i k' (by simpa [upd_other _ hi] using h)
          omega
      · intro hno
        obtain ⟨hnoσ, _⟩ := hsplit hno
        obtain ⟨a1, a2, a3⟩ := inv.noov hnoσ
        refine ⟨?_, ?_, ?_⟩
        · intro i k' h
          by_cases hi : i = x
          · subst hi; simp at h
          · exact a1 i k' (by simpa [upd_other _ hi] using h)
        · intro i k' h
          by_cases hi : i = x
          · subst hi; simp at h
          · have hci := inv.t_counted i k' (by simpa [upd_other _ hi] using h)
            exact absurd (a3 i x hci hcx) hi
        · intro i j hi hj
          rw [count_snoc] at hi hj
          have hix : i ≠ x := fun e => by subst e; rw [if_pos rfl, hcx] at hi; omega
          have hjx : j ≠ x := fun e => by subst e; rw [if_pos rfl, hcx] at hj; omega
          rw [if_neg (fun e => hix e.symm)] at hi
          rw [if_neg (fun e => hjx e.symm)] at hj
          exact a3 i j (by simpa using hi) (by simpa using hj)
  | done k =>
    have hcx := inv.t_done x k hpc
    rw [stepOld_done s x k hpc]
    refine
      { ids_range := inv.ids_range, counted_le := inv.counted_le, done_lt := inv.done_lt,
        done_inj := inv.done_inj, t_idle := ?_, t_counted := ?_, t_done := ?_, t_failed := ?_, noov := ?_,
        ov := by rw [← stepOld_done s x k hpc]; exact hov }
    · intro i h
      have hi : i ≠ x := fun e => by subst e; rw [hpc] at h; cases h
      rw [count_snoc, if_neg (fun e => hi e.symm)]; simpa using inv.t_idle i h
    · intro i k' h
      have hi : i ≠ x := fun e => by subst e; rw [hpc] at h; cases h
      rw [count_snoc, if_neg (fun e => hi e.symm)]; simpa using inv.t_counted i k' h
    · intro i k' h
      have := inv.t_done i k' h
      rw [count_snoc]; omega
    · intro i k' h
      have := inv.t_failed i k' h
      rw [count_snoc]; omega
    · intro hno
      obtain ⟨hnoσ, _⟩ := hsplit hno
      obtain ⟨a1, a2, a3⟩ := inv.noov hnoσ
      refine ⟨a1, a2, ?_⟩
      intro i j hi hj
      rw [count_snoc] at hi hj
      have hix : i ≠ x := fun e => by subst e; rw [if_pos rfl] at hi; omega
      have hjx : j ≠ x := fun e => by subst e; rw [if_pos rfl] at hj; omega
      rw [if_neg (fun e => hix e.symm)] at hi
      rw [if_neg (fun e => hjx e.symm)] at hj
      exact a3 i j (by simpa using hi) (by simpa using hj)
  | failed k =>
    have hcx := inv.t_failed x k hpc
    rw [stepOld_failed s x k hpc]
    refine
      { ids_range := inv.ids_range, counted_le := inv.counted_le, done_lt := inv.done_lt,
        done_inj := inv.done_inj, t_idle := ?_, t_counted := ?_, t_done := ?_, t_failed := ?_, noov := ?_,
        ov := by rw [← stepOld_failed s x k hpc]; exact hov }
    · intro i h
      have hi : i ≠ x := fun e => by subst e; rw [hpc] at h; cases h
      rw [count_snoc, if_neg (fun e => hi e.symm)]; simpa using inv.t_idle i h
    · intro i k' h
      have hi : i ≠ x := fun e => by subst e; rw [hpc] at h; cases h
      rw [count_snoc, if_neg (fun e => hi e.symm)]; simpa using inv.t_counted i k' h
    · intro i k' h
      have := inv.t_done i k' h
      rw [count_snoc]; omega
    · intro i k' h
      have := inv.t_failed i k' h
      rw [count_snoc]; omega
    · intro hno
      obtain ⟨hnoσ, _⟩ := hsplit hno
      obtain ⟨a1, _, _⟩ := inv.noov hnoσ
      exact absurd hpc (a1 x k)

theorem oldInv_run (b : Nat) (σ : List Nat) : OldInv b σ (run stepOld σ (St.init b)) := by
  induction σ using List.reverseRecOn with
  | nil => exact oldInv_init b
  | append_singleton σ x ih => rw [run_snoc]; exact oldInv_step b σ _ x ih

theorem run_append (step : St → Nat → St) (σ τ : List Nat) (s : St) :
    run step (σ ++ τ) s = run step τ (run step σ s) := by
  simp [run, List.foldl_append]

/-- sessions one after the other, for any protocol whose read and accepted insert are those of the code -/
theorem sequential_state (step : St → Nat → St)
    (hidle : ∀ s x, s.pc x = .idle → step s x = { s with pc := upd s.pc x (.counted s.ids.length) })
    (hacc : ∀ s x k, s.pc x = .counted k → s.ids.contains k = false →
      step s x = { s with ids := s.ids ++ [k], pc := upd s.pc x (.done k), log := s.log ++ [x] })
    (N b : Nat) :
    (run step (sequential N) (St.init b)).ids = List.range (b + N) ∧
    (∀ i, i < N → (run step (sequential N) (St.init b)).pc i = .done (b + i)) ∧
    (∀ i, N ≤ i → (run step (sequential N) (St.init b)).pc i = .idle) := by
  induction N with
  | zero => simp [sequential, run, St.init]
  | succ n ih =>
    obtain ⟨h1, h2, h3⟩ := ih
    have hs : sequential (n + 1) = sequential n ++ [n, n] := rfl
    rw [hs, run_append]
    generalize run step (sequential n) (St.init b) = s at h1 h2 h3
    have hlen : s.ids.length = b + n := by rw [h1]; simp
    have e1 : step s n = { s with pc := upd s.pc n (.counted s.ids.length) } := hidle s n (h3 n (Nat.le_refl n))
    have hnc : s.ids.contains (b + n) = false := by
      rw [h1]
      cases hc : (List.range (b + n)).contains (b + n) with
      | false => rfl
      | true => have := (range_contains (b + n) (b + n)).1 hc; omega
    have e2 : step (step s n) n =
        { s with ids := s.ids ++ [b + n], pc := upd (upd s.pc n (.counted s.ids.length)) n (.done (b + n)),
                 log := s.log ++ [n] } := by
      rw [e1]
      exact hacc _ n (b + n) (by simp [hlen]) hnc
    have e3 : run step [n, n] s = step (step s n) n := rfl
    rw [e3, e2]
    refine ⟨?_, ?_, ?_⟩
    · show s.ids ++ [b + n] = List.range (b + (n + 1))
      rw [h1, ← Nat.add_assoc, List.range_succ]
    · intro i hi
      by_cases hin : i = n
      · subst hin; simp
      · have : i < n := by omega
        simpa [upd_other _ hin] using h2 i this
    · intro i hi
      have hin : i ≠ n := by omega
      simpa [upd_other _ hin] using h3 i (by omega)

/-! ### one atomic statement -/

structure AtomicInv (σ : List Nat) (s : St) : Prop where
  ids_range : s.ids = List.range s.ids.length
  not_counted : ∀ i k, s.pc i ≠ .counted k
  not_failed : ∀ i k, s.pc i ≠ .failed k
  done_lt : ∀ i k, s.pc i = .done k → k < s.ids.length
  done_inj : ∀ i j k, s.pc i = .done k → s.pc j = .done k → i = j
  t_idle : ∀ i, s.pc i = .idle → σ.count i = 0

theorem atomicInv_run (b : Nat) (σ : List Nat) : AtomicInv σ (run stepAtomic σ (St.init b)) := by
  induction σ using List.reverseRecOn with
  | nil =>
    exact { ids_range := by simp [run, St.init], not_counted := by simp [run, St.init],
            not_failed := by simp [run, St.init], done_lt := by simp [run, St.init],
            done_inj := by simp [run, St.init], t_idle := by simp }
  | append_singleton σ x inv =>
    rw [run_snoc]
    generalize run stepAtomic σ (St.init b) = s at inv
    cases hpc : s.pc x with
    | idle =>
      have e : stepAtomic s x =
          { s with ids := s.ids ++ [s.ids.length], pc := upd s.pc x (.done s.ids.length), log := s.log ++ [x] } := by
        simp [stepAtomic, hpc]
      rw [e]
      refine { ids_range := ?_, not_counted := ?_, not_failed := ?_, done_lt := ?_, done_inj := ?_, t_idle := ?_ }
      · show s.ids ++ [s.ids.length] = List.range (s.ids ++ [s.ids.length]).length
        rw [List.length_append, List.length_singleton, List.range_succ, ← inv.ids_range]
      · intro i k h
        by_cases hi : i = x
        · subst hi; simp at h
        · exact inv.not_counted i k (by simpa [upd_other _ hi] using h)
      · intro i k h
        by_cases hi : i = x
        · subst hi; simp at h
        · exact inv.not_failed i k (by simpa [upd_other _ hi] using h)
      · intro i k h
        show k < (s.ids ++ [s.ids.length]).length
        simp only [List.length_append, List.length_singleton]
        by_cases hi : i = x
        · subst hi
          have : k = s.ids.length := by simpa using h.symm
          omega
        · have := inv.done_lt i k (by simpa [upd_other _ hi] using h); omega
      · intro i j k h1 h2
        by_cases hi : i = x
        · by_cases hj : j = x
          · rw [hi, hj]
          · subst hi
            have e1 : k = s.ids.length := by simpa using h1.symm
            have := inv.done_lt j k (by simpa [upd_other _ hj] using h2); omega
        · have h1' : s.pc i = .done k := by simpa [upd_other _ hi] using h1
          by_cases hj : j = x
          · subst hj
            have e2 : k = s.ids.length := by simpa using h2.symm
            have := inv.done_lt i k h1'; omega
          · exact inv.done_inj i j k h1' (by simpa [upd_other _ hj] using h2)
      · intro i h
        by_cases hi : i = x
        · subst hi; simp at h
        · rw [count_snoc, if_neg (fun e => hi e.symm)]
          simpa using inv.t_idle i (by simpa [upd_other _ hi] using h)
    | counted k => exact absurd hpc (inv.not_counted x k)
    | failed k => exact absurd hpc (inv.not_failed x k)
    | done k =>
      have e : stepAtomic s x = s := by simp [stepAtomic, hpc]
      rw [e]
      refine { inv with t_idle := ?_ }
      intro i h
      have hi : i ≠ x := fun e => by subst e; rw [hpc] at h; cases h
      rw [count_snoc, if_neg (fun e => hi e.symm)]; simpa using inv.t_idle i h

/-! ### a bounded number of attempts is not enough -/

/-- one round of the victim schedule under a budget: rival r counts and inserts while the victim holds
    a count; the victim's insert is then rejected -/
theorem victim_round (budget b m : Nat) (s : St)
    (hids : s.ids = List.range (b + m)) (h0 : s.pc 0 = .idle) (hr : s.retries 0 = m)
    (hriv : ∀ j, m < j → s.pc j = .idle) :
    ∃ s', run (stepBounded budget) [0, m + 1, m + 1, 0] s = s' ∧
    s'.ids = List.range (b + (m + 1)) ∧ s'.retries 0 = m + 1 ∧ (∀ j, m + 1 < j → s'.pc j = .idle) ∧
    (if m + 1 < budget then s'.pc 0 = .idle else s'.pc 0 = .failed (b + m)) := by
  have hlen : s.ids.length = b + m := by rw [hids]; simp
  have hne : (m + 1 : Nat) ≠ 0 := by omega
  -- step 1: the victim counts
  have e1 : stepBounded budget s 0 = { s with pc := upd s.pc 0 (.counted (b + m)) } := by
    simp [stepBounded, h0, hlen]
  -- step 2: the rival counts
  have e2 : stepBounded budget (stepBounded budget s 0) (m + 1) =
      { s with pc := upd (upd s.pc 0 (.counted (b + m))) (m + 1) (.counted (b + m)) } := by
    rw [e1]
    have : upd s.pc 0 (.counted (b + m)) (m + 1) = .idle := by
      rw [upd_other _ hne]; exact hriv (m + 1) (by omega)
    simp [stepBounded, this, hlen]
  have hnc : s.ids.contains (b + m) = false := by
    rw [hids]
    cases hc : (List.range (b + m)).contains (b + m) with
    | false => rfl
    | true => have := (range_contains (b + m) (b + m)).1 hc; omega
  -- step 3: the rival inserts
  have e3 : stepBounded budget (stepBounded budget (stepBounded budget s 0) (m + 1)) (m + 1) =
      { s with ids := s.ids ++ [b + m],
               pc := upd (upd (upd s.pc 0 (.counted (b + m))) (m + 1) (.counted (b + m))) (m + 1) (.done (b + m)),
               log := s.log ++ [m + 1] } := by
    rw [e2]
    simp only [stepBounded, upd_same, hnc, Bool.false_eq_true, if_false]
  have hids' : s.ids ++ [b + m] = List.range (b + (m + 1)) := by
    rw [hids, ← Nat.add_assoc, List.range_succ]
  have hc' : (s.ids ++ [b + m]).contains (b + m) = true := by
    rw [hids']; exact (range_contains _ _).2 (by omega)
  have hpc0 : upd (upd (upd s.pc 0 (.counted (b + m))) (m + 1) (.counted (b + m))) (m + 1) (.done (b + m)) 0
      = .counted (b + m) := by
    rw [upd_other _ (by omega : (0 : Nat) ≠ m + 1), upd_other _ (by omega : (0 : Nat) ≠ m + 1), upd_same]
  have e : run (stepBounded budget) [0, m + 1, m + 1, 0] s =
      stepBounded budget (stepBounded budget (stepBounded budget (stepBounded budget s 0) (m + 1)) (m + 1)) 0 := rfl
  rw [e, e3]
  by_cases hb : m + 1 < budget
  · have e4 : stepBounded budget
        { s with ids := s.ids ++ [b + m],
                 pc := upd (upd (upd s.pc 0 (.counted (b + m))) (m + 1) (.counted (b + m))) (m + 1) (.done (b + m)),
                 log := s.log ++ [m + 1] } 0 =
        { s with ids := s.ids ++ [b + m],
                 pc := upd (upd (upd (upd s.pc 0 (.counted (b + m))) (m + 1) (.counted (b + m))) (m + 1) (.done (b + m))) 0 .idle,
                 retries := upd s.retries 0 (s.retries 0 + 1),
                 log := s.log ++ [m + 1] } := by
      simp only [stepBounded, hpc0, hc', hr, hb, if_true]
    rw [e4]
    refine ⟨_, rfl, hids', by simp [hr], ?_, by simp [hb]⟩
    intro j hj
    show upd _ 0 PC.idle j = .idle
    rw [upd_other _ (by omega : j ≠ 0), upd_other _ (by omega : j ≠ m + 1), upd_other _ (by omega : j ≠ m + 1),
      upd_other _ (by omega : j ≠ 0)]
    exact hriv j (by omega)
  · have e4 : stepBounded budget
        { s with ids := s.ids ++ [b + m],
                 pc := upd (upd (upd s.pc 0 (.counted (b + m))) (m + 1) (.counted (b + m))) (m + 1) (.done (b + m)),
                 log := s.log ++ [m + 1] } 0 =
        { s with ids := s.ids ++ [b + m],
                 pc := upd (upd (upd (upd s.pc 0 (.counted (b + m))) (m + 1) (.counted (b + m))) (m + 1) (.done (b + m))) 0 (.failed (b + m)),
                 retries := upd s.retries 0 (s.retries 0 + 1),
                 log := s.log ++ [m + 1] } := by
      simp only [stepBounded, hpc0, hc', hr, hb, if_true, if_false]
    rw [e4]
    refine ⟨_, rfl, hids', by simp [hr], ?_, by simp [hb]⟩
    intro j hj
    show upd _ 0 (PC.failed (b + m)) j = .idle
    rw [upd_other _ (by omega : j ≠ 0), upd_other _ (by omega : j ≠ m + 1), upd_other _ (by omega : j ≠ m + 1),
      upd_other _ (by omega : j ≠ 0)]
    exact hriv j (by omega)

/-- after m < budget rounds the victim is still trying, having lost m times -/
theorem victim_state (budget b : Nat) : ∀ m, m < budget →
    (run (stepBounded budget) (victim m) (St.init b)).ids = List.range (b + m) ∧
    (run (stepBounded budget) (victim m) (St.init b)).pc 0 = .idle ∧
    (run (stepBounded budget) (victim m) (St.init b)).retries 0 = m ∧
    (∀ j, m < j → (run (stepBounded budget) (victim m) (St.init b)).pc j = .idle)
  | 0, _ => by simp [victim, run, St.init]
  | m + 1, h => by
    obtain ⟨h1, h2, h3, h4⟩ := victim_state budget b m (by omega)
    have hv : victim (m + 1) = victim m ++ [0, m + 1, m + 1, 0] := rfl
    rw [hv, run_append]
    obtain ⟨s', hs', a1, a2, a3, a4⟩ := victim_round budget b m _ h1 h2 h3 h4
    rw [hs']
    simp only [h, if_true] at a4
    exact ⟨a1, a4, a2, a3⟩

/-! ### density of the table: an invariant of this code, not an assumption about it -/

/-- the table is dense and every count a session still holds is at most the current number of rows -/
def Dense (s : St) : Prop :=
  DenseIds s.ids ∧ ∀ i k, s.pc i = .counted k → k ≤ s.ids.length

theorem start_eq_init (ids₀ : List Nat) (h : DenseIds ids₀) : St.start ids₀ = St.init ids₀.length := by
  unfold St.start St.init; rw [← h]

theorem dense_start (ids₀ : List Nat) (h : DenseIds ids₀) : Dense (St.start ids₀) :=
  ⟨h, by simp [St.start]⟩

theorem dense_init (b : Nat) : Dense (St.init b) :=
  ⟨by simp [DenseIds, St.init], by simp [St.init]⟩

private theorem dense_read (s : St) (x : Nat) (h : Dense s) :
    Dense { s with pc := upd s.pc x (.counted s.ids.length) } := by
  refine ⟨h.1, ?_⟩
  intro i k hk
  by_cases hi : i = x
  · subst hi
    have : k = s.ids.length := by simpa using hk.symm
    show k ≤ s.ids.length
    omega
  · exact h.2 i k (by simpa [upd_other _ hi] using hk)

private theorem dense_pc (s : St) (x : Nat) (v : PC) (r : Nat → Nat) (hv : ∀ k, v ≠ .counted k) (h : Dense s) :
    Dense { s with pc := upd s.pc x v, retries := r } := by
  refine ⟨h.1, ?_⟩
  intro i k hk
  by_cases hi : i = x
  · subst hi; exact absurd (by simpa using hk) (hv k)
  · exact h.2 i k (by simpa [upd_other _ hi] using hk)

private theorem dense_accept (s : St) (x k : Nat) (hpc : s.pc x = .counted k) (hk : s.ids.contains k = false)
    (h : Dense s) : Dense { s with ids := s.ids ++ [k], pc := upd s.pc x (.done k), log := s.log ++ [x] } := by
  have hkeq : k = s.ids.length := by
    have : ¬ k < s.ids.length := by
      intro hlt
      have : s.ids.contains k = true := by rw [h.1]; simpa using hlt
      rw [hk] at this; cases this
    have := h.2 x k hpc
    omega
  refine ⟨?_, ?_⟩
  · show s.ids ++ [k] = List.range (s.ids ++ [k]).length
    rw [hkeq, List.length_append, List.length_singleton, List.range_succ, ← h.1]
  · intro i k' hk'
    show k' ≤ (s.ids ++ [k]).length
    simp only [List.length_append, List.length_singleton]
    by_cases hi : i = x
    · subst hi; simp at hk'
    · have := h.2 i k' (by simpa [upd_other _ hi] using hk'); omega

theorem dense_stepRetry (s : St) (x : Nat) (h : Dense s) : Dense (stepRetry s x) := by
  cases hpc : s.pc x with
  | idle => rw [stepRetry_idle s x hpc]; exact dense_read s x h
  | counted k =>
    cases hk : s.ids.contains k with
    | true => rw [stepRetry_reject s x k hpc hk]; exact dense_pc s x .idle _ (by intro k e; cases e) h
    | false => rw [stepRetry_accept s x k hpc hk]; exact dense_accept s x k hpc hk h
  | done k => rw [stepRetry_done s x k hpc]; exact h
  | failed k => rw [stepRetry_failed s x k hpc]; exact h

theorem dense_stepOld (s : St) (x : Nat) (h : Dense s) : Dense (stepOld s x) := by
  cases hpc : s.pc x with
  | idle => rw [stepOld_idle s x hpc]; exact dense_read s x h
  | counted k =>
    cases hk : s.ids.contains k with
    | true =>
      rw [stepOld_reject s x k hpc hk]
      exact dense_pc s x (.failed k) s.retries (by intro k e; cases e) h
    | false => rw [stepOld_accept s x k hpc hk]; exact dense_accept s x k hpc hk h
  | done k => rw [stepOld_done s x k hpc]; exact h
  | failed k => rw [stepOld_failed s x k hpc]; exact h

theorem dense_run (step : St → Nat → St) (hstep : ∀ s x, Dense s → Dense (step s x)) :
    ∀ (σ : List Nat) (s : St), Dense s → Dense (run step σ s)
  | [], _, h => h
  | x :: σ, s, h => dense_run step hstep σ (step s x) (hstep s x h)

/-! ### a table with a gap: the loop never terminates -/

/-- on the table {0, 2} every session is for ever idle or holding the count 2, and nothing is inserted -/
def GapStuck (s : St) : Prop :=
  s.ids = [0, 2] ∧ ∀ i, s.pc i = .idle ∨ s.pc i = .counted 2

theorem gapStuck_step (s : St) (x : Nat) (h : GapStuck s) : GapStuck (stepRetry s x) := by
  obtain ⟨hids, hpcs⟩ := h
  rcases hpcs x with hpc | hpc
  · rw [stepRetry_idle s x hpc]
    refine ⟨hids, ?_⟩
    intro i
    by_cases hi : i = x
    · subst hi; right; simp [hids]
    · rcases hpcs i with h' | h'
      · left; simpa [upd_other _ hi] using h'
      · right; simpa [upd_other _ hi] using h'
  · have hk : s.ids.contains 2 = true := by rw [hids]; decide
    rw [stepRetry_reject s x 2 hpc hk]
    refine ⟨hids, ?_⟩
    intro i
    by_cases hi : i = x
    · subst hi; left; simp
    · rcases hpcs i with h' | h'
      · left; simpa [upd_other _ hi] using h'
      · right; simpa [upd_other _ hi] using h'

theorem gapStuck_run : ∀ (σ : List Nat) (s : St), GapStuck s → GapStuck (run stepRetry σ s)
  | [], _, h => h
  | x :: σ, s, h => gapStuck_run σ (stepRetry s x) (gapStuck_step s x h)

theorem victim_mem : ∀ m i, i ∈ victim m → i < m + 1 := by
  intro m
  induction m with
  | zero => intro i hi; simp [victim] at hi
  | succ n ih =>
    intro i hi
    have hv : victim (n + 1) = victim n ++ [0, n + 1, n + 1, 0] := rfl
    rw [hv] at hi
    rcases List.mem_append.1 hi with h | h
    · have := ih i h; omega
    · simp at h; omega

end AgVerif.Session
