/-
Lemmas for C13..C16, part 1: dict/set containers, the per-instruction *emission* of `step`
(`step cur m db oi = apply db (emit db.decl cur m oi)` whenever every registered method's class is
registered), and the fold of `apply`.
-/
import AgVerif.Model.Xref

namespace AgVerif.Xref
open AgVerif.Gen

/-! ### sets -/

theorem mem_sadd {α : Type} [DecidableEq α] (s : List α) (x y : α) : y ∈ sadd s x ↔ y ∈ s ∨ y = x := by
  unfold sadd
  split
  · constructor
    · intro h; exact Or.inl h
    · rintro (h | h)
      · exact h
      · subst h; assumption
  · simp

theorem mem_foldl_sadd {α : Type} [DecidableEq α] (xs s : List α) (y : α) :
    y ∈ xs.foldl sadd s ↔ y ∈ s ∨ y ∈ xs := by
  induction xs generalizing s with
  | nil => simp
  | cons x xs ih =>
    simp only [List.foldl_cons, ih, mem_sadd, List.mem_cons]
    constructor
    · rintro ((h | h) | h)
      · exact Or.inl h
      · exact Or.inr (Or.inl h)
      · exact Or.inr (Or.inr h)
    · rintro (h | h | h)
      · exact Or.inl (Or.inl h)
      · exact Or.inl (Or.inr h)
      · exact Or.inr h

theorem nodup_sadd {α : Type} [DecidableEq α] (s : List α) (x : α) (h : s.Nodup) : (sadd s x).Nodup := by
  unfold sadd
  split
  · exact h
  · rename_i hx
    rw [List.nodup_append]
    refine ⟨h, by simp, ?_⟩
    intro a ha b hb
    simp at hb
    subst hb
    intro e
    subst e
    exact hx ha

theorem nodup_foldl_sadd {α : Type} [DecidableEq α] (xs s : List α) (h : s.Nodup) : (xs.foldl sadd s).Nodup := by
  induction xs generalizing s with
  | nil => simpa
  | cons x xs ih => exact ih _ (nodup_sadd s x h)

/-! ### dicts -/

section dict
variable {κ ν : Type} [DecidableEq κ]

theorem dget_dset (d : List (κ × ν)) (k k' : κ) (v : ν) :
    dget (dset d k v) k' = if k = k' then some v else dget d k' := by
  induction d with
  | nil => simp [dset, dget]
  | cons kv r ih =>
    obtain ⟨a, b⟩ := kv
    by_cases h : a = k
    · subst h
      by_cases h2 : a = k' <;> simp [dset, dget, h2]
    · simp only [dset, h, if_false, dget, ih]
      by_cases h2 : a = k'
      · subst h2
        have : ¬ k = a := fun e => h e.symm
        simp [this]
      · simp [h2]

theorem dget_append_single (d : List (κ × ν)) (k k' : κ) (v : ν) :
    dget (d ++ [(k, v)]) k' = match dget d k' with
      | some x => some x
      | none => if k = k' then some v else none := by
  induction d with
  | nil => simp [dget]
  | cons kv r ih =>
    obtain ⟨a, b⟩ := kv
    by_cases h : a = k'
    · simp [dget, h]
    · simp [dget, h, ih]

theorem dget_dsetdefault (d : List (κ × ν)) (k k' : κ) (v : ν) :
    dget (dsetdefault d k v) k' = match dget d k' with
      | some x => some x
      | none => if k = k' then some v else none := by
  unfold dsetdefault
  cases hk : dget d k with
  | some x =>
    simp only
    cases hk' : dget d k' with
    | some y => rfl
    | none =>
      have : ¬ k = k' := by
        intro e; subst e; rw [hk] at hk'; cases hk'
      simp [this]
  | none => simp only; exact dget_append_single d k k' v

theorem dset_of_absent (d : List (κ × ν)) (k : κ) (v : ν) (h : dget d k = none) :
    dset d k v = dsetdefault d k v := by
  unfold dsetdefault
  rw [h]
  simp only
  induction d with
  | nil => simp [dset]
  | cons kv r ih =>
    obtain ⟨a, b⟩ := kv
    by_cases e : a = k
    · subst e; simp [dget] at h
    · simp only [dget, e, if_false] at h
      simp [dset, e, ih h]

theorem dsetdefault_of_present (d : List (κ × ν)) (k : κ) (v : ν) (h : dget d k ≠ none) :
    dsetdefault d k v = d := by
  unfold dsetdefault
  cases hk : dget d k with
  | some x => rfl
  | none => exact absurd hk h

/-- keys of a dict -/
def keys (d : List (κ × ν)) : List κ := d.map (·.1)

theorem mem_keys_iff (d : List (κ × ν)) (k : κ) : k ∈ keys d ↔ dget d k ≠ none := by
  induction d with
  | nil => simp [keys, dget]
  | cons kv r ih =>
    obtain ⟨a, b⟩ := kv
    by_cases h : a = k
    · subst h; simp [keys, dget]
    · have h' : ¬ k = a := fun e => h e.symm
      simp only [keys, List.map_cons, List.mem_cons, h', false_or, dget, h, if_false]
      exact ih

theorem keys_dset (d : List (κ × ν)) (k : κ) (v : ν) :
    keys (dset d k v) = if k ∈ keys d then keys d else keys d ++ [k] := by
  induction d with
  | nil => simp [dset, keys]
  | cons kv r ih =>
    obtain ⟨a, b⟩ := kv
    by_cases h : a = k
    · subst h; simp [dset, keys]
    · have h' : ¬ k = a := fun e => h e.symm
      simp only [dset, h, if_false]
      simp only [keys, List.map_cons, List.mem_cons, h', false_or] at ih ⊢
      rw [ih]
      by_cases hk : k ∈ List.map (fun x => x.fst) r <;> simp [hk]

theorem nodup_keys_dset (d : List (κ × ν)) (k : κ) (v : ν) (h : (keys d).Nodup) :
    (keys (dset d k v)).Nodup := by
  rw [keys_dset]
  split
  · exact h
  · rename_i hk
    rw [List.nodup_append]
    refine ⟨h, by simp, ?_⟩
    intro a ha b hb
    simp at hb
    subst hb
    intro e; subst e; exact hk ha

theorem nodup_keys_dsetdefault (d : List (κ × ν)) (k : κ) (v : ν) (h : (keys d).Nodup) :
    (keys (dsetdefault d k v)).Nodup := by
  unfold dsetdefault
  cases hk : dget d k with
  | some x => exact h
  | none =>
    simp only [keys, List.map_append, List.map_cons, List.map_nil]
    rw [List.nodup_append]
    refine ⟨h, by simp, ?_⟩
    intro a ha b hb
    simp at hb
    subst hb
    intro e; subst e
    exact ((mem_keys_iff d a).1 ha) hk

/-- `for k in ks: d.setdefault(k, v)` -/
theorem dget_foldl_dsetdefault (ks : List κ) (d : List (κ × ν)) (v : ν) (k' : κ) :
    dget (ks.foldl (fun d k => dsetdefault d k v) d) k' = match dget d k' with
      | some x => some x
      | none => if k' ∈ ks then some v else none := by
  induction ks generalizing d with
  | nil => simp only [List.foldl_nil]; cases h : dget d k' <;> simp
  | cons k ks ih =>
    simp only [List.foldl_cons, ih, dget_dsetdefault]
    cases dget d k' with
    | some x => rfl
    | none =>
      by_cases h : k = k'
      · subst h; simp
      · have h' : ¬ k' = k := fun e => h e.symm
        simp [h, h']

theorem nodup_keys_foldl_dsetdefault (ks : List κ) (d : List (κ × ν)) (v : ν) (h : (keys d).Nodup) :
    (keys (ks.foldl (fun d k => dsetdefault d k v) d)).Nodup := by
  induction ks generalizing d with
  | nil => simpa
  | cons k ks ih => exact ih _ (nodup_keys_dsetdefault d k v h)

end dict

/-! ### emission -/

/-- what one instruction adds -/
structure Delta where
  extClasses : List String := []
  extMethods : List MKey := []
  fas : List (String × FKey) := []
  strings : List String := []
  callTo : List (MKey × MKey × Nat) := []
  callFrom : List (MKey × MKey × Nat) := []
  clsTo : List ClsRef := []
  clsFrom : List ClsRef := []
  newInstM : List (MKey × String × Nat) := []
  newInstC : List (String × MKey × Nat) := []
  constClsM : List (MKey × String × Nat) := []
  constClsC : List (String × MKey × Nat) := []
  strFrom : List (String × MKey × Nat) := []
  fRead : List ((String × FKey) × MKey × Nat) := []
  fWrite : List ((String × FKey) × MKey × Nat) := []
  mRead : List (MKey × FKey × Nat) := []
  mWrite : List (MKey × FKey × Nat) := []

def Delta.append (a b : Delta) : Delta :=
  { extClasses := a.extClasses ++ b.extClasses, extMethods := a.extMethods ++ b.extMethods,
    fas := a.fas ++ b.fas, strings := a.strings ++ b.strings,
    callTo := a.callTo ++ b.callTo, callFrom := a.callFrom ++ b.callFrom,
    clsTo := a.clsTo ++ b.clsTo, clsFrom := a.clsFrom ++ b.clsFrom,
    newInstM := a.newInstM ++ b.newInstM, newInstC := a.newInstC ++ b.newInstC,
    constClsM := a.constClsM ++ b.constClsM, constClsC := a.constClsC ++ b.constClsC,
    strFrom := a.strFrom ++ b.strFrom, fRead := a.fRead ++ b.fRead, fWrite := a.fWrite ++ b.fWrite,
    mRead := a.mRead ++ b.mRead, mWrite := a.mWrite ++ b.mWrite }

def apply (db : DB) (δ : Delta) : DB :=
  { classes := δ.extClasses.foldl (fun d c => dsetdefault d c true) db.classes
    methods := δ.extMethods.foldl (fun d k => dsetdefault d k true) db.methods
    decl := db.decl
    fields := δ.fas.foldl sadd db.fields
    strings := δ.strings.foldl sadd db.strings
    callTo := δ.callTo.foldl sadd db.callTo
    callFrom := δ.callFrom.foldl sadd db.callFrom
    clsTo := δ.clsTo.foldl sadd db.clsTo
    clsFrom := δ.clsFrom.foldl sadd db.clsFrom
    newInstM := δ.newInstM.foldl sadd db.newInstM
    newInstC := δ.newInstC.foldl sadd db.newInstC
    constClsM := δ.constClsM.foldl sadd db.constClsM
    constClsC := δ.constClsC.foldl sadd db.constClsC
    strFrom := δ.strFrom.foldl sadd db.strFrom
    fRead := δ.fRead.foldl sadd db.fRead
    fWrite := δ.fWrite.foldl sadd db.fWrite
    mRead := δ.mRead.foldl sadd db.mRead
    mWrite := δ.mWrite.foldl sadd db.mWrite }

theorem apply_append (db : DB) (a b : Delta) : apply (apply db a) b = apply db (a.append b) := by
  simp [apply, Delta.append, List.foldl_append]

theorem apply_empty (db : DB) : apply db {} = db := by
  cases db; simp [apply]

/-- the emission of one instruction; `decl` is the (constant) table of declared fields -/
def emit (decl : List FKey) (cur : String) (m : MKey) (oi : Nat × XIns) : Delta :=
  let off := oi.1
  let op := oi.2.op.val
  match act op oi.2.ref with
  | .classUse t =>
    let ti := lstripBr t
    if !startsL ti then {}
    else if ti = cur then {}
    else
      { extClasses := [ti],
        clsTo := [⟨cur, ti, op, m, off⟩], clsFrom := [⟨ti, cur, op, m, off⟩],
        constClsM := if XrefOps.isConstClass op then [(m, ti, off)] else [],
        constClsC := if XrefOps.isConstClass op then [(ti, m, off)] else [],
        newInstM := if XrefOps.isNewInstance op then [(m, ti, off)] else [],
        newInstC := if XrefOps.isNewInstance op then [(ti, m, off)] else [] }
  | .invoke c n d =>
    let ci := lstripBr c
    if !startsL ci then {}
    else
      { extClasses := [ci], extMethods := [(ci, n, d)],
        callTo := [(m, (ci, n, d), off)], callFrom := [((ci, n, d), m, off)],
        clsTo := [⟨cur, ci, op, (ci, n, d), off⟩], clsFrom := [⟨ci, cur, op, m, off⟩] }
  | .str s => { strings := [s], strFrom := [(s, m, off)] }
  | .field c n t =>
    if (c, n, t) ∈ decl then
      if XrefOps.isFieldRead op then
        { fas := [(cur, (c, n, t))], fRead := [((cur, (c, n, t)), m, off)], mRead := [(m, (c, n, t), off)] }
      else
        { fas := [(cur, (c, n, t))], fWrite := [((cur, (c, n, t)), m, off)], mWrite := [(m, (c, n, t), off)] }
    else {}
  | .skip => {}

/-- every registered method's class is registered (`__method_hashes` ⊆ `classes`) -/
def Inv (db : DB) : Prop := ∀ k : MKey, dget db.methods k ≠ none → dget db.classes k.1 ≠ none

theorem resolveMethod_eq (db : DB) (k : MKey) (h : Inv db) :
    resolveMethod db k =
      { db with classes := dsetdefault db.classes k.1 true, methods := dsetdefault db.methods k true } := by
  unfold resolveMethod
  cases hm : dget db.methods k with
  | some x =>
    have hc : dget db.classes k.1 ≠ none := h k (by rw [hm]; simp)
    rw [dsetdefault_of_present _ _ _ hc, dsetdefault_of_present _ _ _ (by rw [hm]; simp)]
  | none =>
    simp only
    cases hc : dget db.classes k.1 with
    | some y =>
      simp only
      rw [dsetdefault_of_present db.classes _ _ (by rw [hc]; simp), dset_of_absent _ _ _ hm]
    | none =>
      simp only
      rw [dset_of_absent _ _ _ hc, dset_of_absent _ _ _ hm]

theorem step_eq (cur : String) (m : MKey) (db : DB) (oi : Nat × XIns) (h : Inv db) :
    step cur m db oi = apply db (emit db.decl cur m oi) := by
  unfold step emit
  simp only
  cases hact : act oi.2.op.val oi.2.ref with
  | classUse t =>
    simp only
    by_cases h0 : (!startsL (lstripBr t)) = true
    · simp [h0, apply_empty]
    · by_cases h3 : lstripBr t = cur
      · simp [h0, h3, apply_empty]
      · cases db
        by_cases h1 : XrefOps.isConstClass oi.2.op.val = true <;>
          by_cases h2 : XrefOps.isNewInstance oi.2.op.val = true <;>
          simp [apply, h0, h1, h2, h3]
  | invoke c n d =>
    simp only
    by_cases h0 : (!startsL (lstripBr c)) = true
    · simp [h0, apply_empty]
    · rw [resolveMethod_eq db _ h]
      cases db
      simp [apply, h0]
  | str s => cases db; simp [apply]
  | field c n t =>
    simp only
    by_cases h0 : (c, n, t) ∈ db.decl
    · by_cases h1 : XrefOps.isFieldRead oi.2.op.val = true
      · cases db; simp_all [apply]
      · cases db; simp_all [apply]
    · simp [h0, apply_empty]
  | skip => simp [apply_empty]

end AgVerif.Xref
