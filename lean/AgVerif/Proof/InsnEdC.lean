/- C01/C02: encode-then-decode (`get_raw()` bytes of an in-range object decode back to the same object) for the classes
   22t 22s 22c 30t 32x 31i 31t.  GENERATED text (one lemma per class; tactic `ed_tac` of Proof/InsnEncDec.lean). -/
import AgVerif.Proof.InsnEncDec
set_option linter.unusedSimpArgs false
set_option linter.unusedVariables false
namespace AgVerif.Insn
open AgVerif.Gen

theorem ed_22t (op : Nat) (v0 v1 v2 : Int) (hop : op < 256) (h0 : 0 ≤ v0 ∧ v0 < 16) (h1 : 0 ≤ v1 ∧ v1 < 16) (h2 : -32768 ≤ v2 ∧ v2 < 32768) :
    EncDec ⟨.f22t, op, [v0, v1, v2]⟩ := by
  ed_tac

theorem ed_22s (op : Nat) (v0 v1 v2 : Int) (hop : op < 256) (h0 : 0 ≤ v0 ∧ v0 < 16) (h1 : 0 ≤ v1 ∧ v1 < 16) (h2 : -32768 ≤ v2 ∧ v2 < 32768) :
    EncDec ⟨.f22s, op, [v0, v1, v2]⟩ := by
  ed_tac

theorem ed_22c (op : Nat) (v0 v1 v2 : Int) (hop : op < 256) (h0 : 0 ≤ v0 ∧ v0 < 16) (h1 : 0 ≤ v1 ∧ v1 < 16) (h2 : 0 ≤ v2 ∧ v2 < 65536) :
    EncDec ⟨.f22c, op, [v0, v1, v2]⟩ := by
  ed_tac

theorem ed_30t (op : Nat) (v0 : Int) (hop : op < 256) (h0 : -2147483648 ≤ v0 ∧ v0 < 2147483648) :
    EncDec ⟨.f30t, op, [v0]⟩ := by
  ed_tac

theorem ed_32x (op : Nat) (v0 v1 : Int) (hop : op < 256) (h0 : 0 ≤ v0 ∧ v0 < 65536) (h1 : 0 ≤ v1 ∧ v1 < 65536) :
    EncDec ⟨.f32x, op, [v0, v1]⟩ := by
  ed_tac

theorem ed_31i (op : Nat) (v0 v1 : Int) (hop : op < 256) (h0 : 0 ≤ v0 ∧ v0 < 256) (h1 : -2147483648 ≤ v1 ∧ v1 < 2147483648) :
    EncDec ⟨.f31i, op, [v0, v1]⟩ := by
  ed_tac

theorem ed_31t (op : Nat) (v0 v1 : Int) (hop : op < 256) (h0 : 0 ≤ v0 ∧ v0 < 256) (h1 : -2147483648 ≤ v1 ∧ v1 < 2147483648) :
    EncDec ⟨.f31t, op, [v0, v1]⟩ := by
  ed_tac

end AgVerif.Insn
