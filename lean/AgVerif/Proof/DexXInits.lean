/-
The init values of static fields in the extended view (`initsOf`, Model/DexFileX.lean) in the
ordinary case: the class data item is written by exactly one set_static_fields call with no more
values than static fields — then field `i` carries value `i` of the array and the fields beyond
the array carry none (format document: AgVerif.Spec.EncodedValue.staticInit), by C04's
`bindStatics_spec`.
-/
import AgVerif.Model.DexFileX
import AgVerif.Proof.EncodedValue
namespace AgVerif.DexX
open AgVerif.DexFile AgVerif.EncodedValue

theorem initsOf_filter (log : List (Nat × List Value)) (off : Nat) : ∀ (init : List (Option Value)),
    log.foldl (fun fields p => if p.1 = off then bindStatics (some p.2) fields else fields) init =
    (log.filter (fun p => p.1 == off)).foldl (fun fields p => bindStatics (some p.2) fields) init := by
  induction log with
  | nil => intro init; rfl
  | cons p ps ih =>
    intro init
    by_cases h : p.1 = off
    · simp only [List.foldl_cons, h, ↓reduceIte, List.filter_cons, BEq.rfl, ih]
    · have hb : (p.1 == off) = false := by simpa using h
      simp only [List.foldl_cons, h, ↓reduceIte, List.filter_cons, hb, ih, Bool.false_eq_true]

/-- one set_static_fields call on this class data item, with at most as many values as static
    fields: static field `i` carries `values[i]`, the remaining fields carry no value -/
theorem inits_unshared (log : List (Nat × List Value)) (off n : Nat) (vs : List Value)
    (h : log.filter (fun p => p.1 == off) = [(off, vs)]) (hl : vs.length ≤ n) (i : Nat) :
    (initsOf log off n)[i]? = AgVerif.Spec.EncodedValue.staticInit vs n i ∧ (initsOf log off n).length = n := by
  unfold initsOf
  rw [initsOf_filter, h]
  exact bindStatics_spec vs n hl i

/-- no call at all: no static field carries a value -/
theorem inits_none (log : List (Nat × List Value)) (off n : Nat)
    (h : log.filter (fun p => p.1 == off) = []) : initsOf log off n = List.replicate n none := by
  unfold initsOf
  rw [initsOf_filter, h]
  rfl

end AgVerif.DexX
