/-
C28 deepening, step 1: the random-access readers of Model/Arsc.lean (on `Array Nat`) agree with the
list-level L1 decoders on the suffix of the file they read.  Core Lean only.
-/
import AgVerif.Proof.Arsc
namespace AgVerif.Arsc
open AgVerif.Gen.ArscConsts AgVerif.Spec.Arsc

theorem buf_get (b : Buf) (p i : Nat) : b[p + i]? = (b.toList.drop p)[i]? := by
  simp [List.getElem?_drop]

theorem rd8_eq (b : Buf) (p : Nat) : rd8 b p = (b.toList.drop p)[0]? := by
  have := buf_get b p 0
  simp [rd8]

theorem rd16_eq (b : Buf) (p : Nat) : rd16 b p = (le16 (b.toList.drop p)).map (·.1) := by
  unfold rd16
  rw [show b[p]? = (b.toList.drop p)[0]? from buf_get b p 0, buf_get b p 1]
  generalize b.toList.drop p = l
  match l with
  | [] => simp [le16]
  | [a] => simp [le16]
  | a :: c :: r => simp [le16]

theorem rd32_eq (b : Buf) (p : Nat) : rd32 b p = (le32 (b.toList.drop p)).map (·.1) := by
  unfold rd32
  rw [show b[p]? = (b.toList.drop p)[0]? from buf_get b p 0, buf_get b p 1, buf_get b p 2, buf_get b p 3]
  generalize b.toList.drop p = l
  match l with
  | [] => simp [le32]
  | [a] => simp [le32]
  | [a, c] => simp [le32]
  | [a, c, d] => simp [le32]
  | a :: c :: d :: e :: r => simp [le32]

theorem le16_rest {l : List Nat} {v : Nat} {r : List Nat} (h : le16 l = some (v, r)) : r = l.drop 2 := by
  match l, h with
  | a :: c :: r', h => simp [le16] at h; simp [h.2]

theorem le32_rest {l : List Nat} {v : Nat} {r : List Nat} (h : le32 l = some (v, r)) : r = l.drop 4 := by
  match l, h with
  | a :: c :: d :: e :: r', h => simp [le32] at h; simp [h.2]

theorem resValueL_rest {l : List Nat} {v : ResValue} {r : List Nat} (h : resValueL l = some (v, r)) :
    r = l.drop 8 := by
  match l, h with
  | a :: c :: d :: e :: r', h =>
    simp only [resValueL] at h
    cases h2 : le32 r' with
    | none => simp [h2] at h
    | some q =>
      obtain ⟨x, r2⟩ := q
      simp [h2] at h
      have := le32_rest h2
      simp [← h.2, this]

theorem le32_len {l : List Nat} {v : Nat} {r : List Nat} (h : le32 l = some (v, r)) : l.length = r.length + 4 := by
  match l, h with
  | a :: c :: d :: e :: r', h => simp [le32] at h; simp [h.2]

theorem le16_len {l : List Nat} {v : Nat} {r : List Nat} (h : le16 l = some (v, r)) : l.length = r.length + 2 := by
  match l, h with
  | a :: c :: r', h => simp [le16] at h; simp [h.2]

theorem resValueL_len {l : List Nat} {v : ResValue} {r : List Nat} (h : resValueL l = some (v, r)) :
    l.length = r.length + 8 := by
  match l, h with
  | a :: c :: d :: e :: r', h =>
    simp only [resValueL] at h
    cases h2 : le32 r' with
    | none => simp [h2] at h
    | some q =>
      obtain ⟨x, r2⟩ := q
      simp [h2] at h
      have := le32_len h2
      simp [← h.2, this]

theorem drop_add' (l : List Nat) (p k : Nat) : l.drop (p + k) = (l.drop p).drop k := by
  rw [List.drop_drop]

theorem readResValue_eq (b : Buf) (p : Nat) :
    readResValue b p = (resValueL (b.toList.drop p)).map (·.1) := by
  unfold readResValue
  rw [rd16_eq, rd8_eq, rd8_eq, rd32_eq, drop_add' _ p 2, drop_add' _ p 3, drop_add' _ p 4]
  generalize b.toList.drop p = l
  match l with
  | [] => simp [le16, resValueL]
  | [a] => simp [le16, resValueL]
  | [a, c] => simp [le16, resValueL]
  | [a, c, d] => simp [le16, resValueL]
  | a :: c :: d :: e :: r =>
    simp only [le16, resValueL, List.drop_succ_cons, List.drop_zero]
    cases le32 r <;> simp
theorem readMapItems_eq (b : Buf) (eoc : Nat) (n p : Nat) (hfit : n = 0 ∨ p + 12 * n ≤ eoc + 8) :
    readMapItems b eoc n p = (mapItemsL n (b.toList.drop p)).map (·.1) := by
  induction n generalizing p with
  | zero => simp [readMapItems, mapItemsL]
  | succ n ih =>
    have hc : ¬ (p + 4 > eoc) := by omega
    have ih' := ih (p + 12) (by omega)
    simp only [readMapItems, hc, if_false, mapItemsL]
    rw [rd32_eq, readResValue_eq, ih']
    cases h1 : le32 (b.toList.drop p) with
    | none => simp
    | some q1 =>
      obtain ⟨name, r⟩ := q1
      have hr := le32_rest h1
      rw [drop_add' _ p 4, ← hr]
      cases h2 : resValueL r with
      | none => simp [h2]
      | some q2 =>
        obtain ⟨v, r2⟩ := q2
        have hr2 := resValueL_rest h2
        have : b.toList.drop (p + 12) = r2 := by
          rw [hr2, hr]; simp only [List.drop_drop]
        rw [this]
        cases h3 : mapItemsL n r2 <;> simp [h2, h3]

theorem mapItemsL_length {n : Nat} {l : List Nat} {its : List (Nat × ResValue)} {r : List Nat}
    (h : mapItemsL n l = some (its, r)) : l.length = 12 * n + r.length ∧ its.length = n := by
  induction n generalizing l its r with
  | zero => simp [mapItemsL] at h; simp [h.1, h.2]
  | succ n ih =>
    simp only [mapItemsL] at h
    cases h1 : le32 l with
    | none => simp [h1] at h
    | some q1 =>
      obtain ⟨name, r1⟩ := q1
      simp only [h1] at h
      cases h2 : resValueL r1 with
      | none => simp [h2] at h
      | some q2 =>
        obtain ⟨v, r2⟩ := q2
        simp only [h2] at h
        cases h3 : mapItemsL n r2 with
        | none => simp [h3] at h
        | some q3 =>
          obtain ⟨its', r'⟩ := q3
          simp [h3] at h
          have := ih h3
          have l1 := le32_len h1
          have l2 := resValueL_len h2
          obtain ⟨rfl, rfl⟩ := h
          simp
          omega
/-- the chunk-end cut-off of `ARSCComplex` does not bite: a complex entry at `p` with `count`
    items lies inside the chunk (its last item starts at least 4 bytes before the end) -/
def ComplexFits (b : Buf) (p eoc : Nat) : Prop :=
  ∀ flags count, rd16 b (p + 2) = some flags → flags &&& flagComplex ≠ 0 →
    rd32 b (p + 12) = some count → count = 0 ∨ p + 16 + 12 * count ≤ eoc + 8

theorem drop_length_le (b : Buf) (p : Nat) : (b.toList.drop p).length ≤ b.size := by
  simp

theorem readEntry_eq (b : Buf) (p eoc : Nat) (hfit : ComplexFits b p eoc) :
    readEntry b p eoc = (decodeEntryL (b.toList.drop p)).map (·.1) := by
  unfold readEntry decodeEntryL
  rw [rd16_eq]
  cases h0 : le16 (b.toList.drop p) with
  | none => simp
  | some q0 =>
    obtain ⟨size, r0⟩ := q0
    have e0 : r0 = b.toList.drop (p + 2) := by rw [le16_rest h0, List.drop_drop]
    have hf1 : rd16 b (p + 2) = (le16 r0).map (·.1) := by rw [rd16_eq, e0]
    rw [hf1]
    simp only [Option.map_some, Option.bind_eq_bind, Option.bind_some]
    cases h1 : le16 r0 with
    | none => simp
    | some q1 =>
      obtain ⟨flags, r1⟩ := q1
      have e1 : r1 = b.toList.drop (p + 4) := by rw [le16_rest h1, e0, List.drop_drop]
      have hf2 : rd32 b (p + 4) = (le32 r1).map (·.1) := by rw [rd32_eq, e1]
      rw [hf2]
      simp only [Option.map_some, Option.bind_some]
      cases h2 : le32 r1 with
      | none => simp
      | some q2 =>
        obtain ⟨index, r2⟩ := q2
        have e2 : r2 = b.toList.drop (p + 8) := by rw [le32_rest h2, e1, List.drop_drop]
        simp only [Option.map_some, Option.bind_some, decodeBodyL]
        by_cases hc0 : flags &&& flagComplex = 0
        case neg =>
          have hc : flags &&& flagComplex ≠ 0 := hc0
          simp only [decodeComplexL]
          have hf3 : rd32 b (p + 8) = (le32 r2).map (·.1) := by rw [rd32_eq, e2]
          rw [hf3]
          cases h3 : le32 r2 with
          | none => simp [hc0]
          | some q3 =>
            obtain ⟨parent, r3⟩ := q3
            have e3 : r3 = b.toList.drop (p + 12) := by rw [le32_rest h3, e2, List.drop_drop]
            have hf4 : rd32 b (p + 12) = (le32 r3).map (·.1) := by rw [rd32_eq, e3]
            rw [hf4]
            simp only [Option.map_some, Option.bind_some]
            cases h4 : le32 r3 with
            | none => simp [hc0]
            | some q4 =>
              obtain ⟨count, r4⟩ := q4
              have e4 : r4 = b.toList.drop (p + 16) := by rw [le32_rest h4, e3, List.drop_drop]
              have hfit' := hfit flags count (by rw [hf1, h1]; rfl) hc (by rw [hf4, h4]; rfl)
              have hlen : r4.length ≤ b.size := by rw [e4]; exact drop_length_le b _
              have hpos : 2 ≤ b.size := by
                have := le16_len h0
                have := drop_length_le b p
                omega
              simp only [Option.map_some, Option.bind_some]
              by_cases hcb : count ≤ b.size
              · rw [Nat.min_eq_left hcb, readMapItems_eq b eoc count (p + 16) hfit', ← e4]
                cases mapItemsL count r4 <;> simp [hc0]
              · have hmin : min count b.size = b.size := Nat.min_eq_right (by omega)
                rw [hmin, readMapItems_eq b eoc b.size (p + 16) (by omega), ← e4]
                have n1 : mapItemsL b.size r4 = none := by
                  cases hm : mapItemsL b.size r4 with
                  | none => rfl
                  | some q => obtain ⟨its, r⟩ := q; have := (mapItemsL_length hm).1; omega
                have n2 : mapItemsL count r4 = none := by
                  cases hm : mapItemsL count r4 with
                  | none => rfl
                  | some q => obtain ⟨its, r⟩ := q; have := (mapItemsL_length hm).1; omega
                simp [n1, n2, hc0]
        case pos =>
          simp only [hc0]
          by_cases hk : flags &&& flagCompact = 0
          · simp only [hk]
            rw [readResValue_eq, ← e2]
            cases resValueL r2 <;> simp
          · simp [hk]

end AgVerif.Arsc
