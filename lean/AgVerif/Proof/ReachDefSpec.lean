/-
C20 helper lemmas, part 4: the model's tables (`nodeDefs`, `allDefs`, `DB`, `killed`, `sucsA`) say what the
specification's predicates say; statement numbers are unique; the least solution is the path-based set.
Core Lean only.
-/
import AgVerif.Proof.ReachDefTerm
namespace AgVerif.ReachDef
open AgVerif.Spec.ReachDef

theorem mem_number {ss : List Stmt} {k : Nat} {l : Int} {s : Stmt} :
    (l, s) ∈ number k ss ↔ ∃ j, ss[j]? = some s ∧ l = ((k + j : Nat) : Int) := by
  induction ss generalizing k with
  | nil => simp [number]
  | cons a ss ih =>
    simp only [number, List.mem_cons, Prod.mk.injEq, ih]
    constructor
    · rintro (⟨rfl, rfl⟩ | ⟨j, hj, rfl⟩)
      · exact ⟨0, by simp, by simp⟩
      · exact ⟨j + 1, by simpa using hj, by omega⟩
    · rintro ⟨j, hj, rfl⟩
      cases j with
      | zero => left; simp at hj; exact ⟨by simp, hj.symm⟩
      | succ j => right; exact ⟨j, by simpa using hj, by omega⟩

theorem mem_locIns {g : Prog} {v : Nat} {l : Int} {s : Stmt} : (l, s) ∈ locIns g v ↔ StmtAt g v l s := by
  unfold locIns stmts StmtAt
  rw [mem_number]
  cases h : g.nodes[v]? with
  | none => simp
  | some ss =>
    simp only [Option.getD_some, Option.some.injEq]
    constructor
    · rintro ⟨j, hj, hl⟩; exact ⟨ss, j, rfl, hj, hl⟩
    · rintro ⟨ss', j, rfl, hj, hl⟩; exact ⟨j, hj, hl⟩

theorem mem_nodeDefs {g : Prog} {v : Nat} {x : Reg} {l : Int} : (x, l) ∈ nodeDefs g v ↔ DefinesAt g v l x := by
  unfold nodeDefs DefinesAt
  simp only [List.mem_filterMap, Option.map_eq_some_iff, Prod.mk.injEq]
  constructor
  · rintro ⟨⟨l', s⟩, hm, y, hy, rfl, rfl⟩
    exact ⟨s, mem_locIns.1 hm, hy⟩
  · rintro ⟨s, hs, hl⟩
    exact ⟨(l, s), mem_locIns.2 hs, x, hl, rfl, rfl⟩

theorem mem_numberParams {ps : List Reg} {k : Nat} {x : Reg} {d : Int} :
    (x, d) ∈ numberParams k ps ↔ ∃ j, ps[j]? = some x ∧ d = -((k + j : Nat) : Int) := by
  induction ps generalizing k with
  | nil => simp [numberParams]
  | cons a ps ih =>
    simp only [numberParams, List.mem_cons, Prod.mk.injEq, ih]
    constructor
    · rintro (⟨rfl, rfl⟩ | ⟨j, hj, rfl⟩)
      · exact ⟨0, by simp, by simp⟩
      · exact ⟨j + 1, by simpa using hj, by omega⟩
    · rintro ⟨j, hj, rfl⟩
      cases j with
      | zero => left; simp at hj; exact ⟨hj.symm, by simp⟩
      | succ j => right; exact ⟨j, by simpa using hj, by omega⟩

theorem mem_paramDefs {g : Prog} {x : Reg} {d : Int} : (x, d) ∈ paramDefs g ↔ ParamDef g d x := by
  unfold paramDefs ParamDef
  rw [mem_numberParams]
  constructor
  · rintro ⟨j, hj, rfl⟩; exact ⟨j, hj, by omega⟩
  · rintro ⟨j, hj, rfl⟩; exact ⟨j, hj, by omega⟩

theorem definesAt_lt {g : Prog} {v : Nat} {l : Int} {x : Reg} (h : DefinesAt g v l x) : v < g.nodes.length := by
  obtain ⟨s, ⟨ss, k, hss, _, _⟩, _⟩ := h
  exact (List.getElem?_eq_some_iff.1 hss).1

theorem definesAt_nonneg {g : Prog} {v : Nat} {l : Int} {x : Reg} (h : DefinesAt g v l x) : 0 ≤ l := by
  obtain ⟨s, ⟨ss, k, _, _, hl⟩, _⟩ := h
  omega

theorem nOrig_le_nA (g : Prog) : nOrig g ≤ nA g := by unfold nOrig nA; omega

theorem mem_allDefs {g : Prog} {x : Reg} {d : Int} :
    (x, d) ∈ allDefs g ↔ ParamDef g d x ∨ ∃ v, DefinesAt g v d x := by
  unfold allDefs
  simp only [List.mem_append, mem_paramDefs, List.mem_flatMap, List.mem_range, mem_nodeDefs]
  constructor
  · rintro (h | ⟨v, _, h⟩)
    · exact Or.inl h
    · exact Or.inr ⟨v, h⟩
  · rintro (h | ⟨v, h⟩)
    · exact Or.inl h
    · exact Or.inr ⟨v, Nat.lt_of_lt_of_le (definesAt_lt h) (nOrig_le_nA g), h⟩

/-! ### statement numbers are unique -/

def startL (nodes : List (List Stmt)) (v : Nat) : Nat := ((nodes.take v).map List.length).sum

theorem start_eq (g : Prog) (v : Nat) : start g v = startL g.nodes v := rfl

theorem startL_gap {nodes : List (List Stmt)} {v v' : Nat} {ss : List Stmt} (hlt : v < v')
    (h : nodes[v]? = some ss) : startL nodes v + ss.length ≤ startL nodes v' := by
  induction nodes generalizing v v' with
  | nil => simp at h
  | cons a t ih =>
    cases v' with
    | zero => omega
    | succ w =>
      cases v with
      | zero =>
        simp at h; subst h
        simp [startL]
      | succ u =>
        have := ih (v := u) (v' := w) (by omega) (by simpa using h)
        simp only [startL, List.take_succ_cons, List.map_cons, List.sum_cons] at this ⊢
        omega

theorem definesAt_unique {g : Prog} {v v' : Nat} {d : Int} {x y : Reg}
    (h1 : DefinesAt g v d x) (h2 : DefinesAt g v' d y) : x = y := by
  obtain ⟨s, ⟨ss, k, hss, hk, hd⟩, hx⟩ := h1
  obtain ⟨s', ⟨ss', k', hss', hk', hd'⟩, hy⟩ := h2
  have hkl : k < ss.length := (List.getElem?_eq_some_iff.1 hk).1
  have hkl' : k' < ss'.length := (List.getElem?_eq_some_iff.1 hk').1
  rw [start_eq] at hd hd'
  rcases Nat.lt_trichotomy v v' with hlt | heq | hgt
  · have := startL_gap hlt hss; omega
  · subst heq
    rw [hss] at hss'; simp only [Option.some.injEq] at hss'; subst hss'
    have : k = k' := by omega
    subst this
    rw [hk] at hk'; simp only [Option.some.injEq] at hk'; subst hk'
    rw [hx] at hy; simpa using hy
  · have := startL_gap hgt hss'; omega

theorem def_unique {g : Prog} {d : Int} {x y : Reg} (h1 : (x, d) ∈ allDefs g) (h2 : (y, d) ∈ allDefs g) :
    x = y := by
  rcases mem_allDefs.1 h1 with ⟨k, hk, hd⟩ | ⟨v, hv⟩ <;> rcases mem_allDefs.1 h2 with ⟨k', hk', hd'⟩ | ⟨v', hv'⟩
  · have : k = k' := by omega
    subst this; rw [hk] at hk'; simpa using hk'
  · have := definesAt_nonneg hv'; omega
  · have := definesAt_nonneg hv; omega
  · exact definesAt_unique hv hv'

/-! ### kill and gen sets -/

theorem mem_regsOfNode {g : Prog} {v : Nat} {x : Reg} : x ∈ regsOfNode g v ↔ ∃ l, DefinesAt g v l x := by
  unfold regsOfNode
  simp only [List.mem_map]
  constructor
  · rintro ⟨⟨y, l⟩, hm, rfl⟩; exact ⟨l, mem_nodeDefs.1 hm⟩
  · rintro ⟨l, h⟩; exact ⟨(x, l), mem_nodeDefs.2 h, rfl⟩

theorem mem_killed {g : Prog} {v : Nat} {d : Int} :
    d ∈ killed g v ↔ ∃ x, (∃ l, DefinesAt g v l x) ∧ (x, d) ∈ allDefs g := by
  unfold killed
  simp only [List.mem_flatMap, mem_regsOfNode, mem_defToLoc]

theorem not_killed_of_clear {g : Prog} {w : Nat} {x : Reg} {d : Int} (hd : (x, d) ∈ allDefs g)
    (hc : Clear g w x) : d ∉ killed g w := by
  intro hk
  obtain ⟨y, ⟨l, hl⟩, hy⟩ := mem_killed.1 hk
  have := def_unique hd hy
  subst this
  exact hc l hl

theorem clear_of_not_killed {g : Prog} {w : Nat} {x : Reg} {d : Int} (hd : (x, d) ∈ allDefs g)
    (hk : d ∉ killed g w) : Clear g w x := by
  intro l hl
  exact hk (mem_killed.2 ⟨x, ⟨l, hl⟩, hd⟩)

theorem mem_DB_iff {g : Prog} {v : Nat} {d : Int} : d ∈ DB g v ↔ ∃ x, LastDefIn g v x d := by
  rw [mem_DB]
  constructor
  · rintro ⟨x, _, hm⟩
    obtain ⟨h1, h2⟩ := maxL?_spec hm
    refine ⟨x, mem_nodeDefs.1 (mem_defsOfNode.1 h1), ?_⟩
    intro l hl hdef
    have := h2 l (mem_defsOfNode.2 (mem_nodeDefs.2 hdef))
    omega
  · rintro ⟨x, hdef, hlast⟩
    have hmem : d ∈ defsOfNode g v x := mem_defsOfNode.2 (mem_nodeDefs.2 hdef)
    have hne : defsOfNode g v x ≠ [] := by intro h; rw [h] at hmem; simp at hmem
    obtain ⟨d', hd'⟩ := maxL?_isSome hne
    obtain ⟨h1, h2⟩ := maxL?_spec hd'
    have hle := h2 d hmem
    have hdef' := mem_nodeDefs.1 (mem_defsOfNode.1 h1)
    have : d = d' := by
      by_cases h : d < d'
      · exact absurd hdef' (hlast d' h)
      · omega
    subst this
    exact ⟨x, mem_regsOfNode.2 ⟨d, hdef⟩, hd'⟩

/-! ### edges -/

theorem edge_sucs {g : Prog} {a b : Nat} (h : Edge g a b) : b ∈ sucsA g a := by
  unfold sucsA
  rcases h with ⟨l, hl, hb⟩ | ⟨l, hl, hb⟩
  · rw [hl]; simp [hb]
  · rw [hl]; simp [hb]

theorem wf_parts {g : Prog} (hwf : WF g = true) :
    g.edges.length = g.nodes.length ∧ g.cedges.length = g.nodes.length ∧ g.entry < g.nodes.length ∧
    (∀ x, g.exit = some x → x < g.nodes.length) := by
  unfold WF at hwf
  simp only [Bool.and_eq_true, beq_iff_eq, decide_eq_true_eq] at hwf
  obtain ⟨⟨⟨⟨⟨h1, h2⟩, _⟩, _⟩, h5⟩, h6⟩ := hwf
  refine ⟨h1, h2, h5, ?_⟩
  intro x hx; rw [hx] at h6; simpa using h6

theorem edge_lt {g : Prog} (hwf : WF g = true) {a b : Nat} (h : Edge g a b) : a < nOrig g := by
  obtain ⟨h1, h2, _, _⟩ := wf_parts hwf
  unfold nOrig
  rcases h with ⟨l, hl, _⟩ | ⟨l, hl, _⟩
  · have := (List.getElem?_eq_some_iff.1 hl).1; omega
  · have := (List.getElem?_eq_some_iff.1 hl).1; omega

theorem sucs_edge {g : Prog} {p s : Nat} (hs : s ∈ sucsA g p) (hlt : s < nOrig g) : Edge g p s := by
  unfold sucsA at hs
  simp only [List.mem_append] at hs
  rcases hs with (hs | hs) | hs
  · cases h : g.edges[p]? with
    | none => rw [h] at hs; simp at hs
    | some l => rw [h] at hs; exact Or.inl ⟨l, h, by simpa using hs⟩
  · split at hs
    · simp only [List.mem_singleton] at hs; omega
    · simp at hs
  · cases h : g.cedges[p]? with
    | none => rw [h] at hs; simp at hs
    | some l => rw [h] at hs; exact Or.inr ⟨l, h, by simpa using hs⟩

theorem sucs_dummy_exit {g : Prog} (hwf : WF g = true) : sucsA g (nOrig g) = [] := by
  obtain ⟨h1, h2, _, h4⟩ := wf_parts hwf
  unfold sucsA nOrig
  have e1 : g.edges[g.nodes.length]? = none := List.getElem?_eq_none (by omega)
  have e2 : g.cedges[g.nodes.length]? = none := List.getElem?_eq_none (by omega)
  have e3 : ¬ g.exit = some g.nodes.length := by intro h; have := h4 _ h; omega
  simp [e1, e2, e3]

theorem lt_nOrig_of_sucs {g : Prog} (hwf : WF g = true) {p v : Nat} (hp : p < nA g) (hv : v ∈ sucsA g p) :
    p < nOrig g := by
  rcases Nat.lt_or_ge p (nOrig g) with h | h
  · exact h
  · have : p = nOrig g := by have := nOrig_le_nA g; unfold nA nOrig at *; split at hp <;> omega
    rw [this, sucs_dummy_exit hwf] at hv; simp at hv

/-! ### walks -/

theorem walk_snoc {g : Prog} {a p v : Nat} {mids : List Nat} (hw : Walk g a mids p) (he : Edge g p v) :
    Walk g a (mids ++ [p]) v := by
  induction mids generalizing a with
  | nil => exact ⟨hw, he⟩
  | cons w ws ih => exact ⟨hw.1, ih hw.2⟩

theorem reachesEntry_snoc {g : Prog} {d : Int} {x : Reg} {p v : Nat} (hr : ReachesEntry g d x p)
    (hc : Clear g p x) (he : Edge g p v) : ReachesEntry g d x v := by
  obtain ⟨mids, hcl, h⟩ := hr
  refine ⟨mids ++ [p], ?_, ?_⟩
  · intro w hw
    rcases List.mem_append.1 hw with h | h
    · exact hcl w h
    · simp only [List.mem_singleton] at h; subst h; exact hc
  · rcases h with ⟨m, hm, hw⟩ | ⟨hp, hw⟩
    · exact Or.inl ⟨m, hm, walk_snoc hw he⟩
    · right
      refine ⟨hp, ?_⟩
      cases mids with
      | nil => exact ⟨hw, he⟩
      | cons w ws => exact ⟨hw.1, walk_snoc hw.2 he⟩

/-! ### the solution at the fixpoint is the path-based set -/

/-- the final state satisfies the equations (all nodes, as membership) -/
structure Solved (g : Prog) (st : St) : Prop where
  inR : ∀ v, v < nA g → ∀ d, d ∈ inSet g st.A v → d ∈ st.R v
  outA : ∀ v, v < nA g → ∀ d, d ∈ outSet g v (st.R v) → d ∈ st.A v

theorem walk_sound {g : Prog} (hwf : WF g = true) {st : St} (hS : Solved g st) {d : Int} {x : Reg}
    (hd : (x, d) ∈ allDefs g) {v : Nat} :
    ∀ (mids : List Nat) (a : Nat), a < nA g → d ∈ st.A a → Walk g a mids v → (∀ w, w ∈ mids → Clear g w x) →
      d ∈ st.R v := by
  intro mids
  induction mids with
  | nil =>
    intro a ha hA hw _
    have hs := edge_sucs hw
    exact hS.inR v (wf_sucs_lt hwf hs) d (mem_inSet.2 (Or.inr ⟨a, ha, hs, hA⟩))
  | cons w ws ih =>
    intro a ha hA hw hcl
    have hs := edge_sucs hw.1
    have hwlt := wf_sucs_lt hwf hs
    have hR : d ∈ st.R w := hS.inR w hwlt d (mem_inSet.2 (Or.inr ⟨a, ha, hs, hA⟩))
    have hAw : d ∈ st.A w := hS.outA w hwlt d
      (mem_outSet.2 (Or.inl ⟨hR, not_killed_of_clear hd (hcl w (List.mem_cons_self ..))⟩))
    exact ih w hwlt hAw hw.2 (fun u hu => hcl u (List.mem_cons_of_mem _ hu))

theorem reach_sound {g : Prog} (hwf : WF g = true) {st : St} (hS : Solved g st) {d : Int} {x : Reg} {v : Nat}
    (hr : ReachesEntry g d x v) : d ∈ st.R v := by
  obtain ⟨_, _, hentry, _⟩ := wf_parts hwf
  have hnn := nOrig_le_nA g
  obtain ⟨mids, hcl, h⟩ := hr
  rcases h with ⟨m, hm, hw⟩ | ⟨hp, hw⟩
  · have hmlt : m < nA g := Nat.lt_of_lt_of_le (definesAt_lt hm.1) hnn
    have hd : (x, d) ∈ allDefs g := mem_allDefs.2 (Or.inr ⟨m, hm.1⟩)
    have hA : d ∈ st.A m := hS.outA m hmlt d (mem_outSet.2 (Or.inr (mem_DB_iff.2 ⟨x, hm⟩)))
    exact walk_sound hwf hS hd mids m hmlt hA hw hcl
  · have hd : (x, d) ∈ allDefs g := mem_allDefs.2 (Or.inl hp)
    have helt : g.entry < nA g := Nat.lt_of_lt_of_le hentry hnn
    have hinit : d ∈ initOf g g.entry := by
      unfold initOf; simp only [if_true]
      exact List.mem_map.2 ⟨(x, d), mem_paramDefs.2 hp, rfl⟩
    have hRe : d ∈ st.R g.entry := hS.inR g.entry helt d (mem_inSet.2 (Or.inl hinit))
    cases mids with
    | nil => rw [show v = g.entry from hw]; exact hRe
    | cons w ws =>
      obtain ⟨hwe, hwalk⟩ := hw
      subst hwe
      have hAe : d ∈ st.A g.entry := hS.outA g.entry helt d
        (mem_outSet.2 (Or.inl ⟨hRe, not_killed_of_clear hd (hcl _ (List.mem_cons_self ..))⟩))
      exact walk_sound hwf hS hd ws g.entry helt hAe hwalk (fun u hu => hcl u (List.mem_cons_of_mem _ hu))

/-- the path-based sets, as a pre-solution of the equations -/
def SRp (g : Prog) (v : Nat) (d : Int) : Prop :=
  v < nOrig g → ∃ x, (x, d) ∈ allDefs g ∧ ReachesEntry g d x v
def SAp (g : Prog) (v : Nat) (d : Int) : Prop :=
  v < nOrig g → ∃ x, (x, d) ∈ allDefs g ∧ (LastDefIn g v x d ∨ (ReachesEntry g d x v ∧ Clear g v x))

theorem paths_presol {g : Prog} (hwf : WF g = true) : PreSol g (SRp g) (SAp g) := by
  refine ⟨?_, ?_, ?_, ?_⟩
  · intro v d hd _
    unfold initOf at hd
    split at hd
    · rename_i hv
      obtain ⟨⟨x, d'⟩, hp, rfl⟩ := List.mem_map.1 hd
      have hpd := mem_paramDefs.1 hp
      exact ⟨x, mem_allDefs.2 (Or.inl hpd), [], by simp, Or.inr ⟨hpd, hv⟩⟩
    · simp at hd
  · intro p v d hp hv hSA hvlt
    have hplt := lt_nOrig_of_sucs hwf hp hv
    have he := sucs_edge hv hvlt
    obtain ⟨x, hx, h⟩ := hSA hplt
    refine ⟨x, hx, ?_⟩
    rcases h with h | ⟨hr, hc⟩
    · exact ⟨[], by simp, Or.inl ⟨p, h, he⟩⟩
    · exact reachesEntry_snoc hr hc he
  · intro v d hSR hk hvlt
    obtain ⟨x, hx, hr⟩ := hSR hvlt
    exact ⟨x, hx, Or.inr ⟨hr, clear_of_not_killed hx hk⟩⟩
  · intro v d hd _
    obtain ⟨x, hl⟩ := mem_DB_iff.1 hd
    exact ⟨x, mem_allDefs.2 (Or.inr ⟨v, hl.1⟩), Or.inl hl⟩

end AgVerif.ReachDef
