/-
C28, audit follow-up: the whole state `_analyse` builds (`values`, `resource_keys`), as a fold of
total steps over the entries in file order, and what the listings `get_locales`, `get_types`,
`get_res_id_by_key`, `get_string` answer on it.  Core Lean only.
-/
import AgVerif.Proof.ArscResolve
namespace AgVerif.Arsc
open AgVerif.Gen.ArscConsts AgVerif.Spec.Arsc

/-! ### total steps -/

def knOf (pk : Package) (a : Ate) : List Nat := (keyName pk a).getD []
def kdOf (ps : Parsed) (a : Ate) : List Nat := (keyData ps a).getD []
def tnOf (pk : Package) (tc : TypeChunk) : List Nat := (typeName pk tc.typeId).getD []
def locOf (cfg : ConfigWords) : List Nat := languageAndRegion (cfg.getD 1 0)

/-- `c_value[type]` created on first use; `c_value["string"].append([name, value])` -/
def lvStep (tn kn kd : List Nat) (lv : LocaleValues) : LocaleValues :=
  let lv := addType lv tn
  if tn == strBytes "string" then { lv with strings := lv.strings ++ [(kn, kd)] } else lv

abbrev PV := List (List Nat × LocaleValues)

def pvAte (loc tn kn kd : List Nat) (pv : PV) : PV :=
  dictSet pv loc (lvStep tn kn kd ((dictGet pv loc).getD emptyLocale))

def pvEnsure (loc : List Nat) (pv : PV) : PV :=
  if (dictGet pv loc).isSome then pv else pv ++ [(loc, emptyLocale)]

def ateStep (ps : Parsed) (pk : Package) (tn loc : List Nat) (cfg : ConfigWords) (st : Analysed) (a : Ate) :
    Analysed :=
  ⟨dictSet st.values pk.name (pvAte loc tn (knOf pk a) (kdOf ps a) ((dictGet st.values pk.name).getD [])),
   rvStep st.resourceValues a.resId cfg a,
   dictSet st.resourceKeys (pk.name, tn, knOf pk a) a.resId⟩

theorem analyseAte_full {ps : Parsed} {pk : Package} {tn loc : List Nat} {cfg : ConfigWords} {st : Analysed}
    {a : Ate} (h : AteOk ps pk tn a) :
    analyseAte ps pk tn loc cfg st a = some (ateStep ps pk tn loc cfg st a) := by
  obtain ⟨h1, h2⟩ := h
  obtain ⟨kn, hkn⟩ := Option.isSome_iff_exists.mp h1
  unfold analyseAte ateStep pvAte lvStep knOf kdOf rvStep
  simp only [hkn, Option.bind_eq_bind, Option.bind_some, Option.pure_def, Option.getD_some]
  by_cases hs : tn == strBytes "string"
  · rw [if_pos hs] at h2
    obtain ⟨kd, hkd⟩ := Option.isSome_iff_exists.mp h2
    simp only [hs, if_true, hkd, Option.bind_some, Option.getD_some]
    try rfl
  · rw [if_neg hs] at h2
    have h2' : analyseRaises tn a = false := h2
    simp only [hs, Bool.false_eq_true, if_false, h2']
    try rfl

theorem analyseAtes_full {ps : Parsed} {pk : Package} {tn loc : List Nat} {cfg : ConfigWords}
    (ates : List Ate) (st : Analysed) (h : ∀ a ∈ ates, AteOk ps pk tn a) :
    analyseAtes ps pk tn loc cfg st ates = some (ates.foldl (ateStep ps pk tn loc cfg) st) := by
  induction ates generalizing st with
  | nil => rfl
  | cons a r ih =>
    simp only [analyseAtes, analyseAte_full (h a (by simp)), List.foldl_cons]
    exact ih _ (fun x hx => h x (by simp [hx]))

def chunkStep (ps : Parsed) (pk : Package) (st : Analysed) (tc : TypeChunk) : Analysed :=
  tc.ates.foldl (ateStep ps pk (tnOf pk tc) (locOf tc.config) tc.config)
    { st with values := dictSet st.values pk.name (pvEnsure (locOf tc.config) ((dictGet st.values pk.name).getD [])) }

theorem analyseChunk_full {ps : Parsed} {pk : Package} {tc : TypeChunk} (st : Analysed) (h : ChunkOk ps pk tc) :
    analyseChunk ps pk st tc = some (chunkStep ps pk st tc) := by
  unfold analyseChunk chunkStep pvEnsure locOf
  rcases h with h | ⟨tn, htn, hall⟩
  · simp only [h, List.isEmpty_nil, if_true, Option.pure_def, Option.bind_eq_bind, List.foldl_nil]
  · by_cases he : tc.ates.isEmpty
    · have : tc.ates = [] := List.isEmpty_iff.mp he
      simp only [this, List.isEmpty_nil, if_true, Option.pure_def, Option.bind_eq_bind, List.foldl_nil]
    · simp only [he, Bool.false_eq_true, if_false, htn, Option.bind_eq_bind, Option.bind_some, tnOf,
        Option.getD_some]
      exact analyseAtes_full tc.ates _ hall

def pkgStart (st : Analysed) (pk : Package) : Analysed :=
  if (dictGet st.values pk.name).isSome then st else { st with values := st.values ++ [(pk.name, [])] }

def pkgStep (ps : Parsed) (st : Analysed) (pk : Package) : Analysed :=
  pk.chunks.foldl (chunkStep ps pk) (pkgStart st pk)

theorem analyseChunks_full {ps : Parsed} {pk : Package} (chunks : List TypeChunk) (st : Analysed)
    (h : ∀ tc ∈ chunks, ChunkOk ps pk tc) :
    analyseChunks ps pk st chunks = some (chunks.foldl (chunkStep ps pk) st) := by
  induction chunks generalizing st with
  | nil => rfl
  | cons tc r ih =>
    simp only [analyseChunks, analyseChunk_full st (h tc (by simp)), List.foldl_cons]
    exact ih _ (fun x hx => h x (by simp [hx]))

theorem analysePackages_full {ps : Parsed} (pkgs : List Package) (st : Analysed)
    (h : ∀ pk ∈ pkgs, ∀ tc ∈ pk.chunks, ChunkOk ps pk tc) :
    analysePackages ps st pkgs = some (pkgs.foldl (pkgStep ps) st) := by
  induction pkgs generalizing st with
  | nil => rfl
  | cons pk r ih =>
    have := analyseChunks_full (ps := ps) (pk := pk) pk.chunks (pkgStart st pk) (h pk (by simp))
    unfold pkgStart at this
    simp only [analysePackages, this, List.foldl_cons]
    exact ih _ (fun x hx => h x (by simp [hx]))

theorem analyse_full (ps : Parsed) (hn : (ps.packages.map (·.name)).Nodup)
    (h : ∀ pk ∈ ps.packages, ∀ tc ∈ pk.chunks, ChunkOk ps pk tc) :
    analyse ps = some (ps.packages.foldl (pkgStep ps) ⟨[], [], []⟩) := by
  unfold analyse
  simp only [ordered_eq ps.packages hn]
  exact analysePackages_full ps.packages _ h

/-! ### projections of the fold -/

theorem foldl_proj {σ τ α : Type} (step : σ → α → σ) (g : τ → α → τ) (proj : σ → τ)
    (h : ∀ s x, proj (step s x) = g (proj s) x) (xs : List α) (s : σ) :
    proj (xs.foldl step s) = xs.foldl g (proj s) := by
  induction xs generalizing s with
  | nil => rfl
  | cons x r ih => simp only [List.foldl_cons, ih, h]

abbrev RK := List ((List Nat × List Nat × List Nat) × Nat)

def rkAtes (pk : Package) (tn : List Nat) (rk : RK) (ates : List Ate) : RK :=
  ates.foldl (fun rk a => dictSet rk (pk.name, tn, knOf pk a) a.resId) rk

theorem rk_chunkStep (ps : Parsed) (pk : Package) (st : Analysed) (tc : TypeChunk) :
    (chunkStep ps pk st tc).resourceKeys = rkAtes pk (tnOf pk tc) st.resourceKeys tc.ates := by
  unfold chunkStep rkAtes
  exact foldl_proj (ateStep ps pk (tnOf pk tc) (locOf tc.config) tc.config)
    (fun rk a => dictSet rk (pk.name, tnOf pk tc, knOf pk a) a.resId) (fun s : Analysed => s.resourceKeys)
    (fun _ _ => rfl) tc.ates _

theorem rk_pkgStep (ps : Parsed) (st : Analysed) (pk : Package) :
    (pkgStep ps st pk).resourceKeys
      = pk.chunks.foldl (fun rk tc => rkAtes pk (tnOf pk tc) rk tc.ates) st.resourceKeys := by
  unfold pkgStep
  rw [foldl_proj (chunkStep ps pk) (fun rk tc => rkAtes pk (tnOf pk tc) rk tc.ates)
    (fun s : Analysed => s.resourceKeys) (rk_chunkStep ps pk) pk.chunks (pkgStart st pk)]
  congr 1
  unfold pkgStart
  split <;> rfl

/-- every `resource_keys[package][type][key] = id` assignment, in file order -/
def keyPairs (ps : Parsed) : List ((List Nat × List Nat × List Nat) × Nat) :=
  ps.packages.flatMap fun pk => pk.chunks.flatMap fun tc =>
    tc.ates.map fun a => ((pk.name, tnOf pk tc, knOf pk a), a.resId)

theorem rk_fold (ps : Parsed) (pkgs : List Package) (st : Analysed) :
    (pkgs.foldl (pkgStep ps) st).resourceKeys
      = (pkgs.flatMap fun pk => pk.chunks.flatMap fun tc =>
          tc.ates.map fun a => ((pk.name, tnOf pk tc, knOf pk a), a.resId)).foldl
          (fun rk x => dictSet rk x.1 x.2) st.resourceKeys := by
  rw [foldl_proj (pkgStep ps) (fun rk pk => pk.chunks.foldl (fun rk tc => rkAtes pk (tnOf pk tc) rk tc.ates) rk)
    (fun s : Analysed => s.resourceKeys) (rk_pkgStep ps) pkgs st]
  simp only [List.foldl_flatMap, List.foldl_map, rkAtes]

/-- the value of the last pair with key `k` -/
def lastVal {α β : Type} [BEq α] : List (α × β) → α → Option β
  | [], _ => none
  | x :: r, k =>
    match lastVal r k with
    | some v => some v
    | none => if x.1 == k then some x.2 else none

theorem dictGet_setFold {α β : Type} [BEq α] [LawfulBEq α] (xs : List (α × β)) (d : List (α × β)) (k : α) :
    dictGet (xs.foldl (fun d x => dictSet d x.1 x.2) d) k
      = match lastVal xs k with
        | some v => some v
        | none => dictGet d k := by
  induction xs generalizing d with
  | nil => rfl
  | cons x r ih =>
    simp only [List.foldl_cons, ih, lastVal]
    cases lastVal r k with
    | some v => rfl
    | none =>
      by_cases hx : x.1 == k
      · have : x.1 = k := by simpa using hx
        simp only [hx, if_true]
        rw [← this, dictGet_dictSet]
      · simp only [hx, Bool.false_eq_true, if_false]
        exact dictGet_dictSet_ne _ _ _ _ (by simpa using hx)

/-! ### insertion-ordered dictionaries with a default: update and touch -/

def addKey {α : Type} [BEq α] (ks : List α) (k : α) : List α := if ks.contains k then ks else ks ++ [k]

/-- the distinct elements of `xs` in order of first appearance, after `ks` -/
def firstsFrom {α : Type} [BEq α] (ks : List α) (xs : List α) : List α := xs.foldl addKey ks

theorem any_key_eq_contains {α β : Type} [BEq α] [LawfulBEq α] (d : List (α × β)) (k : α) :
    d.any (·.1 == k) = (d.map (·.1)).contains k := by
  induction d with
  | nil => rfl
  | cons p r ih =>
    have hc : (p.1 == k) = (k == p.1) := by
      cases h : p.1 == k with
      | true => have := eq_of_beq h; subst this; simp
      | false =>
        cases h2 : k == p.1 with
        | false => rfl
        | true => have := eq_of_beq h2; subst this; simp at h
    simp only [List.any_cons, List.map_cons, List.contains_cons, ih, hc]

theorem keys_dictSet {α β : Type} [BEq α] [LawfulBEq α] (d : List (α × β)) (k : α) (v : β) :
    (dictSet d k v).map (·.1) = addKey (d.map (·.1)) k := by
  rw [dictSet_keys, any_key_eq_contains]; rfl

theorem isSome_eq_contains {α β : Type} [BEq α] [LawfulBEq α] (d : List (α × β)) (k : α) :
    (dictGet d k).isSome = (d.map (·.1)).contains k := by
  rw [← any_key_eq_contains]
  cases h : dictGet d k with
  | none => rw [(dictGet_eq_none_iff d k).mp h]; rfl
  | some v =>
    cases h2 : d.any (·.1 == k) with
    | true => rfl
    | false => rw [(dictGet_eq_none_iff d k).mpr h2] at h; cases h

theorem addKey_idem {α : Type} [BEq α] [LawfulBEq α] (ks : List α) (k : α) : addKey (addKey ks k) k = addKey ks k := by
  unfold addKey
  by_cases h : ks.contains k
  · rw [if_pos h, if_pos h]
  · rw [if_neg h]
    have : (ks ++ [k]).contains k = true := by simp
    rw [if_pos this]

theorem mem_addKey {α : Type} [BEq α] [LawfulBEq α] (ks : List α) (k x : α) :
    x ∈ addKey ks k ↔ x ∈ ks ∨ x = k := by
  unfold addKey
  by_cases h : ks.contains k
  · rw [if_pos h]
    have hk : k ∈ ks := by simpa using h
    constructor
    · exact Or.inl
    · rintro (h1 | rfl)
      · exact h1
      · exact hk
  · rw [if_neg h]; simp

theorem nodup_addKey {α : Type} [BEq α] [LawfulBEq α] (ks : List α) (k : α) (h : ks.Nodup) :
    (addKey ks k).Nodup := by
  unfold addKey
  by_cases hc : ks.contains k
  · rw [if_pos hc]; exact h
  · rw [if_neg hc]
    have hk : k ∉ ks := by simpa using hc
    rw [List.nodup_append]
    exact ⟨h, by simp, fun a ha b hb e => by simp at hb; subst hb; subst e; exact hk ha⟩

/-- `firstsFrom [] xs` lists exactly the elements of `xs`, each once -/
theorem mem_firstsFrom {α : Type} [BEq α] [LawfulBEq α] (ks xs : List α) (x : α) :
    x ∈ firstsFrom ks xs ↔ x ∈ ks ∨ x ∈ xs := by
  unfold firstsFrom
  induction xs generalizing ks with
  | nil => simp
  | cons y r ih =>
    rw [List.foldl_cons, ih, mem_addKey]
    simp only [List.mem_cons]
    constructor
    · rintro ((h | h) | h)
      · exact Or.inl h
      · exact Or.inr (Or.inl h)
      · exact Or.inr (Or.inr h)
    · rintro (h | h | h)
      · exact Or.inl (Or.inl h)
      · exact Or.inl (Or.inr h)
      · exact Or.inr h

theorem nodup_firstsFrom {α : Type} [BEq α] [LawfulBEq α] (ks xs : List α) (h : ks.Nodup) :
    (firstsFrom ks xs).Nodup := by
  unfold firstsFrom
  induction xs generalizing ks with
  | nil => exact h
  | cons y r ih => rw [List.foldl_cons]; exact ih _ (nodup_addKey ks y h)

theorem keys_pvEnsure (loc : List Nat) (pv : PV) : (pvEnsure loc pv).map (·.1) = addKey (pv.map (·.1)) loc := by
  unfold pvEnsure addKey
  rw [isSome_eq_contains]
  split <;> simp

theorem keys_pvAte (loc tn kn kd : List Nat) (pv : PV) :
    (pvAte loc tn kn kd pv).map (·.1) = addKey (pv.map (·.1)) loc := keys_dictSet _ _ _

theorem dictGet_pvEnsure (loc loc' : List Nat) (pv : PV) :
    dictGet (pvEnsure loc pv) loc' = if loc = loc' then some ((dictGet pv loc).getD emptyLocale) else dictGet pv loc' := by
  unfold pvEnsure
  cases h : dictGet pv loc with
  | some lv =>
    simp only [Option.isSome_some, if_true, Option.getD_some]
    split
    · rename_i e; rw [← e, h]
    · rfl
  | none =>
    simp only [Option.isSome_none, Bool.false_eq_true, if_false, Option.getD_none, dictGet_append_single]
    by_cases e : loc = loc'
    · subst e; simp [h]
    · have : (loc == loc') = false := by simpa using e
      simp only [this, Bool.false_eq_true, if_false, e]
      cases dictGet pv loc' <;> rfl

theorem dictGet_pvAte (loc tn kn kd loc' : List Nat) (pv : PV) :
    dictGet (pvAte loc tn kn kd pv) loc'
      = if loc = loc' then some (lvStep tn kn kd ((dictGet pv loc).getD emptyLocale)) else dictGet pv loc' := by
  unfold pvAte
  by_cases e : loc = loc'
  · subst e; rw [if_pos rfl, dictGet_dictSet]
  · rw [if_neg e, dictGet_dictSet_ne _ _ _ _ (by simpa using e)]

/-! ### `values[package]` through the fold -/

theorem foldl_some {α β : Type} (f : β → α → β) (d : β) (xs : List α) (x : β) :
    xs.foldl (fun o a => some (f (Option.getD o d) a)) (some x) = some (xs.foldl f x) := by
  induction xs generalizing x with
  | nil => rfl
  | cons a r ih => simp only [List.foldl_cons, Option.getD_some, ih]

theorem foldl_id {α β : Type} (xs : List α) (x : β) : xs.foldl (fun o _ => o) x = x := by
  induction xs with
  | nil => rfl
  | cons a r ih => simpa using ih

def pvChunk (ps : Parsed) (pk : Package) (pv : PV) (tc : TypeChunk) : PV :=
  tc.ates.foldl (fun pv a => pvAte (locOf tc.config) (tnOf pk tc) (knOf pk a) (kdOf ps a) pv)
    (pvEnsure (locOf tc.config) pv)

def pvPkg (ps : Parsed) (pk : Package) (pv : PV) : PV := pk.chunks.foldl (pvChunk ps pk) pv

theorem values_chunkStep_same (ps : Parsed) (pk : Package) (st : Analysed) (tc : TypeChunk) :
    dictGet (chunkStep ps pk st tc).values pk.name
      = some (pvChunk ps pk ((dictGet st.values pk.name).getD []) tc) := by
  unfold chunkStep pvChunk
  rw [foldl_proj (ateStep ps pk (tnOf pk tc) (locOf tc.config) tc.config)
    (fun o a => some (pvAte (locOf tc.config) (tnOf pk tc) (knOf pk a) (kdOf ps a) (Option.getD o [])))
    (fun s : Analysed => dictGet s.values pk.name) (fun s a => dictGet_dictSet _ _ _) tc.ates _]
  simp only [dictGet_dictSet]
  exact foldl_some (fun pv a => pvAte (locOf tc.config) (tnOf pk tc) (knOf pk a) (kdOf ps a) pv) [] tc.ates _

theorem values_chunkStep_other (ps : Parsed) (pk : Package) (st : Analysed) (tc : TypeChunk) (n : List Nat)
    (hne : pk.name ≠ n) : dictGet (chunkStep ps pk st tc).values n = dictGet st.values n := by
  unfold chunkStep
  have hb : (pk.name == n) = false := by simpa using hne
  rw [foldl_proj (ateStep ps pk (tnOf pk tc) (locOf tc.config) tc.config) (fun o _ => o)
    (fun s : Analysed => dictGet s.values n) (fun s a => dictGet_dictSet_ne _ _ _ _ hb) tc.ates _, foldl_id]
  exact dictGet_dictSet_ne _ _ _ _ hb

theorem values_pkgStart (st : Analysed) (pk : Package) (n : List Nat) :
    dictGet (pkgStart st pk).values n
      = if pk.name = n then some ((dictGet st.values pk.name).getD []) else dictGet st.values n := by
  unfold pkgStart
  cases h : dictGet st.values pk.name with
  | some pv =>
    simp only [Option.isSome_some, if_true, Option.getD_some]
    split
    · rename_i e; rw [← e, h]
    · rfl
  | none =>
    simp only [Option.isSome_none, Bool.false_eq_true, if_false, Option.getD_none, dictGet_append_single]
    by_cases e : pk.name = n
    · subst e; simp [h]
    · have : (pk.name == n) = false := by simpa using e
      simp only [this, Bool.false_eq_true, if_false, e]
      cases dictGet st.values n <;> rfl

theorem values_pkgStep_same (ps : Parsed) (st : Analysed) (pk : Package) :
    dictGet (pkgStep ps st pk).values pk.name = some (pvPkg ps pk ((dictGet st.values pk.name).getD [])) := by
  unfold pkgStep pvPkg
  rw [foldl_proj (chunkStep ps pk) (fun o tc => some (pvChunk ps pk (Option.getD o []) tc))
    (fun s : Analysed => dictGet s.values pk.name) (values_chunkStep_same ps pk) pk.chunks _,
    values_pkgStart, if_pos rfl]
  exact foldl_some (pvChunk ps pk) [] pk.chunks _

theorem values_pkgStep_other (ps : Parsed) (st : Analysed) (pk : Package) (n : List Nat) (hne : pk.name ≠ n) :
    dictGet (pkgStep ps st pk).values n = dictGet st.values n := by
  unfold pkgStep
  rw [foldl_proj (chunkStep ps pk) (fun o _ => o) (fun s : Analysed => dictGet s.values n)
    (fun s tc => values_chunkStep_other ps pk s tc n hne) pk.chunks _, foldl_id, values_pkgStart, if_neg hne]

/-- with distinct package names, `values[name of pk]` is what the chunks of `pk` alone build -/
theorem values_fold (ps : Parsed) (pkgs : List Package) (st : Analysed) (hn : (pkgs.map (·.name)).Nodup)
    (pk : Package) (hpk : pk ∈ pkgs) :
    dictGet (pkgs.foldl (pkgStep ps) st).values pk.name
      = some (pvPkg ps pk ((dictGet st.values pk.name).getD [])) := by
  induction pkgs generalizing st with
  | nil => simp at hpk
  | cons q r ih =>
    simp only [List.map_cons, List.nodup_cons] at hn
    simp only [List.foldl_cons]
    by_cases hq : pk ∈ r
    · have hne : q.name ≠ pk.name := fun e => hn.1 (e ▸ List.mem_map.mpr ⟨pk, hq, rfl⟩)
      rw [ih (pkgStep ps st q) hn.2 hq, values_pkgStep_other ps st q pk.name hne]
    · have hpq : pk = q := by
        simp only [List.mem_cons] at hpk
        rcases hpk with e | e
        · exact e
        · exact absurd e hq
      subst hpq
      have hkeep : ∀ (l : List Package) (s : Analysed), (∀ x ∈ l, x.name ≠ pk.name) →
          dictGet (l.foldl (pkgStep ps) s).values pk.name = dictGet s.values pk.name := by
        intro l
        induction l with
        | nil => intro s _; rfl
        | cons x t iht =>
          intro s hall
          simp only [List.foldl_cons]
          rw [iht _ (fun y hy => hall y (by simp [hy])), values_pkgStep_other ps s x pk.name (hall x (by simp))]
      rw [hkeep r _ (fun x hx e => hn.1 (e ▸ List.mem_map.mpr ⟨x, hx, rfl⟩)), values_pkgStep_same]

/-! ### what one package's chunks build: locales, and per locale the types and the strings -/

theorem foldl_addKey_same {α β : Type} [BEq α] [LawfulBEq α] (xs : List β) (ks : List α) (k : α) :
    xs.foldl (fun ks _ => addKey ks k) (addKey ks k) = addKey ks k := by
  induction xs with
  | nil => rfl
  | cons x r ih => simp only [List.foldl_cons, addKey_idem, ih]

theorem keys_pvChunk (ps : Parsed) (pk : Package) (pv : PV) (tc : TypeChunk) :
    (pvChunk ps pk pv tc).map (·.1) = addKey (pv.map (·.1)) (locOf tc.config) := by
  unfold pvChunk
  rw [foldl_proj (fun pv a => pvAte (locOf tc.config) (tnOf pk tc) (knOf pk a) (kdOf ps a) pv)
    (fun ks _ => addKey ks (locOf tc.config)) (fun pv : PV => pv.map (·.1)) (fun pv a => keys_pvAte _ _ _ _ pv)
    tc.ates _, keys_pvEnsure, foldl_addKey_same]

theorem keys_pvPkg (ps : Parsed) (pk : Package) (pv : PV) :
    (pvPkg ps pk pv).map (·.1) = firstsFrom (pv.map (·.1)) (pk.chunks.map fun tc => locOf tc.config) := by
  unfold pvPkg firstsFrom
  rw [foldl_proj (pvChunk ps pk) (fun ks tc => addKey ks (locOf tc.config)) (fun pv : PV => pv.map (·.1))
    (keys_pvChunk ps pk) pk.chunks pv, List.foldl_map]

def lvChunk (ps : Parsed) (pk : Package) (tc : TypeChunk) (lv : LocaleValues) : LocaleValues :=
  tc.ates.foldl (fun lv a => lvStep (tnOf pk tc) (knOf pk a) (kdOf ps a) lv) lv

theorem dictGet_pvChunk (ps : Parsed) (pk : Package) (pv : PV) (tc : TypeChunk) (loc' : List Nat) :
    dictGet (pvChunk ps pk pv tc) loc'
      = if locOf tc.config = loc' then some (lvChunk ps pk tc ((dictGet pv loc').getD emptyLocale))
        else dictGet pv loc' := by
  unfold pvChunk
  by_cases e : locOf tc.config = loc'
  · subst e
    rw [if_pos rfl, foldl_proj (fun pv a => pvAte (locOf tc.config) (tnOf pk tc) (knOf pk a) (kdOf ps a) pv)
      (fun o a => some (lvStep (tnOf pk tc) (knOf pk a) (kdOf ps a) (Option.getD o emptyLocale)))
      (fun pv : PV => dictGet pv (locOf tc.config))
      (fun pv a => by rw [dictGet_pvAte, if_pos rfl]) tc.ates _, dictGet_pvEnsure, if_pos rfl]
    exact foldl_some (fun lv a => lvStep (tnOf pk tc) (knOf pk a) (kdOf ps a) lv) emptyLocale tc.ates _
  · rw [if_neg e, foldl_proj (fun pv a => pvAte (locOf tc.config) (tnOf pk tc) (knOf pk a) (kdOf ps a) pv)
      (fun o _ => o) (fun pv : PV => dictGet pv loc')
      (fun pv a => by rw [dictGet_pvAte, if_neg e]) tc.ates _, foldl_id, dictGet_pvEnsure, if_neg e]

/-- the (type name, key name, value text) of every entry of the chunks of `pk` with locale `loc`, in order -/
def evsOf (ps : Parsed) (pk : Package) (loc : List Nat) (chunks : List TypeChunk) :
    List (List Nat × List Nat × List Nat) :=
  (chunks.filter fun tc => locOf tc.config == loc).flatMap fun tc =>
    tc.ates.map fun a => (tnOf pk tc, knOf pk a, kdOf ps a)

def lvOf (evs : List (List Nat × List Nat × List Nat)) (lv : LocaleValues) : LocaleValues :=
  evs.foldl (fun lv e => lvStep e.1 e.2.1 e.2.2 lv) lv

theorem lvOf_append (a b : List (List Nat × List Nat × List Nat)) (lv : LocaleValues) :
    lvOf (a ++ b) lv = lvOf b (lvOf a lv) := by
  simp only [lvOf, List.foldl_append]

theorem lvChunk_eq (ps : Parsed) (pk : Package) (tc : TypeChunk) (lv : LocaleValues) :
    lvChunk ps pk tc lv = lvOf (tc.ates.map fun a => (tnOf pk tc, knOf pk a, kdOf ps a)) lv := by
  simp only [lvChunk, lvOf, List.foldl_map]

def lvFoldStep (ps : Parsed) (pk : Package) (loc : List Nat) (o : Option LocaleValues) (tc : TypeChunk) :
    Option LocaleValues :=
  if locOf tc.config = loc then some (lvChunk ps pk tc (o.getD emptyLocale)) else o

theorem evsOf_cons_pos (ps : Parsed) (pk : Package) (loc : List Nat) (tc : TypeChunk) (r : List TypeChunk)
    (h : locOf tc.config = loc) :
    evsOf ps pk loc (tc :: r) = (tc.ates.map fun a => (tnOf pk tc, knOf pk a, kdOf ps a)) ++ evsOf ps pk loc r := by
  have : (locOf tc.config == loc) = true := by simpa using h
  simp only [evsOf, List.filter_cons, this, if_true, List.flatMap_cons]

theorem evsOf_cons_neg (ps : Parsed) (pk : Package) (loc : List Nat) (tc : TypeChunk) (r : List TypeChunk)
    (h : locOf tc.config ≠ loc) : evsOf ps pk loc (tc :: r) = evsOf ps pk loc r := by
  have : (locOf tc.config == loc) = false := by simpa using h
  simp only [evsOf, List.filter_cons, this, Bool.false_eq_true, if_false]

theorem lvFold_some (ps : Parsed) (pk : Package) (loc : List Nat) (chunks : List TypeChunk) (x : LocaleValues) :
    chunks.foldl (lvFoldStep ps pk loc) (some x) = some (lvOf (evsOf ps pk loc chunks) x) := by
  induction chunks generalizing x with
  | nil => rfl
  | cons tc r ih =>
    simp only [List.foldl_cons, lvFoldStep]
    by_cases h : locOf tc.config = loc
    · rw [if_pos h, ih, evsOf_cons_pos ps pk loc tc r h, lvOf_append, lvChunk_eq]; rfl
    · rw [if_neg h, ih, evsOf_cons_neg ps pk loc tc r h]

theorem lvFold_none (ps : Parsed) (pk : Package) (loc : List Nat) (chunks : List TypeChunk) :
    chunks.foldl (lvFoldStep ps pk loc) none
      = if chunks.any (fun tc => locOf tc.config == loc) then some (lvOf (evsOf ps pk loc chunks) emptyLocale)
        else none := by
  induction chunks with
  | nil => rfl
  | cons tc r ih =>
    simp only [List.foldl_cons, lvFoldStep]
    by_cases h : locOf tc.config = loc
    · have hb : (locOf tc.config == loc) = true := by simpa using h
      have hany : ((tc :: r).any fun tc => locOf tc.config == loc) = true := by simp [List.any_cons, hb]
      rw [if_pos h, lvFold_some, if_pos hany, evsOf_cons_pos ps pk loc tc r h, lvOf_append, lvChunk_eq]
      rfl
    · have hb : (locOf tc.config == loc) = false := by simpa using h
      rw [if_neg h, ih, evsOf_cons_neg ps pk loc tc r h]
      by_cases hr : (r.any fun tc => locOf tc.config == loc) = true
      · have hany : ((tc :: r).any fun tc => locOf tc.config == loc) = true := by simp [List.any_cons, hr]
        rw [if_pos hr, if_pos hany]
      · have hany : ¬ ((tc :: r).any fun tc => locOf tc.config == loc) = true := by
          simp only [List.any_cons, hb, Bool.false_or]; exact hr
        rw [if_neg hr, if_neg hany]

theorem dictGet_pvPkg_nil (ps : Parsed) (pk : Package) (loc : List Nat) :
    dictGet (pvPkg ps pk []) loc
      = if pk.chunks.any (fun tc => locOf tc.config == loc)
        then some (lvOf (evsOf ps pk loc pk.chunks) emptyLocale) else none := by
  unfold pvPkg
  rw [foldl_proj (pvChunk ps pk) (lvFoldStep ps pk loc) (fun pv : PV => dictGet pv loc)
    (fun pv tc => dictGet_pvChunk ps pk pv tc loc) pk.chunks []]
  exact lvFold_none ps pk loc pk.chunks

theorem types_lvStep (tn kn kd : List Nat) (lv : LocaleValues) : (lvStep tn kn kd lv).types = addKey lv.types tn := by
  unfold lvStep addType addKey
  by_cases h : lv.types.contains tn <;> by_cases hs : tn == strBytes "string" <;>
    simp only [h, hs, if_true, if_false, Bool.false_eq_true]

theorem types_lvOf (evs : List (List Nat × List Nat × List Nat)) (lv : LocaleValues) :
    (lvOf evs lv).types = firstsFrom lv.types (evs.map (·.1)) := by
  unfold lvOf firstsFrom
  rw [foldl_proj (fun lv e => lvStep e.1 e.2.1 e.2.2 lv) (fun ts (e : List Nat × List Nat × List Nat) => addKey ts e.1)
    (fun lv : LocaleValues => lv.types) (fun lv e => types_lvStep _ _ _ lv) evs lv, List.foldl_map]

theorem strings_lvStep (tn kn kd : List Nat) (lv : LocaleValues) :
    (lvStep tn kn kd lv).strings = lv.strings ++ (if tn == strBytes "string" then [(kn, kd)] else []) := by
  unfold lvStep addType
  by_cases h : lv.types.contains tn <;> by_cases hs : tn == strBytes "string" <;>
    simp only [h, hs, if_true, if_false, Bool.false_eq_true, List.append_nil]

theorem strings_lvOf (evs : List (List Nat × List Nat × List Nat)) (lv : LocaleValues) :
    (lvOf evs lv).strings
      = lv.strings ++ (evs.filter fun e => e.1 == strBytes "string").map fun e => (e.2.1, e.2.2) := by
  induction evs generalizing lv with
  | nil => simp [lvOf]
  | cons e r ih =>
    have : lvOf (e :: r) lv = lvOf r (lvStep e.1 e.2.1 e.2.2 lv) := rfl
    rw [this, ih, strings_lvStep, List.filter_cons]
    by_cases hs : e.1 == strBytes "string" <;> simp [hs]

/-! ### the listings on a parse -/

theorem evsOf_nil_of_not_any (ps : Parsed) (pk : Package) (loc : List Nat) (chunks : List TypeChunk)
    (h : ¬ (chunks.any fun tc => locOf tc.config == loc) = true) : evsOf ps pk loc chunks = [] := by
  unfold evsOf
  have : (chunks.filter fun tc => locOf tc.config == loc) = [] := by
    rw [List.filter_eq_nil_iff]
    intro tc htc hc
    exact h (List.any_eq_true.mpr ⟨tc, htc, hc⟩)
  rw [this]; rfl

/-- the `[name, value]` pairs `get_string` searches for locale `loc` of package `pk` -/
def stringPairs (evs : List (List Nat × List Nat × List Nat)) : List (List Nat × List Nat) :=
  (evs.filter fun e => e.1 == strBytes "string").map fun e => (e.2.1, e.2.2)

theorem listings_parsed (ps : Parsed) (hn : (ps.packages.map (·.name)).Nodup)
    (hok : ∀ pk ∈ ps.packages, ∀ tc ∈ pk.chunks, ChunkOk ps pk tc) :
    ∃ an, analyse ps = some an ∧
      (∀ pk ∈ ps.packages,
        getLocales an pk.name = some (firstsFrom [] (pk.chunks.map fun tc => locOf tc.config))) ∧
      (∀ pk ∈ ps.packages, ∀ loc,
        getTypes an pk.name loc
          = if pk.chunks.any (fun tc => locOf tc.config == loc)
            then some (firstsFrom [strBytes "public"] ((evsOf ps pk loc pk.chunks).map (·.1))) else none) ∧
      (∀ pk ∈ ps.packages, ∀ name loc,
        getString an pk.name name loc = (stringPairs (evsOf ps pk loc pk.chunks)).find? (·.1 == name)) ∧
      (∀ k, dictGet an.resourceKeys k = lastVal (keyPairs ps) k) := by
  refine ⟨_, analyse_full ps hn hok, ?_, ?_, ?_, ?_⟩
  · intro pk hpk
    unfold getLocales
    rw [values_fold ps ps.packages _ hn pk hpk, Option.map_some, keys_pvPkg]
    rfl
  · intro pk hpk loc
    unfold getTypes
    rw [values_fold ps ps.packages _ hn pk hpk]
    simp only [Option.bind_eq_bind, Option.bind_some, dictGet_nil, Option.getD_none, Option.pure_def]
    rw [dictGet_pvPkg_nil]
    split
    · simp only [Option.bind_some, types_lvOf]; rfl
    · rfl
  · intro pk hpk name loc
    unfold getString
    rw [values_fold ps ps.packages _ hn pk hpk]
    simp only [Option.bind_eq_bind, Option.bind_some, dictGet_nil, Option.getD_none]
    rw [dictGet_pvPkg_nil]
    split
    · simp only [Option.bind_some, strings_lvOf]; rfl
    · rename_i h
      rw [evsOf_nil_of_not_any ps pk loc pk.chunks h]; rfl
  · intro k
    rw [rk_fold, dictGet_setFold]
    unfold keyPairs
    split
    · rename_i v h; rw [h]
    · rename_i h; rw [h]; rfl

/-! ### … and on the parse of an encoded table -/

/-- the locale string of a chunk (`get_language_and_region()` of its configuration) -/
def locT (c : Spec.Arsc.TypeChunk) : List Nat := locOf c.config.words

/-- the text `get_key_data()` gives for an entry: the global string at its data (a complex entry has none) -/
def kdT (t : Table) (a : Ate) : List Nat :=
  match a.e.body with
  | .compact _ d => strAt t.strings d
  | .simple v => strAt t.strings v.2
  | .complex _ _ => []

/-- per entry of the chunks of `p` with locale `loc`, in file order: (type name, key name, value text) -/
def evsT (t : Table) (p : Spec.Arsc.Package) (loc : List Nat) : List (List Nat × List Nat × List Nat) :=
  (p.chunks.filter fun c => locT c == loc).flatMap fun c =>
    (atesOf p.id c.typeId 0 c.slots).map fun a => (typeNameSpec p c.typeId, strAt p.keyNames a.e.keyIndex, kdT t a)

/-- every (package name, type name, key name) ↦ id the table defines, in file order -/
def keyPairsT (t : Table) : List ((List Nat × List Nat × List Nat) × Nat) :=
  t.packages.flatMap fun p => p.chunks.flatMap fun c =>
    (atesOf p.id c.typeId 0 c.slots).map fun a =>
      ((utf8s p.name, typeNameSpec p c.typeId, strAt p.keyNames a.e.keyIndex), a.resId)

theorem tnOf_packageOf (pl : PkgLayout) (p : Spec.Arsc.Package) (htn : p.typeNames.all wfStr = true)
    (c : Spec.Arsc.TypeChunk) : tnOf (packageOf pl p) (chunkOf p.id c) = typeNameSpec p c.typeId := by
  unfold tnOf
  rw [show (chunkOf p.id c).typeId = c.typeId from rfl, typeName_packageOf pl p htn]; rfl

theorem knOf_packageOf (pl : PkgLayout) (p : Spec.Arsc.Package) (hkn : p.keyNames.all wfStr = true) (a : Ate) :
    knOf (packageOf pl p) a = strAt p.keyNames a.e.keyIndex := by
  simp only [knOf, keyName, packageOf, getString_poolOf_total _ _ hkn, Option.getD_some, strAt]

theorem kdOf_parsedOf (l : Layout) (t : Table) (hstr : t.strings.all wfStr = true) (a : Ate) :
    kdOf (parsedOf l t) a = kdT t a := by
  unfold kdOf keyData kdT
  cases a.e.body with
  | simple v => simp only [mainString_parsedOf l t hstr, Option.getD_some]
  | compact ty d => simp only [mainString_parsedOf l t hstr, Option.getD_some]
  | complex p items => rfl

theorem evsOf_packageOf (l : Layout) (t : Table) (hstr : t.strings.all wfStr = true) (pl : PkgLayout)
    (p : Spec.Arsc.Package) (htn : p.typeNames.all wfStr = true) (hkn : p.keyNames.all wfStr = true)
    (loc : List Nat) :
    evsOf (parsedOf l t) (packageOf pl p) loc (packageOf pl p).chunks = evsT t p loc := by
  simp only [evsOf, evsT, packageOf, List.filter_map, List.flatMap_map]
  congr 1
  funext c
  apply List.map_congr_left
  intro a _
  have h1 : tnOf (packageOf pl p) (chunkOf p.id c) = typeNameSpec p c.typeId := tnOf_packageOf pl p htn c
  have h2 : knOf (packageOf pl p) a = strAt p.keyNames a.e.keyIndex := knOf_packageOf pl p hkn a
  have h3 := kdOf_parsedOf l t hstr a
  simp only [packageOf] at h1 h2
  simp only [h1, h2, h3]

theorem keyPairs_packagesOf (pl : Nat → PkgLayout) (pkgs : List Spec.Arsc.Package) (i : Nat)
    (hwf : wfPackages pl i pkgs = true) :
    ((packagesOf pl i pkgs).flatMap fun pk => pk.chunks.flatMap fun tc =>
        tc.ates.map fun a => ((pk.name, tnOf pk tc, knOf pk a), a.resId))
      = keyPairsT ⟨[], pkgs⟩ := by
  induction pkgs generalizing i with
  | nil => rfl
  | cons p r ih =>
    obtain ⟨hw1, hw2⟩ := (wfPackages_cons pl i p r).mp hwf
    obtain ⟨_, _, htn, hkn, _⟩ := (wfPackage_iff _ p).mp hw1
    simp only [packagesOf, List.flatMap_cons, ih (i + 1) hw2, keyPairsT]
    congr 1
    simp only [packageOf, List.flatMap_map]
    congr 1
    funext c
    rw [show tnOf ⟨utf8s p.name, poolOf (pl i).typeUtf8 p.typeNames, poolOf (pl i).keyUtf8 p.keyNames,
      p.chunks.map (chunkOf p.id)⟩ (chunkOf p.id c) = tnOf (packageOf (pl i) p) (chunkOf p.id c) from rfl,
      tnOf_packageOf (pl i) p htn]
    apply List.map_congr_left
    intro a _
    rw [show knOf ⟨utf8s p.name, poolOf (pl i).typeUtf8 p.typeNames, poolOf (pl i).keyUtf8 p.keyNames,
      p.chunks.map (chunkOf p.id)⟩ a = knOf (packageOf (pl i) p) a from rfl, knOf_packageOf (pl i) p hkn]

theorem mem_packagesOf_of_mem {pl : Nat → PkgLayout} {pkgs : List Spec.Arsc.Package} {i : Nat}
    {p : Spec.Arsc.Package} (hwf : wfPackages pl i pkgs = true) (h : p ∈ pkgs) :
    ∃ j, packageOf (pl j) p ∈ packagesOf pl i pkgs ∧ wfPackage (pl j) p = true := by
  induction pkgs generalizing i with
  | nil => simp at h
  | cons q r ih =>
    obtain ⟨hw1, hw2⟩ := (wfPackages_cons pl i q r).mp hwf
    simp only [List.mem_cons] at h
    rcases h with rfl | h
    · exact ⟨i, by simp [packagesOf], hw1⟩
    · obtain ⟨j, hj, hw⟩ := ih hw2 h
      exact ⟨j, by simp [packagesOf, hj], hw⟩

/-- the four listings on `ARSCParser(encode t)` after `_analyse`, in terms of the table -/
theorem listings_enc (l : Layout) (t : Table) (hwf : wfTable l t = true)
    (hnames : (t.packages.map fun p => utf8s p.name).Nodup) (han : analysable t = true) :
    ∃ an, (parseTable (encTable l t).toArray).bind analyse = some an ∧
      (∀ p ∈ t.packages, getLocales an (utf8s p.name) = some (firstsFrom [] (p.chunks.map locT))) ∧
      (∀ p ∈ t.packages, ∀ loc,
        getTypes an (utf8s p.name) loc
          = if p.chunks.any (fun c => locT c == loc)
            then some (firstsFrom [strBytes "public"] ((evsT t p loc).map (·.1))) else none) ∧
      (∀ p ∈ t.packages, ∀ name loc,
        getString an (utf8s p.name) name loc = (stringPairs (evsT t p loc)).find? (·.1 == name)) ∧
      (∀ k, dictGet an.resourceKeys k = lastVal (keyPairsT t) k) := by
  have hwf' := hwf
  simp only [wfTable, Bool.and_eq_true, decide_eq_true_eq] at hwf'
  obtain ⟨⟨_, hstr⟩, hpk⟩ := hwf'
  have hn : ((parsedOf l t).packages.map (·.name)).Nodup := by
    have : (parsedOf l t).packages.map (·.name) = t.packages.map fun p => utf8s p.name := by
      simp only [parsedOf]
      generalize (0 : Nat) = i
      induction t.packages generalizing i with
      | nil => rfl
      | cons p r ih => simp [packagesOf, packageOf, ih]
    rw [this]; exact hnames
  obtain ⟨an, h1, hL, hT, hS, hK⟩ := listings_parsed (parsedOf l t) hn (chunkOk_parsedOf l t hwf han)
  refine ⟨an, by rw [parseTable_enc l t hwf, Option.bind_some, h1], ?_, ?_, ?_, ?_⟩
  · intro p hp
    obtain ⟨j, hj, _⟩ := mem_packagesOf_of_mem hpk hp
    have := hL _ hj
    simp only [packageOf, List.map_map] at this
    rw [this]; rfl
  · intro p hp loc
    obtain ⟨j, hj, hw⟩ := mem_packagesOf_of_mem hpk hp
    obtain ⟨_, _, htn, hkn, _⟩ := (wfPackage_iff _ p).mp hw
    have := hT _ hj loc
    rw [evsOf_packageOf l t hstr (l.pkg j) p htn hkn loc] at this
    simp only [packageOf, List.any_map] at this
    rw [this]; rfl
  · intro p hp name loc
    obtain ⟨j, hj, hw⟩ := mem_packagesOf_of_mem hpk hp
    obtain ⟨_, _, htn, hkn, _⟩ := (wfPackage_iff _ p).mp hw
    have := hS _ hj name loc
    rw [evsOf_packageOf l t hstr (l.pkg j) p htn hkn loc] at this
    exact this
  · intro k
    rw [hK k]
    have : keyPairs (parsedOf l t) = keyPairsT t := by
      unfold keyPairs
      simp only [parsedOf]
      rw [keyPairs_packagesOf l.pkg t.packages 0 hpk]; rfl
    rw [this]

end AgVerif.Arsc
