/-
Helper lemmas for C01: destructuring of byte lists, evaluation of the struct layer.
-/
import AgVerif.Model.Insn
namespace AgVerif.Insn
open AgVerif.Gen

/-- every element is a byte -/
def AllBytes (bs : List Nat) : Prop := ∀ b ∈ bs, b < 256

theorem allBytes_cons {b : Nat} {bs : List Nat} : AllBytes (b :: bs) ↔ b < 256 ∧ AllBytes bs := by
  simp [AllBytes]

theorem allBytes_nil : AllBytes [] := by simp [AllBytes]

theorem ex2 (bs : List Nat) (h : 2 ≤ bs.length) : ∃ b0 b1 r, bs = b0 :: b1 :: r := by
  match bs, h with
  | b0 :: b1 :: r, _ => exact ⟨b0, b1, r, rfl⟩

theorem ex4 (bs : List Nat) (h : 4 ≤ bs.length) : ∃ b0 b1 b2 b3 r, bs = b0 :: b1 :: b2 :: b3 :: r := by
  match bs, h with
  | b0 :: b1 :: b2 :: b3 :: r, _ => exact ⟨b0, b1, b2, b3, r, rfl⟩

theorem ex6 (bs : List Nat) (h : 6 ≤ bs.length) :
    ∃ b0 b1 b2 b3 b4 b5 r, bs = b0 :: b1 :: b2 :: b3 :: b4 :: b5 :: r := by
  match bs, h with
  | b0 :: b1 :: b2 :: b3 :: b4 :: b5 :: r, _ => exact ⟨b0, b1, b2, b3, b4, b5, r, rfl⟩

theorem ex8 (bs : List Nat) (h : 8 ≤ bs.length) :
    ∃ b0 b1 b2 b3 b4 b5 b6 b7 r, bs = b0 :: b1 :: b2 :: b3 :: b4 :: b5 :: b6 :: b7 :: r := by
  match bs, h with
  | b0 :: b1 :: b2 :: b3 :: b4 :: b5 :: b6 :: b7 :: r, _ => exact ⟨b0, b1, b2, b3, b4, b5, b6, b7, r, rfl⟩

theorem ex10 (bs : List Nat) (h : 10 ≤ bs.length) :
    ∃ b0 b1 b2 b3 b4 b5 b6 b7 b8 b9 r,
      bs = b0 :: b1 :: b2 :: b3 :: b4 :: b5 :: b6 :: b7 :: b8 :: b9 :: r := by
  match bs, h with
  | b0 :: b1 :: b2 :: b3 :: b4 :: b5 :: b6 :: b7 :: b8 :: b9 :: r, _ =>
    exact ⟨b0, b1, b2, b3, b4, b5, b6, b7, b8, b9, r, rfl⟩

/-! ### struct.pack, stated propositionally
(the equation lemmas of `pack` are `rfl` lemmas: used by `simp` they make the kernel evaluate the range
check `↑b < 65536` on a symbolic `b` by unfolding `Nat.sub` 65536 times) -/

theorem pack_nil : pack [] [] = some [] := by rw [pack]

theorem pack_cons_some {c : SC} {cs : List SC} {v : Int} {vs : List Int} (h : c.inRange v = true) :
    pack (c :: cs) (v :: vs) = (pack cs vs).map (fun r => leBytes c.size v ++ r) := by
  rw [pack, if_pos h]; cases pack cs vs <;> rfl

theorem pack_cons_none {c : SC} {cs : List SC} {v : Int} {vs : List Int} (h : c.inRange v = false) :
    pack (c :: cs) (v :: vs) = none := by
  rw [pack, if_neg (by simp [h])]

theorem inRange_B {v : Int} (h : 0 ≤ v ∧ v < 256) : SC.B.inRange v = true := by simp [SC.inRange, h]
theorem inRange_b {v : Int} (h : -128 ≤ v ∧ v < 128) : SC.b.inRange v = true := by simp [SC.inRange, h]
theorem inRange_H {v : Int} (h : 0 ≤ v ∧ v < 65536) : SC.H.inRange v = true := by simp [SC.inRange, h]
theorem inRange_h {v : Int} (h : -32768 ≤ v ∧ v < 32768) : SC.h.inRange v = true := by simp [SC.inRange, h]
theorem inRange_I {v : Int} (h : 0 ≤ v ∧ v < 4294967296) : SC.I.inRange v = true := by simp [SC.inRange, h]
theorem inRange_i {v : Int} (h : -2147483648 ≤ v ∧ v < 2147483648) : SC.i.inRange v = true := by
  simp [SC.inRange, h]
theorem inRange_q {v : Int} (h : -9223372036854775808 ≤ v ∧ v < 9223372036854775808) :
    SC.q.inRange v = true := by simp [SC.inRange, h]

/-! packing a sign-extended value gives the same bytes as packing the unsigned value -/
theorem leBytes1_sext (u : Int) : leBytes 1 ((u + 128) % 256 - 128) = leBytes 1 u := by
  simp only [leBytes, leBytesFrom, List.cons.injEq, and_true]; omega
theorem leBytes2_sext (u : Int) : leBytes 2 ((u + 32768) % 65536 - 32768) = leBytes 2 u := by
  simp only [leBytes, leBytesFrom, List.cons.injEq, and_true, Int.reduceMul]; omega
theorem leBytes4_sext (u : Int) :
    leBytes 4 ((u + 2147483648) % 4294967296 - 2147483648) = leBytes 4 u := by
  simp only [leBytes, leBytesFrom, List.cons.injEq, and_true, Int.reduceMul]; omega
theorem leBytes8_sext (u : Int) :
    leBytes 8 ((u + 9223372036854775808) % 18446744073709551616 - 9223372036854775808) = leBytes 8 u := by
  simp only [leBytes, leBytesFrom, List.cons.injEq, and_true, Int.reduceMul]; omega

/-- discharger for the side condition of `pack_cons_some` -/
macro "pack_disch" : tactic =>
  `(tactic| first
    | (apply inRange_B; omega) | (apply inRange_b; omega) | (apply inRange_H; omega)
    | (apply inRange_h; omega) | (apply inRange_I; omega) | (apply inRange_i; omega)
    | (apply inRange_q; omega))

end AgVerif.Insn
