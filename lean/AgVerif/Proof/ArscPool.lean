/-
C28 deepening, step 3a: a string-pool chunk at the cursor is read (`ARSCHeader` + `StringBlock`)
as the pool `poolOf` (offsets and character buffer of the encoder).  Core Lean only.
-/
import AgVerif.Proof.ArscCursor
namespace AgVerif.Arsc
open AgVerif.Gen.ArscConsts AgVerif.Spec.Arsc

attribute [local irreducible] enc16 enc32

theorem chunk_length (ty : Nat) (hdr body : List Nat) :
    (chunk ty hdr body).length = 8 + hdr.length + body.length := by
  simp only [chunk, List.length_append, enc16_length, enc32_length]

/-- the cursor after the 8 bytes of a ResChunk_header -/
theorem chunk_body_at {bs r hdr body : List Nat} {p ty : Nat} (h : bs.drop p = chunk ty hdr body ++ r) :
    bs.drop (p + 8) = hdr ++ (body ++ r) := by
  have h' : bs.drop p = (enc16 ty ++ enc16 (8 + hdr.length) ++ enc32 (8 + hdr.length + body.length))
      ++ (hdr ++ (body ++ r)) := by
    rw [h]; simp only [chunk, List.append_assoc]
  exact drop_at' 8 h' (by simp only [List.length_append, enc16_length, enc32_length])

theorem encWords_length (ws : List Nat) : (encWords ws).length = 4 * ws.length := by
  induction ws with
  | nil => rfl
  | cons w r ih => simp only [encWords, List.flatMap_cons, List.length_append, enc32_length] at *; rw [ih]; simp only [List.length_cons]; omega

theorem offsetsFrom_length (o : Nat) (blobs : List (List Nat)) : (offsetsFrom o blobs).length = blobs.length := by
  induction blobs generalizing o with
  | nil => rfl
  | cons x r ih => simp [offsetsFrom, ih]

theorem offsetsFrom_le (o : Nat) (blobs : List (List Nat)) :
    ∀ x ∈ offsetsFrom o blobs, x ≤ o + blobs.flatten.length := by
  induction blobs generalizing o with
  | nil => simp [offsetsFrom]
  | cons y r ih =>
    intro x hx
    simp only [offsetsFrom, List.mem_cons] at hx
    simp only [List.flatten_cons, List.length_append]
    rcases hx with rfl | hx
    · omega
    · have := ih _ x hx; omega

theorem rdMany32_at {bs r : List Nat} (ws : List Nat) {q : Nat}
    (h : bs.drop q = encWords ws ++ r) (hw : ∀ w ∈ ws, w < 4294967296) :
    rdMany32 bs.toArray ws.length q = some ws := by
  induction ws generalizing q with
  | nil => rfl
  | cons w rest ih =>
    have h' : bs.drop q = enc32 w ++ (encWords rest ++ r) := by
      rw [h]; simp only [encWords, List.flatMap_cons, List.append_assoc]
    have h1 := rd32_at h' (hw w (by simp))
    have h2 := ih (drop_at' 4 h' (enc32_length _)) (fun x hx => hw x (by simp [hx]))
    simp only [List.length_cons, rdMany32, h1, h2, Option.bind_eq_bind, Option.bind_some, Option.pure_def]

theorem readPool_of {b : Buf} {h : Hdr} {n flags : Nat} {offs : List Nat}
    (h1 : rd32 b (h.pos + 8) = some n) (h2 : rd32 b (h.pos + 8 + 4) = some 0)
    (h3 : rd32 b (h.pos + 8 + 8) = some flags) (h4 : rd32 b (h.pos + 8 + 12) = some (28 + 4 * n))
    (h5 : rd32 b (h.pos + 8 + 16) = some 0) (h6 : rdMany32 b n (h.pos + 8 + 20) = some offs)
    (hsz : 28 + 4 * n ≤ h.size) :
    readPool b h = some ⟨decide (flags &&& utf8Flag ≠ 0), n, offs,
      slice b (h.pos + 8 + 20 + 4 * n) (h.size - (28 + 4 * n))⟩ := by
  unfold readPool
  simp only [h1, h2, h3, h4, h5, Option.bind_eq_bind, Option.bind_some, Option.pure_def]
  have hc : ((28 + 4 * n : Nat) - ((0 : Nat) * 4 + 28 : Int)) % 4 = 0 ∧
      ((28 + 4 * n : Nat) - ((0 : Nat) * 4 + 28 : Int)) / 4 = (n : Int) := by
    constructor <;> omega
  rw [if_pos hc]
  simp only [Int.toNat_natCast, h6, Option.bind_some, rdMany32]
  have hs0 : ¬ ((0 : Nat) ≠ 0 ∧ (0 : Nat) ≠ 0) := by simp
  rw [if_neg hs0]
  have hs1 : ¬ ((h.size : Int) - ((28 + 4 * n : Nat) : Int) < 0) := by omega
  rw [if_neg hs1]
  have hs2 : ((h.size : Int) - ((28 + 4 * n : Nat) : Int)).toNat = h.size - (28 + 4 * n) := by omega
  rw [hs2]
  rfl

/-- the pool `StringBlock` builds from an encoded pool -/
def poolOf (u8 : Bool) (strs : List (List Nat)) : Pool :=
  ⟨u8, strs.length, offsetsFrom 0 (strs.map (encStr u8)), pad4 (strs.map (encStr u8)).flatten⟩

theorem readPool_at {bs r : List Nat} {p : Nat} (u8 : Bool) (strs : List (List Nat))
    (h : bs.drop p = encPool u8 strs ++ r) (hlen : (encPool u8 strs).length < 4294967296) :
    readHdr bs.toArray p (some resStringPoolType)
      = some ⟨p, p, 1, 28, (encPool u8 strs).length⟩ ∧
    readHdr bs.toArray p none = some ⟨p, p, 1, 28, (encPool u8 strs).length⟩ ∧
    readPool bs.toArray ⟨p, p, 1, 28, (encPool u8 strs).length⟩ = some (poolOf u8 strs) := by
  generalize hblobs : strs.map (encStr u8) = blobs at *
  have hlen' := hlen
  simp only [encPool, hblobs, chunk_length, List.length_append, enc32_length, encWords_length,
    offsetsFrom_length] at hlen'
  have hbl : blobs.length = strs.length := by rw [← hblobs]; simp
  have hh : ∀ e, (∀ x, e = some x → x = 1) → readHdr bs.toArray p e = some ⟨p, p, 1, 28, (encPool u8 strs).length⟩ := by
    intro e he
    have := readHdr_at e (by simpa only [encPool] using h) (Or.inl (by omega))
      (by simp only [List.length_append, enc32_length]; omega)
      (by simp only [hblobs, List.length_append, enc32_length, encWords_length, offsetsFrom_length]; omega) he
    rw [this]
    simp only [encPool, hblobs, chunk_length, List.length_append, enc32_length, encWords_length,
      offsetsFrom_length]
  refine ⟨hh _ (by intro x hx; simp only [resStringPoolType] at hx; injection hx with hx; exact hx.symm),
    hh none (by intro x hx; cases hx), ?_⟩
  -- the body
  have a8 : bs.drop (p + 8) = enc32 strs.length ++ (enc32 0 ++ (enc32 (if u8 then 256 else 0) ++
      (enc32 (28 + 4 * strs.length) ++ (enc32 0 ++ (encWords (offsetsFrom 0 blobs) ++ (pad4 blobs.flatten ++ r)))))) := by
    have := chunk_body_at (by simpa only [encPool] using h)
    rw [this]
    simp only [hblobs, List.append_assoc]
  have a12 := drop_at' 4 a8 (enc32_length _)
  have a16 := drop_at' 4 a12 (enc32_length _)
  have a20 := drop_at' 4 a16 (enc32_length _)
  have a24 := drop_at' 4 a20 (enc32_length _)
  have a28 := drop_at' 4 a24 (enc32_length _)
  have a28' := drop_at' (4 * strs.length) a28 (by rw [encWords_length, offsetsFrom_length, hbl])
  have e16 : p + 8 + 4 + 4 = p + 8 + 8 := by omega
  have e20 : p + 8 + 4 + 4 + 4 = p + 8 + 12 := by omega
  have e24 : p + 8 + 4 + 4 + 4 + 4 = p + 8 + 16 := by omega
  have e28 : p + 8 + 4 + 4 + 4 + 4 + 4 = p + 8 + 20 := by omega
  rw [e16] at a16; rw [e20] at a20; rw [e24] at a24
  rw [e28] at a28 a28'
  have offs_lt : ∀ w ∈ offsetsFrom 0 blobs, w < 4294967296 := by
    intro w hw
    have := offsetsFrom_le 0 blobs w hw
    have hp : blobs.flatten.length ≤ (pad4 blobs.flatten).length := by simp [pad4]
    omega
  have hm := rdMany32_at (offsetsFrom 0 blobs) a28 offs_lt
  rw [offsetsFrom_length, hbl] at hm
  have hf : (if u8 then 256 else 0) < 4294967296 := by cases u8 <;> simp
  have := readPool_of (b := bs.toArray) (h := ⟨p, p, 1, 28, (encPool u8 strs).length⟩)
    (rd32_at a8 (by omega)) (rd32_at a12 (by omega)) (rd32_at a16 hf) (rd32_at a20 (by omega))
    (rd32_at a24 (by omega)) hm (by
      simp only [encPool, hblobs, chunk_length, List.length_append, enc32_length, encWords_length,
        offsetsFrom_length]; omega)
  rw [this]
  simp only [poolOf, hblobs, slice_eq, a28']
  have hsize : (encPool u8 strs).length - (28 + 4 * strs.length) = (pad4 blobs.flatten).length := by
    simp only [encPool, hblobs, chunk_length, List.length_append, enc32_length, encWords_length,
      offsetsFrom_length]
    omega
  rw [hsize, List.take_left]
  cases u8 <;> simp [utf8Flag]

end AgVerif.Arsc
