/- C01/C02: encode-then-decode (`get_raw()` bytes of an in-range object decode back to the same object) for the classes
   31c 35c 3rc 45cc 4rcc 51l.  GENERATED text (one lemma per class; tactic `ed_tac` of Proof/InsnEncDec.lean). -/
import AgVerif.Proof.InsnEncDec
set_option linter.unusedSimpArgs false
set_option linter.unusedVariables false
namespace AgVerif.Insn
open AgVerif.Gen

theorem ed_31c (op : Nat) (v0 v1 : Int) (hop : op < 256) (h0 : 0 ≤ v0 ∧ v0 < 256) (h1 : 0 ≤ v1 ∧ v1 < 4294967296) :
    EncDec ⟨.f31c, op, [v0, v1]⟩ := by
  ed_tac

theorem ed_35c (op : Nat) (v0 v1 v2 v3 v4 v5 v6 : Int) (hop : op < 256) (h0 : 0 ≤ v0 ∧ v0 < 16) (h1 : 0 ≤ v1 ∧ v1 < 65536) (h2 : 0 ≤ v2 ∧ v2 < 16) (h3 : 0 ≤ v3 ∧ v3 < 16) (h4 : 0 ≤ v4 ∧ v4 < 16) (h5 : 0 ≤ v5 ∧ v5 < 16) (h6 : 0 ≤ v6 ∧ v6 < 16) :
    EncDec ⟨.f35c, op, [v0, v1, v2, v3, v4, v5, v6]⟩ := by
  ed_tac

theorem ed_3rc (op : Nat) (v0 v1 v2 : Int) (hop : op < 256) (h0 : 0 ≤ v0 ∧ v0 < 256) (h1 : 0 ≤ v1 ∧ v1 < 65536) (h2 : 0 ≤ v2 ∧ v2 < 65536) :
    EncDec ⟨.f3rc, op, [v0, v1, v2]⟩ := by
  ed_tac

theorem ed_45cc (op : Nat) (v0 v1 v2 v3 v4 v5 v6 v7 : Int) (hop : op < 256) (h0 : 0 ≤ v0 ∧ v0 < 6) (h1 : 0 ≤ v1 ∧ v1 < 65536) (h2 : 0 ≤ v2 ∧ v2 < 16) (h3 : 0 ≤ v3 ∧ v3 < 16) (h4 : 0 ≤ v4 ∧ v4 < 16) (h5 : 0 ≤ v5 ∧ v5 < 16) (h6 : 0 ≤ v6 ∧ v6 < 16) (h7 : 0 ≤ v7 ∧ v7 < 65536) :
    EncDec ⟨.f45cc, op, [v0, v1, v2, v3, v4, v5, v6, v7]⟩ := by
  ed_tac

theorem ed_4rcc (op : Nat) (v0 v1 v2 v3 : Int) (hop : op < 256) (h0 : 0 ≤ v0 ∧ v0 < 256) (h1 : 0 ≤ v1 ∧ v1 < 65536) (h2 : 0 ≤ v2 ∧ v2 < 65536) (h3 : 0 ≤ v3 ∧ v3 < 65536) :
    EncDec ⟨.f4rcc, op, [v0, v1, v2, v3]⟩ := by
  ed_tac

theorem ed_51l (op : Nat) (v0 v1 : Int) (hop : op < 256) (h0 : 0 ≤ v0 ∧ v0 < 256) (h1 : -9223372036854775808 ≤ v1 ∧ v1 < 9223372036854775808) :
    EncDec ⟨.f51l, op, [v0, v1]⟩ := by
  unfold EncDec
  simp only [encode, packArgs, Opcodes.packFmt, m0, m1, m2, m3, m4, m5, m7, m8, Opcodes.length]
  simp (disch := pack_disch) only [pack_cons_some, pack_nil, Option.map_some, SC.size]
  simp only [leBytes, leBytesFrom, Int.reduceMul, Int.ediv_one, List.cons_append, List.nil_append]
  refine ⟨_, rfl, rfl, ?_, ?_, ?_⟩
  · simp only [allBytes_cons, allBytes_nil, and_true]; ed_fin
  · simp only [List.head?_cons, Option.some.injEq]; omega
  · intro rest
    simp only [List.cons_append, List.nil_append]
    simp [decode, Opcodes.unpackFmt, Opcodes.length, unpack, calcsize, SC.size, unpackGo, leNat,
      SC.value, post, m0, m1, m2, m3, m4, m5, m7, m8]
    have hm : ∀ x : Int, max (x % 256) 0 = x % 256 := by intro x; omega
    simp only [hm, le8_sum]
    ed_fin

end AgVerif.Insn
