/-
C07, extended loader: when MapList.__init__ runs the extended item parser of an entry, the tables of
all (transitively) declared dependencies of its type are already final (`depsX_final`): frame
(Proof/DexXFrame.lean) + adequacy + the sorted load order (Proof/DexFinal.lean).
-/
import AgVerif.Proof.DexXFrame
import AgVerif.Proof.DexFinal
namespace AgVerif.DexFrame
open AgVerif.DexFile AgVerif.LoadOrder AgVerif.Gen.MapDeps

theorem sameTableX_symm {t : Nat} {a b : CMx} (h : sameTableX t a b) : sameTableX t b a := by
  obtain ⟨h0, h1, h2, h3, h4, h5, h6⟩ := h
  exact ⟨sameTable_symm h0, fun e => (h1 e).symm, fun e => (h2 e).symm, fun e => (h3 e).symm,
    fun e => (h4 e).symm, fun e => (h5 e).symm, fun e => ⟨(h6 e).1.symm, (h6 e).2.symm⟩⟩

theorem sameTableX_trans {t : Nat} {a b c : CMx} (h : sameTableX t a b) (h' : sameTableX t b c) :
    sameTableX t a c := by
  obtain ⟨h0, h1, h2, h3, h4, h5, h6⟩ := h
  obtain ⟨g0, g1, g2, g3, g4, g5, g6⟩ := h'
  exact ⟨sameTable_trans h0 g0, fun e => (h1 e).trans (g1 e), fun e => (h2 e).trans (g2 e),
    fun e => (h3 e).trans (g3 e), fun e => (h4 e).trans (g4 e), fun e => (h5 e).trans (g5 e),
    fun e => ⟨(h6 e).1.trans (g6 e).1, (h6 e).2.trans (g6 e).2⟩⟩

/-- an extended item parser writes only the table(s) of its own type -/
theorem stepX_preserves (file : Bytes) (cx cx' : CMx) (e : MapEntry) (h : stepX file cx e = .ok cx') :
    ∀ t, t ≠ e.type → sameTableX t cx' cx := by
  have hf := stepX_frame_reads file e cx cx (fun t _ => sameTableX_refl t cx)
  unfold FrameOKX at hf
  rw [h] at hf
  exact fun t ht => (hf.2 t ht).1

theorem foldX_preserves (file : Bytes) : ∀ (l : List MapEntry) (s fin : CMx),
    foldSteps (stepX file) s l = .ok fin → ∀ t, t ∉ l.map (·.type) → sameTableX t fin s
  | [], s, fin, h, t, _ => by
    simp only [foldSteps, Except.ok.injEq] at h
    subst h; exact sameTableX_refl t _
  | e :: l, s, fin, h, t, ht => by
    simp only [foldSteps] at h
    cases hs : stepX file s e with
    | error x => simp [hs] at h
    | ok s' =>
      simp only [hs] at h
      simp only [List.map_cons, List.mem_cons, not_or] at ht
      exact sameTableX_trans (foldX_preserves file l s' fin h t ht.2) (stepX_preserves file s s' e hs t ht.1)

/-- when the extended parser of `e` runs (state `s`, after the entries before it), the tables of all
    declared dependencies of its type already are what they will be at the end (`fin`); hence
    running it against the final state gives the same table -/
theorem depsX_final (file : Bytes) (es pre post : List MapEntry) (e : MapEntry) (init s fin : CMx)
    (hord : orderEntries loadOrder es = some (pre ++ e :: post))
    (hpre : foldSteps (stepX file) init pre = .ok s)
    (hfin : foldSteps (stepX file) init (pre ++ e :: post) = .ok fin) :
    agreeOnX (closure deps e.type) s fin ∧ FrameOKX file e s fin := by
  have hrest : foldSteps (stepX file) s (e :: post) = .ok fin := by
    rw [foldSteps_append, hpre] at hfin
    exact hfin
  have hag : agreeOnX (closure deps e.type) s fin := fun D hD =>
    sameTableX_symm (foldX_preserves file (e :: post) s fin hrest D (deps_not_later es pre post e hord D hD))
  exact ⟨hag, stepX_frame_of_adequate deps readsX_adequate file e s fin hag⟩

end AgVerif.DexFrame
