/- C01: byte round trip of the classes 20t 20bc 22x 21t 21s 21h 21c (generated layout; tactic `rt4` of Proof/InsnRoundtrip.lean) -/
import AgVerif.Proof.InsnRoundtrip
set_option linter.unusedSimpArgs false
set_option linter.unusedVariables false
namespace AgVerif.Insn
open AgVerif.Gen

theorem rt_20t (bs : List Nat) (hb : AllBytes bs) (x : Insn) (h : decode .f20t bs = .ok x) :
    encode x = some (bs.take (Opcodes.length .f20t)) := by
  have hl := decode_ok_length h
  rt4

theorem rt_20bc (bs : List Nat) (hb : AllBytes bs) (x : Insn) (h : decode .f20bc bs = .ok x) :
    encode x = some (bs.take (Opcodes.length .f20bc)) := by
  have hl := decode_ok_length h
  rt4

theorem rt_22x (bs : List Nat) (hb : AllBytes bs) (x : Insn) (h : decode .f22x bs = .ok x) :
    encode x = some (bs.take (Opcodes.length .f22x)) := by
  have hl := decode_ok_length h
  rt4

theorem rt_21t (bs : List Nat) (hb : AllBytes bs) (x : Insn) (h : decode .f21t bs = .ok x) :
    encode x = some (bs.take (Opcodes.length .f21t)) := by
  have hl := decode_ok_length h
  rt4

theorem rt_21s (bs : List Nat) (hb : AllBytes bs) (x : Insn) (h : decode .f21s bs = .ok x) :
    encode x = some (bs.take (Opcodes.length .f21s)) := by
  have hl := decode_ok_length h
  rt4

theorem rt_21h (bs : List Nat) (hb : AllBytes bs) (x : Insn) (h : decode .f21h bs = .ok x) :
    encode x = some (bs.take (Opcodes.length .f21h)) := by
  have hl := decode_ok_length h
  rt4

theorem rt_21c (bs : List Nat) (hb : AllBytes bs) (x : Insn) (h : decode .f21c bs = .ok x) :
    encode x = some (bs.take (Opcodes.length .f21c)) := by
  have hl := decode_ok_length h
  rt4

end AgVerif.Insn
