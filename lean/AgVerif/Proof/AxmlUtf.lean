/- C26: character round trips of the string pool (UTF-16-LE and UTF-8 decoders of the model on the Spec encoders). -/
import AgVerif.Spec.AxmlFile
namespace AgVerif.Proof.Axml
open AgVerif.Axml AgVerif.Spec.Axml

/-! ## UTF-16-LE -/

theorem utf_unitsLE_flatMap (us : List Nat) : unitsLE (us.flatMap unitBytes) = us := by
  induction us with
  | nil => simp [unitsLE]
  | cons u r ih =>
    simp only [List.flatMap_cons, unitBytes, List.cons_append, List.nil_append, unitsLE]
    rw [ih]
    congr 1
    omega

theorem utf_units16s_cons (c : Nat) (s : Str) : units16s (c :: s) = units16 c ++ units16s s := by
  simp [units16s]

theorem utf_units16s_append (a b : Str) : units16s (a ++ b) = units16s a ++ units16s b := by
  simp [units16s]

/-- one scalar value is decoded from its unit(s), whatever follows -/
theorem utf_dec16U_scalar (c : Nat) (hc : Scalar c) (r : List Nat) :
    dec16U (units16 c ++ r) = c :: dec16U r := by
  unfold Scalar at hc
  unfold units16
  by_cases h : c < 0x10000
  · rw [if_pos h]
    have hH : isHighSur c = false := by simp [isHighSur]; omega
    have hL : isLowSur c = false := by simp [isLowSur]; omega
    cases r with
    | nil => simp [dec16U, hH, hL]
    | cons v r' => simp [dec16U, hH, hL]
  · rw [if_neg h]
    have hH : isHighSur (0xD800 + (c - 0x10000) / 1024) = true := by simp [isHighSur]; omega
    have hL : isLowSur (0xDC00 + (c - 0x10000) % 1024) = true := by simp [isLowSur]; omega
    simp only [List.cons_append, List.nil_append, dec16U, hH, hL, if_true]
    exact List.cons_eq_cons.mpr ⟨by omega, rfl⟩

theorem utf_dec16U_units16s (s : Str) (h : ∀ c ∈ s, Scalar c) (r : List Nat) :
    dec16U (units16s s ++ r) = s ++ dec16U r := by
  induction s with
  | nil => simp [units16s]
  | cons c s ih =>
    rw [utf_units16s_cons, List.append_assoc, utf_dec16U_scalar c (h c (by simp))]
    rw [ih (fun x hx => h x (by simp [hx]))]
    simp

/-- a surrogate unit that is followed by the units of scalar values is replaced -/
theorem utf_dec16U_lone (c : Nat) (hc : 0xD800 ≤ c ∧ c < 0xE000) (post : Str) (hpost : ∀ x ∈ post, Scalar x) :
    dec16U (c :: units16s post) = 0xFFFD :: dec16U (units16s post) := by
  cases post with
  | nil =>
    have : (isHighSur c || isLowSur c) = true := by simp [isHighSur, isLowSur]; omega
    simp [units16s, dec16U, this]
  | cons p post' =>
    have hp : Scalar p := hpost p (by simp)
    unfold Scalar at hp
    rw [utf_units16s_cons]
    unfold units16
    by_cases h : p < 0x10000
    · rw [if_pos h]
      have hLp : isLowSur p = false := by simp [isLowSur]; omega
      simp only [List.cons_append, List.nil_append]
      rw [dec16U]
      by_cases hH : isHighSur c = true
      · simp [hH, hLp]
      · have hL : isLowSur c = true := by simp [isHighSur, isLowSur] at hH ⊢; omega
        simp [hH, hL]
    · rw [if_neg h]
      have hLp : isLowSur (0xD800 + (p - 0x10000) / 1024) = false := by simp [isLowSur]; omega
      simp only [List.cons_append, List.nil_append]
      rw [dec16U]
      by_cases hH : isHighSur c = true
      · simp [hH, hLp]
      · have hL : isLowSur c = true := by simp [isHighSur, isLowSur] at hH ⊢; omega
        simp [hH, hL]

theorem utf_map_id (s : Str) (h : ∀ c ∈ s, c ≠ 0x110000) :
    s.map (fun c => if c = 0x110000 then 0xFFFD else c) = s := by
  induction s with
  | nil => rfl
  | cons c s ih =>
    rw [List.map_cons, if_neg (h c (by simp)), ih (fun x hx => h x (by simp [hx]))]

theorem utf_scalar_ne (c : Nat) (h : Scalar c) : c ≠ 0x110000 := by
  unfold Scalar at h; omega

theorem dec16_enc16 (s : Str) (h : ∀ c ∈ s, Scalar c) : dec16 (enc16 s) = s := by
  unfold dec16 enc16
  rw [utf_unitsLE_flatMap]
  have := utf_dec16U_units16s s h []
  rw [List.append_nil] at this
  rw [this]
  simp only [dec16U, List.append_nil]
  exact utf_map_id s (fun c hc => utf_scalar_ne c (h c hc))

/-- a lone surrogate (high or low) between scalar values decodes to one U+FFFD -/
theorem dec16_lone_surrogate (pre post : Str) (c : Nat) (hpre : ∀ x ∈ pre, Scalar x) (hpost : ∀ x ∈ post, Scalar x)
    (hc : 0xD800 ≤ c ∧ c < 0xE000) : dec16 (enc16 (pre ++ c :: post)) = pre ++ 0xFFFD :: post := by
  unfold dec16 enc16
  rw [utf_unitsLE_flatMap, utf_units16s_append, utf_units16s_cons]
  have hu : units16 c = [c] := by unfold units16; rw [if_pos (by omega)]
  rw [hu, utf_dec16U_units16s pre hpre]
  simp only [List.cons_append, List.nil_append]
  rw [utf_dec16U_lone c hc post hpost]
  have := utf_dec16U_units16s post hpost []
  rw [List.append_nil] at this
  rw [this]
  simp only [dec16U, List.append_nil]
  apply utf_map_id
  intro x hx
  simp only [List.mem_append, List.mem_cons] at hx
  rcases hx with hx | hx | hx
  · exact utf_scalar_ne x (hpre x hx)
  · omega
  · exact utf_scalar_ne x (hpost x hx)

/-! ## UTF-8 -/

theorem utf_dec8F_nil (fuel : Nat) : dec8F fuel [] = [] := by
  cases fuel <;> simp [dec8F]

theorem utf_dec8F_1 (fuel b0 : Nat) (r : Bytes) (h : b0 < 0x80) :
    dec8F (fuel + 1) (b0 :: r) = b0 :: dec8F fuel r := by
  rw [dec8F.eq_def]
  simp only []
  rw [if_pos h]

theorem utf_dec8F_bad (fuel b0 : Nat) (r : Bytes) (h : 0x80 ≤ b0) (h' : b0 < 0xC2) :
    dec8F (fuel + 1) (b0 :: r) = 0xFFFD :: dec8F fuel r := by
  rw [dec8F.eq_def]
  simp only []
  rw [if_neg (by omega), if_pos h']

theorem utf_dec8F_2 (fuel b0 b1 : Nat) (r : Bytes) (h0 : 0xC2 ≤ b0) (h0' : b0 < 0xE0)
    (h1 : 0x80 ≤ b1) (h1' : b1 ≤ 0xBF) :
    dec8F (fuel + 1) (b0 :: b1 :: r) = ((b0 - 0xC0) * 64 + (b1 - 0x80)) :: dec8F fuel r := by
  have hc : isCont b1 = true := by simp [isCont, h1, h1']
  rw [dec8F.eq_def]
  simp only []
  rw [if_neg (by omega), if_neg (by omega), if_pos h0']
  simp [hc]

theorem utf_dec8F_3 (fuel b0 b1 b2 : Nat) (r : Bytes) (h0 : 0xE0 ≤ b0) (h0' : b0 < 0xF0)
    (h1 : 0x80 ≤ b1) (h1' : b1 ≤ 0xBF) (hE0 : b0 = 0xE0 → 0xA0 ≤ b1) (hED : b0 = 0xED → b1 < 0xA0)
    (h2 : 0x80 ≤ b2) (h2' : b2 ≤ 0xBF) :
    dec8F (fuel + 1) (b0 :: b1 :: b2 :: r)
      = ((b0 - 0xE0) * 4096 + (b1 - 0x80) * 64 + (b2 - 0x80)) :: dec8F fuel r := by
  have hc1 : isCont b1 = true := by simp [isCont, h1, h1']
  have hc2 : isCont b2 = true := by simp [isCont, h2, h2']
  have ha : (if b0 = 0xE0 then decide (0xA0 ≤ b1) else true) = true := by
    split
    · next h => simp [hE0 h]
    · rfl
  have hb : (if b0 = 0xED then decide (b1 < 0xA0) else true) = true := by
    split
    · next h => simp [hED h]
    · rfl
  rw [dec8F.eq_def]
  simp only []
  rw [if_neg (by omega), if_neg (by omega), if_neg (by omega), if_pos h0']
  simp [hc1, hc2, ha, hb]

/-- the second byte of `ED A0..BF ..` is refused: the lead byte alone is replaced -/
theorem utf_dec8F_ED (fuel b1 : Nat) (r : Bytes) (h1 : 0xA0 ≤ b1) :
    dec8F (fuel + 1) (0xED :: b1 :: r) = 0xFFFD :: dec8F fuel (b1 :: r) := by
  have hb : decide (b1 < 0xA0) = false := by simp; omega
  rw [dec8F.eq_def]
  simp [hb]

theorem utf_dec8F_4 (fuel b0 b1 b2 b3 : Nat) (r : Bytes) (h0 : 0xF0 ≤ b0) (h0' : b0 < 0xF5)
    (h1 : 0x80 ≤ b1) (h1' : b1 ≤ 0xBF) (hF0 : b0 = 0xF0 → 0x90 ≤ b1) (hF4 : b0 = 0xF4 → b1 < 0x90)
    (h2 : 0x80 ≤ b2) (h2' : b2 ≤ 0xBF) (h3 : 0x80 ≤ b3) (h3' : b3 ≤ 0xBF) :
    dec8F (fuel + 1) (b0 :: b1 :: b2 :: b3 :: r)
      = ((b0 - 0xF0) * 262144 + (b1 - 0x80) * 4096 + (b2 - 0x80) * 64 + (b3 - 0x80)) :: dec8F fuel r := by
  have hc1 : isCont b1 = true := by simp [isCont, h1, h1']
  have hc2 : isCont b2 = true := by simp [isCont, h2, h2']
  have hc3 : isCont b3 = true := by simp [isCont, h3, h3']
  have ha : (if b0 = 0xF0 then decide (0x90 ≤ b1) else true) = true := by
    split
    · next h => simp [hF0 h]
    · rfl
  have hb : (if b0 = 0xF4 then decide (b1 < 0x90) else true) = true := by
    split
    · next h => simp [hF4 h]
    · rfl
  rw [dec8F.eq_def]
  simp only []
  rw [if_neg (by omega), if_neg (by omega), if_neg (by omega), if_neg (by omega), if_pos h0']
  simp [hc1, hc2, hc3, ha, hb]

/-- one scalar value is decoded from its bytes, whatever follows -/
theorem utf_dec8F_scalar (c : Nat) (hc : Scalar c) (fuel : Nat) (r : Bytes) :
    dec8F (fuel + 1) (bytes8 c ++ r) = c :: dec8F fuel r := by
  unfold Scalar at hc
  unfold bytes8
  by_cases h1 : c < 0x80
  · rw [if_pos h1]
    exact utf_dec8F_1 fuel c r h1
  · rw [if_neg h1]
    by_cases h2 : c < 0x800
    · rw [if_pos h2]
      simp only [List.cons_append, List.nil_append]
      rw [utf_dec8F_2 fuel _ _ r (by omega) (by omega) (by omega) (by omega)]
      exact List.cons_eq_cons.mpr ⟨by omega, rfl⟩
    · rw [if_neg h2]
      by_cases h3 : c < 0x10000
      · rw [if_pos h3]
        simp only [List.cons_append, List.nil_append]
        rw [utf_dec8F_3 fuel _ _ _ r (by omega) (by omega) (by omega) (by omega) (by omega) (by omega)
          (by omega) (by omega)]
        exact List.cons_eq_cons.mpr ⟨by omega, rfl⟩
      · rw [if_neg h3]
        simp only [List.cons_append, List.nil_append]
        rw [utf_dec8F_4 fuel _ _ _ _ r (by omega) (by omega) (by omega) (by omega) (by omega) (by omega)
          (by omega) (by omega) (by omega) (by omega)]
        exact List.cons_eq_cons.mpr ⟨by omega, rfl⟩

/-- the three bytes `ED A0..BF 80..BF` of a surrogate: three replacement characters -/
theorem utf_dec8F_sur (c : Nat) (hc : 0xD800 ≤ c ∧ c < 0xE000) (fuel : Nat) (r : Bytes) :
    dec8F (fuel + 3) (bytes8 c ++ r) = 0xFFFD :: 0xFFFD :: 0xFFFD :: dec8F fuel r := by
  unfold bytes8
  rw [if_neg (by omega), if_neg (by omega), if_pos (by omega)]
  simp only [List.cons_append, List.nil_append]
  have e : 0xE0 + c / 4096 = 0xED := by omega
  rw [e, utf_dec8F_ED (fuel + 2) _ _ (by omega)]
  rw [utf_dec8F_bad (fuel + 1) _ _ (by omega) (by omega)]
  rw [utf_dec8F_bad fuel _ _ (by omega) (by omega)]

theorem utf_enc8_cons (c : Nat) (s : Str) : enc8 (c :: s) = bytes8 c ++ enc8 s := by
  simp [enc8]

theorem utf_enc8_append (a b : Str) : enc8 (a ++ b) = enc8 a ++ enc8 b := by
  simp [enc8]

theorem utf_bytes8_length (c : Nat) : 1 ≤ (bytes8 c).length := by
  unfold bytes8
  split
  · simp
  · split
    · simp
    · split <;> simp

theorem utf_enc8_length (s : Str) : s.length ≤ (enc8 s).length := by
  induction s with
  | nil => simp [enc8]
  | cons c s ih =>
    rw [utf_enc8_cons, List.length_append, List.length_cons]
    have := utf_bytes8_length c
    omega

theorem utf_dec8F_enc8 (s : Str) (h : ∀ c ∈ s, Scalar c) (r : Bytes) :
    ∀ fuel, s.length ≤ fuel → dec8F fuel (enc8 s ++ r) = s ++ dec8F (fuel - s.length) r := by
  induction s with
  | nil => intro fuel _; simp [enc8]
  | cons c s ih =>
    intro fuel hf
    rw [List.length_cons] at hf
    obtain ⟨f, rfl⟩ : ∃ f, fuel = f + 1 := ⟨fuel - 1, by omega⟩
    rw [utf_enc8_cons, List.append_assoc, utf_dec8F_scalar c (h c (by simp))]
    rw [ih (fun x hx => h x (by simp [hx])) f (by omega)]
    simp

theorem dec8_enc8 (s : Str) (h : ∀ c ∈ s, Scalar c) : dec8 (enc8 s) = s := by
  unfold dec8
  have := utf_dec8F_enc8 s h [] (enc8 s).length (utf_enc8_length s)
  rw [List.append_nil] at this
  rw [this, utf_dec8F_nil, List.append_nil]

/-- the three-byte form of a surrogate (CESU-8 / "modified UTF-8" style) is rejected byte by byte: three U+FFFD -/
theorem dec8_surrogate (pre post : Str) (c : Nat) (hpre : ∀ x ∈ pre, Scalar x) (hpost : ∀ x ∈ post, Scalar x)
    (hc : 0xD800 ≤ c ∧ c < 0xE000) : dec8 (enc8 (pre ++ c :: post)) = pre ++ 0xFFFD :: 0xFFFD :: 0xFFFD :: post := by
  unfold dec8
  rw [utf_enc8_append, utf_enc8_cons]
  have hl : (bytes8 c).length = 3 := by
    unfold bytes8
    rw [if_neg (by omega), if_neg (by omega), if_pos (by omega)]
    rfl
  have h1 := utf_enc8_length pre
  have h2 := utf_enc8_length post
  generalize hF : (enc8 pre ++ (bytes8 c ++ enc8 post)).length = F
  have hFl : pre.length + 3 + post.length ≤ F := by
    rw [← hF]; simp only [List.length_append, hl]; omega
  rw [utf_dec8F_enc8 pre hpre _ F (by omega)]
  obtain ⟨g, hg⟩ : ∃ g, F - pre.length = g + 3 := ⟨F - pre.length - 3, by omega⟩
  rw [hg, utf_dec8F_sur c hc]
  have := utf_dec8F_enc8 post hpost [] g (by omega)
  rw [List.append_nil] at this
  rw [this, utf_dec8F_nil, List.append_nil]

/-! ## lengths -/

theorem enc16_length (s : Str) : (enc16 s).length = 2 * (units16s s).length := by
  unfold enc16
  generalize units16s s = us
  induction us with
  | nil => rfl
  | cons u r ih =>
    simp only [List.flatMap_cons, List.length_append, List.length_cons, ih, unitBytes, List.length_nil]
    omega

end AgVerif.Proof.Axml
