/-
C18, Lengauer–Tarjan correctness, layer 5a: invariants of the main loop (Steps 2 and 3) of the model,
and Step 2 (`step2`): after the loop over `pred[w]`, `semi[w]` is the number of the semidominator of
`w` (Theorem 4 of the paper).

Throughout, `s0` is the state left by Step 1; `s0.semi` is the DFS numbering `num`, `s0.parent` the
DFS tree.  "Level `i`" means: the vertices numbered above `i` have been processed (linked).
-/
import AgVerif.Proof.DomLT_Eval
import AgVerif.Proof.DomLT_Dfs2
namespace AgVerif.DomLT
open AgVerif AgVerif.Spec

/-- what Step 1 leaves -/
structure Ctx (g : Digraph) (s0 : St) (n : Nat) : Prop where
  facts : DfsFacts g s0 n
  tree : DTree g.Edge g.entry s0.semi s0.parent
  bucket0 : ∀ u, s0.bucket u = []
  dom0 : ∀ v, s0.dom v = none
  fuel : n ≤ g.n

/-- fields that Steps 2–4 never write -/
structure Stat (s0 s : St) : Prop where
  vertex : s.vertex = s0.vertex
  parent : s.parent = s0.parent
  pred : s.pred = s0.pred

structure Core (g : Digraph) (s0 : St) (i : Nat) (s : St) : Prop where
  stat : Stat s0 s
  /-- processed vertices hold the number of their semidominator -/
  semi_hi : ∀ v, i < s0.semi v → ∃ sv, IsSemi g.Edge s0.semi sv v ∧ s.semi v = s0.semi sv
  dom_none : ∀ v, s0.semi v = 0 → s.dom v = none

theorem FInv.congr {num : Nat → Nat} {par : Nat → Option Nat} {i : Nat} {s s' : St}
    (h : FInv num par i s) (hanc : s'.ancestor = s.ancestor) (hlab : s'.label = s.label)
    (hsemi : ∀ x, i < num x → s'.semi x = s.semi x) : FInv num par i s' := by
  refine ⟨by rw [hanc]; exact h.anc_none, by rw [hanc]; exact h.anc_root,
    by rw [hlab]; exact h.label_root, ?_⟩
  intro v hv
  obtain ⟨a, l, h1, h2, h3, h4, h5, h6, h7⟩ := h.anc_link v hv
  refine ⟨a, l, by rw [hanc]; exact h1, by rw [hlab]; exact h2, h3, h4, h5, h6, ?_⟩
  intro u hu
  rw [hsemi l (h5 l h6), hsemi u (h5 u hu)]
  exact h7 u hu

/-- `_link(parent[w], w)` for the vertex `w` numbered `i + 1` takes the forest from level `i + 1` to
    level `i` -/
theorem FInv.link {E : Nat → Nat → Prop} {r : Nat} {num : Nat → Nat} {par : Nat → Option Nat}
    (T : DTree E r num par) {i : Nat} {s s' : St} {w pw : Nat}
    (h : FInv num par (i + 1) s) (hw : num w = i + 1) (hp : par w = some pw)
    (hanc : s'.ancestor = upd s.ancestor w (some (some pw))) (hlab : s'.label = s.label)
    (hsemi : s'.semi = s.semi) : FInv num par i s' := by
  have hne : ∀ x, num x ≠ i + 1 → x ≠ w := fun x hx e => hx (e ▸ hw)
  refine ⟨?_, ?_, ?_, ?_⟩
  · intro x hx
    rw [hanc]; simp only [upd, if_neg (hne x (by omega))]; exact h.anc_none x hx
  · intro x hx hle
    rw [hanc]; simp only [upd, if_neg (hne x (by omega))]; exact h.anc_root x hx (by omega)
  · intro x hx hle
    rw [hlab]; exact h.label_root x hx (by omega)
  · intro x hx
    by_cases hxw : x = w
    · subst hxw
      have hseg : ∀ z, Seg par pw x z → z = x := by
        intro z hz
        cases hz.2.2 with
        | refl => rfl
        | step hp' hz' =>
          rw [hp] at hp'; cases hp'
          exact absurd (T.anc_antisymm hz' hz.1) hz.2.1
      have hpx : pw ≠ x := fun e => by
        have := (T.par_edge x pw hp).2.2; rw [e] at this; omega
      refine ⟨pw, x, by rw [hanc]; simp [upd], by rw [hlab]; exact h.label_root x (by omega) (by omega),
        Anc.parent hp, hpx, ?_, ⟨Anc.parent hp, fun e => hpx e.symm, Anc.refl _⟩, ?_⟩
      · intro z hz; rw [hseg z hz]; omega
      · intro z hz; rw [hseg z hz]; exact Nat.le_refl _
    · have hx' : i + 1 < num x := by
        have : num x ≠ i + 1 := fun e => hxw (T.inj x w (by omega) (by omega))
        omega
      obtain ⟨a, l, h1, h2, h3, h4, h5, h6, h7⟩ := h.anc_link x hx'
      refine ⟨a, l, by rw [hanc]; simp only [upd, if_neg hxw]; exact h1, by rw [hlab]; exact h2,
        h3, h4, fun u hu => by have := h5 u hu; omega, h6, ?_⟩
      rw [hsemi]; exact h7

/-- invariant of the Step 2 loop for `w` (numbered `i`); `Q` = predecessors already looked at -/
structure P2 (g : Digraph) (s0 : St) (i w : Nat) (s : St) (Q : Nat → Prop) : Prop where
  core : Core g s0 i s
  finv : FInv s0.semi s0.parent i s
  semi_lo : ∀ v, s0.semi v ≤ i → v ≠ w → s.semi v = s0.semi v
  sw_le : s.semi w ≤ s0.semi w
  sw_path : s.semi w = s0.semi w ∨ ∃ x, SemiPath g.Edge s0.semi x w ∧ s.semi w = s0.semi x
  lb : ∀ v, Q v → s.semi w ≤ s0.semi v ∧
    ∀ u x, Anc s0.parent u v → i < s0.semi u → SemiPath g.Edge s0.semi x u → s.semi w ≤ s0.semi x

/-- what Step 2 for `w` leaves alone -/
structure Fr2 (w : Nat) (s s' : St) : Prop where
  bucket : s'.bucket = s.bucket
  dom : s'.dom = s.dom
  semi : ∀ v, v ≠ w → s'.semi v = s.semi v

theorem step2_one {g : Digraph} {s0 : St} {n : Nat} (C : Ctx g s0 n) {i w f v : Nat} {s : St}
    {Q : Nat → Prop} (hw : s0.semi w = i) (hi : 1 ≤ i) (h : P2 g s0 i w s Q) (hv : s0.semi v ≠ 0)
    (e : g.Edge v w) (hf : s0.semi v < f) :
    ∃ s1 u, eval f s v = some (s1, u) ∧
      P2 g s0 i w { s1 with semi := upd s1.semi w (min (s1.semi w) (s1.semi u)) } (fun x => Q x ∨ x = v) ∧
      Fr2 w s { s1 with semi := upd s1.semi w (min (s1.semi w) (s1.semi u)) } := by
  have T := C.tree
  obtain ⟨s1, u, he, hF1, hS, hres⟩ := eval_spec T i f s v h.finv hv hf
  refine ⟨s1, u, he, ?_, ⟨hS.bucket, hS.dom, fun x hx => by simp [upd, hx, hS.semi]⟩⟩
  have hy1 : min (s1.semi w) (s1.semi u) ≤ s.semi w := by rw [hS.semi]; omega
  have hy2 : min (s1.semi w) (s1.semi u) ≤ s.semi u := by rw [hS.semi]; omega
  have hy3 : min (s1.semi w) (s1.semi u) = s.semi w ∨ min (s1.semi w) (s1.semi u) = s.semi u := by
    rw [hS.semi]; omega
  have hsw : (upd s1.semi w (min (s1.semi w) (s1.semi u))) w = min (s1.semi w) (s1.semi u) := by
    simp [upd]
  have hso : ∀ x, x ≠ w → (upd s1.semi w (min (s1.semi w) (s1.semi u))) x = s.semi x := by
    intro x hx; simp [upd, hx, hS.semi]
  have hnw : ∀ x, i < s0.semi x → x ≠ w := fun x hx e => by subst e; omega
  -- the candidate `semi[u]` is justified by a semipath or is no improvement
  have hcand : s.semi u = s.semi w ∨ ∃ x, SemiPath g.Edge s0.semi x w ∧ s.semi u = s0.semi x := by
    rcases hres with ⟨hvi, huv⟩ | ⟨hvi, hui, hanc, _⟩
    · subst huv
      by_cases hvw : u = w
      · subst hvw; exact Or.inl rfl
      · exact Or.inr ⟨u, semipath_edge e hv, h.semi_lo u hvi hvw⟩
    · obtain ⟨su, hsu, hsemi⟩ := h.core.semi_hi u hui
      exact Or.inr ⟨su, T.semipath_via_pred e hanc (by omega) hsu.1, hsemi⟩
  -- lower bound contributed by `v`
  have hlbv : s.semi u ≤ s0.semi v ∨ (v = w ∧ s.semi u = s.semi w) := by
    rcases hres with ⟨hvi, huv⟩ | ⟨hvi, hui, hanc, hmin⟩
    · subst huv
      by_cases hvw : u = w
      · exact Or.inr ⟨hvw, by rw [hvw]⟩
      · exact Or.inl (by rw [h.semi_lo u hvi hvw]; exact Nat.le_refl _)
    · left
      obtain ⟨sv, hsv, hsemi⟩ := h.core.semi_hi v hvi
      have hvr : v ≠ g.entry := fun e' => by
        have := C.facts.entry_one; rw [← e'] at this; omega
      have := T.semi_lt hv hvr hsv
      have := hmin v (Anc.refl _) hvi
      omega
  refine ⟨⟨⟨hS.vertex.trans h.core.stat.vertex, hS.parent.trans h.core.stat.parent,
      hS.pred.trans h.core.stat.pred⟩, ?_, by rw [hS.dom]; exact h.core.dom_none⟩, ?_, ?_, ?_, ?_, ?_⟩
  · intro x hx
    obtain ⟨sx, h1, h2⟩ := h.core.semi_hi x hx
    exact ⟨sx, h1, by rw [← h2]; exact hso x (hnw x hx)⟩
  · exact hF1.congr rfl rfl (fun x hx => by simp [upd, hnw x hx])
  · intro x hx hxw
    rw [← h.semi_lo x hx hxw]; exact hso x hxw
  · show (upd s1.semi w _) w ≤ _
    rw [hsw]; have := h.sw_le; omega
  · show (upd s1.semi w _) w = _ ∨ ∃ x, _ ∧ (upd s1.semi w _) w = _
    rw [hsw]
    rcases hy3 with h3 | h3
    · rw [h3]; exact h.sw_path
    · rw [h3]
      rcases hcand with h4 | h4
      · rw [h4]; exact h.sw_path
      · exact Or.inr h4
  · intro x hx
    show (upd s1.semi w _) w ≤ _ ∧ ∀ u' x', _ → _ → _ → (upd s1.semi w _) w ≤ _
    rw [hsw]
    rcases hx with hx | hx
    · obtain ⟨h1, h2⟩ := h.lb x hx
      exact ⟨by omega, fun u' x' a b c => by have := h2 u' x' a b c; omega⟩
    · subst hx
      constructor
      · rcases hlbv with h1 | ⟨h1, h2⟩
        · omega
        · have := h.sw_le; rw [h1]; omega
      · intro u' x' hanc' hu' hsp
        rcases hres with ⟨hvi, _⟩ | ⟨hvi, hui, hanc, hmin⟩
        · have := T.anc_le hanc'; omega
        · obtain ⟨su', hsu', hsemi'⟩ := h.core.semi_hi u' hu'
          have := hmin u' hanc' hu'
          have := hsu'.2 x' hsp
          omega

theorem P2.mono {g : Digraph} {s0 : St} {i w : Nat} {s : St} {Q Q' : Nat → Prop}
    (h : P2 g s0 i w s Q) (hq : ∀ x, Q' x → Q x) : P2 g s0 i w s Q' :=
  ⟨h.core, h.finv, h.semi_lo, h.sw_le, h.sw_path, fun v hv => h.lb v (hq v hv)⟩

theorem Fr2.trans {w : Nat} {a b c : St} (h1 : Fr2 w a b) (h2 : Fr2 w b c) : Fr2 w a c :=
  ⟨h2.bucket.trans h1.bucket, h2.dom.trans h1.dom, fun v hv => (h2.semi v hv).trans (h1.semi v hv)⟩

/-- the whole Step 2 loop: total, keeps `P2`, and `y` ends up as `semi[w]` unless the list is empty -/
theorem step2_spec {g : Digraph} {s0 : St} {n : Nat} (C : Ctx g s0 n) {i w f : Nat}
    (hw : s0.semi w = i) (hi : 1 ≤ i) (hf : ∀ v, s0.semi v < f) :
    ∀ (vs : List Nat) (s : St) (y : Option Nat) (Q : Nat → Prop), P2 g s0 i w s Q →
      (∀ v ∈ vs, s0.semi v ≠ 0 ∧ g.Edge v w) →
      ∃ s' y', step2 f w vs s y = some (s', y') ∧ P2 g s0 i w s' (fun x => Q x ∨ x ∈ vs) ∧
        Fr2 w s s' ∧ ((vs = [] ∧ y' = y ∧ s' = s) ∨ y' = some (s'.semi w))
  | [], s, y, Q, h, _ =>
    ⟨s, y, rfl, h.mono (fun x hx => hx.elim id (fun h => by simp at h)),
      ⟨rfl, rfl, fun _ _ => rfl⟩, Or.inl ⟨rfl, rfl, rfl⟩⟩
  | v :: vs, s, y, Q, h, hvs => by
    obtain ⟨hv0, e⟩ := hvs v (List.mem_cons_self ..)
    obtain ⟨s1, u, he, hP, hfr⟩ := step2_one C hw hi h hv0 e (hf v)
    obtain ⟨s', y', hst, hP', hfr', hy'⟩ :=
      step2_spec C hw hi hf vs _ (some (min (s1.semi w) (s1.semi u))) _ hP
        (fun x hx => hvs x (List.mem_cons_of_mem _ hx))
    refine ⟨s', y', by simp only [step2, he]; exact hst, hP'.mono ?_, hfr.trans hfr', Or.inr ?_⟩
    · intro x hx
      rcases hx with hx | hx
      · exact Or.inl (Or.inl hx)
      · rcases List.mem_cons.mp hx with hx | hx
        · exact Or.inl (Or.inr hx)
        · exact Or.inr hx
    · rcases hy' with ⟨_, h2, h3⟩ | h2
      · rw [h2, h3]; simp [upd]
      · exact h2

/-- Theorem 4: once every numbered predecessor of `w` has been looked at, `semi[w]` is the number of
    the semidominator of `w` -/
theorem P2.semi_final {g : Digraph} {s0 : St} {n : Nat} (C : Ctx g s0 n) {i w : Nat} {s : St}
    {Q : Nat → Prop} (hw : s0.semi w = i) (hi : 2 ≤ i) (h : P2 g s0 i w s Q)
    (hQ : ∀ v, s0.semi v ≠ 0 → g.Edge v w → Q v) :
    ∃ sw, IsSemi g.Edge s0.semi sw w ∧ s.semi w = s0.semi sw := by
  have T := C.tree
  have hw0 : s0.semi w ≠ 0 := by omega
  have hwr : w ≠ g.entry := fun e => by have := C.facts.entry_one; rw [← e] at this; omega
  obtain ⟨p, hp⟩ := T.par_ex w hw0 hwr
  obtain ⟨ep, hp0, hplt⟩ := T.par_edge w p hp
  have h1 := (h.lb p (hQ p hp0 ep)).1
  rcases h.sw_path with h2 | ⟨x, hx, h2⟩
  · omega
  · refine ⟨x, ⟨hx, ?_⟩, h2⟩
    intro x' hx'
    rw [← h2]
    obtain ⟨v, ev, hv0, hv⟩ := T.semipath_lower hx'
    have hlb := h.lb v (hQ v hv0 ev)
    rcases hv with hv | ⟨u, hu1, hu2, hu3⟩
    · rw [← hv]; exact hlb.1
    · exact hlb.2 u x' hu1 (by omega) hu3

end AgVerif.DomLT
