import AgVerif.Model.Paths
import AgVerif.Spec.Portable
/-! Lemmas for C38 (clean_file_name) -/
set_option linter.unusedSimpArgs false
set_option linter.unusedVariables false
namespace AgVerif.PathsClean
open AgVerif.Paths AgVerif.Spec.Portable

/-! ### lists -/

theorem takeWhile_append_stop {α} (p : α → Bool) (l : List α) (x : α) (r : List α)
    (hl : ∀ y ∈ l, p y = true) (hx : p x = false) : (l ++ x :: r).takeWhile p = l := by
  induction l with
  | nil => simp [List.takeWhile, hx]
  | cons a l ih =>
    have ha : p a = true := hl a (by simp)
    simp [List.takeWhile, ha, ih (fun y hy => hl y (by simp [hy]))]

theorem dropWhile_append_stop {α} (p : α → Bool) (l : List α) (x : α) (r : List α)
    (hl : ∀ y ∈ l, p y = true) (hx : p x = false) : (l ++ x :: r).dropWhile p = x :: r := by
  induction l with
  | nil => simp [List.dropWhile, hx]
  | cons a l ih =>
    have ha : p a = true := hl a (by simp)
    simp [List.dropWhile, ha, ih (fun y hy => hl y (by simp [hy]))]

theorem takeWhile_all {α} (p : α → Bool) (l : List α) (hl : ∀ y ∈ l, p y = true) : l.takeWhile p = l := by
  induction l with
  | nil => rfl
  | cons a l ih => simp [List.takeWhile, hl a (by simp), ih (fun y hy => hl y (by simp [hy]))]

theorem dropWhile_all {α} (p : α → Bool) (l : List α) (hl : ∀ y ∈ l, p y = true) : l.dropWhile p = [] := by
  induction l with
  | nil => rfl
  | cons a l ih => simp [List.dropWhile, hl a (by simp), ih (fun y hy => hl y (by simp [hy]))]

/-- `a ++ x :: d` determines `d` when `x` does not occur in `d` -/
theorem tail_after_last_unique {α} [DecidableEq α] (x : α) (a a' d d' : List α)
    (hd : x ∉ d) (hd' : x ∉ d') (h : a ++ x :: d = a' ++ x :: d') : d = d' := by
  have h2 := congrArg List.reverse h
  simp only [List.reverse_append, List.reverse_cons, List.append_assoc, List.singleton_append] at h2
  have e1 := takeWhile_append_stop (fun y => y != x) d.reverse x a.reverse
    (by intro y hy; simp at hy; simp; intro e; exact hd (e ▸ hy)) (by simp)
  have e2 := takeWhile_append_stop (fun y => y != x) d'.reverse x a'.reverse
    (by intro y hy; simp at hy; simp; intro e; exact hd' (e ▸ hy)) (by simp)
  rw [h2, e2] at e1
  exact List.reverse_inj.mp e1.symm

theorem afterLast_append (c : Char) (a f : List Char) (hf : c ∉ f) : afterLast c (a ++ c :: f) = f := by
  unfold afterLast
  simp only [List.reverse_append, List.reverse_cons, List.append_assoc, List.singleton_append]
  rw [takeWhile_append_stop]
  · simp
  · intro y hy; simp at hy; simp; intro e; exact hf (e ▸ hy)
  · simp

theorem uptoLast_append (c : Char) (a f : List Char) (hf : c ∉ f) : uptoLast c (a ++ c :: f) = a ++ [c] := by
  unfold uptoLast
  simp only [List.reverse_append, List.reverse_cons, List.append_assoc, List.singleton_append]
  rw [dropWhile_append_stop]
  · simp
  · intro y hy; simp at hy; simp; intro e; exact hf (e ▸ hy)
  · simp

theorem afterLast_none (c : Char) (f : List Char) (hf : c ∉ f) : afterLast c f = f := by
  unfold afterLast
  rw [takeWhile_all]; · simp
  intro y hy; simp at hy; simp; intro e; exact hf (e ▸ hy)

theorem uptoLast_none (c : Char) (f : List Char) (hf : c ∉ f) : uptoLast c f = [] := by
  unfold uptoLast
  rw [dropWhile_all]; · simp
  intro y hy; simp at hy; simp; intro e; exact hf (e ▸ hy)

theorem uptoLast_append_afterLast (c : Char) (p : List Char) : uptoLast c p ++ afterLast c p = p := by
  unfold uptoLast afterLast
  rw [← List.reverse_append, List.takeWhile_append_dropWhile, List.reverse_reverse]

theorem mem_takeWhile_pos {α} (p : α → Bool) (l : List α) (y : α) (h : y ∈ l.takeWhile p) : p y = true := by
  induction l with
  | nil => simp at h
  | cons a l ih =>
    by_cases ha : p a = true
    · simp [List.takeWhile, ha] at h
      rcases h with h | h
      · exact h ▸ ha
      · exact ih h
    · simp [List.takeWhile, ha] at h

theorem afterLast_not_mem (c : Char) (p : List Char) : c ∉ afterLast c p := by
  unfold afterLast
  intro h
  simp only [List.mem_reverse] at h
  have := mem_takeWhile_pos _ _ _ h
  simp at this

/-! ### character classes (generated ranges) against the specification -/

theorem reserved_of_forbidden (c : Char) (h : Forbidden c) : reservedChar c = true := by
  rcases h with h | h
  · simp [reservedChar, inRanges, Gen.Paths.reservedRanges]; omega
  · simp only [List.mem_cons, List.not_mem_nil, or_false] at h
    rcases h with h | h | h | h | h | h | h | h | h <;> subst h <;> decide

theorem trailing_of_badEnd (c : Char) (h : BadEnd c) : trailingChar c = true := by
  rcases h with h | h <;> subst h <;> decide

theorem bad_of_reserved (c : Char) (h : reservedChar c = true) : badReplaceChar c = true := by
  simp [reservedChar, badReplaceChar, inRanges, Gen.Paths.reservedRanges, Gen.Paths.replaceCheckRanges] at h ⊢
  omega

theorem bad_of_trailing (c : Char) (h : trailingChar c = true) : badReplaceChar c = true := by
  simp [trailingChar, badReplaceChar, inRanges, Gen.Paths.trailingRanges, Gen.Paths.replaceCheckRanges] at h ⊢
  omega

theorem reserved_newline : reservedChar '\n' = true := by decide
theorem reserved_sep : reservedChar sep = true := by decide
theorem not_trailing_newline : trailingChar '\n' = false := by decide

/-- what `validReplace` gives -/
structure GoodRep (rep : List Char) : Prop where
  ne : rep ≠ []
  clean : ∀ c ∈ rep, reservedChar c = false
  notrail : ∀ c ∈ rep, trailingChar c = false

theorem goodRep_of_valid (rep : List Char) (h : validReplace rep = true) : GoodRep rep := by
  simp [validReplace] at h
  refine ⟨by intro e; simp [e] at h, ?_, ?_⟩
  · intro c hc
    cases hr : reservedChar c with
    | false => rfl
    | true => have := h.2 c hc; rw [bad_of_reserved c hr] at this; cases this
  · intro c hc
    cases hr : trailingChar c with
    | false => rfl
    | true => have := h.2 c hc; rw [bad_of_trailing c hr] at this; cases this

/-! ### `Clean`: no character of the reserved class -/

def Clean (s : List Char) : Prop := ∀ c ∈ s, reservedChar c = false

theorem Clean.append {a b : List Char} (ha : Clean a) (hb : Clean b) : Clean (a ++ b) := by
  intro c hc; rcases List.mem_append.mp hc with h | h
  · exact ha c h
  · exact hb c h

theorem Clean.take {a : List Char} (n : Nat) (ha : Clean a) : Clean (a.take n) :=
  fun c hc => ha c (List.mem_of_mem_take hc)

theorem Clean.of_subset {a b : List Char} (hb : Clean b) (h : ∀ c ∈ a, c ∈ b) : Clean a :=
  fun c hc => hb c (h c hc)

theorem clean_nil : Clean [] := by intro c hc; cases hc

theorem clean_subReserved (rep s : List Char) (hr : Clean rep) : Clean (subReserved rep s) := by
  intro c hc
  simp only [subReserved, List.mem_flatMap] at hc
  obtain ⟨x, hx, hcx⟩ := hc
  by_cases h : reservedChar x = true
  · simp [h] at hcx; exact hr c hcx
  · simp [h] at hcx; subst hcx; simpa using h

/-- the characters of `subTrailing rep s` come from `s` and `rep` -/
theorem mem_subTrailing (rep s : List Char) (c : Char) (h : c ∈ subTrailing rep s) : c ∈ s ∨ c ∈ rep := by
  unfold subTrailing at h
  split at h
  · simp at h
  · rename_i l r hrev
    have hs : s = r.reverse ++ [l] := by
      have := congrArg List.reverse hrev; simpa using this
    split at h
    · rcases List.mem_append.mp h with h | h
      · left; rw [hs]; exact List.mem_append_left _ h
      · right; exact h
    · split at h
      · split at h
        · left; exact h
        · rename_i l2 r2
          split at h
          · simp only [List.mem_append, List.mem_reverse, List.mem_singleton] at h
            rcases h with (h | h) | h
            · left; rw [hs]; simp [h]
            · right; exact h
            · left; rw [hs]; simp [h]
          · left; exact h
      · left; exact h

theorem clean_subTrailing (rep s : List Char) (hr : Clean rep) (hs : Clean s) : Clean (subTrailing rep s) := by
  intro c hc
  rcases mem_subTrailing rep s c hc with h | h
  · exact hs c h
  · exact hr c h

theorem digit_bounds (c : Char) (hd : c.isDigit = true) : 48 ≤ c.toNat ∧ c.toNat ≤ 57 := by
  simp [Char.isDigit] at hd
  obtain ⟨h1, h2⟩ := hd
  rw [UInt32.le_iff_toNat_le] at h1 h2
  have e : c.toNat = c.val.toNat := rfl
  rw [e]
  exact ⟨h1, h2⟩

theorem natDigits_bounds (n : Nat) (c : Char) (hc : c ∈ natDigits n) : 48 ≤ c.toNat ∧ c.toNat ≤ 57 :=
  digit_bounds c (Nat.isDigit_of_mem_toDigits (by decide) (by decide) hc)

theorem clean_natDigits (n : Nat) : Clean (natDigits n) := by
  intro c hc
  have := natDigits_bounds n c hc
  simp [reservedChar, inRanges, Gen.Paths.reservedRanges]
  omega

theorem clean_suffixOf (n : Nat) : Clean (suffixOf n) := by
  unfold suffixOf
  refine Clean.append ?_ (clean_natDigits n)
  intro c hc
  simp [Gen.Paths.suffixLead] at hc
  subst hc; decide

/-! ### the trailing rule -/

def NoTrail (s : List Char) : Prop := ∀ c, s.getLast? = some c → trailingChar c = false

theorem noTrail_nil : NoTrail [] := by intro c h; simp at h

theorem goodEnd_of_noTrail (s : List Char) (h : NoTrail s) : GoodEnd s := by
  intro c hc hb
  have := h c hc
  rw [trailing_of_badEnd c hb] at this; cases this

theorem noTrail_append (a b : List Char) (hb : b ≠ []) (hall : ∀ c ∈ b, trailingChar c = false) :
    NoTrail (a ++ b) := by
  intro c hc
  rw [List.getLast?_append] at hc
  cases hb' : b.getLast? with
  | none => exact absurd (List.getLast?_eq_none_iff.mp hb') hb
  | some x =>
    rw [hb'] at hc; simp at hc; subst hc
    exact hall x (List.mem_of_getLast? hb')

theorem noTrail_take_append (a b : List Char) (M : Nat) (hb : b ≠ []) (hall : ∀ c ∈ b, trailingChar c = false)
    (hlen : a.length < M) : NoTrail ((a ++ b).take M) := by
  rw [List.take_append, List.take_of_length_le (Nat.le_of_lt hlen)]
  apply noTrail_append
  · intro e
    have hl := congrArg List.length e
    simp at hl
    rcases hl with hl | hl
    · omega
    · exact hb hl
  · intro c hc; exact hall c (List.mem_of_mem_take hc)

theorem eq_of_reverse_cons {s r : List Char} {l : Char} (h : s.reverse = l :: r) : s = r.reverse ++ [l] := by
  have := congrArg List.reverse h; simpa using this

theorem noTrail_sub_take (rep s : List Char) (M : Nat) (hr : GoodRep rep) (hM : 1 ≤ M) (hs : s.length ≤ M) :
    NoTrail ((subTrailing rep s).take M) := by
  unfold subTrailing
  split
  · simpa using noTrail_nil
  · rename_i l r hrev
    have hse := eq_of_reverse_cons hrev
    have hlen : r.length + 1 ≤ M := by
      have := congrArg List.length hse; simp at this; omega
    split
    · exact noTrail_take_append _ _ M hr.ne hr.notrail (by simp; omega)
    · rename_i hl
      split
      · rename_i hnl
        split
        · -- s = ["\n"]
          rw [List.take_of_length_le hs, hse]
          intro c hc; simp at hc; subst hc; subst hnl; exact not_trailing_newline
        · rename_i l2 r2
          split
          · rw [List.append_assoc]
            apply noTrail_take_append
            · simp
            · intro c hc
              rcases List.mem_append.mp hc with h | h
              · exact hr.notrail c h
              · simp at h; subst h; subst hnl; exact not_trailing_newline
            · simp at hlen ⊢; omega
          · rw [List.take_of_length_le hs, hse]
            intro c hc; simp at hc; subst hc; simpa using hl
      · rw [List.take_of_length_le hs, hse]
        intro c hc; simp at hc; subst hc; simpa using hl

theorem subTrailing_id (rep s : List Char)
    (h : ∀ l, s.getLast? = some l → trailingChar l = false ∧ l ≠ '\n') : subTrailing rep s = s := by
  unfold subTrailing
  split
  · rename_i hrev; simpa using hrev.symm
  · rename_i l r hrev
    have hse := eq_of_reverse_cons hrev
    have hl := h l (by rw [hse]; simp)
    simp [hl.1, hl.2]

/-! ### shorten -/

theorem mem_afterLast (x : Char) (p : List Char) (c : Char) (h : c ∈ afterLast x p) : c ∈ p := by
  rw [← uptoLast_append_afterLast x p]; exact List.mem_append_right _ h

theorem mem_uptoLast (x : Char) (p : List Char) (c : Char) (h : c ∈ uptoLast x p) : c ∈ p := by
  rw [← uptoLast_append_afterLast x p]; exact List.mem_append_left _ h

theorem not_reserved_dot : reservedChar '.' = false := by decide

/-- the stem and the tail `shorten` works with -/
def useExt (M : Nat) (name : List Char) : Bool :=
  name.contains '.' && !(('.' :: afterLast '.' name).length > M / Gen.Paths.extDivisor)
def stemOf (M : Nat) (name : List Char) : List Char :=
  if useExt M name then (uptoLast '.' name).dropLast else name
def tailOf (M : Nat) (name : List Char) : List Char :=
  if useExt M name then '.' :: afterLast '.' name else []

theorem shorten_eq (M : Nat) (rep name suffix : List Char) :
    shorten M rep name suffix =
      (subTrailing rep (((stemOf M name).take (M - suffix.length - (tailOf M name).length)
        ++ suffix ++ tailOf M name).take M)).take M := by
  unfold shorten stemOf tailOf useExt
  rfl

theorem clean_stemOf (M : Nat) (name : List Char) (h : Clean name) : Clean (stemOf M name) := by
  unfold stemOf; split
  · intro c hc; exact h c (mem_uptoLast _ _ _ (List.dropLast_subset _ hc))
  · exact h

theorem clean_tailOf (M : Nat) (name : List Char) (h : Clean name) : Clean (tailOf M name) := by
  unfold tailOf; split
  · intro c hc
    rcases List.mem_cons.mp hc with e | e
    · subst e; exact not_reserved_dot
    · exact h c (mem_afterLast _ _ _ e)
  · exact clean_nil

theorem clean_shorten (M : Nat) (rep name suffix : List Char) (hr : Clean rep) (hn : Clean name)
    (hs : Clean suffix) : Clean (shorten M rep name suffix) := by
  rw [shorten_eq]
  apply Clean.take
  apply clean_subTrailing _ _ hr
  apply Clean.take
  exact Clean.append (Clean.append (Clean.take _ (clean_stemOf M name hn)) hs) (clean_tailOf M name hn)

theorem length_shorten (M : Nat) (rep name suffix : List Char) : (shorten M rep name suffix).length ≤ M := by
  rw [shorten_eq]; exact List.length_take_le _ _

theorem noTrail_shorten (M : Nat) (rep name suffix : List Char) (hr : GoodRep rep) (hM : 1 ≤ M) :
    NoTrail (shorten M rep name suffix) := by
  rw [shorten_eq]
  exact noTrail_sub_take rep _ M hr hM (List.length_take_le _ _)

/-! ### split / join2 -/

theorem dropWhile_shape {α} (p : α → Bool) (l : List α) :
    l.dropWhile p = [] ∨ ∃ x r, l.dropWhile p = x :: r ∧ p x = false := by
  induction l with
  | nil => left; rfl
  | cons a l ih =>
    by_cases ha : p a = true
    · simpa [List.dropWhile, ha] using ih
    · right; exact ⟨a, l, by simp [List.dropWhile, ha], by simpa using ha⟩

theorem dropWhile_nil_all {α} (p : α → Bool) (l : List α) (h : l.dropWhile p = []) : ∀ y ∈ l, p y = true := by
  induction l with
  | nil => intro y hy; cases hy
  | cons a l ih =>
    by_cases ha : p a = true
    · simp [List.dropWhile, ha] at h
      intro y hy; rcases List.mem_cons.mp hy with e | e
      · exact e ▸ ha
      · exact ih h y e
    · simp [List.dropWhile, ha] at h

/-- the directory part `posixpath.split` returns: all slashes (or empty), or something not ending in a slash -/
theorem split_head_shape (q : Path) :
    ((split q).1.any (· != sep) = false) ∨ (∃ x, (split q).1.getLast? = some x ∧ x ≠ sep) := by
  unfold split
  simp only
  split
  · rename_i hany
    right
    unfold rstrip
    rcases dropWhile_shape (· == sep) (uptoLast sep q).reverse with h | ⟨x, r, h, hx⟩
    · exfalso
      have hall := dropWhile_nil_all _ _ h
      simp only [List.any_eq_true] at hany
      obtain ⟨y, hy, hne⟩ := hany
      have := hall y (by simpa using hy)
      simp at this hne
      exact hne this
    · refine ⟨x, ?_, by simpa using hx⟩
      rw [h]; simp
  · rename_i hany
    left; simpa using hany

theorem join2_clean_arg (d x : List Char) (hx : sep ∉ x) :
    join2 d x = if d.isEmpty || d.getLast? == some sep then d ++ x else d ++ sep :: x := by
  unfold join2
  split
  · rename_i t
    exact absurd (by simp [sep]) hx
  · rfl

theorem all_sep_getLast (h : List Char) (hne : h ≠ []) (hall : h.any (· != sep) = false) :
    ∃ h', h = h' ++ [sep] := by
  refine ⟨h.dropLast, ?_⟩
  have hl : h.getLast hne = sep := by
    have hm := List.getLast_mem hne
    have := List.any_eq_false.mp hall _ hm
    simpa using this
  rw [← hl]; exact (List.dropLast_concat_getLast hne).symm

theorem split_join2 (q f : List Char) (hf : sep ∉ f) :
    split (join2 (split q).1 f) = ((split q).1, f) := by
  generalize hh : (split q).1 = h
  have hshape := split_head_shape q
  rw [hh] at hshape
  rw [join2_clean_arg _ _ hf]
  rcases hshape with hall | ⟨x, hx, hxne⟩
  · by_cases hne : h = []
    · subst hne
      simp [split, uptoLast_none sep f hf, afterLast_none sep f hf]
    · obtain ⟨h', rfl⟩ := all_sep_getLast h hne hall
      have : ((h' ++ [sep]).isEmpty || (h' ++ [sep]).getLast? == some sep) = true := by simp
      rw [if_pos this]
      have e : h' ++ [sep] ++ f = h' ++ sep :: f := by simp
      rw [e]
      unfold split
      simp only [uptoLast_append sep h' f hf, afterLast_append sep h' f hf]
      rw [if_neg (by simpa using hall)]
  · have hne : h ≠ [] := by intro e; subst e; simp at hx
    have : (h.isEmpty || h.getLast? == some sep) = false := by
      simp [hne, hx]; exact hxne
    rw [this]
    simp only [Bool.false_eq_true, if_false]
    unfold split
    simp only [uptoLast_append sep h f hf, afterLast_append sep h f hf]
    have hany : (h ++ [sep]).any (· != sep) = true := by
      simp only [List.any_eq_true]
      exact ⟨x, List.mem_append_left _ (List.mem_of_getLast? hx), by simpa using hxne⟩
    rw [if_pos hany]
    congr 1
    unfold rstrip
    obtain ⟨h', rfl⟩ : ∃ h', h = h' ++ [x] := by
      refine ⟨h.dropLast, ?_⟩
      have : h.getLast hne = x := by
        have := List.getLast?_eq_some_getLast hne
        rw [this] at hx; simpa using hx
      rw [← this]; exact (List.dropLast_concat_getLast hne).symm
    have hx' : (x == sep) = false := by simpa using hxne
    simp [List.dropWhile, hx']

/-! ### cleanBase and the uniqueness loop -/

abbrev M : Nat := Gen.Paths.pathMaxLength

theorem M_pos : 1 ≤ M := by decide

theorem clean_cleanBase (rep fname : List Char) (hr : GoodRep rep) : Clean (cleanBase rep fname) := by
  unfold cleanBase
  exact clean_shorten _ _ _ _ hr.clean
    (clean_subTrailing _ _ hr.clean (clean_subReserved _ _ hr.clean)) clean_nil

theorem noTrail_cleanBase (rep fname : List Char) (hr : GoodRep rep) : NoTrail (cleanBase rep fname) := by
  unfold cleanBase
  exact noTrail_shorten _ _ _ _ hr M_pos

theorem length_cleanBase (rep fname : List Char) : (cleanBase rep fname).length ≤ M := by
  unfold cleanBase
  exact length_shorten _ _ _ _

/-- the candidate the loop tries for a given counter -/
def cand (rep orig : List Char) (c : Nat) : List Char := shorten M rep orig (suffixOf c)

/-- whatever the loop returns is the start value or a candidate, and is not an existing file -/
theorem uniqueLoop_some (isfile : Path → Bool) (dir rep orig : List Char) :
    ∀ (fuel c : Nat) (cur f : List Char), uniqueLoop isfile dir rep orig fuel c cur = some f →
      (f = cur ∨ ∃ k, f = cand rep orig k) ∧ isfile (join2 dir f) = false := by
  intro fuel
  induction fuel with
  | zero => intro c cur f h; simp [uniqueLoop] at h
  | succ n ih =>
    intro c cur f h
    unfold uniqueLoop at h
    split at h
    · obtain ⟨h1, h2⟩ := ih _ _ _ h
      refine ⟨?_, h2⟩
      rcases h1 with h1 | h1
      · right; exact ⟨c, h1⟩
      · right; exact h1
    · rename_i hf
      simp at h; subst h
      exact ⟨Or.inl rfl, by simpa using hf⟩

/-- the loop runs out of fuel only if the start value and every candidate tried exist -/
theorem uniqueLoop_none (isfile : Path → Bool) (dir rep orig : List Char) :
    ∀ (fuel c : Nat) (cur : List Char), uniqueLoop isfile dir rep orig fuel c cur = none →
      (1 ≤ fuel → isfile (join2 dir cur) = true) ∧
      ∀ i, i + 1 < fuel → isfile (join2 dir (cand rep orig (c + i))) = true := by
  intro fuel
  induction fuel with
  | zero => intro c cur h; exact ⟨by omega, by intro i hi; omega⟩
  | succ n ih =>
    intro c cur h
    unfold uniqueLoop at h
    split at h
    · rename_i hf
      obtain ⟨h1, h2⟩ := ih _ _ h
      refine ⟨fun _ => hf, ?_⟩
      intro i hi
      cases i with
      | zero => exact h1 (by omega)
      | succ j =>
        have := h2 j (by omega)
        have e : c + 1 + j = c + (j + 1) := by omega
        rw [e] at this; exact this
    · simp at h

/-! ### the candidates are pairwise different (while the counter has at most 100 digits) -/

def LastOK (s : List Char) : Prop := ∀ l, s.getLast? = some l → trailingChar l = false ∧ l ≠ '\n'

theorem lastOK_append_right (a b : List Char) (hb : b ≠ []) (h : LastOK b) : LastOK (a ++ b) := by
  intro l hl
  rw [List.getLast?_append] at hl
  cases hb' : b.getLast? with
  | none => exact absurd (List.getLast?_eq_none_iff.mp hb') hb
  | some x => rw [hb'] at hl; simp at hl; subst hl; exact h x hb'

theorem natDigits_ne_nil (n : Nat) : natDigits n ≠ [] := Nat.toDigits_ne_nil

theorem lastOK_natDigits (n : Nat) : LastOK (natDigits n) := by
  intro l hl
  have := natDigits_bounds n l (List.mem_of_getLast? hl)
  constructor
  · simp [trailingChar, inRanges, Gen.Paths.trailingRanges]; omega
  · intro e; subst e; simp at this

theorem suffixOf_eq (c : Nat) : suffixOf c = '_' :: natDigits c := by
  simp [suffixOf, Gen.Paths.suffixLead]

theorem lastOK_suffixOf (c : Nat) : LastOK (suffixOf c) := by
  rw [suffixOf_eq]
  exact lastOK_append_right ['_'] _ (natDigits_ne_nil c) (lastOK_natDigits c)

theorem uptoLast_last (c : Char) (p : List Char) (h : uptoLast c p ≠ []) : ∃ a, uptoLast c p = a ++ [c] := by
  unfold uptoLast at h ⊢
  rcases dropWhile_shape (· != c) p.reverse with e | ⟨x, r, e, hx⟩
  · rw [e] at h; simp at h
  · rw [e]; simp at hx; subst hx; exact ⟨r.reverse, by simp⟩

theorem lastOK_tailOf (m : Nat) (base : List Char) (hc : Clean base) (ht : NoTrail base)
    (hne : tailOf m base ≠ []) : LastOK (tailOf m base) := by
  unfold tailOf at hne ⊢
  split
  · rename_i hu
    have hdot : '.' ∈ base := by
      simp [useExt] at hu; exact hu.1
    have hsplit := uptoLast_append_afterLast '.' base
    have hup : uptoLast '.' base ≠ [] := by
      intro e
      rw [e] at hsplit; simp at hsplit
      exact afterLast_not_mem '.' base (by rw [hsplit]; exact hdot)
    obtain ⟨a, ha⟩ := uptoLast_last '.' base hup
    have haft : afterLast '.' base ≠ [] := by
      intro e
      rw [e, ha] at hsplit; simp at hsplit
      have := ht '.' (by rw [← hsplit]; simp)
      revert this; decide
    have : LastOK (afterLast '.' base) := by
      intro l hl
      have hl' : base.getLast? = some l := by
        rw [← hsplit, List.getLast?_append, hl]; simp
      refine ⟨ht l hl', ?_⟩
      intro e; subst e
      have := hc _ (List.mem_of_getLast? hl')
      rw [reserved_newline] at this; cases this
    exact lastOK_append_right ['.'] _ haft this
  · rename_i hu; simp [hu] at hne

theorem length_tailOf (m : Nat) (base : List Char) : (tailOf m base).length ≤ m / Gen.Paths.extDivisor := by
  unfold tailOf
  split
  · rename_i hu
    simp [useExt] at hu
    have := hu.2
    simp at this ⊢; omega
  · simp

theorem length_suffixOf (c : Nat) (hc : c < 10 ^ 100) : (suffixOf c).length ≤ 101 := by
  rw [suffixOf_eq]
  have : (natDigits c).length ≤ 100 := (Nat.length_toDigits_le_iff (by decide) (by decide)).mpr hc
  simp; omega

theorem fix_id (rep X : List Char) (hlen : X.length ≤ M) (hlast : LastOK X) :
    (subTrailing rep (X.take M)).take M = X := by
  rw [List.take_of_length_le hlen, subTrailing_id rep X hlast, List.take_of_length_le hlen]

/-- with room for the whole counter, `shorten` only cuts the stem -/
theorem cand_exact (rep base : List Char) (c : Nat) (hcl : Clean base) (ht : NoTrail base) (hc : c < 10 ^ 100) :
    cand rep base c =
      (stemOf M base).take (M - (suffixOf c).length - (tailOf M base).length) ++ suffixOf c ++ tailOf M base := by
  unfold cand
  rw [shorten_eq]
  have h1 := length_tailOf M base
  have h2 := length_suffixOf c hc
  have hM : M = 230 := rfl
  have hD : Gen.Paths.extDivisor = 2 := rfl
  rw [hD, hM] at h1
  apply fix_id
  · simp only [List.length_append, List.length_take]
    rw [hM]; omega
  · by_cases hne : tailOf M base = []
    · rw [hne, List.append_nil]
      exact lastOK_append_right _ _ (by rw [suffixOf_eq]; simp) (lastOK_suffixOf c)
    · exact lastOK_append_right _ _ hne (lastOK_tailOf M base hcl ht hne)

theorem natDigits_injective (i j : Nat) (h : natDigits i = natDigits j) : i = j := by
  have hi : Nat.ofDigitChars 10 (Nat.toDigits 10 i) 0 = i := Nat.ofDigitChars_ten_toDigits
  have hj : Nat.ofDigitChars 10 (Nat.toDigits 10 j) 0 = j := Nat.ofDigitChars_ten_toDigits
  unfold natDigits at h
  rw [h] at hi; rw [hi] at hj; exact hj

theorem cand_injective (rep base : List Char) (hcl : Clean base) (ht : NoTrail base) (i j : Nat)
    (hi : i < 10 ^ 100) (hj : j < 10 ^ 100) (h : cand rep base i = cand rep base j) : i = j := by
  rw [cand_exact rep base i hcl ht hi, cand_exact rep base j hcl ht hj] at h
  have h' := List.append_cancel_right h
  rw [suffixOf_eq, suffixOf_eq] at h'
  have := tail_after_last_unique '_' _ _ _ _ (by unfold natDigits; simp) (by unfold natDigits; simp) h'
  exact natDigits_injective i j this

theorem clean_cand (rep base : List Char) (c : Nat) (hr : GoodRep rep) (hb : Clean base) : Clean (cand rep base c) :=
  clean_shorten _ _ _ _ hr.clean hb (clean_suffixOf c)

theorem sep_not_mem_of_clean (x : List Char) (h : Clean x) : sep ∉ x := by
  intro hm; have := h _ hm; rw [reserved_sep] at this; cases this

theorem join2_injective (d x y : List Char) (hx : sep ∉ x) (hy : sep ∉ y) (h : join2 d x = join2 d y) : x = y := by
  rw [join2_clean_arg d x hx, join2_clean_arg d y hy] at h
  split at h
  · exact List.append_cancel_left h
  · have := List.append_cancel_left h
    simpa using this

/-- pigeonhole: with fewer existing files than candidates, the loop finds a free name -/
theorem uniqueLoop_terminates (isfile : Path → Bool) (files : List Path) (hfiles : ∀ p, isfile p = true → p ∈ files)
    (hsmall : files.length < 10 ^ 100) (dir rep base : List Char) (hr : GoodRep rep) (hcl : Clean base)
    (ht : NoTrail base) (fuel : Nat) (hfuel : files.length + 2 ≤ fuel) :
    uniqueLoop isfile dir rep base fuel 0 base ≠ none := by
  intro hnone
  obtain ⟨_, hall⟩ := uniqueLoop_none isfile dir rep base fuel 0 base hnone
  let n := files.length
  let L := (List.range (n + 1)).map fun i => join2 dir (cand rep base i)
  have hsub : L ⊆ files := by
    intro p hp
    simp only [L, List.mem_map, List.mem_range] at hp
    obtain ⟨i, hi, rfl⟩ := hp
    have := hall i (by omega)
    simp at this
    exact hfiles _ this
  have hnd : L.Nodup := by
    have hrange : (List.range (n + 1)).Pairwise (· ≠ ·) := List.nodup_range
    show List.Pairwise (· ≠ ·) L
    rw [List.pairwise_map]
    refine List.Pairwise.imp_of_mem ?_ hrange
    intro i j hi hj hne hij
    apply hne
    simp only [List.mem_range] at hi hj
    have e := join2_injective dir _ _ (sep_not_mem_of_clean _ (clean_cand rep base i hr hcl))
      (sep_not_mem_of_clean _ (clean_cand rep base j hr hcl)) hij
    exact cand_injective rep base hcl ht i j (by omega) (by omega) e
  have hle := List.Nodup.length_le_of_subset hnd hsub
  simp [L] at hle
  omega

/-! ### clean_file_name as a whole -/

/-- what an `ok` result looks like -/
theorem cleanFileName_ok (isfile : Path → Bool) (fuel : Nat) (filename : Path) (unique : Bool)
    (rep : List Char) (r : Path) (h : cleanFileName isfile fuel filename unique rep = .ok r) :
    GoodRep rep ∧ ∃ f, r = join2 (split filename).1 f ∧ Clean f ∧ NoTrail f ∧ f.length ≤ M ∧
      (unique = true → isfile r = false) := by
  unfold cleanFileName at h
  split at h
  · cases h
  · rename_i hv
    have hr : GoodRep rep := goodRep_of_valid rep (by simpa using hv)
    refine ⟨hr, ?_⟩
    simp only at h
    split at h
    · rename_i hu
      split at h
      · rename_i f hf
        injection h with h; subst h
        obtain ⟨hshape, hfree⟩ := uniqueLoop_some _ _ _ _ _ _ _ _ hf
        refine ⟨f, rfl, ?_, ?_, ?_, fun _ => hfree⟩
        · rcases hshape with e | ⟨k, e⟩
          · rw [e]; exact clean_cleanBase rep _ hr
          · rw [e]; exact clean_cand rep _ k hr (clean_cleanBase rep _ hr)
        · rcases hshape with e | ⟨k, e⟩
          · rw [e]; exact noTrail_cleanBase rep _ hr
          · rw [e]; exact noTrail_shorten _ _ _ _ hr M_pos
        · rcases hshape with e | ⟨k, e⟩
          · rw [e]; exact length_cleanBase rep _
          · rw [e]; exact length_shorten _ _ _ _
      · cases h
    · rename_i hu
      injection h with h; subst h
      exact ⟨_, rfl, clean_cleanBase rep _ hr, noTrail_cleanBase rep _ hr, length_cleanBase rep _,
        fun hu' => absurd hu' hu⟩

theorem noForbidden_of_clean (f : List Char) (h : Clean f) : NoForbidden f := by
  intro c hc hf
  have := h c hc
  rw [reserved_of_forbidden c hf] at this; cases this

end AgVerif.PathsClean
