/-
C07, extended loader, file level: `parseDexX` looks at the file only through header.map_off, the map
list and the item decoders, so two files with the same map offset, map lists that are permutations of
each other (distinct types) and the same raw items parse alike (`parseDexX_perm_files`).
-/
import AgVerif.Model.DexFileX
import AgVerif.Proof.DexPerm
namespace AgVerif.DexPerm
open AgVerif.DexFile AgVerif.LoadOrder AgVerif.DexFrame

/-- the extended item decoders give the same result for entry `e` in the two files (for the two
    sections with encoded values: whatever the ClassManager lookups return) -/
def sameItemsX (f g : Bytes) (e : MapEntry) : Prop :=
  sameItems f g e ∧
  (e.type = 0x2005 → ∀ lk, decSeqX (decArrayX lk) f e.size e.offset = decSeqX (decArrayX lk) g e.size e.offset) ∧
  (e.type = 0x2004 → ∀ lk, decSeqX (decAnnItemX lk) f e.size e.offset = decSeqX (decAnnItemX lk) g e.size e.offset) ∧
  (e.type = 0x1003 → decSeq decOffList f e.size (seek4 e.offset) = decSeq decOffList g e.size (seek4 e.offset)) ∧
  (e.type = 0x1002 → decSeq decOffList f e.size (seek4 e.offset) = decSeq decOffList g e.size (seek4 e.offset)) ∧
  (e.type = 0x2006 → decSeq decAnnDir f e.size (seek4 e.offset) = decSeq decAnnDir g e.size (seek4 e.offset))

theorem sameItemsX_refl (f : Bytes) (e : MapEntry) : sameItemsX f f e := by simp [sameItemsX, sameItems_refl]

/-- `stepX` looks at the file only through the item decoders -/
theorem stepX_file_congr {f g : Bytes} {e : MapEntry} (h : sameItemsX f g e) (cx : CMx) :
    stepX f cx e = stepX g cx e := by
  obtain ⟨h0, h1, h2, h3, h4, h5⟩ := h
  by_cases t1 : e.type = 0x2005
  · simp only [stepX, t1, ↓reduceIte, h1 t1]
  by_cases t2 : e.type = 0x2004
  · simp only [stepX, t2, Nat.reduceEqDiff, ↓reduceIte, h2 t2]
  by_cases t3 : e.type = 0x1003
  · simp only [stepX, t3, Nat.reduceEqDiff, ↓reduceIte, h3 t3]
  by_cases t4 : e.type = 0x1002
  · simp only [stepX, t4, Nat.reduceEqDiff, ↓reduceIte, h4 t4]
  by_cases t5 : e.type = 0x2006
  · simp only [stepX, t5, Nat.reduceEqDiff, ↓reduceIte, h5 t5]
  by_cases t6 : e.type = 0x0006
  · have := h0.2.2.2.2.2.2.2.2.2 t6
    simp only [stepX, t6, Nat.reduceEqDiff, ↓reduceIte, this]
  · simp only [stepX, t1, t2, t3, t4, t5, t6, ↓reduceIte, step_file_congr h0 cx.base]

theorem loadEntriesX_file_congr (f g : Bytes) (es : List MapEntry) (h : ∀ e ∈ es, sameItemsX f g e) :
    loadEntriesX f es = loadEntriesX g es :=
  loadWith_congr _ _ _ _ _ es (fun e he cx => stepX_file_congr (h e he) cx)

/-- `parseDexX` is a function of the map offset, the entries read and the loaded state -/
theorem parseDexX_congr (f g : Bytes) (mapOff : Nat) (rf rg : Bytes) (es es' : List MapEntry)
    (hf : u32 (f.drop 0x34) = some (mapOff, rf)) (hg : u32 (g.drop 0x34) = some (mapOff, rg))
    (hmf : readMap f mapOff = .ok es) (hmg : readMap g mapOff = .ok es')
    (hload : loadEntriesX g es' = loadEntriesX f es) : parseDexX g = parseDexX f := by
  unfold parseDexX
  simp only [hf, hg, hmf, hmg, hload]

end AgVerif.DexPerm
