/-
C18, Lengauer–Tarjan correctness, layer 3: the DFS of the model (Step 1) produces a `DTree`.
Beyond Proof/DomLT.lean (`DfsFacts`) this needs the two classical DFS facts
  fwd   an edge to a larger number goes to a tree descendant
  intv  the vertices numbered between a parent and its child are descendants of the parent
proved by a second induction over `dfsLoop` with the invariant "everything numbered at or above the
current vertex is one of its descendants" (`Sub`).
-/
import AgVerif.Proof.DomLT
import AgVerif.Proof.DomLT_Tree
namespace AgVerif.DomLT
open AgVerif AgVerif.Spec

theorem Anc.mono {par par' : Nat → Option Nat} (h : ∀ w p, par w = some p → par' w = some p)
    {u v : Nat} (ha : Anc par u v) : Anc par' u v := by
  induction ha with
  | refl => exact Anc.refl _
  | step hp _ ih => exact Anc.step (h _ _ hp) ih

def TIntv (semi : Nat → Nat) (par : Nat → Option Nat) : Prop :=
  ∀ w p y, par w = some p → semi y ≠ 0 → semi p < semi y → semi y < semi w → Anc par p y

/-- everything numbered at or above `cur` is a descendant of `cur` -/
def Sub (semi : Nat → Nat) (par : Nat → Option Nat) (cur : Nat) : Prop :=
  ∀ y, semi y ≠ 0 → semi cur ≤ semi y → Anc par cur y

/-- the vertices in `D` are finished: successors numbered, larger-numbered ones are descendants -/
def DoneF (g : Digraph) (D : List Nat) (semi : Nat → Nat) (par : Nat → Option Nat) : Prop :=
  ∀ u ∈ D, semi u ≠ 0 ∧ ∀ w ∈ g.allSucs u, semi w ≠ 0 ∧ (semi u < semi w → Anc par u w)

structure Mono2 (s s' : St) : Prop where
  semi : ∀ v, s.semi v ≠ 0 → s'.semi v = s.semi v
  par : ∀ w p, s.parent w = some p → s'.parent w = some p

theorem Mono2.refl (s : St) : Mono2 s s := ⟨fun _ _ => rfl, fun _ _ h => h⟩

theorem Mono2.trans {a b c : St} (h1 : Mono2 a b) (h2 : Mono2 b c) : Mono2 a c :=
  ⟨fun v hv => by rw [h2.semi v (by rw [h1.semi v hv]; exact hv), h1.semi v hv],
   fun w p h => h2.par w p (h1.par w p h)⟩

theorem DoneF.mono {g : Digraph} {D : List Nat} {s s' : St} (h : DoneF g D s.semi s.parent)
    (m : Mono2 s s') : DoneF g D s'.semi s'.parent := by
  intro u hu
  obtain ⟨h0, h1⟩ := h u hu
  refine ⟨by rw [m.semi u h0]; exact h0, ?_⟩
  intro w hw
  obtain ⟨h2, h3⟩ := h1 w hw
  refine ⟨by rw [m.semi w h2]; exact h2, ?_⟩
  intro hlt
  rw [m.semi u h0, m.semi w h2] at hlt
  exact (h3 hlt).mono m.par

/-- a vertex numbered at most `n` later on was already numbered -/
theorem old_of_le {g : Digraph} {r : Nat} {s s2 : St} {n n2 y : Nat} (h : DInv g r s n)
    (m : Mono s s2) (h2 : DInv g r s2 n2) (hy : s2.semi y ≠ 0) (hle : s2.semi y ≤ n) :
    s.semi y ≠ 0 := by
  obtain ⟨v, hv⟩ := h.vertex_surj (s2.semi y) (by omega) hle
  have h3 := (h.vertex_inv _ v hv).1
  have hv0 : s.semi v ≠ 0 := by omega
  have h4 := m.semi v hv0
  have h5 := (h2.num_range v (by omega)).2
  have h6 := (h2.num_range y hy).2
  rw [h4, h3, h6] at h5
  have : y = v := Option.some.inj h5
  subst this; exact hv0

/-- entering a new vertex `w` from `cur` -/
theorem enter_facts {g : Digraph} {r : Nat} {s : St} {n cur w : Nat} (h : DInv g r s n)
    (hcur : s.semi cur ≠ 0) (hw : s.semi w = 0) (ht : TIntv s.semi s.parent)
    (hsub : Sub s.semi s.parent cur) :
    let se := ({ s with parent := upd s.parent w (some cur) } : St).enter w (n + 1)
    Mono2 s se ∧ TIntv se.semi se.parent ∧ Sub se.semi se.parent w := by
  intro se
  have hsemi : se.semi = upd s.semi w (n + 1) := rfl
  have hpar : se.parent = upd s.parent w (some cur) := rfl
  have hne : ∀ v, s.semi v ≠ 0 → v ≠ w := fun v hv e => hv (e ▸ hw)
  have hm : Mono2 s se := by
    constructor
    · intro v hv; rw [hsemi]; simp [upd, hne v hv]
    · intro x p hp
      have := (h.parent_edge x p hp).2.2
      rw [hpar]; simp only [upd]
      rw [if_neg (hne x (by omega))]; exact hp
  refine ⟨hm, ?_, ?_⟩
  · intro x p y hp hy h1 h2
    rw [hsemi] at hy h1 h2
    rw [hpar] at hp
    simp only [upd] at hp hy h1 h2
    by_cases hxw : x = w
    · subst hxw
      simp at hp; subst hp
      have hcw : cur ≠ x := hne cur hcur
      simp only [if_neg hcw, if_true] at h1 h2
      have hyw : y ≠ x := fun e => by subst e; simp at h2
      simp only [if_neg hyw] at hy h1 h2
      exact (hsub y hy (by omega)).mono hm.par
    · simp only [if_neg hxw] at hp h2
      obtain ⟨_, hp0, hplt⟩ := h.parent_edge x p hp
      have hxle := (h.num_range x (by omega)).1
      have hpw : p ≠ w := hne p hp0
      simp only [if_neg hpw] at h1
      by_cases hyw : y = w
      · subst hyw; simp at h2; omega
      · simp only [if_neg hyw] at hy h1 h2
        exact (ht x p y hp hy h1 h2).mono hm.par
  · intro y hy hle
    rw [hsemi] at hy hle
    simp only [upd, if_true] at hy hle
    by_cases hyw : y = w
    · subst hyw; exact Anc.refl _
    · simp only [if_neg hyw] at hy hle
      have := (h.num_range y hy).1
      omega

/-- second invariant of the successor loop of Step 1 -/
theorem dfsLoop_inv2 (g : Digraph) (r : Nat) : ∀ (f cur : Nat) (ws : List Nat) (s : St) (n : Nat)
    (s' : St) (n' : Nat) (D : List Nat),
    dfsLoop g f cur ws (s, n) = some (s', n') → DInv g r s n → s.semi cur ≠ 0 →
    (∀ w ∈ ws, w ∈ g.allSucs cur) → TIntv s.semi s.parent → Sub s.semi s.parent cur →
    DoneF g D s.semi s.parent →
    TIntv s'.semi s'.parent ∧ Sub s'.semi s'.parent cur ∧ Mono2 s s' ∧
    ∃ D', (∀ x ∈ D, x ∈ D') ∧ DoneF g D' s'.semi s'.parent ∧
      (∀ v, s'.semi v ≠ 0 → s.semi v ≠ 0 ∨ v ∈ D')
  | 0, _, _, _, _, _, _, _, h, _, _, _, _, _, _ => by simp [dfsLoop] at h
  | f + 1, cur, [], s, n, s', n', D, h, _, _, _, ht, hsub, hd => by
    simp [dfsLoop] at h
    obtain ⟨h1, h2⟩ := h; subst h1; subst h2
    exact ⟨ht, hsub, Mono2.refl s, D, fun _ h => h, hd, fun v hv => Or.inl hv⟩
  | f + 1, cur, w :: ws, s, n, s', n', D, h, hi, hcur, hws, ht, hsub, hd => by
    simp only [dfsLoop] at h
    have hws' : ∀ x ∈ ws, x ∈ g.allSucs cur := fun x hx => hws x (List.mem_cons_of_mem _ hx)
    have he : w ∈ g.allSucs cur := hws w (List.mem_cons_self ..)
    split at h
    · next hw0 =>
      split at h
      · simp at h
      · next s2 n2 h1 =>
        obtain ⟨hi1, hm1⟩ := dinv_enter hi hcur hw0 he
        obtain ⟨hM1, ht1, hsub1⟩ := enter_facts hi hcur hw0 ht hsub
        have hw1 : (({ s with parent := upd s.parent w (some cur) } : St).enter w (n + 1)).semi w ≠ 0 := by
          simp [St.enter, upd]
        have hw1' : (({ s with parent := upd s.parent w (some cur) } : St).enter w (n + 1)).semi w = n + 1 := by
          simp [St.enter, upd]
        obtain ⟨hi2, hm2, hs2, _, _, _, _⟩ :=
          dfsLoop_inv g r f w (g.allSucs w) _ (n + 1) s2 n2 [] h1 hi1 hw1 (fun _ h => h)
            (by intro u hu; simp at hu)
        obtain ⟨ht2, hsub2, hM2, D1, hD1, hd1, hnew1⟩ :=
          dfsLoop_inv2 g r f w (g.allSucs w) _ (n + 1) s2 n2 D h1 hi1 hw1 (fun _ h => h) ht1 hsub1
            (hd.mono hM1)
        have hM12 := hM1.trans hM2
        have hcur2 : s2.semi cur ≠ 0 := by rw [hM12.semi cur hcur]; exact hcur
        have hw2 : s2.semi w = n + 1 := by rw [hM2.semi w hw1]; exact hw1'
        have hpw : s2.parent w = some cur := hM2.par w cur (by simp [St.enter, upd])
        obtain ⟨hi3, hm3, _⟩ := dinv_addPred (w := w) hi2 hcur2 he
        -- Sub for cur in s2
        have hsub3 : Sub s2.semi s2.parent cur := by
          intro y hy hle
          by_cases hyw : n + 1 ≤ s2.semi y
          · exact (Anc.parent hpw).trans (hsub2 y hy (by omega))
          · have hy0 := old_of_le hi (hm1.trans hm2) hi2 hy (by omega)
            rw [hM12.semi y hy0, hM12.semi cur hcur] at hle
            exact (hsub y hy0 hle).mono hM12.par
        have hd3 : DoneF g (w :: D1) s2.semi s2.parent := by
          intro u hu
          rcases List.mem_cons.mp hu with hu | hu
          · subst hu
            refine ⟨by omega, ?_⟩
            intro x hx
            exact ⟨(hs2 x hx).1, fun hlt => hsub2 x (hs2 x hx).1 (by omega)⟩
          · exact hd1 u hu
        obtain ⟨ht4, hsub4, hM4, D', hD', hd', hnew'⟩ :=
          dfsLoop_inv2 g r f cur ws (s2.addPred w cur) n2 s' n' (w :: D1) h hi3
            (hm3.vis hcur2) hws' ht2 hsub3 hd3
        have hM34 : Mono2 s2 s' := ⟨hM4.semi, hM4.par⟩
        refine ⟨ht4, hsub4, hM12.trans hM34, D',
          fun x hx => hD' x (List.mem_cons_of_mem _ (hD1 x hx)), hd', ?_⟩
        intro v hv
        rcases hnew' v hv with h' | h'
        · have h'' : s2.semi v ≠ 0 := h'
          rcases hnew1 v h'' with h3 | h3
          · by_cases hvw : v = w
            · exact Or.inr (hD' v (hvw ▸ List.mem_cons_self ..))
            · left; simpa [St.enter, upd, hvw] using h3
          · exact Or.inr (hD' v (List.mem_cons_of_mem _ h3))
        · exact Or.inr h'
    · next hw0 =>
      obtain ⟨hi1, hm1, _⟩ := dinv_addPred (w := w) hi hcur he
      obtain ⟨h1, h2, h3, D', h4, h5, h6⟩ :=
        dfsLoop_inv2 g r f cur ws (s.addPred w cur) n s' n' D h hi1 (hm1.vis hcur) hws' ht hsub hd
      exact ⟨h1, h2, ⟨h3.semi, h3.par⟩, D', h4, h5, h6⟩

/-- Step 1 of the model leaves a DFS tree in the sense of `DTree` -/
theorem dfs_dtree (g : Digraph) (f : Nat) (s : St) (n : Nat) (h : dfs g f = some (s, n)) :
    DTree g.Edge g.entry s.semi s.parent := by
  have hF := dfs_facts g f s n h
  have h0 : (St.init.enter g.entry 1).semi g.entry ≠ 0 := by simp [St.enter, upd]
  have hinit : ∀ v, (St.init.enter g.entry 1).semi v ≠ 0 → v = g.entry := by
    intro v hv
    simp only [St.enter, St.init, upd] at hv
    by_cases h : v = g.entry
    · exact h
    · simp [h] at hv
  obtain ⟨ht, hsub, _, D', _, hd, hnew⟩ :=
    dfsLoop_inv2 g g.entry f g.entry (g.allSucs g.entry) _ 1 s n [] h (dinv_init g g.entry) h0
      (fun _ h => h)
      (by intro w p y hp; simp [St.enter, St.init] at hp)
      (by intro y hy _; rw [hinit y hy]; exact Anc.refl _)
      (by intro u hu; simp at hu)
  refine ⟨hF.entry_one, hF.parent_entry, fun u v hu he => hF.semi_inj hu he, hF.semi_reach,
    hF.parent_lt, ?_, ?_, ht⟩
  · intro w hw hne
    obtain ⟨p, hp, _⟩ := hF.parent_tree w hw hne
    exact ⟨p, hp⟩
  · intro v w e hv hlt
    rcases hnew v hv with h1 | h1
    · rw [hinit v h1] at hlt ⊢
      exact hsub w (by omega) (by omega)
    · exact ((hd v h1).2 w e).2 hlt

end AgVerif.DomLT
