/- C01: byte round trip of the classes 23x 22b 22t 22s 22c 22cs (generated layout; tactic `rt4` of Proof/InsnRoundtrip.lean) -/
import AgVerif.Proof.InsnRoundtrip
set_option linter.unusedSimpArgs false
set_option linter.unusedVariables false
namespace AgVerif.Insn
open AgVerif.Gen

theorem rt_23x (bs : List Nat) (hb : AllBytes bs) (x : Insn) (h : decode .f23x bs = .ok x) :
    encode x = some (bs.take (Opcodes.length .f23x)) := by
  have hl := decode_ok_length h
  rt4

theorem rt_22b (bs : List Nat) (hb : AllBytes bs) (x : Insn) (h : decode .f22b bs = .ok x) :
    encode x = some (bs.take (Opcodes.length .f22b)) := by
  have hl := decode_ok_length h
  rt4

theorem rt_22t (bs : List Nat) (hb : AllBytes bs) (x : Insn) (h : decode .f22t bs = .ok x) :
    encode x = some (bs.take (Opcodes.length .f22t)) := by
  have hl := decode_ok_length h
  rt4

theorem rt_22s (bs : List Nat) (hb : AllBytes bs) (x : Insn) (h : decode .f22s bs = .ok x) :
    encode x = some (bs.take (Opcodes.length .f22s)) := by
  have hl := decode_ok_length h
  rt4

theorem rt_22c (bs : List Nat) (hb : AllBytes bs) (x : Insn) (h : decode .f22c bs = .ok x) :
    encode x = some (bs.take (Opcodes.length .f22c)) := by
  have hl := decode_ok_length h
  rt4

theorem rt_22cs (bs : List Nat) (hb : AllBytes bs) (x : Insn) (h : decode .f22cs bs = .ok x) :
    encode x = some (bs.take (Opcodes.length .f22cs)) := by
  have hl := decode_ok_length h
  rt4

end AgVerif.Insn
