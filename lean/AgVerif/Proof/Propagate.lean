import AgVerif.Model.Propagate
import AgVerif.Proof.PropagateSound
/-!
# C21 — register propagation on one basic block: what is refuted and what is proved

* `past_redefinition_*`: on the witness of the known finding `propagation-past-redefinition`
  the model of the code returns another value than the block it was given.
* `propagate_sound` (below): when every change the pass makes passes `safeStep`, the block
  computes the same outcome in every environment, for every meaning of the operators.
-/
namespace AgVerif.Propagate

/-- `v0 = (char) p10; p10 %= p11; return v0` -/
def pastRedefinition : Block :=
  ⟨[10, 11],
   [.assign (some 0) (.un .i2c (some 10) (.var 10)),
    .assign (some 10) (.bin .rem (some 10) (.var 10) (some 11) (.var 11)),
    .ret (some 0) (.var 0)]⟩

/-- `p10 = 7`, `p11 = 4` -/
def env74 : Env := fun r => if r = 10 then 7 else if r = 11 then 4 else 0

/-- what `register_propagation` makes of it: `p10 %= p11; return (char) p10` -/
theorem past_redefinition_output :
    propagate pastRedefinition =
      ⟨[10, 11],
       [.assign (some 10) (.bin .rem (some 10) (.var 10) (some 11) (.var 11)),
        .ret (some 0) (.un .i2c (some 10) (.var 10))]⟩ := by decide

theorem past_redefinition_before : pastRedefinition.run javaSem env74 = .ret 7 [] := by decide

theorem past_redefinition_after : (propagate pastRedefinition).run javaSem env74 = .ret 3 [] := by decide

theorem past_redefinition_not_safe : ¬ SafeBlock pastRedefinition := by decide

/-- `v0 = p10 + p11; v1 = v0 * v0; v2 = v1 - 1; return v2` -/
def safeExample : Block :=
  ⟨[10, 11],
   [.assign (some 0) (.bin .add (some 10) (.var 10) (some 11) (.var 11)),
    .assign (some 1) (.bin .mul (some 0) (.var 0) (some 0) (.var 0)),
    .assign (some 2) (.bin .sub (some 1) (.var 1) none (.const 1)),
    .ret (some 2) (.var 2)]⟩

/-- non-vacuity of `propagate_sound`: the pass folds the whole block into the return, and every change is safe -/
theorem safeExample_safe : SafeBlock safeExample ∧
    (propagate safeExample).stmts =
      [.ret (some 2) (.bin .sub (some 1)
        (.bin .mul (some 0) (.bin .add (some 10) (.var 10) (some 11) (.var 11))
                   (some 0) (.bin .add (some 10) (.var 10) (some 11) (.var 11)))
        none (.const 1))] := by decide

/-- a cast of a parameter propagated to two uses (the "constant" branch of the pass) with nothing assigned in between -/
theorem safeExample2_safe : SafeBlock
    ⟨[10], [.assign (some 0) (.un .i2c (some 10) (.var 10)),
            .assign (some 1) (.bin .add (some 0) (.var 0) (some 10) (.var 10)),
            .ret (some 2) (.bin .xor (some 1) (.var 1) (some 0) (.var 0))]⟩ := by decide

/-! ## dead-code elimination -/

/-- `v0 = p10 / p11; return p10` -/
def deadDivision : Block :=
  ⟨[10, 11], [.assign (some 0) (.bin .div (some 10) (.var 10) (some 11) (.var 11)), .ret (some 10) (.var 10)]⟩

/-- `p10 = 5`, `p11 = 0` -/
def env50 : Env := fun r => if r = 10 then 5 else 0

theorem dead_division_output : dce deadDivision = ⟨[10, 11], [.ret (some 10) (.var 10)]⟩ := by decide
theorem dead_division_before : deadDivision.run javaSem env50 = .throw [] := by decide
theorem dead_division_after : (dce deadDivision).run javaSem env50 = .ret 5 [] := by decide

/-- `v0 = p10 + p11; v1 = - v0; v2 = f0(p10); v3 = v1 * v1; return p11`: a dead chain is deleted from its end
    (`update_chain`), the call stays without its register -/
def deadChain : Block :=
  ⟨[10, 11],
   [.assign (some 0) (.bin .add (some 10) (.var 10) (some 11) (.var 11)),
    .assign (some 1) (.un .neg (some 0) (.var 0)),
    .assign (some 2) (.call 0 (some 10) (.var 10)),
    .assign (some 3) (.bin .mul (some 1) (.var 1) (some 1) (.var 1)),
    .ret (some 11) (.var 11)]⟩

theorem deadChain_safe : (dcePass deadChain).ok = true ∧
    (dce deadChain).stmts = [.assign none (.call 0 (some 10) (.var 10)), .ret (some 11) (.var 11)] := by decide

/-- `v0 = p10 + p11; v9 = v0 * v0; v1 = v0 - p10; return v1`: both passes change the block and every change is checked -/
theorem pipelineExample_safe :
    (dceThenPropagate ⟨[10, 11],
      [.assign (some 0) (.bin .add (some 10) (.var 10) (some 11) (.var 11)),
       .assign (some 9) (.bin .mul (some 0) (.var 0) (some 0) (.var 0)),
       .assign (some 1) (.bin .sub (some 0) (.var 0) (some 10) (.var 10)),
       .ret (some 1) (.var 1)]⟩).ok = true := by decide

/-! ## divisions -/

/-- `v0 = p10 / p11; v1 = v0 + 1; return v1`: the division is propagated into the return, nothing can be observed
    before it is evaluated there -/
def divisionExample : Block :=
  ⟨[10, 11],
   [.assign (some 0) (.bin .div (some 10) (.var 10) (some 11) (.var 11)),
    .assign (some 1) (.bin .add (some 0) (.var 0) none (.const 1)),
    .ret (some 1) (.var 1)]⟩

theorem divisionExample_safe : SafeBlock divisionExample ∧
    (propagate divisionExample).stmts =
      [.ret (some 1) (.bin .add (some 0) (.bin .div (some 10) (.var 10) (some 11) (.var 11)) none (.const 1))] := by
  decide

/-- `v0 = p10 / p11; v1 = f1(p10); return v1 + v0` -/
def divisionBehindCall : Block :=
  ⟨[10, 11],
   [.assign (some 0) (.bin .div (some 10) (.var 10) (some 11) (.var 11)),
    .assign (some 1) (.call 1 (some 10) (.var 10)),
    .ret (some 2) (.bin .add (some 1) (.var 1) (some 0) (.var 0))]⟩

/-- the pass moves the division behind the call: `return f1(p10) + p10 / p11` -/
theorem division_behind_call_output :
    (propagate divisionBehindCall).stmts =
      [.ret (some 2) (.bin .add (some 1) (.call 1 (some 10) (.var 10))
                               (some 0) (.bin .div (some 10) (.var 10) (some 11) (.var 11)))] := by decide
theorem division_behind_call_before : divisionBehindCall.run javaSem env50 = .throw [] := by decide
theorem division_behind_call_after : (propagate divisionBehindCall).run javaSem env50 = .throw [(1, 5)] := by decide
theorem division_behind_call_not_safe : ¬ SafeBlock divisionBehindCall := by decide
theorem dead_division_not_safe : (dcePass deadDivision).ok = false := by decide

/-! ## a definition deleted while it is still read (known finding `declaration-inside-expression`) -/

/-- `v0 = (char) p10; v1 = p10 + 1; v2 = v1 * 2; v3 = v0 + 1; v4 = v0 - v3; v5 = v4 + v2; return v5`:
    every register is assigned once, no invoke, no division.  Deleting `v1 = ...` makes the index iteration skip
    `v3 = v0 + 1` in the first round, so `v4 = v0 - v3` receives first `(char) p10` for `v0` and then `v0 + 1` for `v3`;
    in the next round `replace(v0, ...)` finds the key `v0` already holding `(char) p10`, overwrites that and never
    reaches the `v0` inside `v0 + 1`, but the chains are updated as if it had: `v0 = (char) p10` is deleted. -/
def usedDefinitionDeleted : Block :=
  ⟨[10],
   [.assign (some 0) (.un .i2c (some 10) (.var 10)),
    .assign (some 1) (.bin .add (some 10) (.var 10) none (.const 1)),
    .assign (some 2) (.bin .mul (some 1) (.var 1) none (.const 2)),
    .assign (some 3) (.bin .add (some 0) (.var 0) none (.const 1)),
    .assign (some 4) (.bin .sub (some 0) (.var 0) (some 3) (.var 3)),
    .assign (some 5) (.bin .add (some 4) (.var 4) (some 2) (.var 2)),
    .ret (some 5) (.var 5)]⟩

/-- `p10 = 7`, `v0 = 13` on entry -/
def env7 : Env := fun r => if r = 10 then 7 else if r = 0 then 13 else 0

/-- the pass leaves `return (((char) p10) - (v0 + 1)) + ((p10 + 1) * 2)` and no definition of `v0` -/
theorem used_definition_deleted_output :
    (propagate usedDefinitionDeleted).stmts =
      [.ret (some 5) (.bin .add
        (some 4) (.bin .sub (some 0) (.un .i2c (some 10) (.var 10))
                            (some 3) (.bin .add (some 0) (.var 0) none (.const 1)))
        (some 2) (.bin .mul (some 1) (.bin .add (some 10) (.var 10) none (.const 1)) none (.const 2)))] := by decide
theorem used_definition_deleted_before : usedDefinitionDeleted.run javaSem env7 = .ret 15 [] := by decide
theorem used_definition_deleted_after : (propagate usedDefinitionDeleted).run javaSem env7 = .ret 9 [] := by decide
theorem used_definition_deleted_not_safe : ¬ SafeBlock usedDefinitionDeleted := by decide

end AgVerif.Propagate
