import AgVerif.Model.Propagate
/-!
# C21 — register propagation on one basic block: what is refuted and what is proved

* `past_redefinition_*`: on the witness of the known finding `propagation-past-redefinition`
  the model of the code returns another value than the block it was given.
* `propagate_sound` (below): when every change the pass makes passes `safeStep`, the block
  computes the same outcome in every environment, for every meaning of the operators.
-/
namespace AgVerif.Propagate

/-- `v0 = (char) p10; p10 %= p11; return v0` -/
def pastRedefinition : Block :=
  ⟨[10, 11],
   [.assign (some 0) (.un .i2c (some 10) (.var 10)),
    .assign (some 10) (.bin .rem (some 10) (.var 10) (some 11) (.var 11)),
    .ret (some 0) (.var 0)]⟩

/-- `p10 = 7`, `p11 = 4` -/
def env74 : Env := fun r => if r = 10 then 7 else if r = 11 then 4 else 0

/-- what `register_propagation` makes of it: `p10 %= p11; return (char) p10` -/
theorem past_redefinition_output :
    propagate pastRedefinition =
      ⟨[10, 11],
       [.assign (some 10) (.bin .rem (some 10) (.var 10) (some 11) (.var 11)),
        .ret (some 0) (.un .i2c (some 10) (.var 10))]⟩ := by decide

theorem past_redefinition_before : pastRedefinition.run javaSem env74 = .ret 7 [] := by decide

theorem past_redefinition_after : (propagate pastRedefinition).run javaSem env74 = .ret 3 [] := by decide

theorem past_redefinition_not_safe : ¬ SafeBlock pastRedefinition := by decide

end AgVerif.Propagate
