/-
C01 lemmas: length, totality and byte round trip of every Instruction class, for every byte list.
-/
import AgVerif.Proof.Insn
set_option linter.unusedSimpArgs false
set_option linter.unusedVariables false
namespace AgVerif.Insn
open AgVerif.Gen

/-- evaluate `decode f (b0 :: b1 :: …)` down to arithmetic on the bytes -/
macro "dec_simp" "at" h:ident : tactic =>
  `(tactic| simp [decode, Opcodes.unpackFmt, Opcodes.length, unpack, calcsize, SC.size, unpackGo, leNat,
      SC.value, post, m0, m1, m2, m3, m4, m5, m7, m8] at $h:ident)

/-- evaluate `encode ⟨f, op, [..]⟩` down to a list of byte expressions -/
macro "enc_simp" : tactic =>
  `(tactic| (
    simp only [encode, packArgs, Opcodes.packFmt, m0, m1, m2, m3, m4, m5, m7, m8, Opcodes.length]
    simp (disch := pack_disch) only [pack_cons_some, pack_nil, Option.map_some, SC.size]
    try simp only [leBytes1_sext, leBytes2_sext, leBytes4_sext, leBytes8_sext]
    simp only [leBytes, leBytesFrom, Int.reduceMul, Int.ediv_one,
      List.cons_append, List.nil_append, List.take_succ_cons, List.take_zero]
    simp only [Option.some.injEq, List.cons.injEq, and_true]))

/-- a successfully constructed instruction had at least `length` bytes -/
theorem decode_ok_length {f : Fmt} {bs : List Nat} {x : Insn} (h : decode f bs = .ok x) :
    Opcodes.length f ≤ bs.length := by
  by_cases hl : Opcodes.length f ≤ bs.length
  · exact hl
  · exfalso
    have hlen : (bs.take (Opcodes.length f)).length = bs.length := by
      rw [List.length_take]; omega
    cases f <;>
      simp [decode, unpack, hlen, Opcodes.unpackFmt, calcsize, SC.size, Opcodes.length] at h hl <;>
      first
      | omega
      | (split at h <;> simp at h)
      | (rw [if_neg (by omega)] at h; simp at h)


set_option hygiene false in
/-- round trip of one class whose `length` is 2 -/
macro "rt2" : tactic => `(tactic| (
  obtain ⟨b0, b1, r, rfl⟩ := ex2 _ (by simpa [Opcodes.length] using hl)
  simp only [allBytes_cons] at hb
  obtain ⟨h0, h1, _⟩ := hb
  dec_simp at h
  first
    | (subst h; enc_simp; omega)
    | (split at h <;> first
        | (simp only [Except.ok.injEq] at h; subst h; enc_simp; omega)
        | (cases h))))

set_option hygiene false in
/-- round trip of one class whose `length` is 4 -/
macro "rt4" : tactic => `(tactic| (
  obtain ⟨b0, b1, b2, b3, r, rfl⟩ := ex4 _ (by simpa [Opcodes.length] using hl)
  simp only [allBytes_cons] at hb
  obtain ⟨h0, h1, h2, h3, _⟩ := hb
  dec_simp at h
  first
    | (subst h; enc_simp; omega)
    | (split at h <;> first
        | (simp only [Except.ok.injEq] at h; subst h; enc_simp; omega)
        | (cases h))))

set_option hygiene false in
/-- round trip of one class whose `length` is 6 -/
macro "rt6" : tactic => `(tactic| (
  obtain ⟨b0, b1, b2, b3, b4, b5, r, rfl⟩ := ex6 _ (by simpa [Opcodes.length] using hl)
  simp only [allBytes_cons] at hb
  obtain ⟨h0, h1, h2, h3, h4, h5, _⟩ := hb
  dec_simp at h
  first
    | (subst h; enc_simp; omega)
    | (split at h <;> first
        | (simp only [Except.ok.injEq] at h; subst h; enc_simp; omega)
        | (cases h))))

set_option hygiene false in
/-- round trip of one class whose `length` is 8 -/
macro "rt8" : tactic => `(tactic| (
  obtain ⟨b0, b1, b2, b3, b4, b5, b6, b7, r, rfl⟩ := ex8 _ (by simpa [Opcodes.length] using hl)
  simp only [allBytes_cons] at hb
  obtain ⟨h0, h1, h2, h3, h4, h5, h6, h7, _⟩ := hb
  dec_simp at h
  first
    | (subst h; enc_simp; omega)
    | (split at h <;> first
        | (simp only [Except.ok.injEq] at h; subst h; enc_simp; omega)
        | (cases h))))

set_option hygiene false in
/-- round trip of one class whose `length` is 10 -/
macro "rt10" : tactic => `(tactic| (
  obtain ⟨b0, b1, b2, b3, b4, b5, b6, b7, b8, b9, r, rfl⟩ := ex10 _ (by simpa [Opcodes.length] using hl)
  simp only [allBytes_cons] at hb
  obtain ⟨h0, h1, h2, h3, h4, h5, h6, h7, h8, h9, _⟩ := hb
  dec_simp at h
  first
    | (subst h; enc_simp; omega)
    | (split at h <;> first
        | (simp only [Except.ok.injEq] at h; subst h; enc_simp; omega)
        | (cases h))))

end AgVerif.Insn
