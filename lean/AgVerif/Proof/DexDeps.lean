/-
C07, concrete loader: the dependency table of the code (Gen.MapDeps.deps) against what the item
parsers of Model/DexFile.lean read (`DexFrame.reads`).

`closure deps T` = every type reachable from `T` through the table (the load order respects the
transitive closure: Props/C07 `load_order_topological`).  `reads` is exact (`reads_exact`: for every
listed pair there are two states differing in that one table on which the parser's output
differs), so for ANY table the frame property holds iff the table's closure contains `reads`
(`frame_iff_adequate`).
-/
import AgVerif.Proof.DexFrame
import AgVerif.Gen.MapDeps
namespace AgVerif.DexFrame
open AgVerif.DexFile AgVerif.LoadOrder

/-- `_get_dependencies()[t]` ([] for a type that is not a key) -/
def direct (deps : Deps) (t : Nat) : List Nat :=
  match deps.find? (fun e => e.1 == t) with
  | some e => e.2
  | none => []

def expand (deps : Deps) (S : List Nat) : List Nat := (S ++ S.flatMap (direct deps)).eraseDups

/-- everything reachable from `t` in at least one step (a path without repetition has fewer than
    `deps.length` edges) -/
def iter {α} (f : α → α) : Nat → α → α
  | 0, a => a
  | n + 1, a => iter f n (f a)

def closure (deps : Deps) (t : Nat) : List Nat := iter (expand deps) deps.length (direct deps t)

/-- the table covers the reads of every modelled item parser -/
def adequate (deps : Deps) : Prop := ∀ T ∈ modelled, ∀ D ∈ reads T, D ∈ closure deps T

instance (deps : Deps) : Decidable (adequate deps) := by unfold adequate; infer_instance

theorem reads_nil_of_not_modelled {t : Nat} (h : t ∉ modelled) : reads t = [] := by
  simp only [modelled, List.mem_cons, List.not_mem_nil, or_false, not_or] at h
  simp [reads, h]

/-- frame for any adequate table: states that agree on the tables of the (transitively) declared
    dependencies of `e.type` give the same result -/
theorem step_frame_of_adequate (deps : Deps) (had : adequate deps) (file : Bytes) (e : MapEntry)
    (cm₁ cm₂ : CM) (h : agreeOn (closure deps e.type) cm₁ cm₂) : FrameOK file e cm₁ cm₂ := by
  apply step_frame_reads
  by_cases hm : e.type ∈ modelled
  · exact agreeOn_mono (had _ hm) h
  · rw [reads_nil_of_not_modelled hm]; intro t ht; cases ht

/-! ### `reads` is exact -/

/-- the part of `FrameOK` about the written table (decidable) -/
def WriteSame (file : Bytes) (e : MapEntry) (cm₁ cm₂ : CM) : Prop :=
  Rel2 (fun a b => sameTable e.type a b) (step file cm₁ e) (step file cm₂ e)

instance (P : CM → CM → Prop) [∀ a b, Decidable (P a b)] (x y : Except String CM) :
    Decidable (Rel2 P x y) := by
  cases x <;> cases y <;> simp only [Rel2] <;> infer_instance

instance (file : Bytes) (e : MapEntry) (cm₁ cm₂ : CM) : Decidable (WriteSame file e cm₁ cm₂) := by
  unfold WriteSame; infer_instance

theorem Rel2.imp {P Q : CM → CM → Prop} (h : ∀ a b, P a b → Q a b) {x y : Except String CM}
    (hr : Rel2 P x y) : Rel2 Q x y := by
  cases x <;> cases y <;> simp_all [Rel2]

theorem FrameOK.writeSame {file : Bytes} {e : MapEntry} {cm₁ cm₂ : CM} (h : FrameOK file e cm₁ cm₂) :
    WriteSame file e cm₁ cm₂ := Rel2.imp (fun _ _ hab => hab.1) h

/-- one item of every kind at offset 0: as a class_def_item it has interfaces_off = 8 and
    class_data_off = 9; as a proto/field/method/type id all indices are 0 -/
def witFile : Bytes :=
  [0,0,0,0, 0,0,0,0, 0,0,0,0, 8,0,0,0, 0,0,0,0, 0,0,0,0, 9,0,0,0, 0,0,0,0]

/-- a ClassManager in which every lookup of `witFile`'s items succeeds -/
def witCM : CM :=
  { strData := some [(100, [65])], stringIds := some [100], typeIds := some [0],
    typeLists := some [(8, [0])], protoIds := some [⟨⟨0, 0, 8⟩, [65], [65]⟩],
    classData := some [(9, ⟨[], [], [], []⟩)] }

/-- forget the table of map type `d` -/
def clear (d : Nat) (cm : CM) : CM :=
  if d = 0x2002 then { cm with strData := none } else if d = 0x0001 then { cm with stringIds := none }
  else if d = 0x0002 then { cm with typeIds := none } else if d = 0x1001 then { cm with typeLists := none }
  else if d = 0x0003 then { cm with protoIds := none } else if d = 0x0004 then { cm with fieldIds := none }
  else if d = 0x0005 then { cm with methodIds := none } else if d = 0x2000 then { cm with classData := none }
  else if d = 0x2001 then { cm with codes := none } else if d = 0x0006 then { cm with classDefs := none }
  else cm

theorem clear_sameTable (d t : Nat) (cm : CM) (h : t ≠ d) : sameTable t cm (clear d cm) := by
  unfold clear
  repeat' split
  all_goals simp_all [sameTable]

/-- every pair in `reads` is a real dependency: forgetting that one table changes what the parser
    of `T` writes (or whether it fails) -/
theorem reads_exact : ∀ T ∈ modelled, ∀ D ∈ reads T,
    ¬ WriteSame witFile ⟨T, 1, 0⟩ witCM (clear D witCM) := by
  decide +kernel

/-- for ANY dependency table: the frame property (agreement on the transitively declared
    dependencies suffices) holds iff the closure of the table contains `reads` -/
theorem frame_iff_adequate (deps : Deps) :
    (∀ file e cm₁ cm₂, agreeOn (closure deps e.type) cm₁ cm₂ → FrameOK file e cm₁ cm₂) ↔ adequate deps := by
  constructor
  · intro h T hT D hD
    apply Decidable.byContradiction
    intro hn
    refine reads_exact T hT D hD (h witFile ⟨T, 1, 0⟩ witCM (clear D witCM) ?_).writeSame
    intro t ht
    exact clear_sameTable D t witCM (fun heq => hn (heq ▸ ht))
  · intro had file e cm₁ cm₂ h
    exact step_frame_of_adequate deps had file e cm₁ cm₂ h

/-! ### the table of the code -/

/-- (3) the generated table covers every read of every modelled item parser; and TYPE_ID → STRING_DATA
    (the real TypeIdItem.__init__ keeps the string that get_string returned, the model keeps the index
    and resolves it again in get_type, so this pair is not in `reads`) -/
theorem deps_adequate : adequate Gen.MapDeps.deps ∧ 0x2002 ∈ closure Gen.MapDeps.deps 0x0002 := by
  decide +kernel

/-- a fixed copy of `_get_dependencies()` as it stood when this file was written (the generated
    table `Gen.MapDeps.deps` follows the source; the demonstrations below must not start failing
    when the source gains a redundant entry, so they are about this copy) -/
def refDeps : Deps := [
  (0x0, []), (0x1, [0x2002]), (0x2, [0x1]), (0x3, [0x1, 0x2, 0x1001]), (0x4, [0x1, 0x2]),
  (0x5, [0x1, 0x2, 0x3]), (0x6, [0x1, 0x2, 0x1001, 0x2000, 0x2003, 0x2005, 0x2006]),
  (0x7, [0x1, 0x5, 0x8]), (0x8, [0x4, 0x5]), (0x1000, []), (0x1001, [0x2]), (0x1002, [0x1003]),
  (0x1003, [0x2004]), (0x2000, [0x4, 0x5]), (0x2001, [0x2, 0x2003]), (0x2002, []), (0x2003, [0x1, 0x2]),
  (0x2004, [0x1, 0x2, 0x3, 0x4, 0x5]), (0x2005, [0x1, 0x2, 0x3, 0x4, 0x5]), (0x2006, [0x4, 0x5, 0x1003]),
  (0xf000, [])]

theorem refDeps_adequate : adequate refDeps := by decide +kernel

/-- the table with one pair removed -/
def dropDep (deps : Deps) (t d : Nat) : Deps :=
  deps.map fun e => if e.1 = t then (e.1, e.2.filter (· != d)) else e

/-- dropping a real dependency that no other declared path implies breaks adequacy … -/
theorem deps_mutants_inadequate :
    ¬ adequate (dropDep refDeps 0x0006 0x2000) ∧      -- CLASS_DEF → CLASS_DATA
    ¬ adequate (dropDep refDeps 0x0001 0x2002) ∧      -- STRING_ID → STRING_DATA
    ¬ adequate (dropDep refDeps 0x0002 0x0001) ∧      -- TYPE_ID → STRING_ID
    ¬ adequate (dropDep refDeps 0x0005 0x0003) ∧      -- METHOD_ID → PROTO_ID
    ¬ adequate (dropDep refDeps 0x0003 0x1001) := by  -- PROTO_ID → TYPE_LIST (read by METHOD_ID)
  decide +kernel

/-- … while (CLASS_DEF, TYPE_ID) alone is implied by CLASS_DEF → TYPE_LIST → TYPE_ID -/
theorem deps_redundant_pair : adequate (dropDep refDeps 0x0006 0x0002) := by decide +kernel

/-- the direct entries alone are not enough: METHOD_ID reads the type lists (parameter string) and
    the string data, which it declares only through PROTO_ID → TYPE_LIST and STRING_ID → STRING_DATA -/
theorem deps_direct_not_enough :
    ¬ (∀ T ∈ modelled, ∀ D ∈ reads T, D ∈ direct refDeps T) := by decide +kernel

end AgVerif.DexFrame
