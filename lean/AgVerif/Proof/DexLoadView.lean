/-
C05, file level, part 4: header → map list, and the view of the loaded state.
`parseDex file = ok (declared T L)`.
-/
import AgVerif.Proof.DexLoadFold
namespace AgVerif.C05
open AgVerif.DexFile AgVerif.LoadOrder
open AgVerif.Spec.DexFile (ushort uint ULeb protoId fieldId methodId classDef typeListBody codeHdr EncClassData)

/-! ### the map list -/

theorem members_lt : ∀ t ∈ Gen.MapDeps.members.map (·.2), t < 65536 := by decide

theorem decMapEntry_enc (e : MapEntry) (rest : Bytes) (ht : e.type ∈ Gen.MapDeps.members.map (·.2))
    (hs : e.size < 2 ^ 32) (ho : e.offset < 2 ^ 32) :
    decMapEntry (mapEntryBytes e ++ rest) = some (.ok e, rest) := by
  have hany : Gen.MapDeps.members.any (·.2 == e.type) = true := by
    rw [List.any_eq_true]
    obtain ⟨p, hp, he⟩ := List.mem_map.mp ht
    exact ⟨p, hp, by simp [he]⟩
  simp only [decMapEntry, mapEntryBytes, List.append_assoc, bind, Option.bind,
    u16_enc _ _ (members_lt _ ht), u16_enc 0 _ (by omega), u32_enc _ _ hs, u32_enc _ _ ho, hany,
    ↓reduceIte, pure]

theorem readMapEntries_enc : ∀ (es : List MapEntry) (rest : Bytes),
    (∀ e ∈ es, e.type ∈ Gen.MapDeps.members.map (·.2) ∧ e.size < 2 ^ 32 ∧ e.offset < 2 ^ 32) →
    readMapEntries es.length (es.flatMap mapEntryBytes ++ rest) = .ok es
  | [], _, _ => rfl
  | e :: es, rest, h => by
    obtain ⟨h1, h2, h3⟩ := h e List.mem_cons_self
    simp only [List.length_cons, readMapEntries, List.flatMap_cons, List.append_assoc,
      decMapEntry_enc e _ h1 h2 h3,
      readMapEntries_enc es rest (fun x hx => h x (List.mem_cons_of_mem _ hx))]

variable {file : Bytes} {L : Layout} {T : Tables}

theorem readMap_enc (henc : Encodes file L T) : readMap file L.mapOff = .ok L.map := by
  obtain ⟨post, hp⟩ := henc.mapAt.drop
  unfold readMap
  rw [hp, List.append_assoc, u32_enc _ _ henc.mapLen]
  exact readMapEntries_enc L.map post (fun e he => ⟨henc.members e he, henc.ranges e he⟩)

theorem header_enc (henc : Encodes file L T) : ∃ r, u32 (file.drop 0x34) = some (L.mapOff, r) := by
  obtain ⟨post, hp⟩ := henc.header.drop
  exact ⟨post, by rw [hp, u32_enc _ _ henc.mapOff_lt]⟩

/-- header → map → sections → tables → view, up to the view -/
theorem parseDex_tables (henc : Encodes file L T) (hwf : WF T L) :
    parseDex file = viewOf (tablesCM T L) := by
  obtain ⟨r, hr⟩ := header_enc henc
  simp only [parseDex, hr, henc.mapOff_ne, ↓reduceIte, readMap_enc henc, loadEntries_tables henc hwf]

/-! ### the view of the tables -/

theorem base_tables (h1 : (L.sec 0x0001).isSome) (h2 : (L.sec 0x0002).isSome) : Base (tablesCM T L) T L where
  sids := by
    cases hq : L.sec 0x0001 with
    | none => simp [hq] at h1
    | some e => simp [tablesCM, hq]
  sdat := tab_getD L 0x2002 _
  tids := by
    cases hq : L.sec 0x0002 with
    | none => simp [hq] at h2
    | some e => simp [tablesCM, hq]

theorem viewField_tables (h4 : (L.sec 0x0004).isSome) (f : EncField) :
    viewField (tablesCM T L) f = .ok (fieldV T L f) := by
  cases hq : L.sec 0x0004 with
  | none => simp [hq] at h4
  | some e =>
    unfold viewField fieldV
    simp only [tablesCM, hq, Option.map_some, List.getElem?_map]
    cases T.fieldIds[f.idx]? <;> rfl

theorem viewMethod_tables (h5 : (L.sec 0x0005).isSome) (m : EncMethod) :
    viewMethod (tablesCM T L) m = .ok (methodV T L m) := by
  cases hq : L.sec 0x0005 with
  | none => simp [hq] at h5
  | some e =>
    have hc : (tablesCM T L).codes.getD [] = codeTab T L := tab_getD L 0x2001 _
    unfold viewMethod methodV
    rw [hc]
    simp only [tablesCM, hq, Option.map_some, List.getElem?_map]
    cases T.methodIds[m.idx]? <;> rfl

theorem mapE_nil_or {α β ε} (f : α → Except ε β) (g : α → β) (l : List α)
    (h : l ≠ [] → ∀ x, f x = .ok (g x)) : mapE f l = .ok (l.map g) :=
  mapE_ok f g l (fun x hx => h (List.ne_nil_of_mem hx) x)

theorem viewClass_tables (hwf : WF T L) (c : ClassDef) (hc : c ∈ T.classDefs) :
    viewClass (tablesCM T L) (classR T L c) = .ok (classV T L c) := by
  have hne : T.classDefs ≠ [] := List.ne_nil_of_mem hc
  have hb : Base (tablesCM T L) T L := base_tables (hwf.classSecs hne).1 (hwf.classSecs hne).2
  unfold viewClass classV
  simp only [classR]
  have key : ∀ (src : Option Bytes),
      (match classDataAt T L c.dataOff with
        | none => (pure ⟨typeAt T L c.cls, typeAt T L c.super, (typeListAt T L c.ifacesOff).getD [], c.access, src,
            [], [], [], []⟩ : Except String ClassV)
        | some d => do
          let sf ← mapE (viewField (tablesCM T L)) d.sf
          let inf ← mapE (viewField (tablesCM T L)) d.inf
          let dm ← mapE (viewMethod (tablesCM T L)) d.dm
          let vm ← mapE (viewMethod (tablesCM T L)) d.vm
          pure ⟨typeAt T L c.cls, typeAt T L c.super, (typeListAt T L c.ifacesOff).getD [], c.access, src,
            sf, inf, dm, vm⟩) =
      .ok (match classDataAt T L c.dataOff with
        | none => ⟨typeAt T L c.cls, typeAt T L c.super, (typeListAt T L c.ifacesOff).getD [], c.access, src,
            [], [], [], []⟩
        | some d => ⟨typeAt T L c.cls, typeAt T L c.super, (typeListAt T L c.ifacesOff).getD [], c.access, src,
            d.sf.map (fieldV T L), d.inf.map (fieldV T L), d.dm.map (methodV T L), d.vm.map (methodV T L)⟩) := by
    intro src
    cases hd : classDataAt T L c.dataOff with
    | none => rfl
    | some d =>
      obtain ⟨hf, hm⟩ := hwf.classMembers c hc d (Option.mem_def.mpr hd)
      simp only [bind, Except.bind,
        mapE_nil_or (viewField (tablesCM T L)) (fieldV T L) d.sf (fun h => viewField_tables (hf (Or.inl h))),
        mapE_nil_or (viewField (tablesCM T L)) (fieldV T L) d.inf (fun h => viewField_tables (hf (Or.inr h))),
        mapE_nil_or (viewMethod (tablesCM T L)) (methodV T L) d.dm (fun h => viewMethod_tables (hm (Or.inl h))),
        mapE_nil_or (viewMethod (tablesCM T L)) (methodV T L) d.vm (fun h => viewMethod_tables (hm (Or.inr h))),
        pure, Except.pure]
  by_cases h : c.srcIdx = 0xFFFFFFFF
  · simp only [h, ↓reduceIte]
    exact key none
  · simp only [h, ↓reduceIte, getString_tab hb]
    exact key (some (strAt T L c.srcIdx))

theorem placed_map_snd {α} : ∀ (xs : List (α × Bytes)) (o : Nat), (placed o xs).map (·.2) = xs.map (·.1)
  | [], _ => rfl
  | (x, b) :: xs, o => by simp only [placed, List.map_cons, placed_map_snd xs]

theorem Section.none_nil {bytes : Bytes} {t n : Nat} {al : Bool} (h : Section file L t n bytes al)
    (hq : L.sec t = none) : n = 0 := by
  unfold Section at h
  rw [hq] at h
  exact h

theorem viewOf_tables (henc : Encodes file L T) (hwf : WF T L) :
    viewOf (tablesCM T L) = .ok (declared T L) := by
  have hs : ((tablesCM T L).strData.getD []).map (·.2) = T.strings.map (·.2) := by
    have : (tablesCM T L).strData.getD [] = strTab T L := tab_getD L 0x2002 _
    rw [this]
    unfold strTab tab
    cases hq : L.sec 0x2002 with
    | none =>
      have := List.eq_nil_of_length_eq_zero (henc.strings.none_nil hq)
      simp [this]
    | some e => simp [placed_map_snd, Tables.strItems, List.map_map, Function.comp_def]
  have hc : mapE (viewClass (tablesCM T L)) ((tablesCM T L).classDefs.getD []) =
      .ok (T.classDefs.map (classV T L)) := by
    cases hq : L.sec 0x0006 with
    | none =>
      have := List.eq_nil_of_length_eq_zero (henc.classDefs.none_nil hq)
      simp [tablesCM, hq, this, mapE]
    | some e =>
      simp only [tablesCM, hq, Option.map_some, Option.getD_some]
      have := mapE_ok (viewClass (tablesCM T L)) (fun r => classV T L r.raw) (T.classDefs.map (classR T L))
        (fun x hx => by
          obtain ⟨c, hc, rfl⟩ := List.mem_map.mp hx
          exact viewClass_tables hwf c hc)
      simp only [tablesCM, List.map_map, Function.comp_def, classR] at this
      exact this
  simp only [viewOf, hc, hs, bind, Except.bind, pure, Except.pure, declared]

/-- the file-level theorem: the loader reports exactly what the file declares -/
theorem parseDex_declared (henc : Encodes file L T) (hwf : WF T L) :
    parseDex file = .ok (declared T L) := by
  rw [parseDex_tables henc hwf, viewOf_tables henc hwf]

end AgVerif.C05
