/-
C28 deepening: cursor lemmas.  The file is a list `bs`; "at position `p` the file holds `x`" is
`bs.drop p = x ++ r`.  Reads at a cursor, advancing a cursor, chunk headers.  Core Lean only.
-/
import AgVerif.Proof.ArscEntry
import AgVerif.Spec.ArscFile
namespace AgVerif.Arsc
open AgVerif.Gen.ArscConsts AgVerif.Spec.Arsc

theorem enc16_length (n : Nat) : (enc16 n).length = 2 := rfl
theorem enc32_length (n : Nat) : (enc32 n).length = 4 := rfl

attribute [local irreducible] enc16 enc32

theorem toArray_toList_drop (bs : List Nat) (p : Nat) : (bs.toArray : Buf).toList.drop p = bs.drop p := rfl

/-- advancing the cursor over `x` -/
theorem drop_at {bs x r : List Nat} {p : Nat} (h : bs.drop p = x ++ r) : bs.drop (p + x.length) = r := by
  rw [← List.drop_drop, h, List.drop_left]

theorem drop_at' {bs x r : List Nat} {p : Nat} (n : Nat) (h : bs.drop p = x ++ r) (hn : x.length = n) :
    bs.drop (p + n) = r := by
  subst hn; exact drop_at h

theorem size_of_drop {bs x r : List Nat} {p : Nat} (h : bs.drop p = x ++ r) (hx : 0 < x.length) :
    p + x.length + r.length = bs.length := by
  have := congrArg List.length h
  simp only [List.length_drop, List.length_append] at this
  omega

theorem size_ge_of_drop {bs x r : List Nat} {p : Nat} (h : bs.drop p = x ++ r) (hx : 0 < x.length) :
    p + x.length ≤ bs.length := by
  have := size_of_drop h hx; omega

theorem rd8_at {bs r : List Nat} {p x : Nat} (h : bs.drop p = x :: r) : rd8 bs.toArray p = some x := by
  rw [rd8_eq, toArray_toList_drop, h]; rfl

theorem rd16_at {bs r : List Nat} {p n : Nat} (h : bs.drop p = enc16 n ++ r) (hn : n < 65536) :
    rd16 bs.toArray p = some n := by
  rw [rd16_eq, toArray_toList_drop, h, le16_enc n r hn]; rfl

theorem rd32_at {bs r : List Nat} {p n : Nat} (h : bs.drop p = enc32 n ++ r) (hn : n < 4294967296) :
    rd32 bs.toArray p = some n := by
  rw [rd32_eq, toArray_toList_drop, h, le32_enc n r hn]; rfl

theorem slice_eq (bs : List Nat) (p n : Nat) : slice bs.toArray p n = (bs.drop p).take n := by
  unfold slice
  simp [List.take_drop]

/-- one pass through `ARSCHeader.__init__`'s loop on an ordinary (non-XML) chunk header -/
theorem hdrLoop_of {b : Buf} {fuel cur ty hs sz : Nat}
    (h1 : rd16 b cur = some ty) (h2 : rd16 b (cur + 2) = some hs) (h3 : rd32 b (cur + 4) = some sz)
    (hty : ty < resXmlFirstChunk ∨ ty > resXmlLastChunk) (hhs : 8 ≤ hs) (hsz : hs ≤ sz) :
    hdrLoop b (fuel + 1) cur = some (cur, ty, hs, sz) := by
  have h8 : ¬ (sz < 8 ∧ b.size = cur + hs + 4 + 4) := by omega
  simp only [hdrLoop, h1, h2, h3, h8, if_false]
  rw [if_pos ⟨hty, by omega, hsz⟩]

/-- a chunk at the cursor: `ARSCHeader(buff, expected)` reads its three header fields -/
theorem readHdr_at {bs r hdr body : List Nat} {p ty : Nat} (e : Option Nat)
    (h : bs.drop p = chunk ty hdr body ++ r)
    (hty : ty < 256 ∨ (383 < ty ∧ ty < 65536)) (hhs : 8 + hdr.length < 65536)
    (hsz : 8 + hdr.length + body.length < 4294967296)
    (he : ∀ x, e = some x → x = ty) :
    readHdr bs.toArray p e = some ⟨p, p, ty, 8 + hdr.length, 8 + hdr.length + body.length⟩ := by
  have h' : bs.drop p = enc16 ty ++ (enc16 (8 + hdr.length) ++ (enc32 (8 + hdr.length + body.length)
      ++ (hdr ++ (body ++ r)))) := by
    rw [h]; simp only [chunk, List.append_assoc]
  have h2 := drop_at' 2 h' (enc16_length _)
  have h4 := drop_at' 2 h2 (enc16_length _)
  rw [Nat.add_assoc] at h4
  have hsize : ¬ ((bs.toArray : Buf).size < p + 8) := by
    have := congrArg List.length h'
    simp only [List.length_drop, List.length_append, enc16_length, enc32_length] at this
    simp only [List.size_toArray]
    omega
  have r1 := rd16_at h' (by omega)
  have r2 := rd16_at h2 hhs
  have r3 := rd32_at h4 hsz
  have hl := hdrLoop_of (fuel := (bs.toArray : Buf).size) r1 r2 r3
    (by simp only [resXmlFirstChunk, resXmlLastChunk]; omega) (by omega) (by omega)
  unfold readHdr
  rw [if_neg hsize, hl]
  have hno : ¬ (8 + hdr.length < 8 ∨ 8 + hdr.length + body.length < 8 ∨
      8 + hdr.length + body.length < 8 + hdr.length) := by omega
  cases e with
  | none => simp only [Bool.false_eq_true, if_false, if_neg hno]
  | some x =>
    have := he x rfl
    subst this
    simp only [ne_eq, not_true_eq_false, and_false, decide_false, Bool.false_eq_true, if_false, if_neg hno]

end AgVerif.Arsc
