/-
Lemmas for C29 (resource resolution).  Core Lean only.
-/
import AgVerif.Model.Resolve
import AgVerif.Spec.Reach
namespace AgVerif.Resolve
open AgVerif.Spec.Reach

/-! ### `seqAll` -/

theorem seqAll_eq_none {xs : List (Option (List Tok))} : seqAll xs = none ↔ none ∈ xs := by
  induction xs with
  | nil => simp [seqAll]
  | cons x rest ih =>
    cases x with
    | none => simp [seqAll]
    | some l =>
      simp only [seqAll]
      cases h : seqAll rest with
      | none => simp [ih.mp h]
      | some y =>
        have : ¬ none ∈ rest := fun hm => by rw [ih.mpr hm] at h; cases h
        simp [this]

theorem seqAll_isSome {xs : List (Option (List Tok))} (h : ∀ x ∈ xs, x ≠ none) :
    ∃ out, seqAll xs = some out := by
  cases hs : seqAll xs with
  | some out => exact ⟨out, rfl⟩
  | none => exact absurd rfl (h none (seqAll_eq_none.mp hs))

theorem mem_seqAll {xs : List (Option (List Tok))} {out : List Tok} (h : seqAll xs = some out)
    (tok : Tok) : tok ∈ out ↔ ∃ l, some l ∈ xs ∧ tok ∈ l := by
  induction xs generalizing out with
  | nil => simp [seqAll] at h; subst h; simp
  | cons x rest ih =>
    cases x with
    | none => simp [seqAll] at h
    | some l0 =>
      simp only [seqAll] at h
      cases hr : seqAll rest with
      | none => rw [hr] at h; cases h
      | some y =>
        rw [hr] at h
        cases h
        rw [List.mem_append, ih hr]
        constructor
        · rintro (h1 | ⟨l, hl, ht⟩)
          · exact ⟨l0, by simp, h1⟩
          · exact ⟨l, by simp [hl], ht⟩
        · rintro ⟨l, hl, ht⟩
          simp only [List.mem_cons, Option.some.injEq] at hl
          rcases hl with rfl | hl
          · exact Or.inl ht
          · exact Or.inr ⟨l, hl, ht⟩

theorem seqAll_elem_some {xs : List (Option (List Tok))} {out : List Tok} (h : seqAll xs = some out)
    {x : Option (List Tok)} (hx : x ∈ xs) : ∃ l, x = some l := by
  cases x with
  | some l => exact ⟨l, rfl⟩
  | none => rw [seqAll_eq_none.mpr hx] at h; cases h

/-- pointwise refinement of the results carries over to `seqAll` of mapped lists -/
theorem seqAll_map_mono {α : Type} (xs : List α) (g g' : α → Option (List Tok))
    (hg : ∀ x ∈ xs, ∀ l, g x = some l → g' x = some l) {out : List Tok}
    (h : seqAll (xs.map g) = some out) : seqAll (xs.map g') = some out := by
  induction xs generalizing out with
  | nil => simpa [seqAll] using h
  | cons x rest ih =>
    simp only [List.map_cons] at h ⊢
    cases hx : g x with
    | none => rw [hx] at h; simp [seqAll] at h
    | some l =>
      rw [hx] at h
      rw [hg x (by simp) l hx]
      simp only [seqAll] at h ⊢
      cases hr : seqAll (rest.map g) with
      | none => rw [hr] at h; cases h
      | some y =>
        rw [hr] at h
        rw [ih (fun a ha => hg a (by simp [ha])) hr]
        exact h

/-! ### one level of the resolver -/

/-- the references of one entry that the resolver follows -/
def follows (parent : ResId) (e : Entry) (r : ResId) : Prop :=
  Item.ref r ∈ itemsOf e ∧ r ≠ 0 ∧ r ≠ parent

theorem putItem_mono (rec rec' : ResId → Option (List Tok)) (c : Config) (p : ResId) (cplx : Bool)
    (it : Item) (h : ∀ r, Item.ref r = it → r ≠ 0 → r ≠ p → ∀ l, rec r = some l → rec' r = some l)
    (l : List Tok) (hl : putItem rec c p cplx it = some l) : putItem rec' c p cplx it = some l := by
  cases it with
  | lit s => simpa [putItem] using hl
  | ref r =>
    simp only [putItem] at hl ⊢
    split
    · simpa [*] using hl
    · split
      · simpa [*] using hl
      · rename_i h0 hp
        simp only [h0, hp, if_false] at hl
        exact h r rfl h0 hp l hl

theorem putAte_mono (rec rec' : ResId → Option (List Tok)) (c : Config) (p : ResId) (e : Entry)
    (h : ∀ r, follows p e r → ∀ l, rec r = some l → rec' r = some l)
    (l : List Tok) (hl : putAte rec c p e = some l) : putAte rec' c p e = some l := by
  cases e with
  | simple v =>
    simp only [putAte] at hl ⊢
    exact putItem_mono rec rec' c p false v
      (fun r hr h0 hp => h r ⟨by simp [itemsOf, hr], h0, hp⟩) l hl
  | complex items =>
    simp only [putAte] at hl ⊢
    cases hs : seqAll (items.map (putItem rec c p true)) with
    | none => rw [hs] at hl; cases hl
    | some xs =>
      rw [hs] at hl
      rw [seqAll_map_mono items _ (putItem rec' c p true) (fun it hit l' hl' =>
        putItem_mono rec rec' c p true it
          (fun r hr h0 hp => h r ⟨by simp [itemsOf, hr, hit], h0, hp⟩) l' hl') hs]
      exact hl

theorem putItem_mem (rec : ResId → Option (List Tok)) (c : Config) (p : ResId) (cplx : Bool)
    (it : Item) (l : List Tok) (hl : putItem rec c p cplx it = some l) (tok : Tok) :
    tok ∈ l ↔ (∃ s, it = .lit s ∧ tok = (if cplx then Tok.bare s else Tok.pair c s)) ∨
      (∃ r, it = .ref r ∧ r ≠ 0 ∧ r ≠ p ∧ ∃ l', rec r = some l' ∧ tok ∈ l') := by
  cases it with
  | lit s =>
    simp only [putItem, Option.some.injEq] at hl
    subst hl
    simp
  | ref r =>
    simp only [putItem] at hl
    by_cases h0 : r = 0
    · simp [h0] at hl; subst hl; simp [h0]
    · by_cases hp : r = p
      · simp [hp] at hl; subst hl; simp [hp]
      · simp only [h0, hp, if_false] at hl
        simp [h0, hp, hl]

theorem putItem_rec_some (rec : ResId → Option (List Tok)) (c : Config) (p : ResId) (cplx : Bool)
    (r : ResId) (l : List Tok) (hl : putItem rec c p cplx (.ref r) = some l)
    (h0 : r ≠ 0) (hp : r ≠ p) : rec r = some l := by
  simpa [putItem, h0, hp] using hl

theorem directE_isValue {c : Config} {e : Entry} {tok : Tok} (h : tok ∈ directE c e) :
    tok.isValue = true := by
  cases e with
  | simple v =>
    cases v with
    | lit s => simp [directE] at h; subst h; rfl
    | ref r => simp [directE] at h
  | complex items =>
    simp only [directE, List.mem_filterMap] at h
    obtain ⟨it, _, hit⟩ := h
    cases it with
    | lit s => simp at hit; subst hit; rfl
    | ref r => simp at hit

/-- value tokens produced for one entry: its own concrete values, or those of a followed reference -/
theorem putAte_mem (rec : ResId → Option (List Tok)) (c : Config) (p : ResId) (e : Entry)
    (out : List Tok) (h : putAte rec c p e = some out) (tok : Tok) (hv : tok.isValue = true) :
    tok ∈ out ↔ tok ∈ directE c e ∨ ∃ r, follows p e r ∧ ∃ l', rec r = some l' ∧ tok ∈ l' := by
  cases e with
  | simple v =>
    simp only [putAte] at h
    rw [putItem_mem rec c p false v out h tok]
    cases v with
    | lit s => simp [directE, follows, itemsOf]
    | ref r =>
      constructor
      · rintro (⟨s, hs, _⟩ | ⟨r', hr', h0, hp, hl⟩)
        · cases hs
        · cases hr'
          exact Or.inr ⟨r, ⟨by simp [itemsOf], h0, hp⟩, hl⟩
      · rintro (hd | ⟨r', ⟨hit, h0, hp⟩, hl⟩)
        · simp [directE] at hd
        · simp only [itemsOf, List.mem_singleton, Item.ref.injEq] at hit
          subst hit
          exact Or.inr ⟨r', rfl, h0, hp, hl⟩
  | complex items =>
    simp only [putAte] at h
    cases hs : seqAll (items.map (putItem rec c p true)) with
    | none => rw [hs] at h; cases h
    | some xs =>
      rw [hs] at h
      cases h
      have hx : tok ∈ Tok.opn c :: xs ++ [Tok.cls] ↔ tok ∈ xs := by
        cases tok <;> simp [Tok.isValue] at hv ⊢
      rw [hx, mem_seqAll hs]
      constructor
      · rintro ⟨l, hl, ht⟩
        simp only [List.mem_map] at hl
        obtain ⟨it, hit, hl⟩ := hl
        rcases (putItem_mem rec c p true it l hl tok).mp ht with ⟨s, rfl, rfl⟩ | ⟨r, rfl, h0, hp, hr⟩
        · left
          simp only [directE, List.mem_filterMap]
          exact ⟨.lit s, hit, by simp⟩
        · right
          exact ⟨r, ⟨by simpa [itemsOf] using hit, h0, hp⟩, hr⟩
      · rintro (hd | ⟨r, ⟨hit, h0, hp⟩, l', hl', ht⟩)
        · simp only [directE, List.mem_filterMap] at hd
          obtain ⟨it, hit, hs'⟩ := hd
          cases it with
          | ref r => simp at hs'
          | lit s =>
            simp at hs'
            subst hs'
            exact ⟨[Tok.bare s], by
              simp only [List.mem_map]
              exact ⟨.lit s, hit, by simp [putItem]⟩, by simp⟩
        · simp only [itemsOf] at hit
          refine ⟨l', ?_, ht⟩
          simp only [List.mem_map]
          exact ⟨.ref r, hit, by simp [putItem, h0, hp, hl']⟩

/-- a successful entry means every followed reference was resolved successfully -/
theorem putAte_rec_some (rec : ResId → Option (List Tok)) (c : Config) (p : ResId) (e : Entry)
    (out : List Tok) (h : putAte rec c p e = some out) (r : ResId) (hf : follows p e r) :
    ∃ l, rec r = some l := by
  obtain ⟨hit, h0, hp⟩ := hf
  cases e with
  | simple v =>
    simp only [itemsOf, List.mem_singleton] at hit
    subst hit
    simp only [putAte] at h
    exact ⟨out, putItem_rec_some rec c p false r out h h0 hp⟩
  | complex items =>
    simp only [itemsOf] at hit
    simp only [putAte] at h
    cases hs : seqAll (items.map (putItem rec c p true)) with
    | none => rw [hs] at h; cases h
    | some xs =>
      obtain ⟨l, hl⟩ := seqAll_elem_some hs (List.mem_map.mpr ⟨.ref r, hit, rfl⟩)
      exact ⟨l, putItem_rec_some rec c p true r l hl h0 hp⟩

/-- an entry fails only if a followed reference fails -/
theorem putAte_isSome (rec : ResId → Option (List Tok)) (c : Config) (p : ResId) (e : Entry)
    (h : ∀ r, follows p e r → rec r ≠ none) : putAte rec c p e ≠ none := by
  have item : ∀ cplx it, it ∈ itemsOf e → putItem rec c p cplx it ≠ none := by
    intro cplx it hit
    cases it with
    | lit s => simp [putItem]
    | ref r =>
      simp only [putItem]
      split
      · simp
      · split
        · simp
        · rename_i h0 hp; exact h r ⟨hit, h0, hp⟩
  cases e with
  | simple v => simp only [putAte]; exact item false v (by simp [itemsOf])
  | complex items =>
    simp only [putAte]
    obtain ⟨xs, hs⟩ := seqAll_isSome (xs := items.map (putItem rec c p true)) (by
      intro x hx
      obtain ⟨it, hit, rfl⟩ := List.mem_map.mp hx
      exact item true it (by simpa [itemsOf] using hit))
    rw [hs]; simp

/-! ### membership forms of the specification's lists -/

theorem mem_refsOf {t : Table} {w : Option Config} {a b : ResId} :
    b ∈ refsOf t w a ↔ ∃ p ∈ getResConfigs t a w, follows a p.2 b := by
  simp only [refsOf, List.mem_filterMap, List.mem_flatMap, follows]
  constructor
  · rintro ⟨it, ⟨p, hp, hit⟩, hb⟩
    cases it with
    | lit s => simp at hb
    | ref r =>
      simp only [Option.ite_none_right_eq_some, Option.some.injEq] at hb
      obtain ⟨⟨h0, ha⟩, rfl⟩ := hb
      exact ⟨p, hp, hit, h0, ha⟩
  · rintro ⟨p, hp, hit, h0, ha⟩
    exact ⟨.ref b, ⟨p, hp, hit⟩, by simp [h0, ha]⟩

theorem mem_direct {t : Table} {w : Option Config} {a : ResId} {tok : Tok} :
    tok ∈ direct t w a ↔ ∃ p ∈ getResConfigs t a w, tok ∈ directE p.1 p.2 := by
  simp [direct, List.mem_flatMap]

theorem direct_isValue {t : Table} {w : Option Config} {a : ResId} {tok : Tok}
    (h : tok ∈ direct t w a) : tok.isValue = true := by
  obtain ⟨p, _, hp⟩ := mem_direct.mp h
  exact directE_isValue hp

/-- one level: `for config, ate in get_res_configs(rid): put_ate_value(...)` -/
def level (t : Table) (w : Option Config) (rec : ResId → Option (List Tok)) (rid : ResId) :
    Option (List Tok) :=
  seqAll ((getResConfigs t rid w).map fun p => putAte rec p.1 rid p.2)

theorem level_mem (t : Table) (w : Option Config) (rec : ResId → Option (List Tok)) (rid : ResId)
    (out : List Tok) (h : level t w rec rid = some out) (tok : Tok) (hv : tok.isValue = true) :
    tok ∈ out ↔ tok ∈ direct t w rid ∨ ∃ r ∈ refsOf t w rid, ∃ l', rec r = some l' ∧ tok ∈ l' := by
  unfold level at h
  rw [mem_seqAll h]
  constructor
  · rintro ⟨l, hl, ht⟩
    obtain ⟨p, hp, hl⟩ := List.mem_map.mp hl
    rcases (putAte_mem rec p.1 rid p.2 l hl tok hv).mp ht with hd | ⟨r, hf, hr⟩
    · exact Or.inl (mem_direct.mpr ⟨p, hp, hd⟩)
    · exact Or.inr ⟨r, mem_refsOf.mpr ⟨p, hp, hf⟩, hr⟩
  · intro hh
    have key : ∀ p ∈ getResConfigs t rid w, ∃ l, putAte rec p.1 rid p.2 = some l :=
      fun p hp => seqAll_elem_some h (List.mem_map.mpr ⟨p, hp, rfl⟩)
    rcases hh with hd | ⟨r, hr, hl'⟩
    · obtain ⟨p, hp, hd⟩ := mem_direct.mp hd
      obtain ⟨l, hl⟩ := key p hp
      exact ⟨l, List.mem_map.mpr ⟨p, hp, hl⟩, (putAte_mem rec p.1 rid p.2 l hl tok hv).mpr (Or.inl hd)⟩
    · obtain ⟨p, hp, hf⟩ := mem_refsOf.mp hr
      obtain ⟨l, hl⟩ := key p hp
      exact ⟨l, List.mem_map.mpr ⟨p, hp, hl⟩,
        (putAte_mem rec p.1 rid p.2 l hl tok hv).mpr (Or.inr ⟨r, hf, hl'⟩)⟩

theorem level_rec_some (t : Table) (w : Option Config) (rec : ResId → Option (List Tok))
    (rid : ResId) (out : List Tok) (h : level t w rec rid = some out) (r : ResId)
    (hr : r ∈ refsOf t w rid) : ∃ l, rec r = some l := by
  obtain ⟨p, hp, hf⟩ := mem_refsOf.mp hr
  obtain ⟨l, hl⟩ := seqAll_elem_some h (List.mem_map.mpr ⟨p, hp, rfl⟩)
  exact putAte_rec_some rec p.1 rid p.2 l hl r hf

theorem level_isSome (t : Table) (w : Option Config) (rec : ResId → Option (List Tok)) (rid : ResId)
    (h : ∀ r ∈ refsOf t w rid, rec r ≠ none) : ∃ out, level t w rec rid = some out := by
  apply seqAll_isSome
  intro x hx
  obtain ⟨p, hp, rfl⟩ := List.mem_map.mp hx
  exact putAte_isSome rec p.1 rid p.2 (fun r hf => h r (mem_refsOf.mpr ⟨p, hp, hf⟩))

theorem level_mono (t : Table) (w : Option Config) (rec rec' : ResId → Option (List Tok))
    (rid : ResId) (h : ∀ r ∈ refsOf t w rid, ∀ l, rec r = some l → rec' r = some l)
    (out : List Tok) (ho : level t w rec rid = some out) : level t w rec' rid = some out := by
  unfold level at ho ⊢
  exact seqAll_map_mono _ _ _ (fun p hp l hl => putAte_mono rec rec' p.1 rid p.2
    (fun r hf => h r (mem_refsOf.mpr ⟨p, hp, hf⟩)) l hl) ho

theorem resolveF_succ (t : Table) (w : Option Config) (f : Nat) (rid : ResId) :
    resolveF t w (f + 1) rid = level t w (resolveF t w f) rid := rfl

theorem resolveVF_succ (t : Table) (w : Option Config) (f : Nat) (vis : List ResId) (rid : ResId) :
    resolveVF t w (f + 1) vis rid
      = if rid ∈ vis then some [] else level t w (resolveVF t w f (rid :: vis)) rid := rfl

/-! ### reachability -/

theorem reach_trans {t : Table} {w : Option Config} {a b c : ResId}
    (h1 : Reach t w a b) (h2 : Reach t w b c) : Reach t w a c := by
  induction h1 with
  | refl => exact h2
  | step hab _ ih => exact Reach.step hab (ih h2)

theorem reach_snoc {t : Table} {w : Option Config} {a b c : ResId}
    (h1 : Reach t w a b) (h2 : c ∈ refsOf t w b) : Reach t w a c :=
  reach_trans h1 (Reach.step h2 (Reach.refl c))

theorem refsOf_ne {t : Table} {w : Option Config} {a b : ResId} (h : b ∈ refsOf t w a) : b ≠ a := by
  obtain ⟨_, _, _, _, hne⟩ := mem_refsOf.mp h
  exact hne

/-- paths all of whose nodes avoid `V` -/
inductive ReachAvoid (t : Table) (w : Option Config) (V : List ResId) : ResId → ResId → Prop where
  | refl (a : ResId) : a ∉ V → ReachAvoid t w V a a
  | step {a b c : ResId} : a ∉ V → b ∈ refsOf t w a → ReachAvoid t w V b c → ReachAvoid t w V a c

theorem ReachAvoid.start {t : Table} {w : Option Config} {V : List ResId} {a b : ResId}
    (h : ReachAvoid t w V a b) : a ∉ V := by
  cases h <;> assumption

theorem reach_iff_avoid_nil {t : Table} {w : Option Config} {a b : ResId} :
    Reach t w a b ↔ ReachAvoid t w [] a b := by
  constructor
  · intro h
    induction h with
    | refl a => exact ReachAvoid.refl a (by simp)
    | step hab _ ih => exact ReachAvoid.step (by simp) hab ih
  · intro h
    induction h with
    | refl a _ => exact Reach.refl a
    | step _ hab _ ih => exact Reach.step hab ih

theorem ReachAvoid.toReach {t : Table} {w : Option Config} {V : List ResId} {a b : ResId}
    (h : ReachAvoid t w V a b) : Reach t w a b := by
  induction h with
  | refl a _ => exact Reach.refl a
  | step _ hab _ ih => exact Reach.step hab ih

/-- cut a path at the last visit of `a`: what remains avoids `a` as well -/
theorem ReachAvoid.cut {t : Table} {w : Option Config} {V : List ResId} {x b : ResId}
    (h : ReachAvoid t w V x b) (a : ResId) :
    ReachAvoid t w (a :: V) x b ∨ a = b ∨
      ∃ r ∈ refsOf t w a, ReachAvoid t w (a :: V) r b := by
  induction h with
  | refl x hx =>
    by_cases hxa : x = a
    · exact Or.inr (Or.inl hxa.symm)
    · exact Or.inl (ReachAvoid.refl x (by simp [hxa, hx]))
  | @step x y b hx hxy _ ih =>
    rcases ih with h1 | h2 | h3
    · by_cases hxa : x = a
      · subst hxa; exact Or.inr (Or.inr ⟨y, hxy, h1⟩)
      · exact Or.inl (ReachAvoid.step (by simp [hxa, hx]) hxy h1)
    · exact Or.inr (Or.inl h2)
    · exact Or.inr (Or.inr h3)

theorem ReachAvoid.head {t : Table} {w : Option Config} {V : List ResId} {a b : ResId}
    (h : ReachAvoid t w V a b) :
    a = b ∨ ∃ r ∈ refsOf t w a, ReachAvoid t w (a :: V) r b := by
  rcases h.cut a with h1 | h2 | h3
  · exact absurd (List.mem_cons_self) h1.start
  · exact Or.inl h2
  · exact Or.inr h3

/-! ### the algorithm with the reference-path guard -/

theorem resolveVF_sound (t : Table) (w : Option Config) :
    ∀ (f : Nat) (vis : List ResId) (rid : ResId) (out : List Tok),
      resolveVF t w f vis rid = some out → ∀ tok, tok.isValue = true → tok ∈ out →
      ReachVal t w rid tok := by
  intro f
  induction f with
  | zero => intro vis rid out h; simp [resolveVF] at h
  | succ f ih =>
    intro vis rid out h tok hv ht
    rw [resolveVF_succ] at h
    split at h
    · cases h; simp at ht
    · rcases (level_mem t w _ rid out h tok hv).mp ht with hd | ⟨r, hr, l', hl', ht'⟩
      · exact ⟨rid, Reach.refl rid, hd⟩
      · obtain ⟨r', hreach, hd⟩ := ih (rid :: vis) r l' hl' tok hv ht'
        exact ⟨r', Reach.step hr hreach, hd⟩

theorem resolveVF_complete (t : Table) (w : Option Config) :
    ∀ (f : Nat) (vis : List ResId) (rid : ResId) (out : List Tok),
      resolveVF t w f vis rid = some out → ∀ r' tok, ReachAvoid t w vis rid r' →
      tok ∈ direct t w r' → tok ∈ out := by
  intro f
  induction f with
  | zero => intro vis rid out h; simp [resolveVF] at h
  | succ f ih =>
    intro vis rid out h r' tok hp hd
    have hv := direct_isValue hd
    rw [resolveVF_succ] at h
    rw [if_neg hp.start] at h
    rcases hp.head with rfl | ⟨r, hr, hp'⟩
    · exact (level_mem t w _ rid out h tok hv).mpr (Or.inl hd)
    · obtain ⟨l, hl⟩ := level_rec_some t w _ rid out h r hr
      exact (level_mem t w _ rid out h tok hv).mpr
        (Or.inr ⟨r, hr, l, hl, ih (rid :: vis) r l hl r' tok hp' hd⟩)

/-- number of table ids outside `vis` -/
def unvisited (t : Table) (vis : List ResId) : Nat := (t.ids.filter fun i => i ∉ vis).length

theorem unvisited_le (t : Table) (vis : List ResId) : unvisited t vis ≤ t.ids.length :=
  List.length_filter_le _ _

theorem filter_len_le (l : List ResId) (p q : ResId → Bool) (hpq : ∀ i, q i = true → p i = true) :
    (l.filter q).length ≤ (l.filter p).length := by
  induction l with
  | nil => simp
  | cons y rest ih =>
    simp only [List.filter_cons]
    cases hq : q y with
    | true => simp [hpq y hq]; exact ih
    | false =>
      cases hp : p y with
      | true => simp; omega
      | false => simpa using ih

theorem filter_len_lt (l : List ResId) (p q : ResId → Bool) (hpq : ∀ i, q i = true → p i = true)
    (x : ResId) (hx : x ∈ l) (hp : p x = true) (hq : q x = false) :
    (l.filter q).length < (l.filter p).length := by
  induction l with
  | nil => simp at hx
  | cons y rest ih =>
    have hle := filter_len_le rest p q hpq
    by_cases hy : y = x
    · subst hy
      simp only [List.filter_cons, hp, hq, if_true, List.length_cons]
      simp only [Bool.false_eq_true, if_false]
      omega
    · have hin : x ∈ rest := by
        simp only [List.mem_cons] at hx
        rcases hx with h | h
        · exact absurd h.symm hy
        · exact h
      have := ih hin
      simp only [List.filter_cons]
      cases hq' : q y with
      | true => simp [hpq y hq']; exact this
      | false =>
        cases hp' : p y with
        | true => simp; omega
        | false => simpa using this

theorem filter_cons_lt (ids vis : List ResId) (rid : ResId) (hin : rid ∈ ids) (hv : rid ∉ vis) :
    (ids.filter fun i => i ∉ rid :: vis).length < (ids.filter fun i => i ∉ vis).length := by
  apply filter_len_lt ids _ _ _ rid hin
  · simpa using hv
  · simp
  · intro i hi
    simp only [List.mem_cons, not_or, decide_eq_true_eq] at hi ⊢
    exact hi.2

theorem getResConfigs_ne_nil_mem (t : Table) (w : Option Config) (rid : ResId)
    (h : getResConfigs t rid w ≠ []) : rid ∈ t.ids := by
  unfold getResConfigs at h
  cases ho : t.options rid with
  | none => simp [ho] at h
  | some opts =>
    unfold Table.options at ho
    cases hf : t.res.find? (fun p => p.1 == rid) with
    | none => simp [hf] at ho
    | some p =>
      have hm := List.mem_of_find?_eq_some hf
      have hp := List.find?_some hf
      simp only [beq_iff_eq] at hp
      simp only [Table.ids, List.mem_map]
      exact ⟨p, hm, hp⟩

theorem refsOf_nonempty_mem (t : Table) (w : Option Config) (rid r : ResId)
    (h : r ∈ refsOf t w rid) : rid ∈ t.ids := by
  obtain ⟨p, hp, _⟩ := mem_refsOf.mp h
  exact getResConfigs_ne_nil_mem t w rid (List.ne_nil_of_mem hp)

theorem resolveVF_terminates (t : Table) (w : Option Config) :
    ∀ (f : Nat) (vis : List ResId) (rid : ResId), unvisited t vis + 1 ≤ f →
      ∃ out, resolveVF t w f vis rid = some out := by
  intro f
  induction f with
  | zero => intro vis rid h; omega
  | succ f ih =>
    intro vis rid h
    rw [resolveVF_succ]
    split
    · exact ⟨[], rfl⟩
    · rename_i hv
      apply level_isSome
      intro r hr
      have hin := refsOf_nonempty_mem t w rid r hr
      have hlt := filter_cons_lt t.ids vis rid hin hv
      obtain ⟨out, ho⟩ := ih (rid :: vis) r (by unfold unvisited at *; omega)
      rw [ho]; simp

theorem resolveVF_mono (t : Table) (w : Option Config) :
    ∀ (f : Nat) (vis : List ResId) (rid : ResId) (out : List Tok),
      resolveVF t w f vis rid = some out → resolveVF t w (f + 1) vis rid = some out := by
  intro f
  induction f with
  | zero => intro vis rid out h; simp [resolveVF] at h
  | succ f ih =>
    intro vis rid out h
    rw [resolveVF_succ] at h ⊢
    split
    · rename_i hv; simpa [hv] using h
    · rename_i hv
      rw [if_neg hv] at h
      exact level_mono t w _ _ rid (fun r _ l hl => ih (rid :: vis) r l hl) out h

theorem resolveVF_mono_le (t : Table) (w : Option Config) (f g : Nat) (hfg : f ≤ g)
    (vis : List ResId) (rid : ResId) (out : List Tok)
    (h : resolveVF t w f vis rid = some out) : resolveVF t w g vis rid = some out := by
  induction hfg with
  | refl => exact h
  | step _ ih => exact resolveVF_mono t w _ vis rid out ih

/-! ### the algorithm as it was written -/

/-- `x` lies on a reference cycle -/
def OnCycle (t : Table) (w : Option Config) (x : ResId) : Prop :=
  ∃ y ∈ refsOf t w x, Reach t w y x

theorem OnCycle.next {t : Table} {w : Option Config} {x y : ResId}
    (hy : y ∈ refsOf t w x) (hr : Reach t w y x) : OnCycle t w y := by
  cases hr with
  | refl => exact absurd rfl (refsOf_ne hy)
  | @step _ z _ hyz hzx => exact ⟨z, hyz, reach_snoc hzx hy⟩

theorem resolveF_diverges (t : Table) (w : Option Config) :
    ∀ (f : Nat) (x : ResId), OnCycle t w x → resolveF t w f x = none := by
  intro f
  induction f with
  | zero => intro x _; rfl
  | succ f ih =>
    intro x ⟨y, hy, hr⟩
    rw [resolveF_succ]
    cases hl : level t w (resolveF t w f) x with
    | none => rfl
    | some out =>
      obtain ⟨l, hl'⟩ := level_rec_some t w _ x out hl y hy
      rw [ih y (OnCycle.next hy hr)] at hl'
      cases hl'

/-- where the code as written returns, the guarded code returns the same list -/
theorem resolveF_eq_resolveVF (t : Table) (w : Option Config) :
    ∀ (f : Nat) (vis : List ResId) (rid : ResId) (out : List Tok),
      resolveF t w f rid = some out → (∀ v ∈ vis, ¬ Reach t w rid v) →
      resolveVF t w f vis rid = some out := by
  intro f
  induction f with
  | zero => intro vis rid out h; simp [resolveF] at h
  | succ f ih =>
    intro vis rid out h hvis
    have hnot : rid ∉ vis := fun hm => hvis rid hm (Reach.refl rid)
    rw [resolveVF_succ, if_neg hnot]
    have h' := h
    rw [resolveF_succ] at h'
    apply level_mono t w (resolveF t w f) _ rid _ out h'
    intro r hr l hl
    apply ih (rid :: vis) r l hl
    intro v hv hreach
    simp only [List.mem_cons] at hv
    rcases hv with rfl | hv
    · have := resolveF_diverges t w (f + 1) v ⟨r, hr, hreach⟩
      rw [this] at h; cases h
    · exact hvis v hv (Reach.step hr hreach)

end AgVerif.Resolve
