/-
Lemmas for C13..C16, part 4: every table of `analyse p` characterised by the specification's
comprehensions (`Spec.Calls`, `Spec.Uses`, `Spec.LoadsString`, `Spec.Reads`, `Spec.Writes`, …).
-/
import AgVerif.Proof.XrefFold
import AgVerif.Proof.XrefOps

namespace AgVerif.Xref
open AgVerif.Gen

/-! ### normal forms of the specification's per-instruction functions -/

theorem act_meth_not_invoke (op : Nat) (c n d : String) (h : XrefOps.kind op ≠ 2) :
    act op (.meth c n d) = .skip := by
  unfold act; split <;> simp_all

theorem act_type_not_classUse (op : Nat) (t : String) (h : XrefOps.kind op ≠ 1) :
    act op (.type t) = .skip := by
  unfold act; split <;> simp_all

theorem callTarget_eq (i : XIns) :
    Spec.callTarget i = match act i.op.val i.ref with
      | .invoke c n d => if startsL (lstripBr c) then some (lstripBr c, n, d) else none
      | _ => none := by
  unfold Spec.callTarget
  cases hact : act i.op.val i.ref with
  | invoke c n d =>
    obtain ⟨hk, href⟩ := (act_invoke_iff _ _ c n d).1 hact
    have h := (kind2_iff i.op).1 hk
    rw [href]
    simp only [h, if_true, elemClass_eq]
    split <;> simp
  | classUse t => obtain ⟨_, href⟩ := (act_classUse_iff _ _ t).1 hact; rw [href]
  | str sv => obtain ⟨_, href⟩ := (act_str_iff _ _ sv).1 hact; rw [href]
  | field c n t => obtain ⟨_, href⟩ := (act_field_iff _ _ c n t).1 hact; rw [href]
  | skip =>
    cases href : i.ref with
    | meth c n d =>
      simp only
      by_cases h : i.op.val ∈ Spec.invokeOps
      · have := (act_invoke_iff i.op.val i.ref c n d).2 ⟨(kind2_iff i.op).2 h, href⟩
        rw [hact] at this; cases this
      · simp [h]
    | _ => rfl

theorem usedClass_eq (cur : String) (i : XIns) :
    Spec.usedClass cur i = match act i.op.val i.ref with
      | .classUse t => if startsL (lstripBr t) then (if lstripBr t = cur then none else some (lstripBr t)) else none
      | _ => none := by
  unfold Spec.usedClass
  cases hact : act i.op.val i.ref with
  | classUse t =>
    obtain ⟨hk, href⟩ := (act_classUse_iff _ _ t).1 hact
    have h := (kind1_iff i.op).1 hk
    rw [href]
    simp only [h, if_true, elemClass_eq]
    by_cases h1 : startsL (lstripBr t) = true
    · by_cases h2 : lstripBr t = cur
      · subst h2; simp [h1]
      · simp [h1, h2]
    · simp [h1]
  | invoke c n d => obtain ⟨_, href⟩ := (act_invoke_iff _ _ c n d).1 hact; rw [href]
  | str sv => obtain ⟨_, href⟩ := (act_str_iff _ _ sv).1 hact; rw [href]
  | field c n t => obtain ⟨_, href⟩ := (act_field_iff _ _ c n t).1 hact; rw [href]
  | skip =>
    cases href : i.ref with
    | type t =>
      simp only
      by_cases h : i.op.val = Spec.constClassOp ∨ i.op.val = Spec.newInstanceOp
      · have := (act_classUse_iff i.op.val i.ref t).2 ⟨(kind1_iff i.op).2 h, href⟩
        rw [hact] at this; cases this
      · simp [h]
    | _ => rfl

theorem act_str_spec (i : XIns) (s : String) :
    act i.op.val i.ref = .str s ↔ i.op.val ∈ Spec.constStringOps ∧ i.ref = .str s := by
  rw [act_str_iff, kind3_iff]

theorem act_field_spec (i : XIns) (c n t : String) :
    act i.op.val i.ref = .field c n t ↔
      (i.op.val ∈ Spec.fieldReadOps ∨ i.op.val ∈ Spec.fieldWriteOps) ∧ i.ref = .field c n t := by
  rw [act_field_iff, kind4_iff]

theorem site_cls (p : List Dex) (s : Spec.Site) (h : s ∈ Spec.sites p) : s.cls = s.meth.1 := by
  obtain ⟨d, _, c, _, m, _, oi, _, rfl⟩ := (mem_sites p s).1 h
  rfl

/-! ### the tables `add` leaves empty -/

theorem addAll_xr_nil (p : List Dex) :
    (addAll p).callTo = [] ∧ (addAll p).callFrom = [] ∧ (addAll p).clsTo = [] ∧ (addAll p).clsFrom = [] ∧
    (addAll p).newInstM = [] ∧ (addAll p).newInstC = [] ∧ (addAll p).constClsM = [] ∧
    (addAll p).constClsC = [] ∧ (addAll p).strFrom = [] ∧ (addAll p).fRead = [] ∧ (addAll p).fWrite = [] ∧
    (addAll p).mRead = [] ∧ (addAll p).mWrite = [] := by
  have := xr_addAll p
  simpa [xr, Prod.mk.injEq] using this

/-- a set-valued table of the finished analysis holds exactly what some site emits -/
theorem mem_table {β : Type} [DecidableEq β] (π : Delta → List β) (τ : DB → List β)
    (hπ : ∀ a b, π (a.append b) = π a ++ π b) (h0 : π {} = [])
    (happly : ∀ db δ, τ (apply db δ) = (π δ).foldl sadd (τ db))
    (p : List Dex) (x : β) :
    x ∈ τ (analyse p) ↔ x ∈ τ (addAll p) ∨ ∃ s ∈ Spec.sites p, x ∈ π (siteDelta (addAll p).decl s) := by
  rw [analyse_eq, happly, mem_foldl_sadd, mem_progDelta π hπ h0]

/-! ### per-site emissions -/

section site
variable (decl : List FKey) (s : Spec.Site)

theorem site_callTo (x : MKey × MKey × Nat) :
    x ∈ (siteDelta decl s).callTo ↔ ∃ k, Spec.callTarget s.ins = some k ∧ x = (s.meth, k, s.off) := by
  rw [callTarget_eq]
  unfold siteDelta emit
  simp only
  cases act s.ins.op.val s.ins.ref with
  | invoke c n d => by_cases h : startsL (lstripBr c) = true <;> simp [h]
  | classUse t => simp only; split <;> (try split) <;> simp
  | str _ => simp
  | field c n t => simp only; split <;> (try split) <;> simp
  | skip => simp

theorem site_callFrom (x : MKey × MKey × Nat) :
    x ∈ (siteDelta decl s).callFrom ↔ ∃ k, Spec.callTarget s.ins = some k ∧ x = (k, s.meth, s.off) := by
  rw [callTarget_eq]
  unfold siteDelta emit
  simp only
  cases act s.ins.op.val s.ins.ref with
  | invoke c n d => by_cases h : startsL (lstripBr c) = true <;> simp [h]
  | classUse t => simp only; split <;> (try split) <;> simp
  | str _ => simp
  | field c n t => simp only; split <;> (try split) <;> simp
  | skip => simp

theorem site_extMethods (k : MKey) :
    k ∈ (siteDelta decl s).extMethods ↔ Spec.callTarget s.ins = some k := by
  rw [callTarget_eq]
  unfold siteDelta emit
  simp only
  cases act s.ins.op.val s.ins.ref with
  | invoke c n d => by_cases h : startsL (lstripBr c) = true <;> simp [h, eq_comm]
  | classUse t => simp only; split <;> (try split) <;> simp
  | str _ => simp
  | field c n t => simp only; split <;> (try split) <;> simp
  | skip => simp

theorem site_extClasses (c : String) :
    c ∈ (siteDelta decl s).extClasses ↔
      (∃ k, Spec.callTarget s.ins = some k ∧ k.1 = c) ∨ Spec.usedClass s.cls s.ins = some c := by
  rw [callTarget_eq, usedClass_eq]
  unfold siteDelta emit
  simp only
  cases act s.ins.op.val s.ins.ref with
  | invoke c' n d => by_cases h : startsL (lstripBr c') = true <;> simp [h, eq_comm]
  | classUse t =>
    simp only
    by_cases h : startsL (lstripBr t) = true
    · by_cases h2 : lstripBr t = s.cls
      · simp [h, h2]
      · simp [h, h2] <;> exact eq_comm
    · simp [h]
  | str _ => simp
  | field c' n t => simp only; split <;> (try split) <;> simp
  | skip => simp

set_option maxRecDepth 8000 in
theorem site_clsTo (r : ClsRef) :
    r ∈ (siteDelta decl s).clsTo ↔
      (∃ k, Spec.callTarget s.ins = some k ∧ r = ⟨s.cls, k.1, s.ins.op.val, k, s.off⟩) ∨
      (∃ c, Spec.usedClass s.cls s.ins = some c ∧ r = ⟨s.cls, c, s.ins.op.val, s.meth, s.off⟩) := by
  rw [callTarget_eq, usedClass_eq]
  unfold siteDelta emit
  simp only
  cases act s.ins.op.val s.ins.ref with
  | invoke c' n d => by_cases h : startsL (lstripBr c') = true <;> simp [h]
  | classUse t =>
    simp only
    by_cases h : startsL (lstripBr t) = true
    · by_cases h2 : lstripBr t = s.cls <;> simp [h, h2]
    · simp [h]
  | str _ => simp
  | field c' n t => simp only; split <;> (try split) <;> simp
  | skip => simp

set_option maxRecDepth 8000 in
theorem site_clsFrom (r : ClsRef) :
    r ∈ (siteDelta decl s).clsFrom ↔
      (∃ k, Spec.callTarget s.ins = some k ∧ r = ⟨k.1, s.cls, s.ins.op.val, s.meth, s.off⟩) ∨
      (∃ c, Spec.usedClass s.cls s.ins = some c ∧ r = ⟨c, s.cls, s.ins.op.val, s.meth, s.off⟩) := by
  rw [callTarget_eq, usedClass_eq]
  unfold siteDelta emit
  simp only
  cases act s.ins.op.val s.ins.ref with
  | invoke c' n d => by_cases h : startsL (lstripBr c') = true <;> simp [h]
  | classUse t =>
    simp only
    by_cases h : startsL (lstripBr t) = true
    · by_cases h2 : lstripBr t = s.cls <;> simp [h, h2]
    · simp [h]
  | str _ => simp
  | field c' n t => simp only; split <;> (try split) <;> simp
  | skip => simp

/-- shared shape of the four new-instance / const-class tables -/
theorem site_use (sel : Delta → List (MKey × String × Nat)) (opc : Nat)
    (test : Nat → Bool) (htest : ∀ op : Fin 256, test op.val = true ↔ op.val = opc)
    (hsel : ∀ (cur : String) (m : MKey) (oi : Nat × XIns),
      sel (emit decl cur m oi) = match act oi.2.op.val oi.2.ref with
        | .classUse t => if startsL (lstripBr t) = true ∧ lstripBr t ≠ cur ∧ test oi.2.op.val = true
            then [(m, lstripBr t, oi.1)] else []
        | _ => [])
    (x : MKey × String × Nat) :
    x ∈ sel (siteDelta decl s) ↔
      ∃ c, Spec.usedClass s.cls s.ins = some c ∧ s.ins.op.val = opc ∧ x = (s.meth, c, s.off) := by
  rw [usedClass_eq]
  unfold siteDelta
  rw [hsel]
  simp only
  cases act s.ins.op.val s.ins.ref with
  | classUse t =>
    simp only
    by_cases h : startsL (lstripBr t) = true
    · by_cases h2 : lstripBr t = s.cls
      · simp [h, h2]
      · by_cases h3 : test s.ins.op.val = true
        · have := (htest s.ins.op).1 h3
          have h3' : test opc = true := this ▸ h3
          simp [h, h2, h3', this]
        · have : ¬ s.ins.op.val = opc := fun e => h3 ((htest s.ins.op).2 e)
          simp [h, h2, h3, this]
    · simp [h]
  | invoke _ _ _ => simp
  | str _ => simp
  | field _ _ _ => simp
  | skip => simp

theorem emit_newInstM (cur : String) (m : MKey) (oi : Nat × XIns) :
    (emit decl cur m oi).newInstM = match act oi.2.op.val oi.2.ref with
      | .classUse t => if startsL (lstripBr t) = true ∧ lstripBr t ≠ cur ∧ XrefOps.isNewInstance oi.2.op.val = true
          then [(m, lstripBr t, oi.1)] else []
      | _ => [] := by
  unfold emit
  simp only
  cases act oi.2.op.val oi.2.ref with
  | classUse t =>
    simp only
    by_cases h : startsL (lstripBr t) = true
    · by_cases h2 : lstripBr t = cur
      · simp [h, h2]
      · by_cases h3 : XrefOps.isNewInstance oi.2.op.val = true <;> simp [h, h2, h3]
    · simp [h]
  | invoke c n d => simp only; split <;> simp
  | str _ => simp
  | field c n t => simp only; split <;> (try split) <;> simp
  | skip => simp

theorem emit_constClsM (cur : String) (m : MKey) (oi : Nat × XIns) :
    (emit decl cur m oi).constClsM = match act oi.2.op.val oi.2.ref with
      | .classUse t => if startsL (lstripBr t) = true ∧ lstripBr t ≠ cur ∧ XrefOps.isConstClass oi.2.op.val = true
          then [(m, lstripBr t, oi.1)] else []
      | _ => [] := by
  unfold emit
  simp only
  cases act oi.2.op.val oi.2.ref with
  | classUse t =>
    simp only
    by_cases h : startsL (lstripBr t) = true
    · by_cases h2 : lstripBr t = cur
      · simp [h, h2]
      · by_cases h3 : XrefOps.isConstClass oi.2.op.val = true <;> simp [h, h2, h3]
    · simp [h]
  | invoke c n d => simp only; split <;> simp
  | str _ => simp
  | field c n t => simp only; split <;> (try split) <;> simp
  | skip => simp

theorem emit_newInstC (cur : String) (m : MKey) (oi : Nat × XIns) :
    (emit decl cur m oi).newInstC = (emit decl cur m oi).newInstM.map fun x => (x.2.1, x.1, x.2.2) := by
  unfold emit
  simp only
  cases act oi.2.op.val oi.2.ref with
  | classUse t =>
    simp only
    split
    · simp
    · split
      · simp
      · by_cases h3 : XrefOps.isNewInstance oi.2.op.val = true <;> simp [h3]
  | invoke c n d => simp only; split <;> simp
  | str _ => simp
  | field c n t => simp only; split <;> (try split) <;> simp
  | skip => simp

theorem emit_constClsC (cur : String) (m : MKey) (oi : Nat × XIns) :
    (emit decl cur m oi).constClsC = (emit decl cur m oi).constClsM.map fun x => (x.2.1, x.1, x.2.2) := by
  unfold emit
  simp only
  cases act oi.2.op.val oi.2.ref with
  | classUse t =>
    simp only
    split
    · simp
    · split
      · simp
      · by_cases h3 : XrefOps.isConstClass oi.2.op.val = true <;> simp [h3]
  | invoke c n d => simp only; split <;> simp
  | str _ => simp
  | field c n t => simp only; split <;> (try split) <;> simp
  | skip => simp

theorem site_newInstM (x : MKey × String × Nat) :
    x ∈ (siteDelta decl s).newInstM ↔
      ∃ c, Spec.usedClass s.cls s.ins = some c ∧ s.ins.op.val = Spec.newInstanceOp ∧ x = (s.meth, c, s.off) :=
  site_use decl s (·.newInstM) Spec.newInstanceOp XrefOps.isNewInstance (fun op => (classUse_agrees op).2)
    (emit_newInstM decl) x

theorem site_constClsM (x : MKey × String × Nat) :
    x ∈ (siteDelta decl s).constClsM ↔
      ∃ c, Spec.usedClass s.cls s.ins = some c ∧ s.ins.op.val = Spec.constClassOp ∧ x = (s.meth, c, s.off) :=
  site_use decl s (·.constClsM) Spec.constClassOp XrefOps.isConstClass (fun op => (classUse_agrees op).1)
    (emit_constClsM decl) x

theorem emit_strFrom (cur : String) (m : MKey) (oi : Nat × XIns) :
    (emit decl cur m oi).strFrom = match act oi.2.op.val oi.2.ref with
      | .str sv => [(sv, m, oi.1)]
      | _ => [] := by
  unfold emit
  simp only
  cases act oi.2.op.val oi.2.ref with
  | classUse t => simp only; split <;> (try split) <;> rfl
  | invoke c n d => simp only; split <;> rfl
  | str _ => rfl
  | field c n t => simp only; split <;> (try split) <;> rfl
  | skip => rfl

theorem emit_strings (cur : String) (m : MKey) (oi : Nat × XIns) :
    (emit decl cur m oi).strings = match act oi.2.op.val oi.2.ref with
      | .str sv => [sv]
      | _ => [] := by
  unfold emit
  simp only
  cases act oi.2.op.val oi.2.ref with
  | classUse t => simp only; split <;> (try split) <;> rfl
  | invoke c n d => simp only; split <;> rfl
  | str _ => rfl
  | field c n t => simp only; split <;> (try split) <;> rfl
  | skip => rfl

theorem site_strFrom (x : String × MKey × Nat) :
    x ∈ (siteDelta decl s).strFrom ↔
      ∃ sv, s.ins.op.val ∈ Spec.constStringOps ∧ s.ins.ref = .str sv ∧ x = (sv, s.meth, s.off) := by
  unfold siteDelta
  rw [emit_strFrom]
  have hn : ∀ sv, s.ins.op.val ∈ Spec.constStringOps → s.ins.ref = .str sv → act s.ins.op.val s.ins.ref = .str sv :=
    fun sv h1 h2 => (act_str_spec s.ins sv).2 ⟨h1, h2⟩
  simp only
  cases hact : act s.ins.op.val s.ins.ref with
  | str sv =>
    have := (act_str_spec s.ins sv).1 hact
    simp only [List.mem_singleton]
    constructor
    · rintro rfl; exact ⟨sv, this.1, this.2, rfl⟩
    · rintro ⟨sv', _, h2, rfl⟩
      rw [this.2] at h2; cases h2; rfl
  | _ =>
    simp only [List.not_mem_nil, false_iff]
    rintro ⟨sv, h1, h2, _⟩
    have := hn sv h1 h2
    rw [hact] at this; cases this

theorem site_strings (x : String) :
    x ∈ (siteDelta decl s).strings ↔ s.ins.op.val ∈ Spec.constStringOps ∧ s.ins.ref = .str x := by
  unfold siteDelta
  rw [emit_strings]
  simp only
  cases hact : act s.ins.op.val s.ins.ref with
  | str sv =>
    have := (act_str_spec s.ins sv).1 hact
    simp only [List.mem_singleton]
    constructor
    · rintro rfl; exact this
    · rintro ⟨_, h2⟩
      rw [this.2] at h2; cases h2; rfl
  | _ =>
    simp only [List.not_mem_nil, false_iff]
    rintro ⟨h1, h2⟩
    have := (act_str_spec s.ins x).2 ⟨h1, h2⟩
    rw [hact] at this; cases this

/-! field accesses -/

theorem emit_fields (cur : String) (m : MKey) (oi : Nat × XIns) :
    let e := emit decl cur m oi
    match act oi.2.op.val oi.2.ref with
    | .field c n t =>
      if (c, n, t) ∈ decl then
        e.fas = [(cur, (c, n, t))] ∧
        (if XrefOps.isFieldRead oi.2.op.val = true then
          e.fRead = [((cur, (c, n, t)), m, oi.1)] ∧ e.mRead = [(m, (c, n, t), oi.1)] ∧ e.fWrite = [] ∧ e.mWrite = []
        else
          e.fWrite = [((cur, (c, n, t)), m, oi.1)] ∧ e.mWrite = [(m, (c, n, t), oi.1)] ∧ e.fRead = [] ∧ e.mRead = [])
      else e.fas = [] ∧ e.fRead = [] ∧ e.mRead = [] ∧ e.fWrite = [] ∧ e.mWrite = []
    | _ => e.fas = [] ∧ e.fRead = [] ∧ e.mRead = [] ∧ e.fWrite = [] ∧ e.mWrite = [] := by
  unfold emit
  simp only
  cases act oi.2.op.val oi.2.ref with
  | classUse t => simp only; split <;> (try split) <;> simp
  | invoke c n d => simp only; split <;> simp
  | str _ => simp
  | field c n t =>
    simp only
    by_cases h : (c, n, t) ∈ decl
    · by_cases h2 : XrefOps.isFieldRead oi.2.op.val = true <;> simp [h, h2]
    · simp [h]
  | skip => simp

/-- the field a site accesses, whether it reads, provided the field is declared -/
theorem site_field_cases :
    (∃ c n t, act s.ins.op.val s.ins.ref = .field c n t) ∨
    ((siteDelta decl s).fas = [] ∧ (siteDelta decl s).fRead = [] ∧ (siteDelta decl s).mRead = [] ∧
     (siteDelta decl s).fWrite = [] ∧ (siteDelta decl s).mWrite = [] ∧
     ∀ c n t, ¬ ((s.ins.op.val ∈ Spec.fieldReadOps ∨ s.ins.op.val ∈ Spec.fieldWriteOps) ∧ s.ins.ref = .field c n t)) := by
  have e := emit_fields decl s.cls s.meth (s.off, s.ins)
  simp only at e
  cases hact : act s.ins.op.val s.ins.ref with
  | field c n t => exact Or.inl ⟨c, n, t, rfl⟩
  | _ =>
    rw [hact] at e
    simp only at e
    refine Or.inr ⟨e.1, e.2.1, e.2.2.1, e.2.2.2.1, e.2.2.2.2, ?_⟩
    intro c n t h
    have := (act_field_spec s.ins c n t).2 h
    rw [hact] at this; cases this

theorem fieldOps_disjoint : ∀ op : Fin 256, ¬ (op.val ∈ Spec.fieldReadOps ∧ op.val ∈ Spec.fieldWriteOps) := by
  decide +kernel

theorem site_fRead (x : (String × FKey) × MKey × Nat) :
    x ∈ (siteDelta decl s).fRead ↔
      ∃ f : FKey, f ∈ decl ∧ s.ins.op.val ∈ Spec.fieldReadOps ∧ s.ins.ref = .field f.1 f.2.1 f.2.2 ∧
        x = ((s.cls, f), s.meth, s.off) := by
  rcases site_field_cases decl s with ⟨c, n, t, hact⟩ | ⟨_, h, _, _, _, hn⟩
  · have e := emit_fields decl s.cls s.meth (s.off, s.ins)
    simp only at e
    rw [hact] at e
    simp only at e
    obtain ⟨hops, href⟩ := (act_field_spec s.ins c n t).1 hact
    have hk := (act_field_iff _ _ c n t).1 hact
    have hr := fieldRead_agrees s.ins.op hk.1
    unfold siteDelta
    by_cases hd : (c, n, t) ∈ decl
    · rw [if_pos hd] at e
      by_cases hrd : XrefOps.isFieldRead s.ins.op.val = true
      · rw [if_pos hrd] at e
        rw [e.2.1]
        simp only [List.mem_singleton]
        constructor
        · rintro rfl; exact ⟨(c, n, t), hd, hr.1.1 hrd, href, rfl⟩
        · rintro ⟨f, _, _, h3, rfl⟩
          rw [href] at h3; cases h3; rfl
      · rw [if_neg hrd] at e
        rw [e.2.2.2.1]
        simp only [List.not_mem_nil, false_iff]
        rintro ⟨f, _, h2, _, _⟩
        exact hrd (hr.1.2 h2)
    · rw [if_neg hd] at e
      rw [e.2.1]
      simp only [List.not_mem_nil, false_iff]
      rintro ⟨f, h1, _, h3, _⟩
      rw [href] at h3; cases h3; exact hd h1
  · unfold siteDelta at h ⊢
    rw [h]
    simp only [List.not_mem_nil, false_iff]
    rintro ⟨f, _, h2, h3, _⟩
    exact hn _ _ _ ⟨Or.inl h2, h3⟩

theorem site_mRead (x : MKey × FKey × Nat) :
    x ∈ (siteDelta decl s).mRead ↔
      ∃ f : FKey, f ∈ decl ∧ s.ins.op.val ∈ Spec.fieldReadOps ∧ s.ins.ref = .field f.1 f.2.1 f.2.2 ∧
        x = (s.meth, f, s.off) := by
  rcases site_field_cases decl s with ⟨c, n, t, hact⟩ | ⟨_, _, h, _, _, hn⟩
  · have e := emit_fields decl s.cls s.meth (s.off, s.ins)
    simp only at e
    rw [hact] at e
    simp only at e
    obtain ⟨hops, href⟩ := (act_field_spec s.ins c n t).1 hact
    have hk := (act_field_iff _ _ c n t).1 hact
    have hr := fieldRead_agrees s.ins.op hk.1
    unfold siteDelta
    by_cases hd : (c, n, t) ∈ decl
    · rw [if_pos hd] at e
      by_cases hrd : XrefOps.isFieldRead s.ins.op.val = true
      · rw [if_pos hrd] at e
        rw [e.2.2.1]
        simp only [List.mem_singleton]
        constructor
        · rintro rfl; exact ⟨(c, n, t), hd, hr.1.1 hrd, href, rfl⟩
        · rintro ⟨f, _, _, h3, rfl⟩
          rw [href] at h3; cases h3; rfl
      · rw [if_neg hrd] at e
        rw [e.2.2.2.2]
        simp only [List.not_mem_nil, false_iff]
        rintro ⟨f, _, h2, _, _⟩
        exact hrd (hr.1.2 h2)
    · rw [if_neg hd] at e
      rw [e.2.2.1]
      simp only [List.not_mem_nil, false_iff]
      rintro ⟨f, h1, _, h3, _⟩
      rw [href] at h3; cases h3; exact hd h1
  · unfold siteDelta at h ⊢
    rw [h]
    simp only [List.not_mem_nil, false_iff]
    rintro ⟨f, _, h2, h3, _⟩
    exact hn _ _ _ ⟨Or.inl h2, h3⟩

theorem site_fWrite (x : (String × FKey) × MKey × Nat) :
    x ∈ (siteDelta decl s).fWrite ↔
      ∃ f : FKey, f ∈ decl ∧ s.ins.op.val ∈ Spec.fieldWriteOps ∧ s.ins.ref = .field f.1 f.2.1 f.2.2 ∧
        x = ((s.cls, f), s.meth, s.off) := by
  rcases site_field_cases decl s with ⟨c, n, t, hact⟩ | ⟨_, _, _, h, _, hn⟩
  · have e := emit_fields decl s.cls s.meth (s.off, s.ins)
    simp only at e
    rw [hact] at e
    simp only at e
    obtain ⟨hops, href⟩ := (act_field_spec s.ins c n t).1 hact
    have hk := (act_field_iff _ _ c n t).1 hact
    have hr := fieldRead_agrees s.ins.op hk.1
    unfold siteDelta
    by_cases hd : (c, n, t) ∈ decl
    · rw [if_pos hd] at e
      by_cases hrd : XrefOps.isFieldRead s.ins.op.val = true
      · rw [if_pos hrd] at e
        rw [e.2.2.2.1]
        simp only [List.not_mem_nil, false_iff]
        rintro ⟨f, _, h2, _, _⟩
        exact fieldOps_disjoint s.ins.op ⟨hr.1.1 hrd, h2⟩
      · rw [if_neg hrd] at e
        rw [e.2.1]
        have hw : s.ins.op.val ∈ Spec.fieldWriteOps := hr.2.1 (by simpa using hrd)
        simp only [List.mem_singleton]
        constructor
        · rintro rfl; exact ⟨(c, n, t), hd, hw, href, rfl⟩
        · rintro ⟨f, _, _, h3, rfl⟩
          rw [href] at h3; cases h3; rfl
    · rw [if_neg hd] at e
      rw [e.2.2.2.1]
      simp only [List.not_mem_nil, false_iff]
      rintro ⟨f, h1, _, h3, _⟩
      rw [href] at h3; cases h3; exact hd h1
  · unfold siteDelta at h ⊢
    rw [h]
    simp only [List.not_mem_nil, false_iff]
    rintro ⟨f, _, h2, h3, _⟩
    exact hn _ _ _ ⟨Or.inr h2, h3⟩

theorem site_mWrite (x : MKey × FKey × Nat) :
    x ∈ (siteDelta decl s).mWrite ↔
      ∃ f : FKey, f ∈ decl ∧ s.ins.op.val ∈ Spec.fieldWriteOps ∧ s.ins.ref = .field f.1 f.2.1 f.2.2 ∧
        x = (s.meth, f, s.off) := by
  rcases site_field_cases decl s with ⟨c, n, t, hact⟩ | ⟨_, _, _, _, h, hn⟩
  · have e := emit_fields decl s.cls s.meth (s.off, s.ins)
    simp only at e
    rw [hact] at e
    simp only at e
    obtain ⟨hops, href⟩ := (act_field_spec s.ins c n t).1 hact
    have hk := (act_field_iff _ _ c n t).1 hact
    have hr := fieldRead_agrees s.ins.op hk.1
    unfold siteDelta
    by_cases hd : (c, n, t) ∈ decl
    · rw [if_pos hd] at e
      by_cases hrd : XrefOps.isFieldRead s.ins.op.val = true
      · rw [if_pos hrd] at e
        rw [e.2.2.2.2]
        simp only [List.not_mem_nil, false_iff]
        rintro ⟨f, _, h2, _, _⟩
        exact fieldOps_disjoint s.ins.op ⟨hr.1.1 hrd, h2⟩
      · rw [if_neg hrd] at e
        rw [e.2.2.1]
        have hw : s.ins.op.val ∈ Spec.fieldWriteOps := hr.2.1 (by simpa using hrd)
        simp only [List.mem_singleton]
        constructor
        · rintro rfl; exact ⟨(c, n, t), hd, hw, href, rfl⟩
        · rintro ⟨f, _, _, h3, rfl⟩
          rw [href] at h3; cases h3; rfl
    · rw [if_neg hd] at e
      rw [e.2.2.2.2]
      simp only [List.not_mem_nil, false_iff]
      rintro ⟨f, h1, _, h3, _⟩
      rw [href] at h3; cases h3; exact hd h1
  · unfold siteDelta at h ⊢
    rw [h]
    simp only [List.not_mem_nil, false_iff]
    rintro ⟨f, _, h2, h3, _⟩
    exact hn _ _ _ ⟨Or.inr h2, h3⟩

theorem site_fas (x : String × FKey) :
    x ∈ (siteDelta decl s).fas ↔
      ∃ f : FKey, f ∈ decl ∧ (s.ins.op.val ∈ Spec.fieldReadOps ∨ s.ins.op.val ∈ Spec.fieldWriteOps) ∧
        s.ins.ref = .field f.1 f.2.1 f.2.2 ∧ x = (s.cls, f) := by
  rcases site_field_cases decl s with ⟨c, n, t, hact⟩ | ⟨h, _, _, _, _, hn⟩
  · have e := emit_fields decl s.cls s.meth (s.off, s.ins)
    simp only at e
    rw [hact] at e
    simp only at e
    obtain ⟨hops, href⟩ := (act_field_spec s.ins c n t).1 hact
    unfold siteDelta
    by_cases hd : (c, n, t) ∈ decl
    · rw [if_pos hd] at e
      rw [e.1]
      simp only [List.mem_singleton]
      constructor
      · rintro rfl; exact ⟨(c, n, t), hd, hops, href, rfl⟩
      · rintro ⟨f, _, _, h3, rfl⟩
        rw [href] at h3; cases h3; rfl
    · rw [if_neg hd] at e
      rw [e.1]
      simp only [List.not_mem_nil, false_iff]
      rintro ⟨f, h1, _, h3, _⟩
      rw [href] at h3; cases h3; exact hd h1
  · unfold siteDelta at h ⊢
    rw [h]
    simp only [List.not_mem_nil, false_iff]
    rintro ⟨f, _, h2, h3, _⟩
    exact hn _ _ _ ⟨h2, h3⟩

end site

end AgVerif.Xref
