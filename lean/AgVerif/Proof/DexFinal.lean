/-
C07, concrete loader: when MapList.__init__ runs the item parser of an entry, the tables of all
(transitively) declared dependencies of its type are already final — no later item writes them —
so every item is resolved against the complete tables (`deps_final`), and re-running its parser
on the final state would give the same table (`FrameOK … s fin`).
Frame (Proof/DexFrame.lean) + adequacy (Proof/DexDeps.lean) + the sorted load order.
-/
import AgVerif.Proof.DexDeps
import AgVerif.Proof.LoadOrder
namespace AgVerif.DexFrame
open AgVerif.DexFile AgVerif.LoadOrder AgVerif.Gen.MapDeps

theorem sameTable_symm {t : Nat} {a b : CM} (h : sameTable t a b) : sameTable t b a := by
  unfold sameTable at *
  obtain ⟨h1, h2, h3, h4, h5, h6, h7, h8, h9, h10⟩ := h
  exact ⟨fun e => (h1 e).symm, fun e => (h2 e).symm, fun e => (h3 e).symm, fun e => (h4 e).symm,
    fun e => (h5 e).symm, fun e => (h6 e).symm, fun e => (h7 e).symm, fun e => (h8 e).symm,
    fun e => (h9 e).symm, fun e => (h10 e).symm⟩

theorem sameTable_trans {t : Nat} {a b c : CM} (h : sameTable t a b) (h' : sameTable t b c) :
    sameTable t a c := by
  unfold sameTable at *
  obtain ⟨h1, h2, h3, h4, h5, h6, h7, h8, h9, h10⟩ := h
  obtain ⟨g1, g2, g3, g4, g5, g6, g7, g8, g9, g10⟩ := h'
  exact ⟨fun e => (h1 e).trans (g1 e), fun e => (h2 e).trans (g2 e), fun e => (h3 e).trans (g3 e),
    fun e => (h4 e).trans (g4 e), fun e => (h5 e).trans (g5 e), fun e => (h6 e).trans (g6 e),
    fun e => (h7 e).trans (g7 e), fun e => (h8 e).trans (g8 e), fun e => (h9 e).trans (g9 e),
    fun e => (h10 e).trans (g10 e)⟩

/-- an item parser writes only the table of its own type -/
theorem step_preserves (file : Bytes) (cm cm' : CM) (e : MapEntry) (h : step file cm e = .ok cm') :
    ∀ t, t ≠ e.type → sameTable t cm' cm := by
  have hf := step_frame_reads file e cm cm (fun t _ => sameTable_refl t cm)
  unfold FrameOK at hf
  rw [h] at hf
  exact fun t ht => (hf.2 t ht).1

theorem fold_preserves (file : Bytes) : ∀ (l : List MapEntry) (s fin : CM),
    foldSteps (step file) s l = .ok fin → ∀ t, t ∉ l.map (·.type) → sameTable t fin s
  | [], s, fin, h, t, _ => by
    simp only [foldSteps, Except.ok.injEq] at h
    subst h; exact sameTable_refl t _
  | e :: l, s, fin, h, t, ht => by
    simp only [foldSteps] at h
    cases hs : step file s e with
    | error x => simp [hs] at h
    | ok s' =>
      simp only [hs] at h
      simp only [List.map_cons, List.mem_cons, not_or] at ht
      exact sameTable_trans (fold_preserves file l s' fin h t ht.2) (step_preserves file s s' e hs t ht.1)

theorem foldSteps_append {σ ε} (step : σ → MapEntry → Except ε σ) : ∀ (l₁ l₂ : List MapEntry) (s : σ),
    foldSteps step s (l₁ ++ l₂) = match foldSteps step s l₁ with
      | .error x => .error x
      | .ok s' => foldSteps step s' l₂
  | [], _, _ => rfl
  | e :: l₁, l₂, s => by
    simp only [List.cons_append, foldSteps]
    cases step s e with
    | error x => rfl
    | ok s' => exact foldSteps_append step l₁ l₂ s'

/-- the sort key MapList.__init__ uses -/
def key (e : MapEntry) : Nat := (rank loadOrder e.type).getD 0

/-- every transitively declared dependency of a ranked type has a smaller rank -/
theorem closure_before : ∀ p ∈ loadOrder, rank loadOrder p.1 = some p.2 ∧
    ∀ D ∈ closure deps p.1, (rank loadOrder D).isSome = true ∧ (rank loadOrder D).getD 0 < p.2 := by
  decide +kernel

/-- the load order puts every entry behind the entries of its dependency types: in the sorted list
    `pre ++ e :: post`, no entry from `e` on has a type in `closure deps e.type` -/
theorem deps_not_later (es pre post : List MapEntry) (e : MapEntry)
    (hord : orderEntries loadOrder es = some (pre ++ e :: post)) :
    ∀ D ∈ closure deps e.type, D ∉ (e :: post).map (·.type) := by
  unfold orderEntries at hord
  split at hord
  · rename_i hall
    simp only [Option.some.injEq] at hord
    have hsorted := sortByKey_sorted (fun e : MapEntry => (rank loadOrder e.type).getD 0) es
    have hperm := sortByKey_perm (fun e : MapEntry => (rank loadOrder e.type).getD 0) es
    rw [hord] at hsorted hperm
    have he : e ∈ es := hperm.mem_iff.mp (by simp)
    have hsome := (List.all_eq_true.mp hall) e he
    cases hr : rank loadOrder e.type with
    | none => simp [hr] at hsome
    | some r =>
      have hmem := rank_some_mem _ _ _ hr
      obtain ⟨_, hcl⟩ := closure_before (e.type, r) hmem
      intro D hD hin
      obtain ⟨_, hlt⟩ := hcl D hD
      simp only at hlt
      have hpw := (List.pairwise_append.mp hsorted).2.1
      rw [List.pairwise_cons] at hpw
      simp only [List.map_cons, List.mem_cons, List.mem_map] at hin
      rcases hin with hDe | ⟨x, hx, hxD⟩
      · rw [hDe, hr] at hlt; simp at hlt
      · have := hpw.1 x hx
        simp only [hr, Option.getD_some, hxD] at this
        omega
  · cases hord

/-- when the parser of `e` runs (state `s`, after the entries before it), the tables of all declared
    dependencies of its type already are what they will be at the end (`fin`); hence running the
    parser of `e` against the final state gives the same table. -/
theorem deps_final (file : Bytes) (es pre post : List MapEntry) (e : MapEntry) (init s fin : CM)
    (hord : orderEntries loadOrder es = some (pre ++ e :: post))
    (hpre : foldSteps (step file) init pre = .ok s)
    (hfin : foldSteps (step file) init (pre ++ e :: post) = .ok fin) :
    agreeOn (closure deps e.type) s fin ∧ FrameOK file e s fin := by
  have hrest : foldSteps (step file) s (e :: post) = .ok fin := by
    rw [foldSteps_append, hpre] at hfin
    exact hfin
  have hag : agreeOn (closure deps e.type) s fin := fun D hD =>
    sameTable_symm (fold_preserves file (e :: post) s fin hrest D (deps_not_later es pre post e hord D hD))
  exact ⟨hag, step_frame_of_adequate deps deps_adequate.1 file e s fin hag⟩

end AgVerif.DexFrame
