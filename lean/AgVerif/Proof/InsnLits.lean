/- C01: the literal operands of `get_operands()` are `get_literals()`. -/
import AgVerif.Proof.InsnFields
set_option linter.unusedSimpArgs false
set_option linter.unusedVariables false
namespace AgVerif.Insn
open AgVerif.Gen AgVerif.Spec

/-- the `Operand.LITERAL` entries of `get_operands()`, in order -/
def litsOfOperands (x : Insn) : List Int :=
  match operands x with
  | .ok (some ops) => ops.filterMap (fun o => match o with | .lit v => some v | _ => none)
  | _ => []

theorem lits_operands_all (x : Insn) (hs : (toSpec x.fmt).isSome = true)
    (hk : needsKind x.fmt = true → ∃ k, kindOf x.op = some k) (h35 : x.fmt ≠ .f35c) :
    litsOfOperands x = literals x := by
  obtain ⟨f, op, v⟩ := x
  simp only at h35
  cases f <;> simp [toSpec] at hs <;> (try (exact absurd rfl h35)) <;>
    simp only [needsKind, forall_const, Bool.false_eq_true, false_imp_iff] at hk <;>
    (try obtain ⟨k, hk⟩ := hk) <;>
    rcases v with _ | ⟨a, _ | ⟨b, _ | ⟨c, _ | ⟨d, _ | ⟨e, _ | ⟨g, _ | ⟨h, _ | ⟨i, _ | ⟨j, t⟩⟩⟩⟩⟩⟩⟩⟩⟩ <;>
    simp_all [litsOfOperands, operands, literals, m0, m1, m2, m3, m4, m5, m7, m8, bind, Except.bind, List.filterMap_append, List.filterMap_map, Function.comp_def]
    <;> (try split) <;> simp_all [List.filterMap_append, List.filterMap_map, Function.comp_def]
end AgVerif.Insn
