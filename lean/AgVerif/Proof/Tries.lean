/-
Lemmas for C08, part 1: the parser of the model (AgVerif.Tries) reads back what the format
specification (AgVerif.Spec.Tries) writes.
-/
import AgVerif.Model.Tries
import AgVerif.Spec.Tries
import AgVerif.Props.C03
namespace AgVerif.Tries
open AgVerif.Leb AgVerif.Spec.Leb AgVerif.Spec.Tries

/-! ### fixed-width fields -/

theorem u16_le16 (v : Nat) (h : v < 2 ^ 16) : u16 (v % 256) (v / 256 % 256) = v := by
  unfold u16; omega

theorem u32_le32 (v : Nat) (h : v < 2 ^ 32) :
    u32 (v % 256) (v / 256 % 256) (v / 65536 % 256) (v / 16777216 % 256) = v := by
  unfold u32; omega

/-! ### LEB items -/

theorem UNum.read (n : UNum) (h : n.WF) (rest : List Nat) :
    readUleb (n.bytes ++ rest) = some (n.val, n.bytes.length) :=
  AgVerif.C03.uleb_decode_spec n.bytes rest n.val h.1 h.2.1 h.2.2

theorem SNum.read (n : SNum) (h : n.WF) (rest : List Nat) :
    readSleb (n.bytes ++ rest) = some (n.val, n.bytes.length) :=
  AgVerif.C03.sleb_decode_spec n.bytes rest n.val h.1 h.2.1 h.2.2

theorem isItem_length_pos : ∀ (bs : List Nat), IsItem bs → 0 < bs.length
  | [], h => by simp [IsItem] at h
  | _ :: _, _ => by simp

/-! ### try items -/

/-- the model's TryItem for a written try item -/
def itemOf (t : EncTry) : TryItem := ⟨t.start, t.count, t.hoff⟩

theorem parseTryItems_enc (ts : List EncTry) (rest : List Nat)
    (hb : ∀ t ∈ ts, t.start < 2 ^ 32 ∧ t.count < 2 ^ 16 ∧ t.hoff < 2 ^ 16) :
    parseTryItems ts.length (ts.flatMap EncTry.bytes ++ rest) = .ok (ts.map itemOf, rest) := by
  induction ts with
  | nil => simp [parseTryItems]
  | cons t ts ih =>
    have hb' := hb t (by simp)
    have ih' := ih (fun t' ht' => hb t' (by simp [ht']))
    simp only [List.length_cons, List.flatMap_cons, EncTry.bytes, le32, le16, List.cons_append,
      List.nil_append, List.append_assoc, parseTryItems, ih', List.map_cons, itemOf]
    rw [u32_le32 _ hb'.1, u16_le16 _ hb'.2.1, u16_le16 _ hb'.2.2]

/-! ### type/address pairs -/

def pairVals (ps : List EncPair) : List (Nat × Nat) := ps.map fun p => (p.ty.val, p.addr.val)

theorem parsePairs_enc (ps : List EncPair) (rest : List Nat) (pos : Nat)
    (hw : ∀ p ∈ ps, p.ty.WF ∧ p.addr.WF) :
    parsePairs ps.length (ps.flatMap EncPair.bytes ++ rest) pos
      = .ok (pairVals ps, rest, pos + (ps.flatMap EncPair.bytes).length) := by
  induction ps generalizing pos with
  | nil => simp [parsePairs, pairVals]
  | cons p ps ih =>
    have hp := hw p (by simp)
    have ih' := ih (pos + p.ty.bytes.length + p.addr.bytes.length) (fun q hq => hw q (by simp [hq]))
    simp only [List.length_cons, List.flatMap_cons, EncPair.bytes, List.append_assoc, parsePairs]
    rw [UNum.read p.ty hp.1]
    simp only [List.drop_left]
    rw [UNum.read p.addr hp.2]
    simp only [List.drop_left]
    rw [ih']
    simp only [pairVals, List.map_cons, List.length_append, Nat.add_assoc]

/-! ### handlers -/

/-- the model's Handler for a written handler that starts at offset `pos` -/
def handlerOf (pos : Nat) (h : EncHandler) : Handler :=
  ⟨pos, h.size.val, pairVals h.pairs, h.catchAll.map (·.val)⟩

theorem parseHandler_enc (h : EncHandler) (hw : h.WF) (rest : List Nat) (pos : Nat) :
    parseHandler (h.bytes ++ rest) pos = .ok (handlerOf pos h, rest, pos + h.bytes.length) := by
  obtain ⟨hs, hp, hc⟩ := hw
  unfold parseHandler EncHandler.bytes
  simp only [List.append_assoc]
  rw [SNum.read h.size hs]
  simp only [List.drop_left]
  cases hca : h.catchAll with
  | none =>
    rw [hca] at hc
    simp only at hc
    have hn : h.size.val.natAbs = h.pairs.length := by rw [hc.2]; simp
    have hpos : ¬ h.size.val ≤ 0 := by
      have : 0 < h.pairs.length := List.length_pos_iff.mpr hc.1
      omega
    rw [hn, parsePairs_enc h.pairs _ _ hp]
    simp only [hpos, if_false, List.nil_append, handlerOf, hca, Option.map_none, List.length_append,
      List.length_nil, Nat.add_zero, Nat.add_assoc]
  | some c =>
    rw [hca] at hc
    simp only at hc
    have hn : h.size.val.natAbs = h.pairs.length := by rw [hc.2]; simp
    have hneg : h.size.val ≤ 0 := by rw [hc.2]; omega
    rw [hn, parsePairs_enc h.pairs _ _ hp]
    simp only [hneg, if_true]
    rw [UNum.read c hc.1]
    simp only [List.drop_left, handlerOf, hca, Option.map_some, List.length_append, Nat.add_assoc]

/-- the handlers the model builds for consecutive written handlers, the first at `pos` -/
def handlersFrom (pos : Nat) : List EncHandler → List Handler
  | [] => []
  | h :: hs => handlerOf pos h :: handlersFrom (pos + h.bytes.length) hs

theorem parseHandlers_enc (hs : List EncHandler) (hw : ∀ h ∈ hs, h.WF) (rest : List Nat) (pos : Nat) :
    parseHandlers hs.length (hs.flatMap EncHandler.bytes ++ rest) pos
      = .ok (handlersFrom pos hs, rest, pos + (hs.flatMap EncHandler.bytes).length) := by
  induction hs generalizing pos with
  | nil => simp [parseHandlers, handlersFrom]
  | cons h hs ih =>
    have ih' := ih (fun q hq => hw q (by simp [hq])) (pos + h.bytes.length)
    simp only [List.length_cons, List.flatMap_cons, List.append_assoc, parseHandlers]
    simp only [parseHandler_enc h (hw h (by simp)), ih', handlersFrom, List.length_append, Nat.add_assoc]

theorem handlersFrom_off (pos : Nat) (hs : List EncHandler) :
    (handlersFrom pos hs).map (·.off) = offsetsFrom pos hs := by
  induction hs generalizing pos with
  | nil => rfl
  | cons h hs ih => simp [handlersFrom, offsetsFrom, handlerOf, ih]

theorem offsetsFrom_shift (a pos : Nat) (hs : List EncHandler) :
    offsetsFrom (a + pos) hs = (offsetsFrom pos hs).map (a + ·) := by
  induction hs generalizing pos with
  | nil => rfl
  | cons h hs ih =>
    simp only [offsetsFrom, List.map_cons]
    rw [Nat.add_assoc, ih]

theorem offsetsFrom_ge (pos : Nat) (hs : List EncHandler) : ∀ o ∈ offsetsFrom pos hs, pos ≤ o := by
  induction hs generalizing pos with
  | nil => simp [offsetsFrom]
  | cons h hs ih =>
    intro o ho
    simp only [offsetsFrom, List.mem_cons] at ho
    rcases ho with rfl | ho
    · exact Nat.le_refl _
    · have := ih _ o ho; omega

theorem EncHandler.bytes_pos (h : EncHandler) (hw : h.WF) : 0 < h.bytes.length := by
  have := isItem_length_pos _ hw.1.1
  simp only [EncHandler.bytes, List.length_append]
  omega

/-- written handlers have pairwise different offsets: selecting by the offset of handler `i`
    finds exactly handler `i` -/
theorem filter_off (hs : List EncHandler) (hw : ∀ h ∈ hs, h.WF) (pos : Nat) (i : Nat) (o : Nat)
    (h : EncHandler) (ho : (offsetsFrom pos hs)[i]? = some o) (hh : hs[i]? = some h) :
    (handlersFrom pos hs).filter (fun x => x.off = o) = [handlerOf o h] := by
  induction hs generalizing pos i with
  | nil => simp at hh
  | cons g gs ih =>
    have hg := EncHandler.bytes_pos g (hw g (by simp))
    cases i with
    | zero =>
      simp only [offsetsFrom, List.getElem?_cons_zero, Option.some.injEq] at ho hh
      subst ho; subst hh
      simp only [handlersFrom, List.filter_cons, handlerOf, decide_true, if_true]
      congr 1
      rw [List.filter_eq_nil_iff]
      intro x hx
      have hx' : x.off ∈ offsetsFrom (pos + g.bytes.length) gs := by
        rw [← handlersFrom_off]; exact List.mem_map_of_mem hx
      have := offsetsFrom_ge _ _ _ hx'
      simp only [decide_eq_true_eq]
      omega
    | succ i =>
      simp only [offsetsFrom, List.getElem?_cons_succ] at ho hh
      have hge := offsetsFrom_ge _ _ o (List.mem_of_getElem? ho)
      have hne : ¬ pos = o := by omega
      simp only [handlersFrom, List.filter_cons, handlerOf, hne, decide_false, Bool.false_eq_true, if_false]
      exact ih (fun q hq => hw q (by simp [hq])) _ i ho hh

end AgVerif.Tries
