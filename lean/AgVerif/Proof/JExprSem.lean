/-
C21: semantic link for print_parse on the arithmetic fragment.  For every expression `e` of Spec/JavaSem.lean's
fragment (what `translate_sound_partial` talks about): the IR expression `ofExpr e` is well formed, so the lexemes
the Writer prints for it re-parse (JLS parser) to `toJava (ofExpr e)`, and the JLS semantics ON THAT TREE (`evalJ`)
is the semantics `JavaSem.eval` the soundness theorems use.
-/
import AgVerif.Proof.JExprMain
import AgVerif.Model.JExprSem
import AgVerif.Proof.Translate
namespace AgVerif.JExpr
open AgVerif.JavaSem (Ty Val Err Env Expr evalLit evalVar evalBin evalUn evalRel evalLongCompare castTo eval)

/-- every literal of the expression is in the range of its type (IR constants are) -/
def LitsOK : Expr → Prop
  | .lit v long => if long then -(2 : Int) ^ 63 ≤ v ∧ v < (2 : Int) ^ 63 else -(2 : Int) ^ 31 ≤ v ∧ v < (2 : Int) ^ 31
  | .var _ _ => True
  | .bin _ a b | .rel _ a b | .longCompare a b => LitsOK a ∧ LitsOK b
  | .un _ a | .cast _ a => LitsOK a

/-- `Γ` declares every variable of the expression with the type the expression reads it with -/
def Typed (Γ : String → Option (Ty × Nat)) : Expr → Prop
  | .lit _ _ => True
  | .var t n => Γ ("v" ++ toString n) = some (t, n)
  | .bin _ a b | .rel _ a b | .longCompare a b => Typed Γ a ∧ Typed Γ b
  | .un _ a | .cast _ a => Typed Γ a

/-- no comparison below the top (Model/Translate.lean `Arith`), comparisons allowed at the top -/
def Frag : Expr → Prop
  | .rel _ a b => Translate.Arith a ∧ Translate.Arith b
  | e => Translate.Arith e

theorem arithOf_ofBin (o) : arithOf (ofBin o) = some o := by cases o <;> rfl
theorem arithOf_ofRel (o) : arithOf (ofRel o) = none := by cases o <;> rfl
theorem relOf_ofRel (o) : relOf (ofRel o) = some o := by cases o <;> rfl
theorem tyOf_ofTy (t) : tyOf (ofTy t) = some t := by cases t <;> rfl

theorem evalJ_const (Γ ρ) (v : Int) (long : Bool) : evalJ Γ ρ (toJava (.const v long)) = evalLit v long := by
  by_cases hv : v < 0
  · have : -((v.natAbs : Nat) : Int) = v := by omega
    cases long <;> simp [toJava, constJava, hv, evalJ, negLit, this]
  · have : ((v.natAbs : Nat) : Int) = v := by omega
    cases long <;> simp [toJava, constJava, hv, evalJ, this]

theorem level_ofExpr_arith : ∀ e, Translate.Arith e → 13 ≤ level (ofExpr e)
  | .lit v long, _ => by simp only [ofExpr, level]; split <;> omega
  | .var _ _, _ | .bin _ _ _, _ | .cast _ _, _ | .longCompare _ _, _ => by simp [ofExpr, level]
  | .un o _, _ => by cases o <;> simp [ofExpr, level]
  | .rel _ _ _, h => by simp [Translate.Arith] at h

theorem wf_ofExpr_arith : ∀ e, Translate.Arith e → wf (ofExpr e) = true
  | .lit _ _, _ | .var _ _, _ => by simp [ofExpr, wf]
  | .bin o a b, h => by
    have ha := level_ofExpr_arith a h.1; have hb := level_ofExpr_arith b h.2; have := prec_le (ofBin o)
    simp [ofExpr, wf, wf_ofExpr_arith a h.1, wf_ofExpr_arith b h.2]; omega
  | .un o a, h => by
    have ha := level_ofExpr_arith a h
    cases o <;> simp [ofExpr, wf, wf_ofExpr_arith a h] <;> omega
  | .cast _ a, h => by
    have ha := level_ofExpr_arith a h
    simp [ofExpr, wf, wf_ofExpr_arith a h]; omega
  | .longCompare a b, h => by simp [ofExpr, wf, wf_ofExpr_arith a h.1, wf_ofExpr_arith b h.2]
  | .rel _ _ _, h => by simp [Translate.Arith] at h

/-- every expression of the fragment (comparison at the top or not) is well formed: `print_parse` applies to it -/
theorem wf_ofExpr : ∀ e, Frag e → WF (ofExpr e)
  | .rel o a b, h => by
    have ha := level_ofExpr_arith a h.1; have hb := level_ofExpr_arith b h.2; have := prec_le (ofRel o)
    simp [WF, ofExpr, wf, wf_ofExpr_arith a h.1, wf_ofExpr_arith b h.2]; omega
  | .lit v l, h => wf_ofExpr_arith (.lit v l) h
  | .var t n, h => wf_ofExpr_arith (.var t n) h
  | .bin o a b, h => wf_ofExpr_arith (.bin o a b) h
  | .un o a, h => wf_ofExpr_arith (.un o a) h
  | .cast t a, h => wf_ofExpr_arith (.cast t a) h
  | .longCompare a b, h => wf_ofExpr_arith (.longCompare a b) h

theorem evalLit_int_ok {v : Int} (h : -(2 : Int) ^ 31 ≤ v ∧ v < (2 : Int) ^ 31) :
    evalLit v false = .ok (.int (JavaSem.wrap 32 v)) := by
  unfold evalLit; rw [if_neg (by simp), if_pos h]

theorem evalLit_long_ok {v : Int} (h : -(2 : Int) ^ 63 ≤ v ∧ v < (2 : Int) ^ 63) :
    evalLit v true = .ok (.long (JavaSem.wrap 64 v)) := by
  unfold evalLit; rw [if_pos rfl, if_pos h]

theorem evalUn_neg_lit (n : Nat) (long : Bool) (h : LitsOK (.lit n long)) :
    (do evalUn .neg (← evalLit n long)) = evalLit (-(n : Int)) long := by
  cases long
  · simp only [LitsOK, Bool.false_eq_true, if_false] at h
    have h1 : -(2 : Int) ^ 31 ≤ -(n : Int) ∧ -(n : Int) < (2 : Int) ^ 31 := by omega
    rw [evalLit_int_ok h, evalLit_int_ok h1]
    simp [evalUn, JavaSem.promote, JavaSem.wrap, BitVec.ofInt_neg]
    rfl
  · simp only [LitsOK, if_true] at h
    have h1 : -(2 : Int) ^ 63 ≤ -(n : Int) ∧ -(n : Int) < (2 : Int) ^ 63 := by omega
    rw [evalLit_long_ok h, evalLit_long_ok h1]
    simp [evalUn, JavaSem.promote, JavaSem.wrap, BitVec.ofInt_neg]
    rfl

/-- the JLS semantics of the re-parsed tree is the semantics of the expression -/
theorem evalJ_toJava (Γ : String → Option (Ty × Nat)) (ρ : Env) :
    ∀ e : Expr, LitsOK e → Typed Γ e → evalJ Γ ρ (toJava (ofExpr e)) = eval ρ e
  | .lit v long, _, _ => by simpa [ofExpr, eval] using evalJ_const Γ ρ v long
  | .var t n, _, ht => by
    simp only [Typed] at ht
    simp only [ofExpr, toJava, evalJ, eval]
    rw [ht]
  | .bin o a b, hl, ht => by
    simp [ofExpr, toJava, evalJ, arithOf_ofBin, eval, evalJ_toJava Γ ρ a hl.1 ht.1, evalJ_toJava Γ ρ b hl.2 ht.2]
  | .rel o a b, hl, ht => by
    simp [ofExpr, toJava, evalJ, arithOf_ofRel, relOf_ofRel, eval, evalJ_toJava Γ ρ a hl.1 ht.1,
      evalJ_toJava Γ ρ b hl.2 ht.2]
  | .longCompare a b, hl, ht => by
    simp [ofExpr, toJava, evalJ, eval, evalJ_toJava Γ ρ a hl.1 ht.1, evalJ_toJava Γ ρ b hl.2 ht.2]
  | .cast t a, hl, ht => by
    simp [ofExpr, toJava, evalJ, tyOf_ofTy, eval, evalJ_toJava Γ ρ a hl ht]
  | .un .compl a, hl, ht => by
    simp [ofExpr, toJava, evalJ, eval, evalJ_toJava Γ ρ a hl ht]
  | .un .neg a, hl, ht => by
    have ih := evalJ_toJava Γ ρ a hl ht
    simp only [ofExpr, toJava, evalJ, eval]
    -- `- literal` is read as a negated literal (JLS 3.10.1); every other operand goes through unary minus
    cases hn : negLit (toJava (ofExpr a)) with
    | none => simp [ih]
    | some p =>
      obtain ⟨v, l⟩ := p
      -- the operand's tree is a bare literal: the operand is a non-negative constant
      match a, hl, ih, hn with
      | .lit w long, hl, ih, hn =>
        by_cases hw : w < 0
        · cases long <;> simp [ofExpr, toJava, constJava, hw, negLit] at hn
        · obtain ⟨k, rfl⟩ : ∃ k : Nat, w = k := ⟨w.natAbs, by omega⟩
          have := evalUn_neg_lit k long hl
          cases long <;> simp [ofExpr, toJava, constJava, negLit] at hn <;> obtain ⟨rfl, rfl⟩ := hn <;>
            simpa [eval] using this.symm
      | .var _ _, _, _, hn | .bin _ _ _, _, _, hn | .cast _ _, _, _, hn | .rel _ _ _, _, _, hn
      | .longCompare _ _, _, _, hn => simp [ofExpr, toJava, negLit] at hn
      | .un o _, _, _, hn => cases o <;> simp [ofExpr, toJava, negLit] at hn

/-- **text ↦ lexemes ↦ JLS parser ↦ tree ↦ value**: for every expression of the fragment, the lexemes the Writer
    prints re-parse to a tree whose JLS value (or exception, or compile error) is `JavaSem.eval` of the expression -/
theorem reparsed_value (Γ : String → Option (Ty × Nat)) (ρ : Env) (e : Expr) (hf : Frag e) (hl : LitsOK e)
    (ht : Typed Γ e) :
    ∃ T, parse (print (ofExpr e)) = some T ∧ evalJ Γ ρ T = eval ρ e :=
  ⟨toJava (ofExpr e), print_parse_wf _ (wf_ofExpr e hf), evalJ_toJava Γ ρ e hl ht⟩

end AgVerif.JExpr
