/-
C21: semantic link for print_parse on the arithmetic fragment.  For every expression `e` of Spec/JavaSem.lean's
fragment (what `translate_sound_partial` talks about): the IR expression `ofExpr e` is well formed, so the lexemes
the Writer prints for it re-parse (JLS parser) to `toJava (ofExpr e)`, and the JLS semantics ON THAT TREE (`evalJ`)
is the semantics `JavaSem.eval` the soundness theorems use.
-/
import AgVerif.Proof.JExprMain
import AgVerif.Model.JExprSem
import AgVerif.Proof.Translate
namespace AgVerif.JExpr
open AgVerif.JavaSem (Ty Val Err Env Expr evalLit evalVar evalBin evalUn evalRel evalLongCompare castTo eval)

/-- every literal of the expression is in the range of its type (IR constants are) -/
def LitsOK : Expr → Prop
  | .lit v long => if long then -(2 : Int) ^ 63 ≤ v ∧ v < (2 : Int) ^ 63 else -(2 : Int) ^ 31 ≤ v ∧ v < (2 : Int) ^ 31
  | .var _ _ => True
  | .bin _ a b | .rel _ a b | .longCompare a b => LitsOK a ∧ LitsOK b
  | .un _ a | .cast _ a => LitsOK a

/-- `Γ` declares every variable of the expression with the type the expression reads it with -/
def Typed (Γ : String → Option (Ty × Nat)) : Expr → Prop
  | .lit _ _ => True
  | .var t n => Γ ("v" ++ toString n) = some (t, n)
  | .bin _ a b | .rel _ a b | .longCompare a b => Typed Γ a ∧ Typed Γ b
  | .un _ a | .cast _ a => Typed Γ a

/-- no comparison below the top (Model/Translate.lean `Arith`), comparisons allowed at the top -/
def Frag : Expr → Prop
  | .rel _ a b => Translate.Arith a ∧ Translate.Arith b
  | e => Translate.Arith e

theorem arithOf_ofBin (o) : arithOf (ofBin o) = some o := by cases o <;> rfl
theorem arithOf_ofRel (o) : arithOf (ofRel o) = none := by cases o <;> rfl
theorem relOf_ofRel (o) : relOf (ofRel o) = some o := by cases o <;> rfl
theorem tyOf_ofTy (t) : tyOf (ofTy t) = some t := by cases t <;> rfl

theorem evalJ_const (Γ ρ) (v : Int) (long : Bool) : evalJ Γ ρ (toJava (.const v long)) = evalLit v long := by
  by_cases hv : v < 0
  · have : -((v.natAbs : Nat) : Int) = v := by omega
    cases long <;> simp [toJava, constJava, hv, evalJ, negLit, this]
  · have : ((v.natAbs : Nat) : Int) = v := by omega
    cases long <;> simp [toJava, constJava, hv, evalJ, this]

theorem level_ofExpr_arith : ∀ e, Translate.Arith e → 13 ≤ level (ofExpr e)
  | .lit v long, _ => by simp only [ofExpr, level]; split <;> omega
  | .var _ _, _ | .bin _ _ _, _ | .cast _ _, _ | .longCompare _ _, _ => by simp [ofExpr, level]
  | .un o _, _ => by cases o <;> simp [ofExpr, level]
  | .rel _ _ _, h => by simp [Translate.Arith] at h

theorem wf_ofExpr_arith : ∀ e, Translate.Arith e → wf (ofExpr e) = true
  | .lit _ _, _ | .var _ _, _ => by simp [ofExpr, wf]
  | .bin o a b, h => by
    have ha := level_ofExpr_arith a h.1; have hb := level_ofExpr_arith b h.2; have := prec_le (ofBin o)
    simp [ofExpr, wf, wf_ofExpr_arith a h.1, wf_ofExpr_arith b h.2]; omega
  | .un o a, h => by
    have ha := level_ofExpr_arith a h
    cases o <;> simp [ofExpr, wf, wf_ofExpr_arith a h] <;> omega
  | .cast _ a, h => by
    have ha := level_ofExpr_arith a h
    simp [ofExpr, wf, wf_ofExpr_arith a h]; omega
  | .longCompare a b, h => by simp [ofExpr, wf, wf_ofExpr_arith a h.1, wf_ofExpr_arith b h.2]
  | .rel _ _ _, h => by simp [Translate.Arith] at h

/-- every expression of the fragment (comparison at the top or not) is well formed: `print_parse` applies to it -/
theorem wf_ofExpr : ∀ e, Frag e → WF (ofExpr e)
  | .rel o a b, h => by
    have ha := level_ofExpr_arith a h.1; have hb := level_ofExpr_arith b h.2; have := prec_le (ofRel o)
    simp [WF, ofExpr, wf, wf_ofExpr_arith a h.1, wf_ofExpr_arith b h.2]; omega
  | .lit v l, h => wf_ofExpr_arith (.lit v l) h
  | .var t n, h => wf_ofExpr_arith (.var t n) h
  | .bin o a b, h => wf_ofExpr_arith (.bin o a b) h
  | .un o a, h => wf_ofExpr_arith (.un o a) h
  | .cast t a, h => wf_ofExpr_arith (.cast t a) h
  | .longCompare a b, h => wf_ofExpr_arith (.longCompare a b) h

theorem evalLit_int_ok {v : Int} (h : -(2 : Int) ^ 31 ≤ v ∧ v < (2 : Int) ^ 31) :
    evalLit v false = .ok (.int (JavaSem.wrap 32 v)) := by
  unfold evalLit; rw [if_neg (by simp), if_pos h]

theorem evalLit_long_ok {v : Int} (h : -(2 : Int) ^ 63 ≤ v ∧ v < (2 : Int) ^ 63) :
    evalLit v true = .ok (.long (JavaSem.wrap 64 v)) := by
  unfold evalLit; rw [if_pos rfl, if_pos h]

theorem evalUn_neg_lit (n : Nat) (long : Bool) (h : LitsOK (.lit n long)) :
    (do evalUn .neg (← evalLit n long)) = evalLit (-(n : Int)) long := by
  cases long
  · simp only [LitsOK, Bool.false_eq_true, if_false] at h
    have h1 : -(2 : Int) ^ 31 ≤ -(n : Int) ∧ -(n : Int) < (2 : Int) ^ 31 := by omega
    rw [evalLit_int_ok h, evalLit_int_ok h1]
    simp [evalUn, JavaSem.promote, JavaSem.wrap, BitVec.ofInt_neg]
    rfl
  · simp only [LitsOK, if_true] at h
    have h1 : -(2 : Int) ^ 63 ≤ -(n : Int) ∧ -(n : Int) < (2 : Int) ^ 63 := by omega
    rw [evalLit_long_ok h, evalLit_long_ok h1]
    simp [evalUn, JavaSem.promote, JavaSem.wrap, BitVec.ofInt_neg]
    rfl

/-- the JLS semantics of the re-parsed tree is the semantics of the expression -/
theorem evalJ_toJava (Γ : String → Option (Ty × Nat)) (ρ : Env) :
    ∀ e : Expr, LitsOK e → Typed Γ e → evalJ Γ ρ (toJava (ofExpr e)) = eval ρ e
  | .lit v long, _, _ => by simpa [ofExpr, eval] using evalJ_const Γ ρ v long
  | .var t n, _, ht => by
    simp only [Typed] at ht
    simp only [ofExpr, toJava, evalJ, eval]
    rw [ht]
  | .bin o a b, hl, ht => by
    simp [ofExpr, toJava, evalJ, arithOf_ofBin, eval, evalJ_toJava Γ ρ a hl.1 ht.1, evalJ_toJava Γ ρ b hl.2 ht.2]
  | .rel o a b, hl, ht => by
    simp [ofExpr, toJava, evalJ, arithOf_ofRel, relOf_ofRel, eval, evalJ_toJava Γ ρ a hl.1 ht.1,
      evalJ_toJava Γ ρ b hl.2 ht.2]
  | .longCompare a b, hl, ht => by
    simp [ofExpr, toJava, evalJ, eval, evalJ_toJava Γ ρ a hl.1 ht.1, evalJ_toJava Γ ρ b hl.2 ht.2]
  | .cast t a, hl, ht => by
    simp [ofExpr, toJava, evalJ, tyOf_ofTy, eval, evalJ_toJava Γ ρ a hl ht]
  | .un .compl a, hl, ht => by
    simp [ofExpr, toJava, evalJ, eval, evalJ_toJava Γ ρ a hl ht]
  | .un .neg a, hl, ht => by
    have ih := evalJ_toJava Γ ρ a hl ht
    simp only [ofExpr, toJava, evalJ, eval]
    -- `- literal` is read as a negated literal (JLS 3.10.1); every other operand goes through unary minus
    cases hn : negLit (toJava (ofExpr a)) with
    | none => simp [ih]
    | some p =>
      obtain ⟨v, l⟩ := p
      -- the operand's tree is a bare literal: the operand is a non-negative constant
      match a, hl, ih, hn with
      | .lit w long, hl, ih, hn =>
        by_cases hw : w < 0
        · cases long <;> simp [ofExpr, toJava, constJava, hw, negLit] at hn
        · obtain ⟨k, rfl⟩ : ∃ k : Nat, w = k := ⟨w.natAbs, by omega⟩
          have := evalUn_neg_lit k long hl
          cases long <;> simp [ofExpr, toJava, constJava, negLit] at hn <;> obtain ⟨rfl, rfl⟩ := hn <;>
            simpa [eval] using this.symm
      | .var _ _, _, _, hn | .bin _ _ _, _, _, hn | .cast _ _, _, _, hn | .rel _ _ _, _, _, hn
      | .longCompare _ _, _, _, hn => simp [ofExpr, toJava, negLit] at hn
      | .un o _, _, _, hn => cases o <;> simp [ofExpr, toJava, negLit] at hn

/-- **text ↦ lexemes ↦ JLS parser ↦ tree ↦ value**: for every expression of the fragment, the lexemes the Writer
    prints re-parse to a tree whose JLS value (or exception, or compile error) is `JavaSem.eval` of the expression -/
theorem reparsed_value (Γ : String → Option (Ty × Nat)) (ρ : Env) (e : Expr) (hf : Frag e) (hl : LitsOK e)
    (ht : Typed Γ e) :
    ∃ T, parse (print (ofExpr e)) = some T ∧ evalJ Γ ρ T = eval ρ e :=
  ⟨toJava (ofExpr e), print_parse_wf _ (wf_ofExpr e hf), evalJ_toJava Γ ρ e hl ht⟩

/-! ## the rows of the translation table -/

open AgVerif.Translate (Core Opd exprOf opdExpr regTy jenv javaOutcome regVal)
open AgVerif.DalvikSem (Form)

/-- `Γ` declares the variable of every register with the type an instruction of form `fm` reads it with
    (the standing assumption of the per-instruction theorem) -/
def DeclaresRegs (Γ : String → Option (Ty × Nat)) (fm : Form) : Prop :=
  ∀ n : Nat, n < 4 → Γ ("v" ++ toString n) = some (regTy fm n, n)

/-- the register operands of a row are among v0 … v3 (the rows are reflected on an instruction with fields 1, 2, 3) -/
def opdBound : Opd → Bool
  | .r n => decide (n < 4)
  | .lit _ _ => true

def coreBound : Core → Bool
  | .bin _ a b | .lcmp a b | .cond _ a b => opdBound a && opdBound b
  | .un _ a | .cast _ a | .const a | .condz _ a => opdBound a

/-- a declaration of v0 … v3 for a form (shows `DeclaresRegs` is satisfiable) -/
def declFor (fm : Form) : String → Option (Ty × Nat) := fun s =>
  if s = "v" ++ toString 0 then some (regTy fm 0, 0) else if s = "v" ++ toString 1 then some (regTy fm 1, 1)
  else if s = "v" ++ toString 2 then some (regTy fm 2, 2) else if s = "v" ++ toString 3 then some (regTy fm 3, 3)
  else none

theorem declFor_declares (fm : Form) : DeclaresRegs (declFor fm) fm := by
  intro n hn
  match n, hn with
  | 0, _ => simp [declFor]
  | 1, _ => unfold declFor; rw [if_neg (by decide), if_pos rfl]
  | 2, _ => unfold declFor; rw [if_neg (by decide), if_neg (by decide), if_pos rfl]
  | 3, _ => unfold declFor; rw [if_neg (by decide), if_neg (by decide), if_neg (by decide), if_pos rfl]

/-- how `javaOutcome` reads the result of evaluating the expression of a row -/
def classify (c : Core) (res : Except Err Val) : Option DalvikSem.Outcome :=
  match res with
  | .error .compile => none
  | .error .arith => (match c with
      | .cond .. | .condz .. => none
      | _ => some (.value (.error .arith)))
  | .ok v => (match c with
      | .cond .. | .condz .. => (match v with | .bool b => some (.branch b) | _ => none)
      | _ => (regVal v).map fun x => .value (.ok x))

theorem javaOutcome_eq (fm c ρ lit) : javaOutcome fm c ρ lit = classify c (eval (jenv ρ) (exprOf fm lit c)) := by
  unfold javaOutcome classify; rfl

theorem arith_opd (fm lit a) : Translate.Arith (opdExpr fm lit a) := by
  cases a <;> simp [opdExpr, Translate.Arith]

theorem frag_exprOf (fm lit c) : Frag (exprOf fm lit c) := by
  cases c with
  | const a => cases a <;> simp [exprOf, opdExpr, Frag, Translate.Arith]
  | _ => simp [exprOf, Frag, Translate.Arith, arith_opd]

theorem typed_opd {Γ fm} (h : DeclaresRegs Γ fm) (lit a) (hb : opdBound a = true) : Typed Γ (opdExpr fm lit a) := by
  cases a with
  | r n => exact h n (by simpa [opdBound] using hb)
  | lit _ _ => trivial

theorem typed_exprOf {Γ fm} (h : DeclaresRegs Γ fm) (lit c) (hb : coreBound c = true) : Typed Γ (exprOf fm lit c) := by
  cases c <;> simp [coreBound] at hb <;> simp [exprOf, Typed, typed_opd h, hb]

/-- an operand is a variable or a literal: it evaluates, or the literal is out of range (a compile error) -/
theorem opd_dichotomy (ρ : Env) (fm lit a) :
    (LitsOK (opdExpr fm lit a) ∧ ∃ v, eval ρ (opdExpr fm lit a) = .ok v) ∨
      eval ρ (opdExpr fm lit a) = .error .compile := by
  cases a with
  | r n =>
    left
    refine ⟨trivial, ?_⟩
    simp only [opdExpr, eval, evalVar]
    cases regTy fm n <;> exact ⟨_, rfl⟩
  | lit neg long =>
    simp only [opdExpr, eval, LitsOK, evalLit]
    cases long
    · by_cases h : -(2 : Int) ^ 31 ≤ (if neg then -lit else lit) ∧ (if neg then -lit else lit) < (2 : Int) ^ 31
      · left; exact ⟨by simpa using h, _, by rw [if_neg (by simp), if_pos h]⟩
      · right; rw [if_neg (by simp), if_neg h]
    · by_cases h : -(2 : Int) ^ 63 ≤ (if neg then -lit else lit) ∧ (if neg then -lit else lit) < (2 : Int) ^ 63
      · left; exact ⟨by simpa using h, _, by rw [if_pos rfl, if_pos h]⟩
      · right; rw [if_pos rfl, if_neg h]

theorem lits_exprOf (ρ : Env) (fm lit c) (h : eval ρ (exprOf fm lit c) ≠ .error .compile) :
    LitsOK (exprOf fm lit c) := by
  cases c with
  | const a =>
    rcases opd_dichotomy ρ fm lit a with ⟨hl, _⟩ | he
    · simpa [exprOf] using hl
    · exact absurd (by simpa [exprOf] using he) h
  | un o a | cast o a =>
    rcases opd_dichotomy ρ fm lit a with ⟨hl, _⟩ | he
    · simpa [exprOf, LitsOK] using hl
    · exact absurd (by simp [exprOf, eval, he, bind, Except.bind]) h
  | condz o a =>
    rcases opd_dichotomy ρ fm lit a with ⟨hl, _⟩ | he
    · simp [exprOf, LitsOK, hl]
    · exact absurd (by simp [exprOf, eval, he, bind, Except.bind]) h
  | bin o a b | lcmp a b | cond o a b =>
    rcases opd_dichotomy ρ fm lit a with ⟨hla, va, hva⟩ | he
    · rcases opd_dichotomy ρ fm lit b with ⟨hlb, _⟩ | he
      · simp [exprOf, LitsOK, hla, hlb]
      · exact absurd (by simp [exprOf, eval, hva, he, bind, Except.bind]) h
    · exact absurd (by simp [exprOf, eval, he, bind, Except.bind]) h

/-- a row whose Java text has an outcome: the printed lexemes re-parse to a tree whose JLS value, read the way
    `javaOutcome` reads it, is that outcome -/
theorem row_reparsed (fm : Form) (c : Core) (ρ : DalvikSem.Env) (lit : Int) (Γ : String → Option (Ty × Nat))
    (hd : DeclaresRegs Γ fm) (hb : coreBound c = true) (out : DalvikSem.Outcome)
    (h : javaOutcome fm c ρ lit = some out) :
    ∃ T, parse (print (ofExpr (exprOf fm lit c))) = some T ∧ classify c (evalJ Γ (jenv ρ) T) = some out := by
  have hne : eval (jenv ρ) (exprOf fm lit c) ≠ .error .compile := by
    intro he
    rw [javaOutcome_eq, he] at h
    simp [classify] at h
  obtain ⟨T, hp, hv⟩ := reparsed_value Γ (jenv ρ) _ (frag_exprOf fm lit c) (lits_exprOf _ fm lit c hne)
    (typed_exprOf hd lit c hb)
  exact ⟨T, hp, by rw [hv, ← javaOutcome_eq]; exact h⟩

end AgVerif.JExpr
