import AgVerif.Model.Leb
import AgVerif.Spec.Leb
import AgVerif.Proof.Bits
namespace AgVerif.Leb
open AgVerif.Bits AgVerif.Spec.Leb

theorem m7 (x : Nat) : x % 128 < 2 ^ 7 := by omega

theorem readUleb_1 (b0 : Nat) (rest : List Nat) (h : b0 < 128) :
    readUleb (b0 :: rest) = some (payload [b0], 1) := by
  have : ¬ b0 > 0x7F := by omega
  simp only [readUleb, payload, this, if_false]
  congr 2; omega

theorem readUleb_2 (b0 b1 : Nat) (rest : List Nat) (h0 : 128 ≤ b0) (h1 : b1 < 128) :
    readUleb (b0 :: b1 :: rest) = some (payload [b0, b1], 2) := by
  have e0 : b0 > 0x7F := by omega
  have e1 : ¬ b1 > 0x7F := by omega
  simp only [readUleb, payload, e0, e1, if_true, if_false, and_7F]
  rw [or_shl _ _ 7 (by omega)]
  congr 2; omega

theorem readUleb_3 (b0 b1 b2 : Nat) (rest : List Nat) (h0 : 128 ≤ b0) (h1 : 128 ≤ b1)
    (h2 : b2 < 128) :
    readUleb (b0 :: b1 :: b2 :: rest) = some (payload [b0, b1, b2], 3) := by
  have e0 : b0 > 0x7F := by omega
  have e1 : b1 > 0x7F := by omega
  have e2 : ¬ b2 > 0x7F := by omega
  simp only [readUleb, payload, e0, e1, e2, if_true, if_false, and_7F]
  rw [or_shl _ _ 7 (by omega), or_shl _ _ 14 (by omega)]
  congr 2; omega

theorem readUleb_4 (b0 b1 b2 b3 : Nat) (rest : List Nat) (h0 : 128 ≤ b0) (h1 : 128 ≤ b1)
    (h2 : 128 ≤ b2) (h3 : b3 < 128) :
    readUleb (b0 :: b1 :: b2 :: b3 :: rest) = some (payload [b0, b1, b2, b3], 4) := by
  have e0 : b0 > 0x7F := by omega
  have e1 : b1 > 0x7F := by omega
  have e2 : b2 > 0x7F := by omega
  have e3 : ¬ b3 > 0x7F := by omega
  simp only [readUleb, payload, e0, e1, e2, e3, if_true, if_false, and_7F]
  rw [or_shl _ _ 7 (by omega), or_shl _ _ 14 (by omega), or_shl _ _ 21 (by omega)]
  congr 2; omega

/-- five bytes: the code returns payload of the first four digits plus the *whole*
    fifth byte shifted by 28 (no mask) -/
theorem readUleb_5_raw (b0 b1 b2 b3 b4 : Nat) (rest : List Nat) (h0 : 128 ≤ b0) (h1 : 128 ≤ b1)
    (h2 : 128 ≤ b2) (h3 : 128 ≤ b3) :
    readUleb (b0 :: b1 :: b2 :: b3 :: b4 :: rest)
      = some (payload [b0, b1, b2, b3] + b4 * 2 ^ 28, 5) := by
  have e0 : b0 > 0x7F := by omega
  have e1 : b1 > 0x7F := by omega
  have e2 : b2 > 0x7F := by omega
  have e3 : b3 > 0x7F := by omega
  simp only [readUleb, payload, e0, e1, e2, e3, if_true, and_7F]
  rw [or_shl _ _ 7 (by omega), or_shl _ _ 14 (by omega), or_shl _ _ 21 (by omega),
      or_shl _ _ 28 (by omega)]
  congr 2; omega

theorem payload_5 (b0 b1 b2 b3 b4 : Nat) (h4 : b4 < 128) :
    payload [b0, b1, b2, b3, b4] = payload [b0, b1, b2, b3] + b4 * 2 ^ 28 := by
  simp only [payload]; omega

/-! ### signed -/

theorem and_comm_mask31 (r : Nat) : 0x7FFFFFFF &&& r = r % 2 ^ 31 := by
  rw [Nat.and_comm]; exact and_mask r 31

theorem slebFix_7 (p : Nat) (h : p < 2 ^ 7) : slebFix p 7 = signExtend 7 p := by
  unfold slebFix signExtend
  simp only [and_comm_mask31, shl]
  split <;> split <;> simp <;> omega
theorem slebFix_14 (p : Nat) (h : p < 2 ^ 14) : slebFix p 14 = signExtend 14 p := by
  unfold slebFix signExtend
  simp only [and_comm_mask31, shl]
  split <;> split <;> simp <;> omega
theorem slebFix_21 (p : Nat) (h : p < 2 ^ 21) : slebFix p 21 = signExtend 21 p := by
  unfold slebFix signExtend
  simp only [and_comm_mask31, shl]
  split <;> split <;> simp <;> omega
theorem slebFix_28 (p : Nat) (h : p < 2 ^ 28) : slebFix p 28 = signExtend 28 p := by
  unfold slebFix signExtend
  simp only [and_comm_mask31, shl]
  split <;> split <;> simp <;> omega
/-- five bytes, inside the 32-bit domain -/
theorem slebFix_35 (p : Nat) (h : p < 2 ^ 35) (hd : p < 2 ^ 32 ∨ 2 ^ 35 - 2 ^ 31 ≤ p) :
    slebFix p 35 = signExtend 32 p := by
  unfold slebFix signExtend
  simp only [and_comm_mask31, shl]
  split <;> split <;> simp <;> omega
/-- five bytes, any payload: what the code returns (low 31 bits minus 2^31 when above INT_MAX) -/
theorem slebFix_35_raw (p : Nat) :
    slebFix p 35 = if p > 0x7FFFFFFF then ((p % 2 ^ 31 : Nat) : Int) - 2 ^ 31 else (p : Int) := by
  unfold slebFix
  simp only [and_comm_mask31, shl]
  split <;> simp <;> omega

theorem and80_zero {x : Nat} (h : x < 128) : x &&& 0x80 = 0 :=
  (and_80_eq_zero x (by omega)).2 h
theorem and80_nz {x : Nat} (h : 128 ≤ x) (h' : x < 256) : ¬ (x &&& 0x80 = 0) := by
  rw [and_80_eq_zero x h']; omega

theorem readSleb_1 (b0 : Nat) (rest : List Nat) (h : b0 < 128) :
    readSleb (b0 :: rest) = some (signExtend 7 (payload [b0]), 1) := by
  simp only [readSleb, readSlebLoop, and80_zero h, if_true, and_7F, payload, shl]
  rw [← slebFix_7 _ (by omega)]
  congr 3; simp

theorem readSleb_2 (b0 b1 : Nat) (rest : List Nat) (h0 : 128 ≤ b0) (h0' : b0 < 256) (h1 : b1 < 128) :
    readSleb (b0 :: b1 :: rest) = some (signExtend 14 (payload [b0, b1]), 2) := by
  simp only [readSleb, readSlebLoop, and80_zero h1, and80_nz h0 h0', if_true, if_false, and_7F, payload]
  rw [← slebFix_14 _ (by omega)]
  congr 3
  simp only [Nat.shiftLeft_zero, Nat.zero_or]
  rw [or_shl _ _ 7 (by omega)]; omega

theorem readSleb_3 (b0 b1 b2 : Nat) (rest : List Nat) (h0 : 128 ≤ b0) (h0' : b0 < 256)
    (h1 : 128 ≤ b1) (h1' : b1 < 256) (h2 : b2 < 128) :
    readSleb (b0 :: b1 :: b2 :: rest) = some (signExtend 21 (payload [b0, b1, b2]), 3) := by
  simp only [readSleb, readSlebLoop, and80_zero h2, and80_nz h0 h0', and80_nz h1 h1', if_true,
    if_false, and_7F, payload]
  rw [← slebFix_21 _ (by omega)]
  congr 3
  simp only [Nat.shiftLeft_zero, Nat.zero_or]
  rw [or_shl _ _ 7 (by omega), or_shl _ _ 14 (by omega)]; omega

theorem readSleb_4 (b0 b1 b2 b3 : Nat) (rest : List Nat) (h0 : 128 ≤ b0) (h0' : b0 < 256)
    (h1 : 128 ≤ b1) (h1' : b1 < 256) (h2 : 128 ≤ b2) (h2' : b2 < 256) (h3 : b3 < 128) :
    readSleb (b0 :: b1 :: b2 :: b3 :: rest) = some (signExtend 28 (payload [b0, b1, b2, b3]), 4) := by
  simp only [readSleb, readSlebLoop, and80_zero h3, and80_nz h0 h0', and80_nz h1 h1',
    and80_nz h2 h2', if_true, if_false, and_7F, payload]
  rw [← slebFix_28 _ (by omega)]
  congr 3
  simp only [Nat.shiftLeft_zero, Nat.zero_or]
  rw [or_shl _ _ 7 (by omega), or_shl _ _ 14 (by omega), or_shl _ _ 21 (by omega)]; omega

theorem readSleb_5 (b0 b1 b2 b3 b4 : Nat) (rest : List Nat) (h0 : 128 ≤ b0) (h0' : b0 < 256)
    (h1 : 128 ≤ b1) (h1' : b1 < 256) (h2 : 128 ≤ b2) (h2' : b2 < 256) (h3 : 128 ≤ b3)
    (h3' : b3 < 256) (h4 : b4 < 128) :
    readSleb (b0 :: b1 :: b2 :: b3 :: b4 :: rest)
      = some (slebFix (payload [b0, b1, b2, b3, b4]) 35, 5) := by
  simp only [readSleb, readSlebLoop, and80_zero h4, and80_nz h0 h0', and80_nz h1 h1',
    and80_nz h2 h2', and80_nz h3 h3', if_true, if_false, and_7F, payload]
  congr 3
  simp only [Nat.shiftLeft_zero, Nat.zero_or]
  rw [or_shl _ _ 7 (by omega), or_shl _ _ 14 (by omega), or_shl _ _ 21 (by omega),
    or_shl _ _ 28 (by omega)]; omega

/-- five continuation bytes: the loop falls through and returns the raw 35-bit number -/
theorem readSleb_5cont (b0 b1 b2 b3 b4 : Nat) (rest : List Nat) (h0 : 128 ≤ b0) (h0' : b0 < 256)
    (h1 : 128 ≤ b1) (h1' : b1 < 256) (h2 : 128 ≤ b2) (h2' : b2 < 256) (h3 : 128 ≤ b3)
    (h3' : b3 < 256) (h4 : 128 ≤ b4) (h4' : b4 < 256) :
    readSleb (b0 :: b1 :: b2 :: b3 :: b4 :: rest)
      = some (((payload [b0, b1, b2, b3, b4] : Nat) : Int), 5) := by
  simp only [readSleb, readSlebLoop, and80_nz h4 h4', and80_nz h0 h0', and80_nz h1 h1',
    and80_nz h2 h2', and80_nz h3 h3', if_false, and_7F, payload]
  congr 3
  simp only [Nat.shiftLeft_zero, Nat.zero_or]
  rw [or_shl _ _ 7 (by omega), or_shl _ _ 14 (by omega), or_shl _ _ 21 (by omega),
    or_shl _ _ 28 (by omega)]; omega

/-! ### writers -/

theorem writeUlebNat_small (v : Nat) (h : v < 128) : writeUlebNat v = [v] := by
  unfold writeUlebNat
  have : ¬ v >>> 7 > 0 := by simp only [shr]; omega
  simp only [this, dite_false, and_7F]; congr 1; omega

theorem or_80 (x : Nat) (h : x < 128) : x ||| 0x80 = x + 128 := by
  have := or_shl x 1 7 (by omega)
  simpa using this

theorem writeUlebNat_big (v : Nat) (h : 128 ≤ v) :
    writeUlebNat v = (v % 128 + 128) :: writeUlebNat (v / 128) := by
  rw [writeUlebNat]
  have : v >>> 7 > 0 := by simp only [shr]; omega
  rw [dif_pos this]
  simp only [and_7F, shr, or_80 _ (Nat.mod_lt v (by omega : 128 > 0))]

theorem uleb_roundtrip_aux (v : Nat) (rest : List Nat) (hv : v < 2 ^ 32) :
    readUleb (writeUlebNat v ++ rest) = some (v, (writeUlebNat v).length)
    ∧ (writeUlebNat v).length ≤ 5 ∧ IsItem (writeUlebNat v) ∧ payload (writeUlebNat v) = v := by
  by_cases c1 : v < 128
  · rw [writeUlebNat_small v c1]
    refine ⟨?_, by simp, by simp [IsItem]; omega, by simp [payload]; omega⟩
    rw [List.singleton_append, readUleb_1 _ _ c1]; simp [payload]; omega
  · rw [writeUlebNat_big v (by omega)]
    by_cases c2 : v / 128 < 128
    · rw [writeUlebNat_small _ c2]
      refine ⟨?_, by simp, by simp [IsItem]; omega, by simp [payload]; omega⟩
      simp only [List.cons_append, List.nil_append]
      rw [readUleb_2 _ _ _ (by omega) c2]; simp [payload]; omega
    · rw [writeUlebNat_big _ (by omega)]
      by_cases c3 : v / 128 / 128 < 128
      · rw [writeUlebNat_small _ c3]
        refine ⟨?_, by simp, by simp [IsItem]; omega, by simp [payload]; omega⟩
        simp only [List.cons_append, List.nil_append]
        rw [readUleb_3 _ _ _ _ (by omega) (by omega) c3]; simp [payload]; omega
      · rw [writeUlebNat_big _ (by omega)]
        by_cases c4 : v / 128 / 128 / 128 < 128
        · rw [writeUlebNat_small _ c4]
          refine ⟨?_, by simp, by simp [IsItem]; omega, by simp [payload]; omega⟩
          simp only [List.cons_append, List.nil_append]
          rw [readUleb_4 _ _ _ _ _ (by omega) (by omega) (by omega) c4]; simp [payload]; omega
        · rw [writeUlebNat_big _ (by omega)]
          have c5 : v / 128 / 128 / 128 / 128 < 128 := by omega
          rw [writeUlebNat_small _ c5]
          refine ⟨?_, by simp, by simp [IsItem]; omega, by simp [payload]; omega⟩
          simp only [List.cons_append, List.nil_append]
          rw [readUleb_5_raw _ _ _ _ _ _ (by omega) (by omega) (by omega) (by omega)]
          simp [payload]; omega

/-! ### signed writer -/

theorem wsl_more (fuel : Nat) (value remaining e : Int)
    (h : remaining ≠ e ∨ remaining % 2 ≠ (value / 64) % 2) :
    writeSlebLoop (fuel + 1) value remaining e =
      match writeSlebLoop fuel remaining (remaining / 128) e with
      | none => none
      | some l => some (((value % 128).toNat + 128) :: l) := by
  have hm : ((remaining != e) || (remaining % 2 != (value / 64) % 2)) = true := by
    rcases h with h | h <;> simp [h]
  simp only [writeSlebLoop, hm, if_true]
  have : (value % 128).toNat ||| 0x80 = (value % 128).toNat + 128 := or_80 _ (by omega)
  rw [this]; rfl

theorem wsl_stop (fuel : Nat) (value remaining e : Int)
    (h1 : remaining = e) (h2 : remaining % 2 = (value / 64) % 2) :
    writeSlebLoop (fuel + 1) value remaining e = some [(value % 128).toNat] := by
  subst h1
  have hm : ((remaining != remaining) || (remaining % 2 != (value / 64) % 2)) = false := by
    simp [h2]
  simp only [writeSlebLoop, hm]
  simp

theorem se7 (p : Nat) (v : Int) (h1 : -2 ^ 6 ≤ v) (h2 : v < 2 ^ 6)
    (hp : (p : Int) % 2 ^ 7 = v % 2 ^ 7) : signExtend 7 p = v := by
  unfold signExtend
  split <;> omega
theorem se14 (p : Nat) (v : Int) (h1 : -2 ^ 13 ≤ v) (h2 : v < 2 ^ 13)
    (hp : (p : Int) % 2 ^ 14 = v % 2 ^ 14) : signExtend 14 p = v := by
  unfold signExtend
  split <;> omega
theorem se21 (p : Nat) (v : Int) (h1 : -2 ^ 20 ≤ v) (h2 : v < 2 ^ 20)
    (hp : (p : Int) % 2 ^ 21 = v % 2 ^ 21) : signExtend 21 p = v := by
  unfold signExtend
  split <;> omega
theorem se28 (p : Nat) (v : Int) (h1 : -2 ^ 27 ≤ v) (h2 : v < 2 ^ 27)
    (hp : (p : Int) % 2 ^ 28 = v % 2 ^ 28) : signExtend 28 p = v := by
  unfold signExtend
  split <;> omega
theorem se32 (p : Nat) (v : Int) (h1 : -2 ^ 31 ≤ v) (h2 : v < 2 ^ 31)
    (hp : (p : Int) % 2 ^ 32 = v % 2 ^ 32) : signExtend 32 p = v := by
  unfold signExtend
  split <;> omega

set_option maxHeartbeats 2000000 in
theorem sleb_roundtrip_aux (v : Int) (rest : List Nat) (hlo : -2 ^ 31 ≤ v) (hhi : v < 2 ^ 31) :
    ∃ bs, writeSleb v = some bs ∧ bs.length ≤ 5 ∧ readSleb (bs ++ rest) = some (v, bs.length) := by
  unfold writeSleb
  by_cases hs : 0 ≤ v
  · have he : (if 0 ≤ v ∧ v < 2 ^ 63 then (0:Int) else -1) = 0 := by
      rw [if_pos]; omega
    simp only [he]
    by_cases c1 : v < 64
    · rw [wsl_stop _ _ _ _ (by omega) (by omega)]
      refine ⟨_, rfl, by simp, ?_⟩
      simp only [List.cons_append, List.nil_append]
      rw [readSleb_1 _ _ (by omega)]
      simp only [Option.some.injEq, Prod.mk.injEq]
      refine ⟨se7 _ _ (by omega) (by omega) (by simp only [payload]; omega), by simp⟩
    · skip
      by_cases c2 : v < 2^13
      · rw [wsl_more _ _ _ _ (by omega)]
        rw [wsl_stop _ _ _ _ (by omega) (by omega)]
        refine ⟨_, rfl, by simp, ?_⟩
        simp only [List.cons_append, List.nil_append]
        rw [readSleb_2 _ _ _ (by omega) (by omega) (by omega)]
        simp only [Option.some.injEq, Prod.mk.injEq]
        refine ⟨se14 _ _ (by omega) (by omega) (by simp only [payload]; omega), by simp⟩
      · skip
        by_cases c3 : v < 2^20
        · rw [wsl_more _ _ _ _ (by omega)]
          rw [wsl_more _ _ _ _ (by omega)]
          rw [wsl_stop _ _ _ _ (by omega) (by omega)]
          refine ⟨_, rfl, by simp, ?_⟩
          simp only [List.cons_append, List.nil_append]
          rw [readSleb_3 _ _ _ _ (by omega) (by omega) (by omega) (by omega) (by omega)]
          simp only [Option.some.injEq, Prod.mk.injEq]
          refine ⟨se21 _ _ (by omega) (by omega) (by simp only [payload]; omega), by simp⟩
        · skip
          by_cases c4 : v < 2^27
          · rw [wsl_more _ _ _ _ (by omega)]
            rw [wsl_more _ _ _ _ (by omega)]
            rw [wsl_more _ _ _ _ (by omega)]
            rw [wsl_stop _ _ _ _ (by omega) (by omega)]
            refine ⟨_, rfl, by simp, ?_⟩
            simp only [List.cons_append, List.nil_append]
            rw [readSleb_4 _ _ _ _ _ (by omega) (by omega) (by omega) (by omega) (by omega) (by omega) (by omega)]
            simp only [Option.some.injEq, Prod.mk.injEq]
            refine ⟨se28 _ _ (by omega) (by omega) (by simp only [payload]; omega), by simp⟩
          · rw [wsl_more _ _ _ _ (by omega)]
            rw [wsl_more _ _ _ _ (by omega)]
            rw [wsl_more _ _ _ _ (by omega)]
            rw [wsl_more _ _ _ _ (by omega)]
            rw [wsl_stop _ _ _ _ (by omega) (by omega)]
            refine ⟨_, rfl, by simp, ?_⟩
            simp only [List.cons_append, List.nil_append]
            rw [readSleb_5 _ _ _ _ _ _ (by omega) (by omega) (by omega) (by omega) (by omega) (by omega) (by omega) (by omega) (by omega)]
            rw [slebFix_35 _ (by simp only [payload]; omega) (by simp only [payload]; omega)]
            simp only [Option.some.injEq, Prod.mk.injEq]
            refine ⟨se32 _ _ (by omega) (by omega) (by simp only [payload]; omega), by simp⟩
  · have he : (if 0 ≤ v ∧ v < 2 ^ 63 then (0:Int) else -1) = -1 := by
      rw [if_neg]; omega
    simp only [he]
    by_cases c1 : -64 ≤ v
    · rw [wsl_stop _ _ _ _ (by omega) (by omega)]
      refine ⟨_, rfl, by simp, ?_⟩
      simp only [List.cons_append, List.nil_append]
      rw [readSleb_1 _ _ (by omega)]
      simp only [Option.some.injEq, Prod.mk.injEq]
      refine ⟨se7 _ _ (by omega) (by omega) (by simp only [payload]; omega), by simp⟩
    · skip
      by_cases c2 : -2^13 ≤ v
      · rw [wsl_more _ _ _ _ (by omega)]
        rw [wsl_stop _ _ _ _ (by omega) (by omega)]
        refine ⟨_, rfl, by simp, ?_⟩
        simp only [List.cons_append, List.nil_append]
        rw [readSleb_2 _ _ _ (by omega) (by omega) (by omega)]
        simp only [Option.some.injEq, Prod.mk.injEq]
        refine ⟨se14 _ _ (by omega) (by omega) (by simp only [payload]; omega), by simp⟩
      · skip
        by_cases c3 : -2^20 ≤ v
        · rw [wsl_more _ _ _ _ (by omega)]
          rw [wsl_more _ _ _ _ (by omega)]
          rw [wsl_stop _ _ _ _ (by omega) (by omega)]
          refine ⟨_, rfl, by simp, ?_⟩
          simp only [List.cons_append, List.nil_append]
          rw [readSleb_3 _ _ _ _ (by omega) (by omega) (by omega) (by omega) (by omega)]
          simp only [Option.some.injEq, Prod.mk.injEq]
          refine ⟨se21 _ _ (by omega) (by omega) (by simp only [payload]; omega), by simp⟩
        · skip
          by_cases c4 : -2^27 ≤ v
          · rw [wsl_more _ _ _ _ (by omega)]
            rw [wsl_more _ _ _ _ (by omega)]
            rw [wsl_more _ _ _ _ (by omega)]
            rw [wsl_stop _ _ _ _ (by omega) (by omega)]
            refine ⟨_, rfl, by simp, ?_⟩
            simp only [List.cons_append, List.nil_append]
            rw [readSleb_4 _ _ _ _ _ (by omega) (by omega) (by omega) (by omega) (by omega) (by omega) (by omega)]
            simp only [Option.some.injEq, Prod.mk.injEq]
            refine ⟨se28 _ _ (by omega) (by omega) (by simp only [payload]; omega), by simp⟩
          · rw [wsl_more _ _ _ _ (by omega)]
            rw [wsl_more _ _ _ _ (by omega)]
            rw [wsl_more _ _ _ _ (by omega)]
            rw [wsl_more _ _ _ _ (by omega)]
            rw [wsl_stop _ _ _ _ (by omega) (by omega)]
            refine ⟨_, rfl, by simp, ?_⟩
            simp only [List.cons_append, List.nil_append]
            rw [readSleb_5 _ _ _ _ _ _ (by omega) (by omega) (by omega) (by omega) (by omega) (by omega) (by omega) (by omega) (by omega)]
            rw [slebFix_35 _ (by simp only [payload]; omega) (by simp only [payload]; omega)]
            simp only [Option.some.injEq, Prod.mk.injEq]
            refine ⟨se32 _ _ (by omega) (by omega) (by simp only [payload]; omega), by simp⟩

end AgVerif.Leb
