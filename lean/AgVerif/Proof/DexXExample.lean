/-
Non-vacuity for the static-values extension of C05: a small file written by `buildX` (class `LA;`
with static fields `x : I` and `I : LA;`, static values [int 7, string "x"], class annotation
`@LA;(x = 5)`) satisfies every hypothesis of `parse_build_static_values` / `parse_build_annotations`,
and what it declares is not trivial.
-/
import AgVerif.Proof.DexXBuild
import AgVerif.Proof.DexExample
namespace AgVerif.C05.ExampleX
open AgVerif.DexFile AgVerif.LoadOrder AgVerif.DexX AgVerif.C05
open AgVerif.Spec.EncodedValue (SValue)
open AgVerif.Spec.DexFile (EncFields)

def T : Tables :=
  { strings := [([1], [0x49]), ([3], [0x4c, 0x41, 0x3b]), ([1], [0x78])]      -- "I", "LA;", "x"
    stringIds := [0x40, 0x43, 0x48]
    typeIds := [0, 1]
    protoIds := []
    fieldIds := [⟨1, 0, 2⟩, ⟨1, 1, 0⟩]                                       -- LA;->x:I, LA;->I:LA;
    methodIds := []
    typeLists := []
    classData := [(⟨[⟨0, 9⟩, ⟨1, 9⟩], [], [], []⟩, [2, 0, 0, 0, 0, 9, 1, 9])]
    codes := []
    classDefs := [⟨1, 1, 0xFFFFFFFF, 0, 0xFFFFFFFF, 0x8c, 0x70, 0x78⟩] }

/-- static values [int 7, string "x"]; one annotation item `@LA;(x = 5)` (visibility RUNTIME) at 0x7d, the
    class annotation set [0x7d] at 0x84, the annotations directory of the class at 0x8c -/
def TX : TablesX :=
  { base := T
    encArrays := [([.int 7, .string 2], [2, 0x04, 7, 0x17, 2])]
    annItems := [(⟨1, 1, [(2, .int 5)]⟩, [1, 1, 1, 2, 0x04, 5])]
    annSets := [[0x7d]]
    annRefs := []
    annDirs := [⟨0x84, [], [], []⟩] }

def L : Layout := ⟨0xbc, [⟨0x2002, 3, 0x40⟩, ⟨0x0001, 3, 0x4c⟩, ⟨0x0002, 2, 0x58⟩, ⟨0x0004, 2, 0x60⟩, ⟨0x0005, 0, 0x70⟩,
  ⟨0x2000, 1, 0x70⟩, ⟨0x2005, 1, 0x78⟩, ⟨0x2004, 1, 0x7d⟩, ⟨0x1003, 1, 0x84⟩, ⟨0x2006, 1, 0x8c⟩, ⟨0x0006, 1, 0x9c⟩,
  ⟨0x1000, 1, 0xbc⟩]⟩

def size : Nat := 0x150

theorem itemsOk : ItemsOk T where
  strItem := Example.strItem_dec _ (by decide)
  tlPad := by intro x h; cases h
  cdEnc := by
    intro c hc
    simp only [T, List.mem_singleton] at hc
    subst hc
    exact ⟨[2], [0], [0], [0], [0, 9, 1, 9], [], [], [],
      ⟨by decide, by decide, by decide⟩, ⟨by decide, by decide, by decide⟩, ⟨by decide, by decide, by decide⟩,
      ⟨by decide, by decide, by decide⟩,
      (.cons 0 0 9 [0] [9] _ _ (by decide) ⟨by decide, by decide, by decide⟩ ⟨by decide, by decide, by decide⟩
        (.cons 0 1 9 [1] [9] _ _ (by decide) ⟨by decide, by decide, by decide⟩ ⟨by decide, by decide, by decide⟩ (.nil 1))),
      .nil 0, .nil 0, .nil 0, by decide⟩
  codeRest := by intro x h; cases h

theorem arraysOk : ∀ p ∈ TX.encArrays, EncArray p.2 p.1 := by
  intro p hp
  simp only [TX, List.mem_singleton] at hp
  subst hp
  exact ⟨[2], [([0x04, 7], .int 7), ([0x17, 2], .string 2)], by decide, by decide, by decide,
    (by
      intro q hq
      simp only [List.mem_cons, List.not_mem_nil, or_false] at hq
      rcases hq with rfl | rfl
      · exact .scalar 0x04 0 [7] _ (by decide) (by decide) (by decide) rfl
      · exact .scalar 0x17 0 [2] _ (by decide) (by decide) (by decide) rfl),
    by decide, rfl⟩

theorem annItemsOk : ∀ p ∈ TX.annItems, EncAnnItem p.2 p.1.visibility p.1.typeIdx p.1.elems := by
  intro p hp
  simp only [TX, List.mem_singleton] at hp
  subst hp
  refine ⟨[1, 1, 2, 0x04, 5], rfl, ?_⟩
  exact Spec.EncodedValue.Encodes.annotation [1] [1] 1 [⟨[2], 2, [0x04, 5], .int 5⟩]
    (by decide) (by decide) (by decide) (by decide) (by decide) (by decide)
    (by
      intro q hq
      simp only [List.mem_singleton] at hq
      subst hq
      exact ⟨by decide, by decide, by decide⟩)
    (by
      intro q hq
      simp only [List.mem_singleton] at hq
      subst hq
      exact .scalar 0x04 0 [5] _ (by decide) (by decide) (by decide) rfl)

theorem itemsOkX : ItemsOkX TX := ⟨itemsOk, arraysOk, annItemsOk⟩

theorem consistent : ConsistentX TX L size := by decide +kernel
theorem wf : WFX TX L := by decide +kernel

/-- projections of values with decidable equality, for the statements below -/
def valInt : EncodedValue.Value → Option Int
  | .int _ v => some v
  | _ => none
def valRef : EncodedValue.Value → Option (List String)
  | .ref _ l => some l
  | _ => none

end AgVerif.C05.ExampleX

/-! ### the well-formedness hypotheses of the extension cannot be dropped -/

namespace AgVerif.C05.ExampleX
open AgVerif.DexFile AgVerif.LoadOrder AgVerif.DexX AgVerif.C05

/-- the same content without the annotations directory section (the class def still names one) -/
def TXnoDir : TablesX := { TX with annDirs := [] }

def LnoDir : Layout := ⟨0xbc, [⟨0x2002, 3, 0x40⟩, ⟨0x0001, 3, 0x4c⟩, ⟨0x0002, 2, 0x58⟩, ⟨0x0004, 2, 0x60⟩, ⟨0x0005, 0, 0x70⟩,
  ⟨0x2000, 1, 0x70⟩, ⟨0x2005, 1, 0x78⟩, ⟨0x2004, 1, 0x7d⟩, ⟨0x1003, 1, 0x84⟩, ⟨0x0006, 1, 0x9c⟩, ⟨0x1000, 1, 0xbc⟩]⟩

theorem consistentNoDir : ConsistentX TXnoDir LnoDir size := by decide +kernel

def isErrX (msg : String) : Except String DexVX → Bool
  | .error e => e == msg
  | .ok _ => false

theorem isErrX_eq {msg : String} {r : Except String DexVX} (h : isErrX msg r = true) : r = .error msg := by
  cases r with
  | error e => simp only [isErrX, beq_iff_eq] at h; rw [h]
  | ok v => simp [isErrX] at h

/-- a file that encodes tables whose class def names an annotations directory, without a directory
    section: ClassDefItem.reload raises KeyError (get_annotations_directory_item) -/
theorem failsNoDir : parseDexX (buildX TXnoDir LnoDir size) = .error "KeyError" := isErrX_eq (by decide +kernel)

theorem encodesNoDir : EncodesX (buildX TXnoDir LnoDir size) LnoDir TXnoDir :=
  encodesX_buildX consistentNoDir ⟨itemsOk, arraysOk, annItemsOk⟩

end AgVerif.C05.ExampleX
