/-
Lemmas tying the CFG model to the specification vocabulary of AgVerif.Spec.Cfg
(instruction offsets, well-formedness predicates), and facts about `blocks m ex`.
Core Lean only.
-/
import AgVerif.Proof.Cfg
import AgVerif.Spec.Cfg
namespace AgVerif.Cfg
open AgVerif.Spec.Cfg AgVerif.Gen.CfgOps

theorem total_eq_lenSum : ∀ l : List Ins, total Ins.len l = lenSum l
  | [] => rfl
  | i :: r => by simp [total, lenSum, total_eq_lenSum r]

/-- the disassembler reports `i` at byte offset `o` of method `m` -/
def InsnAtM (m : List Ins) (o : Nat) (i : Ins) : Prop := InsnAt Ins.len m o i
/-- `o` is an offset at which the disassembler reports an instruction of `m` -/
def InsnOffsetM (m : List Ins) (o : Nat) : Prop := InsnOffset Ins.len m o

theorem mem_withOff_iff : ∀ (m : List Ins) (s o : Nat) (i : Ins),
    (o, i) ∈ withOff s m ↔ ∃ pre post, m = pre ++ i :: post ∧ o = s + lenSum pre := by
  intro m
  induction m with
  | nil => intro s o i; simp [withOff]
  | cons j r ih =>
    intro s o i
    simp only [withOff, List.mem_cons, Prod.mk.injEq]
    constructor
    · rintro (⟨h1, h2⟩ | h)
      · exact ⟨[], r, by simp [h2], by simp [lenSum, h1]⟩
      · obtain ⟨pre, post, hm, ho⟩ := (ih _ _ _).mp h
        exact ⟨j :: pre, post, by simp [hm], by simp [lenSum, ho]; omega⟩
    · rintro ⟨pre, post, hm, ho⟩
      cases pre with
      | nil =>
        simp at hm
        left; exact ⟨by simp [lenSum] at ho; exact ho, hm.1.symm⟩
      | cons x pre =>
        simp at hm
        right
        refine (ih _ _ _).mpr ⟨pre, post, hm.2, ?_⟩
        simp [lenSum] at ho; rw [hm.1]; omega

theorem mem_withOff_insnAt {m : List Ins} {o : Nat} {i : Ins} :
    (o, i) ∈ withOff 0 m ↔ InsnAtM m o i := by
  rw [mem_withOff_iff]
  unfold InsnAtM InsnAt
  simp [total_eq_lenSum]

/-- `get_ins_off` returns an instruction the disassembler reports at exactly that offset -/
theorem insOffFrom_some : ∀ (m : List Ins) (s : Nat) (off : Int) (o : Nat) (i : Ins),
    insOffFrom s m off = some (o, i) → (o : Int) = off ∧ (o, i) ∈ withOff s m := by
  intro m
  induction m with
  | nil => intro s off o i h; simp [insOffFrom] at h
  | cons j r ih =>
    intro s off o i h
    simp only [insOffFrom] at h
    split at h
    · rename_i heq
      simp at h
      obtain ⟨h1, h2⟩ := h
      subst h1 h2
      exact ⟨heq, by simp [withOff]⟩
    · obtain ⟨h1, h2⟩ := ih _ _ _ _ h
      exact ⟨h1, by simp [withOff, h2]⟩

/-- `get_ins_off` finds nothing only if no instruction is reported at that offset -/
theorem insOffFrom_none : ∀ (m : List Ins) (s : Nat) (off : Int),
    insOffFrom s m off = none → ∀ o i, (o, i) ∈ withOff s m → (o : Int) ≠ off := by
  intro m
  induction m with
  | nil => intro s off _ o i h; simp [withOff] at h
  | cons j r ih =>
    intro s off h o i hm
    simp only [insOffFrom] at h
    split at h
    · simp at h
    · rename_i hne
      simp only [withOff, List.mem_cons, Prod.mk.injEq] at hm
      rcases hm with ⟨h1, _⟩ | hm
      · subst h1; exact hne
      · exact ih _ _ h o i hm

/-! ### facts about `blocks` -/

theorem blocks_flatten (m : List Ins) (ex : List Exc) : (blocks m ex).flatMap (·.insns) = m := by
  unfold blocks
  simpa using splitAux_flatten (isLeader (leaders m ex)) isBranch m 0 ⟨0, []⟩

theorem blocks_chain (m : List Ins) (ex : List Exc) : Chain 0 (blocks m ex) (lenSum m) := by
  unfold blocks
  simpa using splitAux_chain (isLeader (leaders m ex)) isBranch m 0 ⟨0, []⟩

theorem chain_split : ∀ (bs : List Block) (s e : Nat), Chain s bs e → ∀ b ∈ bs,
    ∃ bs1 bs2, bs = bs1 ++ b :: bs2 ∧ b.start = s + lenSum (bs1.flatMap (·.insns)) := by
  intro bs
  induction bs with
  | nil => intro s e _ b hb; simp at hb
  | cons a bs ih =>
    intro s e h b hb
    obtain ⟨ha, _, hch⟩ := h
    simp only [List.mem_cons] at hb
    rcases hb with hb | hb
    · subst hb; exact ⟨[], bs, rfl, by simp [lenSum, ha]⟩
    · obtain ⟨bs1, bs2, h1, h2⟩ := ih _ _ hch b hb
      refine ⟨a :: bs1, bs2, by simp [h1], ?_⟩
      simp only [List.flatMap_cons, lenSum_append]
      rw [h2]; simp [Block.stop, ha]; omega

/-- a block's instructions are a contiguous piece of the disassembly that begins at `b.start` -/
theorem block_in_stream {m : List Ins} {ex : List Exc} {b : Block} (hb : b ∈ blocks m ex) :
    ∃ pre post, m = pre ++ b.insns ++ post ∧ b.start = lenSum pre := by
  obtain ⟨bs1, bs2, h1, h2⟩ := chain_split _ _ _ (blocks_chain m ex) b hb
  refine ⟨bs1.flatMap (·.insns), bs2.flatMap (·.insns), ?_, by simpa using h2⟩
  have := blocks_flatten m ex
  rw [h1] at this
  simpa [List.flatMap_append, List.flatMap_cons, List.append_assoc] using this.symm

theorem block_nonempty {m : List Ins} {ex : List Exc} : ∀ b ∈ blocks m ex, b.insns ≠ [] := by
  have : ∀ (bs : List Block) (s e : Nat), Chain s bs e → ∀ b ∈ bs, b.insns ≠ [] := by
    intro bs
    induction bs with
    | nil => intro s e _ b hb; simp at hb
    | cons a bs ih =>
      intro s e h b hb
      simp only [List.mem_cons] at hb
      rcases hb with hb | hb
      · subst hb; exact h.2.1
      · exact ih _ _ h.2.2 b hb
  exact this _ _ _ (blocks_chain m ex)

/-- every instruction has at least one 16-bit code unit -/
def MinLen (m : List Ins) : Prop := ∀ i ∈ m, 2 ≤ i.len

theorem lenSum_pos_of_minLen : ∀ (l : List Ins), l ≠ [] → (∀ i ∈ l, 2 ≤ i.len) → 2 ≤ lenSum l
  | [], h, _ => absurd rfl h
  | i :: r, _, h => by
    have := h i List.mem_cons_self
    simp [lenSum]; omega

theorem block_insns_subset {m : List Ins} {ex : List Exc} {b : Block} (hb : b ∈ blocks m ex) :
    ∀ i ∈ b.insns, i ∈ m := by
  obtain ⟨pre, post, hm, _⟩ := block_in_stream hb
  intro i hi; rw [hm]; simp [hi]

theorem block_len_ge {m : List Ins} {ex : List Exc} (hm : MinLen m) {b : Block} (hb : b ∈ blocks m ex) :
    b.start + 2 ≤ b.stop := by
  have := lenSum_pos_of_minLen b.insns (block_nonempty b hb) (fun i hi => hm i (block_insns_subset hb i hi))
  simp [Block.stop]; omega

theorem blocks_pos {m : List Ins} {ex : List Exc} (hm : MinLen m) : ∀ b ∈ blocks m ex, b.start < b.stop := by
  intro b hb; have := block_len_ge hm hb; omega

/-- every leader that is an instruction offset begins a block -/
theorem leader_block {m : List Ins} {ex : List Exc} {o : Nat} (hl : (o : Int) ∈ leaders m ex)
    (ho : InsnOffsetM m o) : ∃ b ∈ blocks m ex, b.start = o := by
  obtain ⟨i, hi⟩ := ho
  have hmem : (o, i) ∈ withOff 0 m := mem_withOff_insnAt.mpr hi
  unfold blocks
  exact splitAux_leader (isLeader (leaders m ex)) isBranch m 0 ⟨0, []⟩ (by simp [Block.stop, lenSum]) o i hmem
    (by simp [isLeader, hl])

/-- the first instruction of a block, at the block's start offset -/
theorem block_start_insnAt {m : List Ins} {ex : List Exc} {b : Block} (hb : b ∈ blocks m ex) :
    ∃ i, b.insns.head? = some i ∧ InsnAtM m b.start i := by
  obtain ⟨pre, post, hm, hs⟩ := block_in_stream hb
  have hne := block_nonempty b hb
  cases hins : b.insns with
  | nil => exact absurd hins hne
  | cons i r =>
    refine ⟨i, rfl, pre, r ++ post, ?_, by rw [total_eq_lenSum]; exact hs⟩
    rw [hm, hins]; simp

/-- the end of a block is the start of the next block, or the end of the method -/
theorem block_stop_next {m : List Ins} {ex : List Exc} {b : Block} (hb : b ∈ blocks m ex) :
    b.stop = lenSum m ∨ (b.stop < lenSum m ∧ ∃ c ∈ blocks m ex, c.start = b.stop) := by
  have hbd := (chain_bounds _ _ _ (blocks_chain m ex)).2 b hb
  by_cases h : b.stop = lenSum m
  · exact Or.inl h
  · have hlt : b.stop < lenSum m := by omega
    exact Or.inr ⟨hlt, chain_next _ _ _ (blocks_chain m ex) b hb hlt⟩

/-! ### well-formedness -/

/-- the Dalvik verifier's requirement, as far as the CFG needs it: every branch / switch target,
    try start and handler address that lies inside the method is the offset of an instruction -/
def WFTargets (m : List Ins) (ex : List Exc) : Prop :=
  ∀ o : Nat, (o : Int) ∈ leaders m ex → o < lenSum m → InsnOffsetM m o

/-- try ranges are non-empty -/
def TriesNonEmpty (ex : List Exc) : Prop := ∀ e ∈ ex, e.start ≤ e.stop

/-- try ranges do not overlap -/
def TriesDisjoint (ex : List Exc) : Prop :=
  ex.Pairwise (fun a b => a.stop < b.start ∨ b.stop < a.start)

theorem pairwise_eq_of_not {α} {R : α → α → Prop} : ∀ {l : List α}, l.Pairwise R → ∀ a ∈ l, ∀ b ∈ l,
    ¬ R a b → ¬ R b a → a = b := by
  intro l h
  induction h with
  | nil => intro a ha; simp at ha
  | cons hx _ ih =>
    intro a ha b hb h1 h2
    simp only [List.mem_cons] at ha hb
    rcases ha with ha | ha <;> rcases hb with hb | hb
    · rw [ha, hb]
    · subst ha; exact absurd (hx b hb) h1
    · subst hb; exact absurd (hx a ha) h2
    · exact ih a ha b hb h1 h2

theorem start_mem_leaders {m : List Ins} {ex : List Exc} {e : Exc} (he : e ∈ ex) : e.start ∈ leaders m ex := by
  unfold leaders
  simp only [List.mem_append, List.mem_flatMap]
  right
  exact ⟨e, he, by simp⟩

theorem handler_mem_leaders {m : List Ins} {ex : List Exc} {e : Exc} (he : e ∈ ex) {h : Option Nat × Nat}
    (hh : h ∈ e.handlers) : (h.2 : Int) ∈ leaders m ex := by
  unfold leaders
  simp only [List.mem_append, List.mem_flatMap]
  right
  exact ⟨e, he, by simp; right; exact ⟨h.1, h.2, hh, rfl⟩⟩

theorem next_mem_leaders {m : List Ins} {ex : List Exc} {idx : Nat} {i : Ins} (hi : (idx, i) ∈ withOff 0 m)
    (hb : isBranch i = true) {t : Int} (ht : t ∈ next m idx i) : t ∈ leaders m ex := by
  unfold leaders
  simp only [List.mem_append, List.mem_flatMap]
  left
  exact ⟨(idx, i), hi, by simp [branchNext, hb, ht]⟩

/-- a try range that starts strictly inside a block contradicts "try starts are leaders" -/
theorem try_start_not_inside {m : List Ins} {ex : List Exc} (hm : MinLen m) (hwf : WFTargets m ex)
    {b : Block} (hb : b ∈ blocks m ex) {e : Exc} (he : e ∈ ex)
    (h1 : (b.start : Int) < e.start) (h2 : e.start < (b.stop : Int)) : False := by
  have hbd := (chain_bounds _ _ _ (blocks_chain m ex)).2 b hb
  obtain ⟨o, ho⟩ : ∃ o : Nat, (o : Int) = e.start := ⟨e.start.toNat, by omega⟩
  have hl : (o : Int) ∈ leaders m ex := by rw [ho]; exact start_mem_leaders he
  obtain ⟨c, hc, hcs⟩ := leader_block hl (hwf o hl (by omega))
  have hcpos := blocks_pos hm c hc
  have := chain_unique _ _ _ (blocks_chain m ex) (blocks_pos hm) b hb c hc (o : Int) (by omega) (by omega)
    (by omega) (by omega)
  subst this
  omega


/-- offsets of the instructions of a block, as `push` saw them -/
def blockOffsets (b : Block) : List Nat := (withOff b.start b.insns).map (·.1)

theorem withOff_bounds {l : List Ins} {s o : Nat} {i : Ins} (h : (o, i) ∈ withOff s l) :
    s ≤ o ∧ o + i.len ≤ s + lenSum l ∧ i ∈ l := by
  obtain ⟨pre, post, hl, ho⟩ := (mem_withOff_iff l s o i).mp h
  subst hl
  simp [lenSum_append, lenSum]
  omega

/-- an instruction of a block is reported by the disassembler at that offset of the method -/
theorem block_insnAt {m : List Ins} {ex : List Exc} {b : Block} (hb : b ∈ blocks m ex) {o : Nat} {i : Ins}
    (h : (o, i) ∈ withOff b.start b.insns) : InsnAtM m o i := by
  obtain ⟨pre, post, hm, hs⟩ := block_in_stream hb
  obtain ⟨p1, p2, hl, ho⟩ := (mem_withOff_iff _ _ _ _).mp h
  refine ⟨pre ++ p1, p2 ++ post, ?_, ?_⟩
  · rw [hm, hl]; simp
  · rw [total_eq_lenSum, lenSum_append, ← hs]; exact ho

theorem start_mem_blockOffsets {m : List Ins} {ex : List Exc} {b : Block} (hb : b ∈ blocks m ex) :
    b.start ∈ blockOffsets b := by
  have hne := block_nonempty b hb
  unfold blockOffsets
  cases hins : b.insns with
  | nil => exact absurd hins hne
  | cons i r => simp [withOff]

theorem blockOffsets_bounds {m : List Ins} {ex : List Exc} (hm : MinLen m) {b : Block} (hb : b ∈ blocks m ex)
    {o : Nat} (ho : o ∈ blockOffsets b) : b.start ≤ o ∧ o < b.stop := by
  unfold blockOffsets at ho
  simp only [List.mem_map] at ho
  obtain ⟨⟨o', i⟩, hmem, rfl⟩ := ho
  obtain ⟨h1, h2, h3⟩ := withOff_bounds hmem
  have := hm i (block_insns_subset hb i h3)
  simp [Block.stop]
  omega

/-- a try range that `get_exception` matches with a block covers the block's first instruction -/
theorem match_covers_start {m : List Ins} {ex : List Exc} (hm : MinLen m) (hwf : WFTargets m ex)
    (hne : TriesNonEmpty ex) {b : Block} (hb : b ∈ blocks m ex) {e : Exc} (he : e ∈ ex)
    (h : excMatch (b.start : Int) ((b.stop : Int) - 1) e = true) :
    e.start ≤ (b.start : Int) ∧ (b.start : Int) ≤ e.stop := by
  have hpos := blocks_pos hm b hb
  have hn := hne e he
  simp only [excMatch, Bool.or_eq_true, decide_eq_true_eq] at h
  rcases h with h | h
  · by_cases hlt : (b.start : Int) < e.start
    · exact absurd (try_start_not_inside hm hwf hb he hlt (by omega)) id
    · omega
  · omega

end AgVerif.Cfg
