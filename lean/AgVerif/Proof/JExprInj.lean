/-
C21: on the fragment of IR expressions without class names, field access and invocations the Java tree — hence, by
print_parse, the printed text — determines the IR expression itself.
-/
import AgVerif.Proof.JExprMain
namespace AgVerif.JExpr
set_option linter.unusedSimpArgs false

/-- constants, variables, parameters, `this`, binary / unary operations, primitive and reference casts, comparisons,
    `Long.compare`, array access / length / creation — no class names, fields, invocations (for those several IR trees
    are the same Java expression: `a.b.c` is a static field of class `a.b` or an instance field of the static field `a.b`) -/
def plain : DExpr → Bool
  | .const _ _ | .var _ | .param _ | .this => true
  | .bin _ a b | .cond _ a b | .aload a b => plain a && plain b
  | .cmp l a b => l && plain a && plain b
  | .un _ a | .cast _ a | .checkCast _ _ a | .alength a | .newArray _ a => plain a
  | _ => false

theorem constJava_inj {v v' : Int} {l l' : Bool} (h : constJava v l = constJava v' l') : v = v' ∧ l = l' := by
  by_cases hv : v < 0 <;> by_cases hv' : v' < 0 <;> cases l <;> cases l' <;>
    simp [constJava, hv, hv'] at h <;> exact ⟨by omega, rfl⟩

theorem v_ne_p (a b : String) : "v" ++ a ≠ "p" ++ b := by
  intro h
  have := congrArg String.toList h
  simp at this

theorem constJava_ne_name (v l s) : constJava v l ≠ .name s := by
  by_cases hv : v < 0 <;> cases l <;> simp [constJava, hv]
theorem constJava_ne_this (v l) : constJava v l ≠ .this := by
  by_cases hv : v < 0 <;> cases l <;> simp [constJava, hv]
theorem constJava_ne_paren (v l x) : constJava v l ≠ .paren x := by
  by_cases hv : v < 0 <;> cases l <;> simp [constJava, hv]
theorem constJava_ne_bin (v l o x y) : constJava v l ≠ .bin o x y := by
  by_cases hv : v < 0 <;> cases l <;> simp [constJava, hv]
theorem constJava_ne_call (v l x y) : constJava v l ≠ .call x y := by
  by_cases hv : v < 0 <;> cases l <;> simp [constJava, hv]
theorem constJava_ne_index (v l x y) : constJava v l ≠ .index x y := by
  by_cases hv : v < 0 <;> cases l <;> simp [constJava, hv]
theorem constJava_ne_select (v l x y) : constJava v l ≠ .select x y := by
  by_cases hv : v < 0 <;> cases l <;> simp [constJava, hv]
theorem constJava_ne_newArr (v l x y) : constJava v l ≠ .newArr x y := by
  by_cases hv : v < 0 <;> cases l <;> simp [constJava, hv]

theorem name_ne_constJava (v l s) : JExpr.name s ≠ constJava v l := fun h => constJava_ne_name _ _ _ h.symm
theorem this_ne_constJava (v l) : JExpr.this ≠ constJava v l := fun h => constJava_ne_this _ _ h.symm
theorem paren_ne_constJava (v l x) : JExpr.paren x ≠ constJava v l := fun h => constJava_ne_paren _ _ _ h.symm
theorem bin_ne_constJava (v l o x y) : JExpr.bin o x y ≠ constJava v l := fun h => constJava_ne_bin _ _ _ _ _ h.symm
theorem call_ne_constJava (v l x y) : JExpr.call x y ≠ constJava v l := fun h => constJava_ne_call _ _ _ _ h.symm
theorem index_ne_constJava (v l x y) : JExpr.index x y ≠ constJava v l := fun h => constJava_ne_index _ _ _ _ h.symm
theorem select_ne_constJava (v l x y) : JExpr.select x y ≠ constJava v l := fun h => constJava_ne_select _ _ _ _ h.symm
theorem newArr_ne_constJava (v l x y) : JExpr.newArr x y ≠ constJava v l := fun h => constJava_ne_newArr _ _ _ _ h.symm

theorem toJava_un (o a) : toJava (.un o a) =
    .paren (.unary (match o with | .neg => .neg | .not => .compl) (toJava a)) := by
  cases o <;> simp [toJava]

theorem unop_inj {o o' : DUnOp}
    (h : (match o with | .neg => UnOp.neg | .not => UnOp.compl) = (match o' with | .neg => UnOp.neg | .not => UnOp.compl)) :
    o = o' := by
  cases o <;> cases o' <;> simp at h ⊢

theorem toJava_inj : ∀ (e1 e2 : DExpr), plain e1 = true → plain e2 = true → toJava e1 = toJava e2 → e1 = e2
  | .const v l, e2, _, h2, h => by
    cases e2 <;> simp [plain] at h2 <;>
      simp [toJava, toJava_un, constJava_ne_name, constJava_ne_this, constJava_ne_paren, constJava_ne_bin,
        constJava_ne_call, constJava_ne_index, constJava_ne_select, constJava_ne_newArr] at h
    obtain ⟨rfl, rfl⟩ := constJava_inj h
    rfl
  | .var n, e2, h1, h2, h => by
    cases e2 <;> simp [plain] at h1 h2 <;>
      simp [toJava, toJava_un, paren_ne_constJava, name_ne_constJava, this_ne_constJava, bin_ne_constJava, call_ne_constJava, index_ne_constJava, select_ne_constJava, newArr_ne_constJava, v_ne_p, (v_ne_p _ _).symm] at h
    subst h; rfl
  | .param n, e2, h1, h2, h => by
    cases e2 <;> simp [plain] at h1 h2 <;>
      simp [toJava, toJava_un, paren_ne_constJava, name_ne_constJava, this_ne_constJava, bin_ne_constJava, call_ne_constJava, index_ne_constJava, select_ne_constJava, newArr_ne_constJava, v_ne_p, (v_ne_p _ _).symm] at h
    subst h; rfl
  | .this, e2, h1, h2, h => by
    cases e2 <;> simp [plain] at h1 h2 <;>
      simp [toJava, toJava_un, paren_ne_constJava, name_ne_constJava, this_ne_constJava, bin_ne_constJava, call_ne_constJava, index_ne_constJava, select_ne_constJava, newArr_ne_constJava, v_ne_p, (v_ne_p _ _).symm] at h
    rfl
  | .bin o a b, e2, h1, h2, h => by
    cases e2 <;> simp [plain] at h1 h2 <;>
      simp [toJava, toJava_un, paren_ne_constJava, name_ne_constJava, this_ne_constJava, bin_ne_constJava, call_ne_constJava, index_ne_constJava, select_ne_constJava, newArr_ne_constJava, v_ne_p, (v_ne_p _ _).symm] at h
    obtain ⟨rfl, ha, hb⟩ := h
    rw [toJava_inj a _ h1.1 h2.1 ha, toJava_inj b _ h1.2 h2.2 hb]
  | .cond o a b, e2, h1, h2, h => by
    cases e2 <;> simp [plain] at h1 h2 <;>
      simp [toJava, toJava_un, paren_ne_constJava, name_ne_constJava, this_ne_constJava, bin_ne_constJava, call_ne_constJava, index_ne_constJava, select_ne_constJava, newArr_ne_constJava, v_ne_p, (v_ne_p _ _).symm] at h
    obtain ⟨rfl, ha, hb⟩ := h
    rw [toJava_inj a _ h1.1 h2.1 ha, toJava_inj b _ h1.2 h2.2 hb]
  | .aload a b, e2, h1, h2, h => by
    cases e2 <;> simp [plain] at h1 h2 <;>
      simp [toJava, toJava_un, paren_ne_constJava, name_ne_constJava, this_ne_constJava, bin_ne_constJava, call_ne_constJava, index_ne_constJava, select_ne_constJava, newArr_ne_constJava, v_ne_p, (v_ne_p _ _).symm] at h
    obtain ⟨ha, hb⟩ := h
    rw [toJava_inj a _ h1.1 h2.1 ha, toJava_inj b _ h1.2 h2.2 hb]
  | .cmp l a b, e2, h1, h2, h => by
    cases e2 <;> simp [plain] at h1 h2 <;>
      simp [toJava, toJava_un, paren_ne_constJava, name_ne_constJava, this_ne_constJava, bin_ne_constJava, call_ne_constJava, index_ne_constJava, select_ne_constJava, newArr_ne_constJava, v_ne_p, (v_ne_p _ _).symm] at h
    obtain ⟨ha, hb⟩ := h
    obtain ⟨⟨rfl, h1a⟩, h1b⟩ := h1
    obtain ⟨⟨rfl, h2a⟩, h2b⟩ := h2
    rw [toJava_inj a _ h1a h2a ha, toJava_inj b _ h1b h2b hb]
  | .un o a, e2, h1, h2, h => by
    cases e2 <;> simp [plain] at h1 h2 <;>
      simp [toJava, toJava_un, paren_ne_constJava, name_ne_constJava, this_ne_constJava, bin_ne_constJava, call_ne_constJava, index_ne_constJava, select_ne_constJava, newArr_ne_constJava, v_ne_p, (v_ne_p _ _).symm] at h
    obtain ⟨ho, ha⟩ := h
    rw [unop_inj ho, toJava_inj a _ h1 h2 ha]
  | .cast t a, e2, h1, h2, h => by
    cases e2 <;> simp [plain] at h1 h2 <;>
      simp [toJava, toJava_un, paren_ne_constJava, name_ne_constJava, this_ne_constJava, bin_ne_constJava, call_ne_constJava, index_ne_constJava, select_ne_constJava, newArr_ne_constJava, v_ne_p, (v_ne_p _ _).symm] at h
    obtain ⟨rfl, ha⟩ := h
    rw [toJava_inj a _ h1 h2 ha]
  | .checkCast c t a, e2, h1, h2, h => by
    cases e2 <;> simp [plain] at h1 h2 <;>
      simp [toJava, toJava_un, paren_ne_constJava, name_ne_constJava, this_ne_constJava, bin_ne_constJava, call_ne_constJava, index_ne_constJava, select_ne_constJava, newArr_ne_constJava, v_ne_p, (v_ne_p _ _).symm] at h
    obtain ⟨⟨rfl, rfl⟩, ha⟩ := h
    rw [toJava_inj a _ h1 h2 ha]
  | .alength a, e2, h1, h2, h => by
    cases e2 <;> simp [plain] at h1 h2 <;>
      simp [toJava, toJava_un, paren_ne_constJava, name_ne_constJava, this_ne_constJava, bin_ne_constJava, call_ne_constJava, index_ne_constJava, select_ne_constJava, newArr_ne_constJava, v_ne_p, (v_ne_p _ _).symm] at h
    rw [toJava_inj a _ h1 h2 h]
  | .newArray t a, e2, h1, h2, h => by
    cases e2 <;> simp [plain] at h1 h2 <;>
      simp [toJava, toJava_un, paren_ne_constJava, name_ne_constJava, this_ne_constJava, bin_ne_constJava, call_ne_constJava, index_ne_constJava, select_ne_constJava, newArr_ne_constJava, v_ne_p, (v_ne_p _ _).symm] at h
    obtain ⟨rfl, ha⟩ := h
    rw [toJava_inj a _ h1 h2 ha]
  | .baseClass _ _, _, h1, _, _ => by simp [plain] at h1
  | .condzCmp _ _ _, _, h1, _, _ => by simp [plain] at h1
  | .condzBool _ _, _, h1, _, _ => by simp [plain] at h1
  | .condzNum _ _, _, h1, _, _ => by simp [plain] at h1
  | .condzRef _ _, _, h1, _, _ => by simp [plain] at h1
  | .getField _ _, _, h1, _, _ => by simp [plain] at h1
  | .getStatic _ _ _, _, h1, _, _ => by simp [plain] at h1
  | .invoke _ _ _, _, h1, _, _ => by simp [plain] at h1
  | .newObj _ _ _, _, h1, _, _ => by simp [plain] at h1
  | .scc _ _ _, _, h1, _, _ => by simp [plain] at h1

/-- on the plain fragment the printed lexemes determine the IR expression itself -/
theorem print_injective_plain (e₁ e₂ : DExpr) (h₁ : WF e₁) (h₂ : WF e₂) (p₁ : plain e₁ = true) (p₂ : plain e₂ = true)
    (h : print e₁ = print e₂) : e₁ = e₂ :=
  toJava_inj e₁ e₂ p₁ p₂ (print_determines_tree e₁ e₂ h₁ h₂ h)

end AgVerif.JExpr
