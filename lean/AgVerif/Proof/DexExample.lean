import AgVerif.Proof.DexLoadView
namespace AgVerif.C05.Example
open AgVerif.DexFile AgVerif.LoadOrder AgVerif.Spec.Leb
open AgVerif.Spec.DexFile (ushort uint ULeb protoId fieldId methodId classDef typeListBody codeHdr EncFields EncMethods EncClassData)

def file : Bytes := [100, 101, 120, 10, 48, 51, 53, 0, 37, 68, 52, 135, 17, 213, 223, 93, 105, 166, 125, 39, 239, 198, 130, 50, 154, 43, 50, 188, 110, 82, 118, 16, 180, 2, 0, 0, 112, 0, 0, 0, 120, 86, 52, 18, 0, 0, 0, 0, 0, 0, 0, 0, 32, 2, 0, 0, 14, 0, 0, 0, 112, 0, 0, 0, 7, 0, 0, 0, 168, 0, 0, 0, 2, 0, 0, 0, 196, 0, 0, 0, 2, 0, 0, 0, 220, 0, 0, 0, 4, 0, 0, 0, 236, 0, 0, 0, 1, 0, 0, 0, 12, 1, 0, 0, 136, 1, 0, 0, 44, 1, 0, 0, 58, 1, 0, 0, 66, 1, 0, 0, 76, 1, 0, 0, 79, 1, 0, 0, 84, 1, 0, 0, 87, 1, 0, 0, 94, 1, 0, 0, 117, 1, 0, 0, 137, 1, 0, 0, 159, 1, 0, 0, 162, 1, 0, 0, 165, 1, 0, 0, 168, 1, 0, 0, 173, 1, 0, 0, 2, 0, 0, 0, 4, 0, 0, 0, 5, 0, 0, 0, 6, 0, 0, 0, 7, 0, 0, 0, 8, 0, 0, 0, 9, 0, 0, 0, 3, 0, 0, 0, 0, 0, 0, 0, 44, 1, 0, 0, 9, 0, 0, 0, 6, 0, 0, 0, 0, 0, 0, 0, 2, 0, 0, 0, 10, 0, 0, 0, 2, 0, 1, 0, 13, 0, 0, 0, 2, 0, 1, 0, 0, 0, 0, 0, 2, 0, 0, 0, 11, 0, 0, 0, 2, 0, 1, 0, 12, 0, 0, 0, 4, 0, 1, 0, 0, 0, 0, 0, 2, 0, 0, 0, 1, 0, 0, 0, 4, 0, 0, 0, 52, 1, 0, 0, 1, 0, 0, 0, 0, 0, 0, 0, 10, 2, 0, 0, 0, 0, 0, 0, 2, 0, 0, 0, 0, 0, 1, 0, 1, 0, 0, 0, 5, 0, 6, 60, 105, 110, 105, 116, 62, 0, 8, 70, 111, 111, 46, 106, 97, 118, 97, 0, 1, 73, 0, 3, 73, 73, 74, 0, 1, 74, 0, 5, 76, 70, 111, 111, 59, 0, 21, 76, 106, 97, 118, 97, 47, 108, 97, 110, 103, 47, 69, 120, 99, 101, 112, 116, 105, 111, 110, 59, 0, 18, 76, 106, 97, 118, 97, 47, 108, 97, 110, 103, 47, 79, 98, 106, 101, 99, 116, 59, 0, 20, 76, 106, 97, 118, 97, 47, 108, 97, 110, 103, 47, 82, 117, 110, 110, 97, 98, 108, 101, 59, 0, 1, 86, 0, 1, 88, 0, 1, 102, 0, 3, 114, 117, 110, 0, 1, 121, 0, 1, 0, 1, 0, 1, 0, 0, 0, 0, 0, 0, 0, 4, 0, 0, 0, 112, 16, 3, 0, 0, 0, 14, 0, 5, 0, 4, 0, 0, 0, 1, 0, 0, 0, 0, 0, 7, 0, 0, 0, 18, 16, 15, 0, 13, 1, 18, 32, 15, 0, 18, 48, 15, 0, 0, 0, 0, 0, 0, 0, 1, 0, 1, 0, 1, 127, 3, 2, 5, 0, 0, 0, 1, 0, 1, 0, 0, 0, 0, 0, 0, 0, 0, 0, 1, 0, 0, 0, 14, 0, 1, 1, 1, 2, 0, 9, 1, 2, 0, 129, 128, 4, 176, 3, 1, 1, 200, 3, 1, 1, 248, 3, 12, 0, 0, 0, 0, 0, 0, 0, 1, 0, 0, 0, 0, 0, 0, 0, 1, 0, 0, 0, 14, 0, 0, 0, 112, 0, 0, 0, 2, 0, 0, 0, 7, 0, 0, 0, 168, 0, 0, 0, 3, 0, 0, 0, 2, 0, 0, 0, 196, 0, 0, 0, 4, 0, 0, 0, 2, 0, 0, 0, 220, 0, 0, 0, 5, 0, 0, 0, 4, 0, 0, 0, 236, 0, 0, 0, 6, 0, 0, 0, 1, 0, 0, 0, 12, 1, 0, 0, 1, 16, 0, 0, 2, 0, 0, 0, 44, 1, 0, 0, 2, 32, 0, 0, 14, 0, 0, 0, 58, 1, 0, 0, 1, 32, 0, 0, 3, 0, 0, 0, 176, 1, 0, 0, 0, 32, 0, 0, 1, 0, 0, 0, 10, 2, 0, 0, 0, 16, 0, 0, 1, 0, 0, 0, 32, 2, 0, 0]

def L : Layout := ⟨544, [⟨0x0, 1, 0⟩, ⟨0x1, 14, 112⟩, ⟨0x2, 7, 168⟩, ⟨0x3, 2, 196⟩, ⟨0x4, 2, 220⟩, ⟨0x5, 4, 236⟩, ⟨0x6, 1, 268⟩, ⟨0x1001, 2, 300⟩, ⟨0x2002, 14, 314⟩, ⟨0x2001, 3, 432⟩, ⟨0x2000, 1, 522⟩, ⟨0x1000, 1, 544⟩]⟩

def T : Tables :=
  { strings := [([6], [60, 105, 110, 105, 116, 62]), ([8], [70, 111, 111, 46, 106, 97, 118, 97]), ([1], [73]), ([3], [73, 73, 74]), ([1], [74]), ([5], [76, 70, 111, 111, 59]), ([21], [76, 106, 97, 118, 97, 47, 108, 97, 110, 103, 47, 69, 120, 99, 101, 112, 116, 105, 111, 110, 59]), ([18], [76, 106, 97, 118, 97, 47, 108, 97, 110, 103, 47, 79, 98, 106, 101, 99, 116, 59]), ([20], [76, 106, 97, 118, 97, 47, 108, 97, 110, 103, 47, 82, 117, 110, 110, 97, 98, 108, 101, 59]), ([1], [86]), ([1], [88]), ([1], [102]), ([3], [114, 117, 110]), ([1], [121])]
    stringIds := [314, 322, 332, 335, 340, 343, 350, 373, 393, 415, 418, 421, 424, 429]
    typeIds := [2, 4, 5, 6, 7, 8, 9]
    protoIds := [⟨3, 0, 300⟩, ⟨9, 6, 0⟩]
    fieldIds := [⟨2, 0, 10⟩, ⟨2, 1, 13⟩]
    methodIds := [⟨2, 1, 0⟩, ⟨2, 0, 11⟩, ⟨2, 1, 12⟩, ⟨4, 1, 0⟩]
    typeLists := [([0, 1], []), ([5], [6, 60])]
    classData := [(⟨[⟨0, 9⟩], [⟨1, 2⟩], [⟨0, 65537, 432⟩], [⟨1, 1, 456⟩, ⟨2, 1, 504⟩]⟩, [1, 1, 1, 2, 0, 9, 1, 2, 0, 129, 128, 4, 176, 3, 1, 1, 200, 3, 1, 1, 248, 3])]
    codes := [(⟨⟨1, 1, 1, 0, 0, 4⟩, [112, 16, 3, 0, 0, 0, 14, 0]⟩, []), (⟨⟨5, 4, 0, 1, 0, 7⟩, [18, 16, 15, 0, 13, 1, 18, 32, 15, 0, 18, 48, 15, 0]⟩, [0, 0, 0, 0, 0, 0, 1, 0, 1, 0, 1, 127, 3, 2, 5, 0, 0, 0]), (⟨⟨1, 1, 0, 0, 0, 1⟩, [14, 0]⟩, [1, 1])]
    classDefs := [⟨2, 1, 4, 308, 1, 0, 522, 0⟩] }

theorem at_intro (file : Bytes) (off : Nat) (bs : Bytes)
    (h : (file.drop off).take bs.length = bs) (hlen : off ≤ file.length) : At file off bs := by
  refine ⟨file.take off, (file.drop off).drop bs.length, ?_, by simp [List.length_take]; omega⟩
  rw [List.append_assoc]
  conv => lhs; rw [← List.take_append_drop off file]
  congr 1
  conv => lhs; rw [← List.take_append_drop bs.length (file.drop off), h]

theorem section_intro {file : Bytes} {L : Layout} {t n : Nat} {bytes : Bytes} {al : Bool} (e : MapEntry)
    (hsec : L.sec t = some e) (hsz : e.size = n) (hal : al = true → e.offset % 4 = 0)
    (hat : (file.drop e.offset).take bytes.length = bytes) (hlen : e.offset ≤ file.length) :
    Section file L t n bytes al := by
  unfold Section
  rw [hsec]
  exact ⟨hsz, hal, at_intro _ _ _ hat hlen⟩

theorem strItem_dec (l : List (Bytes × Bytes))
    (h : ∀ s ∈ l, (IsItem s.1 ∧ s.1.length ≤ 5 ∧ (unsignedValue s.1).isSome = true) ∧ 0 ∉ s.2) :
    ∀ s ∈ l, (∃ n, ULeb s.1 n) ∧ 0 ∉ s.2 := by
  intro s hs
  obtain ⟨⟨h1, h2, h3⟩, h4⟩ := h s hs
  obtain ⟨n, hn⟩ := Option.isSome_iff_exists.mp h3
  exact ⟨⟨n, h1, h2, hn⟩, h4⟩

theorem cdEnc : ∀ c ∈ T.classData,
    EncClassData (c.1.sf.map fun f => (f.idx, f.flags)) (c.1.inf.map fun f => (f.idx, f.flags))
      (c.1.dm.map fun m => (m.idx, m.flags, m.codeOff)) (c.1.vm.map fun m => (m.idx, m.flags, m.codeOff)) c.2 := by
  intro c hc
  simp only [T, List.mem_singleton] at hc
  subst hc
  exact ⟨[1], [1], [1], [2], [0, 9], [1, 2], [0, 129, 128, 4, 176, 3], [1, 1, 200, 3, 1, 1, 248, 3],
    ⟨by decide, by decide, by decide⟩, ⟨by decide, by decide, by decide⟩, ⟨by decide, by decide, by decide⟩,
    ⟨by decide, by decide, by decide⟩,
    (.cons 0 0 9 [0] [9] _ _ (by decide) ⟨by decide, by decide, by decide⟩ ⟨by decide, by decide, by decide⟩ (.nil 0)),
    (.cons 0 1 2 [1] [2] _ _ (by decide) ⟨by decide, by decide, by decide⟩ ⟨by decide, by decide, by decide⟩ (.nil 1)),
    (.cons 0 0 65537 432 [0] [129, 128, 4] [176, 3] _ _ (by decide) ⟨by decide, by decide, by decide⟩ ⟨by decide, by decide, by decide⟩ ⟨by decide, by decide, by decide⟩ (.nil 0)),
    (.cons 0 1 1 456 [1] [1] [200, 3] _ _ (by decide) ⟨by decide, by decide, by decide⟩ ⟨by decide, by decide, by decide⟩ ⟨by decide, by decide, by decide⟩ (.cons 1 2 1 504 [1] [1] [248, 3] _ _ (by decide) ⟨by decide, by decide, by decide⟩ ⟨by decide, by decide, by decide⟩ ⟨by decide, by decide, by decide⟩ (.nil 2))),
    by decide⟩

instance (h : AgVerif.Spec.Tries.EncHandler) : Decidable h.WF := by
  obtain ⟨size, pairs, ca⟩ := h
  unfold AgVerif.Spec.Tries.EncHandler.WF
  cases ca <;> exact inferInstance

theorem codeRest : ∀ p ∈ T.codes, ∃ tail pad, p.2 = tail ++ pad ∧ CodeTail p.1 tail ∧
    pad.length = (4 - (encCode p.1 ++ tail).length % 4) % 4 := by
  intro p hp
  simp only [T, List.mem_cons, List.not_mem_nil, or_false] at hp
  rcases hp with rfl | rfl | rfl
  · exact ⟨[], [], by decide, by unfold CodeTail; rw [if_pos (by decide)], by decide⟩
  · refine ⟨[0, 0, 0, 0, 0, 0, 1, 0, 1, 0, 1, 127, 3, 2, 5], [0, 0, 0], by decide, ?_, by decide⟩
    unfold CodeTail; rw [if_neg (by decide)]
    exact ⟨[0, 0], (⟨⟨1, [1]⟩, [⟨⟨-1, [127]⟩, [⟨⟨3, [3]⟩, ⟨2, [2]⟩⟩], some ⟨5, [5]⟩⟩], [⟨0, 1, 0, 1⟩]⟩ : AgVerif.Spec.Tries.Plan), by decide, by decide, by decide, by decide, by decide, by decide⟩
  · exact ⟨[], [1, 1], by decide, by unfold CodeTail; rw [if_pos (by decide)], by decide⟩

theorem encodes : Encodes file L T where
  mapOff_ne := by decide
  mapOff_lt := by decide
  header := at_intro _ _ _ (by decide +kernel) (by decide +kernel)
  mapLen := by decide
  mapAt := at_intro _ _ _ (by decide +kernel) (by decide +kernel)
  nodup := by decide +kernel
  members := by decide +kernel
  ranges := by decide +kernel
  strItem := strItem_dec _ (by decide +kernel)
  tlPad := by decide +kernel
  cdEnc := cdEnc
  codeRest := codeRest
  strings := section_intro ⟨0x2002, 14, 314⟩ (by decide +kernel) (by decide +kernel) (by decide +kernel) (by decide +kernel) (by decide +kernel)
  stringIds := section_intro ⟨0x1, 14, 112⟩ (by decide +kernel) (by decide +kernel) (by decide +kernel) (by decide +kernel) (by decide +kernel)
  typeIds := section_intro ⟨0x2, 7, 168⟩ (by decide +kernel) (by decide +kernel) (by decide +kernel) (by decide +kernel) (by decide +kernel)
  protoIds := section_intro ⟨0x3, 2, 196⟩ (by decide +kernel) (by decide +kernel) (by decide +kernel) (by decide +kernel) (by decide +kernel)
  fieldIds := section_intro ⟨0x4, 2, 220⟩ (by decide +kernel) (by decide +kernel) (by decide +kernel) (by decide +kernel) (by decide +kernel)
  methodIds := section_intro ⟨0x5, 4, 236⟩ (by decide +kernel) (by decide +kernel) (by decide +kernel) (by decide +kernel) (by decide +kernel)
  typeLists := section_intro ⟨0x1001, 2, 300⟩ (by decide +kernel) (by decide +kernel) (by decide +kernel) (by decide +kernel) (by decide +kernel)
  classData := section_intro ⟨0x2000, 1, 522⟩ (by decide +kernel) (by decide +kernel) (by decide +kernel) (by decide +kernel) (by decide +kernel)
  codes := section_intro ⟨0x2001, 3, 432⟩ (by decide +kernel) (by decide +kernel) (by decide +kernel) (by decide +kernel) (by decide +kernel)
  classDefs := section_intro ⟨0x6, 1, 268⟩ (by decide +kernel) (by decide +kernel) (by decide +kernel) (by decide +kernel) (by decide +kernel)

theorem wf : WF T L := by decide +kernel

end AgVerif.C05.Example
