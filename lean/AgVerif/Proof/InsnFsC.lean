/- C01: field meaning (model view = specification meaning) of the classes 23x 22b 22t 22s 22c -/
import AgVerif.Proof.InsnView
set_option linter.unusedSimpArgs false
set_option linter.unusedVariables false
namespace AgVerif.Insn
open AgVerif.Gen AgVerif.Spec

theorem fs_23x (bs : List Nat) (hb : AllBytes bs) (x : Insn) (h : decode .f23x bs = .ok x)
    (hk : needsKind .f23x = true → ∃ k, kindOf x.op = some k) :
    View.ofInsn x = View.ofMeaning (Dalvik.meaning .f23x x.op (leNat (bs.take (Opcodes.length .f23x)))) ∧
      x.op = Dalvik.bits (leNat (bs.take (Opcodes.length .f23x))) 0 8 := by
  have hl := decode_ok_length h
  obtain ⟨b0, b1, b2, b3, r, rfl⟩ := ex4 _ (by simpa [Opcodes.length] using hl)
  simp only [allBytes_cons] at hb
  obtain ⟨h0, h1, h2, h3, _⟩ := hb
  dec_simp at h
  fs_finish

theorem fs_22b (bs : List Nat) (hb : AllBytes bs) (x : Insn) (h : decode .f22b bs = .ok x)
    (hk : needsKind .f22b = true → ∃ k, kindOf x.op = some k) :
    View.ofInsn x = View.ofMeaning (Dalvik.meaning .f22b x.op (leNat (bs.take (Opcodes.length .f22b)))) ∧
      x.op = Dalvik.bits (leNat (bs.take (Opcodes.length .f22b))) 0 8 := by
  have hl := decode_ok_length h
  obtain ⟨b0, b1, b2, b3, r, rfl⟩ := ex4 _ (by simpa [Opcodes.length] using hl)
  simp only [allBytes_cons] at hb
  obtain ⟨h0, h1, h2, h3, _⟩ := hb
  dec_simp at h
  fs_finish

theorem fs_22t (bs : List Nat) (hb : AllBytes bs) (x : Insn) (h : decode .f22t bs = .ok x)
    (hk : needsKind .f22t = true → ∃ k, kindOf x.op = some k) :
    View.ofInsn x = View.ofMeaning (Dalvik.meaning .f22t x.op (leNat (bs.take (Opcodes.length .f22t)))) ∧
      x.op = Dalvik.bits (leNat (bs.take (Opcodes.length .f22t))) 0 8 := by
  have hl := decode_ok_length h
  obtain ⟨b0, b1, b2, b3, r, rfl⟩ := ex4 _ (by simpa [Opcodes.length] using hl)
  simp only [allBytes_cons] at hb
  obtain ⟨h0, h1, h2, h3, _⟩ := hb
  dec_simp at h
  fs_finish

theorem fs_22s (bs : List Nat) (hb : AllBytes bs) (x : Insn) (h : decode .f22s bs = .ok x)
    (hk : needsKind .f22s = true → ∃ k, kindOf x.op = some k) :
    View.ofInsn x = View.ofMeaning (Dalvik.meaning .f22s x.op (leNat (bs.take (Opcodes.length .f22s)))) ∧
      x.op = Dalvik.bits (leNat (bs.take (Opcodes.length .f22s))) 0 8 := by
  have hl := decode_ok_length h
  obtain ⟨b0, b1, b2, b3, r, rfl⟩ := ex4 _ (by simpa [Opcodes.length] using hl)
  simp only [allBytes_cons] at hb
  obtain ⟨h0, h1, h2, h3, _⟩ := hb
  dec_simp at h
  fs_finish

theorem fs_22c (bs : List Nat) (hb : AllBytes bs) (x : Insn) (h : decode .f22c bs = .ok x)
    (hk : needsKind .f22c = true → ∃ k, kindOf x.op = some k) :
    View.ofInsn x = View.ofMeaning (Dalvik.meaning .f22c x.op (leNat (bs.take (Opcodes.length .f22c)))) ∧
      x.op = Dalvik.bits (leNat (bs.take (Opcodes.length .f22c))) 0 8 := by
  have hl := decode_ok_length h
  obtain ⟨b0, b1, b2, b3, r, rfl⟩ := ex4 _ (by simpa [Opcodes.length] using hl)
  simp only [allBytes_cons] at hb
  obtain ⟨h0, h1, h2, h3, _⟩ := hb
  dec_simp at h
  fs_finish

end AgVerif.Insn
