/-
Lemmas for C11: the children `set_childs` records are the in-method targets the specification lists.
Core Lean only.
-/
import AgVerif.Proof.CfgSpec
namespace AgVerif.Cfg
open AgVerif.Spec.Cfg AgVerif.Gen.CfgOps

/-- `get_targets()` of the switch payload the disassembly has at byte offset `a` (none: empty) -/
def rawTargets (m : List Ins) (a : Int) : List Int :=
  match insOff m a with
  | some (_, d) => if d.kind = 1 ∨ d.kind = 2 then d.targets else []
  | none => []

/-- every switch instruction's payload offset is 4-byte aligned, so `determineNext` adds no padding -/
def Aligned (m : List Ins) : Prop :=
  ∀ p ∈ withOff 0 m, isSwitch p.2.op = true → switchPad (p.2.refOff * 2 + (p.1 : Int)) = 0

theorem payloadTargets_raw (m : List Ins) (a : Int) (idx : Nat) :
    payloadTargets m a idx = (rawTargets m a).map (fun t => t * 2 + (idx : Int)) := by
  unfold payloadTargets rawTargets
  cases insOff m a with
  | none => simp
  | some p =>
    obtain ⟨o, d⟩ := p
    simp only
    split <;> simp

theorem basic_eq_control : basicOps = controlOps := by decide

theorem control_flow (op : Nat) : op ∈ controlOps ↔ flowOf op ≠ Flow.fall := by
  by_cases h : op < 62
  · have : ∀ n, n < 62 → (n ∈ controlOps ↔ flowOf n ≠ Flow.fall) := by decide
    exact this op h
  · have h1 : op ∉ controlOps := by simp [controlOps]; omega
    have h2 : flowOf op = Flow.fall := by
      unfold flowOf
      rw [if_neg (by omega), if_neg (by omega), if_neg (by omega), if_neg (by omega)]
    simp [h1, h2]

/-- on BasicOPCODES the four tests of `determineNext`, tried in order, pick the specification's case -/
theorem flow_table : ∀ op ∈ basicOps,
    (flowOf op = Flow.exit → isExit op = true) ∧
    (flowOf op = Flow.goto → isExit op = false ∧ isGoto op = true) ∧
    (flowOf op = Flow.cond → isExit op = false ∧ isGoto op = false ∧ isIf op = true) ∧
    (flowOf op = Flow.switch → isExit op = false ∧ isGoto op = false ∧ isIf op = false ∧ isSwitch op = true) := by
  decide

theorem getLast_split {b : Block} {i : Ins} (hl : b.insns.getLast? = some i) :
    ∃ pre, b.insns = pre ++ [i] := by
  rw [List.getLast?_eq_some_iff] at hl
  exact hl

theorem lastIdx_add_len {b : Block} {i : Ins} (hl : b.insns.getLast? = some i) :
    b.lastIdx + i.len = b.stop := by
  obtain ⟨pre, hp⟩ := getLast_split hl
  simp [Block.lastIdx, Block.lastLen, hl, Block.stop, hp, lenSum_append, lenSum]
  omega

theorem last_mem_withOff {m : List Ins} {ex : List Exc} {b : Block} (hb : b ∈ blocks m ex) {i : Ins}
    (hl : b.insns.getLast? = some i) : (b.lastIdx, i) ∈ withOff 0 m := by
  apply mem_withOff_insnAt.mpr
  apply block_insnAt hb
  obtain ⟨pre, hp⟩ := getLast_split hl
  rw [mem_withOff_iff]
  refine ⟨pre, [], hp, ?_⟩
  simp [Block.lastIdx, Block.lastLen, hl, Block.stop, hp, lenSum_append, lenSum]
  omega

/-- the block `get_basic_block(t)` finds for a leader `t` is the block that starts at `t`,
    and there is one exactly when `t` lies inside the method -/
theorem child_of_target {m : List Ins} {ex : List Exc} (hm : MinLen m) (hwf : WFTargets m ex)
    {t : Int} (ht : t ∈ leaders m ex) (s : Nat) :
    (∃ nb, getBlock (blocks m ex) t = some nb ∧ nb.start = s) ↔ ((s : Int) = t ∧ s < lenSum m) := by
  constructor
  · rintro ⟨nb, hg, hs⟩
    obtain ⟨hnb, h1, h2⟩ := getBlock_some hg
    have hbd := (chain_bounds _ _ _ (blocks_chain m ex)).2 nb hnb
    obtain ⟨o, ho⟩ : ∃ o : Nat, (o : Int) = t := ⟨t.toNat, by omega⟩
    have hl : (o : Int) ∈ leaders m ex := by rw [ho]; exact ht
    obtain ⟨c, hc, hcs⟩ := leader_block hl (hwf o hl (by omega))
    have hcpos := blocks_pos hm c hc
    have := chain_unique _ _ _ (blocks_chain m ex) (blocks_pos hm) nb hnb c hc t h1 h2 (by omega) (by omega)
    subst this
    constructor <;> omega
  · rintro ⟨hs, hlt⟩
    have hl : (s : Int) ∈ leaders m ex := by rw [hs]; exact ht
    obtain ⟨c, hc, hcs⟩ := leader_block hl (hwf s hl hlt)
    have hcpos := blocks_pos hm c hc
    refine ⟨c, ?_, hcs⟩
    rw [← hs]
    exact getBlock_of_mem (blocks_chain m ex) (blocks_pos hm) hc (by omega) (by omega)

/-- children of a block whose last instruction has a non-empty `determineNext` list -/
theorem childs_branch {m : List Ins} {ex : List Exc} (hm : MinLen m) (hwf : WFTargets m ex) {b : Block}
    (hv : (blockValues m b).isEmpty = false) (hlead : ∀ t ∈ blockValues m b, t ∈ leaders m ex) (s : Nat) :
    s ∈ (childs m (blocks m ex) b).map (·.2.2) ↔ ((s : Int) ∈ blockValues m b ∧ s < lenSum m) := by
  simp only [childs, hv, Bool.false_eq_true, ↓reduceIte, List.mem_map, List.mem_filterMap]
  constructor
  · rintro ⟨c, ⟨t, ht, hf⟩, hs⟩
    split at hf
    · simp at hf
    · split at hf
      · rename_i nb hg
        simp only [Option.some.injEq] at hf
        subst hf
        simp only at hs
        have := (child_of_target hm hwf (hlead t ht) s).mp ⟨nb, hg, hs⟩
        rw [this.1]
        exact ⟨ht, this.2⟩
      · simp at hf
  · rintro ⟨hmem, hlt⟩
    obtain ⟨nb, hg, hs⟩ := (child_of_target hm hwf (hlead _ hmem) s).mpr ⟨rfl, hlt⟩
    refine ⟨(b.lastIdx, (s : Int), nb.start), ⟨(s : Int), hmem, ?_⟩, hs⟩
    have hne : ¬ ((s : Int) = -1) := by omega
    simp [hne, hg]

/-- children of a block whose last instruction has an empty `determineNext` list (or none) -/
theorem childs_fall {m : List Ins} {ex : List Exc} (hm : MinLen m) {b : Block} (hb : b ∈ blocks m ex)
    (hv : (blockValues m b).isEmpty = true) (s : Nat) :
    s ∈ (childs m (blocks m ex) b).map (·.2.2) ↔ (s = b.stop ∧ s < lenSum m) := by
  simp only [childs, hv, ↓reduceIte]
  constructor
  · intro h
    split at h
    · rename_i nb hg
      simp at h
      obtain ⟨hnb, h1, h2⟩ := getBlock_some hg
      have hbd := (chain_bounds _ _ _ (blocks_chain m ex)).2 nb hnb
      have hlt : b.stop < lenSum m := by omega
      obtain ⟨c, hc, hcs⟩ := chain_next _ _ _ (blocks_chain m ex) b hb hlt
      have hcl := block_len_ge hm hc
      have := chain_unique _ _ _ (blocks_chain m ex) (blocks_pos hm) nb hnb c hc ((b.stop : Int) + 1) h1 h2
        (by omega) (by omega)
      subst this
      omega
    · simp at h
  · rintro ⟨hs, hlt⟩
    subst hs
    obtain ⟨c, hc, hcs⟩ := chain_next _ _ _ (blocks_chain m ex) b hb hlt
    have hcl := block_len_ge hm hc
    have hg : getBlock (blocks m ex) ((b.stop : Int) + 1) = some c :=
      getBlock_of_mem (blocks_chain m ex) (blocks_pos hm) hc (by omega) (by omega)
    simp [hg, hcs]

theorem mem_map_congr {f g : Int → Int} (h : ∀ t, f t = g t) (l : List Int) (x : Int) :
    x ∈ l.map f ↔ x ∈ l.map g := by
  have : f = g := funext h
  rw [this]

/-- main lemma of C11 -/
theorem childs_spec {m : List Ins} {ex : List Exc} (hm : MinLen m) (hwf : WFTargets m ex) (hal : Aligned m)
    {b : Block} (hb : b ∈ blocks m ex) {i : Ins} (hl : b.insns.getLast? = some i) (s : Nat) :
    s ∈ (childs m (blocks m ex) b).map (·.2.2) ↔
      ((s : Int) ∈ succ i.op b.lastIdx i.len i.refOff (rawTargets m ((b.lastIdx : Int) + 2 * i.refOff))
        ∧ s < lenSum m) := by
  have hlast := last_mem_withOff hb hl
  have hstop := lastIdx_add_len hl
  by_cases hbr : isBranch i = true
  · have hop : i.op ∈ basicOps := by simpa [isBranch] using hbr
    have hvals : blockValues m b = next m b.lastIdx i := by simp [blockValues, hl, branchNext, hbr]
    have hlead : ∀ t ∈ blockValues m b, t ∈ leaders m ex := by
      intro t ht; rw [hvals] at ht; exact next_mem_leaders hlast hbr ht
    obtain ⟨t1, t2, t3, t4⟩ := flow_table i.op hop
    have hctl : flowOf i.op ≠ Flow.fall := (control_flow i.op).mp (by rw [← basic_eq_control]; exact hop)
    cases hf : flowOf i.op with
    | fall => exact absurd hf hctl
    | exit =>
      have hn : next m b.lastIdx i = [-1] := by simp [next, t1 hf]
      rw [childs_branch hm hwf (by rw [hvals, hn]; rfl) hlead, hvals, hn]
      simp [succ, hf] <;> omega
    | goto =>
      obtain ⟨a1, a2⟩ := t2 hf
      have hn : next m b.lastIdx i = [i.refOff * 2 + (b.lastIdx : Int)] := by simp [next, a1, a2]
      rw [childs_branch hm hwf (by rw [hvals, hn]; rfl) hlead, hvals, hn]
      simp [succ, hf] <;> omega
    | cond =>
      obtain ⟨a1, a2, a3⟩ := t3 hf
      have hn : next m b.lastIdx i = [((b.lastIdx + i.len : Nat) : Int), i.refOff * 2 + (b.lastIdx : Int)] := by
        simp [next, a1, a2, a3]
      rw [childs_branch hm hwf (by rw [hvals, hn]; rfl) hlead, hvals, hn]
      simp [succ, hf] <;> omega
    | switch =>
      obtain ⟨a1, a2, a3, a4⟩ := t4 hf
      have hpad := hal (b.lastIdx, i) hlast a4
      simp only at hpad
      have hn : next m b.lastIdx i = ((b.lastIdx + i.len : Nat) : Int) ::
          (rawTargets m ((b.lastIdx : Int) + 2 * i.refOff)).map (fun t => t * 2 + (b.lastIdx : Int)) := by
        simp only [next, a1, a2, a3, a4, Bool.false_eq_true, ↓reduceIte, hpad, Int.add_zero, payloadTargets_raw]
        have : i.refOff * 2 + (b.lastIdx : Int) = (b.lastIdx : Int) + 2 * i.refOff := by omega
        rw [this]
      rw [childs_branch hm hwf (by rw [hvals, hn]; rfl) hlead, hvals, hn]
      simp only [succ, hf, List.mem_cons]
      rw [mem_map_congr (f := fun t => t * 2 + (b.lastIdx : Int)) (g := fun t => (b.lastIdx : Int) + 2 * t)
        (by intro t; omega)]
  · have hbr' : isBranch i = false := by simpa using hbr
    have hop : i.op ∉ basicOps := by simpa [isBranch] using hbr'
    have hvals : blockValues m b = [] := by simp [blockValues, hl, branchNext, hbr']
    have hf : flowOf i.op = Flow.fall := by
      by_cases h : flowOf i.op = Flow.fall
      · exact h
      · exact absurd (by rw [basic_eq_control]; exact (control_flow i.op).mpr h) hop
    rw [childs_fall hm hb (by rw [hvals]; rfl)]
    simp [succ, hf] <;> omega

/-- shape of every child entry -/
theorem childs_entry {m : List Ins} {ex : List Exc} {b : Block} {c : Nat × Int × Nat}
    (hc : c ∈ childs m (blocks m ex) b) :
    c.1 = b.lastIdx ∧ ∃ nb ∈ blocks m ex, nb.start = c.2.2 ∧
      (((nb.start : Int) ≤ c.2.1 ∧ c.2.1 < (nb.stop : Int)) ∨
       (c.2.1 = (b.stop : Int) ∧ (nb.start : Int) ≤ c.2.1 + 1 ∧ c.2.1 + 1 < (nb.stop : Int))) := by
  by_cases hv : (blockValues m b).isEmpty = true
  · simp only [childs, hv, ↓reduceIte] at hc
    split at hc
    · rename_i nb hg
      simp at hc
      subst hc
      obtain ⟨hnb, h1, h2⟩ := getBlock_some hg
      exact ⟨rfl, nb, hnb, rfl, Or.inr ⟨rfl, h1, h2⟩⟩
    · simp at hc
  · simp only [childs, hv, Bool.false_eq_true, ↓reduceIte, List.mem_filterMap] at hc
    obtain ⟨t, _, ht⟩ := hc
    split at ht
    · simp at ht
    · split at ht
      · rename_i nb hg
        simp at ht
        subst ht
        obtain ⟨hnb, h1, h2⟩ := getBlock_some hg
        exact ⟨rfl, nb, hnb, rfl, Or.inl ⟨h1, h2⟩⟩
      · simp at ht


/-! ### specification-side payload, leaders from the specification's targets (audit follow-up) -/

/-- with positive lengths the instruction the disassembly reports at an offset is the one `get_ins_off` returns -/
theorem insOffFrom_of_split : ∀ (pre : List Ins) (s : Nat) (d : Ins) (post : List Ins),
    (∀ i ∈ pre, 2 ≤ i.len) →
    insOffFrom s (pre ++ d :: post) ((s + lenSum pre : Nat) : Int) = some (s + lenSum pre, d) := by
  intro pre
  induction pre with
  | nil => intro s d post _; simp [insOffFrom, lenSum]
  | cons x pre ih =>
    intro s d post h
    have hx := h x List.mem_cons_self
    have hne : ¬ ((s : Int) = ((s + lenSum (x :: pre) : Nat) : Int)) := by simp [lenSum]; omega
    simp only [List.cons_append, insOffFrom, hne, ↓reduceIte]
    have := ih (s + x.len) d post (fun i hi => h i (List.mem_cons_of_mem _ hi))
    simpa [lenSum, Nat.add_assoc] using this

theorem insOff_of_insnAt {m : List Ins} (hm : MinLen m) {o : Nat} {d : Ins} (h : InsnAtM m o d) :
    insOff m (o : Int) = some (o, d) := by
  obtain ⟨pre, post, hm', ho⟩ := h
  rw [total_eq_lenSum] at ho
  subst hm' ho
  have := insOffFrom_of_split pre 0 d post (fun i hi => hm i (by simp [hi]))
  simpa [insOff] using this

/-- SPEC side: the disassembly reports the switch payload `d` (a PackedSwitch or SparseSwitch object)
    at byte offset `a` — stated with `Spec.Cfg.InsnAt` only, no lookup function, no default -/
def PayloadAt (m : List Ins) (a : Int) (d : Ins) : Prop :=
  ∃ o : Nat, (o : Int) = a ∧ InsnAtM m o d ∧ (d.kind = 1 ∨ d.kind = 2)

/-- every switch instruction's encoded offset is the offset of a switch payload (verifier requirement) -/
def SwitchesHavePayload (m : List Ins) : Prop :=
  ∀ p ∈ withOff 0 m, flowOf p.2.op = Flow.switch → ∃ d, PayloadAt m ((p.1 : Int) + 2 * p.2.refOff) d

theorem rawTargets_of_payloadAt {m : List Ins} (hm : MinLen m) {a : Int} {d : Ins} (h : PayloadAt m a d) :
    rawTargets m a = d.targets := by
  obtain ⟨o, ho, hat, hk⟩ := h
  unfold rawTargets
  rw [← ho, insOff_of_insnAt hm hat]
  simp [hk]

/-- every offset the specification lists as a successor of a control-transfer instruction is a
    `determineNext` value (so it is in the list `l` of `_create_basic_block`) -/
theorem spec_succ_mem_next {m : List Ins} (hal : Aligned m) {idx : Nat} {i : Ins}
    (hi : (idx, i) ∈ withOff 0 m) (hop : i.op ∈ basicOps) {x : Int}
    (hx : x ∈ succ i.op idx i.len i.refOff (rawTargets m ((idx : Int) + 2 * i.refOff))) :
    x ∈ next m idx i := by
  obtain ⟨t1, t2, t3, t4⟩ := flow_table i.op hop
  cases hf : flowOf i.op with
  | fall => exact absurd hf ((control_flow i.op).mp (by rw [← basic_eq_control]; exact hop))
  | exit => simp [succ, hf] at hx
  | goto =>
    obtain ⟨a1, a2⟩ := t2 hf
    simp [succ, hf] at hx
    simp [next, a1, a2]; omega
  | cond =>
    obtain ⟨a1, a2, a3⟩ := t3 hf
    simp [succ, hf] at hx
    simp [next, a1, a2, a3]; omega
  | switch =>
    obtain ⟨a1, a2, a3, a4⟩ := t4 hf
    have hpad := hal (idx, i) hi a4
    simp only at hpad
    have he : i.refOff * 2 + (idx : Int) = (idx : Int) + 2 * i.refOff := by omega
    rw [he] at hpad
    simp only [next, a1, a2, a3, a4, Bool.false_eq_true, ↓reduceIte, he, hpad, Int.add_zero, payloadTargets_raw]
    simp only [succ, hf, List.mem_cons] at hx ⊢
    rw [mem_map_congr (f := fun t => t * 2 + (idx : Int)) (g := fun t => (idx : Int) + 2 * t) (by intro t; omega)]
    exact hx

/-- `determineNext`'s switch case for ANY alignment: fall-through, then the case targets of whatever
    switch payload the disassembly has at the padded offset `a + switchPad a` -/
theorem next_switch_general (m : List Ins) (idx : Nat) (i : Ins) (hop : i.op ∈ basicOps)
    (hf : flowOf i.op = Flow.switch) :
    next m idx i = ((idx + i.len : Nat) : Int) ::
      (rawTargets m (i.refOff * 2 + (idx : Int) + switchPad (i.refOff * 2 + (idx : Int)))).map
        (fun t => t * 2 + (idx : Int)) := by
  obtain ⟨a1, a2, a3, a4⟩ := (flow_table i.op hop).2.2.2 hf
  simp only [next, a1, a2, a3, a4, Bool.false_eq_true, ↓reduceIte, payloadTargets_raw]

/-- the padding rounds the encoded offset up to the next multiple of the alignment constant -/
theorem switchPad_spec (a : Int) : 0 ≤ switchPad a ∧ switchPad a < 4 ∧ (a + switchPad a) % 4 = 0 ∧
    (switchPad a = 0 ↔ a % 4 = 0) := by
  unfold switchPad
  have : (payloadAlign : Int) = 4 := by decide
  simp only [this]
  split <;> omega

/-- handler address → handler block: the block `ExceptionAnalysis` attaches is the block starting there -/
theorem handler_block_of {m : List Ins} {ex : List Exc} (hm : MinLen m) {e : Exc} (he : e ∈ ex)
    {h : Option Nat × Nat} (hh : h ∈ e.handlers) (ho : InsnOffsetM m h.2) :
    ∃ b ∈ blocks m ex, b.start = h.2 ∧ getBlock (blocks m ex) (h.2 : Int) = some b := by
  obtain ⟨b, hb, hs⟩ := leader_block (handler_mem_leaders he hh) ho
  have hpos := blocks_pos hm b hb
  exact ⟨b, hb, hs, getBlock_of_mem (blocks_chain m ex) (blocks_pos hm) hb (by omega) (by omega)⟩


theorem withOff_append : ∀ (a b : List Ins) (s : Nat),
    withOff s (a ++ b) = withOff s a ++ withOff (s + lenSum a) b := by
  intro a
  induction a with
  | nil => intro b s; simp [withOff, lenSum]
  | cons x a ih => intro b s; simp [withOff, lenSum, ih, Nat.add_assoc]

theorem chain_withOff : ∀ (bs : List Block) (s e : Nat), Chain s bs e →
    withOff s (bs.flatMap (·.insns)) = bs.flatMap (fun b => withOff b.start b.insns) := by
  intro bs
  induction bs with
  | nil => intro s e _; simp [withOff]
  | cons a bs ih =>
    intro s e h
    obtain ⟨ha, _, hch⟩ := h
    simp only [List.flatMap_cons, withOff_append]
    rw [← ha, ← ih _ _ hch]
    rfl

/-- every (offset, instruction) pair of the method lies in exactly the block that holds it -/
theorem mem_block_of_mem_stream {m : List Ins} {ex : List Exc} {idx : Nat} {i : Ins}
    (hi : (idx, i) ∈ withOff 0 m) : ∃ b ∈ blocks m ex, (idx, i) ∈ withOff b.start b.insns := by
  have h := chain_withOff _ _ _ (blocks_chain m ex)
  rw [blocks_flatten] at h
  rw [h] at hi
  simpa [List.mem_flatMap] using hi

/-- a BasicOPCODES instruction is the last of its block, which ends right after it -/
theorem branch_ends_block {m : List Ins} {ex : List Exc} {idx : Nat} {i : Ins}
    (hi : (idx, i) ∈ withOff 0 m) (hbr : isBranch i = true) :
    ∃ b ∈ blocks m ex, b.insns.getLast? = some i ∧ b.lastIdx = idx ∧ b.stop = idx + i.len := by
  obtain ⟨b, hb, hmem⟩ := mem_block_of_mem_stream (ex := ex) hi
  obtain ⟨p1, p2, hl, ho⟩ := (mem_withOff_iff _ _ _ _).mp hmem
  have hlast := splitAux_branch_last (isLeader (leaders m ex)) isBranch m 0 ⟨0, []⟩ (by simp) b hb
  have hp2 : p2 = [] := by
    by_cases h : p2 = []
    · exact h
    · exfalso
      have : i ∈ b.insns.dropLast := by
        rw [hl, List.dropLast_append_of_ne_nil (by simp), List.dropLast_cons_of_ne_nil h]
        simp
      have := hlast i this
      simp [hbr] at this
  subst hp2
  have hg : b.insns.getLast? = some i := by rw [hl]; simp
  have hstop : b.stop = idx + i.len := by simp [Block.stop, hl, lenSum_append, lenSum, ho]; omega
  refine ⟨b, hb, hg, ?_, hstop⟩
  have := lastIdx_add_len hg
  omega

end AgVerif.Cfg
