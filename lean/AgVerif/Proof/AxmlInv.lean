/- C26, file level: what the proofs know about a parser state while it walks an encoded document. -/
import AgVerif.Spec.AxmlFile
namespace AgVerif.Proof.Axml
open AgVerif.Axml AgVerif.Spec.Axml AgVerif.Gen.AxmlConsts

/-- the parser state holds the pool and the resource map of the encoding -/
structure PoolOk (E : Enc) (s : PState) : Prop where
  get : ∀ x ∈ E.strings, s.pool.get (sidx E x) = .ok x
  res : s.resIds = E.resIds.getD []
  small : E.strings.length < 0xFFFFFFFF

/-- every open namespace is one of the declarations `D` -/
def NsOk (E : Enc) (D : List (Str × Str)) (s : PState) : Prop :=
  ∀ kv ∈ s.namespaces, ∃ d ∈ D, kv = (sidx E d.1, sidx E d.2)

/-- the declarations are plain and bind a prefix to one URI -/
def DeclsOk (E : Enc) (D : List (Str × Str)) : Prop :=
  (∀ d ∈ D, wfDecl E d = true) ∧ (∀ a ∈ D, ∀ b ∈ D, a.1 = b.1 → a.2 = b.2)

/-- the attribute as the parser stores it -/
def rawOf (E : Enc) (a : SAttr) : RawAttr :=
  ⟨oidx E a.ns, sidx E a.name, if a.ty = 3 then sidx E a.str else a.raw, a.ty, if a.ty = 3 then sidx E a.str else a.data⟩

end AgVerif.Proof.Axml
