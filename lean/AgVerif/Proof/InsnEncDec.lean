/-
C01/C02: the encode-then-decode direction.  `EncDec x`: `get_raw()` of the object `x` succeeds, has `length` bytes,
starts with the opcode byte, and the constructor of the class applied to those bytes (followed by anything)
rebuilds exactly `x`.  Tactic `ed_tac` proves it per class from explicit field ranges.
-/
import AgVerif.Proof.InsnRoundtrip
set_option linter.unusedSimpArgs false
set_option linter.unusedVariables false
namespace AgVerif.Insn
open AgVerif.Gen

def EncDec (x : Insn) : Prop :=
  ∃ bytes, encode x = some bytes ∧ bytes.length = Opcodes.length x.fmt ∧ AllBytes bytes ∧
    bytes.head? = some x.op ∧ ∀ rest, decode x.fmt (bytes ++ rest) = .ok x

/-- the eight little-endian bytes of an integer sum to its residue mod 2^64 -/
theorem le8_sum (v : Int) :
    v % 256 + 256 * (v / 256 % 256 + 256 * (v / 65536 % 256 + 256 * (v / 16777216 % 256 + 256 * (v / 4294967296 % 256 +
      256 * (v / 1099511627776 % 256 + 256 * (v / 281474976710656 % 256 + 256 * (v / 72057594037927936 % 256)))))))
      = v % 18446744073709551616 := by
  have d2 : v / 65536 = v / 256 / 256 := by omega
  have d3 : v / 16777216 = v / 65536 / 256 := by omega
  have d4 : v / 4294967296 = v / 16777216 / 256 := by omega
  have d5 : v / 1099511627776 = v / 4294967296 / 256 := by omega
  have d6 : v / 281474976710656 = v / 1099511627776 / 256 := by omega
  have d7 : v / 72057594037927936 = v / 281474976710656 / 256 := by omega
  rw [d7, d6, d5, d4, d3, d2]
  have f0 : v = v % 256 + 256 * (v / 256) ∧ 0 ≤ v % 256 ∧ v % 256 < 256 := by omega
  generalize v / 256 = q1 at *
  generalize v % 256 = r0 at *
  have f1 : q1 = q1 % 256 + 256 * (q1 / 256) ∧ 0 ≤ q1 % 256 ∧ q1 % 256 < 256 := by omega
  generalize q1 / 256 = q2 at *
  generalize q1 % 256 = r1 at *
  have f2 : q2 = q2 % 256 + 256 * (q2 / 256) ∧ 0 ≤ q2 % 256 ∧ q2 % 256 < 256 := by omega
  generalize q2 / 256 = q3 at *
  generalize q2 % 256 = r2 at *
  have f3 : q3 = q3 % 256 + 256 * (q3 / 256) ∧ 0 ≤ q3 % 256 ∧ q3 % 256 < 256 := by omega
  generalize q3 / 256 = q4 at *
  generalize q3 % 256 = r3 at *
  have f4 : q4 = q4 % 256 + 256 * (q4 / 256) ∧ 0 ≤ q4 % 256 ∧ q4 % 256 < 256 := by omega
  generalize q4 / 256 = q5 at *
  generalize q4 % 256 = r4 at *
  have f5 : q5 = q5 % 256 + 256 * (q5 / 256) ∧ 0 ≤ q5 % 256 ∧ q5 % 256 < 256 := by omega
  generalize q5 / 256 = q6 at *
  generalize q5 % 256 = r5 at *
  have f6 : q6 = q6 % 256 + 256 * (q6 / 256) ∧ 0 ≤ q6 % 256 ∧ q6 % 256 < 256 := by omega
  generalize q6 / 256 = q7 at *
  generalize q6 % 256 = r6 at *
  clear d2 d3 d4 d5 d6 d7
  omega

set_option hygiene false in
macro "ed_fin" : tactic => `(tactic| first
  | omega
  | ((repeat' apply And.intro) <;> omega))

set_option hygiene false in
macro "ed_tac" : tactic => `(tactic| (
  unfold EncDec
  simp only [encode, packArgs, Opcodes.packFmt, m0, m1, m2, m3, m4, m5, m7, m8, Opcodes.length]
  simp (disch := pack_disch) only [pack_cons_some, pack_nil, Option.map_some, SC.size]
  simp only [leBytes, leBytesFrom, Int.reduceMul, Int.ediv_one, List.cons_append, List.nil_append]
  refine ⟨_, rfl, rfl, ?_, ?_, ?_⟩
  · simp only [allBytes_cons, allBytes_nil, and_true]; ed_fin
  · simp only [List.head?_cons, Option.some.injEq]; omega
  · intro rest
    simp only [List.cons_append, List.nil_append]
    simp [decode, Opcodes.unpackFmt, Opcodes.length, unpack, calcsize, SC.size, unpackGo, leNat,
      SC.value, post, m0, m1, m2, m3, m4, m5, m7, m8]
    first
      | ed_fin
      | (rw [if_neg (by omega)]
         simp only [Except.ok.injEq, Insn.mk.injEq, List.cons.injEq, true_and, and_true]
         ed_fin)
      | (split <;> first | (exfalso; omega) | ed_fin | (simp; ed_fin))))

end AgVerif.Insn
