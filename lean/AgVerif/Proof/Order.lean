/-
Helper lemmas for C22 (order sites).  Core Lean only (List.Perm lives in core).
-/
import AgVerif.Model.Order
namespace AgVerif.Order
open List

/-! ### dedup (`dict.fromkeys`) -/

theorem mem_dedup {α} [BEq α] [LawfulBEq α] (l : List α) (x : α) : x ∈ dedup l ↔ x ∈ l := by
  induction l with
  | nil => simp [dedup]
  | cons y ys ih =>
    simp only [dedup, mem_cons, mem_filter, ih]
    constructor
    · rintro (h | ⟨h, _⟩)
      · exact Or.inl h
      · exact Or.inr h
    · rintro (h | h)
      · exact Or.inl h
      · by_cases e : x = y
        · exact Or.inl e
        · exact Or.inr ⟨h, by simpa using e⟩

theorem nodup_dedup {α} [BEq α] [LawfulBEq α] (l : List α) : (dedup l).Nodup := by
  induction l with
  | nil => simp [dedup]
  | cons y ys ih =>
    simp only [dedup, nodup_cons, mem_filter]
    refine ⟨?_, ih.filter _⟩
    rintro ⟨_, h⟩
    simp at h

/-- the repaired container enumerates exactly the set the legacy code enumerated -/
theorem enumOf_dedup {α} [BEq α] [LawfulBEq α] (l : List α) : EnumOf l (dedup l) :=
  ⟨nodup_dedup l, mem_dedup l⟩

theorem dedup_filter {α} [BEq α] [LawfulBEq α] (p : α → Bool) (l : List α) :
    dedup (l.filter p) = (dedup l).filter p := by
  induction l with
  | nil => simp [dedup]
  | cons y ys ih =>
    by_cases hy : p y = true
    · simp only [filter_cons, hy, if_true, dedup, ih, filter_filter]
      congr 1
      apply filter_congr
      intro z _
      exact Bool.and_comm _ _
    · have hy' : p y = false := by simpa using hy
      simp only [filter_cons, hy', dedup, filter_filter]
      simp only [Bool.false_eq_true, if_false]
      rw [ih]
      apply filter_congr
      intro z _
      by_cases e : z = y
      · subst e; simp [hy']
      · have : (z == y) = false := by simpa using e
        simp [this]

theorem foldl_addOnce {α} [BEq α] [LawfulBEq α] (l acc : List α) :
    l.foldl addOnce acc = acc ++ dedup (l.filter (fun x => !acc.contains x)) := by
  induction l generalizing acc with
  | nil => simp [dedup]
  | cons y ys ih =>
    simp only [foldl_cons]
    by_cases hy : acc.contains y = true
    · simp only [addOnce, hy, if_true, ih, filter_cons, Bool.not_true, Bool.false_eq_true, if_false]
    · have hy' : acc.contains y = false := by simpa using hy
      simp only [addOnce, hy', Bool.false_eq_true, if_false, ih, filter_cons, Bool.not_false, if_true, dedup,
        append_assoc, singleton_append]
      congr 2
      rw [← dedup_filter, filter_filter]
      congr 1
      apply filter_congr
      intro z _
      by_cases e : z = y
      · subst e; simp
      · have : (z == y) = false := by simpa using e
        simp [this, e]

/-- `add_variable_declaration` called for `adds` leaves exactly `dict.fromkeys(adds)` -/
theorem addAll_eq_dedup {α} [BEq α] [LawfulBEq α] (adds : List α) : addAll adds = dedup adds := by
  have h : adds.filter (fun x => !([] : List α).contains x) = adds := by simp
  simp only [addAll, foldl_addOnce, h, nil_append]

/-! ### lastSat (`compute_end`) -/

theorem foldl_lastSat {α} (p : α → Bool) (σ : List α) (e0 : Option α) :
    σ.foldl (fun e x => if p x then some x else e) e0 = ((σ.filter p).getLast?).or e0 := by
  induction σ generalizing e0 with
  | nil => simp
  | cons y ys ih =>
    simp only [foldl_cons, ih, filter_cons]
    by_cases hy : p y = true
    · simp only [hy, if_true, getLast?_cons]
      cases (filter p ys).getLast? <;> simp
    · have hy' : p y = false := by simpa using hy
      simp [hy']

theorem lastSat_eq {α} (p : α → Bool) (head : α) (σ : List α) :
    lastSat p head σ = ((σ.filter p).getLast?).getD head := by
  simp [lastSat, foldl_lastSat]

theorem lastSat_append_sat {α} (p : α → Bool) (head a : α) (l : List α) (ha : p a = true) :
    lastSat p head (l ++ [a]) = a := by
  simp [lastSat, foldl_append, ha]

theorem hasOutside_perm {α} [BEq α] [LawfulBEq α] (sucs : α → List α) {σ₁ σ₂ : List α} (h : σ₁ ~ σ₂)
    (x : α) : hasOutside sucs σ₁ x = hasOutside sucs σ₂ x := by
  unfold hasOutside
  congr 1
  funext s
  congr 1
  rw [Bool.eq_iff_iff]
  simp only [contains_iff_mem]
  exact h.mem_iff

/-! ### commuting folds -/

theorem upd_comm {α β : Type} [DecidableEq α] (s : α → β) (x y : α) (g : α → β → β) :
    upd (upd s x (g x (s x))) y (g y ((upd s x (g x (s x))) y))
      = upd (upd s y (g y (s y))) x (g x ((upd s y (g y (s y))) x)) := by
  by_cases e : x = y
  · subst e; rfl
  · funext z
    have e' : ¬ y = x := fun h => e h.symm
    simp only [upd]
    by_cases hz : z = y
    · subst hz; simp [e']
    · by_cases hx : z = x
      · subst hx; simp [e]
      · simp [hz, hx]

theorem popStep_comm {α} (op : α → α → α) (hc : ∀ a b, op a b = op b a)
    (ha : ∀ a b c, op (op a b) c = op a (op b c)) (z : Option α) (x y : α) :
    (some (match (some (match z with | none => x | some b => op b x) : Option α) with
            | none => y | some b => op b y) : Option α)
      = some (match (some (match z with | none => y | some b => op b y) : Option α) with
            | none => x | some b => op b x) := by
  cases z with
  | none => simp [hc x y]
  | some b => simp only [Option.some.injEq]; rw [ha, ha, hc x y]

end AgVerif.Order
