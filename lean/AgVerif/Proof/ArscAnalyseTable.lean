/-
C28 deepening, step 6b: `_analyse` on the parse of an encoded table: it does not raise (no complex
entry in a type named string/integer/color/dimen, distinct package names) and `resource_values`
holds, for every id, the configurations of the table in order of first appearance, each with the
entry stored last.  Core Lean only.
-/
import AgVerif.Proof.ArscAnalyse
namespace AgVerif.Arsc
open AgVerif.Gen.ArscConsts AgVerif.Spec.Arsc

/-- `getString` never raises on a pool read back from an encoded pool -/
theorem getString_poolOf_total (u8 : Bool) (strs : List (List Nat)) (hwf : strs.all wfStr = true) (i : Nat) :
    (poolOf u8 strs).getString i = some (if h : i < strs.length then utf8s strs[i] else []) := by
  by_cases hi : i < strs.length
  · rw [dif_pos hi]; exact pool_getString u8 strs hwf i hi
  · rw [dif_neg hi]
    unfold Pool.getString
    rw [if_pos]
    right
    simp only [poolOf]
    omega

/-- the name of type `typeId` as `get_type()` computes it -/
def typeNameSpec (p : Spec.Arsc.Package) (typeId : Nat) : List Nat :=
  if typeId = 0 then [] else if h : typeId - 1 < p.typeNames.length then utf8s p.typeNames[typeId - 1] else []

/-- the type names whose branch of `_analyse` reads `ate.key`, which a complex entry does not have -/
def restricted (tn : List Nat) : Bool :=
  tn == strBytes "string" || tn == strBytes "integer" || tn == strBytes "color" || tn == strBytes "dimen"

def noComplex (slots : List (Option Entry)) : Bool :=
  slots.all fun s => match s with
    | some (.complex ..) => false
    | _ => true

/-- no complex entry in a type named string / integer / color / dimen (the code raises there) -/
def analysable (t : Table) : Bool :=
  t.packages.all fun p => p.chunks.all fun c => !restricted (typeNameSpec p c.typeId) || noComplex c.slots

theorem typeName_packageOf (l : PkgLayout) (p : Spec.Arsc.Package) (hwf : p.typeNames.all wfStr = true) (typeId : Nat) :
    typeName (packageOf l p) typeId = some (typeNameSpec p typeId) := by
  unfold typeName typeNameSpec
  by_cases h0 : typeId = 0
  · simp [h0]
  · rw [if_neg h0, if_neg h0]
    exact getString_poolOf_total _ _ hwf _

theorem mem_atesOf {pkgId typeId : Nat} {slots : List (Option Entry)} {i : Nat} {a : Ate}
    (h : a ∈ atesOf pkgId typeId i slots) : ∃ e, some e ∈ slots ∧ a.e = rawOf e := by
  induction slots generalizing i with
  | nil => simp [atesOf] at h
  | cons s r ih =>
    cases s with
    | none =>
      obtain ⟨e, he, hr⟩ := ih (i := i + 1) (by simpa [atesOf] using h)
      exact ⟨e, by simp [he], hr⟩
    | some e0 =>
      simp only [atesOf, List.mem_cons] at h
      rcases h with rfl | h
      · exact ⟨e0, by simp, rfl⟩
      · obtain ⟨e, he, hr⟩ := ih h
        exact ⟨e, by simp [he], hr⟩

theorem wfSlots_mem {slots : List (Option Entry)} (h : wfSlots slots = true) {e : Entry} (he : some e ∈ slots) :
    wfEntry e = true := by
  have := (List.all_eq_true.mp h) (some e) he
  simpa using this

theorem noComplex_mem {slots : List (Option Entry)} (h : noComplex slots = true) {e : Entry} (he : some e ∈ slots) :
    ∀ f k p items, e ≠ .complex f k p items := by
  intro f k p items hc
  subst hc
  have := (List.all_eq_true.mp h) _ he
  simp at this

theorem ateOk_of (l : Layout) (t : Table) (pl : PkgLayout) (p : Spec.Arsc.Package)
    (hstr : t.strings.all wfStr = true) (hkn : p.keyNames.all wfStr = true) (tn : List Nat)
    (e : Entry) (hwe : wfEntry e = true) (hnc : restricted tn = true → ∀ f k q items, e ≠ .complex f k q items)
    (rid : Nat) :
    AteOk (parsedOf l t) (packageOf pl p) tn ⟨rid, rawOf e⟩ := by
  refine ⟨?_, ?_⟩
  · simp only [keyName, packageOf, getString_poolOf_total _ _ hkn, Option.isSome_some]
  · by_cases hs : tn == strBytes "string"
    · rw [if_pos hs]
      have hr : restricted tn = true := by simp [restricted, hs]
      have hnc' := hnc hr
      cases e with
      | simple f k ty d =>
        simp only [keyData, rawOf, mainString, parsedOf, getString_poolOf_total _ _ hstr, Option.isSome_some]
      | compact f k d =>
        simp only [keyData, rawOf, mainString, parsedOf, getString_poolOf_total _ _ hstr, Option.isSome_some]
      | complex f k q items => exact absurd rfl (hnc' f k q items)
    · rw [if_neg hs]
      unfold analyseRaises
      by_cases hr : restricted tn = true
      · have hnc' := hnc hr
        have : isComplex ⟨rid, rawOf e⟩ = false := by
          cases e with
          | simple f k ty d =>
            have := (wfEntry_simple hwe).2.1
            simp [isComplex, rawOf, this]
          | compact f k d =>
            have := (wfEntry_compact hwe).2.1
            simp [isComplex, rawOf, this]
          | complex f k q items => exact absurd rfl (hnc' f k q items)
        simp [this]
      · have hr' : restricted tn = false := by simpa using hr
        simp only [restricted, Bool.or_eq_false_iff] at hr'
        simp [hr'.1.1.2, hr'.1.2, hr'.2]


/-- every (resource id, configuration, entry) of the table, in file order -/
def tableTriples (t : Table) : List (Nat × ConfigWords × Ate) :=
  t.packages.flatMap fun p => p.chunks.flatMap fun c =>
    (atesOf p.id c.typeId 0 c.slots).map fun a => (a.resId, c.config.words, a)

theorem triples_packagesOf (pl : Nat → PkgLayout) (pkgs : List Spec.Arsc.Package) (i : Nat) :
    (packagesOf pl i pkgs).flatMap pkgTriples = tableTriples ⟨[], pkgs⟩ := by
  induction pkgs generalizing i with
  | nil => rfl
  | cons p r ih =>
    simp only [packagesOf, List.flatMap_cons, ih, tableTriples]
    congr 1
    simp only [pkgTriples, packageOf, List.flatMap_map]
    rfl

theorem mem_packagesOf {pl : Nat → PkgLayout} {pkgs : List Spec.Arsc.Package} {i : Nat} {pk : Package}
    (hwf : wfPackages pl i pkgs = true) (h : pk ∈ packagesOf pl i pkgs) :
    ∃ j p, p ∈ pkgs ∧ wfPackage (pl j) p = true ∧ pk = packageOf (pl j) p := by
  induction pkgs generalizing i with
  | nil => simp [packagesOf] at h
  | cons p r ih =>
    obtain ⟨hw1, hw2⟩ := (wfPackages_cons pl i p r).mp hwf
    simp only [packagesOf, List.mem_cons] at h
    rcases h with rfl | h
    · exact ⟨i, p, by simp, hw1, rfl⟩
    · obtain ⟨j, q, hq, hw, he⟩ := ih hw2 h
      exact ⟨j, q, by simp [hq], hw, he⟩

theorem mem_wfChunks {arr : Nat → ArrLayout} {chunks : List Spec.Arsc.TypeChunk} {i : Nat} {c : Spec.Arsc.TypeChunk}
    (hwf : wfChunks arr i chunks = true) (h : c ∈ chunks) : ∃ k, wfChunk (arr k) c = true := by
  induction chunks generalizing i with
  | nil => simp at h
  | cons d r ih =>
    obtain ⟨hw1, hw2⟩ := (wfChunks_cons arr i d r).mp hwf
    simp only [List.mem_cons] at h
    rcases h with rfl | h
    · exact ⟨i, hw1⟩
    · exact ih hw2 h

theorem chunkOk_parsedOf (l : Layout) (t : Table) (hwf : wfTable l t = true) (han : analysable t = true) :
    ∀ pk ∈ (parsedOf l t).packages, ∀ tc ∈ pk.chunks, ChunkOk (parsedOf l t) pk tc := by
  simp only [wfTable, Bool.and_eq_true, decide_eq_true_eq] at hwf
  obtain ⟨⟨_, hstr⟩, hpk⟩ := hwf
  intro pk hpkm tc htc
  obtain ⟨j, p, hp, hwp, rfl⟩ := mem_packagesOf hpk hpkm
  obtain ⟨_, _, htn, hkn, hch⟩ := (wfPackage_iff _ p).mp hwp
  simp only [packageOf, List.mem_map] at htc
  obtain ⟨c, hc, rfl⟩ := htc
  obtain ⟨k, hwc⟩ := mem_wfChunks hch hc
  obtain ⟨_, _, _, hslots, _⟩ := (wfChunk_iff _ c).mp hwc
  have hanc : (!restricted (typeNameSpec p c.typeId) || noComplex c.slots) = true :=
    (List.all_eq_true.mp ((List.all_eq_true.mp han) p hp)) c hc
  right
  refine ⟨typeNameSpec p c.typeId, typeName_packageOf _ p htn _, ?_⟩
  intro a ha
  simp only [chunkOf] at ha
  obtain ⟨e, he, hae⟩ := mem_atesOf ha
  have : a = ⟨a.resId, rawOf e⟩ := by cases a; simp only at hae; rw [hae]
  rw [this]
  refine ateOk_of l t _ p hstr hkn _ e (wfSlots_mem hslots he) ?_ _
  intro hr
  have : noComplex c.slots = true := by simpa [hr] using hanc
  exact noComplex_mem this he

/-- `_analyse` on the parse of an encoded table succeeds, and `resource_values` is the table's
    (id, configuration, entry) triples stored in file order -/
theorem analyse_enc (l : Layout) (t : Table) (hwf : wfTable l t = true)
    (hnames : (t.packages.map fun p => utf8s p.name).Nodup) (han : analysable t = true) :
    ∃ an, (parseTable (encTable l t).toArray).bind analyse = some an ∧
      an.resourceValues = rvFold [] (tableTriples t) := by
  rw [parseTable_enc l t hwf, Option.bind_some]
  have hn : ((parsedOf l t).packages.map (·.name)).Nodup := by
    have : (parsedOf l t).packages.map (·.name) = t.packages.map fun p => utf8s p.name := by
      have := packagesNames_enc l t
      simp only [parsedOf]
      clear this
      generalize (0 : Nat) = i
      induction t.packages generalizing i with
      | nil => rfl
      | cons p r ih => simp [packagesOf, packageOf, ih]
    rw [this]; exact hnames
  obtain ⟨an, h1, h2⟩ := analyse_rv (parsedOf l t) hn (chunkOk_parsedOf l t hwf han)
  refine ⟨an, h1, ?_⟩
  rw [h2]
  simp only [parsedOf, triples_packagesOf]
  rfl

/-- the (configuration, entry) pairs the table stores for an id, in file order -/
def storedFor (t : Table) (rid : Nat) : List (ConfigWords × Ate) :=
  ((tableTriples t).filter (·.1 == rid)).map (·.2)

theorem resource_values_enc (l : Layout) (t : Table) (hwf : wfTable l t = true)
    (hnames : (t.packages.map fun p => utf8s p.name).Nodup) (han : analysable t = true) :
    ∃ an, (parseTable (encTable l t).toArray).bind analyse = some an ∧
      ∀ rid, dictGet an.resourceValues rid = merged none (storedFor t rid) := by
  obtain ⟨an, h1, h2⟩ := analyse_enc l t hwf hnames han
  refine ⟨an, h1, fun rid => ?_⟩
  rw [h2, dictGet_rvFold]
  rfl

theorem merged_none_nodup (ps : List (ConfigWords × Ate)) (h : (ps.map (·.1)).Nodup) :
    merged none ps = if ps.isEmpty then none else some ps := by
  cases ps with
  | nil => rfl
  | cons p r =>
    have : merged none (p :: r) = some (cfgFold [] (p :: r)) := rfl
    rw [this, cfgFold_nodup [] (p :: r) (by simpa using h)]
    rfl

end AgVerif.Arsc
