/-
Helper lemmas for C37 (model: AgVerif.Paths): every path the decompile export creates lies inside
the output directory.
-/
import AgVerif.Model.Paths
namespace AgVerif.Paths

/-- `p` lies inside `out` (or is `out`): same root kind and the normalised components of `out` are a
    prefix of those of `p` -/
def Inside (out p : Path) : Prop :=
  initialSlashes p = initialSlashes out ∧ normComps out <+: normComps p
/-- … and is not `out` itself -/
def StrictlyInside (out p : Path) : Prop := Inside out p ∧ normComps p ≠ normComps out
/-- a real path component: non-empty, no '/', not "." and not ".." -/
def SafeComp (c : List Char) : Prop := c ≠ [] ∧ '/' ∉ c ∧ c ≠ dot ∧ c ≠ dotdot

/-! ## splitOn -/

theorem splitOn_ne_nil (c : Char) (a : List Char) : splitOn c a ≠ [] := by
  induction a with
  | nil => simp [splitOn]
  | cons x xs ih =>
    unfold splitOn
    split
    · simp
    · split
      · simp
      · simp

theorem splitOn_cons_ne (c x : Char) (xs : List Char) (h : x ≠ c) :
    ∃ hd tl, splitOn c xs = hd :: tl ∧ splitOn c (x :: xs) = (x :: hd) :: tl := by
  cases hs : splitOn c xs with
  | nil => exact absurd hs (splitOn_ne_nil c xs)
  | cons hd tl =>
    refine ⟨hd, tl, rfl, ?_⟩
    rw [splitOn, if_neg h, hs]

theorem splitOn_append_sep (a b : List Char) :
    splitOn sep (a ++ sep :: b) = splitOn sep a ++ splitOn sep b := by
  induction a with
  | nil => simp [splitOn]
  | cons x xs ih =>
    by_cases hx : x = sep
    · subst hx
      simp [splitOn, ih]
    · obtain ⟨hd, tl, h1, h2⟩ := splitOn_cons_ne sep x xs hx
      obtain ⟨hd', tl', h1', h2'⟩ := splitOn_cons_ne sep x (xs ++ sep :: b) hx
      rw [List.cons_append, h2', h2]
      rw [ih, h1] at h1'
      simp at h1'
      simp [h1'.1, h1'.2]

theorem splitOn_noSep (a : List Char) (h : sep ∉ a) : splitOn sep a = [a] := by
  induction a with
  | nil => simp [splitOn]
  | cons x xs ih =>
    simp at h
    obtain ⟨hd, tl, h1, h2⟩ := splitOn_cons_ne sep x xs (Ne.symm h.1)
    rw [h2]
    rw [ih h.2] at h1
    simp at h1
    simp [h1.1, h1.2]

theorem splitOn_mem_noSep (a c : List Char) (h : c ∈ splitOn sep a) : sep ∉ c := by
  induction a generalizing c with
  | nil => simp [splitOn] at h; simp [h]
  | cons x xs ih =>
    by_cases hx : x = sep
    · subst hx
      simp [splitOn] at h
      rcases h with h | h
      · simp [h]
      · exact ih c h
    · obtain ⟨hd, tl, h1, h2⟩ := splitOn_cons_ne sep x xs hx
      rw [h2] at h
      simp at h
      rcases h with h | h
      · subst h
        have := ih hd (by simp [h1])
        simp [this, Ne.symm hx]
      · exact ih c (by simp [h1, h])

/-! ## the normpath fold -/

/-- the (reversed) component stack after the whole of `p` -/
def st (abs : Bool) (p : Path) : List (List Char) := (splitOn sep p).foldl (normStep abs) []

theorem normComps_eq (p : Path) : normComps p = (st (initialSlashes p != 0) p).reverse := rfl

theorem st_append_sep (abs : Bool) (a b : Path) :
    st abs (a ++ sep :: b) = (splitOn sep b).foldl (normStep abs) (st abs a) := by
  simp [st, splitOn_append_sep, List.foldl_append]

theorem normStep_nil (abs : Bool) (s : List (List Char)) : normStep abs s [] = s := by
  simp [normStep]

theorem normStep_safe (abs : Bool) (s : List (List Char)) (c : List Char) (hc : SafeComp c) :
    normStep abs s c = c :: s := by
  obtain ⟨h1, _, h3, h4⟩ := hc
  simp [normStep, h1, h3, h4]

theorem st_nil (abs : Bool) : st abs [] = [] := by
  simp [st, splitOn, normStep]

theorem st_append_sep_nil (abs : Bool) (a : Path) : st abs (a ++ [sep]) = st abs a := by
  rw [st_append_sep]; simp [splitOn, normStep]

theorem st_append_sep_safe (abs : Bool) (a c : Path) (hc : SafeComp c) :
    st abs (a ++ sep :: c) = c :: st abs a := by
  rw [st_append_sep, splitOn_noSep c hc.2.1]; simp [normStep_safe _ _ _ hc]

theorem st_safe (abs : Bool) (c : Path) (hc : SafeComp c) : st abs c = [c] := by
  rw [st, splitOn_noSep c hc.2.1]; simp [normStep_safe _ _ _ hc]

/-! ## initial slashes -/

/-- number of leading slashes -/
def lead (p : Path) : Nat := (p.takeWhile (· == sep)).length

def slashKind (n : Nat) : Nat := if n = 0 then 0 else if n = 2 then 2 else 1

theorem lead_cons_sep (t : Path) : lead ('/' :: t) = lead t + 1 := by
  simp [lead, sep, List.takeWhile]

theorem lead_of_not_slash (p : Path) (h : ∀ t, p ≠ '/' :: t) : lead p = 0 := by
  cases p with
  | nil => rfl
  | cons x t =>
    have : x ≠ '/' := fun hx => h t (by rw [hx])
    have h2 : (x == '/') = false := by simpa using this
    simp [lead, sep, List.takeWhile, h2]

theorem initialSlashes_eq (p : Path) : initialSlashes p = slashKind (lead p) := by
  unfold initialSlashes
  split
  · simp [lead_cons_sep, slashKind]
  · next t h => simp [lead_cons_sep, slashKind, lead_of_not_slash t h]
  · next t _ h => simp [lead_cons_sep, slashKind, lead_of_not_slash t h]
  · next _ _ h => simp [slashKind, lead_of_not_slash p h]

/-- `p` contains a character other than '/' -/
def NonSlash (p : Path) : Prop := ∃ x ∈ p, x ≠ sep

theorem lead_append_of_nonSlash (a b : Path) (h : NonSlash a) : lead (a ++ b) = lead a := by
  induction a with
  | nil => obtain ⟨x, hx, _⟩ := h; simp at hx
  | cons y ys ih =>
    by_cases hy : y = sep
    · subst hy
      have : NonSlash ys := by
        obtain ⟨x, hx, hne⟩ := h
        simp at hx
        rcases hx with hx | hx
        · exact absurd hx hne
        · exact ⟨x, hx, hne⟩
      have := ih this
      simp only [lead] at this ⊢
      simp [List.takeWhile, this]
    · have h2 : (y == sep) = false := by simpa using hy
      simp [lead, List.takeWhile, h2]

theorem lead_append_congr (a b b' : Path) (h : lead b = lead b') : lead (a ++ b) = lead (a ++ b') := by
  induction a with
  | nil => simpa using h
  | cons y ys ih =>
    simp only [lead] at ih ⊢
    by_cases hy : y = sep
    · subst hy; simp [ih]
    · have h2 : (y == sep) = false := by simpa using hy
      simp [h2]

theorem path_cases (p : Path) : p = [] ∨ ∃ L x, p = L ++ [x] := by
  rcases List.eq_nil_or_concat p with h | ⟨L, x, h⟩
  · exact Or.inl h
  · exact Or.inr ⟨L, x, by simpa using h⟩

theorem lead_nil : lead [] = 0 := rfl
theorem lead_cons_sep' (t : Path) : lead (sep :: t) = lead t + 1 := lead_cons_sep t

/-- `b` does not start with '/' -/
def NoLeadSlash (b : Path) : Prop := ∀ t, b ≠ '/' :: t

theorem noLeadSlash_of_noSep (b : Path) (h : sep ∉ b) : NoLeadSlash b := by
  intro t ht
  subst ht
  simp [sep] at h

theorem lead_of_noLeadSlash (b : Path) (h : NoLeadSlash b) : lead b = 0 := lead_of_not_slash b h

theorem join2_eq (a b : Path) (hb : NoLeadSlash b) :
    join2 a b = if a.isEmpty || a.getLast? == some sep then a ++ b else a ++ sep :: b := by
  unfold join2
  split
  · next t => exact absurd rfl (hb t)
  · rfl

theorem join2_nil_left (b : Path) (hb : NoLeadSlash b) : join2 [] b = b := by
  simp [join2_eq _ _ hb]

theorem join2_snoc_sep (L b : Path) (hb : NoLeadSlash b) : join2 (L ++ [sep]) b = L ++ sep :: b := by
  simp [join2_eq _ _ hb]

theorem join2_snoc_ne (L : Path) (x : Char) (b : Path) (hx : x ≠ sep) (hb : NoLeadSlash b) :
    join2 (L ++ [x]) b = (L ++ [x]) ++ sep :: b := by
  simp [join2_eq _ _ hb, hx]

theorem nonSlash_snoc (L : Path) (x : Char) (hx : x ≠ sep) : NonSlash (L ++ [x]) :=
  ⟨x, by simp, hx⟩

/-- same root kind and same normalised components -/
def SameNorm (a b : Path) : Prop := normComps a = normComps b ∧ initialSlashes a = initialSlashes b

theorem SameNorm.rfl' (a : Path) : SameNorm a a := ⟨rfl, rfl⟩
theorem SameNorm.symm {a b : Path} (h : SameNorm a b) : SameNorm b a := ⟨h.1.symm, h.2.symm⟩
theorem SameNorm.trans {a b c : Path} (h : SameNorm a b) (h' : SameNorm b c) : SameNorm a c :=
  ⟨h.1.trans h'.1, h.2.trans h'.2⟩

theorem sameNorm_snoc_sep (p : Path) (h : NonSlash p) : SameNorm (p ++ [sep]) p := by
  have hi : initialSlashes (p ++ [sep]) = initialSlashes p := by
    simp [initialSlashes_eq, lead_append_of_nonSlash _ _ h]
  refine ⟨?_, hi⟩
  rw [normComps_eq, normComps_eq, hi, st_append_sep_nil]

theorem sameNorm_append_replicate (p : Path) (h : NonSlash p) (k : Nat) :
    SameNorm (p ++ List.replicate k sep) p := by
  induction k with
  | zero => simpa using SameNorm.rfl' p
  | succ k ih =>
    rw [List.replicate_succ', ← List.append_assoc]
    refine SameNorm.trans (sameNorm_snoc_sep _ ?_) ih
    obtain ⟨x, hx, hne⟩ := h
    exact ⟨x, by simp [hx], hne⟩

/-- pushing one safe component -/
theorem join2_safe (p c : Path) (hc : SafeComp c) :
    normComps (join2 p c) = normComps p ++ [c] ∧ initialSlashes (join2 p c) = initialSlashes p := by
  have hb : NoLeadSlash c := noLeadSlash_of_noSep c hc.2.1
  have key : ∀ q : Path, initialSlashes q = initialSlashes p →
      (∀ abs, st abs q = c :: st abs p) → normComps q = normComps p ++ [c] ∧
        initialSlashes q = initialSlashes p := by
    intro q hi hst
    refine ⟨?_, hi⟩
    rw [normComps_eq, normComps_eq, hi, hst]; simp
  rcases path_cases p with rfl | ⟨L, x, rfl⟩
  · rw [join2_nil_left c hb]
    apply key
    · rw [initialSlashes_eq, initialSlashes_eq, lead_of_noLeadSlash c hb, lead_nil]
    · intro abs; rw [st_safe abs c hc, st_nil]
  · by_cases hx : x = sep
    · subst hx
      rw [join2_snoc_sep L c hb]
      apply key
      · simp only [initialSlashes_eq]
        rw [lead_append_congr L (sep :: c) [sep]]
        rw [lead_cons_sep', lead_cons_sep', lead_of_noLeadSlash c hb, lead_nil]
      · intro abs; rw [st_append_sep_safe abs L c hc, st_append_sep_nil]
    · rw [join2_snoc_ne L x c hx hb]
      apply key
      · rw [initialSlashes_eq, initialSlashes_eq,
          lead_append_of_nonSlash _ _ (nonSlash_snoc L x hx)]
      · intro abs; rw [st_append_sep_safe abs _ c hc]

/-! ## joining several safe components -/

theorem noLeadSlash_nil : NoLeadSlash [] := by intro t h; cases h

theorem noLeadSlash_append (a b : Path) (ha : NoLeadSlash a) (hb : NoLeadSlash b) :
    NoLeadSlash (a ++ b) := by
  cases a with
  | nil => simpa using hb
  | cons x xs =>
    intro t h
    simp at h
    exact ha xs (by rw [h.1])

theorem noLeadSlash_append_of_ne (a b : Path) (ha : NoLeadSlash a) (hne : a ≠ []) :
    NoLeadSlash (a ++ b) := by
  cases a with
  | nil => exact absurd rfl hne
  | cons x xs =>
    intro t h
    simp at h
    exact ha xs (by rw [h.1])

theorem noLeadSlash_join2 (a b : Path) (ha : NoLeadSlash a) (hb : NoLeadSlash b) :
    NoLeadSlash (join2 a b) := by
  rw [join2_eq a b hb]
  split
  · exact noLeadSlash_append a b ha hb
  · next h =>
    apply noLeadSlash_append_of_ne a _ ha
    intro hn; subst hn; simp at h

theorem getLast?_cons_snoc (z : Char) (R : List Char) (y : Char) :
    (z :: (R ++ [y])).getLast? = some y := by
  have : z :: (R ++ [y]) = (z :: R) ++ [y] := rfl
  rw [this, List.getLast?_append]; simp

theorem join2_assoc (a r c : Path) (hr : NoLeadSlash r) (hc : NoLeadSlash c) :
    join2 a (join2 r c) = join2 (join2 a r) c := by
  have hrc := noLeadSlash_join2 r c hr hc
  rw [join2_eq a _ hrc, join2_eq r c hc, join2_eq (join2 a r) c hc, join2_eq a r hr]
  rcases path_cases r with rfl | ⟨R, y, rfl⟩
  · rcases path_cases a with rfl | ⟨A, x, rfl⟩
    · simp
    · by_cases hx : x = sep <;> simp [hx]
  · rcases path_cases a with rfl | ⟨A, x, rfl⟩
    · simp
    · by_cases hx : x = sep <;> by_cases hy : y = sep <;> simp [hx, hy, getLast?_cons_snoc]

theorem join_cons (a c : Path) (cs : List Path) : join a (c :: cs) = join (join2 a c) cs := rfl
theorem join_nil (a : Path) : join a [] = a := rfl

theorem join2_join (a r : Path) (cs : List Path) (hr : NoLeadSlash r)
    (hcs : ∀ c ∈ cs, NoLeadSlash c) : join2 a (join r cs) = join (join2 a r) cs := by
  induction cs generalizing r with
  | nil => rfl
  | cons c cs ih =>
    have hc := hcs c (by simp)
    rw [join_cons, join_cons, ih (join2 r c) (noLeadSlash_join2 r c hr hc)
      (fun c' h' => hcs c' (by simp [h'])), join2_assoc a r c hr hc]

theorem join_safe (p : Path) (cs : List Path) (hcs : ∀ c ∈ cs, SafeComp c) :
    normComps (join p cs) = normComps p ++ cs ∧ initialSlashes (join p cs) = initialSlashes p := by
  induction cs generalizing p with
  | nil => simp [join_nil]
  | cons c cs ih =>
    have hc := hcs c (by simp)
    obtain ⟨h1, h2⟩ := ih (join2 p c) (fun c' h' => hcs c' (by simp [h']))
    obtain ⟨h3, h4⟩ := join2_safe p c hc
    rw [join_cons, h1, h2, h3, h4]
    simp

theorem sameNorm_join2_nil (p : Path) : SameNorm (join2 p []) p := by
  rw [join2_eq p [] noLeadSlash_nil]
  rcases path_cases p with rfl | ⟨L, x, rfl⟩
  · simpa using SameNorm.rfl' []
  · by_cases hx : x = sep
    · subst hx; simpa using SameNorm.rfl' _
    · have := sameNorm_snoc_sep _ (nonSlash_snoc L x hx)
      simpa [hx] using this

theorem safe_noLeadSlash (c : Path) (hc : SafeComp c) : NoLeadSlash c :=
  noLeadSlash_of_noSep c hc.2.1

/-- Key lemma: joining safe components to `out` pushes exactly these components. -/
theorem join2_join_safe (out : Path) (cs : List Path) (hcs : ∀ c ∈ cs, SafeComp c) :
    normComps (join2 out (join [] cs)) = normComps out ++ cs ∧
      initialSlashes (join2 out (join [] cs)) = initialSlashes out := by
  rw [join2_join out [] cs noLeadSlash_nil (fun c h => safe_noLeadSlash c (hcs c h))]
  obtain ⟨h1, h2⟩ := join_safe (join2 out []) cs hcs
  obtain ⟨h3, h4⟩ := sameNorm_join2_nil out
  rw [h1, h2, h3, h4]
  exact ⟨rfl, rfl⟩

theorem normComps_join2_join (out : Path) (cs : List Path) (hcs : ∀ c ∈ cs, SafeComp c) :
    normComps (join2 out (join [] cs)) = normComps out ++ cs := (join2_join_safe out cs hcs).1

theorem initialSlashes_join2_join (out : Path) (cs : List Path) (hcs : ∀ c ∈ cs, SafeComp c) :
    initialSlashes (join2 out (join [] cs)) = initialSlashes out := (join2_join_safe out cs hcs).2

/-! ## valid_class_name, class folder, java file -/

theorem validClassName_safe (cn v : List Char) (h : validClassName cn = some v) :
    ∃ cs, (∀ c ∈ cs, SafeComp c) ∧ v = join [] cs := by
  unfold validClassName at h
  split at h
  · cases h
  · simp only [Option.some.injEq] at h
    refine ⟨_, ?_, h.symm⟩
    intro c hc
    rw [List.mem_filter] at hc
    obtain ⟨hmem, hdrop⟩ := hc
    have hns := splitOn_mem_noSep _ c hmem
    simp [Gen.Paths.droppedSegments] at hdrop
    exact ⟨hdrop.1, hns, by simpa [dot] using hdrop.2.1, by simpa [dotdot] using hdrop.2.2⟩

theorem inside_of_comps (out p : Path) (cs : List Path)
    (h1 : normComps p = normComps out ++ cs) (h2 : initialSlashes p = initialSlashes out) :
    Inside out p := ⟨h2, by rw [h1]; exact List.prefix_append _ _⟩

theorem strictlyInside_of_comps (out p : Path) (cs : List Path) (hne : cs ≠ [])
    (h1 : normComps p = normComps out ++ cs) (h2 : initialSlashes p = initialSlashes out) :
    StrictlyInside out p := by
  refine ⟨inside_of_comps out p cs h1 h2, ?_⟩
  rw [h1]
  simpa using hne

theorem class_dir_inside (out cls d : List Char) (h : classDir out cls = some d) : Inside out d := by
  unfold classDir at h
  cases hv : validClassName cls with
  | none => simp [hv] at h
  | some v =>
    simp [hv] at h
    obtain ⟨cs, hcs, rfl⟩ := validClassName_safe cls v hv
    subst h
    exact inside_of_comps out _ cs (normComps_join2_join out cs hcs)
      (initialSlashes_join2_join out cs hcs)

/-- appending a suffix without '/' that contains a character other than '.' -/
theorem safe_append (c t : Path) (hc : sep ∉ c) (ht : sep ∉ t) (hx : ∃ x ∈ t, x ≠ '.') :
    SafeComp (c ++ t) := by
  obtain ⟨x, hxt, hx⟩ := hx
  have hmem : x ∈ c ++ t := by simp [hxt]
  refine ⟨?_, ?_, ?_, ?_⟩
  · intro h; rw [h] at hmem; simp at hmem
  · simpa [sep] using And.intro hc ht
  · intro h; rw [h] at hmem; simp [dot] at hmem; exact hx hmem
  · intro h; rw [h] at hmem; simp [dotdot] at hmem; exact hx hmem

theorem join_snoc (a : Path) (cs : List Path) (c : Path) :
    join a (cs ++ [c]) = join2 (join a cs) c := by
  simp [join, List.foldl_append]

theorem join2_append (a f t : Path) (hf : NoLeadSlash f) (hft : NoLeadSlash (f ++ t)) :
    join2 a f ++ t = join2 a (f ++ t) := by
  rw [join2_eq a f hf, join2_eq a _ hft]
  split <;> simp

theorem noLeadSlash_join (a : Path) (cs : List Path) (ha : NoLeadSlash a)
    (hcs : ∀ c ∈ cs, NoLeadSlash c) : NoLeadSlash (join a cs) := by
  induction cs generalizing a with
  | nil => exact ha
  | cons c cs ih =>
    rw [join_cons]
    exact ih _ (noLeadSlash_join2 a c ha (hcs c (by simp))) (fun c' h' => hcs c' (by simp [h']))

/-- `join [] cs ++ t` is again a join of safe components, and there is at least one -/
theorem join_nil_append_suffix (cs : List Path) (hcs : ∀ c ∈ cs, SafeComp c) (t : Path)
    (ht : sep ∉ t) (hx : ∃ x ∈ t, x ≠ '.') :
    ∃ cs', (∀ c ∈ cs', SafeComp c) ∧ cs' ≠ [] ∧ join [] cs ++ t = join [] cs' := by
  rcases List.eq_nil_or_concat cs with rfl | ⟨cs0, c, rfl⟩
  · have hs : SafeComp t := by simpa using safe_append [] t (by simp) ht hx
    refine ⟨[t], by simpa using hs, by simp, ?_⟩
    simp [join, join2_nil_left t (safe_noLeadSlash t hs)]
  · rw [List.concat_eq_append] at hcs ⊢
    have hc := hcs c (by simp)
    have hs : SafeComp (c ++ t) := safe_append c t hc.2.1 ht hx
    refine ⟨cs0 ++ [c ++ t], ?_, by simp, ?_⟩
    · intro c' h'
      simp at h'
      rcases h' with h' | h'
      · exact hcs c' (by simp [h'])
      · rw [h']; exact hs
    · rw [join_snoc, join_snoc, join2_append _ c t (safe_noLeadSlash c hc) (safe_noLeadSlash _ hs)]

theorem java_file_inside (out cls j : List Char) (h : javaFile out cls = some j) :
    StrictlyInside out j := by
  unfold javaFile at h
  cases hv : validClassName cls with
  | none => simp [hv] at h
  | some v =>
    simp [hv] at h
    obtain ⟨cs, hcs, rfl⟩ := validClassName_safe cls v hv
    subst h
    obtain ⟨cs', hcs', hne, heq⟩ := join_nil_append_suffix cs hcs Gen.Paths.javaSuffix
      (by decide) ⟨'j', by decide, by decide⟩
    rw [heq]
    exact strictlyInside_of_comps out _ cs' hne (normComps_join2_join out cs' hcs')
      (initialSlashes_join2_join out cs' hcs')

theorem sanitizeShort_no_sep (s : List Char) : sep ∉ sanitizeShort s := by
  unfold sanitizeShort
  rw [List.mem_flatMap]
  rintro ⟨c, _, hc⟩
  split at hc
  · revert hc; decide
  · next hr =>
    simp at hc
    subst hc
    revert hr; decide

/-! ## posixpath.split of `join2 d short` and the method file -/

theorem uptoLast_noSep (s : Path) (hs : sep ∉ s) : uptoLast sep s = [] := by
  unfold uptoLast
  have : s.reverse.dropWhile (· != sep) = [] := by
    have := List.dropWhile_append_of_pos (p := (· != sep)) (l₁ := s.reverse) (l₂ := [])
      (by intro a ha; simp at ha; simp; rintro rfl; exact hs ha)
    simpa using this
  rw [this]; rfl

theorem uptoLast_append_sep_noSep (a s : Path) (hs : sep ∉ s) :
    uptoLast sep (a ++ sep :: s) = a ++ [sep] := by
  unfold uptoLast
  have e : (a ++ sep :: s).reverse = s.reverse ++ sep :: a.reverse := by simp
  rw [e, List.dropWhile_append_of_pos
    (by intro x hx; simp at hx; simp; rintro rfl; exact hs hx),
    List.dropWhile_cons_of_neg (by simp)]
  simp

theorem dropWhile_sep_spec (l : List Char) :
    ∃ k, l = List.replicate k sep ++ l.dropWhile (· == sep) := by
  induction l with
  | nil => exact ⟨0, rfl⟩
  | cons x xs ih =>
    by_cases hx : x = sep
    · subst hx
      obtain ⟨k, hk⟩ := ih
      refine ⟨k + 1, ?_⟩
      rw [List.dropWhile_cons_of_pos (by simp), List.replicate_succ, List.cons_append, ← hk]
    · refine ⟨0, ?_⟩
      rw [List.dropWhile_cons_of_neg (by simpa using hx)]; rfl

theorem rstrip_spec (d : Path) : ∃ k, d = rstrip sep d ++ List.replicate k sep := by
  obtain ⟨k, hk⟩ := dropWhile_sep_spec d.reverse
  refine ⟨k, ?_⟩
  have := congrArg List.reverse hk
  rw [List.reverse_reverse, List.reverse_append, List.reverse_replicate] at this
  exact this

theorem sameNorm_rstrip (d : Path) (h : NonSlash d) : SameNorm (rstrip sep d) d := by
  obtain ⟨k, hk⟩ := rstrip_spec d
  have hns : NonSlash (rstrip sep d) := by
    obtain ⟨x, hx, hne⟩ := h
    rw [hk] at hx
    simp at hx
    rcases hx with hx | hx
    · exact ⟨x, hx, hne⟩
    · exact absurd hx.2 hne
  have := sameNorm_append_replicate (rstrip sep d) hns k
  rw [← hk] at this
  exact this.symm

theorem any_ne_sep_iff (p : Path) : (p.any (· != sep)) = true ↔ NonSlash p := by
  simp [NonSlash, List.any_eq_true]

theorem split_fst (q : Path) : (split q).1 =
    if (uptoLast sep q).any (· != sep) then rstrip sep (uptoLast sep q) else uptoLast sep q := by
  unfold split
  simp only []
  split <;> rfl

/-- the directory part of `join2 d s` (no '/' in `s`) names the same place as `d` -/
theorem split_join2_sameNorm (d s : Path) (hs : sep ∉ s) : SameNorm (split (join2 d s)).1 d := by
  have hb := noLeadSlash_of_noSep s hs
  rw [split_fst]
  rcases path_cases d with rfl | ⟨L, x, rfl⟩
  · rw [join2_nil_left s hb, uptoLast_noSep s hs]
    simpa using SameNorm.rfl' []
  · by_cases hx : x = sep
    · subst hx
      rw [join2_snoc_sep L s hb, uptoLast_append_sep_noSep L s hs]
      split
      · next h => exact sameNorm_rstrip _ ((any_ne_sep_iff _).1 h)
      · exact SameNorm.rfl' _
    · have hns := nonSlash_snoc L x hx
      have hns' : NonSlash ((L ++ [x]) ++ [sep]) := ⟨x, by simp, hx⟩
      rw [join2_snoc_ne L x s hx hb, uptoLast_append_sep_noSep _ s hs,
        if_pos ((any_ne_sep_iff _).2 hns')]
      exact (sameNorm_rstrip _ hns').trans (sameNorm_snoc_sep _ hns)

theorem method_target_inside (out v short' f ext : List Char) (cs : List Path)
    (hcs : ∀ c ∈ cs, SafeComp c) (hv : v = join [] cs) (hs : sep ∉ short') (hf : sep ∉ f)
    (hext : ext ≠ [] ∧ sep ∉ ext ∧ '.' ∉ ext) :
    StrictlyInside out (join2 (split (join2 (join2 out v) short')).1 f ++ '.' :: ext) := by
  subst hv
  obtain ⟨hne, hes, hed⟩ := hext
  obtain ⟨e, et, rfl⟩ := List.exists_cons_of_ne_nil hne
  have hg : SafeComp (f ++ '.' :: e :: et) := by
    apply safe_append f _ hf
    · simp [sep] at hes ⊢; exact hes
    · refine ⟨e, by simp, ?_⟩
      rintro rfl; simp at hed
  obtain ⟨h1, h2⟩ := split_join2_sameNorm (join2 out (join [] cs)) short' hs
  rw [join2_append _ f _ (noLeadSlash_of_noSep f hf) (safe_noLeadSlash _ hg)]
  obtain ⟨h3, h4⟩ := join2_safe (split (join2 (join2 out (join [] cs)) short')).1 _ hg
  apply strictlyInside_of_comps out _ (cs ++ [f ++ '.' :: e :: et]) (by simp)
  · rw [h3, h1, normComps_join2_join out cs hcs, List.append_assoc]
  · rw [h4, h2, initialSlashes_join2_join out cs hcs]

/-- `method_target_inside` for the directory `classDir` computes and the sanitised short string -/
theorem method_target_inside_classDir (out cls d short f ext : List Char)
    (h : classDir out cls = some d) (hf : sep ∉ f) (hext : ext ≠ [] ∧ sep ∉ ext ∧ '.' ∉ ext) :
    StrictlyInside out (join2 (split (join2 d (sanitizeShort short))).1 f ++ '.' :: ext) := by
  unfold classDir at h
  cases hv : validClassName cls with
  | none => simp [hv] at h
  | some v =>
    simp [hv] at h
    obtain ⟨cs, hcs, hvj⟩ := validClassName_safe cls v hv
    subst h
    exact method_target_inside out v _ f ext cs hcs hvj (sanitizeShort_no_sep short) hf hext

/-! ## string-level corollaries on `normpath` -/

theorem intercalate_cons_cons (s x y : List Char) (l : List (List Char)) :
    s.intercalate (x :: y :: l) = x ++ s ++ s.intercalate (y :: l) := by
  simp [List.intercalate]

theorem intercalate_append (s : List Char) (a t : List (List Char)) (ha : a ≠ []) (ht : t ≠ []) :
    s.intercalate (a ++ t) = s.intercalate a ++ s ++ s.intercalate t := by
  induction a with
  | nil => exact absurd rfl ha
  | cons x xs ih =>
    cases xs with
    | nil =>
      obtain ⟨y, l, rfl⟩ := List.exists_cons_of_ne_nil ht
      simp [List.intercalate]
    | cons y l =>
      have := ih (by simp)
      rw [List.cons_append, List.cons_append, intercalate_cons_cons, ← List.cons_append, this,
        intercalate_cons_cons]
      simp

theorem intercalate_prefix (s : List Char) (a t : List (List Char)) :
    s.intercalate a <+: s.intercalate (a ++ t) := by
  by_cases ha : a = []
  · subst ha; simp [List.intercalate]
  · by_cases ht : t = []
    · subst ht; simp
    · rw [intercalate_append s a t ha ht, List.append_assoc]
      exact List.prefix_append _ _

theorem normComps_nil : normComps [] = [] := by
  simp [normComps, splitOn, normStep]

theorem normStep_ne_nil (abs : Bool) (stk : List (List Char)) (comp : List Char)
    (h : ∀ c ∈ stk, c ≠ []) : ∀ c ∈ normStep abs stk comp, c ≠ [] := by
  unfold normStep
  split
  · exact h
  · next h1 =>
    have hne : comp ≠ [] := fun e => h1 (Or.inl e)
    split
    · intro c hc; simp at hc; rcases hc with rfl | hc
      · exact hne
      · exact h c hc
    · split
      · split
        · simp
        · intro c hc; simp at hc; rw [hc]; exact hne
      · next top rest =>
        split
        · intro c hc; simp only [List.mem_cons] at hc; rcases hc with rfl | hc
          · exact hne
          · exact h c (by simpa using hc)
        · intro c hc; exact h c (by simp [hc])

theorem foldl_normStep_ne_nil (abs : Bool) (l : List (List Char)) (stk : List (List Char))
    (h : ∀ c ∈ stk, c ≠ []) : ∀ c ∈ l.foldl (normStep abs) stk, c ≠ [] := by
  induction l generalizing stk with
  | nil => exact h
  | cons x xs ih => exact ih _ (normStep_ne_nil abs stk x h)

theorem normComps_ne_nil (p : Path) : ∀ c ∈ normComps p, c ≠ [] := by
  intro c hc
  rw [normComps, List.mem_reverse] at hc
  exact foldl_normStep_ne_nil _ _ [] (by simp) c hc

theorem normpath_eq_of_abs (p : Path) (h : initialSlashes p ≠ 0) :
    normpath p = List.replicate (initialSlashes p) sep ++ [sep].intercalate (normComps p) := by
  have hp : p ≠ [] := by rintro rfl; exact h rfl
  obtain ⟨k, hk⟩ := Nat.exists_eq_succ_of_ne_zero h
  unfold normpath
  cases p with
  | nil => exact absurd rfl hp
  | cons x xs => simp [hk, List.replicate_succ]

theorem normpath_eq_of_comps (p : Path) (h : normComps p ≠ []) :
    normpath p = List.replicate (initialSlashes p) sep ++ [sep].intercalate (normComps p) := by
  have hp : p ≠ [] := by rintro rfl; exact h normComps_nil
  have hi : [sep].intercalate (normComps p) ≠ [] := by
    obtain ⟨c, l, hc⟩ := List.exists_cons_of_ne_nil h
    rw [hc]
    cases l with
    | nil =>
      have : c ≠ [] := normComps_ne_nil p c (by rw [hc]; simp)
      simpa [List.intercalate] using this
    | cons y l => rw [intercalate_cons_cons]; simp
  unfold normpath
  cases p with
  | nil => exact absurd rfl hp
  | cons x xs => simp [hi]

theorem normpath_prefix_of_inside (out p : Path) (habs : initialSlashes out ≠ 0)
    (h : Inside out p) : normpath out <+: normpath p := by
  obtain ⟨h1, t, h2⟩ := h
  rw [normpath_eq_of_abs out habs, normpath_eq_of_abs p (by rw [h1]; exact habs), h1, ← h2]
  exact (List.prefix_append_right_inj _).2 (intercalate_prefix _ _ _)

theorem normpath_sep_prefix_of_strictlyInside (out p : Path) (hne : normComps out ≠ [])
    (h : StrictlyInside out p) : normpath out ++ [sep] <+: normpath p := by
  obtain ⟨⟨h1, t, h2⟩, h3⟩ := h
  have ht : t ≠ [] := by rintro rfl; exact h3 (by simpa using h2.symm)
  have hp : normComps p ≠ [] := by rw [← h2]; simp [hne]
  rw [normpath_eq_of_comps out hne, normpath_eq_of_comps p hp, h1, ← h2,
    intercalate_append _ _ _ hne ht, List.append_assoc]
  exact (List.prefix_append_right_inj _).2 (List.prefix_append _ _)

end AgVerif.Paths
