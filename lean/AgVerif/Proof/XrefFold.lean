/-
Lemmas for C13..C16, part 2: the whole analysis as one `apply`:
`analyse p = apply (addAll p) (progDelta (addAll p).decl p)`, membership in the total emission as
"some site emits it", and the tables built by `Analysis.add`.
-/
import AgVerif.Proof.XrefBase
import AgVerif.Spec.Xref

namespace AgVerif.Xref
open AgVerif.Gen

/-! ### generic folds -/

theorem foldl_proj {α β : Type} (π : DB → β) (f : DB → α → DB) (g : β → α → β)
    (h : ∀ db a, π (f db a) = g (π db) a) (xs : List α) (db : DB) :
    π (xs.foldl f db) = xs.foldl g (π db) := by
  induction xs generalizing db with
  | nil => rfl
  | cons x xs ih => simp only [List.foldl_cons, ih, h]

theorem foldl_const {α β : Type} (xs : List α) (b : β) : xs.foldl (fun b _ => b) b = b := by
  induction xs with
  | nil => rfl
  | cons x xs ih => simpa using ih

theorem foldl_flatMap' {α β γ : Type} (f : β → γ → β) (g : α → List γ) (xs : List α) (b : β) :
    (xs.flatMap g).foldl f b = xs.foldl (fun b a => (g a).foldl f b) b := by
  induction xs generalizing b with
  | nil => rfl
  | cons x xs ih => simp [List.flatMap_cons, List.foldl_append, ih]

theorem foldl_map' {α β γ : Type} (f : β → γ → β) (g : α → γ) (xs : List α) (b : β) :
    (xs.map g).foldl f b = xs.foldl (fun b a => f b (g a)) b := by
  induction xs generalizing b with
  | nil => rfl
  | cons x xs ih => simp [ih]

theorem dget_foldl_dset {κ ν : Type} [DecidableEq κ] (ks : List κ) (d : List (κ × ν)) (v : ν) (k' : κ) :
    dget (ks.foldl (fun d k => dset d k v) d) k' = if k' ∈ ks then some v else dget d k' := by
  induction ks generalizing d with
  | nil => simp
  | cons k ks ih =>
    simp only [List.foldl_cons, ih, dget_dset, List.mem_cons]
    by_cases h1 : k' ∈ ks
    · simp [h1]
    · by_cases h2 : k = k'
      · subst h2; simp
      · have : ¬ k' = k := fun e => h2 e.symm
        simp [h1, h2, this]

theorem nodup_keys_foldl_dset {κ ν : Type} [DecidableEq κ] (ks : List κ) (d : List (κ × ν)) (v : ν)
    (h : (keys d).Nodup) : (keys (ks.foldl (fun d k => dset d k v) d)).Nodup := by
  induction ks generalizing d with
  | nil => simpa
  | cons k ks ih => exact ih _ (nodup_keys_dset d k v h)

/-! ### `Inv` and `apply` -/

/-- an emission registers the class of every method it registers -/
def Good (δ : Delta) : Prop := ∀ k ∈ δ.extMethods, k.1 ∈ δ.extClasses

theorem good_empty : Good {} := by intro k hk; cases hk

theorem good_append (a b : Delta) (ha : Good a) (hb : Good b) : Good (a.append b) := by
  intro k hk
  simp only [Delta.append, List.mem_append] at hk ⊢
  rcases hk with hk | hk
  · exact Or.inl (ha k hk)
  · exact Or.inr (hb k hk)

theorem good_emit (decl : List FKey) (cur : String) (m : MKey) (oi : Nat × XIns) :
    Good (emit decl cur m oi) := by
  unfold emit
  simp only
  cases act oi.2.op.val oi.2.ref with
  | classUse t =>
    simp only
    split
    · exact good_empty
    · split
      · exact good_empty
      · intro k hk; cases hk
  | invoke c n d =>
    simp only
    split
    · exact good_empty
    · intro k hk
      simp at hk
      subst hk
      simp
  | str s => intro k hk; cases hk
  | field c n t =>
    simp only
    split
    · split <;> (intro k hk; cases hk)
    · exact good_empty
  | skip => exact good_empty

theorem inv_apply (db : DB) (δ : Delta) (h : Inv db) (g : Good δ) : Inv (apply db δ) := by
  intro k hk
  simp only [apply] at hk ⊢
  rw [dget_foldl_dsetdefault] at hk ⊢
  cases hm : dget db.methods k with
  | some x =>
    have := h k (by rw [hm]; simp)
    cases hc : dget db.classes k.1 with
    | some y => simp
    | none => exact absurd hc this
  | none =>
    rw [hm] at hk
    simp only at hk
    by_cases hin : k ∈ δ.extMethods
    · have := g k hin
      cases hc : dget db.classes k.1 with
      | some y => simp
      | none => simp [this]
    · simp [hin] at hk

theorem apply_decl (db : DB) (δ : Delta) : (apply db δ).decl = db.decl := rfl

/-- total emission of a list, given the emission of one element -/
def total {α : Type} (e : α → Delta) (xs : List α) : Delta :=
  xs.foldr (fun a δ => (e a).append δ) {}

theorem good_total {α : Type} (e : α → Delta) (xs : List α) (h : ∀ a, Good (e a)) : Good (total e xs) := by
  induction xs with
  | nil => exact good_empty
  | cons x xs ih => exact good_append _ _ (h x) ih

theorem foldl_apply {α : Type} (f : DB → α → DB) (e : List FKey → α → Delta)
    (hf : ∀ db a, Inv db → f db a = apply db (e db.decl a))
    (he : ∀ decl a, Good (e decl a)) (xs : List α) (db : DB) (h : Inv db) :
    xs.foldl f db = apply db (total (e db.decl) xs) := by
  induction xs generalizing db with
  | nil => simp [total, apply_empty]
  | cons x xs ih =>
    have h1 : Inv (f db x) := by rw [hf db x h]; exact inv_apply db _ h (he _ _)
    simp only [List.foldl_cons]
    rw [ih (f db x) h1, hf db x h, apply_decl, apply_append]
    rfl

theorem mem_total {α β : Type} (π : Delta → List β) (hπ : ∀ a b, π (a.append b) = π a ++ π b)
    (h0 : π {} = []) (e : α → Delta) (xs : List α) (x : β) :
    x ∈ π (total e xs) ↔ ∃ a ∈ xs, x ∈ π (e a) := by
  induction xs with
  | nil => simp [total, h0]
  | cons y ys ih =>
    have : total e (y :: ys) = (e y).append (total e ys) := rfl
    rw [this, hπ, List.mem_append, ih]
    simp

/-! ### the four levels of `create_xref` -/

def methDelta (decl : List FKey) (cn : String) (m : Method) : Delta :=
  total (emit decl cn (cn, m.name, m.desc)) m.code
def classDelta (decl : List FKey) (c : Class) : Delta := total (methDelta decl c.name) c.methods
def dexDelta (decl : List FKey) (d : Dex) : Delta := total (classDelta decl) d.classes
def progDelta (decl : List FKey) (p : List Dex) : Delta := total (dexDelta decl) p

theorem xrefMethod_eq (cn : String) (db : DB) (m : Method) (h : Inv db) :
    xrefMethod cn db m = apply db (methDelta db.decl cn m) := by
  unfold xrefMethod methDelta
  exact foldl_apply (step cn (cn, m.name, m.desc)) (fun decl oi => emit decl cn (cn, m.name, m.desc) oi)
    (fun db oi h => step_eq cn _ db oi h) (fun decl oi => good_emit decl cn _ oi) m.code db h

theorem xrefClass_eq (db : DB) (c : Class) (h : Inv db) :
    xrefClass db c = apply db (classDelta db.decl c) := by
  unfold xrefClass classDelta
  exact foldl_apply (xrefMethod c.name) (fun decl m => methDelta decl c.name m)
    (fun db m' h => xrefMethod_eq c.name db m' h)
    (fun decl m => good_total _ _ (fun oi => good_emit decl c.name _ oi)) c.methods db h

theorem good_classDelta (decl : List FKey) (c : Class) : Good (classDelta decl c) :=
  good_total _ _ (fun m => good_total _ _ (fun oi => good_emit decl c.name _ oi))

theorem xrefDex_eq (db : DB) (d : Dex) (h : Inv db) :
    xrefDex db d = apply db (dexDelta db.decl d) := by
  unfold xrefDex dexDelta
  exact foldl_apply xrefClass classDelta (fun db c h => xrefClass_eq db c h) good_classDelta d.classes db h

theorem good_dexDelta (decl : List FKey) (d : Dex) : Good (dexDelta decl d) :=
  good_total _ _ (good_classDelta decl)

theorem xrefAll_eq (db : DB) (p : List Dex) (h : Inv db) :
    p.foldl xrefDex db = apply db (progDelta db.decl p) := by
  unfold progDelta
  exact foldl_apply xrefDex dexDelta (fun db d h => xrefDex_eq db d h) good_dexDelta p db h

/-- emission of one site -/
def siteDelta (decl : List FKey) (s : Spec.Site) : Delta := emit decl s.cls s.meth (s.off, s.ins)

theorem mem_sites (p : List Dex) (s : Spec.Site) :
    s ∈ Spec.sites p ↔ ∃ d ∈ p, ∃ c ∈ d.classes, ∃ m ∈ c.methods, ∃ oi ∈ m.code,
      s = ⟨c.name, (c.name, m.name, m.desc), oi.1, oi.2⟩ := by
  simp only [Spec.sites, Spec.allClasses, List.mem_flatMap, List.mem_map]
  constructor
  · rintro ⟨c, ⟨d, hd, hc⟩, m, hm, oi, hoi, rfl⟩
    exact ⟨d, hd, c, hc, m, hm, oi, hoi, rfl⟩
  · rintro ⟨d, hd, c, hc, m, hm, oi, hoi, rfl⟩
    exact ⟨c, ⟨d, hd, hc⟩, m, hm, oi, hoi, rfl⟩

theorem mem_progDelta {β : Type} (π : Delta → List β) (hπ : ∀ a b, π (a.append b) = π a ++ π b)
    (h0 : π {} = []) (decl : List FKey) (p : List Dex) (x : β) :
    x ∈ π (progDelta decl p) ↔ ∃ s ∈ Spec.sites p, x ∈ π (siteDelta decl s) := by
  unfold progDelta
  rw [mem_total π hπ h0]
  simp only [dexDelta, classDelta, methDelta, mem_total π hπ h0, mem_sites, siteDelta]
  constructor
  · rintro ⟨d, hd, c, hc, m, hm, oi, hoi, hx⟩
    exact ⟨_, ⟨d, hd, c, hc, m, hm, oi, hoi, rfl⟩, hx⟩
  · rintro ⟨s, ⟨d, hd, c, hc, m, hm, oi, hoi, rfl⟩, hx⟩
    exact ⟨d, hd, c, hc, m, hm, oi, hoi, hx⟩

/-! ### `Analysis.add` -/

/-- `for vm in vms: dx.add(vm)` -/
def addAll (p : List Dex) : DB := p.foldl addDex {}

theorem analyse_eq_addAll (p : List Dex) : analyse p = p.foldl xrefDex (addAll p) := rfl

/-- the cross-reference tables, which `add` does not touch -/
def xr (db : DB) :=
  (db.callTo, db.callFrom, db.clsTo, db.clsFrom, db.newInstM, db.newInstC, db.constClsM, db.constClsC,
   db.strFrom, db.fRead, db.fWrite, db.mRead, db.mWrite)

theorem xr_addClass (db : DB) (c : Class) : xr (addClass db c) = xr db := by
  unfold addClass
  simp only
  rw [foldl_proj xr (addField c.name) (fun b _ => b) (fun _ _ => rfl), foldl_const,
      foldl_proj xr (addMethod c.name) (fun b _ => b) (fun _ _ => rfl), foldl_const]
  rfl

theorem xr_addDex (db : DB) (d : Dex) : xr (addDex db d) = xr db := by
  unfold addDex
  simp only
  show xr (d.classes.foldl addClass db) = xr db
  rw [foldl_proj xr addClass (fun b _ => b) xr_addClass, foldl_const]

theorem xr_addAll (p : List Dex) : xr (addAll p) = xr ({} : DB) := by
  unfold addAll
  rw [foldl_proj xr addDex (fun b _ => b) xr_addDex, foldl_const]

/-- keys of the methods a class declares -/
def classMethodKeys (c : Class) : List MKey := c.methods.map fun m => (c.name, m.name, m.desc)
def classFieldKeys (c : Class) : List FKey := c.fields.map fun f => (c.name, f.1, f.2)

theorem classes_addClass (db : DB) (c : Class) : (addClass db c).classes = dset db.classes c.name false := by
  unfold addClass
  simp only
  rw [foldl_proj DB.classes (addField c.name) (fun b _ => b) (fun _ _ => rfl), foldl_const,
      foldl_proj DB.classes (addMethod c.name) (fun b _ => b) (fun _ _ => rfl), foldl_const]

theorem methods_addClass (db : DB) (c : Class) :
    (addClass db c).methods = (classMethodKeys c).foldl (fun d k => dset d k false) db.methods := by
  unfold addClass classMethodKeys
  simp only
  rw [foldl_proj DB.methods (addField c.name) (fun b _ => b) (fun _ _ => rfl), foldl_const,
      foldl_proj DB.methods (addMethod c.name) (fun d m => dset d (c.name, m.name, m.desc) false) (fun _ _ => rfl),
      foldl_map']

theorem decl_addClass (db : DB) (c : Class) :
    (addClass db c).decl = (classFieldKeys c).foldl sadd db.decl := by
  unfold addClass classFieldKeys
  simp only
  rw [foldl_proj DB.decl (addField c.name) (fun s f => sadd s (c.name, f.1, f.2)) (fun _ _ => rfl), foldl_map',
      foldl_proj DB.decl (addMethod c.name) (fun b _ => b) (fun _ _ => rfl), foldl_const]

theorem fields_addClass (db : DB) (c : Class) :
    (addClass db c).fields = ((classFieldKeys c).map fun f => (c.name, f)).foldl sadd db.fields := by
  unfold addClass classFieldKeys
  simp only
  rw [foldl_proj DB.fields (addField c.name) (fun s f => sadd s (c.name, (c.name, f.1, f.2))) (fun _ _ => rfl),
      List.map_map, foldl_map',
      foldl_proj DB.fields (addMethod c.name) (fun b _ => b) (fun _ _ => rfl), foldl_const]
  rfl

theorem strings_addClass (db : DB) (c : Class) : (addClass db c).strings = db.strings := by
  unfold addClass
  simp only
  rw [foldl_proj DB.strings (addField c.name) (fun b _ => b) (fun _ _ => rfl), foldl_const,
      foldl_proj DB.strings (addMethod c.name) (fun b _ => b) (fun _ _ => rfl), foldl_const]

theorem classes_addAll (p : List Dex) :
    (addAll p).classes = ((Spec.allClasses p).map (·.name)).foldl (fun d k => dset d k false) [] := by
  unfold addAll Spec.allClasses
  rw [foldl_proj DB.classes addDex (fun d x => x.classes.foldl (fun d c => dset d c.name false) d)
        (fun db d => by
          show (d.classes.foldl addClass db).classes = _
          rw [foldl_proj DB.classes addClass (fun d c => dset d c.name false) classes_addClass])]
  rw [foldl_map', foldl_flatMap']

theorem methods_addAll (p : List Dex) :
    (addAll p).methods = ((Spec.allClasses p).flatMap classMethodKeys).foldl (fun d k => dset d k false) [] := by
  unfold addAll Spec.allClasses
  rw [foldl_proj DB.methods addDex
        (fun d x => x.classes.foldl (fun d c => (classMethodKeys c).foldl (fun d k => dset d k false) d) d)
        (fun db d => by
          show (d.classes.foldl addClass db).methods = _
          rw [foldl_proj DB.methods addClass
            (fun d c => (classMethodKeys c).foldl (fun d k => dset d k false) d) methods_addClass])]
  rw [foldl_flatMap', foldl_flatMap']

theorem decl_addAll (p : List Dex) :
    (addAll p).decl = ((Spec.allClasses p).flatMap classFieldKeys).foldl sadd [] := by
  unfold addAll Spec.allClasses
  rw [foldl_proj DB.decl addDex
        (fun s x => x.classes.foldl (fun s c => (classFieldKeys c).foldl sadd s) s)
        (fun db d => by
          show (d.classes.foldl addClass db).decl = _
          rw [foldl_proj DB.decl addClass (fun s c => (classFieldKeys c).foldl sadd s) decl_addClass])]
  rw [foldl_flatMap', foldl_flatMap']

theorem fields_addAll (p : List Dex) :
    (addAll p).fields =
      ((Spec.allClasses p).flatMap fun c => (classFieldKeys c).map fun f => (c.name, f)).foldl sadd [] := by
  unfold addAll Spec.allClasses
  rw [foldl_proj DB.fields addDex
        (fun s x => x.classes.foldl (fun s c => ((classFieldKeys c).map fun f => (c.name, f)).foldl sadd s) s)
        (fun db d => by
          show (d.classes.foldl addClass db).fields = _
          rw [foldl_proj DB.fields addClass
            (fun s c => ((classFieldKeys c).map fun f => (c.name, f)).foldl sadd s) fields_addClass])]
  rw [foldl_flatMap', foldl_flatMap']

theorem strings_addAll (p : List Dex) :
    (addAll p).strings = (p.flatMap (·.strings)).foldl sadd [] := by
  unfold addAll
  rw [foldl_proj DB.strings addDex (fun s x => x.strings.foldl sadd s)
        (fun db d => by
          show (d.strings.foldl sadd (d.classes.foldl addClass db).strings) = _
          rw [foldl_proj DB.strings addClass (fun b _ => b) strings_addClass, foldl_const])]
  rw [foldl_flatMap']

/-! ### what `add` leaves behind, in terms of the specification -/

theorem mem_classMethodKeys (p : List Dex) (k : MKey) :
    k ∈ (Spec.allClasses p).flatMap classMethodKeys ↔ Spec.DefinedM p k := by
  simp only [List.mem_flatMap, classMethodKeys, List.mem_map, Spec.DefinedM]
  constructor
  · rintro ⟨c, hc, m, hm, rfl⟩; exact ⟨c, hc, m, hm, rfl⟩
  · rintro ⟨c, hc, m, hm, rfl⟩; exact ⟨c, hc, m, hm, rfl⟩

theorem mem_classFieldKeys (p : List Dex) (f : FKey) :
    f ∈ (Spec.allClasses p).flatMap classFieldKeys ↔ Spec.DefinedF p f := by
  simp only [List.mem_flatMap, classFieldKeys, List.mem_map, Spec.DefinedF]
  constructor
  · rintro ⟨c, hc, m, hm, rfl⟩; exact ⟨c, hc, m, hm, rfl⟩
  · rintro ⟨c, hc, m, hm, rfl⟩; exact ⟨c, hc, m, hm, rfl⟩

open Classical in
theorem dget_classes_addAll (p : List Dex) (c : String) :
    dget (addAll p).classes c = if Spec.DefinedC p c then some false else none := by
  rw [classes_addAll, dget_foldl_dset]
  have : c ∈ (Spec.allClasses p).map (·.name) ↔ Spec.DefinedC p c := by
    simp [Spec.DefinedC]
  by_cases h : Spec.DefinedC p c
  · simp [h, this.2 h, dget]
  · have h' : ¬ c ∈ (Spec.allClasses p).map (·.name) := fun e => h (this.1 e)
    simp only [h', h, if_false, dget]

open Classical in
theorem dget_methods_addAll (p : List Dex) (k : MKey) :
    dget (addAll p).methods k = if Spec.DefinedM p k then some false else none := by
  rw [methods_addAll, dget_foldl_dset]
  by_cases h : Spec.DefinedM p k
  · simp [h, (mem_classMethodKeys p k).2 h]
  · have h' : ¬ k ∈ (Spec.allClasses p).flatMap classMethodKeys := fun e => h ((mem_classMethodKeys p k).1 e)
    simp only [h', h, if_false, dget]

theorem mem_decl_addAll (p : List Dex) (f : FKey) : f ∈ (addAll p).decl ↔ Spec.DefinedF p f := by
  rw [decl_addAll, mem_foldl_sadd, mem_classFieldKeys]
  simp

theorem mem_fields_addAll (p : List Dex) (h : String) (f : FKey) :
    (h, f) ∈ (addAll p).fields ↔ Spec.DefinedF p f ∧ h = f.1 := by
  rw [fields_addAll, mem_foldl_sadd]
  simp only [List.not_mem_nil, false_or, List.mem_flatMap, List.mem_map, classFieldKeys, Spec.DefinedF]
  constructor
  · rintro ⟨c, hc, f', ⟨fd, hfd, rfl⟩, e⟩
    cases e
    exact ⟨⟨c, hc, fd, hfd, rfl⟩, rfl⟩
  · rintro ⟨⟨c, hc, fd, hfd, rfl⟩, rfl⟩
    exact ⟨c, hc, _, ⟨fd, hfd, rfl⟩, rfl⟩

theorem mem_strings_addAll (p : List Dex) (s : String) : s ∈ (addAll p).strings ↔ Spec.InPool p s := by
  rw [strings_addAll, mem_foldl_sadd]
  simp [Spec.InPool, List.mem_flatMap]

theorem inv_addAll (p : List Dex) : Inv (addAll p) := by
  intro k hk
  rw [dget_methods_addAll] at hk
  rw [dget_classes_addAll]
  by_cases h : Spec.DefinedM p k
  · obtain ⟨c, hc, m, hm, rfl⟩ := h
    have : Spec.DefinedC p c.name := ⟨c, hc, rfl⟩
    simp [this]
  · simp [h] at hk

/-- the whole analysis as one application of the program's total emission -/
theorem analyse_eq (p : List Dex) :
    analyse p = apply (addAll p) (progDelta (addAll p).decl p) := by
  rw [analyse_eq_addAll]
  exact xrefAll_eq (addAll p) p (inv_addAll p)

end AgVerif.Xref
