/-
C07, concrete loader, file level: a file whose map list was rewritten with a permutation of its
entries parses to the same result (`parseDex`, errors included).

`sameItems f g e`: the raw decoding of the items of map entry `e` (before any ClassManager lookup)
is the same in the files `f` and `g` — in particular when no item of `e` is read from the bytes of
the map list, the only bytes in which `f` and `withMap f …` differ.  It is decidable.
-/
import AgVerif.Proof.DexFrame
import AgVerif.Proof.DexTables
import AgVerif.Proof.DexFile
import AgVerif.Proof.LoadOrder
namespace AgVerif.DexPerm
open AgVerif.DexFile AgVerif.LoadOrder AgVerif.DexFrame
open AgVerif.C05 (mapEntryBytes)

/-! the map entry writer/reader pair (as in Proof/DexLoadView.lean, repeated here so that C07 does
    not depend on C05's load-order-specific lemmas) -/

theorem members_lt : ∀ t ∈ Gen.MapDeps.members.map (·.2), t < 65536 := by decide

theorem decMapEntry_enc (e : MapEntry) (rest : Bytes) (ht : e.type ∈ Gen.MapDeps.members.map (·.2))
    (hs : e.size < 2 ^ 32) (ho : e.offset < 2 ^ 32) :
    decMapEntry (mapEntryBytes e ++ rest) = some (.ok e, rest) := by
  have hany : Gen.MapDeps.members.any (·.2 == e.type) = true := by
    rw [List.any_eq_true]
    obtain ⟨p, hp, he⟩ := List.mem_map.mp ht
    exact ⟨p, hp, by simp [he]⟩
  simp only [decMapEntry, mapEntryBytes, List.append_assoc, bind, Option.bind,
    u16_enc _ _ (members_lt _ ht), u16_enc 0 _ (by omega), u32_enc _ _ hs, u32_enc _ _ ho, hany,
    ↓reduceIte, pure]

theorem readMapEntries_enc : ∀ (es : List MapEntry) (rest : Bytes),
    (∀ e ∈ es, e.type ∈ Gen.MapDeps.members.map (·.2) ∧ e.size < 2 ^ 32 ∧ e.offset < 2 ^ 32) →
    readMapEntries es.length (es.flatMap mapEntryBytes ++ rest) = .ok es
  | [], _, _ => rfl
  | e :: es, rest, h => by
    obtain ⟨h1, h2, h3⟩ := h e List.mem_cons_self
    simp only [List.length_cons, readMapEntries, List.flatMap_cons, List.append_assoc,
      decMapEntry_enc e _ h1 h2 h3,
      readMapEntries_enc es rest (fun x hx => h x (List.mem_cons_of_mem _ hx))]

instance exceptDecEq {ε α} [DecidableEq ε] [DecidableEq α] : DecidableEq (Except ε α)
  | .ok a, .ok b => if h : a = b then isTrue (h ▸ rfl) else isFalse (fun h' => h (Except.ok.inj h'))
  | .error a, .error b => if h : a = b then isTrue (h ▸ rfl) else isFalse (fun h' => h (Except.error.inj h'))
  | .ok _, .error _ => isFalse (fun h => by cases h)
  | .error _, .ok _ => isFalse (fun h => by cases h)

/-- the item decoders give the same result for entry `e` in the two files -/
def sameItems (f g : Bytes) (e : MapEntry) : Prop :=
  (e.type = 0x2002 → decSeq decStringData f e.size e.offset = decSeq decStringData g e.size e.offset) ∧
  (e.type = 0x0001 → decSeq decStringId f e.size e.offset = decSeq decStringId g e.size e.offset) ∧
  (e.type = 0x0002 → decSeq decTypeId f e.size (seek4 e.offset) = decSeq decTypeId g e.size (seek4 e.offset)) ∧
  (e.type = 0x1001 → decSeq decTypeList f e.size (seek4 e.offset) = decSeq decTypeList g e.size (seek4 e.offset)) ∧
  (e.type = 0x0003 → decSeq decProtoId f e.size (seek4 e.offset) = decSeq decProtoId g e.size (seek4 e.offset)) ∧
  (e.type = 0x0004 → decSeq decFieldId f e.size (seek4 e.offset) = decSeq decFieldId g e.size (seek4 e.offset)) ∧
  (e.type = 0x0005 → decSeq decMethodId f e.size (seek4 e.offset) = decSeq decMethodId g e.size (seek4 e.offset)) ∧
  (e.type = 0x2000 → decSeq decClassData f e.size e.offset = decSeq decClassData g e.size e.offset) ∧
  (e.type = 0x2001 → decCodes f e.size (seek4 e.offset) = decCodes g e.size (seek4 e.offset)) ∧
  (e.type = 0x0006 → decSeq decClassDef f e.size (seek4 e.offset) = decSeq decClassDef g e.size (seek4 e.offset))

set_option synthInstance.maxSize 2048 in
instance (f g : Bytes) (e : MapEntry) : Decidable (sameItems f g e) := by unfold sameItems; infer_instance

theorem sameItems_refl (f : Bytes) (e : MapEntry) : sameItems f f e := by simp [sameItems]

/-- `step` looks at the file only through the item decoders -/
theorem step_file_congr {f g : Bytes} {e : MapEntry} (h : sameItems f g e) (cm : CM) :
    step f cm e = step g cm e := by
  obtain ⟨h1, h2, h3, h4, h5, h6, h7, h8, h9, h10⟩ := h
  by_cases hm : e.type ∈ modelled
  · simp only [modelled, List.mem_cons, List.not_mem_nil, or_false] at hm
    rcases hm with ht | ht | ht | ht | ht | ht | ht | ht | ht | ht
    · rw [step_2002 _ _ _ ht, step_2002 _ _ _ ht, h1 ht]
    · rw [step_1 _ _ _ ht, step_1 _ _ _ ht, h2 ht]
    · rw [step_2 _ _ _ ht, step_2 _ _ _ ht, h3 ht]
    · rw [step_1001 _ _ _ ht, step_1001 _ _ _ ht, h4 ht]
    · rw [step_3 _ _ _ ht, step_3 _ _ _ ht, h5 ht]
    · rw [step_4 _ _ _ ht, step_4 _ _ _ ht, h6 ht]
    · rw [step_5 _ _ _ ht, step_5 _ _ _ ht, h7 ht]
    · rw [step_2000 _ _ _ ht, step_2000 _ _ _ ht, h8 ht]
    · rw [step_2001 _ _ _ ht, step_2001 _ _ _ ht, h9 ht]
    · rw [step_6 _ _ _ ht, step_6 _ _ _ ht, h10 ht]
  · rw [step_other _ _ _ hm, step_other _ _ _ hm]

theorem foldSteps_congr {σ ε} (s₁ s₂ : σ → MapEntry → Except ε σ) :
    ∀ (l : List MapEntry) (init : σ), (∀ e ∈ l, ∀ s, s₁ s e = s₂ s e) →
      foldSteps s₁ init l = foldSteps s₂ init l
  | [], _, _ => rfl
  | e :: es, init, h => by
    simp only [foldSteps, h e List.mem_cons_self init]
    cases s₂ init e with
    | error x => rfl
    | ok s' => exact foldSteps_congr s₁ s₂ es s' (fun e' he' => h e' (List.mem_cons_of_mem _ he'))

theorem loadWith_congr {σ ε} (order : List (Nat × Nat)) (keyErr : ε) (s₁ s₂ : σ → MapEntry → Except ε σ)
    (init : σ) (es : List MapEntry) (h : ∀ e ∈ es, ∀ s, s₁ s e = s₂ s e) :
    loadWith order keyErr s₁ init es = loadWith order keyErr s₂ init es := by
  unfold loadWith
  cases ho : orderEntries order es with
  | none => rfl
  | some ordered =>
    simp only
    apply foldSteps_congr
    intro e he
    unfold orderEntries at ho
    split at ho
    · simp only [Option.some.injEq] at ho
      subst ho
      exact h e ((sortByKey_perm _ _).mem_iff.mp he)
    · cases ho

/-- MapList.__init__ on the same entries in two files with the same raw items -/
theorem loadEntries_file_congr (f g : Bytes) (es : List MapEntry) (h : ∀ e ∈ es, sameItems f g e) :
    loadEntries f es = loadEntries g es :=
  loadWith_congr _ _ _ _ _ es (fun e he cm => step_file_congr (h e he) cm)

/-- `parseDex` is a function of the map offset, the entries read and the loaded state -/
theorem parseDex_congr (f g : Bytes) (mapOff : Nat) (rf rg : Bytes) (es es' : List MapEntry)
    (hf : u32 (f.drop 0x34) = some (mapOff, rf)) (hg : u32 (g.drop 0x34) = some (mapOff, rg))
    (hmf : readMap f mapOff = .ok es) (hmg : readMap g mapOff = .ok es')
    (hload : loadEntries g es' = loadEntries f es) : parseDex g = parseDex f := by
  unfold parseDex
  simp only [hf, hg, hmf, hmg, hload]

/-! ### rewriting the map list -/

/-- the file with the entries of its map list (at `mapOff`: count, then 12 bytes per entry)
    replaced by `es'`; the count and everything outside the entries is kept -/
def withMap (file : Bytes) (mapOff : Nat) (es' : List MapEntry) : Bytes :=
  file.take (mapOff + 4) ++ es'.flatMap mapEntryBytes ++ file.drop (mapOff + 4 + 12 * es'.length)

theorem u16_bound {bs r : Bytes} {v : Nat} (h : u16 bs = some (v, r)) (hb : ∀ b ∈ bs, b < 256) :
    v < 65536 ∧ ∀ b ∈ r, b < 256 := by
  match bs, h with
  | a :: b :: r', h =>
    simp only [u16, Option.some.injEq, Prod.mk.injEq] at h
    obtain ⟨rfl, rfl⟩ := h
    have ha := hb a (by simp)
    have hb' := hb b (by simp)
    exact ⟨by omega, fun x hx => hb x (by simp [hx])⟩

theorem u32_bound {bs r : Bytes} {v : Nat} (h : u32 bs = some (v, r)) (hb : ∀ b ∈ bs, b < 256) :
    v < 2 ^ 32 ∧ ∀ b ∈ r, b < 256 := by
  match bs, h with
  | a :: b :: c :: d :: r', h =>
    simp only [u32, Option.some.injEq, Prod.mk.injEq] at h
    obtain ⟨rfl, rfl⟩ := h
    have ha := hb a (by simp)
    have hb' := hb b (by simp)
    have hc := hb c (by simp)
    have hd := hb d (by simp)
    exact ⟨by omega, fun x hx => hb x (by simp [hx])⟩

theorem decMapEntry_bound {bs r : Bytes} {e : MapEntry} (h : decMapEntry bs = some (.ok e, r))
    (hb : ∀ b ∈ bs, b < 256) :
    (e.type ∈ Gen.MapDeps.members.map (·.2) ∧ e.size < 2 ^ 32 ∧ e.offset < 2 ^ 32) ∧ ∀ b ∈ r, b < 256 := by
  unfold decMapEntry at h
  simp only [bind, Option.bind] at h
  cases h1 : u16 bs with
  | none => simp [h1] at h
  | some p1 =>
    obtain ⟨t, r1⟩ := p1
    have b1 := u16_bound h1 hb
    cases h2 : u16 r1 with
    | none => simp [h1, h2] at h
    | some p2 =>
      obtain ⟨u, r2⟩ := p2
      have b2 := u16_bound h2 b1.2
      cases h3 : u32 r2 with
      | none => simp [h1, h2, h3] at h
      | some p3 =>
        obtain ⟨sz, r3⟩ := p3
        have b3 := u32_bound h3 b2.2
        cases h4 : u32 r3 with
        | none => simp [h1, h2, h3, h4] at h
        | some p4 =>
          obtain ⟨off, r4⟩ := p4
          have b4 := u32_bound h4 b3.2
          simp only [h1, h2, h3, h4] at h
          split at h
          · rename_i hany
            simp only [pure, Option.some.injEq, Prod.mk.injEq, Except.ok.injEq] at h
            obtain ⟨rfl, rfl⟩ := h
            refine ⟨⟨?_, b3.1, b4.1⟩, b4.2⟩
            rw [List.any_eq_true] at hany
            obtain ⟨m, hm, hmt⟩ := hany
            exact List.mem_map.mpr ⟨m, hm, by simpa using hmt⟩
          · simp [pure] at h

theorem readMapEntries_facts : ∀ (n : Nat) (bs : Bytes) (es : List MapEntry),
    readMapEntries n bs = .ok es → (∀ b ∈ bs, b < 256) →
    es.length = n ∧ ∀ e ∈ es, e.type ∈ Gen.MapDeps.members.map (·.2) ∧ e.size < 2 ^ 32 ∧ e.offset < 2 ^ 32
  | 0, _, es, h, _ => by
    simp only [readMapEntries, Except.ok.injEq] at h
    subst h; simp
  | n + 1, bs, es, h, hb => by
    unfold readMapEntries at h
    cases hd : decMapEntry bs with
    | none => simp [hd] at h
    | some p =>
      obtain ⟨x, r⟩ := p
      cases x with
      | error x => simp [hd] at h
      | ok e =>
        have bd := decMapEntry_bound hd hb
        simp only [hd] at h
        cases hr : readMapEntries n r with
        | error x => simp [hr] at h
        | ok es0 =>
          simp only [hr, Except.ok.injEq] at h
          subst h
          obtain ⟨hl, hall⟩ := readMapEntries_facts n r es0 hr bd.2
          refine ⟨by simp [hl], ?_⟩
          intro e' he'
          rcases List.mem_cons.mp he' with rfl | hmem
          · exact bd.1
          · exact hall e' hmem

theorem mapEntryBytes_length (e : MapEntry) : (mapEntryBytes e).length = 12 := by
  simp [mapEntryBytes, AgVerif.Spec.DexFile.ushort, AgVerif.Spec.DexFile.uint]

theorem flatMap_mapEntryBytes_length : ∀ es : List MapEntry, (es.flatMap mapEntryBytes).length = 12 * es.length
  | [] => rfl
  | e :: es => by
    simp only [List.flatMap_cons, List.length_append, mapEntryBytes_length, List.length_cons,
      flatMap_mapEntryBytes_length es]
    omega

theorem length_of_drop_cons {α} {l : List α} {k : Nat} {x : α} {t : List α} (h : l.drop k = x :: t) :
    k < l.length := by
  apply Decidable.byContradiction
  intro hn
  rw [List.drop_eq_nil_of_le (by omega)] at h
  cases h

/-- the rewritten map list reads back as the entries that were written -/
theorem readMap_withMap (file : Bytes) (mapOff : Nat) (es es' : List MapEntry)
    (hb : ∀ b ∈ file, b < 256) (hm : readMap file mapOff = .ok es) (hp : es'.Perm es) :
    readMap (withMap file mapOff es') mapOff = .ok es' := by
  unfold readMap at hm
  cases hu : u32 (file.drop mapOff) with
  | none => simp [hu] at hm
  | some p =>
    obtain ⟨n, r⟩ := p
    simp only [hu] at hm
    have hbd : ∀ b ∈ file.drop mapOff, b < 256 := fun b h => hb b (List.mem_of_mem_drop h)
    obtain ⟨hlen, hall⟩ := readMapEntries_facts n r es hm (u32_bound hu hbd).2
    match hdrop : file.drop mapOff, hu with
    | a :: b :: c :: d :: r', hu' =>
      have hlt := length_of_drop_cons hdrop
      have htake : file.take (mapOff + 4) = file.take mapOff ++ [a, b, c, d] := by
        rw [List.take_add, hdrop]; rfl
      have hshape : (withMap file mapOff es').drop mapOff =
          a :: b :: c :: d :: (es'.flatMap mapEntryBytes ++ file.drop (mapOff + 4 + 12 * es'.length)) := by
        unfold withMap
        rw [htake, List.append_assoc, List.append_assoc, List.drop_left' (by simp; omega)]
        rfl
      simp only [u32, Option.some.injEq, Prod.mk.injEq] at hu'
      unfold readMap
      rw [hshape]
      simp only [u32, hu'.1]
      rw [← hlen, ← hp.length_eq]
      exact readMapEntries_enc es' _ (fun e he => hall e (hp.mem_iff.mp he))

theorem u32_length {bs r : Bytes} {v : Nat} (h : u32 bs = some (v, r)) : 4 ≤ bs.length := by
  match bs, h with
  | _ :: _ :: _ :: _ :: _, _ => simp

/-- the header field map_off (at 0x34) is not touched when the map list lies behind it -/
theorem header_withMap (file : Bytes) (mapOff v : Nat) (rest : Bytes) (es' : List MapEntry)
    (hoff : 0x34 ≤ mapOff) (hlen : mapOff + 4 ≤ file.length)
    (hh : u32 (file.drop 0x34) = some (v, rest)) :
    ∃ rest', u32 ((withMap file mapOff es').drop 0x34) = some (v, rest') := by
  match hdrop : file.drop 0x34, hh with
  | a :: b :: c :: d :: r', hh' =>
    have hshape : (withMap file mapOff es').drop 0x34 =
        a :: b :: c :: d :: (r'.take (mapOff - 0x34) ++ (es'.flatMap mapEntryBytes ++
          file.drop (mapOff + 4 + 12 * es'.length))) := by
      unfold withMap
      rw [List.append_assoc, List.drop_append_of_le_length (by simp; omega), List.drop_take, hdrop]
      have : mapOff + 4 - 0x34 = (mapOff - 0x34) + 4 := by omega
      rw [this]
      rfl
    simp only [u32, Option.some.injEq, Prod.mk.injEq] at hh'
    rw [hshape]
    exact ⟨_, by simp only [u32, hh'.1]; rfl⟩

/-- (2) file level: rewriting the map list of `file` with a permutation `es'` of its entries (types
    pairwise distinct) does not change what `parseDex` returns — a view or an error —, provided no
    item decodes differently after the rewriting (`sameItems`, decidable; it holds when no item is
    read from the bytes of the map list). -/
theorem parse_withMap (file : Bytes) (mapOff : Nat) (rest : Bytes) (es es' : List MapEntry)
    (hb : ∀ b ∈ file, b < 256)
    (hh : u32 (file.drop 0x34) = some (mapOff, rest)) (hoff : 0x34 ≤ mapOff)
    (hm : readMap file mapOff = .ok es)
    (hp : es'.Perm es)
    (hperm : loadEntries (withMap file mapOff es') es' = loadEntries (withMap file mapOff es') es)
    (hitems : ∀ e ∈ es, sameItems (withMap file mapOff es') file e) :
    parseDex (withMap file mapOff es') = parseDex file := by
  have hlen : mapOff + 4 ≤ file.length := by
    unfold readMap at hm
    cases hu : u32 (file.drop mapOff) with
    | none => simp [hu] at hm
    | some p =>
      have := u32_length hu
      rw [List.length_drop] at this
      omega
  obtain ⟨rest', hh'⟩ := header_withMap file mapOff mapOff rest es' hoff hlen hh
  refine parseDex_congr file _ mapOff rest rest' es es' hh hh' hm (readMap_withMap file mapOff es es' hb hm hp) ?_
  rw [hperm]
  exact loadEntries_file_congr _ _ es hitems

end AgVerif.DexPerm
