/-
C16 — Multi-DEX analysis is independent of how the code is split and ordered.
`view` (AgVerif/Proof/XrefView.lean) is everything observable with the association-list order forgotten.

What is and is not in these statements.  The model identifies a Python object with the key the code
registers it under (class name; (class, name, descriptor); (holding class, field); string value).
* `analyse_perm`, `analyse_split`, `analyse_regroup`, `analyse_same_dex_twice` hold for EVERY list of DEX
  files — they need no distinctness hypothesis, because in the key-based model two definitions of one class
  name are one class whose members are the union of both (`duplicate_class_is_merged`).
* The CODE is not key-based there: with a repeated class name the ClassAnalysis of the DEX added last
  replaces the earlier one in `Analysis.classes` (its FieldAnalysis objects are dropped), while the methods
  of both copies stay in `Analysis.methods`.  So the model mirrors the code only on `DistinctClassNames`
  programs, which is exactly the property's quantifier ("DEX files with distinct class names").  What the
  hypothesis buys is stated on its own: under it the keying is injective — a class name has one definition
  and every analysed method/field key one owner (`class_definition_unique`, `member_owner_unique`).
  For repeated class names the real code is judged directly, on objects, by the duplicate-class stream of
  the harness (winner-independent part of C13/C15), not by these theorems.
-/
import AgVerif.Proof.XrefView

namespace AgVerif.C16
open AgVerif.Xref

/-- the property's quantifier: no class name is defined twice among the added DEX files -/
def DistinctClassNames (ds : List Dex) : Prop := ((Spec.allClasses ds).map (·.name)).Nodup

/-- the single DEX holding all classes (and all pool strings) -/
def mergeDex (ds : List Dex) : Dex := ⟨ds.flatMap (·.classes), ds.flatMap (·.strings)⟩

/-- any add order gives the same view -/
theorem analyse_perm (ds₁ ds₂ : List Dex) (h : ds₁.Perm ds₂) :
    view (analyse ds₁) = view (analyse ds₂) := by
  apply view_congr
  constructor
  · intro c
    simp only [Spec.allClasses, List.mem_flatMap]
    constructor
    · rintro ⟨d, hd, hc⟩; exact ⟨d, h.mem_iff.1 hd, hc⟩
    · rintro ⟨d, hd, hc⟩; exact ⟨d, h.mem_iff.2 hd, hc⟩
  · intro s
    simp only [Spec.InPool]
    constructor
    · rintro ⟨d, hd, hc⟩; exact ⟨d, h.mem_iff.1 hd, hc⟩
    · rintro ⟨d, hd, hc⟩; exact ⟨d, h.mem_iff.2 hd, hc⟩

/-- any split into DEX files gives the same view as one DEX holding all the classes -/
theorem analyse_split (ds : List Dex) :
    view (analyse ds) = view (analyse [mergeDex ds]) := by
  apply view_congr
  constructor
  · intro c; simp [Spec.allClasses, mergeDex]
  · intro s; simp [Spec.InPool, mergeDex, List.mem_flatMap]

/-- more generally: any two arrangements of the same classes and pool strings -/
theorem analyse_regroup (ds₁ ds₂ : List Dex) (h : SameContent ds₁ ds₂) :
    view (analyse ds₁) = view (analyse ds₂) :=
  view_congr h

/-- adding every DEX a second time (the same file parsed twice) changes nothing in the view -/
theorem analyse_same_dex_twice (ds : List Dex) : view (analyse (ds ++ ds)) = view (analyse ds) := by
  apply view_congr
  constructor
  · intro c; simp [Spec.allClasses, List.flatMap_append]
  · intro s
    simp only [Spec.InPool, List.mem_append]
    constructor
    · rintro ⟨d, hd | hd, hs⟩ <;> exact ⟨d, hd, hs⟩
    · rintro ⟨d, hd, hs⟩; exact ⟨d, Or.inl hd, hs⟩

/-- what `DistinctClassNames` buys: a class name has exactly one definition … -/
theorem class_definition_unique (ds : List Dex) (hd : DistinctClassNames ds) (c₁ c₂ : Class)
    (h₁ : c₁ ∈ Spec.allClasses ds) (h₂ : c₂ ∈ Spec.allClasses ds) (hn : c₁.name = c₂.name) : c₁ = c₂ := by
  unfold DistinctClassNames at hd
  generalize Spec.allClasses ds = l at hd h₁ h₂
  induction l with
  | nil => cases h₁
  | cons x r ih =>
    simp only [List.map_cons, List.nodup_cons, List.mem_map, not_exists, not_and] at hd
    rcases List.mem_cons.1 h₁ with rfl | h₁' <;> rcases List.mem_cons.1 h₂ with rfl | h₂'
    · rfl
    · exact absurd hn.symm (hd.1 c₂ h₂')
    · exact absurd hn (hd.1 c₁ h₁')
    · exact ih hd.2 h₁' h₂'

/-- … so every analysed method key and field key has exactly one owning class definition: on such programs
"the object registered under a key" is well defined, which is what the key-based model assumes -/
theorem member_owner_unique (ds : List Dex) (hd : DistinctClassNames ds) (k : MKey)
    (h : Spec.DefinedM ds k ∨ Spec.DefinedF ds k) :
    ∃ c, (c ∈ Spec.allClasses ds ∧ c.name = k.1) ∧ ∀ c', c' ∈ Spec.allClasses ds ∧ c'.name = k.1 → c' = c := by
  have : ∃ c, c ∈ Spec.allClasses ds ∧ c.name = k.1 := by
    rcases h with ⟨c, hc, m, _, rfl⟩ | ⟨c, hc, f, _, rfl⟩ <;> exact ⟨c, hc, rfl⟩
  obtain ⟨c, hc, hn⟩ := this
  exact ⟨c, ⟨hc, hn⟩, fun c' h' => class_definition_unique ds hd c' c h'.1 hc (h'.2.trans hn.symm)⟩

/-- two DEX files defining the same class name with different bodies -/
def dupProg : List Dex :=
  [⟨[⟨"LA;", [("x", "I")], [⟨"m", "()V", []⟩]⟩], []⟩,
   ⟨[⟨"LA;", [("y", "J")], [⟨"n", "()V", []⟩]⟩], []⟩]

/-- where the key-based model stops mirroring the code: a repeated class name is ONE class holding the members
of both definitions (the code keeps only the last added definition's ClassAnalysis and FieldAnalysis objects) -/
theorem duplicate_class_is_merged :
    ¬ DistinctClassNames dupProg ∧
    (analyse dupProg).classes = [("LA;", false)] ∧
    dget (analyse dupProg).methods ("LA;", "m", "()V") = some false ∧
    dget (analyse dupProg).methods ("LA;", "n", "()V") = some false ∧
    (analyse dupProg).fields = [("LA;", ("LA;", "x", "I")), ("LA;", ("LA;", "y", "J"))] := by
  refine ⟨by unfold DistinctClassNames; decide +kernel, ?_, ?_, ?_, ?_⟩ <;> decide +kernel

/-- cross-DEX resolution: a call into a class of another DEX resolves to the analysed method -/
theorem cross_dex_resolution (ds : List Dex) (k : MKey) (h : Spec.DefinedM ds k) :
    dget (analyse ds).methods k = some false := by
  rw [dget_methods]; simp [h]

/-! non-vacuity: two DEX files, a call and a field access across them -/
def exProg : List Dex :=
  [⟨[⟨"LA;", [("x", "I")], [⟨"m", "()V", [(0, ⟨⟨0x6e, by decide⟩, .meth "LB;" "n" "()V"⟩)]⟩]⟩], ["s"]⟩,
   ⟨[⟨"LB;", [], [⟨"n", "()V", [(0, ⟨⟨0x52, by decide⟩, .field "LA;" "x" "I"⟩)]⟩]⟩], []⟩]

example : DistinctClassNames exProg := by unfold DistinctClassNames; decide +kernel
example : exProg.Perm exProg.reverse := (List.reverse_perm _).symm
example : view (analyse exProg) = view (analyse exProg.reverse) := analyse_perm _ _ (List.reverse_perm _).symm
example : (analyse exProg).mRead = [(("LB;", "n", "()V"), ("LA;", "x", "I"), 0)] := by decide +kernel
example : (analyse [mergeDex exProg]).mRead = [(("LB;", "n", "()V"), ("LA;", "x", "I"), 0)] := by decide +kernel

end AgVerif.C16
