/-
C16 — Multi-DEX analysis is independent of how the code is split and ordered.
`view` (AgVerif/Proof/XrefView.lean) is everything observable with the association-list order forgotten.
The model identifies Python objects by the key they are registered under, which mirrors the code only
when class names are distinct across the added DEX files (with a repeated class name the code keeps
the objects of the last added DEX); hence the hypothesis, which the proofs themselves do not need.
-/
import AgVerif.Proof.XrefView

namespace AgVerif.C16
open AgVerif.Xref

def DistinctClassNames (ds : List Dex) : Prop := ((Spec.allClasses ds).map (·.name)).Nodup

/-- the single DEX holding all classes (and all pool strings) -/
def mergeDex (ds : List Dex) : Dex := ⟨ds.flatMap (·.classes), ds.flatMap (·.strings)⟩

/-- any add order gives the same view -/
theorem analyse_perm (ds₁ ds₂ : List Dex) (h : ds₁.Perm ds₂) (_hd : DistinctClassNames ds₁) :
    view (analyse ds₁) = view (analyse ds₂) := by
  apply view_congr
  constructor
  · intro c
    simp only [Spec.allClasses, List.mem_flatMap]
    constructor
    · rintro ⟨d, hd, hc⟩; exact ⟨d, h.mem_iff.1 hd, hc⟩
    · rintro ⟨d, hd, hc⟩; exact ⟨d, h.mem_iff.2 hd, hc⟩
  · intro s
    simp only [Spec.InPool]
    constructor
    · rintro ⟨d, hd, hc⟩; exact ⟨d, h.mem_iff.1 hd, hc⟩
    · rintro ⟨d, hd, hc⟩; exact ⟨d, h.mem_iff.2 hd, hc⟩

/-- any split into DEX files gives the same view as one DEX holding all the classes -/
theorem analyse_split (ds : List Dex) (_hd : DistinctClassNames ds) :
    view (analyse ds) = view (analyse [mergeDex ds]) := by
  apply view_congr
  constructor
  · intro c; simp [Spec.allClasses, mergeDex]
  · intro s; simp [Spec.InPool, mergeDex, List.mem_flatMap]

/-- more generally: any two arrangements of the same classes and pool strings -/
theorem analyse_regroup (ds₁ ds₂ : List Dex) (h : SameContent ds₁ ds₂) (_hd : DistinctClassNames ds₁) :
    view (analyse ds₁) = view (analyse ds₂) :=
  view_congr h

/-- cross-DEX resolution: a call into a class of another DEX resolves to the analysed method -/
theorem cross_dex_resolution (ds : List Dex) (k : MKey) (h : Spec.DefinedM ds k) :
    dget (analyse ds).methods k = some false := by
  rw [dget_methods]; simp [h]

/-! non-vacuity: two DEX files, a call and a field access across them -/
def exProg : List Dex :=
  [⟨[⟨"LA;", [("x", "I")], [⟨"m", "()V", [(0, ⟨⟨0x6e, by decide⟩, .meth "LB;" "n" "()V"⟩)]⟩]⟩], ["s"]⟩,
   ⟨[⟨"LB;", [], [⟨"n", "()V", [(0, ⟨⟨0x52, by decide⟩, .field "LA;" "x" "I"⟩)]⟩]⟩], []⟩]

example : DistinctClassNames exProg := by unfold DistinctClassNames; decide +kernel
example : exProg.Perm exProg.reverse := (List.reverse_perm _).symm
example : (analyse exProg).mRead = [(("LB;", "n", "()V"), ("LA;", "x", "I"), 0)] := by decide +kernel
example : (analyse [mergeDex exProg]).mRead = [(("LB;", "n", "()V"), ("LA;", "x", "I"), 0)] := by decide +kernel

end AgVerif.C16
