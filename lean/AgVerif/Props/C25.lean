/-
C25 — merged short-circuit conditions route control as the original branches did.

Model: AgVerif/Model/ShortCircuit.lean (conditions, CONDS negation, the four merge rules of short_circuit_struct with
the single-predecessor test and the entry guard, the writer's negate-and-swap and its MUTATING print).
The operator table `condsTable` is generated from androguard/decompiler/instruction.py on every run.
All statements quantify over every graph, every condition tree, every merge sequence and all operand values.
-/
import AgVerif.Proof.ShortCircuitGraph
import AgVerif.Proof.WriterVisit

namespace AgVerif.C25
open AgVerif.ShortCircuit

/-! ## CONDS (whole generated table) -/

/-- every comparison operator has an entry in CONDS and the entry is an operator (no KeyError in `neg`) -/
theorem conds_complete : ∀ o : Op, negOp? o = some (negOp o) := negOp?_table

/-- CONDS maps every operator to its logical negation, on all integers -/
theorem conds_negate (o : Op) (a b : Int) : (negOp o).sem a b = !(o.sem a b) := negOp_sem o a b

/-! ## negation of (nested) merged conditions -/

/-- `Condition.neg` (flip &&/||, negate both operands, keep `isnot`) negates the condition, at any nesting depth -/
theorem neg_sem (env : Env) (c : Cond) : c.neg.eval env = !(c.eval env) := eval_neg env c

/-! ## the four merge rules -/

/-- `node && then`   (then.false is els) -/
theorem merge_sem_and {G : CGraph} {n1 n2 : Nat} {nd tn : CNode} (P : MergePre G n1 n2 nd tn)
    (ht : nd.t = n2) (hf : tn.f = nd.f) (env : Env) {s e : Nat} (hs : s ≠ n2) :
    Reach G env s e ↔ Reach (G.merged n1 n2 ⟨n1, .sc false true nd.c tn.c, tn.t, nd.f⟩) env s e :=
  merge_reach (shape_and P ht hf) env hs

/-- `!node || then`  (then.true is els) -/
theorem merge_sem_ornot {G : CGraph} {n1 n2 : Nat} {nd tn : CNode} (P : MergePre G n1 n2 nd tn)
    (ht : nd.t = n2) (hf : tn.t = nd.f) (env : Env) {s e : Nat} (hs : s ≠ n2) :
    Reach G env s e ↔ Reach (G.merged n1 n2 ⟨n1, .sc true false nd.c tn.c, nd.f, tn.f⟩) env s e :=
  merge_reach (shape_ornot P ht hf) env hs

/-- `!node && els`   (els.false is then) -/
theorem merge_sem_andnot {G : CGraph} {n1 n2 : Nat} {nd tn : CNode} (P : MergePre G n1 n2 nd tn)
    (he : nd.f = n2) (hf : tn.f = nd.t) (env : Env) {s e : Nat} (hs : s ≠ n2) :
    Reach G env s e ↔ Reach (G.merged n1 n2 ⟨n1, .sc true true nd.c tn.c, tn.t, nd.t⟩) env s e :=
  merge_reach (shape_andnot P he hf) env hs

/-- `node || els`    (els.true is then) -/
theorem merge_sem_or {G : CGraph} {n1 n2 : Nat} {nd tn : CNode} (P : MergePre G n1 n2 nd tn)
    (he : nd.f = n2) (hf : tn.t = nd.t) (env : Env) {s e : Nat} (hs : s ≠ n2) :
    Reach G env s e ↔ Reach (G.merged n1 n2 ⟨n1, .sc false false nd.c tn.c, nd.t, tn.f⟩) env s e :=
  merge_reach (shape_or P he hf) env hs

/-- whatever the loop body of short_circuit_struct decides for a node (with the entry guard), the new graph routes
    every start other than the absorbed node to the same exit, keeps the entry, and the absorbed node is not the entry -/
theorem merge_step_sem {G G' : CGraph} {n1 n2 : Nat} (h : mergeAt true G n1 = some (n2, G')) :
    n2 ≠ G.entry ∧ G'.entry = G.entry ∧
    ∀ env s e, s ≠ n2 → (Reach G env s e ↔ Reach G' env s e) := by
  obtain ⟨m, ok, hG, hent⟩ := mergeAt_sound h
  have hent := hent rfl
  refine ⟨hent, ?_, fun env s e hs => hG ▸ merge_reach ok env hs⟩
  rw [hG]; simp only [CGraph.merged]
  have : (G.entry == n2) = false := by simp; exact fun h => hent h.symm
  simp [this]

/-- chains of ANY length and nesting: after any sequence of merges the code performs, control entering the method
    leaves through the same exit as in the original graph of single branches, for all operand values -/
theorem merge_chain_sem {G G' : CGraph} (tr : List (Nat × Nat)) (h : replay true G tr = some G') :
    G'.entry = G.entry ∧ ∀ env e, Reach G env G.entry e ↔ Reach G' env G'.entry e :=
  replay_reach tr h

/-! ## printing -/

/-- the text written for a condition that is printed ONCE means what the condition means -/
theorem print_once_sem (env : Env) (c : Cond) (h : c.WF) : (print c).2.eval env = c.eval env :=
  print_eval env c.size c (Nat.le_refl _) h

/-- visit_cond_node / visit_loop_node: `cond.neg()` + exchanging `true` and `false` keeps the routing -/
theorem writer_swap_sem (env : Env) (x : CNode) : x.swap.route env = x.route env := swap_route env x

/-- after any number of negate-and-swap steps, the printed text sends control to the node's (final) `true`
    successor exactly when the node, as short_circuit_struct left it, would have gone there -/
theorem printed_routes (env : Env) (k : Nat) (x : CNode) (h : x.c.WF) :
    (if (writerPrint k x).2.eval env then (writerPrint k x).1.t else (writerPrint k x).1.f) = x.route env := by
  simp only [writerPrint, print_eval env _ _ (Nat.le_refl _) (swaps_WF k x h)]
  exact swaps_route env k x

/-- the printed text of a node of the merged graph selects the successor the merged graph's step selects -/
theorem printed_node_step {G : CGraph} {n : Nat} {x : CNode} (hl : G.look n = some x) (h : x.c.WF) (env : Env) (k : Nat) :
    G.next env n = some (if (writerPrint k x).2.eval env then (writerPrint k x).1.t else (writerPrint k x).1.f) := by
  rw [printed_routes env k x h]; exact next_of_look hl

/-! ## the writer prints each condition once (loop-free fragment of the visit discipline) -/

/-- visit_node / visit_cond_node / visit_statement_node / visit_return_node with the `visited_nodes` set and the
    `if_follow` stack, on ANY graph (cyclic or not, any follow annotation, any numbering), from any entry:
    no conditional node has its condition printed twice.  (Loop / switch / try nodes are not in this fragment.) -/
theorem writer_prints_each_cond_once (g : WriterVisit.WGraph) (fuel entry : Nat) :
    ((WriterVisit.visitNode g fuel [] entry ⟨[], []⟩).out.map (·.1)).Nodup :=
  (WriterVisit.visitNode_inv g fuel [] entry ⟨[], []⟩ ⟨List.nodup_nil, by simp⟩).1

/-! ## honest witnesses -/

/-- `!(a < b) || (c == d)` as short_circuit_struct builds it -/
def wNotOr : Cond := .sc true false (.leaf 0 .bin .lt) (.leaf 1 .bin .eq)
def wEnv : Env := fun i => if i = 0 then (0, 1) else (0, 1)

/-- printing mutates: the stored object no longer means what it meant (its `isnot` flag is still set) -/
theorem print_mutates : (print wNotOr).1 ≠ wNotOr ∧ (print wNotOr).1.eval wEnv ≠ wNotOr.eval wEnv := by
  obtain ⟨-, -, h3, -⟩ := negOp_cases
  simp only [wNotOr, print_sc, print_leaf, Cond.neg, h3, if_true]
  constructor
  · decide
  · decide

/-- printing the same condition object TWICE writes a text with the first operand flipped back -/
theorem print_twice_not_idempotent :
    (print (print wNotOr).1).2.eval wEnv ≠ wNotOr.eval wEnv := by
  obtain ⟨-, -, h3, -, h5, -⟩ := negOp_cases
  simp only [wNotOr, print_sc, print_leaf, Cond.neg, h3, h5, if_true]
  decide

/-- the code WITHOUT the entry guard (as it was): three branches, the third jumps back to the first (the method
    entry, whose only explicit predecessor it is); the entry is absorbed as second operand and control now enters
    through the third branch -/
def wLoop : CGraph :=
  { entry := 0
    nodes := [⟨0, .leaf 0 .bin .lt, 1, 2000⟩, ⟨1, .leaf 1 .bin .lt, 2, 2001⟩, ⟨2, .leaf 2 .bin .lt, 0, 2000⟩]
    stmts := [] }
def wLoopEnv : Env := fun i => if i = 0 then (0, 1) else (1, 0)

theorem unguarded_entry_refuted :
    ∃ G', mergeAt false wLoop 2 = some (0, G') ∧
      ¬ (∀ e, Reach wLoop wLoopEnv wLoop.entry e ↔ Reach G' wLoopEnv G'.entry e) := by
  refine ⟨wLoop.merged 2 0 ⟨2, .sc false true (.leaf 2 .bin .lt) (.leaf 0 .bin .lt), 1, 2000⟩, by decide, fun h => ?_⟩
  have r1 : Reach wLoop wLoopEnv wLoop.entry 2001 := run_sound 5 _ (by decide)
  have r2 := run_sound (G := (wLoop.merged 2 0 ⟨2, .sc false true (.leaf 2 .bin .lt) (.leaf 0 .bin .lt), 1, 2000⟩))
    (env := wLoopEnv) 5 2 (e := 2000) (by decide)
  have := reach_det ((h 2001).1 r1) r2
  cases this

/-- the guarded code refuses that merge -/
theorem guarded_entry_not_merged : mergeAt true wLoop 2 = none := by decide

/-! ## non-vacuity -/

/-- a chain `a && b && c` (three branches, two exits) is merged twice, with nesting, by `replay` -/
def wChain : CGraph :=
  { entry := 0
    nodes := [⟨0, .leaf 0 .bin .lt, 1, 2000⟩, ⟨1, .leaf 1 .zint .ne, 2, 2000⟩, ⟨2, .leaf 2 .zbool .eq, 2001, 2000⟩]
    stmts := [] }

example : (replay true wChain [(1, 2), (0, 1)]).map (·.nodes) =
    some [⟨0, .sc false true (.leaf 0 .bin .lt) (.sc false true (.leaf 1 .zint .ne) (.leaf 2 .zbool .eq)), 2001, 2000⟩] := by
  decide

example : ∃ nd tn, MergePre wChain 1 2 nd tn ∧ nd.t = 2 ∧ tn.f = nd.f :=
  ⟨⟨1, .leaf 1 .zint .ne, 2, 2000⟩, ⟨2, .leaf 2 .zbool .eq, 2001, 2000⟩, ⟨by decide, by decide, by decide, by decide, by decide⟩, rfl, rfl⟩

example : wNotOr.WF := by decide
example : (print wNotOr).2.render = "(p0 >= p1) || (p2 == p3)" := by
  obtain ⟨-, -, h3, -⟩ := negOp_cases
  simp only [wNotOr, print_sc, print_leaf, Cond.neg, h3, if_true]
  decide

/-- the visit model prints both conditions of `if (c0) { if (c1) return 0; } return 1;`, the second one negated -/
example :
    (WriterVisit.visitNode
      ⟨fun n => if n = 0 then some (.cond 1 2001 (some 2001)) else if n = 1 then some (.cond 2001 2000 (some 2001))
                else if n ≥ 2000 then some .ret else none, fun n => n⟩ 10 [] 0 ⟨[], []⟩).out = [(0, false), (1, true)] := by
  decide

end AgVerif.C25
