/-
C06 — DEX strings decode to exactly the UTF-16 text their MUTF-8 bytes encode.
Property theorems only (lemmas: AgVerif/Proof/Mutf8.lean).

Model: AgVerif.Mutf8 — `decode` transliterates the `mutf8` C extension androguard.core.mutf8
wraps (fast path through CPython's strict UTF-8 decoder + slow loop), `readNT` transliterates
read_null_terminated_string WITH fixes/C35-readnt-eof.diff, `stringDataItem` is
StringDataItem.__init__ + get.   Spec: AgVerif.Spec.Mutf8 (DEX format document: per-unit
one/two/three-byte forms, C0 80 for U+0000; UTF-16 of a Python str).
All theorems quantify over every list of UTF-16 units / every file / every chunk size.
-/
import AgVerif.Proof.Mutf8
namespace AgVerif.C06
open AgVerif.Mutf8 AgVerif.Spec.Mutf8

/-- **Tie to the source (translator).** The constants the model was transliterated from, as
    gen/strconsts.py reads them from the working tree on every run: a positive chunk size, the
    end-of-buffer guard of fixes/C35-readnt-eof.diff, `split(.., 1)`, and `decode`/`encode` bound to
    the `mutf8` package's functions. -/
theorem source_constants :
    0 < AgVerif.Gen.StrConsts.ntChunk ∧ AgVerif.Gen.StrConsts.ntEofGuard = true ∧
    AgVerif.Gen.StrConsts.ntSplitMax = 1 ∧
    AgVerif.Gen.StrConsts.decodeBinding = "mutf8.decode_modified_utf8" ∧
    AgVerif.Gen.StrConsts.encodeBinding = "mutf8.encode_modified_utf8" := by decide

/-- **Round trip, all unit sequences.** For every sequence of UTF-16 code units — U+0000
    (two-byte form), BMP characters, surrogate pairs (six bytes) and unpaired surrogates in any
    position — the decoder succeeds on its MUTF-8 encoding and the string it returns is exactly
    that sequence of UTF-16 units. -/
theorem mutf8_roundtrip (u : List Nat) (hu : ∀ c ∈ u, c < 65536) :
    ∃ cps, decode (encode u) = .ok cps ∧ utf16s cps = u := by
  rw [decode_eq_slow (encode u) (fun b hb => (encode_bytes u hu b hb).2)]
  exact slow_encode u.length u (Nat.le_refl _) hu

/-- the encoding of a string never contains the terminator byte -/
theorem encode_has_no_nul (u : List Nat) (hu : ∀ c ∈ u, c < 65536) : 0 ∉ encode u :=
  zero_not_mem_encode u hu

/-- Where the fast path can matter: without a four-byte UTF-8 lead byte (F0..FF) in the input the
    decoder is its slow loop, on every input (valid or not). -/
theorem decode_eq_slow_without_four_byte_lead (bs : List Nat) (h : ∀ b ∈ bs, b < 0xF0) :
    decode bs = slow bs :=
  decode_eq_slow bs h

/-- Quirk of the C slow loop, characterised (outside the property: such bytes never occur in
    MUTF-8): a stray continuation byte or F0..FF is returned as the code point of its value. -/
theorem slow_stray_byte (x : Nat) (rest : List Nat) (hx : x < 256)
    (h : (128 ≤ x ∧ x < 192) ∨ 240 ≤ x) : step x rest = .ok (x, 0) :=
  step_other x rest hx h

/-- truncated two- and three-byte forms are errors -/
theorem slow_truncated (x : Nat) :
    (192 ≤ x ∧ x < 224 → slow [x] = .error .short2) ∧
    (224 ≤ x ∧ x < 240 → ∀ r, r.length < 2 → slow (x :: r) = .error .short3) :=
  ⟨fun h => slow_cons_err (step_two_short x h.1 h.2),
   fun h r hr => slow_cons_err (step_three_short x r h.1 h.2 hr)⟩

/-- **The string reader, every alignment.** For every chunk size > 0, every prefix `pre` (so every
    offset of the string against the chunk grid), every NUL-free `s` of any length and every
    `post`: the reader started at `|pre|` returns exactly `s` and leaves the file position just
    after the terminator. -/
theorem readNT_spec (chunk : Nat) (hc : 0 < chunk) (pre s post : List Nat) (hs : 0 ∉ s) :
    readNT chunk (pre ++ s ++ [0] ++ post) pre.length = some (s, pre.length + s.length + 1) := by
  have hf : pre ++ s ++ [0] ++ post = pre ++ (s ++ 0 :: post) := by simp
  rw [hf]
  have := ntLoop_spec chunk hc post s.length s pre [] 0 (Nat.le_refl _) hs
  simpa [readNT] using this

/-- **End of file (fixed code).** If no NUL byte lies between `pos` and the end of the file the
    reader raises (`none` = ValueError) — for every chunk size, including a `pos` beyond the end. -/
theorem readNT_eof (chunk : Nat) (file : List Nat) (pos : Nat) (h : ∀ b ∈ file.drop pos, b ≠ 0) :
    readNT chunk file pos = none :=
  ntLoop_eof chunk file (file.length - pos) pos [] 0 (Nat.le_refl _) h

/-- **End of file (code before the fix).** At or beyond the end of the file one iteration of the
    old loop body changes nothing — same position, same accumulator, no `break`: the loop state is
    a fixed point, i.e. `while True` never exits (defect D18). -/
theorem readNT_old_no_progress (chunk : Nat) (file : List Nat) (pos : Nat) (acc : List Nat)
    (h : file.length ≤ pos) : ntBody false chunk file pos acc = .more pos acc := by
  have hd : file.drop pos = [] := List.drop_eq_nil_of_le h
  unfold ntBody
  simp [hd]

/-- the fixed loop runs at most (bytes left + 1) iterations -/
theorem readNT_steps_le (chunk : Nat) (file : List Nat) (pos : Nat) :
    readNTSteps chunk file pos ≤ (file.length - pos) + 1 := by
  have := ntLoop_steps chunk file (file.length - pos) pos [] 0 (Nat.le_refl _)
  simpa [readNTSteps] using this

/-- **string_data_item.** A `string_data_item` laid out anywhere in a file — a uleb128 `sz` that the
    LEB reader consumes completely (C03 `uleb_decode_spec` provides this for every item), the
    MUTF-8 encoding of `u`, the terminator — is read back as exactly the UTF-16 units `u`. -/
theorem string_data_item_spec (pre sz post u : List Nat) (v : Nat) (hu : ∀ c ∈ u, c < 65536)
    (hsz : ∀ rest, AgVerif.Leb.readUleb (sz ++ rest) = some (v, sz.length)) :
    ∃ cps, stringDataItem (pre ++ sz ++ encode u ++ [0] ++ post) pre.length
        = some (v, encode u, .ok cps) ∧ utf16s cps = u := by
  obtain ⟨cps, hd, hcp⟩ := mutf8_roundtrip u hu
  refine ⟨cps, ?_, hcp⟩
  unfold stringDataItem
  have hdrop : (pre ++ sz ++ encode u ++ [0] ++ post).drop pre.length
      = sz ++ (encode u ++ [0] ++ post) := by
    have : pre ++ sz ++ encode u ++ [0] ++ post = pre ++ (sz ++ (encode u ++ [0] ++ post)) := by simp
    rw [this, List.drop_left]
  rw [hdrop, hsz]
  simp only []
  have hfile : pre ++ sz ++ encode u ++ [0] ++ post = (pre ++ sz) ++ encode u ++ [0] ++ post := by simp
  have hpos : pre.length + sz.length = (pre ++ sz).length := by simp
  rw [hfile, hpos, readNT_spec CHUNK (by decide) (pre ++ sz) (encode u) post (encode_has_no_nul u hu)]
  simp only [hd]

/-! ### non-vacuity -/

/-- "A", U+0000, U+00E9, U+20AC, U+1F600 as a pair, a lone low then a lone high surrogate -/
example : encode [0x41, 0, 0xE9, 0x20AC, 0xD83D, 0xDE00, 0xDC00, 0xD800]
    = [0x41, 0xC0, 0x80, 0xC3, 0xA9, 0xE2, 0x82, 0xAC, 0xED, 0xA0, 0xBD, 0xED, 0xB8, 0x80,
       0xED, 0xB0, 0x80, 0xED, 0xA0, 0x80] := by decide
example : ∀ c ∈ [0x41, 0, 0xE9, 0x20AC, 0xD83D, 0xDE00, 0xDC00, 0xD800], c < 65536 := by decide
example : utf16s [0x41, 0, 0xE9, 0x20AC, 0x1F600, 0xDC00, 0xD800]
    = [0x41, 0, 0xE9, 0x20AC, 0xD83D, 0xDE00, 0xDC00, 0xD800] := by decide
/-- a string crossing a chunk boundary with chunk size 4 -/
example : readNT 4 ([9, 9, 9] ++ [1, 2, 3, 4, 5, 6] ++ [0] ++ [7]) 3 = some ([1, 2, 3, 4, 5, 6], 10) :=
  readNT_spec 4 (by decide) [9, 9, 9] [1, 2, 3, 4, 5, 6] [7] (by decide)
example : ∀ b ∈ ([1, 2, 3] : List Nat).drop 1, b ≠ 0 := by decide
example : ∀ rest, AgVerif.Leb.readUleb ([3] ++ rest) = some (3, [3].length) := fun _ => rfl

end AgVerif.C06
