/-
C19 — Reverse post-order numbering is a valid topological order of forward edges.
Property theorems only (lemmas: AgVerif/Proof/Rpo.lean).

Model: AgVerif.Rpo (`loop`/`postOrder`/`computeRpo` = `Graph.post_order`/`Graph.compute_rpo`,
androguard/decompiler/graph.py:144-172) over AgVerif.Digraph (`allSucs` = `Graph.all_sucs`).
Spec:  AgVerif.Spec.Reach (reachability), `Digraph.Rooted` (every node reachable from the entry),
`Rpo.Anc par v u` (v is u or a DFS-tree ancestor of u: the edge u → v is a back edge of this DFS).

Every theorem quantifies over ALL graphs `g` with `g.WF` (edges stay inside `nodes`), any number of
nodes, any successor order, self loops, duplicate successors, catch edges.
-/
import AgVerif.Proof.Rpo
namespace AgVerif.C19
open AgVerif AgVerif.Spec AgVerif.Rpo

/-- `compute_rpo` terminates: the fuel of the model is enough on every well-formed graph. -/
theorem rpo_total (g : Digraph) (hwf : g.WF) : ∃ r, computeRpo g = some r := by
  obtain ⟨s, hs⟩ := postOrder_some g hwf
  simp only [computeRpo, hs]
  exact ⟨_, rfl⟩

/-- For every rooted graph the node numbers are a permutation of 1..n. -/
theorem rpo_perm (g : Digraph) (hwf : g.WF) (hroot : g.Rooted) (r : Result)
    (h : computeRpo g = some r) : ((List.range g.n).map r.num).Perm (List.range' 1 g.n) := by
  simp only [computeRpo] at h
  split at h
  · simp at h
  · next s hs =>
    simp at h; subst h
    have hf := postOrder_final g _ s hs
    have hp := hf.out_perm hwf hroot
    have hlen : s.out.length = g.n := by simpa using hp.length_eq
    refine (hp.map _).symm.trans ?_
    have : s.out.map (numOf g s) = List.range' (g.n + 1 - s.out.length) s.out.length := by
      rw [← map_num_poFrom g.n s.out hf.core.out_nodup (by omega)]
      apply List.map_congr_left
      intro x _
      simp only [numOf, hf.core.po_eq x]
      cases poFrom s.out x <;> rfl
    rw [this, hlen]
    have : g.n + 1 - g.n = 1 := by omega
    rw [this]

/-- The entry of a rooted graph gets number 1. -/
theorem entry_is_one (g : Digraph) (hwf : g.WF) (hroot : g.Rooted) (r : Result)
    (h : computeRpo g = some r) : r.num g.entry = 1 := by
  simp only [computeRpo] at h
  split at h
  · simp at h
  · next s hs =>
    simp at h; subst h
    have hf := postOrder_final g _ s hs
    have hlen : s.out.length = g.n := by simpa using (hf.out_perm hwf hroot).length_eq
    obtain ⟨rest, hr⟩ := hf.entry_last
    have : s.po g.entry = some (rest.length + 1) := by
      rw [hf.core.po_eq, hr]; simp [poFrom]
    simp only [numOf, this]
    rw [hr] at hlen; simp at hlen; omega

/-- `num` and `po` are complementary: `num = len(nodes) + 1 - po`, with no truncation. -/
theorem num_po (g : Digraph) (hwf : g.WF) (r : Result) (h : computeRpo g = some r) (v p : Nat)
    (hp : r.po v = some p) : r.num v + p = g.n + 1 ∧ 1 ≤ p := by
  simp only [computeRpo] at h
  split at h
  · simp at h
  · next s hs =>
    simp at h; subst h
    have hf := postOrder_final g _ s hs
    simp only at hp
    have hb := poFrom_some (hf.core.po_eq v ▸ hp)
    have := hf.out_length_le hwf
    simp only [numOf, hp]; omega

/-- Every edge whose source is reachable is numbered forwards, unless its target is the source
    itself or an ancestor of the source in the DFS tree (a back edge).  All graphs, rooted or not. -/
theorem rpo_forward (g : Digraph) (hwf : g.WF) (r : Result) (h : computeRpo g = some r)
    (u v : Nat) (hu : Reach g.Edge g.entry u) (he : g.Edge u v) :
    r.num u < r.num v ∨ Anc r.par v u := by
  simp only [computeRpo] at h
  split at h
  · simp at h
  · next s hs =>
    simp at h; subst h
    have hf := postOrder_final g _ s hs
    have huo := (hf.out_iff_reach u).mpr hu
    rcases hf.core.edge_ok u huo v he with ⟨pu, pv, h1, h2, h3⟩ | ha
    · left
      have hb1 := poFrom_some (hf.core.po_eq u ▸ h1)
      have hb2 := poFrom_some (hf.core.po_eq v ▸ h2)
      have := hf.out_length_le hwf
      simp only [numOf, h1, h2]; omega
    · exact Or.inr ha

/-- The ghost parent pointers form a tree of graph edges rooted at the entry that spans exactly the
    reachable nodes; hence a back edge `u → v` closes a cycle `v ⇝ u → v`. -/
theorem dfs_tree (g : Digraph) (r : Result) (h : computeRpo g = some r) :
    (∀ x p, r.par x = some p → g.Edge p x) ∧ r.par g.entry = none ∧
    (∀ x, Reach g.Edge g.entry x → Anc r.par g.entry x) ∧
    (∀ v u, Anc r.par v u → Reach g.Edge v u) := by
  simp only [computeRpo] at h
  split at h
  · simp at h
  · next s hs =>
    simp at h; subst h
    have hf := postOrder_final g _ s hs
    refine ⟨hf.core.par_edge, hf.core.par_root, ?_, fun v u a => a.reach hf.core.par_edge⟩
    intro x hx
    exact hf.core.root x (hf.core.out_sub x ((hf.out_iff_reach x).mpr hx))

/-- Order-free consequence: an edge that lies on no cycle is numbered forwards; on an acyclic graph
    the numbering is a topological order. -/
theorem rpo_topological (g : Digraph) (hwf : g.WF) (r : Result) (h : computeRpo g = some r)
    (u v : Nat) (hu : Reach g.Edge g.entry u) (he : g.Edge u v) (hnc : ¬ Reach g.Edge v u) :
    r.num u < r.num v := by
  rcases rpo_forward g hwf r h u v hu he with h1 | h1
  · exact h1
  · exact absurd ((dfs_tree g r h).2.2.2 v u h1) hnc

/-- Reachable nodes are numbered injectively inside 1..n, unreachable ones keep `num = 0` and get
    no `po` (what the code does on graphs that are not rooted). -/
theorem rpo_general (g : Digraph) (hwf : g.WF) (r : Result) (h : computeRpo g = some r) :
    (∀ v, Reach g.Edge g.entry v → 1 ≤ r.num v ∧ r.num v ≤ g.n) ∧
    (∀ u v, Reach g.Edge g.entry u → Reach g.Edge g.entry v → r.num u = r.num v → u = v) ∧
    (∀ v, ¬ Reach g.Edge g.entry v → r.num v = 0 ∧ r.po v = none) := by
  simp only [computeRpo] at h
  split at h
  · simp at h
  · next s hs =>
    simp at h; subst h
    have hf := postOrder_final g _ s hs
    have hlen := hf.out_length_le hwf
    refine ⟨?_, ?_, ?_⟩
    · intro v hv
      obtain ⟨p, hp⟩ := poFrom_mem ((hf.out_iff_reach v).mpr hv)
      have hb := poFrom_some hp
      simp only [numOf, hf.core.po_eq v, hp]; omega
    · intro u v hu hv he
      obtain ⟨pu, hpu⟩ := poFrom_mem ((hf.out_iff_reach u).mpr hu)
      obtain ⟨pv, hpv⟩ := poFrom_mem ((hf.out_iff_reach v).mpr hv)
      have hb1 := poFrom_some hpu
      have hb2 := poFrom_some hpv
      simp only [numOf, hf.core.po_eq, hpu, hpv] at he
      have : pu = pv := by omega
      exact poFrom_inj hpu (this ▸ hpv)
    · intro v hv
      have : v ∉ s.out := fun hx => hv ((hf.out_iff_reach v).mp hx)
      simp only [numOf, hf.core.po_eq v, poFrom_none this, and_self]

/-- `Graph.rpo` is the node list sorted by `num`. -/
theorem rpo_sorted (g : Digraph) (r : Result) (h : computeRpo g = some r) :
    r.rpo.Perm (List.range g.n) ∧ r.rpo.Pairwise (fun a b => r.num a ≤ r.num b) := by
  simp only [computeRpo] at h
  split at h
  · simp at h
  · next s hs =>
    simp at h; subst h
    refine ⟨List.mergeSort_perm _ _, ?_⟩
    have := List.pairwise_mergeSort (le := fun a b => decide (numOf g s a ≤ numOf g s b))
      (by intro a b c; simp; omega) (by intro a b; simp; omega) (List.range g.n)
    exact this.imp (by intro a b; simp)

/-! ### non-vacuity: concrete graphs satisfy the hypotheses, and the model computes on them -/

/-- the graph of the Lengauer–Tarjan paper used in tests/test_decompiler_rpo.py (r=0, a=1 … l=12) -/
def tarjan : Digraph :=
  { n := 13, entry := 0,
    edges := [[1, 2, 3], [4], [1, 4, 5], [6, 7], [12], [8], [9], [9, 10], [5, 11], [11], [9], [9, 0], [8]],
    catchEdges := [[], [], [], [], [], [], [], [], [], [], [], [], []] }

example : tarjan.wfb = true := by decide
example : ((computeRpo tarjan).map fun r => (List.range 13).map r.num)
    = some [1, 7, 6, 2, 8, 13, 5, 3, 10, 12, 4, 11, 9] := by decide
/-- the hypotheses `WF` and `Rooted` of `rpo_perm` / `entry_is_one` hold of this concrete graph -/
example : tarjan.WF := wf_of_wfb (by decide)
example : tarjan.Rooted :=
  rooted_of_order (l := [5, 9, 11, 8, 12, 4, 1, 2, 6, 10, 7, 3, 0]) (by decide) (by decide)
/-- an irreducible graph with a self loop and a catch edge: 0→1, 0→2, 1⇄2, 2→2, 1 ⇢ 3 -/
def irr : Digraph :=
  { n := 4, entry := 0, edges := [[1, 2], [2], [1, 2], []], catchEdges := [[], [3], [], []] }
example : irr.wfb = true := by decide
example : irr.WF ∧ irr.Rooted :=
  ⟨wf_of_wfb (by decide), rooted_of_order (l := [2, 3, 1, 0]) (by decide) (by decide)⟩
example : ((computeRpo irr).map fun r => ((List.range 4).map r.num, r.order))
    = some ([1, 2, 4, 3], [2, 3, 1, 0]) := by decide

end AgVerif.C19
