/-
C14 — Field cross-references are recorded on the field that is accessed.

The model is the code with fixes/C14-field-in-other-dex.diff applied (the field is looked up in every
added DEX).  The other half of defect D7 stays: `_create_xref` records the access in a FieldAnalysis
held by the *accessing* class.  It cannot be repaired without breaking the pinned test
tests/test_analysis.py::testAPK, which asserts the number of FieldAnalysis objects including those
duplicates (4005 + 573); it is the known finding `field-of-other-class`.  Accordingly:
  * `method_lists_field` is proved in full;
  * `field_xref_recorded` states exactly where the code records an access;
  * `field_xref_on_owner_partial`, `one_field_analysis_partial` are the property restricted to accesses
    from the declaring class (`FieldAccessesWithinOwnClass`);
  * `C14_full` is the property as stated and `C14_refuted` its kernel-checked refutation (two classes).
Scope of the statements: the model identifies a Python object with the key the code registers it under
(class name; (class, name, descriptor); string value).  On programs whose class names are distinct across
the added DEX files (`AgVerif.C16.DistinctClassNames`; C16 proves that the keying is injective there) this
mirrors the code.  For a program with a repeated class name the theorems below are statements about the
key-merged model only (`AgVerif.C16.duplicate_class_is_merged`): the code keeps the ClassAnalysis of the DEX
added last; that case is judged on the real code, on objects, by the duplicate-class stream of the harness.
-/
import AgVerif.Proof.XrefView

namespace AgVerif.C14
open AgVerif.Xref AgVerif.Gen

/-- the generated field tests agree with the bytecode document: iget*/sget* read, iput*/sput* write -/
theorem field_opcodes_agree : ∀ op : Fin 256,
    (XrefOps.kind op.val = 4 ↔ (op.val ∈ Spec.fieldReadOps ∨ op.val ∈ Spec.fieldWriteOps)) ∧
    (XrefOps.kind op.val = 4 →
      (XrefOps.isFieldRead op.val = true ↔ op.val ∈ Spec.fieldReadOps) ∧
      (XrefOps.isFieldRead op.val = false ↔ op.val ∈ Spec.fieldWriteOps)) :=
  fun op => ⟨kind4_iff op, fieldRead_agrees op⟩

/-- where the code records an access to a defined field: in the FieldAnalysis `(m.class, f)` -/
theorem field_xref_recorded (p : List Dex) (f : FKey) (m : MKey) (off : Nat) (hd : Spec.DefinedF p f) :
    (Spec.Reads p f m off ↔ ((m.1, f), m, off) ∈ (analyse p).fRead) ∧
    (Spec.Writes p f m off ↔ ((m.1, f), m, off) ∈ (analyse p).fWrite) := by
  rw [fRead_iff, fWrite_iff]
  simp [hd]

/-- the accessing method lists the field (read or write) for every access to a defined field, and lists
nothing else — also for fields of other classes and of other DEX files -/
theorem method_lists_field (p : List Dex) (f : FKey) (m : MKey) (off : Nat) :
    ((m, f, off) ∈ (analyse p).mRead ↔ Spec.DefinedF p f ∧ Spec.Reads p f m off) ∧
    ((m, f, off) ∈ (analyse p).mWrite ↔ Spec.DefinedF p f ∧ Spec.Writes p f m off) :=
  ⟨mRead_iff p f m off, mWrite_iff p f m off⟩

/-- `Analysis.get_field_analysis(f)` of a defined field is the FieldAnalysis of the declaring class -/
theorem field_analysis_of_defined (p : List Dex) (f : FKey) (hd : Spec.DefinedF p f) :
    fieldAnalysis (analyse p) f = some (f.1, f) := by
  unfold fieldAnalysis
  have hc : Spec.DefinedC p f.1 := by
    obtain ⟨c, hc, fd, _, rfl⟩ := hd
    exact ⟨c, hc, rfl⟩
  rw [dget_classes]
  have hm : (f.1, f) ∈ (analyse p).fields := (fields_iff p f.1 f).2 ⟨hd, Or.inl rfl⟩
  simp [hc, hm]

/-- accesses made from the declaring class are listed by the FieldAnalysis returned for the field -/
theorem field_xref_on_owner_partial (p : List Dex) (f : FKey) (m : MKey) (off : Nat)
    (hd : Spec.DefinedF p f) (hown : m.1 = f.1) :
    (Spec.Reads p f m off ↔ ((f.1, f), m, off) ∈ (analyse p).fRead) ∧
    (Spec.Writes p f m off ↔ ((f.1, f), m, off) ∈ (analyse p).fWrite) := by
  rw [← hown]; exact field_xref_recorded p f m off hd

/-- every field instruction names a field of the class it stands in -/
def FieldAccessesWithinOwnClass (p : List Dex) : Prop :=
  ∀ s ∈ Spec.sites p, ∀ c n t, s.ins.ref = .field c n t →
    (s.ins.op.val ∈ Spec.fieldReadOps ∨ s.ins.op.val ∈ Spec.fieldWriteOps) → c = s.cls

/-- the FieldAnalysis objects: one per defined field on its class, plus one per (field, other class
that accesses it) — the known finding -/
theorem field_analyses_exact (p : List Dex) (h : String) (f : FKey) :
    (h, f) ∈ (analyse p).fields ↔ Spec.DefinedF p f ∧ (h = f.1 ∨ Spec.AccessedFrom p f h) :=
  fields_iff p h f

/-- with accesses only from the declaring class, each defined field has exactly one FieldAnalysis -/
theorem one_field_analysis_partial (p : List Dex) (f : FKey) (hw : FieldAccessesWithinOwnClass p)
    (hd : Spec.DefinedF p f) :
    (analyse p).fields.filter (fun hf => hf.2 = f) = [(f.1, f)] := by
  apply eq_singleton_of_nodup
  · exact (nodup_fields p).filter _
  · intro x hx
    obtain ⟨hx1, hx2⟩ := List.mem_filter.1 hx
    obtain ⟨h, g⟩ := x
    simp only [decide_eq_true_eq] at hx2
    subst hx2
    obtain ⟨_, hh⟩ := (fields_iff p h g).1 hx1
    rcases hh with rfl | ⟨m, off, hrw, rfl⟩
    · rfl
    · have key : ∀ s ∈ Spec.sites p, s.ins.ref = .field g.1 g.2.1 g.2.2 →
          (s.ins.op.val ∈ Spec.fieldReadOps ∨ s.ins.op.val ∈ Spec.fieldWriteOps) → g.1 = s.meth.1 :=
        fun s hs hr ho => by rw [← site_cls p s hs]; exact hw s hs _ _ _ hr ho
      rcases hrw with ⟨s, hs, rfl, _, h1, h2⟩ | ⟨s, hs, rfl, _, h1, h2⟩
      · rw [key s hs h2 (Or.inl h1)]
      · rw [key s hs h2 (Or.inr h1)]
  · exact List.mem_filter.2 ⟨(fields_iff p f.1 f).2 ⟨hd, Or.inl rfl⟩, by simp⟩

/-- the dict of FieldAnalysis objects never holds the same (class, field) twice -/
theorem field_analyses_nodup (p : List Dex) : (analyse p).fields.Nodup := nodup_fields p

/-- C14 as stated: the FieldAnalysis returned for an accessed defined field lists the access, and the
field has exactly one FieldAnalysis -/
def C14_full : Prop :=
  ∀ (p : List Dex) (f : FKey) (m : MKey) (off : Nat), Spec.DefinedF p f →
    (Spec.Reads p f m off → ∃ fa, fieldAnalysis (analyse p) f = some fa ∧ (fa, m, off) ∈ (analyse p).fRead) ∧
    (Spec.Writes p f m off → ∃ fa, fieldAnalysis (analyse p) f = some fa ∧ (fa, m, off) ∈ (analyse p).fWrite) ∧
    (analyse p).fields.filter (fun hf => hf.2 = f) = [(f.1, f)]

/-- witness of the known finding `field-of-other-class`: `LB;.n` reads `LA;->x:I` -/
def witness : List Dex :=
  [⟨[⟨"LA;", [("x", "I")], []⟩,
     ⟨"LB;", [], [⟨"n", "()V", [(0, ⟨⟨0x52, by decide⟩, .field "LA;" "x" "I"⟩)]⟩]⟩], []⟩]

theorem C14_refuted : ¬ C14_full := by
  intro h
  have hd : Spec.DefinedF witness ("LA;", "x", "I") :=
    ⟨⟨"LA;", [("x", "I")], []⟩, by decide +kernel, ("x", "I"), by decide +kernel, rfl⟩
  have := (h witness ("LA;", "x", "I") ("LB;", "n", "()V") 0 hd).2.2
  revert this
  decide +kernel

/-! non-vacuity -/
def exProg : List Dex :=
  [⟨[⟨"LA;", [("x", "I")], [⟨"m", "()V", [(0, ⟨⟨0x52, by decide⟩, .field "LA;" "x" "I"⟩),
                                            (4, ⟨⟨0x59, by decide⟩, .field "LA;" "x" "I"⟩),
                                            (8, ⟨⟨0x60, by decide⟩, .field "LA;" "y" "I"⟩)]⟩]⟩], []⟩]

example : FieldAccessesWithinOwnClass exProg := by
  intro s hs c n t hr _
  have : s ∈ Spec.sites exProg := hs
  simp [Spec.sites, Spec.allClasses, exProg] at this
  rcases this with rfl | rfl | rfl <;> simp_all
example : (analyse exProg).fRead = [(("LA;", ("LA;", "x", "I")), ("LA;", "m", "()V"), 0)] := by decide +kernel
example : (analyse exProg).fWrite = [(("LA;", ("LA;", "x", "I")), ("LA;", "m", "()V"), 4)] := by decide +kernel
example : (analyse witness).fields = [("LA;", ("LA;", "x", "I")), ("LB;", ("LA;", "x", "I"))] := by decide +kernel

end AgVerif.C14
