/-
C10 — Basic blocks partition each method at every control-flow boundary.
Property theorems only (lemmas: AgVerif/Proof/Cfg.lean, AgVerif/Proof/CfgSpec.lean).

Model: AgVerif.Cfg (`_create_basic_block`, `determineNext`, `BasicOPCODES`), opcode sets generated
into AgVerif.Gen.CfgOps.  Spec: AgVerif.Spec.Cfg (control-transfer opcodes of the Dalvik document,
"the disassembler reports instruction i at offset o").
Every theorem holds for every instruction stream `m` and every try table `ex`, of any length.
-/
import AgVerif.Proof.CfgSucc
namespace AgVerif.C10
open AgVerif.Cfg AgVerif.Spec.Cfg AgVerif.Gen.CfgOps

/-- The blocks, read in order, are exactly the instruction list: every instruction is in exactly one
    block, in order; and the blocks are laid end to end from offset 0 to the end of the code, none
    empty (`Chain`: each block starts where the previous one ends). -/
theorem blocks_partition (m : List Ins) (ex : List Exc) :
    (blocks m ex).flatMap (·.insns) = m ∧ Chain 0 (blocks m ex) (lenSum m) :=
  ⟨blocks_flatten m ex, blocks_chain m ex⟩

/-- Blocks do not overlap: two blocks that share a byte offset are the same block. -/
theorem blocks_disjoint {m : List Ins} {ex : List Exc} (hm : MinLen m) {b c : Block}
    (hb : b ∈ blocks m ex) (hc : c ∈ blocks m ex) {p : Nat}
    (h1 : b.start ≤ p) (h2 : p < b.stop) (h3 : c.start ≤ p) (h4 : p < c.stop) : b = c :=
  chain_unique _ _ _ (blocks_chain m ex) (blocks_pos hm) b hb c hc (p : Int)
    (by omega) (by omega) (by omega) (by omega)

/-- A block's instructions are a contiguous run of the disassembly and `b.start` is the offset the
    disassembler reports for its first instruction. -/
theorem block_at_disassembler_offsets {m : List Ins} {ex : List Exc} {b : Block} (hb : b ∈ blocks m ex) :
    ∃ pre post, m = pre ++ b.insns ++ post ∧ b.start = lenSum pre :=
  block_in_stream hb

/-- Stated against the SPECIFICATION's successor rule (not the model's `leaders`): for every
    control-transfer instruction `i` at offset `idx`, every offset `t` that `Spec.Cfg.succ` lists —
    `idx + 2·refOff` of a goto / if, the fall-through of an if / switch, and `idx + 2·c` for every case
    target `c` of the switch payload `d` the disassembly reports at the encoded offset (`PayloadAt`,
    no lookup default) — begins a block whenever `t` is the offset of an instruction.
    `Aligned` (payloads 4-byte aligned) matters for switches only. -/
theorem spec_target_starts_block {m : List Ins} {ex : List Exc} (hm : MinLen m) (hal : Aligned m)
    {idx : Nat} {i : Ins} (hi : InsnAtM m idx i) (hop : i.op ∈ controlOps) (pay : List Int)
    (hpay : flowOf i.op = Flow.switch → ∃ d, PayloadAt m ((idx : Int) + 2 * i.refOff) d ∧ pay = d.targets)
    {t : Nat} (ht : (t : Int) ∈ succ i.op idx i.len i.refOff pay) (hto : InsnOffsetM m t) :
    ∃ b ∈ blocks m ex, b.start = t := by
  have hmem : (idx, i) ∈ withOff 0 m := mem_withOff_insnAt.mpr hi
  have hop' : i.op ∈ basicOps := by rw [basic_eq_control]; exact hop
  have hraw : (t : Int) ∈ succ i.op idx i.len i.refOff (rawTargets m ((idx : Int) + 2 * i.refOff)) := by
    cases hf : flowOf i.op with
    | switch =>
      obtain ⟨d, hd, hp⟩ := hpay hf
      rw [rawTargets_of_payloadAt hm hd, ← hp]; exact ht
    | exit => simp [succ, hf] at ht
    | goto => simpa [succ, hf] using ht
    | cond => simpa [succ, hf] using ht
    | fall => simpa [succ, hf] using ht
  have hn := spec_succ_mem_next hal hmem hop' hraw
  exact leader_block (next_mem_leaders hmem (by simpa [isBranch] using hop') hn) hto

/-- Every try start and every handler address of the try table that is the offset of an
    instruction begins a block (the try table is input data, not a model definition). -/
theorem try_and_handler_start_block {m : List Ins} {ex : List Exc} {e : Exc} (he : e ∈ ex) {o : Nat}
    (h : (o : Int) = e.start ∨ ∃ hd ∈ e.handlers, o = hd.2) (ho : InsnOffsetM m o) :
    ∃ b ∈ blocks m ex, b.start = o := by
  rcases h with h | ⟨hd, hh, rfl⟩
  · exact leader_block (by rw [h]; exact start_mem_leaders he) ho
  · exact leader_block (handler_mem_leaders he hh) ho

/-- A block ends right after every control-transfer instruction: it is the last instruction of its
    block, and the instruction after it (if any) begins the next block. -/
theorem block_ends_after_branch {m : List Ins} {ex : List Exc} {idx : Nat} {i : Ins}
    (hi : InsnAtM m idx i) (hop : i.op ∈ controlOps) :
    ∃ b ∈ blocks m ex, b.insns.getLast? = some i ∧ b.stop = idx + i.len ∧
      (idx + i.len < lenSum m → ∃ c ∈ blocks m ex, c.start = idx + i.len) := by
  have hbr : isBranch i = true := by simp [isBranch, basic_eq_control, hop]
  obtain ⟨b, hb, hg, _, hs⟩ := branch_ends_block (ex := ex) (mem_withOff_insnAt.mpr hi) hbr
  refine ⟨b, hb, hg, hs, fun hlt => ?_⟩
  obtain ⟨c, hc, hcs⟩ := chain_next _ _ _ (blocks_chain m ex) b hb (by omega)
  exact ⟨c, hc, by omega⟩

/-- What the model's list `l` contains (definitional; the content is in `spec_target_starts_block`): every `determineNext` value of every BasicOPCODES instruction, every
    try start, every handler address. -/
theorem leaders_complete (m : List Ins) (ex : List Exc) :
    (∀ idx i t, (idx, i) ∈ withOff 0 m → isBranch i = true → t ∈ next m idx i → t ∈ leaders m ex) ∧
    (∀ e ∈ ex, e.start ∈ leaders m ex) ∧
    (∀ e ∈ ex, ∀ h ∈ e.handlers, (h.2 : Int) ∈ leaders m ex) :=
  ⟨fun _ _ _ hi hb ht => next_mem_leaders hi hb ht, fun _ he => start_mem_leaders he,
   fun _ he _ hh => handler_mem_leaders he hh⟩

/-- Every branch target, switch target, try start and handler address that is the offset of an
    instruction begins a block. -/
theorem leader_starts_block {m : List Ins} {ex : List Exc} {o : Nat}
    (hl : (o : Int) ∈ leaders m ex) (ho : InsnOffsetM m o) : ∃ b ∈ blocks m ex, b.start = o :=
  leader_block hl ho

/-- Under the verifier's well-formedness (targets inside the method are instruction offsets), every
    leader inside the method begins a block. -/
theorem wf_leader_starts_block {m : List Ins} {ex : List Exc} (hwf : WFTargets m ex) {o : Nat}
    (hl : (o : Int) ∈ leaders m ex) (hlt : o < lenSum m) : ∃ b ∈ blocks m ex, b.start = o :=
  leader_block hl (hwf o hl hlt)

/-- Only the last instruction of a block can be a BasicOPCODES instruction. -/
theorem branch_only_last {m : List Ins} {ex : List Exc} {b : Block} (hb : b ∈ blocks m ex) :
    ∀ x ∈ b.insns.dropLast, x.op ∉ basicOps := by
  intro x hx
  have := splitAux_branch_last (isLeader (leaders m ex)) isBranch m 0 ⟨0, []⟩ (by simp) b hb x hx
  simpa [isBranch] using this

/-- `BasicOPCODES` as computed at import time is exactly the specification's list of
    control-transfer opcodes. -/
theorem basic_ops_spec : basicOps = controlOps := by decide

/-- The specification's list is exactly the set of opcodes that do not simply fall through. -/
theorem control_ops_flow (op : Nat) : op ∈ controlOps ↔ flowOf op ≠ Flow.fall := by
  by_cases h : op < 62
  · have : ∀ n, n < 62 → (n ∈ controlOps ↔ flowOf n ≠ Flow.fall) := by decide
    exact this op h
  · have h1 : op ∉ controlOps := by simp [controlOps]; omega
    have h2 : flowOf op = Flow.fall := by
      unfold flowOf
      rw [if_neg (by omega), if_neg (by omega), if_neg (by omega), if_neg (by omega)]
    simp [h1, h2]

/-- The four opcode tests of `determineNext` classify every BasicOPCODES opcode as the
    specification does (so no BasicOPCODES instruction gets an empty successor list by accident). -/
theorem next_cases_spec : ∀ op ∈ basicOps,
    (isExit op = true ↔ flowOf op = Flow.exit) ∧ (isGoto op = true ↔ flowOf op = Flow.goto) ∧
    (isIf op = true ↔ flowOf op = Flow.cond) ∧ (isSwitch op = true ↔ flowOf op = Flow.switch) := by
  decide

/-! Non-vacuity: `if-eqz v0, +2 ; nop ; return-void` (byte lengths 4, 2, 2). -/
def exM : List Ins :=
  [⟨4, 0x38, 2, 0, [], false⟩, ⟨2, 0x00, 0, 0, [], false⟩, ⟨2, 0x0e, 0, 0, [], false⟩]

example : (blocks exM []).map (fun b => (b.start, b.stop)) = [(0, 4), (4, 8)] := by decide
example : leaders exM [] = [4, 4, -1] := by decide
example : MinLen exM := by unfold MinLen; decide
example : InsnOffsetM exM 4 := ⟨⟨2, 0x00, 0, 0, [], false⟩, [⟨4, 0x38, 2, 0, [], false⟩], [⟨2, 0x0e, 0, 0, [], false⟩], rfl, rfl⟩
example : WFTargets exM [] := by
  intro o ho _
  have hl : leaders exM [] = [4, 4, -1] := by decide
  rw [hl] at ho
  simp only [List.mem_cons, List.not_mem_nil, or_false] at ho
  have : o = 4 := by omega
  subst this
  exact ⟨⟨2, 0x00, 0, 0, [], false⟩, [⟨4, 0x38, 2, 0, [], false⟩], [⟨2, 0x0e, 0, 0, [], false⟩], rfl, rfl⟩

/-! Non-vacuity with a switch, its payload and a try table:
    `packed-switch v0,+4 ; return-void ; nop ; packed-switch-payload{+3, +3}` (offsets 0 6 8 / payload 8),
    try range over bytes 0..5 with a catch-all handler at 6. -/
def exS : List Ins :=
  [⟨6, 0x2b, 4, 0, [], false⟩, ⟨2, 0x0e, 0, 0, [], false⟩, ⟨16, 0x100, 0, 1, [3, 3], false⟩]
def exT : List Exc := [⟨0, 5, [(none, 6)]⟩]

example : (blocks exS exT).map (fun b => (b.start, b.stop)) = [(0, 6), (6, 8), (8, 24)] := by decide
example : Aligned exS := by unfold Aligned; decide
example : PayloadAt exS (((0 : Nat) : Int) + 2 * 4) ⟨16, 0x100, 0, 1, [3, 3], false⟩ :=
  ⟨8, rfl, ⟨exS.take 2, [], rfl, rfl⟩, Or.inl rfl⟩
example : ((6 : Nat) : Int) ∈ succ 0x2b 0 6 4 [3, 3] := by decide
example : InsnOffsetM exS 6 := ⟨_, exS.take 1, exS.drop 2, rfl, rfl⟩

end AgVerif.C10
