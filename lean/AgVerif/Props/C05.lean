/-
C05 — the parsed DEX object model matches the file's declared structure.
Property theorems only (lemmas: AgVerif/Proof/DexFile.lean).

Model: AgVerif.DexFile (item decoders, ClassManager resolution, the view, the lookup helpers of
class DEX — the latter as they are WITH fixes/C05-lookup-helpers.diff).   Spec: AgVerif.Spec.DexFile
(encodings of the DEX format document; LEB128 items via AgVerif.Spec.Leb, canonical or padded).

Proved, for all values in range / all lists:
  L1   every item decoder inverts the specification's encoding and leaves the rest of the buffer;
       class_data_item with index differences (any sorted index list, any valid LEB128 items);
       direct and virtual lists are not swapped;
  res  index resolution returns the declared strings (string → type → field / method / descriptor);
  look the dictionary lookups return only matching items, find every matching item, and return
       exactly *the* matching item when keys are distinct; the method cache key of the unfixed code
       (string concatenation) is injective on valid names; the field cache key is NOT (kernel-checked
       witness, replayed on the real code by corpus/C05) — hence the fix to tuple keys.
  file `parse_encode` (= `C05_full`): for every file that `Encodes` well-formed tables T in any layout L
       (any order / placement of sections, any LEB128 padding, extra map entries) the loader reads
       the map list back, ends in exactly the ClassManager state the tables denote and `parseDex`
       returns the declared view; built from `string_table_from_file` … `class_defs_from_file`
       (one per section, composition of the L1 round trips), the load order of C07 and
       `view_of_tables`.  Code items with or without tries (the try items and the
       encoded_catch_handler_list of AgVerif.Spec.Tries are read past; their contents are C08's
       subject).  Non-vacuity: a 692-byte DEX written by harness/dexasm.py (Proof/DexExample.lean).
  ext  static values (Model/DexFileX.lean: `parseDexX` = the loader with the item parsers of
       encoded_array_item and the full ClassDefItem.reload): `parse_encode_static_values` — for every file
       that `EncodesX` well-formed extended tables (the base tables + an encoded_array_item section of
       arrays of the format document's encoded_values, any nesting) the extended loader ends in the
       declared state and reports the declared static values and init values; the decoder is C04's
       (`encoded_value_decoder_is_C04`), the base view is the base loader's (`extended_refines_base`);
       `parse_encode_annotations`: the same files may carry annotation_item / annotation_set_item /
       annotation_set_ref_list / annotations_directory_item sections; every class reports the directory
       at its annotations_off and `get_annotations()` = the types of its class annotation set;
       writer `parse_build_static_values`; non-vacuity Proof/DexXExample.lean.
  write `build_encodes`, `parse_build`: a layout-parametric writer whose output `Encodes` the tables for
       every `Consistent` layout, hence parse ∘ write = declared content; witnessed by the same
       content laid out in another order (Example.T2 / L2), which declares the same view.
-/
import AgVerif.Proof.DexFile
import AgVerif.Proof.DexLoadView
import AgVerif.Proof.DexBuild
import AgVerif.Proof.DexExample
import AgVerif.Proof.DexXBuild
import AgVerif.Proof.DexXInits
import AgVerif.Proof.DexXExample
import AgVerif.Proof.DexXDebug
import AgVerif.Proof.DexXExampleR
namespace AgVerif.C05
open AgVerif.DexFile AgVerif.Spec.Leb
open AgVerif.Spec.DexFile (ushort uint ULeb protoId fieldId methodId classDef typeListBody codeHdr EncFields EncMethods EncClassData diffs undiffs Ascending)

/-! ## L1: item codecs -/

theorem string_id_roundtrip (off : Nat) (rest : Bytes) (h : off < 2 ^ 32) :
    decStringId (uint off ++ rest) = some (off, rest) := u32_enc off rest h

theorem type_id_roundtrip (idx : Nat) (rest : Bytes) (h : idx < 2 ^ 32) :
    decTypeId (uint idx ++ rest) = some (idx, rest) := u32_enc idx rest h

theorem proto_id_roundtrip (shorty ret params : Nat) (rest : Bytes)
    (h1 : shorty < 2 ^ 32) (h2 : ret < 2 ^ 32) (h3 : params < 2 ^ 32) :
    decProtoId (protoId shorty ret params ++ rest) = some (⟨shorty, ret, params⟩, rest) :=
  decProtoId_enc _ _ _ rest h1 h2 h3

theorem field_id_roundtrip (cls typ name : Nat) (rest : Bytes)
    (h1 : cls < 65536) (h2 : typ < 65536) (h3 : name < 2 ^ 32) :
    decFieldId (fieldId cls typ name ++ rest) = some (⟨cls, typ, name⟩, rest) :=
  decFieldId_enc _ _ _ rest h1 h2 h3

theorem method_id_roundtrip (cls proto name : Nat) (rest : Bytes)
    (h1 : cls < 65536) (h2 : proto < 65536) (h3 : name < 2 ^ 32) :
    decMethodId (methodId cls proto name ++ rest) = some (⟨cls, proto, name⟩, rest) :=
  decMethodId_enc _ _ _ rest h1 h2 h3

theorem class_def_roundtrip (a b c d e f g h : Nat) (rest : Bytes)
    (ha : a < 2 ^ 32) (hb : b < 2 ^ 32) (hc : c < 2 ^ 32) (hd : d < 2 ^ 32)
    (he : e < 2 ^ 32) (hf : f < 2 ^ 32) (hg : g < 2 ^ 32) (hh : h < 2 ^ 32) :
    decClassDef (classDef a b c d e f g h ++ rest) = some (⟨a, b, c, d, e, f, g, h⟩, rest) :=
  decClassDef_enc a b c d e f g h rest ha hb hc hd he hf hg hh

/-- type_list: the entries, in order; after an odd list the two padding bytes are skipped -/
theorem type_list_roundtrip (l : List Nat) (rest : Bytes) (hl : l.length < 2 ^ 32)
    (h : ∀ x ∈ l, x < 65536) :
    decTypeList (typeListBody l ++ rest) = some (l, if l.length % 2 != 0 then rest.drop 2 else rest) :=
  decTypeList_enc l rest hl h

theorem code_header_roundtrip (regs ins outs tries dbg size : Nat) (rest : Bytes)
    (h1 : regs < 65536) (h2 : ins < 65536) (h3 : outs < 65536) (h4 : tries < 65536)
    (h5 : dbg < 2 ^ 32) (h6 : size < 2 ^ 32) :
    decCodeHdr (codeHdr regs ins outs tries dbg size ++ rest) = some (⟨regs, ins, outs, tries, dbg, size⟩, rest) :=
  decCodeHdr_enc _ _ _ _ _ _ rest h1 h2 h3 h4 h5 h6

/-- a code item without tries: header, then exactly `size` code units, nothing else consumed -/
theorem code_item_roundtrip (regs ins outs dbg : Nat) (insns rest : Bytes)
    (h1 : regs < 65536) (h2 : ins < 65536) (h3 : outs < 65536) (h5 : dbg < 2 ^ 32)
    (hlen : insns.length % 2 = 0) (h6 : insns.length / 2 < 2 ^ 32) :
    decCode (codeHdr regs ins outs 0 dbg (insns.length / 2) ++ insns ++ rest) =
      some (⟨⟨regs, ins, outs, 0, dbg, insns.length / 2⟩, insns⟩, rest) := by
  have e : 2 * (insns.length / 2) = insns.length := by omega
  simp only [decCode, List.append_assoc, bind, Option.bind,
    decCodeHdr_enc regs ins outs 0 dbg (insns.length / 2) (insns ++ rest) h1 h2 h3 (by omega) h5 h6,
    e, List.take_left', List.drop_left', Nat.lt_irrefl, decide_false, Bool.and_false,
    Bool.false_eq_true, ↓reduceIte, pure]

/-- class_data_item: any four sorted index lists, any valid (also padded) LEB128 items -/
theorem class_data_roundtrip (sf inf : List (Nat × Nat)) (dm vm : List (Nat × Nat × Nat))
    (bytes rest : Bytes) (h : EncClassData sf inf dm vm bytes) :
    decClassData (bytes ++ rest) =
      some (⟨sf.map (fun r => ⟨r.1, r.2⟩), inf.map (fun r => ⟨r.1, r.2⟩),
             dm.map (fun r => ⟨r.1, r.2.1, r.2.2⟩), vm.map (fun r => ⟨r.1, r.2.1, r.2.2⟩)⟩, rest) :=
  decClassData_enc sf inf dm vm bytes rest h

/-- index differences: the running sum of the differences of a sorted list is the list -/
theorem idxdiff_roundtrip (idxs : List Nat) (prev : Nat) (h : Ascending prev idxs) :
    undiffs prev (diffs prev idxs) = idxs := undiffs_diffs idxs prev h

/-- … and the indices the model reports are the running sums of the differences it read -/
theorem idx_is_running_sum (n prev : Nat) (bs rest : Bytes) (l : List EncField)
    (h : decFields n prev bs = some (l, rest)) :
    ∃ ds : List Nat, ds.length = n ∧ l.map (·.idx) = undiffs prev ds := decFields_idx n prev bs rest l h

/-- the direct-method list of the file is reported as direct, the virtual list as virtual -/
theorem direct_virtual_not_swapped (sf inf : List (Nat × Nat)) (dm vm : List (Nat × Nat × Nat))
    (bytes rest : Bytes) (h : EncClassData sf inf dm vm bytes) :
    ∃ cd r, decClassData (bytes ++ rest) = some (cd, r) ∧
      cd.dm.map (·.idx) = dm.map (·.1) ∧ cd.vm.map (·.idx) = vm.map (·.1) ∧
      cd.sf.map (·.idx) = sf.map (·.1) ∧ cd.inf.map (·.idx) = inf.map (·.1) := by
  refine ⟨_, _, decClassData_enc sf inf dm vm bytes rest h, ?_, ?_, ?_, ?_⟩ <;> simp [List.map_map, Function.comp_def]

/-! ## resolution -/

/-- string `i` of the file is `s` -/
def StrAt (cm : CM) (i : Nat) (s : Bytes) : Prop :=
  ∃ sids off, cm.stringIds = some sids ∧ sids[i]? = some off ∧ lookupOff off (cm.strData.getD []) = some s

/-- type `i` of the file has descriptor `s` -/
def TypeAt (cm : CM) (i : Nat) (s : Bytes) : Prop :=
  ∃ tids k, cm.typeIds = some tids ∧ tids[i]? = some k ∧ StrAt cm k s

theorem string_resolution (cm : CM) (i : Nat) (s : Bytes) (h : StrAt cm i s) : getString cm i = .ok s := by
  obtain ⟨sids, off, h1, h2, h3⟩ := h
  simp [getString, h1, h2, h3]

theorem type_resolution (cm : CM) (i : Nat) (s : Bytes) (h : TypeAt cm i s) : getType cm i = .ok s := by
  obtain ⟨tids, k, h1, h2, h3⟩ := h
  simp [getType, h1, h2, string_resolution cm k s h3]

/-- FieldIdItem.reload reports the declared class, type and name strings -/
theorem field_resolution (cm : CM) (f : FieldId) (c t n : Bytes)
    (hc : TypeAt cm f.cls c) (ht : TypeAt cm f.typ t) (hn : StrAt cm f.name n) :
    resolveField cm f = .ok ⟨f, c, t, n⟩ := by
  simp [resolveField, type_resolution _ _ _ hc, type_resolution _ _ _ ht, string_resolution _ _ _ hn,
    bind, Except.bind, pure, Except.pure]

/-- MethodIdItem.reload reports the declared class and name, and the descriptor parts of the
    declared prototype (no parameters: parameters_off = 0) -/
theorem method_resolution_noparams (cm : CM) (m : MethodId) (ps : List ProtoR) (p : ProtoR) (c n : Bytes)
    (hc : TypeAt cm m.cls c) (hn : StrAt cm m.name n)
    (hps : cm.protoIds = some ps) (hp : ps[m.proto]? = some p) (h0 : p.raw.paramsOff = 0) :
    resolveMethod cm m = .ok ⟨m, c, [0x28, 0x29], p.retS, n⟩ := by
  simp [resolveMethod, type_resolution _ _ _ hc, string_resolution _ _ _ hn, hps, hp, h0, paramsString,
    getTypeList, joinSp, bind, Except.bind, pure, Except.pure]

/-- … and with a parameter list stored at `parameters_off` -/
theorem method_resolution (cm : CM) (m : MethodId) (ps : List ProtoR) (p : ProtoR) (c n : Bytes)
    (tl : List Nat) (params : List Bytes)
    (hc : TypeAt cm m.cls c) (hn : StrAt cm m.name n)
    (hps : cm.protoIds = some ps) (hp : ps[m.proto]? = some p) (h0 : p.raw.paramsOff ≠ 0)
    (htl : lookupOff p.raw.paramsOff (cm.typeLists.getD []) = some tl)
    (hparams : mapE (getType cm) tl = .ok params) :
    resolveMethod cm m = .ok ⟨m, c, [0x28] ++ joinSp params ++ [0x29], p.retS, n⟩ := by
  simp [resolveMethod, type_resolution _ _ _ hc, string_resolution _ _ _ hn, hps, hp, h0, paramsString,
    getTypeList, htl, hparams, bind, Except.bind, pure, Except.pure]

/-- File level, partial (OffsetsResolve as hypotheses): an encoded field / method whose index
    designates a row of the loaded tables is reported with exactly that row's class, name and
    descriptor, its own flags, and the code item stored at its code offset. -/
theorem parse_encode_partial (cm : CM) (fs : List FieldR) (ms : List MethodR)
    (hF : cm.fieldIds = some fs) (hM : cm.methodIds = some ms) :
    (∀ (f : EncField) (r : FieldR), fs[f.idx]? = some r →
        viewField cm f = .ok ⟨f.idx, r.clsS, r.nameS, r.typS, f.flags⟩) ∧
    (∀ (m : EncMethod) (r : MethodR), ms[m.idx]? = some r →
        viewMethod cm m = .ok ⟨m.idx, r.clsS, r.nameS, r.paramsS ++ r.retS, m.flags,
                               lookupOff m.codeOff (cm.codes.getD [])⟩) := by
  constructor
  · intro f r h; simp [viewField, hF, h]
  · intro m r h; simp [viewMethod, hM, h]

/-! ## file level: sections → tables → view

Vocabulary (AgVerif/Proof/DexTables.lean): `Tables` (the rows of the ten sections the loader looks
at, with the writer's encoding choices: uleb128 items, padding bytes), `Layout` (offset of the map
list and the map list itself — any order of entries, any offsets, gaps or overlaps, any extra
entries of item types the loader ignores), `Encodes file L T` (header → map list; every section is
stored at the offset its map entry gives as the concatenation of the specification encodings of
its rows; sections the format wants 4-aligned are), `WF T L` (decidable: value ranges, the
sections a table refers to exist, prototype / type-list references of methods and classes
designate rows), `tablesCM T L` (the ClassManager state the tables denote, offset-addressed rows
keyed by the offsets the layout assigns), `declared T L` (the view the tables denote).
The first delivery's `C05_full` lacked the WF hypotheses and was false without them (a type_ids
section without a string_ids section makes the real loader raise KeyError). -/

/-- STRING_DATA_ITEM: the strings of the file, in file order, keyed by their offsets -/
theorem string_table_from_file (file : Bytes) (L : Layout) (T : Tables) (e : LoadOrder.MapEntry)
    (henc : Encodes file L T) (he : L.sec 0x2002 = some e) (cm : CM) :
    step file cm e = .ok { cm with strData := some (strTab T L) } := step_strData henc he cm

/-- STRING_ID_ITEM -/
theorem string_ids_from_file (file : Bytes) (L : Layout) (T : Tables) (e : LoadOrder.MapEntry)
    (henc : Encodes file L T) (hwf : WF T L) (he : L.sec 0x0001 = some e) (cm : CM) :
    step file cm e = .ok { cm with stringIds := some T.stringIds } := step_stringIds henc hwf he cm

/-- TYPE_ID_ITEM (its constructor looks the descriptor up: string_ids must be loaded) -/
theorem type_table_from_file (file : Bytes) (L : Layout) (T : Tables) (e : LoadOrder.MapEntry)
    (henc : Encodes file L T) (hwf : WF T L) (he : L.sec 0x0002 = some e) (cm : CM)
    (hs : T.typeIds ≠ [] → ∃ ids, cm.stringIds = some ids) :
    step file cm e = .ok { cm with typeIds := some T.typeIds } := step_typeIds henc hwf he cm hs

/-- TYPE_LIST: the lists keyed by their offsets (an odd list is followed by two bytes of padding) -/
theorem type_lists_from_file (file : Bytes) (L : Layout) (T : Tables) (e : LoadOrder.MapEntry)
    (henc : Encodes file L T) (hwf : WF T L) (he : L.sec 0x1001 = some e) (cm : CM) :
    step file cm e = .ok { cm with typeLists := some (tlTab T L) } := step_typeLists henc hwf he cm

/-- PROTO_ID_ITEM: every row with its shorty and return type resolved against the tables -/
theorem proto_table_from_file (file : Bytes) (L : Layout) (T : Tables) (e : LoadOrder.MapEntry)
    (henc : Encodes file L T) (hwf : WF T L) (he : L.sec 0x0003 = some e) (cm : CM)
    (hb : T.protoIds ≠ [] → Base cm T L) :
    step file cm e = .ok { cm with protoIds := some (T.protoIds.map (protoR T L)) } :=
  step_protoIds henc hwf he cm hb

/-- FIELD_ID_ITEM: class, type and name resolved -/
theorem field_table_from_file (file : Bytes) (L : Layout) (T : Tables) (e : LoadOrder.MapEntry)
    (henc : Encodes file L T) (hwf : WF T L) (he : L.sec 0x0004 = some e) (cm : CM)
    (hb : T.fieldIds ≠ [] → Base cm T L) :
    step file cm e = .ok { cm with fieldIds := some (T.fieldIds.map (fieldR T L)) } :=
  step_fieldIds henc hwf he cm hb

/-- METHOD_ID_ITEM: class, name, parameter string and return type of the prototype resolved -/
theorem method_table_from_file (file : Bytes) (L : Layout) (T : Tables) (e : LoadOrder.MapEntry)
    (henc : Encodes file L T) (hwf : WF T L) (he : L.sec 0x0005 = some e) (cm : CM)
    (hb : T.methodIds ≠ [] → Base cm T L ∧ cm.typeLists.getD [] = tlTab T L ∧
      cm.protoIds = some (T.protoIds.map (protoR T L))) :
    step file cm e = .ok { cm with methodIds := some (T.methodIds.map (methodR T L)) } :=
  step_methodIds henc hwf he cm hb

/-- CLASS_DATA_ITEM: the class data items keyed by their offsets -/
theorem class_data_from_file (file : Bytes) (L : Layout) (T : Tables) (e : LoadOrder.MapEntry)
    (henc : Encodes file L T) (he : L.sec 0x2000 = some e) (cm : CM) :
    step file cm e = .ok { cm with classData := some (cdTab T L) } := step_classData henc he cm

/-- CODE_ITEM: the code items (header and instructions; try items and handler lists of any valid
    encoding are read past) keyed by their (4-aligned) offsets -/
theorem code_from_file (file : Bytes) (L : Layout) (T : Tables) (e : LoadOrder.MapEntry)
    (henc : Encodes file L T) (hwf : WF T L) (he : L.sec 0x2001 = some e) (cm : CM) :
    step file cm e = .ok { cm with codes := some (codeTab T L) } := step_codes henc hwf he cm

/-- CLASS_DEF_ITEM: name, superclass, interfaces and class data resolved -/
theorem class_defs_from_file (file : Bytes) (L : Layout) (T : Tables) (e : LoadOrder.MapEntry)
    (henc : Encodes file L T) (hwf : WF T L) (he : L.sec 0x0006 = some e) (cm : CM)
    (hb : T.classDefs ≠ [] → Base cm T L ∧ cm.typeLists.getD [] = tlTab T L ∧
      cm.classData.getD [] = cdTab T L) :
    step file cm e = .ok { cm with classDefs := some (T.classDefs.map (classR T L)) } :=
  step_classDefs henc hwf he cm hb

/-- header.map_off and the map list are read back as the layout has them -/
theorem map_list_from_file (file : Bytes) (L : Layout) (T : Tables) (henc : Encodes file L T) :
    (∃ r, u32 (file.drop 0x34) = some (L.mapOff, r)) ∧ readMap file L.mapOff = .ok L.map :=
  ⟨header_enc henc, readMap_enc henc⟩

/-- sections → tables, composed over the load order: whatever the order of the map entries, the
    loader ends in exactly the ClassManager state the tables denote -/
theorem tables_from_file (file : Bytes) (L : Layout) (T : Tables) (hwf : WF T L) (henc : Encodes file L T) :
    loadEntries file L.map = .ok (tablesCM T L) := loadEntries_tables henc hwf

/-- tables → view -/
theorem view_of_tables (file : Bytes) (L : Layout) (T : Tables) (hwf : WF T L) (henc : Encodes file L T) :
    viewOf (tablesCM T L) = .ok (declared T L) := viewOf_tables henc hwf

/-- The full file-level statement: for EVERY file that encodes well-formed tables `T` in ANY
    layout `L` (any LEB128 padding, any order and placement of the sections), the loader reads the
    map list back, ends in exactly the state the tables denote, and `parseDex` reports exactly the
    view the file declares. -/
def C05_full : Prop :=
  ∀ (file : Bytes) (L : Layout) (T : Tables), WF T L → Encodes file L T →
    readMap file L.mapOff = .ok L.map ∧ loadEntries file L.map = .ok (tablesCM T L) ∧
    parseDex file = .ok (declared T L)

theorem parse_encode : C05_full := fun _ _ _ hwf henc =>
  ⟨readMap_enc henc, loadEntries_tables henc hwf, parseDex_declared henc hwf⟩

/-- The well-formedness hypotheses cannot be dropped: a file that encodes a type_ids section without
    a string_ids section makes the loader raise KeyError (TypeIdItem.__init__ → get_string; the
    real loader does the same, stream `dex-missing-section` of the correspondence). -/
theorem wf_needed : ∃ file L T, Encodes file L T ∧ parseDex file = .error "KeyError" := encodes_not_enough

/-- A layout-parametric writer: `build T L size` writes header.map_off, the map list and every
    listed section into `size` zero bytes.  Whenever the layout is `Consistent` with the tables
    (decidable: the regions fit and are pairwise disjoint, map entries carry the row counts,
    4-alignment where the format wants it) and the rows carry valid encodings, the written file
    `Encodes` the tables — the hypotheses of `parse_encode` are satisfiable for every such layout. -/
theorem build_encodes (T : Tables) (L : Layout) (size : Nat) (hc : Consistent T L size) (hi : ItemsOk T) :
    Encodes (build T L size) L T := encodes_build hc hi

/-- parse ∘ write = declared content, for every consistent layout -/
theorem parse_build (T : Tables) (L : Layout) (size : Nat) (hwf : WF T L) (hc : Consistent T L size)
    (hi : ItemsOk T) : parseDex (build T L size) = .ok (declared T L) := parseDex_build hwf hc hi

/-- the rows the loader holds are the rows of the tables (the statement of the first delivery's
    `C05_full`, for the sections that are in the map) -/
theorem tables_rows (T : Tables) (L : Layout) :
    (tablesCM T L).stringIds = (L.sec 0x0001).map (fun _ => T.stringIds) ∧
    (tablesCM T L).typeIds = (L.sec 0x0002).map (fun _ => T.typeIds) ∧
    (tablesCM T L).protoIds.map (·.map (·.raw)) = (L.sec 0x0003).map (fun _ => T.protoIds) ∧
    (tablesCM T L).fieldIds.map (·.map (·.raw)) = (L.sec 0x0004).map (fun _ => T.fieldIds) ∧
    (tablesCM T L).methodIds.map (·.map (·.raw)) = (L.sec 0x0005).map (fun _ => T.methodIds) ∧
    (tablesCM T L).classDefs.map (·.map (·.raw)) = (L.sec 0x0006).map (fun _ => T.classDefs) := by
  refine ⟨rfl, rfl, ?_, ?_, ?_, ?_⟩ <;>
    simp [tablesCM, Option.map_map, Function.comp_def, List.map_map, protoR, fieldR, methodR, classR]


/-! ## extension: static values (encoded_array_item, class_def_item.static_values_off)

`parseDexX` (Model/DexFileX.lean) is the loader with the item parsers of ENCODED_ARRAY_ITEM, the
annotation item types and the whole of ClassDefItem.reload (annotations directory lookup, static
values lookup, ClassDataItem.set_static_fields).  Vocabulary: Proof/DexXTables.lean (`TablesX`,
`EncodesX`, `WFX`, `tablesCMX`, `declaredX`): the base tables plus the sections encoded_array_item,
annotation_item, annotation_set_item, annotation_set_ref_list, annotations_directory_item. -/

/-- the extended loader refines the base loader: when it succeeds, `parseDex` succeeds with the base
    part of its view (so every theorem above about `parseDex` speaks about the same classes) -/
theorem extended_refines_base (file : Bytes) (v : DexVX) (h : parseDexX file = .ok v) :
    parseDex file = .ok v.base := DexX.parseDexX_base file v h

/-- the encoded_value decoder of the extended loader (ClassManager lookups may raise) is C04's decoder
    whenever the lookups do not raise: same values, same byte counts, same struct errors -/
theorem encoded_value_decoder_is_C04 (c : EncodedValue.CM) (fuel : Nat) (bs : Bytes) :
    decValueX (DexX.okLook c) fuel bs = DexX.liftE (EncodedValue.decodeValue c fuel bs) :=
  DexX.decValueX_lift c fuel bs

/-- an encoded_array of the format document (uleb128 size of any valid encoding, then that many
    encoded_values, nested to any depth) is decoded to the values it denotes, consuming exactly its bytes -/
theorem encoded_array_roundtrip (P : Spec.EncodedValue.Pools) (ab : Bytes) (vs : List Spec.EncodedValue.SValue)
    (rest : Bytes) (h : DexX.EncArray ab vs) :
    decArrayX (DexX.okLook (EncodedValue.toCM P)) (ab ++ rest) = .ok (vs.map (EncodedValue.embed P), ab.length) :=
  DexX.decArrayX_enc P ab vs rest h

/-- sections → extended tables: whatever the order of the map entries, the extended loader ends in
    exactly the state the tables denote (arrays keyed by their offsets, every value resolved against
    the id tables; per class the static values found at static_values_off and the record of
    set_static_fields calls) -/
theorem static_tables_from_file (file : Bytes) (L : Layout) (TX : TablesX) (hwf : WFX TX L)
    (henc : EncodesX file L TX) : loadEntriesX file L.map = .ok (tablesCMX TX L) :=
  loadEntriesX_tables henc hwf

/-- The file-level statement with static values: for EVERY file that encodes well-formed extended
    tables in ANY layout, the extended loader reports exactly the declared extended view (the base
    view, the static values of every class, the init value of every static field). -/
theorem parse_encode_static_values (file : Bytes) (L : Layout) (TX : TablesX) (hwf : WFX TX L)
    (henc : EncodesX file L TX) : parseDexX file = .ok (declaredX TX L) :=
  parseDexX_declared henc hwf

/-- The file-level statement with annotations, spelled out per class: on every file that encodes
    well-formed extended tables (now also annotation_item, annotation_set_item,
    annotation_set_ref_list and annotations_directory_item sections, in any layout), the extended
    loader reports for every class def exactly the directory stored at its annotations_off (None for 0
    or when no directory starts there — the offsets inside a directory are only stored, never
    dereferenced at load time) and `get_annotations()` = the type descriptors of the annotation items
    its class annotation set lists, in that order. -/
theorem parse_encode_annotations (file : Bytes) (L : Layout) (TX : TablesX) (hwf : WFX TX L)
    (henc : EncodesX file L TX) :
    ∃ v, parseDexX file = .ok v ∧
      v.classes.map (·.annDir) = TX.base.classDefs.map (fun c => annDirAt TX L c.annOff) ∧
      v.classes.map (·.annotations) = TX.base.classDefs.map (annotationsAt TX L) :=
  ⟨_, parseDexX_declared henc hwf, by simp [declaredX, classVX, List.map_map, Function.comp_def],
    by simp [declaredX, classVX, List.map_map, Function.comp_def]⟩

/-- an annotation_item of the format document (visibility byte, then an encoded_annotation: uleb128
    type_idx and size of any valid encoding, elements with values nested to any depth) is decoded to
    what it denotes, consuming exactly its bytes -/
theorem annotation_item_roundtrip (P : Spec.EncodedValue.Pools) (ab : Bytes) (vis t : Nat)
    (elems : List (Nat × Spec.EncodedValue.SValue)) (rest : Bytes) (h : DexX.EncAnnItem ab vis t elems) :
    decAnnItemX (DexX.okLook (EncodedValue.toCM P)) (ab ++ rest) =
      .ok (⟨vis, t, elems.map (fun e => (e.1, EncodedValue.embed P e.2))⟩, ab.length) :=
  DexX.decAnnItemX_enc P ab vis t elems rest h

/-- the offset records (annotation_set_item / annotation_set_ref_list, annotations_directory_item)
    are read back as stored -/
theorem annotation_records_roundtrip (l : List Nat) (d : AnnDir) (rest : Bytes) (hl : OffListOk l) (hd : AnnDirOk d) :
    decOffList (DexX.encOffList l ++ rest) = some (l, rest) ∧ decAnnDir (DexX.encAnnDir d ++ rest) = some (d, rest) :=
  ⟨decOffList_enc l rest hl, decAnnDir_enc d rest hd⟩

/-- the well-formedness hypotheses of the extension cannot be dropped either: a file that encodes
    tables whose class def names an annotations directory, but has no directory section, makes the
    extended loader raise KeyError (ClassDefItem.reload → get_annotations_directory_item; the real
    loader does the same: stream `dexx-missing-section`) -/
theorem wfx_needed : ∃ file L TX, EncodesX file L TX ∧ parseDexX file = .error "KeyError" :=
  ⟨_, ExampleX.LnoDir, ExampleX.TXnoDir, ExampleX.encodesNoDir, ExampleX.failsNoDir⟩

/-! ### debug_info_item (parsed on demand: EncodedMethod.get_debug → ClassManager.get_debug_off) -/

/-- a debug_info_item of the format document — uleb128 line_start, uleb128 parameters_size, uleb128p1
    parameter names, state machine bytecodes with the operands their opcode prescribes (uleb128 /
    sleb128 / uleb128p1; none for the flag and special opcodes) up to DBG_END_SEQUENCE, every LEB128
    item in any valid (also padded) encoding — is decoded to what it denotes, and the rest of the
    buffer is left -/
theorem debug_info_roundtrip (e : DebugEnc) (rest : Bytes) (h : e.WF) :
    decDebugInfo (e.bytes ++ rest) = some (e.denotes, rest) := decDebugInfo_enc e rest h

/-- file level: the debug info of a method is what the item stored at its debug_info_off denotes -/
theorem debug_info_from_file (file : Bytes) (off : Nat) (e : DebugEnc) (h : e.WF) (hat : At file off e.bytes) :
    getDebug file off = some e.denotes := getDebug_at file off e h hat

/-- the layout-parametric writer with the five sections of the extension: its output encodes the tables -/
theorem build_encodes_static_values (TX : TablesX) (L : Layout) (size : Nat) (hc : ConsistentX TX L size)
    (hi : ItemsOk TX.base) (ha : ∀ p ∈ TX.encArrays, DexX.EncArray p.2 p.1)
    (hb : ∀ p ∈ TX.annItems, DexX.EncAnnItem p.2 p.1.visibility p.1.typeIdx p.1.elems) :
    EncodesX (buildX TX L size) L TX := encodesX_buildX hc ⟨hi, ha, hb⟩

/-- parse ∘ write = declared content, extended -/
theorem parse_build_static_values (TX : TablesX) (L : Layout) (size : Nat) (hwf : WFX TX L)
    (hc : ConsistentX TX L size) (hi : ItemsOk TX.base) (ha : ∀ p ∈ TX.encArrays, DexX.EncArray p.2 p.1)
    (hb : ∀ p ∈ TX.annItems, DexX.EncAnnItem p.2 p.1.visibility p.1.typeIdx p.1.elems) :
    parseDexX (buildX TX L size) = .ok (declaredX TX L) := parseDexX_buildX hwf hc ⟨hi, ha, hb⟩

/-- what the declared init values are in the ordinary case (the class data item of the class is
    written by exactly one set_static_fields call — class data items are not shared — with no more
    values than static fields): static field `i` carries value `i` of the class's array, the fields
    beyond the array carry no value (the format document's rule, Spec.EncodedValue.staticInit) -/
theorem static_init_values (TX : TablesX) (L : Layout) (c : ClassDef) (d : ClassData) (vs : List EncodedValue.Value)
    (hd : classDataAt TX.base L c.dataOff = some d)
    (hone : (TX.base.classDefs.filterMap (initOf TX L)).filter (fun p => p.1 == c.dataOff) = [(c.dataOff, vs)])
    (hl : vs.length ≤ d.sf.length) (i : Nat) :
    (classVX TX L c).inits[i]? = Spec.EncodedValue.staticInit vs d.sf.length i ∧
    (classVX TX L c).inits.length = d.sf.length := by
  simp only [classVX, hd]
  exact DexX.inits_unshared _ _ _ vs hone hl i

/-! ## lookups -/

/-- get_encoded_method_descriptor returns only a method with the requested class, name, descriptor -/
theorem method_lookup_only_matching (d : DexV) (c n ds : Bytes) (m : MethodV)
    (h : getEncodedMethodDescriptor d c n ds = some m) :
    m ∈ allMethods d ∧ m.cls = c ∧ m.name = n ∧ m.desc = ds := by
  obtain ⟨hm, hk⟩ := dictGet_some MethodV.triple (c, n, ds) _ m h
  simp only [MethodV.triple, Prod.mk.injEq] at hk
  exact ⟨hm, hk⟩

/-- … finds one whenever one exists -/
theorem method_lookup_finds (d : DexV) (m : MethodV) (hm : m ∈ allMethods d) :
    (getEncodedMethodDescriptor d m.cls m.name m.desc).isSome = true := by
  cases h : getEncodedMethodDescriptor d m.cls m.name m.desc with
  | some _ => rfl
  | none => exact absurd rfl ((dictGet_none MethodV.triple (m.cls, m.name, m.desc) _).mp h m hm)

/-- … and returns exactly the method itself when (class, name, descriptor) are pairwise distinct,
    as they are in a well-formed file -/
theorem method_lookup_exact (d : DexV) (hd : ((allMethods d).map MethodV.triple).Nodup)
    (m : MethodV) (hm : m ∈ allMethods d) :
    getEncodedMethodDescriptor d m.cls m.name m.desc = some m :=
  dictGet_unique MethodV.triple _ hd m hm

theorem field_lookup_only_matching (d : DexV) (c n t : Bytes) (f : FieldV)
    (h : getEncodedFieldDescriptor d c n t = some f) :
    f ∈ allFields d ∧ f.cls = c ∧ f.name = n ∧ f.typ = t := by
  obtain ⟨hm, hk⟩ := dictGet_some FieldV.triple (c, n, t) _ f h
  simp only [FieldV.triple, Prod.mk.injEq] at hk
  exact ⟨hm, hk⟩

theorem field_lookup_exact (d : DexV) (hd : ((allFields d).map FieldV.triple).Nodup)
    (f : FieldV) (hf : f ∈ allFields d) :
    getEncodedFieldDescriptor d f.cls f.name f.typ = some f :=
  dictGet_unique FieldV.triple _ hd f hf

/-- a lookup for a triple nobody has returns nothing -/
theorem field_lookup_absent (d : DexV) (c n t : Bytes) (h : ∀ f ∈ allFields d, f.triple ≠ (c, n, t)) :
    getEncodedFieldDescriptor d c n t = none :=
  (dictGet_none FieldV.triple (c, n, t) _).mpr h

/-- get_class returns a class with that name, the first one -/
theorem class_lookup (d : DexV) (name : Bytes) (c : ClassV) (h : getClass d name = some c) :
    c ∈ d.classes ∧ c.name = name := by
  unfold getClass at h
  exact ⟨List.mem_of_find?_eq_some h, by simpa using List.find?_some h⟩

theorem class_lookup_finds (d : DexV) (c : ClassV) (hc : c ∈ d.classes) :
    (getClass d c.name).isSome = true := by
  unfold getClass
  rw [List.find?_isSome]
  exact ⟨c, hc, by simp⟩

/-- get_encoded_method_by_idx returns a method with that index -/
theorem method_by_idx (d : DexV) (i : Nat) (m : MethodV) (h : getEncodedMethodByIdx d i = some m) :
    m ∈ allMethods d ∧ m.idx = i := dictGet_some MethodV.idx i _ m h

/-- end to end: on a file that encodes well-formed tables, looking a declared method up by its
    (class, name, descriptor) returns exactly that method (distinct triples, as in a valid file);
    same for fields -/
theorem lookup_on_file (file : Bytes) (L : Layout) (T : Tables) (hwf : WF T L) (henc : Encodes file L T)
    (hd : ((allMethods (declared T L)).map MethodV.triple).Nodup)
    (hf : ((allFields (declared T L)).map FieldV.triple).Nodup) :
    ∃ d, parseDex file = .ok d ∧
      (∀ m ∈ allMethods (declared T L), getEncodedMethodDescriptor d m.cls m.name m.desc = some m) ∧
      (∀ f ∈ allFields (declared T L), getEncodedFieldDescriptor d f.cls f.name f.typ = some f) :=
  ⟨_, (parse_encode file L T hwf henc).2.2, fun m hm => method_lookup_exact _ hd m hm,
    fun f hm => field_lookup_exact _ hf f hm⟩

/-! ### the string-concatenation key of the unfixed code -/

/-- a class descriptor `L…;`, a member name without `;` and `(`, a method descriptor `(…` -/
def ValidMethodKey (t : Bytes × Bytes × Bytes) : Prop :=
  (∃ pre, t.1 = pre ++ [0x3b] ∧ 0x3b ∉ pre) ∧ 0x3b ∉ t.2.1 ∧ 0x28 ∉ t.2.1 ∧ (∃ r, t.2.2 = 0x28 :: r)

/-- lookup_key_injective, methods: on valid names the concatenation `class + name + descriptor`
    determines the triple (so the unfixed method cache was sound; the fix does not change it) -/
theorem method_key_injective (a b : Bytes × Bytes × Bytes) (ha : ValidMethodKey a) (hb : ValidMethodKey b)
    (h : keyConcat a = keyConcat b) : a = b := by
  obtain ⟨⟨pa, hca, hpa⟩, hna1, hna2, ra, hda⟩ := ha
  obtain ⟨⟨pb, hcb, hpb⟩, hnb1, hnb2, rb, hdb⟩ := hb
  obtain ⟨ca, na, da⟩ := a
  obtain ⟨cb, nb, db⟩ := b
  simp only at hca hcb hda hdb hna1 hna2 hnb1 hnb2
  subst hca hcb hda hdb
  simp only [keyConcat, List.append_assoc, List.cons_append, List.nil_append] at h
  have s1 := splitAfter_append 0x3b pa (na ++ 0x28 :: ra) hpa
  have s2 := splitAfter_append 0x3b pb (nb ++ 0x28 :: rb) hpb
  rw [h, s2] at s1
  simp only [Option.some.injEq, Prod.mk.injEq] at s1
  obtain ⟨e1, e2⟩ := s1
  have t1 := splitBefore_append 0x28 na ra hna2
  have t2 := splitBefore_append 0x28 nb rb hnb2
  rw [← e2, t2] at t1
  simp only [Prod.mk.injEq] at t1
  obtain ⟨e3, e4⟩ := t1
  rw [e1, e3, e4]

/-- a type descriptor: primitive, class `L…;` (no `;` inside), or array of one -/
inductive IsTypeDesc : Bytes → Prop
  | prim (c : Nat) : c ∈ [0x5a, 0x42, 0x53, 0x43, 0x49, 0x4a, 0x46, 0x44] → IsTypeDesc [c]
  | cls (n : Bytes) : n ≠ [] → 0x3b ∉ n → 0x5b ∉ n → IsTypeDesc ([0x4c] ++ n ++ [0x3b])
  | arr (t : Bytes) : IsTypeDesc t → IsTypeDesc (0x5b :: t)

def ValidFieldKey (t : Bytes × Bytes × Bytes) : Prop :=
  (∃ pre, t.1 = pre ++ [0x3b] ∧ 0x3b ∉ pre) ∧ t.2.1 ≠ [] ∧ 0x3b ∉ t.2.1 ∧ 0x5b ∉ t.2.1 ∧ 0x28 ∉ t.2.1 ∧
  IsTypeDesc t.2.2

/-- lookup_key_injective is FALSE for fields: field `aL` of type `Lb;` and field `a` of type `LLb;`
    (a class named `Lb` in the default package) are different valid members with the same key. -/
theorem field_key_not_injective :
    ¬ ∀ a b : Bytes × Bytes × Bytes, ValidFieldKey a → ValidFieldKey b → keyConcat a = keyConcat b → a = b := by
  intro h
  have ha : ValidFieldKey (ascii "LA;", ascii "aL", ascii "Lb;") :=
    ⟨⟨ascii "LA", by decide, by decide⟩, by decide, by decide, by decide, by decide,
      IsTypeDesc.cls (ascii "b") (by decide) (by decide) (by decide)⟩
  have hb : ValidFieldKey (ascii "LA;", ascii "a", ascii "LLb;") :=
    ⟨⟨ascii "LA", by decide, by decide⟩, by decide, by decide, by decide, by decide,
      IsTypeDesc.cls (ascii "Lb") (by decide) (by decide) (by decide)⟩
  exact absurd (h _ _ ha hb (by decide)) (by decide)

/-- the witness as a parsed file: class `LA;` with static fields 0 = `a : LLb;`, 1 = `aL : Lb;` -/
def witness : DexV :=
  ⟨[], [⟨ascii "LA;", ascii "Ljava/lang/Object;", [], 1, none,
        [⟨0, ascii "LA;", ascii "a", ascii "LLb;", 9⟩, ⟨1, ascii "LA;", ascii "aL", ascii "Lb;", 9⟩], [], [], []⟩]⟩

/-- with the concatenated key, looking up field `a : LLb;` returns field `aL : Lb;` … -/
theorem field_lookup_concat_refuted :
    (getEncodedFieldDescriptorConcat witness (ascii "LA;") (ascii "a") (ascii "LLb;")).map (·.idx) = some 1 := by
  decide +kernel

/-- … with the tuple key (the fix) it returns the field that was asked for. -/
theorem field_lookup_tuple_witness :
    (getEncodedFieldDescriptor witness (ascii "LA;") (ascii "a") (ascii "LLb;")).map (·.idx) = some 0 ∧
    (getEncodedFieldDescriptor witness (ascii "LA;") (ascii "aL") (ascii "Lb;")).map (·.idx) = some 1 := by
  decide +kernel

/-! ## non-vacuity -/

example : ULeb [0x85, 0x80, 0x00] 5 := ⟨by decide, by decide, by decide⟩            -- a padded item
example : EncFields 0 [(3, 9), (7, 1)] ([0x03] ++ [0x09] ++ ([0x84, 0x00] ++ [0x01] ++ [])) :=
  .cons 0 3 9 _ _ _ _ (by decide) ⟨by decide, by decide, by decide⟩ ⟨by decide, by decide, by decide⟩
    (.cons 3 7 1 _ _ _ _ (by decide) ⟨by decide, by decide, by decide⟩ ⟨by decide, by decide, by decide⟩ (.nil 7))
example : decClassData [1, 0, 1, 1, 3, 9, 2, 1, 0x90, 2, 5, 4, 0] =
    some (⟨[⟨3, 9⟩], [], [⟨2, 1, 0x110⟩], [⟨5, 4, 0⟩]⟩, []) := by decide +kernel
example : Ascending 0 [0, 3, 3, 10] ∧ diffs 0 [0, 3, 3, 10] = [0, 3, 0, 7] :=
  ⟨⟨by decide, by decide, by decide, by decide, trivial⟩, by decide⟩
example : ValidMethodKey (ascii "LA;", ascii "<init>", ascii "(I J)V") :=
  ⟨⟨ascii "LA", by decide, by decide⟩, by decide, by decide, ⟨_, rfl⟩⟩
example : ((allFields witness).map FieldV.triple).Nodup := by decide +kernel

/-- a real DEX file (harness/dexasm.py: class `LFoo;` implements `Ljava/lang/Runnable;`, source file,
    two fields, three methods with code, one with a try block, a typed handler and a catch-all; map
    entries also for the header and the map list itself)
    encodes well-formed tables, so `parse_encode` applies to it … -/
example : WF Example.T Example.L ∧ Encodes Example.file Example.L Example.T := ⟨Example.wf, Example.encodes⟩
example : parseDex Example.file = .ok (declared Example.T Example.L) :=
  (parse_encode _ _ _ Example.wf Example.encodes).2.2
/-- … the same content written by `build` in another layout (class_defs first, string_ids last,
    gaps, map entries in another order) is a different file that parses to the same view … -/
example : WF Example.T2 Example.L2 ∧ Consistent Example.T2 Example.L2 Example.size2 ∧ ItemsOk Example.T2 :=
  ⟨Example.wf2, Example.consistent2, Example.itemsOk2⟩
example : build Example.T2 Example.L2 Example.size2 ≠ Example.file ∧
    parseDex (build Example.T2 Example.L2 Example.size2) = parseDex Example.file := by
  refine ⟨Example.other_file, ?_⟩
  rw [parse_build _ _ _ Example.wf2 Example.consistent2 Example.itemsOk2,
    (parse_encode _ _ _ Example.wf Example.encodes).2.2, Example.same_view]
example : ((allMethods (declared Example.T Example.L)).map MethodV.triple).Nodup ∧
    ((allFields (declared Example.T Example.L)).map FieldV.triple).Nodup := by decide +kernel
/-- … and what it declares is not trivial -/
example : (declared Example.T Example.L).classes.map (fun c => [c.name, c.super] ++ c.ifaces ++ c.src.toList) =
    [[ascii "LFoo;", ascii "Ljava/lang/Object;", ascii "Ljava/lang/Runnable;", ascii "Foo.java"]] := by decide +kernel
example : (allFields (declared Example.T Example.L)).map (fun f => [f.cls, f.name, f.typ]) =
    [[ascii "LFoo;", ascii "X", ascii "I"], [ascii "LFoo;", ascii "y", ascii "J"]] := by decide +kernel
example : (allMethods (declared Example.T Example.L)).map (fun m => [m.name, m.desc] ++ (m.code.map (·.insns)).toList) =
    [[ascii "<init>", ascii "()V", [112, 16, 3, 0, 0, 0, 14, 0]], [ascii "f", ascii "(I J)I", [18, 16, 15, 0, 13, 1, 18, 32, 15, 0, 18, 48, 15, 0]],
     [ascii "run", ascii "()V", [14, 0]]] := by decide +kernel

/-- … static values and annotations: a file written by `buildX` (class `LA;`, static fields `x : I` and
    `I : LA;`, static values [int 7, string "x"], class annotation `@LA;(x = 5)` reached through an
    annotations directory and a class annotation set) satisfies every hypothesis of
    `parse_build_static_values`, and declares the init values 7 and "x", the directory and the annotation -/
example : WFX ExampleX.TX ExampleX.L ∧ ConsistentX ExampleX.TX ExampleX.L ExampleX.size ∧ ItemsOk ExampleX.TX.base ∧
    (∀ p ∈ ExampleX.TX.encArrays, DexX.EncArray p.2 p.1) ∧
    (∀ p ∈ ExampleX.TX.annItems, DexX.EncAnnItem p.2 p.1.visibility p.1.typeIdx p.1.elems) :=
  ⟨ExampleX.wf, ExampleX.consistent, ExampleX.itemsOk, ExampleX.arraysOk, ExampleX.annItemsOk⟩
example : parseDexX (buildX ExampleX.TX ExampleX.L ExampleX.size) = .ok (declaredX ExampleX.TX ExampleX.L) :=
  parse_build_static_values _ _ _ ExampleX.wf ExampleX.consistent ExampleX.itemsOk ExampleX.arraysOk ExampleX.annItemsOk
example : (declaredX ExampleX.TX ExampleX.L).classes.map (fun c => c.inits.map (·.bind ExampleX.valInt)) = [[some 7, none]] ∧
    (declaredX ExampleX.TX ExampleX.L).classes.map (fun c => c.inits.map (·.bind ExampleX.valRef)) = [[none, some ["x"]]] ∧
    (declaredX ExampleX.TX ExampleX.L).classes.map (·.annDir) = [some ⟨0x84, [], [], []⟩] ∧
    (declaredX ExampleX.TX ExampleX.L).classes.map (·.annotations) = [[ascii "LA;"]] := by
  decide +kernel

/-- … a debug_info_item: line 5, one parameter name (string 0), ADVANCE_PC 3, ADVANCE_LINE -1, a special
    opcode, END_SEQUENCE -/
def exampleDebug : DebugEnc :=
  ⟨[5], 5, [1], [([1], 1)], [⟨1, [⟨.u, 3, [3]⟩]⟩, ⟨2, [⟨.s, -1, [0x7f]⟩]⟩, ⟨0x0a, []⟩]⟩
example : exampleDebug.WF :=
  ⟨⟨by decide, by decide, by decide⟩, ⟨by decide, by decide, by decide⟩,
   (by intro p hp; simp only [exampleDebug, List.mem_singleton] at hp; subst hp; exact ⟨by decide, by decide, by decide⟩),
   (by
     intro o ho
     simp only [exampleDebug, List.mem_cons, List.not_mem_nil, or_false] at ho
     rcases ho with rfl | rfl | rfl
     · exact ⟨by decide, by decide, by intro a ha; simp only [List.mem_singleton] at ha; subst ha; exact ⟨3, ⟨by decide, by decide, by decide⟩, rfl⟩⟩
     · exact ⟨by decide, by decide, by intro a ha; simp only [List.mem_singleton] at ha; subst ha; exact ⟨by decide, by decide, by decide⟩⟩
     · exact ⟨by decide, by decide, by intro a ha; cases ha⟩)⟩
example : exampleDebug.bytes = [5, 1, 1, 1, 3, 2, 0x7f, 0x0a, 0] ∧
    decDebugInfo [5, 1, 1, 1, 3, 2, 0x7f, 0x0a, 0] = some (⟨5, [0], [⟨1, [3]⟩, ⟨2, [-1]⟩, ⟨10, []⟩, ⟨0, []⟩]⟩, []) := by
  decide +kernel

/-- … and on the layout of a real writer: a 660-byte DEX written by harness/dexasm.py (abstract class
    `LFoo;`, static fields `X : I = 7`, `S : Ljava/lang/String; = "hi"`, `Z : Z` without a value, class
    annotations `@Ljava/lang/Deprecated;` and `@LAnn;(value = 300, on = true)`, a field annotation on `X`)
    encodes well-formed extended tables (Proof/DexXExampleR.lean, generated by harness/c05_mkexamplex.py), so
    `parse_encode_static_values` / `parse_encode_annotations` apply to it, and what it declares is: -/
example : WFX ExampleR.TX ExampleR.L ∧ EncodesX ExampleR.file ExampleR.L ExampleR.TX := ⟨ExampleR.wf, ExampleR.encodes⟩
example : parseDexX ExampleR.file = .ok (declaredX ExampleR.TX ExampleR.L) :=
  parse_encode_static_values _ _ _ ExampleR.wf ExampleR.encodes
example : (declaredX ExampleR.TX ExampleR.L).classes.map (fun c => c.inits.map (·.bind ExampleR.valInt)) = [[none, some 7, none]] ∧
    (declaredX ExampleR.TX ExampleR.L).classes.map (fun c => c.inits.map (·.bind ExampleR.valRef)) = [[some ["hi"], none, none]] ∧
    (declaredX ExampleR.TX ExampleR.L).classes.map (·.annotations) = [[ascii "LAnn;", ascii "Ljava/lang/Deprecated;"]] ∧
    (declaredX ExampleR.TX ExampleR.L).classes.map (fun c => c.annDir.map (fun d => (d.fields.length, d.methods.length))) =
      [some (1, 0)] := by
  decide +kernel

end AgVerif.C05
