/-
C40 — Disassembly and analysis agree on instruction offsets.
Property theorems only (lemmas: AgVerif/Proof/Cfg.lean, AgVerif/Proof/CfgSpec.lean).

"The disassembler reports instruction i at byte offset o" is `InsnAtM m o i`
(AgVerif.Spec.Cfg.InsnAt: i is preceded by instructions whose lengths add up to o).
Model: AgVerif.Cfg — block bounds of `_create_basic_block`, `special_ins` of `DEXBasicBlock.push`
(`DCode.get_ins_off`), the offsets `_create_xref` takes from `get_instructions_idx`.
All theorems hold for every instruction stream and try table.
-/
import AgVerif.Proof.CfgSucc
namespace AgVerif.C40
open AgVerif.Cfg AgVerif.Spec.Cfg AgVerif.Gen.CfgOps

/-- `get_instructions_idx` was read from the source as a pure generator over the current instruction
    list (`Gen.CfgOps.idxPairsPure`: no store, no memo; the translator raises on any other shape), and
    the pairs such a generator yields — the model's `withOff 0 m` — are exactly the (offset, instruction)
    pairs the disassembly of the CURRENT list `m` reports: each offset is the running sum of the lengths
    of the instructions before it. -/
theorem idx_pairs_pure : idxPairsPure = true ∧
    ∀ (m : List Ins) (o : Nat) (i : Ins), (o, i) ∈ withOff 0 m ↔ InsnAtM m o i :=
  ⟨rfl, fun _ _ _ => mem_withOff_insnAt⟩

/-- the offsets of the pairs are strictly the prefix sums: first pair at 0, each next one `len` later
    (definitional unfolding of the model's `withOff`, kept for readability) -/
theorem idx_pairs_running_sum (s : Nat) (i : Ins) (r : List Ins) :
    withOff s (i :: r) = (s, i) :: withOff (s + i.len) r := rfl

/-- A block starts at an instruction offset and ends at one, or at the end of the method. -/
theorem block_bounds_are_insn_offsets {m : List Ins} {ex : List Exc} {b : Block} (hb : b ∈ blocks m ex) :
    InsnOffsetM m b.start ∧ (InsnOffsetM m b.stop ∨ b.stop = lenSum m) := by
  obtain ⟨i, _, hi⟩ := block_start_insnAt hb
  refine ⟨⟨i, hi⟩, ?_⟩
  rcases block_stop_next hb with h | ⟨_, c, hc, hcs⟩
  · exact Or.inr h
  · obtain ⟨j, _, hj⟩ := block_start_insnAt hc
    left; rw [← hcs]; exact ⟨j, hj⟩

/-- Every offset at which a cross-reference of one of the four kinds is recorded is the offset of
    an instruction whose opcode passes that kind's test.  (True by construction of the model's
    `xrefSites`, a filter over `withOff 0 m`; its content about the CODE is that `_create_xref` takes its
    offsets from `get_instructions_idx` and that generator is pure — `idx_pairs_pure` — plus the
    correspondence.) -/
theorem xref_offsets_are_insn_offsets (m : List Ins) (test : Nat → Bool) {o : Nat}
    (h : o ∈ xrefSites m test) : ∃ i, InsnAtM m o i ∧ test i.op = true := by
  unfold xrefSites at h
  simp only [List.mem_map, List.mem_filter, Bool.and_eq_true] at h
  obtain ⟨⟨o', i⟩, ⟨hmem, ht, _⟩, rfl⟩ := h
  exact ⟨i, mem_withOff_insnAt.mp hmem, ht⟩

/-- The offsets at which block children / fathers are recorded: the source of every child entry is
    the offset of the block's last instruction. -/
theorem child_source_is_insn_offset {m : List Ins} {ex : List Exc} {b : Block} (hb : b ∈ blocks m ex)
    {c : Nat × Int × Nat} (hc : c ∈ childs m (blocks m ex) b) :
    c.1 = b.lastIdx ∧ ∃ i, b.insns.getLast? = some i ∧ InsnAtM m b.lastIdx i := by
  have hsrc : c.1 = b.lastIdx := by
    by_cases hv : (blockValues m b).isEmpty = true
    · simp only [childs, hv, ↓reduceIte] at hc
      split at hc
      · simp at hc; rw [hc]
      · simp at hc
    · simp only [childs, hv, Bool.false_eq_true, ↓reduceIte] at hc
      simp only [List.mem_filterMap] at hc
      obtain ⟨t, _, ht⟩ := hc
      split at ht
      · simp at ht
      · split at ht
        · simp at ht; rw [← ht]
        · simp at ht
  refine ⟨hsrc, ?_⟩
  have hne := block_nonempty b hb
  obtain ⟨pre, i, hl⟩ : ∃ pre i, b.insns = pre ++ [i] := by
    refine ⟨b.insns.dropLast, b.insns.getLast hne, ?_⟩
    exact (List.dropLast_concat_getLast hne).symm
  refine ⟨i, by rw [hl]; simp, ?_⟩
  apply block_insnAt hb
  rw [mem_withOff_iff]
  refine ⟨pre, [], hl, ?_⟩
  simp [Block.lastIdx, Block.lastLen, Block.stop, hl, lenSum_append, lenSum]
  omega

/-- `special_ins[idx]` exists only for an instruction of the block at `idx` that passes `push`'s
    opcode test, and its value is whatever the disassembly has at the offset the instruction
    encodes (`idx + 2·ref_off`): that instruction if there is one, `None` only if there is none. -/
theorem special_ins_is_payload_at_encoded_offset {m : List Ins} {ex : List Exc} {b : Block}
    (hb : b ∈ blocks m ex) {idx : Nat} {r : Option (Nat × Ins)} (h : (idx, r) ∈ specialIns m b) :
    ∃ i, InsnAtM m idx i ∧ isSpecial i.op = true ∧
      (∀ o p, r = some (o, p) → (o : Int) = (idx : Int) + i.refOff * 2 ∧ InsnAtM m o p) ∧
      (r = none → ∀ o p, InsnAtM m o p → (o : Int) ≠ (idx : Int) + i.refOff * 2) := by
  unfold specialIns at h
  simp only [List.mem_filterMap] at h
  obtain ⟨⟨o', i⟩, hmem, hv⟩ := h
  split at hv
  · rename_i hs
    simp only [Option.some.injEq, Prod.mk.injEq] at hv
    obtain ⟨rfl, rfl⟩ := hv
    refine ⟨i, block_insnAt hb hmem, hs, ?_, ?_⟩
    · intro o p hr
      obtain ⟨h1, h2⟩ := insOffFrom_some m 0 _ o p hr
      exact ⟨h1, mem_withOff_insnAt.mp h2⟩
    · intro hr o p hp
      exact insOffFrom_none m 0 _ hr o p (mem_withOff_insnAt.mpr hp)
  · simp at hv

/-- Every instruction of a block that passes `push`'s test gets a `special_ins` entry. -/
theorem special_ins_complete (m : List Ins) (b : Block) {idx : Nat} {i : Ins}
    (h : (idx, i) ∈ withOff b.start b.insns) (hs : isSpecial i.op = true) :
    ∃ r, (idx, r) ∈ specialIns m b := by
  refine ⟨insOff m ((idx : Int) + i.refOff * 2), ?_⟩
  unfold specialIns
  simp only [List.mem_filterMap]
  exact ⟨(idx, i), h, by simp [hs]⟩

/-- `push`'s test selects exactly the three payload-using opcodes of the specification. -/
theorem special_ops_spec (op : Nat) : isSpecial op = true ↔ op ∈ payloadUsers := by
  by_cases h : op < 64
  · have : ∀ n, n < 64 → (isSpecial n = true ↔ n ∈ payloadUsers) := by decide
    exact this op h
  · have h1 : op ∉ payloadUsers := by simp [payloadUsers]; omega
    have h2 : isSpecial op = false := by
      have a : (op == 0x26) = false := by simp; omega
      have b : Nat.ble op 0x2c = false := by rw [← Bool.not_eq_true, Nat.ble_eq]; omega
      simp [isSpecial, a, b]
    simp [h1, h2]

/-- When the payload is 4-byte aligned (padding 0), the switch targets `determineNext` reads come
    from the same instruction `special_ins` links. -/
theorem switch_targets_from_linked_payload (m : List Ins) (idx : Nat) (i : Ins)
    (hal : switchPad (i.refOff * 2 + (idx : Int)) = 0) :
    payloadTargets m (i.refOff * 2 + (idx : Int) + switchPad (i.refOff * 2 + (idx : Int))) idx =
      match insOff m ((idx : Int) + i.refOff * 2) with
      | some (_, d) => if d.kind = 1 ∨ d.kind = 2 then d.targets.map (fun t => t * 2 + (idx : Int)) else []
      | none => [] := by
  rw [hal, Int.add_zero, Int.add_comm]
  rfl

/-- With instructions of ≥ 1 code unit (so that one offset holds one instruction): if the disassembly
    reports `p` at the offset a payload-using instruction encodes, `special_ins` links exactly `p` —
    "the payload", not merely "whatever `get_ins_off` returned". -/
theorem special_ins_links_the_payload {m : List Ins} {ex : List Exc} (hm : MinLen m) {b : Block}
    (hb : b ∈ blocks m ex) {idx : Nat} {r : Option (Nat × Ins)} (h : (idx, r) ∈ specialIns m b) :
    ∃ i, InsnAtM m idx i ∧ isSpecial i.op = true ∧
      ∀ (o : Nat) (p : Ins), (o : Int) = (idx : Int) + i.refOff * 2 → InsnAtM m o p → r = some (o, p) := by
  unfold specialIns at h
  simp only [List.mem_filterMap] at h
  obtain ⟨⟨o', i⟩, hmem, hv⟩ := h
  split at hv
  · rename_i hs
    simp only [Option.some.injEq, Prod.mk.injEq] at hv
    obtain ⟨rfl, rfl⟩ := hv
    refine ⟨i, block_insnAt hb hmem, hs, ?_⟩
    intro o p ho hp
    show insOff m ((o' : Int) + i.refOff * 2) = some (o, p)
    rw [← ho]
    exact insOff_of_insnAt hm hp
  · simp at hv

/-- Any alignment, misaligned payloads included: the case targets `determineNext` uses for a switch at
    `idx` are those of the switch payload the disassembly has at `a + switchPad a`, `a = idx + 2·ref_off`
    being the encoded offset that `special_ins` links. -/
theorem switch_targets_any_alignment (m : List Ins) (idx : Nat) (i : Ins) (hop : i.op ∈ basicOps)
    (hf : flowOf i.op = Flow.switch) :
    next m idx i = ((idx + i.len : Nat) : Int) ::
      (rawTargets m (i.refOff * 2 + (idx : Int) + switchPad (i.refOff * 2 + (idx : Int)))).map
        (fun t => t * 2 + (idx : Int)) :=
  next_switch_general m idx i hop hf

/-- The padding rounds the encoded offset up to the next multiple of 4 (0 ≤ pad < 4), and is 0 exactly
    for an aligned payload: so for a MISALIGNED payload `determineNext` looks 1–3 bytes past the
    instruction `special_ins` links — the two lookups agree iff the payload is 4-byte aligned. -/
theorem switch_pad_rounds_up (a : Int) : 0 ≤ switchPad a ∧ switchPad a < 4 ∧ (a + switchPad a) % 4 = 0 ∧
    (switchPad a = 0 ↔ a % 4 = 0) :=
  switchPad_spec a

/-! Non-vacuity: `packed-switch v0, +4 ; return-void ; nop ; packed-switch-payload{2 targets}`. -/
def exM : List Ins :=
  [⟨6, 0x2b, 4, 0, [], false⟩, ⟨2, 0x0e, 0, 0, [], false⟩, ⟨16, 0x100, 0, 1, [3, 3], false⟩]

example : (blocks exM []).map (fun b => (b.start, b.stop)) = [(0, 6), (6, 8), (8, 24)] := by decide
example : (blocks exM []).map (fun b => (specialIns exM b).map (fun p => (p.1, p.2.map (·.1)))) =
    [[(0, some 8)], [], []] := by decide
example : switchPad ((4 : Int) * 2 + ((0 : Nat) : Int)) = 0 := by decide
example : xrefSites [⟨6, 0x71, 0, 0, [], true⟩, ⟨2, 0x0e, 0, 0, [], false⟩] isXrefMethod = [0] := by decide

/-! A misaligned payload (`packed-switch v0,+3 ; return-void ; payload` at byte 6): `special_ins` links the
    payload at 6, `determineNext` reads at 6 + 2 = 8 where no instruction starts, so the switch gets only
    its fall-through (what the code does; the verifier rejects such a method — DESIGN §10). -/
def exMis : List Ins :=
  [⟨4, 0x2b, 3, 0, [], false⟩, ⟨2, 0x0e, 0, 0, [], false⟩, ⟨16, 0x100, 0, 1, [2, 2], false⟩]
example : switchPad ((3 : Int) * 2 + ((0 : Nat) : Int)) = 2 := by decide
example : (blocks exMis []).map (fun b => (specialIns exMis b).map (fun p => (p.1, p.2.map (·.1)))) =
    [[(0, some 6)], [], []] := by decide
example : next exMis 0 ⟨4, 0x2b, 3, 0, [], false⟩ = [4] := by decide
example : MinLen exM := by unfold MinLen; decide

end AgVerif.C40
