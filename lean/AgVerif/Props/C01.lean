/-
C01 — Dalvik instruction decoding is faithful for every operand encoding.
Property theorems only (lemmas: AgVerif/Proof/Insn*.lean).

Model: AgVerif.Insn (Model/Insn.lean) — transliteration of the `Instruction*` classes, `get_instruction`,
driven by the GENERATED tables AgVerif.Gen.Opcodes (DALVIK_OPCODES_FORMAT, per class `length` and the struct
strings of `__init__` / `get_raw`).   Spec: AgVerif.Spec.Dalvik (format document, bit ranges).
Every theorem quantifies over every byte list (`AllBytes bs`: elements < 256) and every class / opcode.
-/
import AgVerif.Proof.InsnAll
import AgVerif.Proof.InsnFields
import AgVerif.Proof.InsnFieldsFull
import AgVerif.Proof.InsnEdAll
import AgVerif.Proof.InsnDecValid
import AgVerif.Proof.PyInsn
import AgVerif.Proof.PyInsnRaw
import AgVerif.Proof.PyInsnObs
import AgVerif.Proof.InsnLits
namespace AgVerif.C01
open AgVerif.Insn AgVerif.Gen AgVerif.Spec

/-- All 256 rows of DALVIK_OPCODES_FORMAT exist and name the class the specification's format table
    prescribes; rows of unused opcodes name `Instruction00x`.  (`decide` over the whole generated table.) -/
theorem table_matches_spec :
    ∀ op, op < 256 → (fmtOf op).isSome = true ∧ (fmtOf op).bind toSpec = Dalvik.formatOf op ∧
      (Dalvik.formatOf op = none → fmtOf op = some .f00x) := by
  decide +kernel

/-- every row whose class looks a Kind up has one, and the only rows of class 21h are const/high16 (0x15) and
    const-wide/high16 (0x19): the side conditions of `fields_spec` hold for every table row -/
theorem table_kinds :
    ∀ op, op < 256 → ∀ f ∈ Fmt.all, fmtOf op = some f →
      (needsKind f = true → (kindOf op).isSome = true) ∧ (f = .f21h → op = 0x15 ∨ op = 0x19) := by
  decide +kernel

/-- the specification's list of unused opcodes is exactly the set of opcodes without a format -/
theorem spec_unused_consistent : ∀ op, op < 256 → (Dalvik.formatOf op = none ↔ op ∈ Dalvik.unused) := by
  decide +kernel

/-- Opcodes the specification marks unused are rejected as invalid instructions, whatever follows. -/
theorem unused_rejected (op : Nat) (h : op ∈ Dalvik.unused) (rest : List Nat) :
    getInstruction (op :: rest) = .error .unused := by
  have key : ∀ op ∈ Dalvik.unused, fmtOf op = some .f00x := by decide +kernel
  simp [getInstruction, key op h, decode]

/-- The length of every class that implements a specification format is the format's number of code units. -/
theorem length_spec (f : Fmt) (sf : Dalvik.Format) (h : toSpec f = some sf) :
    Opcodes.length f = 2 * Dalvik.units sf := by
  cases f <;> simp [toSpec] at h <;> subst h <;> rfl

/-- `get_length()` of a constructed instruction is its class's `length`, and the object is of that class. -/
theorem length_of_decoded (f : Fmt) (bs : List Nat) (x : Insn) (h : decode f bs = .ok x) :
    x.fmt = f ∧ x.length = Opcodes.length f ∧ Opcodes.length f ≤ bs.length := by
  have hf := decode_fmt h
  exact ⟨hf, by simp [Insn.length, hf], decode_ok_length h⟩

/-- Truncated instructions are rejected: fewer than `length` bytes ⇒ InvalidInstruction. -/
theorem decode_short (f : Fmt) (hf : f ≠ .f00x) (bs : List Nat) (hl : bs.length < Opcodes.length f) :
    decode f bs = .error .short :=
  Insn.decode_short f hf bs hl

/-- With at least `length` bytes every class decodes, except for its explicit checks
    (must-be-zero byte of 10x/20t/30t/32x, A > 5 of 45cc). -/
theorem decode_total (f : Fmt) (hf : f ≠ .f00x) (bs : List Nat) (hl : Opcodes.length f ≤ bs.length) :
    (∃ x, decode f bs = .ok x) ∨ decode f bs = .error .pad ∨ decode f bs = .error .count :=
  decode_total_all f hf bs hl

/-- Byte round trip: `get_raw()` never raises and returns exactly the first `length` input bytes —
    every class (ODEX-only ones included), every byte string. -/
theorem roundtrip (f : Fmt) (bs : List Nat) (hb : AllBytes bs) (x : Insn) (h : decode f bs = .ok x) :
    encode x = some (bs.take (Opcodes.length f)) :=
  roundtrip_all f bs hb x h

/-- The same through the public entry point `get_instruction(cm, bs[0], bs)`: the length is the one the
    specification's table fixes for the opcode and the bytes re-encode exactly. -/
theorem get_instruction_faithful (bs : List Nat) (hb : AllBytes bs) (x : Insn) (h : getInstruction bs = .ok x) :
    ∃ op rest sf, bs = op :: rest ∧ Dalvik.formatOf op = some sf ∧ toSpec x.fmt = some sf ∧
      x.length = 2 * Dalvik.units sf ∧ x.length ≤ bs.length ∧ encode x = some (bs.take x.length) := by
  match bs, h with
  | op :: rest, h =>
    have hop : op < 256 := (allBytes_cons.mp hb).1
    obtain ⟨hsome, hsp, hun⟩ := table_matches_spec op hop
    cases hf : fmtOf op with
    | none => simp [hf] at hsome
    | some f =>
      simp only [getInstruction, hf] at h
      obtain ⟨hfmt, hlen, hle⟩ := length_of_decoded f _ x h
      simp only [hf, Option.bind_some] at hsp
      cases hs : Dalvik.formatOf op with
      | none =>
        have := hun hs
        rw [hf] at this
        simp only [Option.some.injEq] at this
        subst this
        simp [decode] at h
      | some sf =>
        refine ⟨op, rest, sf, rfl, hs, ?_, ?_, ?_, ?_⟩
        · rw [hfmt, hsp, hs]
        · rw [hlen]; exact length_spec f sf (by rw [hsp, hs])
        · rw [hlen]; exact hle
        · rw [hlen]; exact roundtrip f _ hb x h

/-- Field meaning: registers (in syntax order, nibble order), literal (sign-extended; high16 literals shifted
    by 16 / 48), branch offset (sign-extended), pool index (unsigned, including the 32-bit index of 31c) and the
    opcode byte are those the specification defines — for every byte string, for each of the 22 specification
    formats with a fixed operand layout.  `hk`/`h21` hold for every row of the table (`table_kinds`). -/
theorem fields_spec_partial (f : Fmt) (sf : Dalvik.Format) (hsf : toSpec f = some sf) (hv : varRegs f = false)
    (bs : List Nat) (hb : AllBytes bs) (x : Insn) (h : decode f bs = .ok x)
    (hk : needsKind f = true → ∃ k, kindOf x.op = some k)
    (h21 : f = .f21h → x.op = 0x15 ∨ x.op = 0x19) :
    View.ofInsn x = View.ofMeaning (Dalvik.meaning sf x.op (leNat (bs.take (Opcodes.length f)))) ∧
      x.op = Dalvik.bits (leNat (bs.take (Opcodes.length f))) 0 8 :=
  fields_spec_all f sf hsf hv bs hb x h hk h21

/-- the full statement: the same for all 26 specification formats, the variable-register formats included
    (35c / 45cc: the first A of C, D, E, F, G for A ≤ 5; 3rc / 4rcc: C … C+AA-1).  Proved: `fields_spec_full_proved`
    (and, with the opcode byte and a weaker side condition, `fields_spec`). -/
def fields_spec_full : Prop :=
  ∀ (f : Fmt) (sf : Dalvik.Format), toSpec f = some sf →
    ∀ (bs : List Nat), AllBytes bs → ∀ x, decode f bs = .ok x →
      (needsKind f = true → ∃ k, kindOf x.op = some k) → (f = .f21h → x.op = 0x15 ∨ x.op = 0x19) →
      Dalvik.countA (leNat (bs.take (Opcodes.length f))) ≤ 5 ∨ (f ≠ .f35c ∧ f ≠ .f45cc) →
      View.ofInsn x = View.ofMeaning (Dalvik.meaning sf x.op (leNat (bs.take (Opcodes.length f))))

/-- Field meaning for ALL 26 specification formats, every byte string: registers in syntax order — for 35c / 45cc the
    first A of vC, vD, vE, vF, vG (nibbles C = bits 32-35 … F = bits 44-47, G = bits 8-11, A = bits 12-15), for
    3rc / 4rcc the range vCCCC … vCCCC+AA-1 —, sign-extended literal, branch offset, pool index BBBB, the proto index
    HHHH of 45cc / 4rcc, and the opcode byte.  The only side condition beyond `table_kinds` is A ≤ 5 for 35c (the
    format document defines no register list for A > 5; 45cc with A > 5 does not decode: `count_45cc`). -/
theorem fields_spec (f : Fmt) (sf : Dalvik.Format) (hsf : toSpec f = some sf)
    (bs : List Nat) (hb : AllBytes bs) (x : Insn) (h : decode f bs = .ok x)
    (hk : needsKind f = true → ∃ k, kindOf x.op = some k)
    (h21 : f = .f21h → x.op = 0x15 ∨ x.op = 0x19)
    (hA : f = .f35c → Dalvik.countA (leNat (bs.take (Opcodes.length f))) ≤ 5) :
    View.ofInsn x = View.ofMeaning (Dalvik.meaning sf x.op (leNat (bs.take (Opcodes.length f)))) ∧
      x.op = Dalvik.bits (leNat (bs.take (Opcodes.length f))) 0 8 :=
  fields_spec_every f sf hsf bs hb x h hk h21 hA

/-- the statement kept as `fields_spec_full` since the first delivery holds -/
theorem fields_spec_full_proved : fields_spec_full := by
  intro f sf hsf bs hb x h hk h21 hA
  refine (fields_spec f sf hsf bs hb x h hk h21 ?_).1
  intro hf
  rcases hA with hA | ⟨h35, _⟩
  · exact hA
  · exact absurd hf h35

/-- a constructed 45cc instruction has a register count A ≤ 5 (larger counts are rejected with `Err.count`) -/
theorem count_45cc (bs : List Nat) (hb : AllBytes bs) (x : Insn) (h : decode .f45cc bs = .ok x) :
    Dalvik.countA (leNat (bs.take (Opcodes.length .f45cc))) ≤ 5 :=
  (fs_45cc bs hb x h).2.2

/-- the side condition of `fields_spec` for 35c cannot be dropped: with A = 6 the class decodes, `get_operands()`
    is empty, and the (undefined) specification reading would list five registers -/
theorem fields_spec_35c_needs_count :
    ∃ bs x, AllBytes bs ∧ decode .f35c bs = .ok x ∧ Dalvik.countA (leNat (bs.take (Opcodes.length .f35c))) = 6 ∧
      View.ofInsn x ≠ View.ofMeaning (Dalvik.meaning .f35c x.op (leNat (bs.take (Opcodes.length .f35c)))) :=
  ⟨[0x6e, 0x60, 0x03, 0x00, 0x21, 0x43], ⟨.f35c, 0x6e, [6, 3, 1, 2, 3, 4, 0]⟩, by unfold AllBytes; decide, by rfl,
    by decide, by decide⟩

/-- Encode-then-decode, all 26 specification classes: an object whose attributes lie in the field ranges of the format
    document (`fieldsOK`, decidable) re-encodes without error to exactly `length` bytes that start with the opcode
    byte, and the class constructor applied to these bytes — followed by any further bytes — rebuilds exactly that
    object.  Together with `roundtrip` the constructor and `get_raw()` are mutually inverse on in-range objects. -/
theorem encode_decode (f : Fmt) (op : Nat) (v : List Int) (hop : op < 256) (h : fieldsOK f op v = true) :
    ∃ bytes, encode ⟨f, op, v⟩ = some bytes ∧ bytes.length = Opcodes.length f ∧ AllBytes bytes ∧
      bytes.head? = some op ∧ ∀ rest, decode f (bytes ++ rest) = .ok ⟨f, op, v⟩ :=
  encode_decode_fields f op v hop h

/-- Conversely every object a specification class constructs from bytes is in range, has a byte opcode, and that
    opcode is the first input byte: `fieldsOK` describes exactly the decodable objects, so `encode_decode` and
    `roundtrip` together say constructor and `get_raw()` are mutually inverse bijections between the first `length`
    bytes (that pass the pad / A ≤ 5 checks) and the in-range objects. -/
theorem decode_in_range (f : Fmt) (hsp : (toSpec f).isSome = true) (bs : List Nat) (hb : AllBytes bs) (x : Insn)
    (h : decode f bs = .ok x) : x.op < 256 ∧ fieldsOK f x.op x.v = true ∧ bs.head? = some x.op :=
  decode_fieldsOK f hsp bs hb x h

/-- Field meaning composed through the public entry point, with no side condition but `AllBytes bs` and A ≤ 5 for
    35c: whatever `get_instruction(cm, bs[0], bs)` returns has the first byte as its opcode, the format the
    specification's table gives that opcode, the length `2 · units`, and exposes exactly the registers, literal,
    branch offset and pool indices the format document assigns to the first `length` bytes.  (Glues
    `table_matches_spec`, `table_kinds`, `decode_in_range`, `length_spec` and `fields_spec`.) -/
theorem get_instruction_fields (bs : List Nat) (hb : AllBytes bs) (x : Insn) (h : getInstruction bs = .ok x)
    (hA : x.fmt = .f35c → Dalvik.countA (leNat (bs.take x.length)) ≤ 5) :
    ∃ op rest sf, bs = op :: rest ∧ x.op = op ∧ Dalvik.formatOf op = some sf ∧ toSpec x.fmt = some sf ∧
      x.length = 2 * Dalvik.units sf ∧
      View.ofInsn x = View.ofMeaning (Dalvik.meaning sf op (leNat (bs.take x.length))) := by
  match bs, h with
  | op :: rest, h =>
    have hop : op < 256 := (allBytes_cons.mp hb).1
    obtain ⟨hsome, hsp, hun⟩ := table_matches_spec op hop
    cases hf : fmtOf op with
    | none => simp [hf] at hsome
    | some f =>
      simp only [getInstruction, hf] at h
      obtain ⟨hfmt, hlen, hle⟩ := length_of_decoded f _ x h
      simp only [hf, Option.bind_some] at hsp
      cases hs : Dalvik.formatOf op with
      | none =>
        have := hun hs
        rw [hf] at this
        simp only [Option.some.injEq] at this
        subst this
        simp [decode] at h
      | some sf =>
        have hsf : toSpec f = some sf := by rw [hsp, hs]
        obtain ⟨_, _, hhead⟩ := decode_in_range f (by rw [hsf]; rfl) _ hb x h
        have hxop : x.op = op := by
          simp only [List.head?_cons, Option.some.injEq] at hhead
          exact hhead.symm
        have hmem : f ∈ Fmt.all := by cases f <;> decide
        obtain ⟨hk, h21⟩ := table_kinds op hop f hmem hf
        have hfs := fields_spec f sf hsf _ hb x h
          (fun hn => by
            rw [hxop]
            cases hko : kindOf op with
            | none => have := hk hn; rw [hko] at this; simp at this
            | some k => exact ⟨k, rfl⟩)
          (fun h21h => by rw [hxop]; exact h21 h21h)
          (fun h35 => by rw [← hlen]; exact hA (by rw [hfmt]; exact h35))
        refine ⟨op, rest, sf, rfl, hxop, hs, by rw [hfmt]; exact hsf, ?_, ?_⟩
        · rw [hlen]; exact length_spec f sf hsf
        · rw [hlen]; have := hfs.1; rw [hxop] at this; exact this

/-- `fields_spec` compares the literal through `get_literals()`; the literal that `get_operands()` shows is the same
    one: for every object of a specification class (any attribute values; 35c, which has no literal, excepted) the
    `Operand.LITERAL` entries of `get_operands()` are exactly `get_literals()`. -/
theorem operand_literals (x : Insn) (hs : (toSpec x.fmt).isSome = true)
    (hk : needsKind x.fmt = true → ∃ k, kindOf x.op = some k) (h35 : x.fmt ≠ .f35c) :
    litsOfOperands x = literals x :=
  lits_operands_all x hs hk h35

open AgVerif.PyInsn AgVerif.Gen.PyInsn in
/-- Tie by translation: each of the 36 `Instruction<fmt>.__init__` constructors, translated from the Python source on
    every run (gen/py2lean_insn.py → AgVerif.Gen.PyInsn), sets on every byte list exactly the attributes the model's
    `decode` of that class computes, and raises exactly when it does (lemmas: Proof/PyInsn.lean).  A changed mask, shift,
    padding check, count limit or struct string in any constructor breaks this theorem. -/
theorem source_constructors_agree (bs : List Nat) (hb : ∀ b ∈ bs, b < 256) :
    DecodeAgrees .f35c init_35c ["A", "BBBB", "C", "D", "E", "F", "G"] bs ∧
    DecodeAgrees .f10x init_10x [] bs ∧
    DecodeAgrees .f21h init_21h ["AA", "__BBBB", "BBBB"] bs ∧
    DecodeAgrees .f11n init_11n ["A", "B"] bs ∧
    DecodeAgrees .f21c init_21c ["AA", "BBBB"] bs ∧
    DecodeAgrees .f21s init_21s ["AA", "BBBB"] bs ∧
    DecodeAgrees .f22c init_22c ["A", "B", "CCCC"] bs ∧
    DecodeAgrees .f22cs init_22cs ["A", "B", "CCCC"] bs ∧
    DecodeAgrees .f31t init_31t ["AA", "BBBBBBBB"] bs ∧
    DecodeAgrees .f31c init_31c ["AA", "BBBBBBBB"] bs ∧
    DecodeAgrees .f12x init_12x ["A", "B"] bs ∧
    DecodeAgrees .f11x init_11x ["AA"] bs ∧
    DecodeAgrees .f51l init_51l ["AA", "BBBBBBBBBBBBBBBB"] bs ∧
    DecodeAgrees .f31i init_31i ["AA", "BBBBBBBB"] bs ∧
    DecodeAgrees .f22x init_22x ["AA", "BBBB"] bs ∧
    DecodeAgrees .f23x init_23x ["AA", "BB", "CC"] bs ∧
    DecodeAgrees .f20t init_20t ["AAAA"] bs ∧
    DecodeAgrees .f21t init_21t ["AA", "BBBB"] bs ∧
    DecodeAgrees .f10t init_10t ["AA"] bs ∧
    DecodeAgrees .f22t init_22t ["A", "B", "CCCC"] bs ∧
    DecodeAgrees .f22s init_22s ["A", "B", "CCCC"] bs ∧
    DecodeAgrees .f22b init_22b ["AA", "BB", "CC"] bs ∧
    DecodeAgrees .f30t init_30t ["AAAAAAAA"] bs ∧
    DecodeAgrees .f3rc init_3rc ["AA", "BBBB", "CCCC"] bs ∧
    DecodeAgrees .f32x init_32x ["AAAA", "BBBB"] bs ∧
    DecodeAgrees .f20bc init_20bc ["AA", "BBBB"] bs ∧
    DecodeAgrees .f35mi init_35mi ["A", "BBBB", "C", "D", "E", "F", "G"] bs ∧
    DecodeAgrees .f35ms init_35ms ["A", "BBBB", "C", "D", "E", "F", "G"] bs ∧
    DecodeAgrees .f3rmi init_3rmi ["AA", "BBBB", "CCCC"] bs ∧
    DecodeAgrees .f3rms init_3rms ["AA", "BBBB", "CCCC"] bs ∧
    DecodeAgrees .f41c init_41c ["BBBBBBBB", "AAAA"] bs ∧
    DecodeAgrees .f40sc init_40sc ["BBBBBBBB", "AAAA"] bs ∧
    DecodeAgrees .f52c init_52c ["CCCCCCCC", "AAAA", "BBBB"] bs ∧
    DecodeAgrees .f5rc init_5rc ["BBBBBBBB", "AAAA", "CCCC"] bs ∧
    DecodeAgrees .f45cc init_45cc ["A", "BBBB", "C", "D", "E", "F", "G", "HHHH"] bs ∧
    DecodeAgrees .f4rcc init_4rcc ["AA", "BBBB", "CCCC", "HHHH"] bs :=
  PyInsn.source_constructors_agree bs hb

/-- Tie by translation, encoder side: for each of the 36 classes, `Instruction<fmt>.get_raw` as translated from the
    Python source on every run (AgVerif.Gen.PyInsnRaw), applied to any object the constructor builds from values in
    struct range, passes to `struct.pack` exactly the argument tuple of the model's `packArgs` (and the struct strings
    are those of Gen.Opcodes.packFmt: `PyInsn.pack_formats_agree`).  The statement is the one of
    `PyInsn.source_get_raw_agree` in Proof/PyInsnRaw.lean (a 36-fold conjunction, re-exported verbatim). -/
theorem source_get_raw_agree : type_of% PyInsn.source_get_raw_agree :=
  PyInsn.source_get_raw_agree

/-- Tie by translation, observer side: the 27 one-line observers `get_ref_off` / `get_ref_kind` / `get_literals` of the
    format classes, translated from the Python source on every run (AgVerif.Gen.PyInsnObs), equal the model's
    `refOff` / `refKind` / `literals` on every object the constructor builds.  Statement: the one of
    `PyInsn.source_observers_agree` in Proof/PyInsnObs.lean, re-exported verbatim. -/
theorem source_observers_agree : type_of% PyInsn.source_observers_agree :=
  PyInsn.source_observers_agree

/-! ### non-vacuity -/

example : AllBytes [0x6e, 0x20, 0x03, 0x00, 0x21, 0x00] := by unfold AllBytes; decide
example : decode .f35c [0x6e, 0x20, 0x03, 0x00, 0x21, 0x00] = .ok ⟨.f35c, 0x6e, [2, 3, 1, 2, 0, 0, 0]⟩ := by rfl
example : regs ⟨.f35c, 0x6e, [2, 3, 1, 2, 0, 0, 0]⟩ = [1, 2] := by decide
example : decode .f31c [0x1b, 0x00, 0xff, 0xff, 0xff, 0xff] = .ok ⟨.f31c, 0x1b, [0, 4294967295]⟩ := by rfl
example : encode ⟨.f31c, 0x1b, [0, 4294967295]⟩ = some [0x1b, 0x00, 0xff, 0xff, 0xff, 0xff] := by decide
example : decode .f11n [0x12, 0xf7] = .ok ⟨.f11n, 0x12, [7, -1]⟩ := by rfl
example : decode .f21h [0x15, 0x00, 0xcd, 0xab] = .ok ⟨.f21h, 0x15, [0, -21555, -1412628480]⟩ := by rfl
example : decode .f10x [0x00, 0x01] = .error .pad := by rfl
example : 0x3e ∈ Dalvik.unused := by decide
example : litsOfOperands ⟨.f22b, 0xd8, [1, 2, -3]⟩ = [-3] := by decide
example : decode .f3rc [0x74, 0x03, 0x07, 0x00, 0x10, 0x00] = .ok ⟨.f3rc, 0x74, [3, 7, 16]⟩ := by rfl
example : regs ⟨.f3rc, 0x74, [3, 7, 16]⟩ = [16, 17, 18] := by decide
example : decode .f45cc [0xfa, 0x21, 0x03, 0x00, 0x54, 0x00, 0x09, 0x00] = .ok ⟨.f45cc, 0xfa, [2, 3, 4, 5, 0, 0, 1, 9]⟩ := by rfl
example : fieldsOK .f35c 0x6e [2, 3, 1, 2, 0, 0, 0] = true ∧ fieldsOK .f51l 0x18 [255, -9223372036854775808] = true := by decide
example : toSpec .f35c = some .f35c ∧ Dalvik.countA (leNat [0x6e, 0x20, 0x03, 0x00, 0x21, 0x00]) ≤ 5 := by decide

end AgVerif.C01
