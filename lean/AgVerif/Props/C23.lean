/-
C23 — Java string literals denote exactly the original string.
Property theorems only (lemmas: AgVerif/Proof/JavaString.lean).

Model: AgVerif.JavaString (`writer.string()` and the `str` branch of `Writer.visit_constant`, with
fixes/C23-surrogate-pair.diff); its literals are AgVerif.Gen.JString, regenerated from the source each run by
gen/jstring.py, which also pins the shape of `string()` (a different algorithm = broken obligation).  Spec: AgVerif.Spec.JavaLex (JLS §3.3 Unicode escapes with the
backslash-parity and multiple-`u` rules, §3.10.5 string literals, §3.10.7 escape sequences, UTF-16).
A Python `str` is a list of code points (`IsCodePoint`: below 0x110000, lone surrogates allowed).
All theorems quantify over every string.
-/
import AgVerif.Proof.JavaString
namespace AgVerif.C23
open AgVerif.JavaString AgVerif.Spec.JavaLex

/-- The literal written for ANY string, encoded as Java source (UTF-16) and read with Java's lexical
    rules, is one string literal that denotes exactly the UTF-16 code units of the original string. -/
theorem literal_denotes (s : List Nat) (hs : ∀ c ∈ s, IsCodePoint c) :
    javaLex (utf16 (escape s)) = some (utf16 s) := by
  have ha := escape_ascii' s hs
  rw [utf16_of_bmp _ (fun x hx => by have := ha x hx; omega)]
  have h := lex_escape_append s [] hs
  simp only [List.append_nil, unicodeTranslate, translate, Option.map_some] at h
  unfold javaLexPrefix at h
  unfold javaLex
  cases ht : unicodeTranslate (escape s) with
  | none => rw [ht] at h; simp at h
  | some t => rw [ht] at h; simp only at h ⊢; rw [h]

/-- The same inside a source file: whatever text follows the literal (if it is lexically translatable
    at all), the lexer reads the literal as one token denoting the original string and continues
    exactly at the text that follows — nothing of the literal leaks out, nothing after it is swallowed. -/
theorem literal_denotes_in_context (s rest : List Nat) (hs : ∀ c ∈ s, IsCodePoint c) :
    javaLexPrefix (escape s ++ rest) = (unicodeTranslate rest).map (fun t => (utf16 s, t)) :=
  lex_escape_append s rest hs

/-- `Writer.visit_constant` on a `str` constant writes exactly that literal. -/
theorem visit_constant_denotes (s : List Nat) (hs : ∀ c ∈ s, IsCodePoint c) :
    javaLex (utf16 (visitConstantStr s)) = some (utf16 s) :=
  literal_denotes s hs

/-- The literal is plain ASCII (so the encoding of the output file cannot change its meaning). -/
theorem escape_ascii (s : List Nat) (hs : ∀ c ∈ s, IsCodePoint c) : ∀ x ∈ escape s, x < 0x80 :=
  escape_ascii' s hs

/-- Two strings are written as the same literal only if they are the same UTF-16 text. -/
theorem literal_injective (s t : List Nat) (hs : ∀ c ∈ s, IsCodePoint c) (ht : ∀ c ∈ t, IsCodePoint c)
    (h : escape s = escape t) : utf16 s = utf16 t := by
  have a := literal_denotes s hs
  have b := literal_denotes t ht
  rw [h] at a
  rw [a] at b
  exact Option.some.inj b

/-- The defect that was repaired (D11): with one `\u` escape per code point — the loop body before
    fixes/C23-surrogate-pair.diff — U+1F600 is written `"\u1f600"`, which Java reads as U+1F60 followed
    by the digit `0`; so the statement is false of that code. -/
theorem unfixed_refuted :
    ¬ (∀ s : List Nat, (∀ c ∈ s, IsCodePoint c) → javaLex (utf16 (escapeUnfixed s)) = some (utf16 s)) := by
  intro h
  have := h [0x1F600] (by decide)
  revert this
  have e : escapeUnfixed [0x1F600] = [0x22, 0x5c, 0x75, 0x31, 0x66, 0x36, 0x30, 0x30, 0x22] := by
    simp [escapeUnfixed, escCharUnfixed, uEscape_def, hexDigits, hexNib]
  rw [e]
  decide

/-! Non-vacuity and sanity of the specification: concrete strings, and concrete source texts on
    which the lexer specification rejects or reads something else. -/
example : ∀ c ∈ [0x1F600, 0xD83D, 0x22, 0x5c, 0x75, 0x0a, 0x00, 0x10FFFF], IsCodePoint c := by decide
-- `"\u1f600"` is U+1F60 then `0`
example : javaLex [0x22, 0x5c, 0x75, 0x31, 0x66, 0x36, 0x30, 0x30, 0x22] = some [0x1F60, 0x30] := by decide
-- `"\\u0041"`: the second backslash is not eligible, the text is the six characters \u0041
example : javaLex [0x22, 0x5c, 0x5c, 0x75, 0x30, 0x30, 0x34, 0x31, 0x22]
    = some [0x5c, 0x75, 0x30, 0x30, 0x34, 0x31] := by decide
-- `"\\\u0041"`: third backslash eligible, the source becomes `"\\A"`, i.e. backslash then A
example : javaLex [0x22, 0x5c, 0x5c, 0x5c, 0x75, 0x30, 0x30, 0x34, 0x31, 0x22] = some [0x5c, 0x41] := by decide
-- `"\uuu0041"` multiple u
example : javaLex [0x22, 0x5c, 0x75, 0x75, 0x75, 0x30, 0x30, 0x34, 0x31, 0x22] = some [0x41] := by decide
-- `"\u000a"` is a line terminator inside a literal: rejected;  `"\u0022"` closes the literal early: rejected
example : javaLex [0x22, 0x5c, 0x75, 0x30, 0x30, 0x30, 0x61, 0x22] = none := by decide
example : javaLex [0x22, 0x5c, 0x75, 0x30, 0x30, 0x32, 0x32, 0x22] = none := by decide
-- `"\u12"` malformed escape; `"\q"` illegal escape; `"\"` unterminated; `"\177"`, `"\477"` octal longest match
example : javaLex [0x22, 0x5c, 0x75, 0x31, 0x32, 0x22] = none := by decide
example : javaLex [0x22, 0x5c, 0x71, 0x22] = none := by decide
example : javaLex [0x22, 0x5c, 0x22] = none := by decide
example : javaLex [0x22, 0x5c, 0x31, 0x37, 0x37, 0x22] = some [0x7f] := by decide
example : javaLex [0x22, 0x5c, 0x34, 0x37, 0x37, 0x22] = some [0x27, 0x37] := by decide

end AgVerif.C23
