/-
C17 — Renaming changes exactly the renamed item, for any sequence of renames.
Property theorems only (lemmas: AgVerif/Proof/Rename.lean, AgVerif/Proof/RenameSim.lean).

Model: AgVerif.Rename (hook tables, cached `*_idx_value`s, lazily loaded encoded items, the three
`set_name`s interpreted from the statement sequence that gen/renamecfg.py extracts from the source:
AgVerif.Gen.RenameCfg.cfg).  Spec: AgVerif.Spec.Rename (a dictionary item ↦ current name, updated
only at the renamed item; string constants never change).  `view`/`world` (Model/RenameView.lean)
say which item an operation renames/queries and what the file's original names are.

All theorems quantify over every file `d` satisfying the decidable `Dex.wf` (class_defs name
distinct existing types, encoded members denote distinct existing id items — no assumption that
names are unshared) and over every history of operations.

Edges of the tables (audit follow-up).  `Dex.wf` does not bound string / type indices *inside* the
id tables.  For those the model is not totalised by an arbitrary default: `rawString` / `getType`
answer the texts "AG:IS: invalid string" / "AG:ITI: invalid type", which is literally what
ClassManager.get_raw_string / get_type RETURN (they do not raise) for an index outside the pool;
the harness compares the two texts with the real code on every run (stream
`invalid-index-markers`).  So under `wf` alone the dictionary's "original name" of an item whose
name index is outside the pool is that marker, on both sides, as in the code.  The theorems
`*_in_range` below restate the property for files in which every index is in range
(`Dex.wfFull`, what the driver insists on and what every file of the correspondence satisfies),
and `no_fallback_*` show that there no marker or default is involved at all.  Operations whose own
index is out of range (a class_def / encoded member / id item / const-string that does not
exist) are outside the model: they answer `Out.err`, change nothing (`out_of_range_is_err`), are
read as `other` by `view`, and are never sent by the harness — the real code answers its
`AG:I?I:invalid_*` placeholder objects there or raises AttributeError.
-/
import AgVerif.Proof.RenameSim
import AgVerif.Proof.RenameRange
import AgVerif.Gen.RenameCfg
namespace AgVerif.C17
open AgVerif.Rename AgVerif.Spec.Rename
open AgVerif.Gen.RenameCfg (cfg)

/-- What the translator read from the source today is the configuration the proofs are about:
    every setter stores the new name under the renamed item (never under a string index), and
    refreshes the caches in the order written in `fixedCfg`. -/
theorem code_cfg_is_per_item : cfg = fixedCfg := by decide

/-- Refinement, for ALL histories and with NO hypothesis about shared name strings: every answer the
    specification demands (class / method / field names at ClassDefItem, EncodedMethod, EncodedField,
    MethodIdItem, FieldIdItem, and const-string output) is the answer the model gives. -/
theorem rename_refines (d : Dex) (hwf : d.wf = true) (ops : List Op) :
    agreeB (outs cfg d (init d) ops) (run (world d) (ops.map (view d))) = true := by
  rw [code_cfg_is_per_item]
  exact refines_from (wf_of_wfB d hwf) ops (init d) (world d).orig (inv_init d)

/-- After any history, a name query of item `i` answers the most recent name given to `i`, or the
    name in the file if `i` was never renamed. -/
theorem query_reports_last_name (d : Dex) (hwf : d.wf = true) (ops : List Op) (q : Op) (i : Item)
    (hq : view d q = .name i) :
    (step cfg d (runState cfg d (init d) ops) q).2 =
      .str ((lastRename i (ops.map (view d))).getD ((world d).orig i)) := by
  rw [code_cfg_is_per_item]
  have wf := wf_of_wfB d hwf
  have hinv := inv_run wf ops (init d) (world d).orig (inv_init d)
  have h2 := (step_sim wf hinv q).2
  rw [hq] at h2
  rw [agree1_some h2, final_eq]

/-- An item that no operation of the history renamed still answers its original name — whatever
    happened to other items, including items that share its name string. -/
theorem unrenamed_keeps_original (d : Dex) (hwf : d.wf = true) (ops : List Op) (q : Op) (i : Item)
    (hq : view d q = .name i) (hnot : ∀ op ∈ ops, ∀ v, view d op ≠ .rename i v) :
    (step cfg d (runState cfg d (init d) ops) q).2 = .str ((world d).orig i) := by
  rw [query_reports_last_name d hwf ops q i hq, lastRename_none]
  · rfl
  · intro ev hev v
    obtain ⟨op, hop, rfl⟩ := List.mem_map.mp hev
    exact hnot op hop v

/-- String constants in code are unchanged by any history of renames, reloads and queries. -/
theorem const_strings_unchanged (d : Dex) (hwf : d.wf = true) (ops : List Op) (k : Nat)
    (hk : k < d.consts.length) :
    (step cfg d (runState cfg d (init d) ops) (.constString k)).2 = .str ((world d).const k) := by
  rw [code_cfg_is_per_item]
  have wf := wf_of_wfB d hwf
  have hinv := inv_run wf ops (init d) (world d).orig (inv_init d)
  have h2 := (step_sim wf hinv (.constString k)).2
  simp only [view, hk, if_true] at h2
  exact agree1_some h2

/-! ### edges of the tables -/

/-- An operation addressed to a class_def / encoded member / id item / constant that does not exist
    answers `err` and leaves the state alone (for every configuration): such operations are
    excluded visibly, not absorbed by a default. -/
theorem out_of_range_is_err (c : Cfg) (d : Dex) (s : State) (op : Op)
    (h : opInRange d op = false) : step c d s op = (s, .err) :=
  out_of_range_step c d s op h

/-- … and the specification demands nothing of them. -/
theorem out_of_range_is_unjudged (d : Dex) (op : Op) (h : opInRange d op = false) :
    view d op = .other := by
  cases op <;> simp only [opInRange, decide_eq_false_iff_not] at h <;>
    simp [view, h]

/-- `rename_refines` for files in which EVERY index of every table is in range. -/
theorem rename_refines_in_range (d : Dex) (hfull : d.wfFull = true) (ops : List Op) :
    agreeB (outs cfg d (init d) ops) (run (world d) (ops.map (view d))) = true :=
  rename_refines d (wfFull_wf d hfull) ops

/-- In such a file the original name of a class is a string of the file (no marker, no default). -/
theorem no_fallback_class (d : Dex) (hfull : d.wfFull = true) (c : Nat) (cd : ClassDef)
    (hc : d.classes[c]? = some cd) :
    ∃ si s, d.types[cd.cls]? = some si ∧ d.strings[si]? = some s ∧
      (world d).orig (.cls cd.cls) = s := by
  have w := wfFull_of_wfFullB d hfull
  obtain ⟨si, hsi⟩ := exists_get' _ _ (w.cls c cd hc)
  obtain ⟨s, hs, hr⟩ := rawString_in_file d si (w.typ _ _ hsi)
  exact ⟨si, s, hsi, hs, by simp [world, rawType, hsi, hr]⟩

/-- … of a method (every method id, encoded or external) -/
theorem no_fallback_method (d : Dex) (hfull : d.wfFull = true) (m : Nat) (mid : MethodId)
    (hm : d.methods[m]? = some mid) :
    ∃ s, d.strings[mid.name]? = some s ∧ (world d).orig (.meth m) = s := by
  have w := wfFull_of_wfFullB d hfull
  obtain ⟨s, hs, hr⟩ := rawString_in_file d mid.name (w.meth m mid hm).2.2
  exact ⟨s, hs, by simp [world, hm, hr]⟩

/-- … of a field -/
theorem no_fallback_field (d : Dex) (hfull : d.wfFull = true) (f : Nat) (fid : FieldId)
    (hf : d.fields[f]? = some fid) :
    ∃ s, d.strings[fid.name]? = some s ∧ (world d).orig (.fld f) = s := by
  have w := wfFull_of_wfFullB d hfull
  obtain ⟨s, hs, hr⟩ := rawString_in_file d fid.name (w.fld f fid hf).2.2
  exact ⟨s, hs, by simp [world, hf, hr]⟩

/-- … and the text demanded of a const-string is built from a string of the file. -/
theorem no_fallback_const (d : Dex) (hfull : d.wfFull = true) (k reg si : Nat)
    (hk : d.consts[k]? = some (reg, si)) :
    ∃ s, d.strings[si]? = some s ∧
      (world d).const k = "v" ++ toString reg ++ ", \"" ++ s ++ "\"" := by
  have w := wfFull_of_wfFullB d hfull
  obtain ⟨s, hs, hr⟩ := rawString_in_file d si (w.const k reg si hk)
  exact ⟨s, hs, by simp [world, hk, hr]⟩

/-- a file with deliberately shared names: methods `x` in two classes, a field `x`, const-string "x" -/
def shared : Dex :=
  { strings := ["I", "La;", "Lb;", "V", "x"],
    types := [0, 1, 2, 3],
    protos := [{ ret := 3, params := [0] }],
    fields := [{ cls := 1, typ := 0, name := 4 }],
    methods := [{ cls := 1, proto := 0, name := 4 }, { cls := 2, proto := 0, name := 4 }],
    classes := [{ cls := 1, sup := 99 }, { cls := 2, sup := 1 }],
    encMethods := [(0, 0), (1, 1)],
    encFields := [(0, 0)],
    consts := [(0, 4)] }

/-- defect D8 as a history: rename one method `x`, rename any class (this reloads every method id),
    then ask the other method `x`, the field `x` and the constant "x" -/
def d8 : List Op :=
  [.renameMethod 0 "y", .renameClass 1 "Lc;", .methodName 1, .reloadFieldId 0, .fieldName 0, .constString 0]

/-- The design before the repair (hooks keyed by string index, `perStringCfg`) does NOT refine the
    dictionary: the statement of `rename_refines` for that configuration is refuted by `d8`. -/
theorem per_string_hooks_refuted :
    ¬ (∀ (d : Dex), d.wf = true → ∀ ops : List Op,
        agreeB (outs perStringCfg d (init d) ops) (run (world d) (ops.map (view d))) = true) := by
  intro h
  have := h shared (by decide) d8
  revert this
  decide

/-! ### non-vacuity -/

example : shared.wf = true := by decide
example : shared.wfFull = true := by decide

/-- on the repaired configuration the D8 history answers: other method `x`, field `x`, constant "x" -/
example : outs fixedCfg shared (init shared) d8 =
    [.unit, .unit, .str "x", .unit, .str "x", .str "v0, \"x\""] := by decide

/-- … and on the per-string configuration it answers the renamed text three times -/
example : outs perStringCfg shared (init shared) d8 =
    [.unit, .unit, .str "y", .unit, .str "y", .str "v0, \"y\""] := by decide

/-- a renamed item does report its new name, the last one -/
example : outs fixedCfg shared (init shared)
    [.renameMethod 0 "y", .renameMethod 0 "z", .methodName 0, .midName 0, .renameClass 0 "Lq;",
     .className 0, .methodClass 0, .invokeText 0] =
    [.unit, .unit, .str "z", .str "z", .unit, .str "Lq;", .str "Lq;", .str "Lq;->z(I)V"] := by decide

/-- the hypotheses of `unrenamed_keeps_original` hold for the second method `x` in the D8 history -/
example : view shared (.methodName 1) = .name (.meth 1) := rfl
/-- edges: an existing and a non-existing encoded method; the latter answers `err` -/
example : opInRange shared (.methodName 1) = true ∧ opInRange shared (.methodName 2) = false := by decide
example : (step fixedCfg shared (init shared) (.methodName 2)).2 = .err := by decide
example : (step fixedCfg shared (init shared) (.renameClass 5 "Lq;")).2 = .err := by decide
/-- `wf` without `wfFull`: a method whose name index is outside the pool reports the marker the
    real get_raw_string returns, and can still be renamed -/
example :
    let d : Dex := { shared with methods := [{ cls := 1, proto := 0, name := 77 }, { cls := 2, proto := 0, name := 4 }] }
    d.wf = true ∧ d.wfFull = false ∧
    outs fixedCfg d (init d) [.methodName 0, .renameMethod 0 "y", .methodName 0, .methodName 1] =
      [.str "AG:IS: invalid string", .unit, .str "y", .str "x"] := by decide
example : ∀ op ∈ d8, ∀ v, view shared op ≠ .rename (.meth 1) v := by
  intro op hop v
  simp only [d8, List.mem_cons, List.mem_nil_iff, or_false] at hop
  rcases hop with rfl | rfl | rfl | rfl | rfl | rfl <;> simp [view, shared]

end AgVerif.C17
