import AgVerif.Model.Axml
namespace AgVerif.C26
open AgVerif.Axml

theorem stub : fixValue [] = [] := by decide

end AgVerif.C26
