/-
C26 — Binary XML is converted to the XML tree it encodes.   Property theorems only.

Model: AgVerif.Axml (Model/Axml.lean: ARSCHeader, StringBlock, AXMLParser, AXMLPrinter, _fix_name, _fix_value, format_value,
with the two C26 fixes applied).  Spec: AgVerif.Spec.Axml (abstract tree = `Node`, chunk event sequence of a tree, text normal
form, XML character classes, length-prefix encodings of ResStringPool).

What is proved: the whole-file round trip `axml_roundtrip` (= `C26_full`): for every well-formed document and every encoding
choice (UTF-8 or UTF-16 pool, narrow or forced-wide length prefixes, any pool order, with or without resource map) the printer
run on the encoded file returns the tree the document denotes.  Its ingredients are theorems of their own: UTF-16 / UTF-8
character round trips (`utf16_roundtrip`, `utf8_roundtrip`, with the behaviour on lone surrogates), whole string pools
(`pool_roundtrip`: header, offset table, both encodings, both prefix widths), the parser's event stream on an encoded document
(`chunk_events`), tree building from events (`axml_roundtrip_events_partial`, `axml_roundtrip_normal`), `_fix_name` / `_fix_value`
identities, the value string of each integer-like Res_value type.
What is not proved here (covered by the correspondence and the oracle only): everything inside lxml and CPython's codecs (the
model transcribes them), float / dimension / fraction renderings (C27).
-/
import AgVerif.Proof.Axml
import AgVerif.Proof.AxmlPool
import AgVerif.Proof.AxmlFile
import AgVerif.Proof.AxmlDoc
namespace AgVerif.C26
open AgVerif.Axml AgVerif.Spec.Axml AgVerif.Proof.Axml AgVerif.Gen.AxmlConsts

/-- The full property: every well-formed document (`wfDoc`: root element; XML names, plain namespace URIs / prefixes, XML
    strings as texts and string attribute values, typed values of every Res_value type; a prefix bound to one URI; every string in the pool and fit for the pool's flavour;
    a resource map that does not rename an attribute; file shorter than 2^32 bytes), whose tree is in text normal form, is
    printed back from its file `encodeAxml E d` (Spec/AxmlFile.lean, the layout of the independent writer) — for every encoding
    choice `E` (UTF-8 / UTF-16, narrow / wide length prefixes, pool order, with / without resource map).
    Proved below: `axml_roundtrip`. -/
def C26_full (opq : Nat → Nat → Str) : Prop :=
  ∀ (E : Enc) (d : SNode), wfDoc opq E d = true → Normal (treeOf opq d) →
    printAxml opq (encodeAxml E d) = .ok (true, some (treeOf opq d))

/-- Tree building (`axml_roundtrip` at the level of chunk events): for every element tree, feeding the printer the events
    START_ELEMENT / CDATA / END_ELEMENT of the tree followed by END_DOCUMENT yields that tree, text chunks merged in
    document order. -/
theorem axml_roundtrip_events_partial (tag ns : Str) (attrs : List Attr) (kids : List Node) (h : TextsOkL kids) :
    ∃ p, runEvents (events (.elem tag ns attrs kids) ++ [.endDoc]) Printer.init = .ok p ∧
      p.result = some (norm (.elem tag ns attrs kids)) := by
  refine ⟨⟨some (norm (.elem tag ns attrs kids)), true, [], true⟩, ?_, rfl⟩
  simp only [events, List.cons_append, List.append_assoc]
  rw [runEvents_cons _ _ Printer.init (inside none ⟨tag, ns, attrs, []⟩ [])]
  · rw [run_list kids _ none ⟨tag, ns, attrs, []⟩ [] h]
    simp [runEvents, applyEv, inside, norm, Open.close]
  · simp [applyEv, Printer.init, inside]
  · rfl

/-- … and a tree already in normal form (no empty and no adjacent text chunks) is rebuilt exactly. -/
theorem axml_roundtrip_normal (tag ns : Str) (attrs : List Attr) (kids : List Node)
    (h : TextsOkL kids) (hn : Normal (.elem tag ns attrs kids)) :
    ∃ p, runEvents (events (.elem tag ns attrs kids) ++ [.endDoc]) Printer.init = .ok p ∧
      p.result = some (.elem tag ns attrs kids) := by
  obtain ⟨p, h1, h2⟩ := axml_roundtrip_events_partial tag ns attrs kids h
  exact ⟨p, h1, by rw [h2, norm_normal _ hn]⟩

/-- attributes with pairwise different (namespace, name) are kept in order (`elem.set` never overwrites) -/
theorem attrs_distinct_kept (a : Attr) (l : List Attr) (h : ∀ b ∈ l, ¬ (b.ns = a.ns ∧ b.name = a.name)) :
    setAttr a l = l ++ [a] := setAttr_fresh a l h

/-- `_fix_value` is the identity on strings of XML characters … -/
theorem fix_identity_on_legal_value (v : Str) (h : LegalValue v) : fixValue v = v := by
  have h0 : ∀ c ∈ v, c ≠ 0 := fun c hc => by have := h c hc; unfold XmlChar at this; omega
  have htw : v.takeWhile (fun x => decide (x ≠ 0)) = v :=
    takeWhile_all v (fun c hc => by simpa using h0 c hc)
  have hall : v.all (inClass valueMatchClass) = true := by
    rw [List.all_eq_true]; intro c hc; exact (valueClass_iff c).2 (h c hc)
  simp only [fixValue]
  rw [htw]
  simp only [hall, if_true]

/-- … and whatever it returns consists of XML characters only. -/
theorem fix_value_legal (v : Str) : LegalValue (fixValue v) := by
  intro c hc
  unfold fixValue at hc
  simp only at hc
  split at hc
  · rename_i hall
    rw [List.all_eq_true] at hall
    exact (valueClass_iff c).1 (hall c hc)
  · simp only [List.mem_map] at hc
    obtain ⟨x, _, rfl⟩ := hc
    split
    · rename_i hk; rw [valueKeep_eq_match] at hk; exact (valueClass_iff x).1 hk
    · unfold XmlChar; omega

/-- the character class that `_fix_name` / `_fix_value` test is the class they keep when they repair
    (read from the two regular expressions of each function) -/
theorem fix_classes_agree : nameKeepClass = nameMatchClass ∧ valueKeepClass = valueMatchClass := by decide

/-- `_fix_name` is the identity on legal names, whatever the namespace context. -/
theorem fix_identity_on_legal_name (s : PState) (uri n : Str) (h : LegalName n) : fixName s uri n = .ok (uri, n) := by
  match n, h with
  | c :: r, h =>
    simp only [LegalName] at h
    have hc : NameChar c := Or.inl h.1
    have hall : ∀ x ∈ c :: r, NameChar x := by
      intro x hx; simp only [List.mem_cons] at hx; rcases hx with rfl | hx; exact hc; exact h.2 x hx
    have hcolon : ∀ x ∈ c :: r, x ≠ 0x3A := by
      intro x hx; have := hall x hx; unfold NameChar NameStart at this; omega
    have h80 : ¬ c ≥ 0x80 := by have := h.1; unfold NameStart at this; omega
    have hstart : ¬ (!isAsciiAlpha c ∧ c ≠ 0x5F) := by
      have := h.1; unfold NameStart at this
      simp only [isAsciiAlpha, Bool.not_eq_true', Bool.or_eq_false_iff, Bool.and_eq_false_iff, decide_eq_false_iff_not]
      omega
    have hsplit := splitColon_none (c :: r) hcolon
    have hnot : ¬ ((c :: r).take 8 = lit "android:") := by
      intro he
      have : (0x3A : Nat) ∈ (c :: r).take 8 := by rw [he]; decide
      exact hcolon _ (List.mem_of_mem_take this) rfl
    have hm : nameMatches (c :: r) = true := by
      simp only [nameMatches, Bool.or_eq_true]; left
      rw [List.all_eq_true]; intro x hx; exact (nameClass_iff x).2 (hall x hx)
    have hnot' : ¬ (c :: List.take 7 r = lit "android:") := by simpa using hnot
    unfold fixName
    simp only [List.headD_cons, h80, if_false, hstart]
    by_cases hu : uri.isEmpty = true
    · simp [hnot', hu, hsplit, hm, bind, Except.bind]
    · simp [hnot', hu, hm, bind, Except.bind]

/-! ### attribute values: the string for the declared type (`attr_value_spec`) -/

theorem attr_value_string (opq : Nat → Nat → Str) (d : Nat) (s : Str) : formatValue opq TYPE_STRING d s = s := by
  simp [formatValue]

theorem attr_value_boolean (opq : Nat → Nat → Str) (d : Nat) (s : Str) :
    formatValue opq TYPE_INT_BOOLEAN d s = if d = 0 then lit "false" else lit "true" := by
  simp [formatValue, TYPE_INT_BOOLEAN, TYPE_STRING, TYPE_ATTRIBUTE, TYPE_REFERENCE, TYPE_FLOAT, TYPE_INT_HEX]

theorem attr_value_reference (opq : Nat → Nat → Str) (d : Nat) (s : Str) :
    formatValue opq TYPE_REFERENCE d s = 0x40 :: ((if d / 2 ^ 24 = 1 then lit "android:" else []) ++ hex8U d) := by
  simp [formatValue, TYPE_STRING, TYPE_ATTRIBUTE, TYPE_REFERENCE, fmtPackage]

theorem attr_value_attribute (opq : Nat → Nat → Str) (d : Nat) (s : Str) :
    formatValue opq TYPE_ATTRIBUTE d s = 0x3F :: ((if d / 2 ^ 24 = 1 then lit "android:" else []) ++ hex8U d) := by
  simp [formatValue, TYPE_STRING, TYPE_ATTRIBUTE, fmtPackage]

theorem attr_value_hex (opq : Nat → Nat → Str) (d : Nat) (s : Str) :
    formatValue opq TYPE_INT_HEX d s = lit "0x" ++ hex8U d := by
  simp [formatValue, TYPE_STRING, TYPE_ATTRIBUTE, TYPE_REFERENCE, TYPE_FLOAT, TYPE_INT_HEX]

/-- decimal integers are printed as the two's-complement 32-bit value -/
theorem attr_value_int_dec (opq : Nat → Nat → Str) (d : Nat) (s : Str) (h : d < 2 ^ 32) :
    formatValue opq TYPE_INT_DEC d s = if d < 2 ^ 31 then decNat d else 0x2D :: decNat (2 ^ 32 - d) := by
  have e : formatValue opq TYPE_INT_DEC d s = fmtIntDec d := by
    simp [formatValue, TYPE_STRING, TYPE_ATTRIBUTE, TYPE_REFERENCE, TYPE_FLOAT, TYPE_INT_HEX, TYPE_INT_DEC, TYPE_INT_BOOLEAN,
      TYPE_DIMENSION, TYPE_FRACTION, TYPE_FIRST_COLOR_INT, TYPE_LAST_COLOR_INT, TYPE_FIRST_INT, TYPE_LAST_INT]
  rw [e]
  unfold fmtIntDec
  by_cases hd : d < 2 ^ 31
  · have : ¬ d > 0x7FFFFFFF := by omega
    simp [this, hd]
  · have h1 : d > 0x7FFFFFFF := by omega
    have h2 : 0x80000000 - d % 0x80000000 = 2 ^ 32 - d := by omega
    simp [h1, hd, h2]

/-- float, dimension and fraction renderings are delegated (property C27) -/
theorem attr_value_delegated (opq : Nat → Nat → Str) (d : Nat) (s : Str) :
    formatValue opq TYPE_FLOAT d s = opq TYPE_FLOAT d ∧ formatValue opq TYPE_DIMENSION d s = opq TYPE_DIMENSION d ∧
    formatValue opq TYPE_FRACTION d s = opq TYPE_FRACTION d := by
  simp [formatValue, TYPE_STRING, TYPE_ATTRIBUTE, TYPE_REFERENCE, TYPE_FLOAT, TYPE_INT_HEX, TYPE_INT_BOOLEAN, TYPE_DIMENSION,
    TYPE_FRACTION]

/-- whatever the type, the value string consists of XML characters (so `_fix_value` leaves it alone) as soon as a string value
    does and the delegated float / dimension / fraction rendering does -/
theorem attr_value_legal (opq : Nat → Nat → Str) (ty d : Nat) (s : Str) (hs : ty = TYPE_STRING → LegalValue s)
    (ho : ty = TYPE_FLOAT ∨ ty = TYPE_DIMENSION ∨ ty = TYPE_FRACTION → LegalValue (opq ty d)) :
    LegalValue (formatValue opq ty d s) := formatValue_legal opq ty d s hs ho

/-! ### string pool: length prefixes (`pool_roundtrip`, prefix part) -/

theorem pool_len8_narrow (n x : Nat) (rest : Bytes) (h : n < 0x80) :
    decodeLength (len8Narrow n ++ x :: rest) 0 false = .ok (n, 1) := by
  have : n / 128 % 2 = 0 := by omega
  simp [decodeLength, len8Narrow, le, this]

theorem pool_len8_wide (n : Nat) (rest : Bytes) (h : n ≤ 0x7FFF) :
    decodeLength (len8Wide n ++ rest) 0 false = .ok (n, 2) := by
  simp [decodeLength, len8Wide, le]
  have a : (n / 256 / 128 + 1) % 2 = 1 := by omega
  have b : n / 256 % 128 * 256 + n % 256 = n := by omega
  simp [a, b]

theorem pool_len16_narrow (n x y : Nat) (rest : Bytes) (h : n < 0x8000) :
    decodeLength (len16Narrow n ++ x :: y :: rest) 0 true = .ok (n, 2) := by
  have h2 : n % 256 + 256 * (n / 256) = n := by omega
  simp [decodeLength, len16Narrow, le, h2]
  omega

theorem pool_len16_wide (n : Nat) (rest : Bytes) (h : n ≤ 0x7FFFFFFF) :
    decodeLength (len16Wide n ++ rest) 0 true = .ok (n, 4) := by
  have h1 : (n / 65536 % 256 + 256 * (128 + n / 65536 / 256)) / 32768 % 2 = 1 := by omega
  have h2 : (n / 65536 % 256 + 256 * (128 + n / 65536 / 256)) % 32768 * 65536 + (n % 256 + 256 * (n / 256 % 256)) = n := by omega
  simp [decodeLength, len16Wide, le, h1, h2]

/-! ### string pool: characters (`utf16_roundtrip`, `utf8_roundtrip`) and whole pools (`pool_roundtrip`) -/

/-- UTF-16 pool strings: the model's `bytes.decode('utf-16-le', 'replace')` applied to the UTF-16-LE bytes of any string of
    Unicode scalar values (surrogate pairs above U+FFFF) returns the string. -/
theorem utf16_roundtrip (s : Str) (h : ∀ c ∈ s, Scalar c) : dec16 (enc16 s) = s := dec16_enc16 s h

/-- … and a lone surrogate code unit (high or low), anywhere between scalar values, comes back as one U+FFFD. -/
theorem utf16_lone_surrogate (pre post : Str) (c : Nat) (hpre : ∀ x ∈ pre, Scalar x) (hpost : ∀ x ∈ post, Scalar x)
    (hc : 0xD800 ≤ c ∧ c < 0xE000) : dec16 (enc16 (pre ++ c :: post)) = pre ++ 0xFFFD :: post :=
  dec16_lone_surrogate pre post c hpre hpost hc

/-- UTF-8 pool strings: the model's `bytes.decode('utf-8', 'replace')` applied to the standard UTF-8 bytes (1 to 4 byte
    forms, what the independent writer emits) of any string of Unicode scalar values returns the string. -/
theorem utf8_roundtrip (s : Str) (h : ∀ c ∈ s, Scalar c) : dec8 (enc8 s) = s := dec8_enc8 s h

/-- … and the three-byte form of a surrogate (CESU-8 / modified UTF-8 supplementary characters) is rejected byte by byte:
    three U+FFFD per surrogate. -/
theorem utf8_surrogate (pre post : Str) (c : Nat) (hpre : ∀ x ∈ pre, Scalar x) (hpost : ∀ x ∈ post, Scalar x)
    (hc : 0xD800 ≤ c ∧ c < 0xE000) : dec8 (enc8 (pre ++ c :: post)) = pre ++ 0xFFFD :: 0xFFFD :: 0xFFFD :: post :=
  dec8_surrogate pre post c hpre hpost hc

/-- Whole pools: `ARSCHeader` + `StringBlock.__init__` on an encoded ResStringPool chunk (any number of strings, UTF-8 or
    UTF-16, narrow or forced-wide length prefixes, offset table, padding) placed anywhere in a buffer consume exactly the
    chunk, and `getString(i)` returns string `i` for every `i`. -/
theorem pool_roundtrip (B : Bytes) (p : Nat) (utf8 wide : Bool) (strings : List Str) (tail : Bytes)
    (hs : ∀ s ∈ strings, StrOk utf8 s) (hsz : (encodePool utf8 wide strings).length < 2 ^ 32) (hB : p + 8 ≤ B.length) :
    ∃ h c0 pool, readHdr ⟨B, encodePool utf8 wide strings ++ tail, p⟩ (some RES_STRING_POOL_TYPE) = .ok (h, c0) ∧
      readPool h c0 = .ok (pool, ⟨B, tail, p + (encodePool utf8 wide strings).length⟩) ∧
      ∀ i x, strings[i]? = some x → pool.get i = .ok x := by
  obtain ⟨h, c0, h1, _, _, h2⟩ := parse_pool B p utf8 wide strings tail hsz hB
  exact ⟨h, c0, _, h1, h2, fun i x hi => poolOf_get utf8 wide strings hs i x hi⟩

/-! ### whole files (`chunk_events`, `axml_roundtrip`) -/

/-- The parser on an encoded document: `AXMLParser.__init__` accepts it, and calling `_do_next` until END_DOCUMENT delivers
    exactly the START_ELEMENT / CDATA / END_ELEMENT events of the document's tree in document order — element and attribute
    names, namespace URIs and typed attribute values resolved through the pool and the resource map, `nsmap` computable at every
    START_ELEMENT; START_NAMESPACE / END_NAMESPACE chunks only update the namespace stack.  The fuel `file length + 1`
    suffices (every iteration of `_do_next` consumes a chunk header). -/
theorem chunk_events (opq : Nat → Nat → Str) (E : Enc) (d : SNode) (hwf : wfDoc opq E d = true) :
    ∃ s0, parserInit (encodeAxml E d) = .ok s0 ∧ s0.valid = true ∧
      parserEvents opq ((encodeAxml E d).length + 1) s0 = .ok (events (treeOf opq d)) :=
  events_encoded opq E d hwf

/-- Whole-file round trip: the printer on the encoded file is valid and returns the document's tree with adjacent text chunks
    merged and empty ones dropped (XML cannot tell them apart) … -/
theorem axml_roundtrip_norm (opq : Nat → Nat → Str) (E : Enc) (d : SNode) (hwf : wfDoc opq E d = true) :
    printAxml opq (encodeAxml E d) = .ok (true, some (norm (treeOf opq d))) :=
  print_encoded opq E d hwf

/-- … hence exactly the tree when it is in text normal form: the full property. -/
theorem axml_roundtrip (opq : Nat → Nat → Str) : C26_full opq := by
  intro E d hwf hn
  rw [print_encoded opq E d hwf, norm_normal _ hn]

/-! ### against the specification that imports nothing (Spec/AxmlTree.lean) -/

/-- `attr_value_spec`: for every type byte and every 32-bit data word, `format_value` returns the string the value denotes
    by the independent definition `Spec.AxmlTree.valueString` (digits defined by their value; references, attributes, hex,
    boolean, colours, signed decimal, the placeholder of TYPE_NULL / undefined types; float, dimension and fraction are the
    C27 rendering on both sides). -/
theorem attr_value_spec (complex : Nat → Nat → Str) (ty data : Nat) (str : Str) (ht : ty < 256) (hd : data < 2 ^ 32) :
    formatValue complex ty data str = AgVerif.Spec.AxmlTree.valueString complex ty data str :=
  AgVerif.Proof.AxmlSpecValue.formatValue_eq_valueString complex ty data str ht hd

/-- the expected tree of `axml_roundtrip`, for documents without duplicate attributes (XML allows none), is the specification
    tree built with `valueString` only -/
theorem tree_of_document_spec (complex : Nat → Nat → Str) (E : Enc) (d : SNode) (hwf : wfDoc complex E d = true)
    (hd : distinctAttrs d) : toX (treeOf complex d) = specTreeOf complex d := by
  simp only [wfDoc, Bool.and_eq_true] at hwf
  exact AgVerif.Proof.AxmlDoc.tree_spec complex E d hwf.1.1.1.1.2 hd

/-- The property, stated against the independent specification: the printer returns, for the file of every well-formed
    document in text normal form and without duplicate attributes, the tree whose elements, namespace URIs, attribute names and
    text are the document's and whose attribute values are the strings `valueString` assigns to their declared types. -/
theorem axml_roundtrip_spec (complex : Nat → Nat → Str) (E : Enc) (d : SNode) (hwf : wfDoc complex E d = true)
    (hn : Normal (treeOf complex d)) (hd : distinctAttrs d) :
    (printAxml complex (encodeAxml E d)).map (fun r => (r.1, r.2.map toX)) = .ok (true, some (specTreeOf complex d)) := by
  rw [axml_roundtrip complex E d hwf hn]
  simp only [Except.map, Option.map_some, tree_of_document_spec complex E d hwf hd]

/-! Non-vacuity -/
def exUri : Str := lit "http://schemas.android.com/apk/res/android"
def exEnc (utf8 wide : Bool) (res : Option (List Nat)) : Enc :=
  ⟨utf8, wide, [lit "name", lit "manifest", lit "android", exUri, [0x68, 0xE9, 0x20AC, 0x1F600], lit "app", lit "v", lit "x"], res⟩
def exDoc : SNode :=
  .elem 1 (lit "manifest") none [(lit "android", exUri)]
    [⟨some exUri, lit "name", 0xFFFFFFFF, 3, 0, [0x68, 0xE9, 0x20AC, 0x1F600]⟩, ⟨none, lit "v", 0xFFFFFFFF, 0x10, 0xFFFFFFFF, []⟩]
    [.text 2 (lit "x"), .elem 3 (lit "app") (some exUri) [] [⟨none, lit "v", 7, 0x12, 1, []⟩] [], .text 2 (lit "x")]
example : wfDoc (fun _ _ => []) (exEnc true false none) exDoc = true := by decide +kernel
example : wfDoc (fun _ _ => []) (exEnc false true (some [0x1010003, 0x7f010000])) exDoc = true := by decide +kernel
example : distinctAttrs exDoc := by simp only [exDoc, distinctAttrs, distinctAttrsL]; decide
example : AgVerif.Spec.AxmlTree.valueString (fun _ _ => []) 0x1C 0xFF00FF7F [] = lit "#FF00FF7F" := by decide
example : AgVerif.Spec.AxmlTree.valueString (fun _ _ => []) 0x01 0x01010003 [] = lit "@android:01010003" := by decide
example : AgVerif.Spec.AxmlTree.valueString (fun _ _ => []) 0x10 0xFFFFFFFF [] = lit "-1" := by
  rw [← attr_value_spec _ _ _ _ (by decide) (by decide)]; decide
example : AgVerif.Spec.AxmlTree.valueString (fun _ _ => []) 0x00 0x1F [] = lit "<0x1F, type 0x00>" := by
  rw [← attr_value_spec _ _ _ _ (by decide) (by decide)]; decide
example : Normal (treeOf (fun _ _ => []) exDoc) := by simp only [exDoc, treeOf, treeOfL, Normal, NormalL]; decide
example : printAxml (fun _ _ => []) (encodeAxml (exEnc true false none) exDoc) = .ok (true, some (treeOf (fun _ _ => []) exDoc)) :=
  axml_roundtrip _ _ _ (by decide +kernel) (by simp only [exDoc, treeOf, treeOfL, Normal, NormalL]; decide)
example : StrOk true [0x68, 0xE9, 0x20AC, 0x1F600] ∧ StrOk false [0x68, 0xE9, 0x20AC, 0x1F600, 0xFFFD, 0] := by decide
example : enc8 [0x68, 0xE9, 0x20AC, 0x1F600] = [0x68, 0xC3, 0xA9, 0xE2, 0x82, 0xAC, 0xF0, 0x9F, 0x98, 0x80] := by decide
example : (poolOf true false [[0x61], [], [0x1F600, 0x62]]).get 2 = .ok [0x1F600, 0x62] := by rfl

example : LegalName [0x5F, 0x61, 0x2D, 0x39, 0x2E] ∧ LegalName [0x69, 0x6E, 0x74, 0x65, 0x6E, 0x74] := by
  simp [LegalName, NameStart, NameChar]
example : LegalValue [0x61, 0x20, 0x09, 0x3C, 0xE9, 0x1F600] := by
  intro c hc; simp only [List.mem_cons, List.not_mem_nil, or_false] at hc
  unfold XmlChar; omega
example : ¬ LegalValue [0x61, 0, 0x62] := by
  intro h; have := h 0 (by simp); unfold XmlChar at this; omega
example : fixValue [0x61, 0, 0x62] = [0x61] ∧ fixValue [0x61, 1, 0x62] = [0x61, 0x5F, 0x62] := by decide
example : TextsOkL [.text (lit "hello"), .elem (lit "b") [] [] [.text (lit "x")], .text (lit "tail")] := by
  simp only [TextsOkL, TextsOk]; decide
example : Normal (.elem (lit "a") [] [] [.text (lit "hello"), .elem (lit "b") [] [] [], .text (lit "tail")]) := by
  simp only [Normal, NormalL]; decide
example : norm (.elem [0x61] [] [] [.text [0x68], .text [], .text [0x69], .elem [0x62] [] [] [], .text [0x6A]])
    = .elem [0x61] [] [] [.text [0x68, 0x69], .elem [0x62] [] [] [], .text [0x6A]] := by
  simp [norm, normL, pushKids, push1, addText]
example : decodeLength (len8Wide 300 ++ [7]) 0 false = .ok (300, 2) := by rfl
example : decodeLength (len16Wide 0x12345 ++ []) 0 true = .ok (0x12345, 4) := by rfl

end AgVerif.C26
