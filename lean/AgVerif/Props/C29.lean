/-
C29 — Resource resolution terminates on reference cycles.
Property theorems only (lemmas: AgVerif/Proof/Resolve.lean).

Model: AgVerif.Resolve — `resolveVF` is `ResourceResolver._resolve_into_result` with the
reference-path guard (fixes/C29-reference-cycle.diff), `resolveF` is the code as it was written
(fuel = Python stack, `none` = RecursionError).  Spec: AgVerif.Spec.Reach (`Reach`, `ReachVal`).
All theorems quantify over every table, every requested configuration, every id; reference
graphs may contain cycles of any length.
-/
import AgVerif.Proof.ResolveExact
import AgVerif.Gen.Resolver
namespace AgVerif.C29
open AgVerif.Resolve AgVerif.Spec.Reach

/-- Resolution with the guard terminates on every table: a nesting depth of
    `#ids + 1` calls of `_resolve_into_result` is always enough, and more stack never changes
    the result. -/
theorem resolveV_terminates (t : Table) (w : Option Config) (rid : ResId) :
    ∃ out, ∀ fuel, t.bound ≤ fuel → resolveVF t w fuel [] rid = some out := by
  obtain ⟨out, ho⟩ := resolveVF_terminates t w t.bound [] rid (by
    have := unvisited_le t []
    unfold Table.bound; omega)
  exact ⟨out, fun fuel hf => resolveVF_mono_le t w _ fuel hf [] rid out ho⟩

/-- `get_resolved_res_configs` of the guarded code never ends in RecursionError. -/
theorem resolveV_never_recursion (t : Table) (w : Option Config) (rid : ResId) :
    resolveV t w rid ≠ .recursion := by
  obtain ⟨out, ho⟩ := resolveV_terminates t w rid
  unfold resolveV
  split
  · simp
  · rw [ho t.bound (Nat.le_refl _)]; simp

/-- The concrete values returned are exactly the concrete values reachable from the id
    (for every table, cyclic or not). -/
theorem resolveV_eq_reach (t : Table) (w : Option Config) (rid : ResId) (fuel : Nat)
    (out : List Tok) (h : resolveVF t w fuel [] rid = some out) (tok : Tok)
    (hv : tok.isValue = true) : tok ∈ out ↔ ReachVal t w rid tok := by
  constructor
  · exact resolveVF_sound t w fuel [] rid out h tok hv
  · rintro ⟨r, hr, hd⟩
    exact resolveVF_complete t w fuel [] rid out h r tok (reach_iff_avoid_nil.mp hr) hd

/-- Scope of `resolveV_eq_reach`: it speaks about the SET of concrete value tokens of the result
    (`pair config text`, `bare text`); the order of the list, the multiplicity of a value reached
    along several reference paths, and the bracket tokens `opn`/`cls` are not constrained by it
    ("returns the concrete values reachable").  The list itself is pinned down exactly in two ways:
    `resolve_eq_resolveV_of_returns` (token for token what the code as written returned) and the
    following theorem: when none of the entries selected for the id holds a reference, the result
    is exactly the stored values of the selected configurations, in order, one element per entry —
    `(config, text)` for a simple entry, `(config, [texts…])` for a complex one. -/
theorem resolveV_exact_without_references (t : Table) (w : Option Config) (rid : ResId) (hr : rid ≠ 0)
    (h : ∀ p ∈ getResConfigs t rid w, refFree p.2 = true) :
    resolveV t w rid = .ok ((getResConfigs t rid w).flatMap fun p => tokE p.1 p.2) :=
  resolveV_refFree t w rid hr h

/-- The same at the level of `get_resolved_res_configs`. -/
theorem resolveV_top_eq_reach (t : Table) (w : Option Config) (rid : ResId) (hr : rid ≠ 0) :
    ∃ out, resolveV t w rid = .ok out ∧
      ∀ tok, tok.isValue = true → (tok ∈ out ↔ ReachVal t w rid tok) := by
  obtain ⟨out, ho⟩ := resolveV_terminates t w rid
  have h := ho t.bound (Nat.le_refl _)
  refine ⟨out, ?_, fun tok hv => resolveV_eq_reach t w rid t.bound out h tok hv⟩
  unfold resolveV
  rw [if_neg hr, h]

/-- The guard changes nothing where the code as written returned: same list, token for token. -/
theorem resolve_eq_resolveV_of_returns (t : Table) (w : Option Config) (rid : ResId) (fuel : Nat)
    (out : List Tok) (h : resolveF t w fuel rid = some out) :
    resolveVF t w fuel [] rid = some out :=
  resolveF_eq_resolveVF t w fuel [] rid out h (by simp)

/-- Whenever the code as written returns, it returns exactly the reachable concrete values. -/
theorem resolve_eq_reach_of_returns (t : Table) (w : Option Config) (rid : ResId) (fuel : Nat)
    (out : List Tok) (h : resolveF t w fuel rid = some out) (tok : Tok)
    (hv : tok.isValue = true) : tok ∈ out ↔ ReachVal t w rid tok :=
  resolveV_eq_reach t w rid fuel out (resolve_eq_resolveV_of_returns t w rid fuel out h) tok hv

/-- What the guard prevents, any cycle length: a resource with a followed reference that
    leads back to it is never resolved by the code as written, whatever the stack size. -/
theorem resolve_diverges_on_cycle (t : Table) (w : Option Config) (a b : ResId)
    (hab : b ∈ refsOf t w a) (hba : Reach t w b a) (fuel : Nat) :
    resolveF t w fuel a = none :=
  resolveF_diverges t w fuel a ⟨b, hab, hba⟩

/-- … and so is every resource from which such a cycle is reachable. -/
theorem resolve_diverges_into_cycle (t : Table) (w : Option Config) (r a b : ResId)
    (hra : Reach t w r a) (hab : b ∈ refsOf t w a) (hba : Reach t w b a) (fuel : Nat) :
    resolveF t w fuel r = none := by
  induction hra generalizing fuel with
  | refl a => exact resolve_diverges_on_cycle t w a b hab hba fuel
  | @step x y z hxy _ ih =>
    cases fuel with
    | zero => rfl
    | succ f =>
      rw [resolveF_succ]
      cases hl : level t w (resolveF t w f) x with
      | none => rfl
      | some out =>
        obtain ⟨l, hl'⟩ := level_rec_some t w _ x out hl y hxy
        rw [ih hab hba f] at hl'
        cases hl'

/-- The 2-cycle `A → B → A` (the shape of defect D14): RecursionError for every stack size. -/
theorem resolve_diverges_on_2cycle (t : Table) (w : Option Config) (a b : ResId)
    (hab : b ∈ refsOf t w a) (hba : a ∈ refsOf t w b) (fuel : Nat) :
    resolveOld t w fuel a = .recursion ∧ resolveOld t w fuel b = .recursion := by
  have ha0 : a ≠ 0 := by
    obtain ⟨_, _, _, h0, _⟩ := mem_refsOf.mp hba; exact h0
  have hb0 : b ≠ 0 := by
    obtain ⟨_, _, _, h0, _⟩ := mem_refsOf.mp hab; exact h0
  have h1 := resolve_diverges_on_cycle t w a b hab (Reach.step hba (Reach.refl a)) fuel
  have h2 := resolve_diverges_on_cycle t w b a hba (Reach.step hab (Reach.refl b)) fuel
  simp [resolveOld, ha0, hb0, h1, h2]

/-- If the code as written returns, no reference cycle is reachable from the id. -/
theorem resolve_returns_imp_acyclic (t : Table) (w : Option Config) (rid : ResId) (fuel : Nat)
    (out : List Tok) (h : resolveF t w fuel rid = some out) : AcyclicFrom t w rid := by
  intro a b hra hab hba
  rw [resolve_diverges_into_cycle t w rid a b hra hab hba fuel] at h
  cases h

/-- The model threads the reference path through each resolution as an argument that starts
    empty (`resolveV` calls `resolveVF … []`).  That is the code's behaviour only if the path
    container `_resolving` is created per resolver instance in `__init__`, a fresh resolver is
    built for every `get_resolved_res_configs`, the container is pushed/popped with try/finally
    around the body of `_resolve_into_result`, the guard is `res_id in self._resolving` before the
    push, the id pushed is the id being resolved and the recursion re-enters the same instance.
    `Gen.Resolver.shape` is extracted from the repository source on every run (gen/resolver.py). -/
theorem resolver_state_is_per_call :
    AgVerif.Gen.Resolver.shape = ⟨.instance, .tryFinally, .memberBeforePush, true, true, true⟩ := by
  decide

/-- Why the previous theorem matters: a resolution that starts with a foreign id on its path
    (state shared with another resolution in progress) silently loses reachable values. -/
theorem foreign_path_drops_values :
    ∃ (t : Table) (vis : List ResId) (rid : ResId) (tok : Tok) (out : List Tok),
      ReachVal t none rid tok ∧ resolveVF t none t.bound vis rid = some out ∧ tok ∉ out := by
  refine ⟨⟨[(1, [(0, .simple (.ref 2)), (3, .simple (.lit "a"))]), (2, [(0, .simple (.ref 3))]),
            (3, [(5, .simple (.lit "z"))])]⟩, [2], 1, .pair 5 "z", [.pair 3 "a"], ?_, by decide, by decide⟩
  exact ⟨3, Reach.step (b := 2) (by decide) (Reach.step (b := 3) (by decide) (Reach.refl 3)), by decide⟩

/-! ### non-vacuity: concrete tables -/

/-- `1 → 2 → 1` (simple entries), `2` also holds a complex entry with a literal and a reference back. -/
def cyc2 : Table := ⟨[(1, [(0, .simple (.ref 2))]),
                      (2, [(0, .complex [.lit "x", .ref 1]), (7, .simple (.lit "y"))])]⟩

example : resolveV cyc2 none 1 = .ok [.opn 0, .bare "x", .cls, .pair 7 "y"] := by decide
example : 2 ∈ refsOf cyc2 none 1 ∧ 1 ∈ refsOf cyc2 none 2 := by decide
example : resolveOld cyc2 none 6 1 = .recursion := by decide
/-- an acyclic chain: both algorithms agree -/
def chain : Table := ⟨[(1, [(0, .simple (.ref 2)), (3, .simple (.lit "a"))]),
                       (2, [(0, .simple (.ref 3))]), (3, [(5, .simple (.lit "z"))])]⟩
example : resolveF chain none 4 1 = some [.pair 5 "z", .pair 3 "a"] := by decide
example : resolveV chain none 1 = .ok [.pair 5 "z", .pair 3 "a"] := by decide
example : resolveV chain (some 3) 1 = .ok [.pair 3 "a"] := by decide
example : resolveV chain none 0 = .valueError := by decide
example : ∀ p ∈ getResConfigs chain 3 none, refFree p.2 = true := by decide
example : resolveV chain none 3 = .ok [.pair 5 "z"] := resolveV_exact_without_references chain none 3 (by decide) (by decide)

end AgVerif.C29
