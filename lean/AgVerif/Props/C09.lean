/-
C09 — Corrupted or non-DEX input is rejected at the header.
Property theorems only (helper lemmas live in AgVerif/Proof/Header.lean).

Model: AgVerif.Header (`headerCheck` = the raising statements of `HeaderItem.__init__` in the order
generated from the source, `adler32` = zlib.adler32, `load` = DEX._load).
Constants, comparison operators, field offsets and the order of the guards come from
AgVerif.Gen.Header, regenerated from androguard on every run; the statements below use the
literal values of the DEX format document (AgVerif.Spec.Header), so a changed constant, operator,
offset or a dropped guard in the code makes a theorem fail.
All theorems quantify over every byte list (any length) / every position / every byte value.
-/
import AgVerif.Proof.Header
import AgVerif.Spec.Header
namespace AgVerif.C09
open AgVerif.Header AgVerif.Gen.Header

/-- bytes -/
def Bytes (f : List Nat) : Prop := ∀ x ∈ f, x < 256

/-- `Spec.Header.field` (format document) and the model's field read are the same function. -/
theorem field_eq_spec (f : List Nat) (off : Nat) : u32At f off = Spec.Header.field f off := by
  unfold u32At Spec.Header.field le32
  rcases h : f.drop off with _ | ⟨a, _ | ⟨b, _ | ⟨c, _ | ⟨d, rest⟩⟩⟩⟩ <;>
  · have h0 := congrArg (·[0]?) h
    have h1 := congrArg (·[1]?) h
    have h2 := congrArg (·[2]?) h
    have h3 := congrArg (·[3]?) h
    simp only [List.getElem?_drop] at h0 h1 h2 h3
    simp at h0 h1 h2 h3
    simp [h0, h1, h2, h3]

/-- The modelled `zlib.adler32` is the Adler-32 of RFC 1950 (closed form), for every byte list. -/
theorem adler32_eq_spec (bs : List Nat) : adler32 bs = Spec.Header.adler32 bs :=
  adler32_closed_form bs

/-- Changing one byte of a byte list of ANY length changes its Adler-32. -/
theorem adler_single_byte (bs : List Nat) (i : Nat) (h : i < bs.length) (b' : Nat)
    (hb : bs[i] < 256) (hb' : b' < 256) (hne : b' ≠ bs[i]) :
    adler32 (bs.set i b') ≠ adler32 bs :=
  adler32_set_ne bs i h b' hb hb' hne

/-- An accepted file in which any single byte at an offset ≥ 12 (signature, sizes, offsets, every
    byte of the body) is replaced by any other byte value is rejected. -/
theorem any_single_byte_after_checksum_rejected (f : List Nat) (i b' : Nat)
    (hok : headerCheck f = .ok ()) (hi : 12 ≤ i) (hlen : i < f.length)
    (hb : f[i] < 256) (hb' : b' < 256) (hne : b' ≠ f[i]) :
    ∃ e, headerCheck (f.set i b') = .error e := by
  apply runAll_error_of_mem _ _ .checksum (all_checks_run _)
  have hc := (checksum_ok_iff f).1 ((runAll_ok_iff f checkOrder).1 hok _ (all_checks_run .checksum))
  rw [ne_eq, checksum_ok_iff, u32At_set_of_not_mem f 8 i b' (Or.inr hi), hc]
  have hd : (f.set i b').drop 12 = (f.drop 12).set (i - 12) b' := by
    rw [List.drop_set]; simp; omega
  rw [hd]
  intro heq
  have hlen' : i - 12 < (f.drop 12).length := by simp; omega
  have hget : (f.drop 12)[i - 12] = f[i] := by
    rw [List.getElem_drop]; congr 1; omega
  exact adler32_set_ne (f.drop 12) (i - 12) hlen' b' (by rw [hget]; exact hb) hb'
    (by rw [hget]; exact hne) (Option.some.inj heq).symm

/-- The same for the four bytes of the checksum field itself (offsets 8..11). -/
theorem checksum_field_byte_rejected (f : List Nat) (i b' : Nat)
    (hok : headerCheck f = .ok ()) (hf : Bytes f) (hi : 8 ≤ i) (hi' : i < 12)
    (hlen : i < f.length) (hne : b' ≠ f[i]) :
    ∃ e, headerCheck (f.set i b') = .error e := by
  apply runAll_error_of_mem _ _ .checksum (all_checks_run _)
  have hc := (checksum_ok_iff f).1 ((runAll_ok_iff f checkOrder).1 hok _ (all_checks_run .checksum))
  rw [ne_eq, checksum_ok_iff, List.drop_set_of_lt (by omega)]
  obtain ⟨b0, b1, b2, b3, e0, e1, e2, e3, hv⟩ := u32At_eq_some f 8 _ hc
  have m0 : b0 < 256 := hf b0 (List.mem_of_getElem? e0)
  have m1 : b1 < 256 := hf b1 (List.mem_of_getElem? e1)
  have m2 : b2 < 256 := hf b2 (List.mem_of_getElem? e2)
  have m3 : b3 < 256 := hf b3 (List.mem_of_getElem? e3)
  have hfi : f[i]? = some f[i] := List.getElem?_eq_getElem hlen
  intro heq
  rw [hv] at heq
  have hcases : i = 8 ∨ i = 9 ∨ i = 10 ∨ i = 11 := by omega
  rcases hcases with rfl | rfl | rfl | rfl
  all_goals
    simp only [u32At, List.getElem?_set, e0, e1, e2, e3] at heq
    simp (config := { decide := true }) [hlen] at heq hfi
    simp only [le32] at heq
    simp_all <;> omega

/-- Shorter than a header: `ValueError("… Header too small.")`, the first guard. -/
theorem too_short_rejected (f : List Nat) (h : f.length < 112) :
    headerCheck f = .error .tooShort :=
  runAll_first_error f [] _ .size _ (by simp) (size_error f h)

/-- A byte-swapped endian tag is reported as not implemented — before the magic is looked at. -/
theorem swapped_endian_rejected (f : List Nat) (hl : 112 ≤ f.length)
    (h : Spec.Header.field f Spec.Header.endianTagOff = some Spec.Header.reverseEndianConstant) :
    headerCheck f = .error .endianSwapped := by
  rw [← field_eq_spec] at h
  exact runAll_first_error f [.size] _ .endian _ (by simp [size_ok_iff, hl]) (endian_swapped f h)

/-- Any endian tag other than ENDIAN_CONSTANT is rejected, whatever the rest of the buffer is. -/
theorem bad_endian_rejected (f : List Nat)
    (h : Spec.Header.field f Spec.Header.endianTagOff ≠ some Spec.Header.endianConstant) :
    ∃ e, headerCheck f = .error e := by
  rw [← field_eq_spec] at h
  exact runAll_error_of_mem _ _ .endian (all_checks_run _) (by rw [ne_eq, endian_ok_iff]; exact h)

/-- … and with the error of `DalvikPacker` when the buffer is long enough. -/
theorem bad_endian_error (f : List Nat) (hl : 112 ≤ f.length) (tag : Nat)
    (h : Spec.Header.field f Spec.Header.endianTagOff = some tag)
    (h1 : tag ≠ Spec.Header.reverseEndianConstant) (h2 : tag ≠ Spec.Header.endianConstant) :
    headerCheck f = .error .badEndian := by
  rw [← field_eq_spec] at h
  exact runAll_first_error f [.size] _ .endian _ (by simp [size_ok_iff, hl]) (endian_other f tag h h1 h2)

/-- A wrong magic (`de`, `x|y`, `\n`, final `\0`) is rejected, whatever the rest of the buffer is. -/
theorem bad_magic_rejected (f : List Nat) (h : ¬ Spec.Header.MagicOK f) :
    ∃ e, headerCheck f = .error e :=
  runAll_error_of_mem _ _ .magic (all_checks_run _) (by rw [ne_eq, magic_ok_iff]; exact h)

/-- … with "Wrong magic" when the buffer is long enough and little-endian, before the checksum
    is computed. -/
theorem bad_magic_error (f : List Nat) (hl : 112 ≤ f.length)
    (he : Spec.Header.field f Spec.Header.endianTagOff = some Spec.Header.endianConstant)
    (h : ¬ Spec.Header.MagicOK f) : headerCheck f = .error .badMagic := by
  rw [← field_eq_spec] at he
  apply runAll_first_error f [.size, .endian, .unpack] _ .magic
  · intro d hd
    simp only [List.mem_cons, List.not_mem_nil, or_false] at hd
    rcases hd with rfl | rfl | rfl
    · exact (size_ok_iff f).2 hl
    · exact (endian_ok_iff f).2 he
    · exact (unpack_ok_iff f).2 hl
  · have hm : runCheck f .magic ≠ .ok () := by rw [ne_eq, magic_ok_iff]; exact h
    simp only [runCheck] at hm ⊢
    split <;> simp_all

/-- A stored checksum that is not the Adler-32 of `buf[12:]` is rejected. -/
theorem bad_checksum_rejected (f : List Nat)
    (h : Spec.Header.field f Spec.Header.checksumOff
          ≠ some (Spec.Header.adler32 (f.drop Spec.Header.checksummedFrom))) :
    ∃ e, headerCheck f = .error e := by
  rw [← field_eq_spec, ← adler32_eq_spec] at h
  exact runAll_error_of_mem _ _ .checksum (all_checks_run _) (by rw [ne_eq, checksum_ok_iff]; exact h)

/-- A header size other than 0x70 is rejected. -/
theorem bad_header_size_rejected (f : List Nat)
    (h : Spec.Header.field f Spec.Header.headerSizeOff ≠ some Spec.Header.headerSize) :
    ∃ e, headerCheck f = .error e := by
  rw [← field_eq_spec] at h
  exact runAll_error_of_mem _ _ .headerSize (all_checks_run _) (by rw [ne_eq, headerSize_ok_iff]; exact h)

/-- … with "Wrong Adler32 checksum" when the guards before it pass. -/
theorem bad_checksum_error (f : List Nat) (hl : 112 ≤ f.length)
    (he : Spec.Header.field f Spec.Header.endianTagOff = some Spec.Header.endianConstant)
    (hm : Spec.Header.MagicOK f) (c : Nat)
    (hc : Spec.Header.field f Spec.Header.checksumOff = some c)
    (hne : c ≠ Spec.Header.adler32 (f.drop Spec.Header.checksummedFrom)) :
    headerCheck f = .error .badChecksum := by
  rw [← field_eq_spec] at he hc
  rw [← adler32_eq_spec] at hne
  apply runAll_first_error f [.size, .endian, .unpack, .magic] _ .checksum
  · intro d hd
    simp only [List.mem_cons, List.not_mem_nil, or_false] at hd
    rcases hd with rfl | rfl | rfl | rfl
    · exact (size_ok_iff f).2 hl
    · exact (endian_ok_iff f).2 he
    · exact (unpack_ok_iff f).2 hl
    · exact (magic_ok_iff f).2 hm
  · exact checksum_error f c hc hne

/-- … with "Wrong header size" when the guards before it (checksum included) pass. -/
theorem bad_header_size_error (f : List Nat) (hl : 112 ≤ f.length)
    (he : Spec.Header.field f Spec.Header.endianTagOff = some Spec.Header.endianConstant)
    (hm : Spec.Header.MagicOK f)
    (hc : Spec.Header.field f Spec.Header.checksumOff
            = some (Spec.Header.adler32 (f.drop Spec.Header.checksummedFrom)))
    (v : Nat) (hv : Spec.Header.field f Spec.Header.headerSizeOff = some v)
    (hne : v ≠ Spec.Header.headerSize) :
    headerCheck f = .error .badHeaderSize := by
  rw [← field_eq_spec] at he hc hv
  rw [← adler32_eq_spec] at hc
  apply runAll_first_error f [.size, .endian, .unpack, .magic, .checksum] _ .headerSize
  · intro d hd
    simp only [List.mem_cons, List.not_mem_nil, or_false] at hd
    rcases hd with rfl | rfl | rfl | rfl | rfl
    · exact (size_ok_iff f).2 hl
    · exact (endian_ok_iff f).2 he
    · exact (unpack_ok_iff f).2 hl
    · exact (magic_ok_iff f).2 hm
    · exact (checksum_ok_iff f).2 hc
  · exact headerSize_error f v hv hne

/-- The three version bytes of the magic (offsets 4..6) are not decisive: changing them never
    changes the verdict (androguard only logs a warning). -/
theorem version_bytes_not_decisive (f : List Nat) (i b : Nat) (hi : 4 ≤ i) (hi' : i ≤ 6) :
    headerCheck (f.set i b) = headerCheck f := by
  have key : ∀ c, runCheck (f.set i b) c = runCheck f c := by
    intro c
    cases c
    · simp [runCheck]
    · simp only [runCheck]; rw [u32At_set_of_not_mem f endianOff i b (by simp [endianOff]; omega)]
    · simp [runCheck]
    · have e1 : ∀ j, j ≠ i → (f.set i b)[j]? = f[j]? := fun j hj => List.getElem?_set_ne (Ne.symm hj)
      have h1 := magic_ok_iff (f.set i b)
      have h2 := magic_ok_iff f
      rw [e1 0 (by omega), e1 1 (by omega), e1 2 (by omega), e1 3 (by omega), e1 7 (by omega)] at h1
      have : runCheck (f.set i b) .magic = .ok () ↔ runCheck f .magic = .ok () := h1.trans h2.symm
      revert this
      simp only [runCheck]
      split <;> split <;> simp_all
    · simp only [runCheck]
      rw [u32At_set_of_not_mem f checksumOff i b (by simp [checksumOff]; omega),
        List.drop_set_of_lt (by simp [checksumStart]; omega)]
    · simp only [runCheck, fieldGuard]
      rw [u32At_set_of_not_mem f headerSizeOff i b (by simp [headerSizeOff]; omega)]
    · simp only [runCheck, fieldGuard]
      rw [u32At_set_of_not_mem f typeIdsOff i b (by simp [typeIdsOff]; omega)]
    · simp only [runCheck, fieldGuard]
      rw [u32At_set_of_not_mem f protoIdsOff i b (by simp [protoIdsOff]; omega)]
  unfold headerCheck
  generalize checkOrder = cs
  induction cs with
  | nil => rfl
  | cons c cs ih => simp only [runAll, key c, ih]

/-- Characterisation of the accepted headers: exactly the buffers of at least 112 bytes with
    ENDIAN_CONSTANT, the magic, the Adler-32 of everything after the checksum field, header size
    0x70 and at most 65535 type and proto ids.  (The version digits, `file_size`, the SHA-1
    signature and `data_size` are not decisive in androguard.)
    Offsets, ENDIAN_CONSTANT, header size and the Adler-32 are the format document's; the magic
    predicate `Spec.Header.MagicOK` is what the CODE accepts, wider than the document (`dey\n`
    and any three version bytes are admitted) — see its doc comment. -/
theorem accepted_iff (f : List Nat) :
    headerCheck f = .ok () ↔
      (112 ≤ f.length
        ∧ Spec.Header.field f Spec.Header.endianTagOff = some Spec.Header.endianConstant
        ∧ Spec.Header.MagicOK f
        ∧ Spec.Header.field f Spec.Header.checksumOff
            = some (Spec.Header.adler32 (f.drop Spec.Header.checksummedFrom))
        ∧ Spec.Header.field f Spec.Header.headerSizeOff = some Spec.Header.headerSize
        ∧ (∃ v, Spec.Header.field f Spec.Header.typeIdsSizeOff = some v ∧ v ≤ Spec.Header.maxTypeIds)
        ∧ (∃ v, Spec.Header.field f Spec.Header.protoIdsSizeOff = some v ∧ v ≤ Spec.Header.maxProtoIds)) := by
  simp only [← field_eq_spec, ← adler32_eq_spec]
  unfold headerCheck
  rw [runAll_ok_iff]
  constructor
  · intro h
    exact ⟨(size_ok_iff f).1 (h _ (all_checks_run _)), (endian_ok_iff f).1 (h _ (all_checks_run _)),
      (magic_ok_iff f).1 (h _ (all_checks_run _)), (checksum_ok_iff f).1 (h _ (all_checks_run _)),
      (headerSize_ok_iff f).1 (h _ (all_checks_run _)), (typeIds_ok_iff f).1 (h _ (all_checks_run _)),
      (protoIds_ok_iff f).1 (h _ (all_checks_run _))⟩
  · rintro ⟨h1, h2, h3, h4, h5, h6, h7⟩ c _
    cases c
    · exact (size_ok_iff f).2 h1
    · exact (endian_ok_iff f).2 h2
    · exact (unpack_ok_iff f).2 h1
    · exact (magic_ok_iff f).2 h3
    · exact (checksum_ok_iff f).2 h4
    · exact (headerSize_ok_iff f).2 h5
    · exact (typeIds_ok_iff f).2 h6
    · exact (protoIds_ok_iff f).2 h7

/-- DEFINITIONAL: this restates the model's definition of `load` (`simp [load]`): in the MODEL the
    header error is returned whatever the rest of the parser would do.  It carries no weight of its
    own for "before any structure is parsed": that the REAL `DEX._load` constructs nothing before
    the header error rests on the tie — the correspondence of `DEX(...)` with the model and the
    oracle's MapList spy + traceback check on every searched input — not on a theorem. -/
theorem rejected_before_parse {α : Type} (parse parse' : List Nat → Except Err α) (f : List Nat)
    (e : Err) (h : headerCheck f = .error e) :
    load parse f = .error e ∧ load parse f = load parse' f := by
  simp [load, h]

/-- … and an accepted header hands exactly the same bytes to the parser. -/
theorem accepted_then_parse {α : Type} (parse : List Nat → Except Err α) (f : List Nat)
    (h : headerCheck f = .ok ()) : load parse f = parse f := by
  simp [load, h]

/-! ### non-vacuity: a concrete header satisfies the hypotheses -/

/-- the 112-byte "very basic dex file (without a map)" of tests/test_dex.py::testBrokenDex -/
def basicDex : List Nat :=
  [0x64,0x65,0x78,0x0A,0x30,0x33,0x35,0x00,0x46,0x0A,0x48,0x82,0x69,0x6E,0x76,0x61,
   0x6C,0x69,0x64,0x69,0x6E,0x76,0x61,0x6C,0x69,0x64,0x69,0x6E,0x76,0x61,0x6C,0x69,
   0x70,0x00,0x00,0x00,0x70,0x00,0x00,0x00,0x78,0x56,0x34,0x12] ++ List.replicate 68 0

example : headerCheck basicDex = .ok () := by decide +kernel
example : basicDex.length = 112 ∧ Bytes basicDex := by unfold Bytes; decide +kernel
-- any_single_byte_after_checksum_rejected / checksum_field_byte_rejected apply to it:
example : ∃ e, headerCheck (basicDex.set 57 0xAB) = .error e :=
  any_single_byte_after_checksum_rejected basicDex 57 0xAB (by decide +kernel) (by decide +kernel) (by decide +kernel)
    (by decide +kernel) (by decide +kernel) (by decide +kernel)
example : headerCheck (basicDex.set 57 0xAB) = .error .badChecksum := by decide +kernel
example : headerCheck (basicDex.set 9 0x0B) = .error .badChecksum := by decide +kernel
example : headerCheck (basicDex.set 41 0x57) = .error .badEndian := by decide +kernel
example : headerCheck (basicDex.set 2 0x7A) = .error .badMagic := by decide +kernel
example : headerCheck (basicDex.set 2 0x79) = .ok () := by decide +kernel      -- "dey\n": accepted
example : headerCheck (basicDex.set 5 0xFF) = .ok () := by decide +kernel      -- version digits: only a warning
example : headerCheck (basicDex.take 111) = .error .tooShort := by decide +kernel
example : ¬ Spec.Header.MagicOK (basicDex.set 3 0x0B) := by decide +kernel
example : adler32 [0x57, 0x69, 0x6b, 0x69, 0x70, 0x65, 0x64, 0x69, 0x61] = 0x11E60398 := by decide +kernel

end AgVerif.C09
