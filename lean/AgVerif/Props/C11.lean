/-
C11 — The control-flow graph has exactly the successors the bytecode allows.
Property theorems only (lemmas: AgVerif/Proof/Cfg.lean, AgVerif/Proof/CfgSpec.lean, AgVerif/Proof/CfgSucc.lean).

Model: AgVerif.Cfg (`determineNext`, `DEXBasicBlock.set_childs` / `set_fathers`,
`BasicBlocks.get_basic_block`).  Spec: AgVerif.Spec.Cfg.succ — the five cases of the Dalvik document
(return/throw: none; goto: the target; if: fall-through and target; switch: fall-through and every
case target of the payload at the encoded offset; anything else: the next instruction).
Hypotheses are the verifier's: every instruction has ≥ 1 code unit (`MinLen`), targets inside the
method are instruction offsets (`WFTargets`), switch payloads are 4-byte aligned (`Aligned`).
All theorems hold for every instruction stream and try table, of any length.
-/
import AgVerif.Proof.CfgSucc
namespace AgVerif.C11
open AgVerif.Cfg AgVerif.Spec.Cfg AgVerif.Gen.CfgOps

/-- Successors of a block = in-method targets of its last instruction, as sets of block start
    offsets: a block starting at `s` is a child of `b` iff `s` is one of the offsets the
    specification lists for `b`'s last instruction and lies inside the method.  Duplicates (both
    sides of an `if` coincide, repeated case targets) only repeat entries. -/
theorem succ_spec {m : List Ins} {ex : List Exc} (hm : MinLen m) (hwf : WFTargets m ex) (hal : Aligned m)
    {b : Block} (hb : b ∈ blocks m ex) {i : Ins} (hl : b.insns.getLast? = some i) (s : Nat) :
    s ∈ (childs m (blocks m ex) b).map (·.2.2) ↔
      ((s : Int) ∈ succ i.op b.lastIdx i.len i.refOff (rawTargets m ((b.lastIdx : Int) + 2 * i.refOff))
        ∧ s < lenSum m) :=
  childs_spec hm hwf hal hb hl s

/-- Case return / throw: no successors. -/
theorem succ_exit {m : List Ins} {ex : List Exc} (hm : MinLen m) (hwf : WFTargets m ex) (hal : Aligned m)
    {b : Block} (hb : b ∈ blocks m ex) {i : Ins} (hl : b.insns.getLast? = some i)
    (hf : flowOf i.op = Flow.exit) (s : Nat) : s ∉ (childs m (blocks m ex) b).map (·.2.2) := by
  rw [succ_spec hm hwf hal hb hl]; simp [succ, hf]

/-- Case goto: the block at the target (if inside the method). -/
theorem succ_goto {m : List Ins} {ex : List Exc} (hm : MinLen m) (hwf : WFTargets m ex) (hal : Aligned m)
    {b : Block} (hb : b ∈ blocks m ex) {i : Ins} (hl : b.insns.getLast? = some i)
    (hf : flowOf i.op = Flow.goto) (s : Nat) :
    s ∈ (childs m (blocks m ex) b).map (·.2.2) ↔
      ((s : Int) = (b.lastIdx : Int) + 2 * i.refOff ∧ s < lenSum m) := by
  rw [succ_spec hm hwf hal hb hl]; simp [succ, hf]

/-- Case if: the next block and the block at the target. -/
theorem succ_cond {m : List Ins} {ex : List Exc} (hm : MinLen m) (hwf : WFTargets m ex) (hal : Aligned m)
    {b : Block} (hb : b ∈ blocks m ex) {i : Ins} (hl : b.insns.getLast? = some i)
    (hf : flowOf i.op = Flow.cond) (s : Nat) :
    s ∈ (childs m (blocks m ex) b).map (·.2.2) ↔
      (((s : Int) = ((b.lastIdx + i.len : Nat) : Int) ∨ (s : Int) = (b.lastIdx : Int) + 2 * i.refOff)
        ∧ s < lenSum m) := by
  rw [succ_spec hm hwf hal hb hl]; simp [succ, hf]

/-- Case switch: the next block and the block at every case target of the payload. -/
theorem succ_switch {m : List Ins} {ex : List Exc} (hm : MinLen m) (hwf : WFTargets m ex) (hal : Aligned m)
    {b : Block} (hb : b ∈ blocks m ex) {i : Ins} (hl : b.insns.getLast? = some i)
    (hf : flowOf i.op = Flow.switch) (s : Nat) :
    s ∈ (childs m (blocks m ex) b).map (·.2.2) ↔
      (((s : Int) = ((b.lastIdx + i.len : Nat) : Int) ∨
        ∃ t ∈ rawTargets m ((b.lastIdx : Int) + 2 * i.refOff), (s : Int) = (b.lastIdx : Int) + 2 * t)
        ∧ s < lenSum m) := by
  rw [succ_spec hm hwf hal hb hl]
  simp only [succ, hf, List.mem_cons, List.mem_map]
  constructor
  · rintro ⟨h | ⟨t, ht, he⟩, h2⟩
    · exact ⟨Or.inl h, h2⟩
    · exact ⟨Or.inr ⟨t, ht, he.symm⟩, h2⟩
  · rintro ⟨h | ⟨t, ht, he⟩, h2⟩
    · exact ⟨Or.inl h, h2⟩
    · exact ⟨Or.inr ⟨t, ht, he.symm⟩, h2⟩

/-- Case switch with the payload stated on the SPECIFICATION side: if every switch instruction's
    encoded offset is the offset at which the disassembly reports a switch payload
    (`SwitchesHavePayload`, stated with `Spec.Cfg.InsnAt` only — no lookup function and no "none ↦ no
    targets" default), then that payload `d` exists and the children of the switch block are exactly
    the next block and the blocks at `idx + 2·c` for the case targets `c` of `d`. -/
theorem succ_switch_payload {m : List Ins} {ex : List Exc} (hm : MinLen m) (hwf : WFTargets m ex)
    (hal : Aligned m) (hsp : SwitchesHavePayload m)
    {b : Block} (hb : b ∈ blocks m ex) {i : Ins} (hl : b.insns.getLast? = some i)
    (hf : flowOf i.op = Flow.switch) :
    ∃ d, PayloadAt m ((b.lastIdx : Int) + 2 * i.refOff) d ∧ ∀ s : Nat,
      (s ∈ (childs m (blocks m ex) b).map (·.2.2) ↔
        (((s : Int) = ((b.lastIdx + i.len : Nat) : Int) ∨
          ∃ t ∈ d.targets, (s : Int) = (b.lastIdx : Int) + 2 * t) ∧ s < lenSum m)) := by
  obtain ⟨d, hd⟩ := hsp (b.lastIdx, i) (last_mem_withOff hb hl) hf
  refine ⟨d, hd, fun s => ?_⟩
  rw [succ_switch hm hwf hal hb hl hf, rawTargets_of_payloadAt hm hd]

/-- Case fall-through: the next block. -/
theorem succ_fall {m : List Ins} {ex : List Exc} (hm : MinLen m) (hwf : WFTargets m ex) (hal : Aligned m)
    {b : Block} (hb : b ∈ blocks m ex) {i : Ins} (hl : b.insns.getLast? = some i)
    (hf : flowOf i.op = Flow.fall) (s : Nat) :
    s ∈ (childs m (blocks m ex) b).map (·.2.2) ↔ (s = b.stop ∧ s < lenSum m) := by
  rw [succ_spec hm hwf hal hb hl]
  have := lastIdx_add_len hl
  simp [succ, hf]; omega

/-- Every child entry is `(offset of the block's last instruction, target, block)` where the block
    is one of the method's and contains the target byte (for a fall-through, the byte after the
    recorded target `b.end`, as `set_childs` looks up `end + 1`). -/
theorem childs_sound {m : List Ins} {ex : List Exc} {b : Block} {c : Nat × Int × Nat}
    (hc : c ∈ childs m (blocks m ex) b) :
    c.1 = b.lastIdx ∧ ∃ nb ∈ blocks m ex, nb.start = c.2.2 ∧
      (((nb.start : Int) ≤ c.2.1 ∧ c.2.1 < (nb.stop : Int)) ∨
       (c.2.1 = (b.stop : Int) ∧ (nb.start : Int) ≤ c.2.1 + 1 ∧ c.2.1 + 1 < (nb.stop : Int))) :=
  childs_entry hc

/-- The predecessor lists are the inverse of the successor lists: `(target, source, f)` is recorded
    on block `c` iff the block starting at `f` has the child entry `(source, target, c)`. -/
theorem fathers_inverse (m : List Ins) (bs : List Block) (c : Block) (d : Int) (s f : Nat) :
    (d, s, f) ∈ fathers m bs c ↔ ∃ b ∈ bs, b.start = f ∧ (s, d, c.start) ∈ childs m bs b := by
  unfold fathers
  simp only [List.mem_flatMap, List.mem_filterMap]
  constructor
  · rintro ⟨b, hb, ch, hch, hv⟩
    split at hv
    · rename_i heq
      simp only [Option.some.injEq, Prod.mk.injEq] at hv
      obtain ⟨h1, h2, h3⟩ := hv
      refine ⟨b, hb, h3, ?_⟩
      have : ch = (s, d, c.start) := by
        rcases ch with ⟨a, b', c'⟩; simp at h1 h2 heq; simp [h1, h2, heq]
      rw [← this]; exact hch
    · simp at hv
  · rintro ⟨b, hb, hf, hch⟩
    exact ⟨b, hb, (s, d, c.start), hch, by simp [hf]⟩

/-! Non-vacuity: `if-eqz v0,+3 ; nop ; goto -3 ; return-void` (offsets 0 4 6 8): the `if` goes to 4
    (fall-through) and 6, the `goto` at 6 goes back to offset 0. -/
def exM : List Ins :=
  [⟨4, 0x38, 3, 0, [], false⟩, ⟨2, 0x00, 0, 0, [], false⟩, ⟨2, 0x28, -3, 0, [], false⟩,
   ⟨2, 0x0e, 0, 0, [], false⟩]

example : (blocks exM []).map (fun b => (b.start, (childs exM (blocks exM []) b).map (·.2.2))) =
    [(0, [4, 6]), (4, [6]), (6, [0]), (8, [])] := by decide
example : (blocks exM []).map (fun b => (b.start, (fathers exM (blocks exM []) b).map (·.2.2))) =
    [(0, [6]), (4, [0]), (6, [0, 4]), (8, [])] := by decide
example : MinLen exM := by unfold MinLen; decide
example : Aligned exM := by unfold Aligned; decide

/-! Non-vacuity of the switch case: `packed-switch v0,+6 ; nop ; return-void ; nop ; return-void ;
    nop ; packed-switch-payload{+4, +5, +4}` (offsets 0 6 8 10 12 / payload at 12, 4-byte aligned):
    children = fall-through 6, cases 8, 10, 8 (a repeated target only repeats an entry). -/
def exSw : List Ins :=
  [⟨6, 0x2b, 6, 0, [], false⟩, ⟨2, 0x00, 0, 0, [], false⟩, ⟨2, 0x0e, 0, 0, [], false⟩,
   ⟨2, 0x0e, 0, 0, [], false⟩, ⟨20, 0x100, 0, 1, [4, 5, 4], false⟩]

example : (blocks exSw []).map (fun b => (b.start, (childs exSw (blocks exSw []) b).map (·.2.2))) =
    [(0, [6, 8, 10, 8]), (6, [8]), (8, []), (10, []), (12, [])] := by decide
example : (blocks exSw []).map (fun b => (b.start, (fathers exSw (blocks exSw []) b).map (·.2.2))) =
    [(0, []), (6, [0]), (8, [0, 0, 6]), (10, [0]), (12, [])] := by decide
example : MinLen exSw := by unfold MinLen; decide
example : Aligned exSw := by unfold Aligned; decide
example : flowOf 0x2b = Flow.switch := by decide
example : SwitchesHavePayload exSw := by
  intro p hp hf
  have h : p = (0, ⟨6, 0x2b, 6, 0, [], false⟩) := by
    have : ∀ q ∈ withOff 0 exSw, flowOf q.2.op = Flow.switch → q = (0, ⟨6, 0x2b, 6, 0, [], false⟩) := by decide
    exact this p hp hf
  subst h
  exact ⟨⟨20, 0x100, 0, 1, [4, 5, 4], false⟩, 12, rfl, ⟨exSw.take 4, [], rfl, rfl⟩, Or.inl rfl⟩
example : WFTargets exSw [] := by
  intro o ho _
  have hl : leaders exSw [] = [6, 8, 10, 8, -1, -1] := by decide
  rw [hl] at ho
  simp only [List.mem_cons, List.not_mem_nil, or_false] at ho
  have h : o = 6 ∨ o = 8 ∨ o = 10 := by omega
  rcases h with rfl | rfl | rfl
  · exact ⟨_, exSw.take 1, exSw.drop 2, rfl, rfl⟩
  · exact ⟨_, exSw.take 2, exSw.drop 3, rfl, rfl⟩
  · exact ⟨_, exSw.take 3, exSw.drop 4, rfl, rfl⟩

end AgVerif.C11
