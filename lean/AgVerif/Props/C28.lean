/-
C28 — Resource tables resolve to the values they contain.
Property theorems only (lemmas: AgVerif/Proof/Arsc.lean).

Model: AgVerif.Arsc (ARSCParser.__init__ and the classes it builds, `_analyse`, the listings) and
AgVerif.Resolve.getResConfigs; constants from AgVerif.Gen.ArscConsts (regenerated from the
repository on every run).  Spec: AgVerif.Spec.Arsc (the Android encodings, as encoders).
Proved: the three entry-offset-array decoders, the simple, compact and complex entry decoders invert
the format's encoders for every array / entry (L1), the random-access readers of the file-level model
agree with those L1 decoders for every file and offset (`reader_eq_decoder_*`), string pools
(UTF-16 and UTF-8) read back to their strings (`pool_roundtrip`), whole type chunks in the three
array layouts (`type_chunk_roundtrip`), and the file level: for every abstract table of the domain
`wfTable` and every layout choice, `parseTable (encTable l t)` is the table (`table_roundtrip_parse`,
`table_roundtrip_full`); the resource id assembly, that both chunk loops advance, the selection rule
of get_res_configs, the dictionary facts behind the listings, and the composition offsets → entries
under an explicit hypothesis (`table_roundtrip_partial`, now discharged by `type_chunk_roundtrip`).
Domain of the file-level theorems: Spec/ArscFile.lean (`wfTable`; 64-byte configurations, 288-byte
package headers, strings shorter than 0x8000 units/bytes, no styles).  On top of the parse: `_analyse`
does not raise and `resource_values` is the table's (`table_resource_values`), `get_packages_names`
(`table_packages_names`), `get_locales`, `get_types`, `get_res_id_by_key`, `get_string`
(`table_locales`, `table_types`, `table_key_ids`, `table_get_string`), and the resolved values: the
bridge from `resource_values` to the resolver's table of C29 and what `get_resolved_res_configs`
returns on it (`table_resolved_values`).  Excluded by hypothesis, not judged: tables with a complex
entry in a type named string / integer / color / dimen (`analysable`; the code raises AttributeError
there, see the `example` below) and tables with two packages of the same name.
Lemmas: AgVerif/Proof/Arsc*.lean; file-level format: AgVerif/Spec/ArscFile.lean.
-/
import AgVerif.Proof.ArscListings
namespace AgVerif.C28
open AgVerif.Arsc AgVerif.Gen.ArscConsts AgVerif.Spec.Arsc
open AgVerif.Resolve (refFree tokE)

/-- plain entry array (no flag): every slot list decodes to its present slots, NO_ENTRY skipped -/
theorem entries_roundtrip_plain (flags : Nat) (slots : List (Option Nat)) (rest : List Nat)
    (hs : flags &&& flagSparse = 0) (ho : flags &&& flagOffset16 = 0)
    (h : ∀ off, some off ∈ slots → off < 0xFFFFFFFF) :
    entryArray flags slots.length (encPlain slots ++ rest) = some (present slots 0, rest) := by
  simp only [entryArray, hs, ho, ne_eq, not_true_eq_false, if_false]
  exact plain_roundtrip slots 0 rest h

/-- FLAG_OFFSET16: 16-bit offsets in units of four bytes -/
theorem entries_roundtrip_offset16 (flags : Nat) (slots : List (Option Nat)) (rest : List Nat)
    (hs : flags &&& flagSparse = 0) (ho : flags &&& flagOffset16 ≠ 0)
    (h : ∀ off, some off ∈ slots → off % 4 = 0 ∧ off / 4 < 0xFFFF) :
    entryArray flags slots.length (encOffset16 slots ++ rest) = some (present slots 0, rest) := by
  simp only [entryArray, hs, ne_eq, not_true_eq_false, if_false, ho, not_false_eq_true, if_true]
  exact offset16_roundtrip slots 0 rest h

/-- FLAG_SPARSE: (index, offset/4) pairs -/
theorem entries_roundtrip_sparse (flags : Nat) (pairs : List (Nat × Nat)) (rest : List Nat)
    (hs : flags &&& flagSparse ≠ 0)
    (h : ∀ p ∈ pairs, p.1 < 65536 ∧ p.2 % 4 = 0 ∧ p.2 / 4 < 65536) :
    entryArray flags pairs.length (encSparse pairs ++ rest)
      = some (pairs.map fun p => (p.2, p.1), rest) := by
  simp only [entryArray, ne_eq, hs, not_false_eq_true, if_true]
  exact sparse_roundtrip pairs rest h

/-! ### the offset conversions, pinned to the source
    `Gen.ArscConsts.sparseOffset / dense16Offset / dense16Skip / plainSkip / sparseEntryId / denseEntryId`
    are the expressions gen/arscconsts.py translates from the entry loop of `ARSCParser.__init__`; the
    model's array decoders are built from them.  A changed expression breaks these theorems. -/

/-- FLAG_SPARSE: the 16-bit offset field counts 4-byte units and has **no** sentinel
    (0xFFFF is the offset 0x3FFFC, not NO_ENTRY) -/
theorem sparse_offset_spec (off : Nat) : sparseOffset off = off * 4 := rfl

/-- FLAG_OFFSET16: 0xFFFF is NO_ENTRY (the slot is skipped), every other value counts 4-byte units -/
theorem offset16_spec (o : Nat) :
    dense16Offset o = (if o = 0xFFFF then 0xFFFF else o * 4) ∧
    (dense16Skip (dense16Offset o) = true ↔ o = 0xFFFF) := by
  refine ⟨rfl, ?_⟩
  show decide ((if o = 65535 then 65535 else o * 4) = 65535) = true ↔ o = 65535
  rw [decide_eq_true_iff]
  by_cases h : o = 65535
  · simp [h]
  · rw [if_neg h]; omega

/-- plain: the raw 32-bit offset, skipped exactly when it is NO_ENTRY (0xFFFFFFFF) -/
theorem plain_skip_spec (off : Nat) : plainSkip off = true ↔ off = 0xFFFFFFFF := by
  show decide (off = 4294967295) = true ↔ off = 4294967295
  exact decide_eq_true_iff

/-- the id given to slot `i` in both branches of the loop is the model's `entryResId` -/
theorem entry_id_spec (cur i : Nat) : sparseEntryId cur i = entryResId cur i ∧ denseEntryId cur i = entryResId cur i :=
  ⟨rfl, rfl⟩

/-- simple entry: ResTable_entry + Res_value -/
theorem entry_roundtrip_simple (flags key t d : Nat) (rest : List Nat)
    (hf : flags < 65536) (hc : flags &&& flagComplex = 0) (hk : flags &&& flagCompact = 0)
    (hkey : key < 4294967296) (ht : t < 256) (hd : d < 4294967296) :
    decodeEntryL (encSimple flags key t d ++ rest) = some (⟨flags, key, .simple (t, d)⟩, rest) := by
  simp only [decodeEntryL, encSimple, List.append_assoc]
  rw [le16_enc _ _ (by decide)]; simp only []
  rw [le16_enc _ _ hf]; simp only []
  rw [le32_enc _ _ hkey]; simp only [decodeBodyL, hc, hk, ne_eq, not_true_eq_false, if_false]
  rw [resValueL_enc _ _ _ ht hd]

/-- complex entry: the maps of a ResTable_map_entry (name, Res_value), any number of items,
    decode to the items (the 16 header bytes before them are fixed-width reads, see
    `decodeComplexL`; their composition is exercised by the correspondence, not proved) -/
theorem entry_roundtrip_complex_items (items : List (Nat × (Nat × Nat))) (rest : List Nat)
    (hi : ∀ it ∈ items, it.1 < 4294967296 ∧ it.2.1 < 256 ∧ it.2.2 < 4294967296) :
    mapItemsL items.length (encMap items ++ rest) = some (items, rest) :=
  mapItemsL_enc items rest hi

/-- compact entry: key index in `size`, data type in the high byte of the flags, data in `key` -/
theorem entry_roundtrip_compact (flags key data : Nat) (rest : List Nat)
    (hf : flags < 65536) (hc : flags &&& flagComplex = 0) (hk : flags &&& flagCompact ≠ 0)
    (hkey : key < 65536) (hd : data < 4294967296) :
    decodeEntryL (encCompact flags key data ++ rest)
      = some (⟨flags, key, .compact ((flags >>> 8) &&& 0xFF) data⟩, rest) := by
  simp only [decodeEntryL, encCompact, List.append_assoc]
  rw [le16_enc _ _ hkey]; simp only []
  rw [le16_enc _ _ hf]; simp only []
  rw [le32_enc _ _ hd]
  simp only [decodeBodyL, hc, ne_eq, not_true_eq_false, if_false, hk, not_false_eq_true, if_true]

/-- `mResId` as assembled by the package, type and entry constructors is
    `package << 24 | type << 16 | index`, whatever id the package counter held before -/
theorem id_assembly (pkgId typeId idx prevType prevIdx : Nat) (hp : pkgId < 256) (ht : typeId < 256)
    (hi : idx < 65536) (hpt : prevType < 256) (hpi : prevIdx < 65536) :
    entryResId (typeResId (entryResId (typeResId (pkgResId pkgId) prevType) prevIdx) typeId) idx
      = resId pkgId typeId idx :=
  id_assembly_aux pkgId typeId idx prevType prevIdx hp ht hi hpt hpi

/-- every chunk header the constructor accepts spans at least 8 bytes, so the loops of
    `ARSCParser.__init__` (over the table and inside a package), which continue at
    `header.end`, advance by at least 8 bytes per iteration -/
theorem chunk_advances (b : Buf) (p : Nat) (e : Option Nat) (h : Hdr)
    (hh : readHdr b p e = some h) : h.start = p ∧ h.end_ ≥ p + 8 := by
  unfold readHdr at hh
  by_cases c0 : b.size < p + 8
  · simp [c0] at hh
  · rw [if_neg c0] at hh
    cases hl : hdrLoop b (b.size + 1) p with
    | none => simp [hl] at hh
    | some q =>
      obtain ⟨pos, ty, hs, sz⟩ := q
      simp only [hl] at hh
      simp at hh
      obtain ⟨_, ⟨h1, h2, h3⟩, rfl⟩ := hh
      refine ⟨rfl, ?_⟩
      show p + sz ≥ p + 8
      omega

/-- `get_res_configs(rid, config)`: nothing for an unknown id; everything for `config=None` or a
    single stored configuration; otherwise exactly the stored entry of that configuration, else
    (default configuration requested) the first stored entry, else nothing -/
theorem res_configs_spec (t : Resolve.Table) (rid : Nat) (w : Option Resolve.Config) :
    (t.options rid = none → Resolve.getResConfigs t rid w = []) ∧
    (∀ opts, t.options rid = some opts →
      (w = none ∨ opts.length ≤ 1 → Resolve.getResConfigs t rid w = opts) ∧
      (∀ c, w = some c → opts.length > 1 →
        (∀ p, opts.find? (fun q => q.1 == c) = some p → Resolve.getResConfigs t rid w = [p] ∧ p ∈ opts ∧ p.1 = c) ∧
        (opts.find? (fun q => q.1 == c) = none →
          (c = Resolve.defaultConfig → Resolve.getResConfigs t rid w = opts.take 1) ∧
          (c ≠ Resolve.defaultConfig → Resolve.getResConfigs t rid w = [])))) := by
  refine ⟨fun h => by simp [Resolve.getResConfigs, h], fun opts ho => ⟨?_, ?_⟩⟩
  · rintro (rfl | hl)
    · simp [Resolve.getResConfigs, ho]
    · cases w with
      | none => simp [Resolve.getResConfigs, ho]
      | some c =>
        have : ¬ opts.length > 1 := by omega
        simp [Resolve.getResConfigs, ho, this]
  · rintro c rfl hl
    refine ⟨fun p hp => ⟨by simp [Resolve.getResConfigs, ho, hl, hp], List.mem_of_find?_eq_some hp, ?_⟩,
      fun hn => ⟨fun hc => ?_, fun hc => ?_⟩⟩
    · have := List.find?_some hp
      simpa using this
    · subst hc
      simp [Resolve.getResConfigs, ho, hl, hn]
    · have : (c == Resolve.defaultConfig) = false := by simpa using hc
      simp [Resolve.getResConfigs, ho, hl, hn, this]

/-- listings: a stored key is found again with the value stored last
    (`resource_keys[package][type][key] = mResId`, `resource_values[id][config] = entry`) -/
theorem keys_last_wins {α β : Type} [BEq α] [LawfulBEq α] (d : List (α × β)) (k : α) (v : β) :
    dictGet (dictSet d k v) k = some v := dictGet_dictSet d k v

/-- listings: keys (packages, locales, types, configurations of an id) are listed in order of
    first appearance; storing under a known key does not move it -/
theorem listing_order {α β : Type} [BEq α] [LawfulBEq α] (d : List (α × β)) (k : α) (v : β) :
    (dictSet d k v).map (·.1) = if d.any (·.1 == k) then d.map (·.1) else d.map (·.1) ++ [k] :=
  dictSet_keys d k v

/-- L2 glue under the explicit hypothesis OffsetsResolve (`hres`: each offset of the entry array
    leads to bytes that decode to the entry `f off`): the entries of a type chunk are exactly the
    decoded entries, tagged with the assembled ids, in the order of the entry array -/
theorem table_roundtrip_partial (b : Buf) (base endOfChunk : Nat) (ids : List (Nat × Nat))
    (f : Nat → RawEntry)
    (hres : ∀ p ∈ ids, readEntry b (base + p.1) endOfChunk = some (f p.1)) :
    readAtes b base endOfChunk ids = some (ids.map fun p => ⟨p.2, f p.1⟩) := by
  induction ids with
  | nil => rfl
  | cons p r ih =>
    obtain ⟨off, rid⟩ := p
    have h1 := hres (off, rid) (by simp)
    have h2 := ih (fun q hq => hres q (by simp [hq]))
    simp only at h1
    simp [readAtes, h1, h2]


/-! ### deepening: readers = decoders, whole complex entries, string pools -/

/-- (1) the random-access 16-bit read is the list-level read on the suffix of the file -/
theorem reader_eq_decoder_u16 (b : Buf) (p : Nat) : rd16 b p = (le16 (b.toList.drop p)).map (·.1) :=
  rd16_eq b p

/-- (1) the same for 32-bit reads -/
theorem reader_eq_decoder_u32 (b : Buf) (p : Nat) : rd32 b p = (le32 (b.toList.drop p)).map (·.1) :=
  rd32_eq b p

/-- (1) `ARSCResStringPoolRef` read at an offset = the L1 `Res_value` decoder on the suffix -/
theorem reader_eq_decoder_value (b : Buf) (p : Nat) :
    readResValue b p = (resValueL (b.toList.drop p)).map (·.1) :=
  readResValue_eq b p

/-- (1) the item loop of `ARSCComplex` = the L1 map decoder, whenever the chunk-end cut-off does not
    bite (the last item starts at least four bytes before the end of the chunk) -/
theorem reader_eq_decoder_items (b : Buf) (eoc n p : Nat) (hfit : n = 0 ∨ p + 12 * n ≤ eoc + 8) :
    readMapItems b eoc n p = (mapItemsL n (b.toList.drop p)).map (·.1) :=
  readMapItems_eq b eoc n p hfit

/-- (1) `ARSCResTableEntry(buff, offset, end_of_chunk)` = the L1 entry decoder on the suffix of the
    file at that offset, for every file, offset and entry kind (simple, compact, complex; also when
    either side fails), provided a complex entry lies inside its chunk (`ComplexFits`) -/
theorem reader_eq_decoder_entry (b : Buf) (p eoc : Nat) (hfit : ComplexFits b p eoc) :
    readEntry b p eoc = (decodeEntryL (b.toList.drop p)).map (·.1) :=
  readEntry_eq b p eoc hfit

/-- (2) a whole complex entry (ResTable_map_entry header + every map) decodes to its parts -/
theorem entry_roundtrip_complex (flags key parent : Nat) (items : List (Nat × (Nat × Nat))) (rest : List Nat)
    (hf : flags < 65536) (hc : flags &&& flagComplex ≠ 0)
    (hkey : key < 4294967296) (hp : parent < 4294967296) (hn : items.length < 4294967296)
    (hi : ∀ it ∈ items, it.1 < 4294967296 ∧ it.2.1 < 256 ∧ it.2.2 < 4294967296) :
    decodeEntryL (encComplex flags key parent items ++ rest)
      = some (⟨flags, key, .complex parent items⟩, rest) :=
  decodeEntryL_complex flags key parent items rest hf hc hkey hp hn hi

/-- (3) string pools: wherever an encoded pool (UTF-16 or UTF-8; strings of BMP code points without
    surrogates, shorter than 0x8000 units and 0x8000 UTF-8 bytes, so also the two-byte UTF-8 length
    prefixes — `wfStr`) sits in a file, `ARSCHeader` +
    `StringBlock` read it, the chunk ends where the encoding ends, and `getString(i)` is the UTF-8
    text of string `i` for every `i` -/
theorem pool_roundtrip (bs r : List Nat) (p : Nat) (u8 : Bool) (strs : List (List Nat))
    (h : bs.drop p = encPool u8 strs ++ r) (hlen : (encPool u8 strs).length < 4294967296)
    (hwf : strs.all wfStr = true) :
    ∃ hd pl, readHdr bs.toArray p (some resStringPoolType) = some hd ∧ readPool bs.toArray hd = some pl ∧
      hd.end_ = p + (encPool u8 strs).length ∧
      ∀ i (hi : i < strs.length), pl.getString i = some (utf8s strs[i]) :=
  ⟨_, _, (readPool_at u8 strs h hlen).1, (readPool_at u8 strs h hlen).2.2, rfl,
    fun i hi => pool_getString u8 strs hwf i hi⟩

/-- (4) a whole type chunk — header, 64-byte configuration, entry-offset array in any of the three
    layouts (`l`), entry bodies — wherever it sits in a file, is read by `ARSCHeader` +
    the `RES_TABLE_TYPE_TYPE` branch as its type id, its nine configuration words and exactly its
    present entries, each with the id `package << 24 | type << 16 | index`; the chunk ends where
    the encoding ends and the package's running `mResId` keeps its invariant (`IdInv`). -/
theorem type_chunk_roundtrip (bs r : List Nat) (p cur pkgId : Nat) (l : ArrLayout) (tc : Spec.Arsc.TypeChunk)
    (h : bs.drop p = encTypeChunk l tc ++ r) (hwf : wfChunk l tc = true)
    (hlen : (encTypeChunk l tc).length < 4294967296) (hcur : IdInv pkgId cur) :
    ∃ hd cur', readHdr bs.toArray p none = some hd ∧ hd.type = resTableTypeType ∧
      hd.end_ = p + (encTypeChunk l tc).length ∧
      readTypeChunk bs.toArray hd cur = some (chunkOf pkgId tc, cur') ∧ IdInv pkgId cur' := by
  obtain ⟨hhdr, cur', hrt, hinv⟩ := readTypeChunk_at l tc h hwf hlen hcur
  obtain ⟨hty, _, hn, _, _⟩ := (wfChunk_iff l tc).mp hwf
  rw [atesFrom_eq hcur hty tc.slots 0 (by omega)] at hrt
  exact ⟨_, cur', hhdr, rfl, rfl, hrt, hinv⟩

/-- (5a) `ARSCParser(encode t)` succeeds and builds exactly `parsedOf l t`: the global pool, and per
    package its name, its two pools and its type chunks with ids and entries — for every abstract
    table of the domain `wfTable` and every layout choice `l` (UTF-8/UTF-16 per pool kind, array
    layout and typeSpec presence per type chunk) -/
theorem table_roundtrip_parse (l : Layout) (t : Table) (hwf : wfTable l t = true) :
    parseTable (encTable l t).toArray = some (parsedOf l t) :=
  parseTable_enc l t hwf

/-- the file-level statement: parsing an encoded well-formed table and reading the parse's
    content (`viewP`) gives the table's content (`viewT`) -/
def TableRoundtrip {Tbl V : Type} (WF : Tbl → Prop) (encode : Tbl → List Nat)
    (viewP : Parsed → Option V) (viewT : Tbl → V) : Prop :=
  ∀ m, WF m → (parseTable (encode m).toArray).bind viewP = some (viewT m)

/-- (5) the file-level round trip, proved: for every layout choice and every abstract table of the
    domain, the parse of the encoded file says exactly what the table says — every string of the
    three kinds of pool (through `getString`, as UTF-8), the package names, and per type chunk the
    type id, the configuration words and the (resource id, entry) pairs in slot order -/
theorem table_roundtrip_full (l : Layout) :
    TableRoundtrip (fun t => wfTable l t = true) (encTable l) viewParsed viewTable :=
  fun t hwf => viewParsed_enc l t hwf

/-- (5) bytes after the table chunk (`trailing`) are never looked at: same parse, same content -/
theorem table_roundtrip_trailing (l : Layout) (t : Table) (tr : List Nat) (hwf : wfTable l t = true)
    (htr : (encTable l t).length + tr.length < 4294967296) :
    parseTable (encTable l t ++ tr).toArray = some (parsedOf l t) ∧
    (parseTable (encTable l t ++ tr).toArray).bind viewParsed = some (viewTable t) :=
  ⟨parseTable_enc_trailing l t tr hwf htr, viewParsed_enc_trailing l t tr hwf htr⟩

/-- listing: `get_packages_names()` on an encoded table is the distinct package names in order -/
theorem table_packages_names (l : Layout) (t : Table) (hwf : wfTable l t = true) :
    (parseTable (encTable l t).toArray).map packagesNames
      = some ((t.packages.map fun p => utf8s p.name).eraseDups) := by
  rw [parseTable_enc l t hwf, Option.map_some, packagesNames_enc]

/-- (6) `_analyse` on top of the file-level round trip: for a table of the domain whose package
    names are distinct and that has no complex entry in a type named string / integer / color /
    dimen (`analysable`: the code raises AttributeError there), `ARSCParser(encode t)._analyse()`
    does not raise, and `resource_values[rid]` — what `get_res_configs(rid)` lists — is, for every
    id: absent when the table stores nothing under `rid`, else the table's configurations for
    `rid` in order of first appearance, each with the entry stored last (`merged`); when the
    configurations stored for `rid` are pairwise distinct, exactly the table's (configuration,
    entry) pairs in file order. -/
theorem table_resource_values (l : Layout) (t : Table) (hwf : wfTable l t = true)
    (hnames : (t.packages.map fun p => utf8s p.name).Nodup) (han : analysable t = true) :
    ∃ an, (parseTable (encTable l t).toArray).bind analyse = some an ∧
      (∀ rid, dictGet an.resourceValues rid = merged none (storedFor t rid)) ∧
      (∀ rid, ((storedFor t rid).map (·.1)).Nodup →
        dictGet an.resourceValues rid = if (storedFor t rid).isEmpty then none else some (storedFor t rid)) := by
  obtain ⟨an, h1, h2⟩ := resource_values_enc l t hwf hnames han
  exact ⟨an, h1, h2, fun rid hd => by rw [h2 rid, merged_none_nodup _ hd]⟩

/-- (7) the RESOLVED values.  On `ARSCParser(encode t)`, for every table of the domain (distinct
    package names, `analysable`): `_analyse` succeeds; the table the resolver works on
    (`resolveTable`, the input of C29's model) exists, and under every id it holds exactly what the
    table stores for that id — its configurations in order of first appearance, each with the
    entry stored last (`merged none (storedFor t rid)`), every entry as the resolver sees it
    (`optsT`: references stay references, any other `Res_value` is its rendered text, strings looked
    up in the table's global strings, a compact entry read by its data type), every configuration
    replaced by a key that is 0 for the default configuration and injective on the stored ones.
    On that table, for every id ≠ 0 and every requested configuration, `get_resolved_res_configs`
    returns, and the concrete values it returns are exactly those reachable through references
    (C29's `ReachVal`); when the selected entries hold no reference the returned list is exactly
    the stored values of the selected configurations, in order, one element per entry
    (`(config, text)` for a simple/compact entry, `(config, [texts…])` for a complex one). -/
theorem table_resolved_values (l : Layout) (t : Table) (hwf : wfTable l t = true)
    (hnames : (t.packages.map fun p => utf8s p.name).Nodup) (han : analysable t = true) :
    ∃ an rt, (parseTable (encTable l t).toArray).bind analyse = some an ∧
      resolveTable (parsedOf l t) an = some rt ∧
      (∀ rid, rt.options rid
        = (merged none (storedFor t rid)).map (optsT (strAt t.strings) (cfgKeys an))) ∧
      cfgKey (cfgKeys an) [0, 0, 0, 0, 0, 0, 0, 0, 0] = 0 ∧
      (∀ rid opts, merged none (storedFor t rid) = some opts → ∀ ca ∈ opts, ca.1 ∈ cfgKeys an) ∧
      (∀ c ∈ cfgKeys an, ∀ c', cfgKey (cfgKeys an) c = cfgKey (cfgKeys an) c' → c = c') ∧
      (∀ w rid, rid ≠ 0 → ∃ out, Resolve.resolveV rt w rid = .ok out ∧
        ∀ tok, tok.isValue = true → (tok ∈ out ↔ AgVerif.Spec.Reach.ReachVal rt w rid tok)) ∧
      (∀ w rid, rid ≠ 0 → (∀ p ∈ Resolve.getResConfigs rt rid w, refFree p.2 = true) →
        Resolve.resolveV rt w rid
          = .ok ((Resolve.getResConfigs rt rid w).flatMap fun p => tokE p.1 p.2)) := by
  obtain ⟨an, rt, h1, h2, h3⟩ := resolveTable_enc l t hwf hnames han
  obtain ⟨an', h1', h4⟩ := resource_values_enc l t hwf hnames han
  have : an' = an := by rw [h1] at h1'; injection h1' with e; exact e.symm
  subst this
  refine ⟨an', rt, h1, h2, h3, cfgKey_default an', ?_, fun c hc c' h => cfgKey_inj an' c c' hc h,
    fun w rid hr => resolveV_ok_reach rt w rid hr, fun w rid hr h => AgVerif.Resolve.resolveV_refFree rt w rid hr h⟩
  intro rid opts ho ca hca
  rw [← h4 rid] at ho
  exact stored_mem_cfgKeys an' rid opts (dictGet_some_mem _ _ _ ho) ca.1 ca.2 hca

/-- listing: `get_locales(package)` on an encoded table is the locale strings of the package's type
    chunks (`get_language_and_region()` of each chunk's configuration, also of chunks without
    entries), each once, in order of first appearance (`firstsFrom []`, see `firsts_spec`) -/
theorem table_locales (l : Layout) (t : Table) (hwf : wfTable l t = true)
    (hnames : (t.packages.map fun p => utf8s p.name).Nodup) (han : analysable t = true) :
    ∃ an, (parseTable (encTable l t).toArray).bind analyse = some an ∧
      ∀ p ∈ t.packages, getLocales an (utf8s p.name) = some (firstsFrom [] (p.chunks.map locT)) := by
  obtain ⟨an, h, hL, _⟩ := listings_enc l t hwf hnames han
  exact ⟨an, h, hL⟩

/-- listing: `get_types(package, locale)` is `"public"` followed by the type names of the entries of
    the package's chunks with that locale, each once, in order of first appearance; KeyError
    (`none`) when no chunk of the package has that locale -/
theorem table_types (l : Layout) (t : Table) (hwf : wfTable l t = true)
    (hnames : (t.packages.map fun p => utf8s p.name).Nodup) (han : analysable t = true) :
    ∃ an, (parseTable (encTable l t).toArray).bind analyse = some an ∧
      ∀ p ∈ t.packages, ∀ loc, getTypes an (utf8s p.name) loc
        = if p.chunks.any (fun c => locT c == loc)
          then some (firstsFrom [strBytes "public"] ((evsT t p loc).map (·.1))) else none := by
  obtain ⟨an, h, _, hT, _⟩ := listings_enc l t hwf hnames han
  exact ⟨an, h, hT⟩

/-- listing: `get_res_id_by_key(package, type, key)` is the id of the LAST entry in file order whose
    package name, type name and key name are the given ones; `None` when there is none -/
theorem table_key_ids (l : Layout) (t : Table) (hwf : wfTable l t = true)
    (hnames : (t.packages.map fun p => utf8s p.name).Nodup) (han : analysable t = true) :
    ∃ an, (parseTable (encTable l t).toArray).bind analyse = some an ∧
      ∀ pkg ty key, getResIdByKey an pkg ty key = lastVal (keyPairsT t) (pkg, ty, key) := by
  obtain ⟨an, h, _, _, _, hK⟩ := listings_enc l t hwf hnames han
  exact ⟨an, h, fun pkg ty key => hK (pkg, ty, key)⟩

/-- listing: `get_string(package, name, locale)` is the FIRST `[name, value]` in file order among the
    entries of the package's chunks of that locale whose type is named "string", `value` being the
    global string at the entry's data; `None` when there is none -/
theorem table_get_string (l : Layout) (t : Table) (hwf : wfTable l t = true)
    (hnames : (t.packages.map fun p => utf8s p.name).Nodup) (han : analysable t = true) :
    ∃ an, (parseTable (encTable l t).toArray).bind analyse = some an ∧
      ∀ p ∈ t.packages, ∀ name loc, getString an (utf8s p.name) name loc
        = (stringPairs (evsT t p loc)).find? (·.1 == name) := by
  obtain ⟨an, h, _, _, hS, _⟩ := listings_enc l t hwf hnames han
  exact ⟨an, h, hS⟩

/-- what "each once, in order of first appearance" means: `firstsFrom [] xs` has no duplicates and
    exactly the elements of `xs` (its order is that of the fold that appends an element when it is
    seen for the first time) -/
theorem firsts_spec {α : Type} [BEq α] [LawfulBEq α] (xs : List α) :
    (firstsFrom [] xs).Nodup ∧ ∀ x, x ∈ firstsFrom [] xs ↔ x ∈ xs :=
  ⟨nodup_firstsFrom [] xs List.nodup_nil, fun x => by rw [mem_firstsFrom]; simp⟩

/-! ### non-vacuity -/

example : entryArray 0 3 (encPlain [some 0, none, some 16] ++ [9]) = some ([(0, 0), (16, 2)], [9]) := by decide
example : entryArray 2 3 (encOffset16 [some 8, none, some 0]) = some ([(8, 0), (0, 2)], []) := by decide
example : entryArray 1 2 (encSparse [(5, 16), (9, 0)]) = some ([(16, 5), (0, 9)], []) := by decide
example : entryArray 1 1 (encSparse [(7, 0xFFFF * 4)]) = some ([(0x3FFFC, 7)], []) := by decide
example : entryArray 2 2 (encOffset16 [some (0xFFFE * 4), none]) = some ([(0x3FFF8, 0)], []) := by decide
example : decodeEntryL (encSimple 2 7 3 5) = some (⟨2, 7, .simple (3, 5)⟩, []) := by decide
example : decodeEntryL (encComplex 1 7 0 [(257, (16, 1)), (0, (1, 300))])
    = some (⟨1, 7, .complex 0 [(257, (16, 1)), (0, (1, 300))]⟩, []) := by decide
example : decodeEntryL (encCompact 4104 3 42) = some (⟨4104, 3, .compact 16 42⟩, []) := by decide
example : resId 127 2 5 = 0x7F020005 := by decide
example : ComplexFits (encComplex 1 7 0 [(257, (16, 1)), (0, (1, 300))]).toArray 0 40 := by
  intro flags count h1 _ h2
  have e1 : rd32 (encComplex 1 7 0 [(257, (16, 1)), (0, (1, 300))]).toArray (0 + 12) = some 2 := by decide
  rw [e1] at h2; injection h2 with h2; subst h2; omega
example : readEntry (encComplex 1 7 0 [(257, (16, 1)), (0, (1, 300))]).toArray 0 40
    = some ⟨1, 7, .complex 0 [(257, (16, 1)), (0, (1, 300))]⟩ := by decide
example : wfStr [104, 0x4e2d, 233] = true := by decide
example : wfStr (List.replicate 200 233) = true := by decide +kernel
example : (poolOf true [List.replicate 200 233, [104]]).getString 0 = some (utf8s (List.replicate 200 233)) :=
  pool_getString true [List.replicate 200 233, [104]] (by decide +kernel) 0 (by decide)
example : (encStr8 (List.replicate 200 233)).take 4 = [0x80, 200, 0x81, 0x90] := by decide +kernel
example : (poolOf true [[104, 105], [0x4e2d, 233]]).getString 1 = some [228, 184, 173, 195, 169] := by decide
example : (poolOf false [[104, 105], [0x4e2d, 233]]).getString 1 = some (utf8s [0x4e2d, 233]) :=
  pool_getString false [[104, 105], [0x4e2d, 233]] (by decide) 1 (by decide)
example : utf8s [0x4e2d, 233] = [228, 184, 173, 195, 169] := by decide

/-- a table with two packages, all three entry kinds, absent slots, an empty chunk, non-ASCII text -/
def exTable : Table := ⟨[[104, 105], [0x4e2d, 233]],
  [⟨127, [97, 46, 98], [[115, 116, 114], [115]], [[107, 49], [107, 50], [107, 51]],
    [⟨1, ⟨0, 0, 0, 0, 0, 0, 0, 0, 0⟩, [some (.simple 0 0 3 1), none, some (.compact 4104 2 42)]⟩,
     ⟨2, ⟨1, 0x7266, 3, 4, 5, 6, 7, 8, 9⟩,
       [none, some (.complex 1 1 0 [(257, (16, 1)), (0, (1, 300))]), some (.simple 2 2 3 0)]⟩,
     ⟨2, ⟨0, 0, 0, 0, 0, 0, 0, 0, 0⟩, []⟩]⟩,
   ⟨2, [120], [[116]], [[107]], [⟨1, ⟨1, 0x7266, 3, 4, 5, 6, 7, 8, 9⟩, [some (.simple 0 0 16 7)]⟩]⟩]⟩

/-- global pool UTF-8, type names UTF-16, key names UTF-8; the three array layouts in turn; a
    typeSpec before every other chunk -/
def exLayout : Layout :=
  ⟨true, fun i => ⟨false, true, fun j => if (i + j) % 3 = 0 then .plain else if (i + j) % 3 = 1 then .offset16 else .sparse,
    fun j => j % 2 = 0⟩⟩

example : wfTable exLayout exTable = true := by decide +kernel
example : (parseTable (encTable exLayout exTable).toArray).bind viewParsed = some (viewTable exTable) :=
  table_roundtrip_full exLayout exTable (by decide +kernel)
example : wfChunk .sparse ⟨2, ⟨1, 0x7266, 3, 4, 5, 6, 7, 8, 9⟩,
    [none, some (.complex 1 1 0 [(257, (16, 1)), (0, (1, 300))]), some (.simple 2 2 3 0)]⟩ = true := by decide
example : IdInv 127 (pkgResId 127) := inv_pkg (by decide)
example : analysable exTable = true := by decide +kernel
example : (exTable.packages.map fun p => utf8s p.name).Nodup := by decide
example : (storedFor exTable 0x7F020001).map (·.1) = [[1, 0x7266, 3, 4, 5, 6, 7, 8, 9]] := by decide
example : analysable ⟨[], [⟨1, [97], [[115, 116, 114, 105, 110, 103]], [],
    [⟨1, ⟨0, 0, 0, 0, 0, 0, 0, 0, 0⟩, [some (.complex 1 0 0 [])]⟩]⟩]⟩ = false := by decide +kernel
example : ((viewTable exTable).packages.map fun p => p.chunks.map fun c => c.entries.map (·.1))
    = [[[0x7F010000, 0x7F010002], [0x7F020001, 0x7F020002], []], [[0x02010000]]] := by decide

/-- the input excluded by `analysable`: a complex entry in a type named "string" — the model of
    `_analyse` raises (the code: AttributeError, `ARSCResTableEntry` has no `key`) -/
def badTable : Table := ⟨[], [⟨1, [97], [[115, 116, 114, 105, 110, 103]], [[107]],
    [⟨1, ⟨0, 0, 0, 0, 0, 0, 0, 0, 0⟩, [some (.complex 1 0 0 [])]⟩]⟩]⟩
example : wfTable exLayout badTable = true := by decide +kernel
example : analysable badTable = false := by decide +kernel
example : (parseTable (encTable exLayout badTable).toArray).bind analyse = none := by
  rw [table_roundtrip_parse exLayout badTable (by decide +kernel)]; decide +kernel
example : firstsFrom [] [3, 1, 3, 2, 1] = [3, 1, 2] := by decide
example : (exTable.packages.map fun p => firstsFrom [] (p.chunks.map locT))
    = [[[0, 0], [102, 114]], [[102, 114]]] := by decide +kernel
example : lastVal (keyPairsT exTable) ([97, 46, 98], [115], [107, 51]) = some 0x7F020002 := by decide +kernel
example : (storedFor exTable 0x7F010002).map (fun ca => optsT (strAt exTable.strings) [[0, 0, 0, 0, 0, 0, 0, 0, 0]] [ca])
    = [[(0, .simple (.lit "3432"))]] := by decide +kernel

end AgVerif.C28
