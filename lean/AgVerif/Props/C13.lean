/-
C13 — Method cross-references are exact and symmetric.
Model: AgVerif/Model/Xref.lean (`analyse`, `callGraph`), specification: AgVerif/Spec/Xref.lean,
generated opcode tests: AgVerif/Gen/XrefOps.lean.  All theorems hold for every program (any number of
DEX files, classes, methods, instructions).
Scope of the statements: the model identifies a Python object with the key the code registers it under
(class name; (class, name, descriptor); string value).  On programs whose class names are distinct across
the added DEX files (`AgVerif.C16.DistinctClassNames`; C16 proves that the keying is injective there) this
mirrors the code.  For a program with a repeated class name the theorems below are statements about the
key-merged model only (`AgVerif.C16.duplicate_class_is_merged`): the code keeps the ClassAnalysis of the DEX
added last; that case is judged on the real code, on objects, by the duplicate-class stream of the harness.
-/
import AgVerif.Proof.XrefView

namespace AgVerif.C13
open AgVerif.Xref AgVerif.Gen

/-- the generated `if / elif` chain of `_create_xref` sends every opcode to the branch the Dalvik
bytecode document assigns to it (complete table, 256 opcodes) -/
theorem opcode_branches_agree : ∀ op : Fin 256, XrefOps.kind op.val = Spec.kindOf op.val :=
  kind_agrees

/-- `REF_TYPE(op_value)` exists for every opcode of the class-usage and invoke branches -/
theorem ref_type_total : ∀ op : Fin 256, (XrefOps.kind op.val = 1 ∨ XrefOps.kind op.val = 2) →
    op.val ∈ XrefOps.refTypes.map (·.2) :=
  refType_total

/-- the callees a method reports, with offsets, are exactly the targets of its invoke instructions -/
theorem xref_to_exact (p : List Dex) (caller callee : MKey) (off : Nat) :
    (caller, callee, off) ∈ (analyse p).callTo ↔ Spec.Calls p caller callee off :=
  callTo_iff p caller callee off

/-- a target with the same class, name and descriptor as an analysed method resolves to it -/
theorem resolve_internal (p : List Dex) (k : MKey) (h : Spec.DefinedM p k) :
    dget (analyse p).methods k = some false := by
  rw [dget_methods]; simp [h]

/-- any other invoked target resolves to an external stub, and the method table holds one entry per key
(so all call sites share the stub) -/
theorem resolve_external_unique (p : List Dex) (k : MKey) (h : ¬ Spec.DefinedM p k) (hc : Spec.Called p k) :
    dget (analyse p).methods k = some true ∧ (keys (analyse p).methods).Nodup := by
  refine ⟨?_, nodup_method_keys p⟩
  rw [dget_methods]; simp [h, hc]

/-- nothing else is in the method table -/
theorem methods_exact (p : List Dex) (k : MKey) (e : Bool) :
    dget (analyse p).methods k = some e ↔
      (Spec.DefinedM p k ∧ e = false) ∨ (¬ Spec.DefinedM p k ∧ Spec.Called p k ∧ e = true) := by
  rw [dget_methods]
  by_cases h : Spec.DefinedM p k
  · simp [h, eq_comm]
  · by_cases hc : Spec.Called p k <;> simp [h, hc, eq_comm]

/-- every callee edge appears in the callee's caller list and vice versa -/
theorem from_mirrors_to (p : List Dex) (a b : MKey) (off : Nat) :
    (a, b, off) ∈ (analyse p).callTo ↔ (b, a, off) ∈ (analyse p).callFrom := by
  rw [callTo_iff, callFrom_iff]

/-- the call graph has an edge exactly where a callee is reported -/
theorem callgraph_edges (p : List Dex) (a b : MKey) :
    (a, b) ∈ callGraph (analyse p) ↔ ∃ off, (a, b, off) ∈ (analyse p).callTo :=
  callGraph_iff p a b

/-- class-level `xref_to`: the invoke entries and the class-usage entries, nothing else -/
theorem class_xref_to_exact (p : List Dex) (r : ClsRef) :
    r ∈ (analyse p).clsTo ↔
      (∃ caller, Spec.CallsWith p r.kind caller r.meth r.off ∧ r.cls = caller.1 ∧ r.other = r.meth.1) ∨
      (Spec.Uses p r.kind r.meth r.other r.off ∧ r.cls = r.meth.1) :=
  clsTo_iff p r

theorem class_xref_from_exact (p : List Dex) (r : ClsRef) :
    r ∈ (analyse p).clsFrom ↔
      (∃ callee, Spec.CallsWith p r.kind r.meth callee r.off ∧ r.cls = callee.1 ∧ r.other = r.meth.1) ∨
      (Spec.Uses p r.kind r.meth r.cls r.off ∧ r.other = r.meth.1) :=
  clsFrom_iff p r

/-- the class table: analysed classes are internal, every other referenced class one external entry -/
theorem classes_exact (p : List Dex) (c : String) (e : Bool) :
    dget (analyse p).classes c = some e ↔
      (Spec.DefinedC p c ∧ e = false) ∨ (¬ Spec.DefinedC p c ∧ Spec.Referenced p c ∧ e = true) := by
  rw [dget_classes]
  by_cases h : Spec.DefinedC p c
  · simp [h, eq_comm]
  · by_cases hc : Spec.Referenced p c <;> simp [h, hc, eq_comm]

/-! non-vacuity: two DEX files; `LA;.m` calls the analysed `LB;.n` (in the other DEX), an array
receiver `[LB;.clone`, an external method, and a primitive array (no xref) -/
def exProg : List Dex :=
  [⟨[⟨"LA;", [], [⟨"m", "()V", [(0, ⟨⟨0x6e, by decide⟩, .meth "LB;" "n" "()V"⟩),
                                 (6, ⟨⟨0x74, by decide⟩, .meth "[LB;" "clone" "()V"⟩),
                                 (12, ⟨⟨0x71, by decide⟩, .meth "LE;" "x" "()V"⟩),
                                 (18, ⟨⟨0x71, by decide⟩, .meth "[I" "clone" "()V"⟩)]⟩]⟩], []⟩,
   ⟨[⟨"LB;", [], [⟨"n", "()V", []⟩]⟩], []⟩]

example : (analyse exProg).callTo =
    [(("LA;", "m", "()V"), ("LB;", "n", "()V"), 0), (("LA;", "m", "()V"), ("LB;", "clone", "()V"), 6),
     (("LA;", "m", "()V"), ("LE;", "x", "()V"), 12)] := by decide +kernel
example : dget (analyse exProg).methods ("LB;", "n", "()V") = some false := by decide +kernel
example : dget (analyse exProg).methods ("LB;", "clone", "()V") = some true := by decide +kernel
example : callGraph (analyse exProg) =
    [(("LA;", "m", "()V"), ("LB;", "n", "()V")), (("LA;", "m", "()V"), ("LB;", "clone", "()V")),
     (("LA;", "m", "()V"), ("LE;", "x", "()V"))] := by decide +kernel

end AgVerif.C13
