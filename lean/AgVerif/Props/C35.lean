/-
C35 — Parsers terminate on every input.
Property theorems only (lemmas: AgVerif/Proof/Loops.lean, AgVerif/Proof/Mutf8.lean).

1. `loops_covered` / `count_loops_consume`: the loop inventory that gen/loops.py reads from the working
   tree (every `while`, every function on a call cycle, every `for` over a declared count in a parse
   routine) is covered entry by entry by the table below.  A new loop, or a change inside a pinned
   loop, changes the generated list and this theorem no longer checks.
2. For each position-driven loop a Lean function accepted by the termination checker
   (Model/Loops.lean, Model/Mutf8.lean) and a bound on its iterations in terms of the input size.
3. The refutation for the code before fixes/C35-readnt-eof.diff (`readNT_old_no_progress`).
Loops modelled by other properties are referenced, not redone: LinearSweep (C02), reference
resolution (C29), APK signing block walks and the EOCD scan (C33).
-/
import AgVerif.Proof.Loops
import AgVerif.Proof.Mutf8
namespace AgVerif.C35
open AgVerif.Loops AgVerif.Gen.Loops

structure Cover where
  file : String
  func : String
  kind : String
  /-- accepted normalised-AST hashes; `[]` = the loop is owned by another property's model (any hash) -/
  hashes : List String
  /-- the model and theorem, or the written argument -/
  how : String
  /-- "lean" = a Lean model with a proved iteration bound in this file; "prose" = only the written argument in
      `how` (nothing is proved about it); "defer" = owned by another property's model (C02 / C29 / C33), any hash -/
  cls : String

def DEXF := "androguard/core/dex/__init__.py"
def AXMLF := "androguard/core/axml/__init__.py"
def APKF := "androguard/core/apk/__init__.py"

def coverage : List Cover := [
  ⟨DEXF, "read_null_terminated_string", "while#0", ["fe1f0711431ddfe8"],
    "Mutf8.ntLoop (measure |file| - pos); readNT_steps_le, readNT_eof_raises; hash of the FIXED loop only", "lean"⟩,
  ⟨DEXF, "writeuleb128", "while#0", ["f8b7dbe196387098"],
    "writer, not on a parse path; `remaining >>= 7` strictly decreases a positive integer (C03 Leb.writeUlebNat terminates by that measure)", "prose"⟩,
  ⟨DEXF, "writesleb128", "while#0", ["acf809f28c046eaf"],
    "writer, not on a parse path (get_raw only); C03 models it with fuel and records that values >= 2^63 do not terminate", "prose"⟩,
  ⟨DEXF, "HiddenApiClassDataItem.__init__", "while#0", ["9298d74f9efad781"],
    "Loops.hiddenLoop; hidden_api_steps_le (4 bytes per iteration or struct.error)", "lean"⟩,
  ⟨DEXF, "DebugInfoItem.__init__", "while#0", ["3e6a9b15a1abd259"],
    "Loops.dbgLoop; debug_info_steps_le (>= 1 byte per iteration or struct.error)", "lean"⟩,
  ⟨DEXF, "EncodedMethod.get_information", "while#0", ["bca3a905c62fbd55"],
    "not a parser loop: `i += param_sizes[j]` with sizes in {1,2} until `i >= nb`; IndexError if params run out", "prose"⟩,
  ⟨DEXF, "EncodedMethod.get_short_string._fmt_classname", "while#0", ["ca7f4d9b82e5154d"],
    "not a parser loop: `cls = cls[1:]` strictly shortens a finite string", "prose"⟩,
  ⟨DEXF, "LinearSweepAlgorithm.get_instructions", "while#0", [],
    "C02: sweep model, `idx += obj.get_length()` with length >= 2 (AgVerif.C02)", "defer"⟩,
  ⟨DEXF, "DEX.list_classes_hierarchy.print_map", "rec", ["46296a422e439201"],
    "not a parser path (explicit API call on a parsed DEX): recursion over the children of a tree built from the finite class list; a cyclic hierarchy ends in RecursionError", "prose"⟩,
  ⟨DEXF, "get_type", "rec", ["aff79c8e7dce6bf0"],
    "recursion on `atype[1:]`, a strictly shorter string; depth <= len(descriptor)", "prose"⟩,
  ⟨AXMLF, "AXMLParser._do_next", "while#0", ["212d22307ea023c1"],
    "Loops.doNext; axml_do_next_steps_le, axml_do_next_never_stuck (chunk start advances >= 8 bytes per iteration)", "lean"⟩,
  ⟨AXMLF, "AXMLPrinter.__init__", "while#0", ["1ac88210f1960e18", "a9821b4b607d5949"],
    "Loops.axmlDoc; axml_parse_steps_linear. one `next(self.axml)` = one `_do_next` call per iteration: each advances the chunk start by >= 8 bytes, sets END_DOCUMENT (break), invalidates the parser (loop test) or raises; at most |file|/8 + 2 iterations (second hash: with fixes/C26-text-chunks.diff)", "lean"⟩,
  ⟨AXMLF, "ARSCParser.__init__", "while#0", ["f6823ec3eb5dcff3"],
    "Loops.arscParse (outer loop with the inner loops composed); arsc_parse_steps_linear, arsc_chunks_steps_le", "lean"⟩,
  ⟨AXMLF, "ARSCParser.__init__", "while#1", ["06b9141acb1f7833"],
    "Loops.arscChunks with the package chunk's end as bound (inner); arsc_chunks_steps_le", "lean"⟩,
  ⟨AXMLF, "ARSCParser._analyse", "while#0", ["84b25dad7dbc70a2"],
    "no input is read: `nb` increases by at least 1 per iteration and is bounded by len(self.packages[name]), a list built by the terminated parse", "prose"⟩,
  ⟨AXMLF, "ARSCHeader.__init__", "while#0", ["37206441c8b6d781"],
    "Loops.hdrSkip (measure |file| - cur); arsc_header_steps_le", "lean"⟩,
  ⟨AXMLF, "ARSCParser.ResourceResolver._resolve_into_result", "rec", [], "C29: Resolve model, visited set (AgVerif.C29.resolveV_terminates)", "defer"⟩,
  ⟨AXMLF, "ARSCParser.ResourceResolver.put_ate_value", "rec", [], "C29", "defer"⟩,
  ⟨AXMLF, "ARSCParser.ResourceResolver.put_item_value", "rec", [], "C29", "defer"⟩,
  ⟨APKF, "APK.parse_signatures_or_digests", "while#0", [], "C33: SigBlock.parseSeqF, >= 8 bytes per iteration or struct.error", "defer"⟩,
  ⟨APKF, "APK.parse_v2_v3_signature", "while#0", [], "C33: SigBlock.scanEocd, position decreases by 1 per iteration down to 0", "defer"⟩,
  ⟨APKF, "APK.parse_v2_v3_signature", "while#1", [], "C33: SigBlock.walkF, 12 bytes per iteration or struct.error", "defer"⟩,
  ⟨APKF, "APK.parse_v3_signing_block", "while#0", [], "C33: SigBlock.parseSignersF, >= 4 bytes per iteration or struct.error", "defer"⟩,
  ⟨APKF, "APK.parse_v3_signing_block", "while#1", [], "C33: SigBlock.parseCertsF, >= 4 bytes per iteration or struct.error", "defer"⟩,
  ⟨APKF, "APK.parse_v2_signing_block", "while#0", [], "C33: SigBlock.parseSignersF", "defer"⟩,
  ⟨APKF, "APK.parse_v2_signing_block", "while#1", [], "C33: SigBlock.parseCertsF", "defer"⟩,
  ⟨APKF, "get_apkid", "while#0", ["71a3b9386a42cc6a"],
    "Loops.axmlDoc; axml_parse_steps_linear. same shape as AXMLPrinter.__init__: one `_do_next` per iteration; leaves by `break`, RuntimeError or an invalid parser", "lean"⟩
]

def covers (c : Cover) (l : String × String × String × String) : Bool :=
  c.file == l.1 && c.func == l.2.1 && c.kind == l.2.2.1 && (c.hashes.isEmpty || c.hashes.contains l.2.2.2)

/-- **Inventory.** Every `while` loop and every recursive function that gen/loops.py finds in the three
    parser modules of the working tree is an entry of `coverage` (same file, function, kind, and — for
    the loops this property owns — the same normalised-AST hash). -/
theorem loops_covered : ∀ l ∈ loops, coverage.any (covers · l) = true := by decide +kernel

/-- **What the inventory theorem does and does not carry.** Of the coverage entries, exactly these are backed
    by a Lean model with a proved bound ("lean"), rest on a written argument only ("prose"), or are owned by
    another property ("defer": LinearSweep → C02, resource resolution → C29, signing block / EOCD → C33). -/
theorem coverage_classes :
    (coverage.filter (·.cls == "lean")).length = 9 ∧
    (coverage.filter (·.cls == "prose")).length = 7 ∧
    (coverage.filter (·.cls == "defer")).length = 11 ∧
    coverage.length = 27 ∧
    (∀ c ∈ coverage, c.cls == "defer" ↔ c.hashes.isEmpty) := by decide +kernel

/-- count loops whose body does not itself read from the buffer, with the reason they are bounded -/
def countLoopExempt : List (String × String × String) := [
  (AXMLF, "AXMLPrinter.__init__", "self.axml.getAttributeCount()")   -- len(m_attributes) // 5: attributes already read, 20 bytes each
]

/-- **Declared counts.** Every `for` over a non-constant `range(..)` in a parse routine reads from the
    buffer (or builds an item from it) in every iteration — so it consumes at least one byte or raises
    `struct.error` at the end of the buffer — or iterates over data that was already read. -/
theorem count_loops_consume :
    ∀ l ∈ countLoops, l.2.2.2.1 = true ∨ (l.1, l.2.1, l.2.2.1) ∈ countLoopExempt := by decide +kernel

/-- count loops whose body repositions the buffer itself (found by the translator), each read by hand:
    all three seek FORWARD past what the iteration just read, so consumption stays sequential -/
def countLoopSeeks : List (String × String × String) := [
  (DEXF, "ClassHDefItem.__init__", "0,size"),    -- `idx = buff.tell(); ClassDefItem(buff); buff.seek(idx + 32)`: 32 bytes per iteration
  (DEXF, "CodeItem.__init__", "0,size"),         -- after a DalvikCode: `buff.seek(off + (4 - off % 4))`, alignment padding forward
  (DEXF, "MapList.__init__", "0,self.size")      -- `buff.seek(idx + mi.get_length())`: 12 bytes per iteration (Loops.mapListLoop)
]

/-- **Sequential vs. repositioned reads.** A count loop whose body calls `seek` does not consume the buffer
    sequentially by construction; every such loop is in the hand-read list above (forward seeks only).  Reads
    at absolute offsets made *inside* item constructors are not visible to this scan. -/
theorem count_loops_seek_audited :
    ∀ l ∈ countLoops, l.2.2.2.2 = true → (l.1, l.2.1, l.2.2.1) ∈ countLoopSeeks := by decide +kernel

/-- **Regular expressions.** Every `re.*` call that gen/loops.py finds in the three parser modules uses a
    pattern whose text is in the hand-audited list of linear-time patterns (Model/Loops.lean, one reason
    each) and that passes the translator's syntactic test for catastrophic shapes (a repeated group that can
    match the empty string or contains an overlapping variable repeat / alternation; adjacent overlapping
    variable repeats).  A new or changed pattern text breaks this theorem until it is audited. -/
theorem regexes_linear :
    ∀ r ∈ regexes, r.2.2.2 = false ∧ auditedRegexes.any (·.1 == r.2.2.1) = true := by decide +kernel

/-- **Generic loop.** Whatever the body, if every continuing iteration moves the position forward, the
    loop is never stuck and its iterations are bounded by the distance to the limit. -/
theorem progress_loop_bound {σ ρ : Type} (body : Nat → σ → Iter σ ρ) (limit pos : Nat) (st : σ)
    (hprog : ∀ pos st p st', pos < limit → body pos st = .next p st' → pos < p) :
    (run body limit pos st 0).isStuck = false ∧ (run body limit pos st 0).steps ≤ limit - pos := by
  have := run_bound body limit hprog (limit - pos) pos st 0 (Nat.le_refl _)
  simpa using this

/-- read_null_terminated_string (fixed): at most (bytes left) + 1 iterations, for every chunk size -/
theorem readNT_steps_le (chunk : Nat) (file : List Nat) (pos : Nat) :
    AgVerif.Mutf8.readNTSteps chunk file pos ≤ (file.length - pos) + 1 := by
  have := AgVerif.Mutf8.ntLoop_steps chunk file (file.length - pos) pos [] 0 (Nat.le_refl _)
  simpa [AgVerif.Mutf8.readNTSteps] using this

/-- read_null_terminated_string (fixed) raises when no terminator is left -/
theorem readNT_eof_raises (chunk : Nat) (file : List Nat) (pos : Nat)
    (h : ∀ b ∈ file.drop pos, b ≠ 0) : AgVerif.Mutf8.readNT chunk file pos = none :=
  AgVerif.Mutf8.ntLoop_eof chunk file (file.length - pos) pos [] 0 (Nat.le_refl _) h

/-- **Refutation for the code before the fix (D18).** At the end of the buffer the old loop body maps
    its state to itself and does not leave the loop: the `while True` never exits. -/
theorem readNT_old_no_progress (chunk : Nat) (file : List Nat) (pos : Nat) (acc : List Nat)
    (h : file.length ≤ pos) : AgVerif.Mutf8.ntBody false chunk file pos acc = .more pos acc := by
  have hd : file.drop pos = [] := List.drop_eq_nil_of_le h
  unfold AgVerif.Mutf8.ntBody
  simp [hd]

/-- ARSCHeader dummy-data skip: at most (bytes left) + 1 iterations; an accepted header lies inside the
    file, at or after the start position -/
theorem arsc_header_steps_le (f : List Nat) (start : Nat) :
    arscHeaderSteps f start ≤ (f.length - start) + 1 :=
  arscHeaderSteps_le f start

theorem arsc_header_inside (f : List Nat) (start : Nat) (h : Hdr) (hk : arscHeader f start = .ok h) :
    h.start = start ∧ start + 8 ≤ h.after ∧ h.after ≤ f.length ∧ 8 ≤ h.hsize ∧ h.hsize ≤ h.size :=
  arscHeader_ok f start h hk

/-- AXMLParser._do_next: never stuck; the chunk start advances by at least 8 bytes per iteration, so
    `8 · (iterations − 1) ≤ bytes left + 8`; beyond the end of the file the body stops at once. -/
theorem axml_do_next_never_stuck (f : List Nat) (filesize pos : Nat) :
    (doNext f filesize pos).isStuck = false :=
  (run_bound (doNextBody f filesize) f.length
    (fun p st q st' _ h => by have := doNextBody_progress f filesize p q st' h; omega)
    (f.length - pos) pos () 0 (Nat.le_refl _)).1

theorem axml_do_next_steps_le (f : List Nat) (filesize pos : Nat) :
    8 * (doNext f filesize pos).steps ≤ (f.length - pos) + 8 := by
  have := run_bound_k (doNextBody f filesize) f.length 8
    (fun p st q st' _ h => doNextBody_progress f filesize p q st' h)
    (f.length - pos) pos () 0 (Nat.le_refl _)
  simpa [doNext] using this

theorem axml_do_next_stops_beyond_end (f : List Nat) (filesize pos : Nat) (h : f.length ≤ pos) :
    ∃ r, doNextBody f filesize pos () = .stop r :=
  doNextBody_stops_at_end f filesize pos h

/-- ARSCParser chunk loops (outer and inner), for every behaviour `parse` of the per-chunk work -/
theorem arsc_chunks_steps_le (f : List Nat) (outerEnd : Nat) (parse : Hdr → Bool) (pos : Nat) :
    (arscChunks f outerEnd parse pos).isStuck = false ∧
    8 * (arscChunks f outerEnd parse pos).steps ≤ (f.length + 1 - pos) + 8 := by
  constructor
  · exact (run_bound (arscOuterBody f outerEnd parse) (f.length + 1)
      (fun p st q st' _ h => by have := arscOuterBody_progress f outerEnd parse p q st' h; omega)
      (f.length + 1 - pos) pos () 0 (Nat.le_refl _)).1
  · have := run_bound_k (arscOuterBody f outerEnd parse) (f.length + 1) 8
      (fun p st q st' _ h => arscOuterBody_progress f outerEnd parse p q st' h)
      (f.length + 1 - pos) pos () 0 (Nat.le_refl _)
    simpa [arscChunks] using this

/-- **AXML, whole document.** All `_do_next` calls that `AXMLPrinter.__init__` / `get_apkid` can make on a
    document — every event, every chunk-loop iteration of every call, nested ARSCHeader constructions counted
    once per iteration — composed: the sequence of calls never gets stuck (each tag / text event leaves the
    position at least 8 bytes further) and `8 · (total iterations) ≤ (bytes after the start position) + 16`,
    i.e. at most |input|/8 + 2 iterations for any file, any declared file size, any start position.
    (Each iteration additionally runs one ARSCHeader dummy-data scan, bounded by `arsc_header_steps_le`.) -/
theorem axml_parse_steps_linear (f : List Nat) (filesize pos : Nat) :
    (axmlDoc f filesize pos 0).2 = false ∧ 8 * (axmlDoc f filesize pos 0).1 ≤ (f.length - pos) + 16 := by
  have := axmlDoc_bound f filesize (f.length - pos) pos 0 (Nat.le_refl _)
  simpa using this

/-- **ARSC, whole table.** The outer chunk loop of `ARSCParser.__init__` with the inner chunk loop of every
    package chunk composed (inner loop from `next_idx = start + header_size + extra` to the package chunk's
    end), for every behaviour of the per-chunk work (`parse`, `parseIn` raise or not) and every `extra`:
    no loop is stuck and `8 · (outer + all inner iterations) ≤ 2 · (header.end − start position) + 16`.
    `header.end ≤ |file|` is enforced by the parser before the loop ("file seems to be truncated"). -/
theorem arsc_parse_steps_linear (f : List Nat) (outerEnd : Nat) (parse parseIn : Hdr → Bool)
    (extra : Hdr → Nat) (pos : Nat) :
    (arscParse f outerEnd parse parseIn extra pos).2 = false ∧
    8 * (arscParse f outerEnd parse parseIn extra pos).1 ≤ 2 * (outerEnd - pos) + 16 :=
  arscParse_bound f outerEnd parse parseIn extra pos

/-- DebugInfoItem: at least one byte per iteration -/
theorem debug_info_steps_le (f : List Nat) (pos op : Nat) :
    (dbgLoop f pos op).isStuck = false ∧ (dbgLoop f pos op).steps ≤ f.length + 1 - pos := by
  have := run_bound (dbgBody f) (f.length + 1)
    (fun p st q st' _ h => by have := dbgBody_progress f p st q st' h; omega)
    (f.length + 1 - pos) pos op 0 (Nat.le_refl _)
  simpa [dbgLoop] using this

/-- HiddenApiClassDataItem: four bytes per iteration -/
theorem hidden_api_steps_le (f : List Nat) (offset sectionSize : Nat) :
    (hiddenLoop f offset sectionSize).isStuck = false ∧
    4 * (hiddenLoop f offset sectionSize).steps ≤ (f.length + 1 - (offset + 4)) + 4 := by
  constructor
  · exact (run_bound (hiddenBody f offset sectionSize) (f.length + 1)
      (fun p st q st' _ h => by have := hiddenBody_progress f offset sectionSize p q st st' h; omega)
      (f.length + 1 - (offset + 4)) (offset + 4) ((0 : Int), 0) 0 (Nat.le_refl _)).1
  · have := run_bound_k (hiddenBody f offset sectionSize) (f.length + 1) 4
      (fun p st q st' _ h => hiddenBody_progress f offset sectionSize p q st st' h)
      (f.length + 1 - (offset + 4)) (offset + 4) ((0 : Int), 0) 0 (Nat.le_refl _)
    simpa [hiddenLoop] using this

/-- MapList: twelve bytes per iteration, whatever the declared size -/
theorem map_list_steps_le (f : List Nat) (pos size : Nat) :
    (mapListLoop f pos size).isStuck = false ∧
    12 * (mapListLoop f pos size).steps ≤ (f.length + 1 - pos) + 12 := by
  constructor
  · exact (run_bound (mapListBody f) (f.length + 1)
      (fun p st q st' _ h => by have := mapListBody_progress f p st q st' h; omega)
      (f.length + 1 - pos) pos size 0 (Nat.le_refl _)).1
  · have := run_bound_k (mapListBody f) (f.length + 1) 12
      (fun p st q st' _ h => mapListBody_progress f p st q st' h)
      (f.length + 1 - pos) pos size 0 (Nat.le_refl _)
    simpa [mapListLoop] using this

/-! ### non-vacuity -/

/-- a 20-byte file with no acceptable header at positions 4..8: the skip loop runs six times -/
example : (hdrSkip [0,0,0,0, 0,0,0,0, 0,0,0,0, 1,0,8,0, 8,0,0,0] 4 0).2 = 6 := by
  simp [hdrSkip, hdrAt, le, ARSC_HEADER_SIZE]
/-- a map list that declares 2^32-1 items in a 30-byte file stops after three iterations -/
example : (mapListLoop (List.replicate 30 7) 4 4294967295).steps = 3 := by
  simp [mapListLoop, run, mapListBody, rd, Outcome.steps]
/-- a debug sequence: ADVANCE_PC 5, SET_FILE 1, END -/
example : dbgLoop [1, 5, 9, 1, 0] 1 1 = .exit 3 true := by
  simp [dbgLoop, run, dbgBody, lebSkipN, lebSkip, lebLen, dbgOperandCount, dbgOperands, DBG_END_SEQUENCE]
/-- the generic theorem applies to a body that really continues -/
example : ∀ pos st p st', pos < 10 → (fun (q : Nat) (_ : Unit) => (Iter.next (q + 1) () : Iter Unit Unit)) pos st
    = .next p st' → pos < p := by
  intro pos st p st' _ h; injection h with h _; omega

end AgVerif.C35
