/-
C04 — Encoded constant values keep their declared width and signedness.
Property theorems only (lemmas: AgVerif/Proof/EncodedValue.lean, AgVerif/Proof/EncodedValuePrint.lean).

Model: AgVerif.EncodedValue (EncodedValue.__init__ / _getintvalue / _getfloatvalue, EncodedArray,
EncodedAnnotation, AnnotationElement, ClassDataItem.set_static_fields, get_field_init_literal — the
code WITH fixes/C04-encoded-value-sign.diff), dispatching through the generated table
AgVerif.Gen.ValueTypes.dispatch.   Spec: AgVerif.Spec.EncodedValue (DEX format document, JLS literals).
-/
import AgVerif.Proof.EncodedValue
import AgVerif.Proof.EncodedValuePrint
import AgVerif.Proof.EncodedValueCompose
import AgVerif.Proof.EncodedValueString
namespace AgVerif.C04
open AgVerif.EncodedValue AgVerif.Gen.ValueTypes
open AgVerif.Spec.EncodedValue (le sext SValue Encodes Elem Pools scalar staticInit javaLiteralValue assignable JVal
  JDen declared readBack isNaN32 isNaN64)

/-- the generated `VALUE_*` constants are the type codes of the format document -/
theorem value_constants :
    VALUE_BYTE = 0x00 ∧ VALUE_SHORT = 0x02 ∧ VALUE_CHAR = 0x03 ∧ VALUE_INT = 0x04 ∧ VALUE_LONG = 0x06 ∧
    VALUE_FLOAT = 0x10 ∧ VALUE_DOUBLE = 0x11 ∧ VALUE_STRING = 0x17 ∧ VALUE_TYPE = 0x18 ∧
    VALUE_FIELD = 0x19 ∧ VALUE_METHOD = 0x1a ∧ VALUE_ENUM = 0x1b ∧ VALUE_ARRAY = 0x1c ∧
    VALUE_ANNOTATION = 0x1d ∧ VALUE_NULL = 0x1e ∧ VALUE_BOOLEAN = 0x1f ∧ argShift = 5 ∧ typeMask = 0x1f := by
  decide

/-- Scalar rows, every value type, every legal value_arg, ALL payload bytes: the header byte
    `(value_arg << 5) | value_type` followed by the prescribed payload is read as the value the
    format document defines (byte/short/int/long sign-extended from the stored width, char and the
    index types zero-extended, float/double zero-extended to the right, boolean in value_arg, null),
    consuming exactly header + payload, whatever follows. -/
theorem value_spec_scalar (P : Pools) (t a : Nat) (p : List Nat) (v : SValue) (rest : List Nat)
    (ht : t < 32) (hp : ∀ b ∈ p, b < 256) (hs : scalar t a p = some v) :
    decode (toCM P) ((a * 32 + t) :: (p ++ rest)) = .ok (embed P v, 1 + p.length) :=
  decode_scalar P t a p v rest _ ht hp hs

/-- Full format, recursion included: every byte string that is one encoded_value (arrays and
    sub-annotations nested to any depth, uleb128 counts canonical or not) decodes to the value it
    denotes and the decoder stops exactly at its end, whatever follows. -/
theorem value_spec (P : Pools) (bs : List Nat) (v : SValue) (rest : List Nat) (h : Encodes bs v) :
    decode (toCM P) (bs ++ rest) = .ok (embed P v, bs.length) :=
  decodeValue_encodes P bs v h rest _ (by simp; omega)

/-- the sign boundary: `-1` stored in one byte is `-1` for every signed type (the witness of D5) -/
theorem minus_one_one_byte (P : Pools) (t : Nat) (h : t = 0x00 ∨ t = 0x02 ∨ t = 0x04 ∨ t = 0x06) :
    ∃ vt, decode (toCM P) [t, 0xff] = .ok (.int vt (-1), 2) := by
  rcases h with rfl | rfl | rfl | rfl <;> exact ⟨_, rfl⟩

/-- SAMPLES (five literal buffers) of truncated input that is an error; the general statements are
    `truncated_array`, `truncated_byte`, `truncated_payload_reads_short_*` below -/
theorem truncated_error (cm : CM) :
    decode cm [] = .error .struct ∧ decode cm [0x1c] = .error .struct ∧
    decode cm [0x1c, 0x01] = .error .struct ∧ decode cm [0x1d, 0x00] = .error .struct ∧
    decode cm [0x00] = .error .struct := by
  refine ⟨rfl, rfl, rfl, rfl, rfl⟩

/-- set_static_fields, never more values than static fields: field `i` gets value `i`, the fields
    after the last value get none, nothing else changes (the list of fields keeps its length). -/
theorem bind_spec {α : Type} (vs : List α) (n : Nat) (h : vs.length ≤ n) (i : Nat) :
    (bindStatics (some vs) (List.replicate n none))[i]? = staticInit vs n i ∧
    (bindStatics (some vs) (List.replicate n none)).length = n :=
  bindStatics_spec vs n h i

/-- no static values: nothing is bound -/
theorem bind_none {α : Type} (fields : List (Option α)) : bindStatics none fields = fields := rfl

/-- more values than static fields (malformed file): the code binds nothing at all -/
theorem bind_overlong {α : Type} (vs : List α) (fields : List (Option α)) (h : fields.length < vs.length) :
    bindStatics (some vs) fields = fields := by
  have : ¬ vs.length ≤ fields.length := by omega
  simp [bindStatics, this]

/-! ### the printed field initialiser (get_field_init_literal), read back as Java source
`javaLiteralValue` is the Java reading of the text (JLS 3.10.1: decimal/hex integer literals with the
2^31 / 2^63 limits and the unary-minus rule, no leading zeros, `L` suffix; boolean and null literals);
`assignable` is assignment conversion of the constant to the field's declared type (JLS 5.2). -/

/-- `byte` fields (`hex(v)`): every byte value -/
theorem print_denotes_byte (vt : Nat) (v : Int) (hlo : -128 ≤ v) (hhi : v < 128) :
    ((printInit "B" (.int vt v)).bind javaLiteralValue).bind (assignable "B") = some v := by
  have h := hex32_denotes v (by omega) (by omega)
  simp [printInit, h, assignable, hlo, hhi]

/-- `short` fields: every 16-bit value -/
theorem print_denotes_short (vt : Nat) (v : Int) (hlo : -32768 ≤ v) (hhi : v < 32768) :
    ((printInit "S" (.int vt v)).bind javaLiteralValue).bind (assignable "S") = some v := by
  have h := dec32_denotes v (by omega) (by omega)
  simp [printInit, h, assignable, hlo, hhi]

/-- `char` fields (printed as the code unit's number): every 16-bit unsigned value -/
theorem print_denotes_char (vt : Nat) (v : Int) (hlo : 0 ≤ v) (hhi : v < 65536) :
    ((printInit "C" (.int vt v)).bind javaLiteralValue).bind (assignable "C") = some v := by
  have h := dec32_denotes v (by omega) (by omega)
  simp [printInit, h, assignable, hlo, hhi]

/-- `int` fields: every 32-bit value (MIN is printed as `-2147483648`, legal only with the minus) -/
theorem print_denotes_int (vt : Nat) (v : Int) (hlo : -2 ^ 31 ≤ v) (hhi : v < 2 ^ 31) :
    ((printInit "I" (.int vt v)).bind javaLiteralValue).bind (assignable "I") = some v := by
  have h := dec32_denotes v hlo hhi
  simp [printInit, h, assignable]

/-- `long` fields (`L` suffix): every 64-bit value -/
theorem print_denotes_long (vt : Nat) (v : Int) (hlo : -2 ^ 63 ≤ v) (hhi : v < 2 ^ 63) :
    (printInit "J" (.int vt v)).bind javaLiteralValue = some (.long v) ∧
    ((printInit "J" (.int vt v)).bind javaLiteralValue).bind (assignable "J") = some v := by
  have h := dec64_denotes v hlo hhi
  simp [printInit, h, assignable]

/-- `boolean` fields and null references -/
theorem print_denotes_boolean (proto : String) (b : Bool) :
    (printInit proto (.bool b)).bind javaLiteralValue = some (.bool b) := by
  cases b <;> rfl

theorem print_denotes_null (proto : String) :
    (printInit proto .null).bind javaLiteralValue = some .null := rfl

/-- non-finite float / double values: printed as the constants of java.lang.Float / Double, read back
    as the same infinity / as NaN.  (FINITE float and double values are printed through Python's
    `repr`, which is not modelled: no theorem, see `PrintProved`.) -/
theorem print_denotes_float_nonfinite (P : Pools) (b : Nat)
    (h : isNaN32 b = true ∨ b = 0x7f800000 ∨ b = 0xff800000) :
    (printInit "F" (embed P (.float b))).bind (readBack "F")
      = some (if isNaN32 b then .floatNaN else .floatBits b) :=
  print_declared P (.float b) "F" _ rfl trivial h

theorem print_denotes_double_nonfinite (P : Pools) (b : Nat)
    (h : isNaN64 b = true ∨ b = 0x7ff0000000000000 ∨ b = 0xfff0000000000000) :
    (printInit "D" (embed P (.double b))).bind (readBack "D")
      = some (if isNaN64 b then .doubleNaN else .doubleBits b) :=
  print_declared P (.double b) "D" _ rfl trivial h

/-- the value ranges are not assumptions: every encoded byte/short/char/int/long value lies in the
    range of its Java type, because the format limits value_arg -/
theorem encoded_value_in_range (bs : List Nat) (v : SValue) (h : Encodes bs v) : InRange v :=
  encodes_inRange bs v h

/-- COMPOSED: decode → bind → print.  The static-values array of a class (`encoded_array`: uleb128
    count `item`, then the encoded values `parts`, anything after it) with at most as many values as
    the class has static fields (`n`): the array decodes, field `i` is bound to the `i`-th decoded
    value, and for every value kind that has a Java field type (`declared`: byte, short, char, int,
    long, boolean, null, float, double) — except FINITE float/double (`PrintProved`) — the initialiser
    the decompiler prints for a field of that type reads back (Java literal + assignment conversion)
    as exactly the encoded value.  No range hypothesis: it follows from the encoding. -/
theorem static_init_print (P : Pools) (item : List Nat) (parts : List (List Nat × SValue))
    (rest : List Nat) (n i : Nat) (hi : AgVerif.Spec.Leb.IsItem item) (hl : item.length ≤ 5)
    (hv : AgVerif.Spec.Leb.unsignedValue item = some parts.length)
    (hparts : ∀ p ∈ parts, Encodes p.1 p.2) (hn : parts.length ≤ n)
    (p : List Nat × SValue) (hp : parts[i]? = some p) (proto : String) (den : JDen)
    (hd : declared p.2 = some (proto, den)) (hm : PrintProved p.2) :
    ∃ vals k, decodeArray (toCM P) (item ++ ((parts.map (·.1)).flatten ++ rest)) = .ok (vals, k) ∧
      (bindStatics (some vals) (List.replicate n none))[i]? = some (some (embed P p.2)) ∧
      (printInit proto (embed P p.2)).bind (readBack proto) = some den :=
  static_init_print_aux P item parts rest n i hi hl hv hparts hn p hp proto den hd hm

/-! ### String initialisers
The printer is `string(str(value))` (fixes/C04-string-initialiser-literal.diff): `printStringInit` is the model
of writer.string() (AgVerif.JavaString.escape, constants regenerated from writer.py on every run).  Java's
reading is `AgVerif.Spec.JavaLex.javaLex` (JLS 3.3 unicode translation + 3.10.5/3.10.7 string literals). -/

/-- For EVERY string (any code points, surrogates and supplementary characters included) the printed
    String initialiser is one Java string literal that denotes exactly the string's UTF-16 code units
    (C23.literal_denotes applied to this printing site). -/
theorem print_denotes_string (s : List Nat) (h : ∀ c ∈ s, AgVerif.Spec.JavaLex.IsCodePoint c) :
    AgVerif.Spec.JavaLex.javaLex (AgVerif.Spec.JavaLex.utf16 (printStringInit s))
      = some (AgVerif.Spec.JavaLex.utf16 s) :=
  print_string_all s h

/-- The printer before the repair (`printStringInitOld`: Python unicode-escape between bare quotes) was
    right exactly on the `JavaSafe` code points (printable ASCII except `"` and `'`, backslash,
    TAB/LF/CR, all of U+0100..U+FFFF) … -/
theorem print_denotes_string_old_safe (s : List Nat) (h : ∀ c ∈ s, JavaSafe c) :
    AgVerif.Spec.JavaLex.javaLex (AgVerif.Spec.JavaLex.utf16 (printStringInitOld s))
      = some (AgVerif.Spec.JavaLex.utf16 s) :=
  print_string_safe s h

/-- … and wrong outside (the repaired defect `string-initialiser-python-unicode-escape`): a double
    quote was printed unescaped and U+00E9 was printed `\xe9`; neither text is a Java literal of the
    string.  The repaired printer handles both. -/
theorem string_initialiser_old_refuted :
    AgVerif.Spec.JavaLex.javaLex (AgVerif.Spec.JavaLex.utf16 (printStringInitOld [0x61, 0x22, 0x62]))
      ≠ some (AgVerif.Spec.JavaLex.utf16 [0x61, 0x22, 0x62]) ∧
    AgVerif.Spec.JavaLex.javaLex (AgVerif.Spec.JavaLex.utf16 (printStringInitOld [0xe9])) = none ∧
    AgVerif.Spec.JavaLex.javaLex (AgVerif.Spec.JavaLex.utf16 (printStringInit [0x61, 0x22, 0x62]))
      = some (AgVerif.Spec.JavaLex.utf16 [0x61, 0x22, 0x62]) ∧
    AgVerif.Spec.JavaLex.javaLex (AgVerif.Spec.JavaLex.utf16 (printStringInit [0xe9]))
      = some (AgVerif.Spec.JavaLex.utf16 [0xe9]) :=
  ⟨by decide, by decide, print_string_all _ (by decide), print_string_all _ (by decide)⟩

/-! ### truncated input, in general -/

/-- an encoded_array announcing more elements than are present (any well-formed elements, any
    surplus `k + 1`) is an error (struct.error), never a value -/
theorem truncated_array (P : Pools) (item : List Nat) (parts : List (List Nat × SValue)) (k : Nat)
    (hi : AgVerif.Spec.Leb.IsItem item) (hl : item.length ≤ 5)
    (hv : AgVerif.Spec.Leb.unsignedValue item = some (parts.length + k + 1))
    (hparts : ∀ p ∈ parts, Encodes p.1 p.2) :
    decode (toCM P) (0x1c :: (item ++ (parts.map (·.1)).flatten)) = .error .struct :=
  truncated_array_aux P item parts k hi hl hv hparts

/-- VALUE_BYTE, any value_arg, nothing after the header: struct.error -/
theorem truncated_byte (cm : CM) (a : Nat) : decode cm [a * 32 + 0x00] = .error .struct :=
  truncated_byte_aux cm a

/-- What the code really does with a payload shorter than value_arg + 1 for the multi-byte integer
    types (every such type, every value_arg, every shorter payload): `buff.read` returns what is
    left and the value is made from those bytes — NOT an error.  (Outside the format; stated so that
    nobody reads `truncated_error` as "every truncation is rejected".) -/
theorem truncated_payload_reads_short_signed (cm : CM) (t a : Nat) (p : List Nat)
    (ht : t = 0x02 ∨ t = 0x04 ∨ t = 0x06) (hl : p.length ≤ a + 1) (hp : ∀ b ∈ p, b < 256) (hne : p ≠ []) :
    decode cm ((a * 32 + t) :: p) = .ok (.int t (sext (8 * p.length) (le p)), 1 + p.length) := by
  rcases ht with rfl | rfl | rfl
  · exact read_short_intS cm _ a p (by omega) kind_short hl hp hne
  · exact read_short_intS cm _ a p (by omega) kind_int hl hp hne
  · exact read_short_intS cm _ a p (by omega) kind_long hl hp hne

theorem truncated_payload_reads_short_char (cm : CM) (a : Nat) (p : List Nat)
    (hl : p.length ≤ a + 1) (hp : ∀ b ∈ p, b < 256) :
    decode cm ((a * 32 + 0x03) :: p) = .ok (.int 0x03 (le p : Int), 1 + p.length) :=
  read_short_intU cm _ a p (by omega) kind_char hl hp

/-! Non-vacuity -/
-- static values [INT -1 (one byte), LONG MIN, BOOLEAN true] of a class with four static fields satisfy the
-- hypotheses of `static_init_print` for field 1 (a long, printed `-9223372036854775808L`)
example :
    AgVerif.Spec.Leb.IsItem [0x03] ∧
    AgVerif.Spec.Leb.unsignedValue [0x03] = some
      [([0x04, 0xff], SValue.int (-1)), ([0xe6, 0, 0, 0, 0, 0, 0, 0, 0x80], SValue.long (-9223372036854775808)),
        ([0x3f], SValue.boolean true)].length ∧
    (∀ p ∈ [([0x04, 0xff], SValue.int (-1)), ([0xe6, 0, 0, 0, 0, 0, 0, 0, 0x80], SValue.long (-9223372036854775808)),
        ([0x3f], SValue.boolean true)], Encodes p.1 p.2) ∧
    declared (SValue.long (-9223372036854775808)) = some ("J", .num (-9223372036854775808)) ∧
    PrintProved (SValue.long (-9223372036854775808)) := by
  refine ⟨by decide, by decide, ?_, rfl, trivial⟩
  intro p hp
  simp only [List.mem_cons, List.not_mem_nil, or_false] at hp
  rcases hp with rfl | rfl | rfl
  · exact Encodes.scalar 0x04 0 [0xff] _ (by decide) (by decide) (by decide) rfl
  · exact Encodes.scalar 0x06 7 [0, 0, 0, 0, 0, 0, 0, 0x80] _ (by decide) (by decide) (by decide) rfl
  · exact Encodes.scalar 0x1f 1 [] _ (by decide) (by decide) (by decide) rfl
example : (printInit "J" (.int 6 (-9223372036854775808))).bind (readBack "J")
    = some (.num (-9223372036854775808)) := by decide
example : JavaSafe 0x5c ∧ JavaSafe 0x4e2d ∧ printStringInitOld [0x5c, 0x4e2d, 0x09]
    = [0x22, 0x5c, 0x5c, 0x5c, 0x75, 0x34, 0x65, 0x32, 0x64, 0x5c, 0x74, 0x22] := by
  refine ⟨by unfold JavaSafe; omega, by unfold JavaSafe; omega, by decide⟩
-- a quote, U+00E9, a lone surrogate and U+1F600 satisfy the hypothesis of `print_denotes_string`
example : ∀ c ∈ [0x22, 0xe9, 0xd800, 0x1f600], AgVerif.Spec.JavaLex.IsCodePoint c := by decide
example : printInit "F" (.float 0x7fc00001) = some "Float.NaN".toList ∧
    printInit "D" (.double 0xfff0000000000000) = some "Double.NEGATIVE_INFINITY".toList ∧
    printInit "F" (.float 0x3f800000) = none := by decide
example : printInit "B" (.int 0 (-128)) = some "-0x80".toList := by decide
example : printInit "J" (.int 6 (-9223372036854775808)) = some "-9223372036854775808L".toList := by decide
example : javaLiteralValue "2147483648".toList = none ∧ javaLiteralValue "010".toList = none ∧
    javaLiteralValue "-2147483648".toList = some (.int (-2147483648)) := by decide

-- INT -1 in one byte, LONG MIN in eight, a nested array [BYTE -128, [BOOLEAN true]], an annotation
example : Encodes [0x04, 0xff] (.int (-1)) :=
  Encodes.scalar 0x04 0 [0xff] _ (by decide) (by decide) (by decide) rfl
example : Encodes [0xe6, 0, 0, 0, 0, 0, 0, 0, 0x80] (.long (-9223372036854775808)) :=
  Encodes.scalar 0x06 7 [0, 0, 0, 0, 0, 0, 0, 0x80] _ (by decide) (by decide) (by decide) rfl
example : Encodes [0x1c, 0x02, 0x00, 0x80, 0x1c, 0x01, 0x3f]
    (.array [.byte (-128), .array [.boolean true]]) :=
  Encodes.array [0x02] [([0x00, 0x80], .byte (-128)), ([0x1c, 0x01, 0x3f], .array [.boolean true])]
    (by decide) (by decide) (by decide) (by
      intro p hp
      simp only [List.mem_cons, List.not_mem_nil, or_false] at hp
      rcases hp with rfl | rfl
      · exact Encodes.scalar 0x00 0 [0x80] _ (by decide) (by decide) (by decide) rfl
      · exact Encodes.array [0x01] [([0x3f], .boolean true)] (by decide) (by decide) (by decide) (by
          intro q hq
          simp only [List.mem_cons, List.not_mem_nil, or_false] at hq
          subst hq
          exact Encodes.scalar 0x1f 1 [] _ (by decide) (by decide) (by decide) rfl))
example (cm : CM) : decode cm [0x1c, 0x02, 0x00, 0x80, 0x1c, 0x01, 0x3f, 0xaa]
    = .ok (.array [.int 0 (-128), .array [.bool true]], 7) := rfl
example (cm : CM) : decode cm [0x1d, 0x05, 0x01, 0x07, 0x22, 0x00, 0x80]
    = .ok (.annotation 5 [(7, .int 2 (-32768))], 7) := rfl
example : bindStatics (some [10, 20]) [none, none, none] = [some 10, some 20, none] := rfl

end AgVerif.C04
