/-
C03 — LEB128 integers decode to the value their bytes encode.
Property theorems only (helper lemmas live in AgVerif/Proof/Leb.lean).

Model: AgVerif.Leb (transliteration of readuleb128 / readuleb128p1 / readsleb128 /
writeuleb128 / writesleb128).   Spec: AgVerif.Spec.Leb (DEX format document).
All theorems quantify over every byte list / every integer in the stated domain.

Tie by translation: AgVerif.Gen.PyLeb is generated from the Python source of the tree under test
by gen/py2lean.py (statement by statement; subset and conventions in its docstring, operator
meaning in Model/PyInt.lean).  The `gen_*_eq` theorems prove that each generated definition IS the
hand model (in canonical form: values as Python ints, remaining bytes instead of a count), for
every input; the `src_*` theorems restate the main results directly about the generated code.
-/
import AgVerif.Proof.Leb
import AgVerif.Proof.PyLeb
namespace AgVerif.C03
open AgVerif.Leb AgVerif.Spec.Leb

/-- Every unsigned LEB128 item of 1..5 bytes (canonical or not) whose payload fits 32 bits
    decodes to the value the specification defines, consuming exactly the item. -/
theorem uleb_decode_spec (item rest : List Nat) (v : Nat)
    (hi : IsItem item) (hl : item.length ≤ 5) (hv : unsignedValue item = some v) :
    readUleb (item ++ rest) = some (v, item.length) := by
  unfold unsignedValue at hv
  split at hv <;> simp at hv
  subst hv
  match item, hi, hl with
  | [b0], hi, _ => exact readUleb_1 b0 rest hi
  | [b0, b1], hi, _ =>
    simp only [IsItem] at hi; exact readUleb_2 b0 b1 rest hi.1 hi.2.2
  | [b0, b1, b2], hi, _ =>
    simp only [IsItem] at hi; exact readUleb_3 b0 b1 b2 rest hi.1 hi.2.2.1 hi.2.2.2.2
  | [b0, b1, b2, b3], hi, _ =>
    simp only [IsItem] at hi
    exact readUleb_4 b0 b1 b2 b3 rest hi.1 hi.2.2.1 hi.2.2.2.2.1 hi.2.2.2.2.2.2
  | [b0, b1, b2, b3, b4], hi, _ =>
    simp only [IsItem] at hi
    simp only [List.cons_append, List.nil_append]
    rw [readUleb_5_raw b0 b1 b2 b3 b4 rest hi.1 hi.2.2.1 hi.2.2.2.2.1 hi.2.2.2.2.2.2.1,
      payload_5 _ _ _ _ _ hi.2.2.2.2.2.2.2.2]
    rfl
  | _ :: _ :: _ :: _ :: _ :: _ :: _, _, hl => simp at hl

/-- Outside the 32-bit domain (fifth byte above 0x0f, where the code only logs a warning)
    the code returns the untruncated number `payload(first four) + b4·2^28`. -/
theorem uleb_decode_outside (b0 b1 b2 b3 b4 : Nat) (rest : List Nat)
    (h0 : 128 ≤ b0) (h1 : 128 ≤ b1) (h2 : 128 ≤ b2) (h3 : 128 ≤ b3) :
    readUleb (b0 :: b1 :: b2 :: b3 :: b4 :: rest)
      = some (payload [b0, b1, b2, b3] + b4 * 2 ^ 28, 5) :=
  readUleb_5_raw b0 b1 b2 b3 b4 rest h0 h1 h2 h3

/-- uleb128p1 is the unsigned value minus one (so that -1 is representable). -/
theorem ulebp1_decode_spec (item rest : List Nat) (v : Nat)
    (hi : IsItem item) (hl : item.length ≤ 5) (hv : unsignedValue item = some v) :
    readUlebP1 (item ++ rest) = some ((v : Int) - 1, item.length) := by
  unfold readUlebP1; rw [uleb_decode_spec item rest v hi hl hv]

/-- Every signed LEB128 item of 1..5 bytes inside the 32-bit domain decodes to the
    sign-extended value the specification defines. -/
theorem sleb_decode_spec (item rest : List Nat) (v : Int)
    (hi : IsItem item) (hl : item.length ≤ 5) (hv : signedValue item = some v) :
    readSleb (item ++ rest) = some (v, item.length) := by
  match item, hi, hl, hv with
  | [b0], hi, _, hv =>
    simp [signedValue] at hv; subst hv; exact readSleb_1 b0 rest hi
  | [b0, b1], hi, _, hv =>
    simp [signedValue] at hv; subst hv
    simp only [IsItem] at hi; exact readSleb_2 b0 b1 rest hi.1 hi.2.1 hi.2.2
  | [b0, b1, b2], hi, _, hv =>
    simp [signedValue] at hv; subst hv
    simp only [IsItem] at hi
    exact readSleb_3 b0 b1 b2 rest hi.1 hi.2.1 hi.2.2.1 hi.2.2.2.1 hi.2.2.2.2
  | [b0, b1, b2, b3], hi, _, hv =>
    simp [signedValue] at hv; subst hv
    simp only [IsItem] at hi
    exact readSleb_4 b0 b1 b2 b3 rest hi.1 hi.2.1 hi.2.2.1 hi.2.2.2.1 hi.2.2.2.2.1
      hi.2.2.2.2.2.1 hi.2.2.2.2.2.2
  | [b0, b1, b2, b3, b4], hi, _, hv =>
    simp only [IsItem] at hi
    simp only [List.cons_append, List.nil_append]
    rw [readSleb_5 b0 b1 b2 b3 b4 rest hi.1 hi.2.1 hi.2.2.1 hi.2.2.2.1 hi.2.2.2.2.1
      hi.2.2.2.2.2.1 hi.2.2.2.2.2.2.1 hi.2.2.2.2.2.2.2.1 hi.2.2.2.2.2.2.2.2]
    simp only [signedValue, List.length] at hv
    have hp : payload [b0, b1, b2, b3, b4] < 2 ^ 35 := by simp only [payload]; omega
    split at hv
    · omega
    · split at hv
      · rename_i hd
        simp at hv; subst hv
        rw [slebFix_35 _ hp hd]; rfl
      · simp at hv
  | _ :: _ :: _ :: _ :: _ :: _ :: _, _, hl, _ => simp at hl

/-- Five bytes, any payload (also outside the domain): exactly what the code returns. -/
theorem sleb_decode_outside (b0 b1 b2 b3 b4 : Nat) (rest : List Nat)
    (h0 : 128 ≤ b0) (h0' : b0 < 256) (h1 : 128 ≤ b1) (h1' : b1 < 256) (h2 : 128 ≤ b2)
    (h2' : b2 < 256) (h3 : 128 ≤ b3) (h3' : b3 < 256) (h4 : b4 < 128) :
    readSleb (b0 :: b1 :: b2 :: b3 :: b4 :: rest) =
      some ((let p := payload [b0, b1, b2, b3, b4]
             if p > 0x7FFFFFFF then ((p % 2 ^ 31 : Nat) : Int) - 2 ^ 31 else (p : Int)), 5) := by
  rw [readSleb_5 b0 b1 b2 b3 b4 rest h0 h0' h1 h1' h2 h2' h3 h3' h4, slebFix_35_raw]

/-- A buffer that ends inside an item is an error (struct.error in the code), never a value. -/
theorem uleb_truncated_error (b0 : Nat) (h0 : 128 ≤ b0) : readUleb [b0] = none := by
  have : b0 > 0x7F := by omega
  simp [readUleb, this]
theorem uleb_empty_error : readUleb [] = none := rfl
theorem sleb_empty_error : readSleb [] = none := rfl

/-- General truncation, unsigned: a buffer that ends after 0..4 bytes that all have the continuation
    bit set (every proper prefix of an item, and every such run in general) is an error
    (`struct.error` of the read past the end), never a value. -/
theorem uleb_truncated (bs : List Nat) (hl : bs.length ≤ 4) (hc : ∀ b ∈ bs, 128 ≤ b) :
    readUleb bs = none := by
  match bs, hl, hc with
  | [], _, _ => rfl
  | [b0], _, hc =>
    have h0 : b0 > 0x7F := by have := hc b0 (by simp); omega
    simp [readUleb, h0]
  | [b0, b1], _, hc =>
    have h0 : b0 > 0x7F := by have := hc b0 (by simp); omega
    have h1 : b1 > 0x7F := by have := hc b1 (by simp); omega
    simp [readUleb, h0, h1]
  | [b0, b1, b2], _, hc =>
    have h0 : b0 > 0x7F := by have := hc b0 (by simp); omega
    have h1 : b1 > 0x7F := by have := hc b1 (by simp); omega
    have h2 : b2 > 0x7F := by have := hc b2 (by simp); omega
    simp [readUleb, h0, h1, h2]
  | [b0, b1, b2, b3], _, hc =>
    have h0 : b0 > 0x7F := by have := hc b0 (by simp); omega
    have h1 : b1 > 0x7F := by have := hc b1 (by simp); omega
    have h2 : b2 > 0x7F := by have := hc b2 (by simp); omega
    have h3 : b3 > 0x7F := by have := hc b3 (by simp); omega
    simp [readUleb, h0, h1, h2, h3]
  | _ :: _ :: _ :: _ :: _ :: _, hl, _ => simp at hl

/-- General truncation, uleb128p1. -/
theorem ulebp1_truncated (bs : List Nat) (hl : bs.length ≤ 4) (hc : ∀ b ∈ bs, 128 ≤ b) :
    readUlebP1 bs = none := by
  unfold readUlebP1; rw [uleb_truncated bs hl hc]

/-- General truncation, signed: the loop reads the next byte after every continuation byte, so a
    buffer that ends after 0..4 continuation bytes is an error (`struct.error`), never a value. -/
theorem sleb_truncated (bs : List Nat) (hl : bs.length ≤ 4) (hc : ∀ b ∈ bs, 128 ≤ b ∧ b < 256) :
    readSleb bs = none := by
  match bs, hl, hc with
  | [], _, _ => rfl
  | [b0], _, hc =>
    have h0 := and80_nz (hc b0 (by simp)).1 (hc b0 (by simp)).2
    simp [readSleb, readSlebLoop, h0]
  | [b0, b1], _, hc =>
    have h0 := and80_nz (hc b0 (by simp)).1 (hc b0 (by simp)).2
    have h1 := and80_nz (hc b1 (by simp)).1 (hc b1 (by simp)).2
    simp [readSleb, readSlebLoop, h0, h1]
  | [b0, b1, b2], _, hc =>
    have h0 := and80_nz (hc b0 (by simp)).1 (hc b0 (by simp)).2
    have h1 := and80_nz (hc b1 (by simp)).1 (hc b1 (by simp)).2
    have h2 := and80_nz (hc b2 (by simp)).1 (hc b2 (by simp)).2
    simp [readSleb, readSlebLoop, h0, h1, h2]
  | [b0, b1, b2, b3], _, hc =>
    have h0 := and80_nz (hc b0 (by simp)).1 (hc b0 (by simp)).2
    have h1 := and80_nz (hc b1 (by simp)).1 (hc b1 (by simp)).2
    have h2 := and80_nz (hc b2 (by simp)).1 (hc b2 (by simp)).2
    have h3 := and80_nz (hc b3 (by simp)).1 (hc b3 (by simp)).2
    simp [readSleb, readSlebLoop, h0, h1, h2, h3]
  | _ :: _ :: _ :: _ :: _ :: _, hl, _ => simp at hl

/-- encode then decode, unsigned: every 32-bit value. -/
theorem uleb_roundtrip (v : Nat) (rest : List Nat) (hv : v < 2 ^ 32) :
    readUleb (writeUlebNat v ++ rest) = some (v, (writeUlebNat v).length) :=
  (uleb_roundtrip_aux v rest hv).1

/-- the encoder emits 1..5 bytes forming one item whose payload is the value. -/
theorem write_len_le_5 (v : Nat) (hv : v < 2 ^ 32) :
    (writeUlebNat v).length ≤ 5 ∧ IsItem (writeUlebNat v) ∧ payload (writeUlebNat v) = v :=
  (uleb_roundtrip_aux v [] hv).2

/-- writeuleb128 refuses negative values (ValueError). -/
theorem writeuleb_neg_error (v : Int) (h : v < 0) : writeUleb v = none := by
  simp [writeUleb, h]

/-- encode then decode, uleb128p1: every value in -1 .. 2^32-2. -/
theorem ulebp1_roundtrip (v : Int) (rest : List Nat) (hlo : -1 ≤ v) (hhi : v < 2 ^ 32 - 1) :
    ∃ bs, writeUleb (v + 1) = some bs ∧ readUlebP1 (bs ++ rest) = some (v, bs.length) := by
  have h0 : ¬ (v + 1 < 0) := by omega
  refine ⟨writeUlebNat (v + 1).toNat, by simp [writeUleb, h0], ?_⟩
  unfold readUlebP1
  rw [uleb_roundtrip _ rest (by omega)]
  simp only [Option.some.injEq, Prod.mk.injEq, and_true]
  omega

/-- encode then decode, signed: every 32-bit value; at most five bytes. -/
theorem sleb_roundtrip (v : Int) (rest : List Nat) (hlo : -2 ^ 31 ≤ v) (hhi : v < 2 ^ 31) :
    ∃ bs, writeSleb v = some bs ∧ bs.length ≤ 5 ∧ readSleb (bs ++ rest) = some (v, bs.length) :=
  sleb_roundtrip_aux v rest hlo hhi

/-! ### the source, translated, is the model -/

/-- readuleb128 as translated from the source = the hand model, on every byte list. -/
theorem gen_readuleb128_eq (bs : List Nat) :
    Gen.PyLeb.readuleb128 bs = PyLeb.rd (fun v : Nat => (v : Int)) bs (readUleb bs) :=
  PyLeb.gen_readuleb128_eq bs

/-- readuleb128p1 as translated from the source = the hand model. -/
theorem gen_readuleb128p1_eq (bs : List Nat) :
    Gen.PyLeb.readuleb128p1 bs = PyLeb.rd id bs (readUlebP1 bs) :=
  PyLeb.gen_readuleb128p1_eq bs

/-- readsleb128 as translated from the source (loop unrolled, sign fix-up inline) = the hand model. -/
theorem gen_readsleb128_eq (bs : List Nat) :
    Gen.PyLeb.readsleb128 bs = PyLeb.rd id bs (readSleb bs) :=
  PyLeb.gen_readsleb128_eq bs

/-- writeuleb128 as translated from the source = the hand model, for every integer; in particular
    the fuel `value + 1` of the translated `while remaining > 0` is never exhausted. -/
theorem gen_writeuleb128_eq (value : Int) :
    Gen.PyLeb.writeuleb128 value = PyLeb.wr (writeUleb value) :=
  PyLeb.gen_writeuleb128_eq value

/-- writesleb128 as translated from the source (fuel 13) = the hand model (fuel 12), for every integer. -/
theorem gen_writesleb128_eq (value : Int) :
    Gen.PyLeb.writesleb128 value = PyLeb.wr (writeSleb value) :=
  PyLeb.gen_writesleb128_eq value

/-- uleb_decode_spec, about the translated source: value per specification, stream left at `rest`. -/
theorem src_uleb_decode_spec (item rest : List Nat) (v : Nat)
    (hi : IsItem item) (hl : item.length ≤ 5) (hv : unsignedValue item = some v) :
    Gen.PyLeb.readuleb128 (item ++ rest) = some ((v : Int), rest) := by
  rw [gen_readuleb128_eq, uleb_decode_spec item rest v hi hl hv]
  simp [PyLeb.rd]

/-- sleb_decode_spec, about the translated source. -/
theorem src_sleb_decode_spec (item rest : List Nat) (v : Int)
    (hi : IsItem item) (hl : item.length ≤ 5) (hv : signedValue item = some v) :
    Gen.PyLeb.readsleb128 (item ++ rest) = some (v, rest) := by
  rw [gen_readsleb128_eq, sleb_decode_spec item rest v hi hl hv]
  simp [PyLeb.rd]

/-- unsigned round trip, about the translated source: write then read gives the value back and
    leaves the stream after the item. -/
theorem src_uleb_roundtrip (v : Nat) (rest : List Nat) (hv : v < 2 ^ 32) :
    ∃ bs : List Nat, Gen.PyLeb.writeuleb128 (v : Int) = some (bs.map (fun b : Nat => (b : Int))) ∧
      Gen.PyLeb.readuleb128 (bs ++ rest) = some ((v : Int), rest) := by
  refine ⟨writeUlebNat v, ?_, ?_⟩
  · rw [gen_writeuleb128_eq]
    have : ¬ ((v : Int) < 0) := by omega
    simp [writeUleb, this, PyLeb.wr]
  · rw [gen_readuleb128_eq, uleb_roundtrip v rest hv]
    simp [PyLeb.rd]

/-- signed round trip, about the translated source. -/
theorem src_sleb_roundtrip (v : Int) (rest : List Nat) (hlo : -2 ^ 31 ≤ v) (hhi : v < 2 ^ 31) :
    ∃ bs : List Nat, Gen.PyLeb.writesleb128 v = some (bs.map (fun b : Nat => (b : Int))) ∧
      bs.length ≤ 5 ∧ Gen.PyLeb.readsleb128 (bs ++ rest) = some (v, rest) := by
  obtain ⟨bs, hw, hl, hr⟩ := sleb_roundtrip v rest hlo hhi
  refine ⟨bs, ?_, hl, ?_⟩
  · rw [gen_writesleb128_eq, hw]; rfl
  · rw [gen_readsleb128_eq, hr]
    simp [PyLeb.rd]

/-- truncation, about the translated source: all three readers raise on a buffer that ends after
    0..4 continuation bytes. -/
theorem src_truncated (bs : List Nat) (hl : bs.length ≤ 4) (hc : ∀ b ∈ bs, 128 ≤ b ∧ b < 256) :
    Gen.PyLeb.readuleb128 bs = none ∧ Gen.PyLeb.readuleb128p1 bs = none ∧
      Gen.PyLeb.readsleb128 bs = none := by
  have hc' : ∀ b ∈ bs, 128 ≤ b := fun b hb => (hc b hb).1
  rw [gen_readuleb128_eq, gen_readuleb128p1_eq, gen_readsleb128_eq, uleb_truncated bs hl hc',
    ulebp1_truncated bs hl hc', sleb_truncated bs hl hc]
  exact ⟨rfl, rfl, rfl⟩

/-! Non-vacuity: concrete non-trivial objects satisfy the hypotheses. -/
example : IsItem [0xe5, 0x8e, 0x26] ∧ unsignedValue [0xe5, 0x8e, 0x26] = some 624485 := by decide
example : IsItem [0xff, 0xff, 0xff, 0xff, 0x0f] ∧
    unsignedValue [0xff, 0xff, 0xff, 0xff, 0x0f] = some (2 ^ 32 - 1) := by decide
example : IsItem [0x80, 0x7f] ∧ signedValue [0x80, 0x7f] = some (-128) := by decide
example : IsItem [0x80, 0x80, 0x80, 0x80, 0x78] ∧
    signedValue [0x80, 0x80, 0x80, 0x80, 0x78] = some (-2 ^ 31) := by decide
example : readSleb [0x80, 0x80, 0x80, 0x80, 0x78] = some (-2147483648, 5) := by decide
example : readUleb [0x80, 0xff, 0x80, 0x81] = none ∧ readSleb [0x80, 0xff, 0x80, 0x81] = none := by decide
example : Gen.PyLeb.readsleb128 [0x80, 0x80, 0x80, 0x80, 0x78, 7] = some (-2147483648, [7]) := by decide
example : Gen.PyLeb.writeuleb128 624485 = some [0xe5, 0x8e, 0x26] := by decide
example : Gen.PyLeb.writesleb128 (-128) = some [0x80, 0x7f] := by decide

end AgVerif.C03
