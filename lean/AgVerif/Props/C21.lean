/-
C21 — Decompiled integer code computes what the bytecode computes.

PROVED here: the per-instruction translation (`INSTRUCTION_SET`, `Op`: the generated table `Gen.Translate.rows`,
obtained by reflection on the real translation functions) is sound with respect to the Dalvik semantics
(Spec/DalvikSem) and the Java semantics (Spec/JavaSem) of the text the Writer prints for it, values AND
exceptions, for every register content and every literal of the encoding; `CONDS` negates; the Writer's in-place
assignment forms store the same value; the refutations of the unfixed code (D9 and the missing `L` suffix);
`print_parse`: the lexemes the Writer prints for ANY well-formed IR expression tree re-parse, with a parser written
from the JLS grammar, to the Java tree of that expression (Model/JExpr.lean, Proof/JExprParse.lean, JExprMain.lean), and
for the arithmetic fragment the JLS value of the re-parsed tree is the value the soundness theorem uses
(`reparsed_value`, `translate_sound_reparsed`; Model/JExprSem.lean, Proof/JExprSem.lean).

NOT proved (PARTIAL): everything between translation and printing — register propagation, dead-code elimination,
variable splitting and typing, loop/if/switch structuring, the statement writer.  Those are reached only by
differential execution (harness/props/c21.py).  There is NO Lean statement of the whole property ("for every method of
the subset the emitted Java source compiles and computes, for every argument tuple, what the bytecode computes"): it
would have to quantify over a model of those passes, and none exists here.  (An earlier placeholder `C21_full` was
removed: it was trivially provable and therefore said nothing.)
-/
import AgVerif.Proof.Translate
import AgVerif.Model.LitCtx
import AgVerif.Proof.JExprMain
import AgVerif.Proof.JExprSem
import AgVerif.Proof.JExprInj
import AgVerif.Proof.Propagate

namespace AgVerif.C21
open AgVerif.Translate AgVerif.JavaSem
open AgVerif.Gen.Translate (rows Row ctxRows ctx2Rows)
open AgVerif.DalvikSem (Form step litOk)

/-- every row of the generated table parses and is the expected rendering of its opcode -/
theorem rows_checked : rows.all (fun r => rowOk r && decide (r.opcode < 256)) = true := by
  decide +kernel

/-- every opcode of the subset is translated for all its literals -/
theorem table_complete : ∀ op : Fin 256, opcodeCovered rows op.val = true := by
  decide +kernel

/-- **literal_contexts_checked**: in every expression context the Writer can distinguish (11 binary operators with the
    constant right or left, long operators and shifts, the six comparisons with an int / char / byte / short typed or
    cast operand and with the constant on the left, bare constants, unary operators, the five casts) a Constant operand
    is printed, for EVERY value of −128 … 255 and the int / long boundaries, with exactly the lexemes of the model's
    expression `ctxExpr`, as one `int` (resp. `L`-suffixed) decimal literal, and that literal denotes the constant.
    This is a `decide` over the generated rows `ctxRows` — a finite sample of the Writer's behaviour, not a statement
    about every constant; the statement for EVERY constant is `constant_printed_denotes` / `print_parse` below, over
    the model `JExpr.print` of the Writer's constant printing. -/
theorem literal_contexts_checked : ctxRows.all ctxRowOk = true := by
  decide +kernel

/-- every context has exactly one way of being printed (no value-dependent special case) -/
theorem literal_contexts_complete : ctxComplete ctxRows = true := by
  decide +kernel

/-- **nested_contexts_checked**: a nest of two operations on constants that came from registers, ((x op1 c1) op2 c2) and
    (c1 op1 (x op2 c2)) for every pair of the operators + − * & | ^ << >> >>> (int) and + − * & (long), is printed as exactly
    that nest — nothing folded, re-associated or dropped — with two literals denoting c1 and c2, for every pair of
    boundary constants (MAX, MIN, ±2^30, ±1, 0 …, including all the pairs whose sum or product overflows).
    Again a `decide` over the generated rows `ctx2Rows` (100 pairs per shape), not a statement about every pair. -/
theorem nested_contexts_checked : ctx2Rows.all ctx2RowOk = true := by
  decide +kernel

theorem nested_contexts_complete : ctx2Complete ctx2Rows = true := by
  decide +kernel

/-- what such a literal denotes under the JLS semantics: the constant itself, as an int (resp. long) -/
theorem literal_denotes (ρ : JavaSem.Env) (v : Int) :
    (-(2 : Int) ^ 31 ≤ v → v < (2 : Int) ^ 31 → eval ρ (.lit v false) = .ok (.int (BitVec.ofInt 32 v))) ∧
    (-(2 : Int) ^ 63 ≤ v → v < (2 : Int) ^ 63 → eval ρ (.lit v true) = .ok (.long (BitVec.ofInt 64 v))) :=
  ⟨eval_lit_int ρ v, eval_lit_long ρ v⟩

/-- **translate_sound** (partial C21): for every row of the real translation table, for all register contents and
    every literal the encoding can deliver, the Java expression printed for the instruction has, under the JLS
    semantics, exactly the outcome of the instruction under the Dalvik semantics: same value of the same type, same
    `ArithmeticException`, same branch decision — and it is accepted by the compiler.
    The register FIELDS of the instruction are fixed to A=1, B=2, C=3 (the instruction the row was reflected on);
    the contents of those registers are arbitrary.  That the translation functions are uniform in the register
    numbers is not a theorem (no renaming lemma); other register numbers are reached by the differential leg only. -/
theorem translate_sound_partial :
    ∀ r ∈ rows, ∃ fm d c, DalvikSem.form r.opcode = some fm ∧ domOfText r.dom = some d ∧ coreOf r = some c ∧
      ∀ (ρ : DalvikSem.Env) (lit : Int), litOk fm lit → d.ok lit →
        javaOutcome fm c ρ lit = some (step fm ρ lit) := by
  intro r hr
  have hk := List.all_eq_true.mp rows_checked r hr
  simp only [Bool.and_eq_true, decide_eq_true_eq] at hk
  obtain ⟨hok, hlt⟩ := hk
  unfold rowOk at hok
  split at hok
  · next fm d c hf hd hc =>
    refine ⟨fm, d, c, hf, hd, hc, fun ρ lit hl hdom => ?_⟩
    have hw : wfForm fm = true := form_wf ⟨r.opcode, hlt⟩ fm hf
    exact expected_sound fm d c hw (by simpa using hok) ρ lit hl hdom
  · simp at hok

theorem le_dec (x y : Int) : decide (y ≤ x) = !decide (x < y) := by
  by_cases h : x < y
  · have : ¬ y ≤ x := by omega
    simp [h, this]
  · have : y ≤ x := by omega
    simp [h, this]

theorem lt_dec (x y : Int) : decide (x < y) = !decide (y ≤ x) := by
  rw [le_dec]; simp

/-- `CONDS` maps every comparison operator to its negation -/
theorem conds_negate : ∀ o : RelOp, ∃ o', negRel o = some o' ∧ ∀ x y : Int, relInt o' x y = !relInt o x y := by
  intro o
  cases o
  · exact ⟨.ne, by decide, fun x y => by simp [relInt, bne]⟩
  · exact ⟨.eq, by decide, fun x y => by simp [relInt, bne]⟩
  · exact ⟨.ge, by decide, fun x y => by simp only [relInt, ge_iff_le, gt_iff_lt]; first | exact le_dec _ _ | exact lt_dec _ _⟩
  · exact ⟨.lt, by decide, fun x y => by simp only [relInt, ge_iff_le, gt_iff_lt]; first | exact le_dec _ _ | exact lt_dec _ _⟩
  · exact ⟨.le, by decide, fun x y => by simp only [relInt, ge_iff_le, gt_iff_lt]; first | exact le_dec _ _ | exact lt_dec _ _⟩
  · exact ⟨.gt, by decide, fun x y => by simp only [relInt, ge_iff_le, gt_iff_lt]; first | exact le_dec _ _ | exact lt_dec _ _⟩

/-- **inplace_sound**: when `write_inplace_if_possible` prints `x op= e` instead of `x = (x op e)` for an int or long
    variable `x`, the compound assignment (JLS §15.26.2, with its implicit cast to the type of `x`) stores the same
    value / throws the same exception as the plain assignment — unless the plain assignment would not compile at all -/
theorem inplace_sound (ρ : JavaSem.Env) (t : Ty) (ht : t = .int ∨ t = .long) (x : Nat) (op : BinOp) (e : Expr) :
    exec ρ (.assign t x (.bin op (.var t x) e)) = .error .compile ∨
    exec ρ (.compound t x op e) = exec ρ (.assign t x (.bin op (.var t x) e)) :=
  exec_compound_eq ρ t ht x op e

/-- `x++` / `x--` (printed when the right operand is the constant 1 and the operator `+` / `-`) is `x += 1` / `x -= 1` -/
theorem inplace_incr_sound (ρ : JavaSem.Env) (t : Ty) (x : Nat) (dec : Bool) :
    exec ρ (.incr t x dec) = exec ρ (.compound t x (if dec then .sub else .add) (.lit 1 false)) := rfl

/-- the three forms `write_inplace_if_possible` chooses between, and when -/
theorem inplace_shape (t : Ty) (x : Nat) (op : BinOp) (b : Expr) :
    inplace t x (.bin op (.var t x) b) = .compound t x op b ∨
    (∃ l, b = .lit 1 l ∧ (op = .add ∧ inplace t x (.bin op (.var t x) b) = .incr t x false ∨
                          op = .sub ∧ inplace t x (.bin op (.var t x) b) = .incr t x true)) := by
  unfold inplace
  simp only [and_self, if_true]
  split
  · right; exact ⟨_, rfl, Or.inl ⟨rfl, rfl⟩⟩
  · right; exact ⟨_, rfl, Or.inr ⟨rfl, rfl⟩⟩
  · left; rfl

/-! ## refutations of the code before the fixes (fixes/C21-*.diff) -/

def wEnv : DalvikSem.Env := ⟨fun n => if n = 2 then -1 else 28, fun n => if n = 2 then -1 else 28⟩

/-- D9: `ushr-int` rendered with `>>` (what the unfixed table did) is wrong: −1 >>> 28 = 15 but −1 >> 28 = −1 -/
theorem ushr_as_shr_refuted :
    javaOutcome (.binop false .ushr) (.bin .shr (.r 2) (.r 3)) wEnv 0 = some (.value (.ok (.int (-1)))) ∧
    step (.binop false .ushr) wEnv 0 = .value (.ok (.int 15)) := by
  constructor <;> rfl

/-- a long constant printed without the `L` suffix: rejected by the compiler outside the int range … -/
theorem long_literal_without_suffix_rejected :
    javaOutcome (.const true 64 0) (.const (.lit false false)) wEnv (2 ^ 32) = none := by
  rfl

/-- … and an `int`, not a `long`, inside it (so `1 << p` would be a 32-bit shift) -/
theorem long_literal_without_suffix_is_int :
    javaOutcome (.const true 64 0) (.const (.lit false false)) wEnv 1 = some (.value (.ok (.int 1))) ∧
    step (.const true 64 0) wEnv 1 = .value (.ok (.long 1)) := by
  constructor <;> rfl

/-! ## print_parse: the printed expression re-parses, under Java's precedence and associativity, to the tree it was printed from

`JExpr.DExpr` are DAD's IR expressions, `JExpr.print` the lexemes `Writer.visit_*` writes for them (tied to the real
Writer on random real IR trees by the correspondence stream `jexpr`), `JExpr.parse` a precedence-climbing parser of
JLS 15 (10 levels of left-associative binary operators, unary operators, primitive and reference casts,
`.f` `[i]` `(args)` suffixes, `new`), `JExpr.toJava` the Java tree an IR expression stands for (parentheses are nodes;
a negative constant is a unary minus on a literal). `JExpr.WF` says that every operand is printed in a form that
binds at least as tightly as its position requires — true of every tree DAD builds, where bare comparisons occur only
at the top of a condition. -/

/-- for EVERY well-formed IR expression (constants, variables, parameters, `this`, class names, binary and unary
    operations, primitive and reference casts, comparisons with and without a zero/null operand, `Long.compare`,
    instance and static fields, array access/length/creation, invocations and `new` with any number of arguments,
    compound conditions `(a) && (b)` / `(a) || (b)`,
    nested to any depth) the JLS parser consumes exactly the printed lexemes and returns the tree of the expression -/
theorem print_parse (e : JExpr.DExpr) (h : JExpr.WF e) : JExpr.parse (JExpr.print e) = some (JExpr.toJava e) :=
  JExpr.print_parse_wf e h

/-- EVERY constant, of any value (not the sample of `literal_contexts_checked`): what the Writer prints for it
    re-parses to a literal — or, for a negative value, a unary minus on a literal, the only way JLS 3.10.1 offers —
    that denotes exactly the constant, with the `L` suffix iff it is a long.  Inside any well-formed expression
    `print_parse` places that subtree where the constant was. -/
theorem constant_printed_denotes (v : Int) (long : Bool) :
    JExpr.parse (JExpr.print (.const v long)) = some (JExpr.toJava (.const v long)) ∧
    JExpr.litValue (JExpr.toJava (.const v long)) = some (v, long) :=
  JExpr.const_denotes v long

/-- the printed lexemes determine the Java expression: two well-formed IR expressions with the same text stand for
    the same Java tree -/
theorem print_tokens_injective (e₁ e₂ : JExpr.DExpr) (h₁ : JExpr.WF e₁) (h₂ : JExpr.WF e₂)
    (h : JExpr.print e₁ = JExpr.print e₂) : JExpr.toJava e₁ = JExpr.toJava e₂ :=
  JExpr.print_determines_tree e₁ e₂ h₁ h₂ h

/-- on the fragment without class names, field access and invocations (constants, variables, parameters, `this`,
    binary / unary operations, both kinds of cast, comparisons, `Long.compare`, array access / length / creation) the
    printed lexemes determine the IR expression ITSELF: the Writer's text is injective there.  (With class names it cannot
    be: `a.b.c` is the static field `c` of class `a.b` and the instance field `c` of the static field `a.b` — the same Java
    expression, which is what `print_tokens_injective` says in general.) -/
theorem print_injective_plain (e₁ e₂ : JExpr.DExpr) (h₁ : JExpr.WF e₁) (h₂ : JExpr.WF e₂)
    (p₁ : JExpr.plain e₁ = true) (p₂ : JExpr.plain e₂ = true) (h : JExpr.print e₁ = JExpr.print e₂) : e₁ = e₂ :=
  JExpr.print_injective_plain e₁ e₂ h₁ h₂ p₁ p₂ h

/-- every expression of the arithmetic fragment the soundness theorems above talk about (no comparison below the top),
    seen as an IR tree (`JExpr.ofExpr`; its lexemes are tied to `printExpr` and to the real Writer on every run), is well
    formed: `print_parse` applies to all of them, unconditionally -/
theorem fragment_well_formed (e : Expr) (h : JExpr.Frag e) : JExpr.WF (JExpr.ofExpr e) :=
  JExpr.wf_ofExpr e h

/-- **text ↦ lexemes ↦ JLS parser ↦ tree ↦ value.**  For every expression `e` of the fragment whose literals are in the
    range of their type and whose variables are declared (`Γ`) with the type `e` reads them with: the lexemes the Writer
    prints re-parse to a Java tree `T`, and the JLS semantics evaluated ON THAT TREE (`JExpr.evalJ`: parentheses, literals
    and negated literals, binary numeric promotion, shifts, comparisons, casts, `Long.compare`) gives exactly
    `JavaSem.eval ρ e` — the value, exception or compile error that `translate_sound_partial` equates with the Dalvik
    outcome (`javaOutcome` is a function of `eval (jenv ρ) (exprOf fm lit c)`). -/
theorem reparsed_value (Γ : String → Option (Ty × Nat)) (ρ : JavaSem.Env) (e : Expr) (hf : JExpr.Frag e)
    (hl : JExpr.LitsOK e) (ht : JExpr.Typed Γ e) :
    ∃ T, JExpr.parse (JExpr.print (JExpr.ofExpr e)) = some T ∧ JExpr.evalJ Γ ρ T = eval ρ e :=
  JExpr.reparsed_value Γ ρ e hf hl ht

/-- the register operands of every row are among v0 … v3 (`decide` over the generated table) -/
theorem rows_regs_bound :
    rows.all (fun r => match coreOf r with | some c => JExpr.coreBound c | none => true) = true := by
  decide +kernel

/-- **translate_sound, through the parser**: for every row of the real translation table, all register contents and
    every literal of the encoding, and every declaration `Γ` of the register variables v0 … v3 with the types the
    instruction reads them with (`JExpr.declFor fm` is one: `JExpr.declFor_declares`): the lexemes the Writer prints for the instruction's expression re-parse (JLS parser) to a Java tree
    whose JLS value, exception or branch decision — evaluated on the tree — is exactly the outcome of the instruction
    under the Dalvik semantics.  (`translate_sound_partial` composed with `print_parse` and `reparsed_value`; the
    hypotheses of the latter are discharged for every row here.) -/
theorem translate_sound_reparsed :
    ∀ r ∈ rows, ∃ fm d c, DalvikSem.form r.opcode = some fm ∧ domOfText r.dom = some d ∧ coreOf r = some c ∧
      ∀ (ρ : DalvikSem.Env) (lit : Int), litOk fm lit → d.ok lit →
        ∀ Γ : String → Option (Ty × Nat), JExpr.DeclaresRegs Γ fm →
          ∃ T, JExpr.parse (JExpr.print (JExpr.ofExpr (exprOf fm lit c))) = some T ∧
            JExpr.classify c (JExpr.evalJ Γ (jenv ρ) T) = some (step fm ρ lit) := by
  intro r hr
  obtain ⟨fm, d, c, hf, hd, hc, h⟩ := translate_sound_partial r hr
  have hb : JExpr.coreBound c = true := by
    have := List.all_eq_true.mp rows_regs_bound r hr
    simpa [hc] using this
  exact ⟨fm, d, c, hf, hd, hc, fun ρ lit hl hdom Γ hΓ =>
    JExpr.row_reparsed fm c ρ lit Γ hΓ hb _ (h ρ lit hl hdom)⟩

/-- the parser is not vacuous (1): a Writer that drops the parentheses of a RIGHT operand prints, for every operator
    and all primaries a b c, `a op (b op c)` as the lexemes of `(a op b) op c` -/
theorem noparen_right_reassociates (o : JExpr.BinOp) (a b c : JExpr.DExpr) (ha : JExpr.WF a) (hb : JExpr.WF b)
    (hc : JExpr.WF c) (la : 15 ≤ JExpr.level a) (lb : 15 ≤ JExpr.level b) (lc : 15 ≤ JExpr.level c) :
    JExpr.parse (JExpr.printDropRight (.bin o a (.bin o b c))) =
      some (.paren (.bin o (.bin o (JExpr.toJava a) (JExpr.toJava b)) (JExpr.toJava c))) :=
  JExpr.noParen_right_reassociates o a b c ha hb hc la lb lc

/-- the parser is not vacuous (2): a Writer that drops the parentheses of a LEFT operand prints `(a + b) * c` as the
    lexemes of `a + (b * c)` -/
theorem noparen_left_regroups (a b c : JExpr.DExpr) (ha : JExpr.WF a) (hb : JExpr.WF b)
    (hc : JExpr.WF c) (la : 15 ≤ JExpr.level a) (lb : 15 ≤ JExpr.level b) (lc : 15 ≤ JExpr.level c) :
    JExpr.parse (JExpr.printDropLeft (.bin .mul (.bin .add a b) c)) =
      some (.paren (.bin .add (JExpr.toJava a) (.bin .mul (JExpr.toJava b) (JExpr.toJava c)))) :=
  JExpr.noParen_left_regroups a b c ha hb hc la lb lc

/-- kernel-checked refutation for the variant printers: `(v0 - (v1 - v2))` and `((v0 + v1) * v2)` do not re-parse to
    the tree they were printed from once the operand's parentheses are dropped -/
theorem noparen_refuted :
    JExpr.parse (JExpr.printDropRight (.bin .sub (.var "0") (.bin .sub (.var "1") (.var "2")))) ≠
      some (JExpr.toJava (.bin .sub (.var "0") (.bin .sub (.var "1") (.var "2")))) ∧
    JExpr.parse (JExpr.printDropLeft (.bin .mul (.bin .add (.var "0") (.var "1")) (.var "2"))) ≠
      some (JExpr.toJava (.bin .mul (.bin .add (.var "0") (.var "1")) (.var "2"))) := by
  constructor
  · rw [noparen_right_reassociates _ _ _ _ (by decide) (by decide) (by decide) (by decide) (by decide) (by decide)]
    simp [JExpr.toJava]
  · rw [noparen_left_regroups _ _ _ (by decide) (by decide) (by decide) (by decide) (by decide) (by decide)]
    simp [JExpr.toJava]

/-! ## non-vacuity -/

example : ∃ r ∈ rows, r.mnemonic = "ushr-int" ∧ r.op = ">>>" := by decide +kernel
example : litOk (.binopLit .add false 8) (-128) ∧ Dom.neg.ok (-128) := by
  simp [litOk, Dom.ok]
example : javaOutcome (.binop false .ushr) (.bin .ushr (.r 2) (.r 3)) wEnv 0 = some (.value (.ok (.int 15))) := by
  rfl
example : rows.length = 94 := by decide
example : exec ⟨fun _ => 7, fun _ => 7⟩ (.compound .int 1 .shr (.var .int 2)) = .ok (.int 0) := by rfl

/-- `p0.get(((int) (v1 - -3L)), new foo.Bar(v2[(- v3)])).length < Long.compare(v4, 5L)` is well formed -/
example : JExpr.WF (.cond .lt
    (.alength (.invoke (.param "0") "get"
      [.cast .int (.bin .sub (.var "1") (.const (-3) true)),
       .newObj "foo" ["Bar"] [.aload (.var "2") (.un .neg (.var "3"))]]))
    (.cmp true (.var "4") (.const 5 true))) := by decide
/-- a bare comparison as an operand is not -/
example : ¬ JExpr.WF (.bin .add (.cond .lt (.var "0") (.var "1")) (.var "2")) := by decide

/-- `((long) v1) >> (v2 & -3)` with `v1 : int`, `v2 : int` satisfies the hypotheses of `reparsed_value` -/
example : let e : Expr := .bin .shr (.cast .long (.var .int 1)) (.bin .and (.var .int 2) (.lit (-3) false))
    JExpr.Frag e ∧ JExpr.LitsOK e ∧
      JExpr.Typed (fun s => if s = "v" ++ toString 1 then some (.int, 1) else if s = "v" ++ toString 2 then some (.int, 2) else none) e := by
  refine ⟨by simp [JExpr.Frag, Arith], by simp [JExpr.LitsOK], ?_⟩
  simp only [JExpr.Typed]
  refine ⟨by simp, ?_, trivial⟩
  rw [if_neg (by decide)]; simp

example (fm : Form) : JExpr.DeclaresRegs (JExpr.declFor fm) fm := JExpr.declFor_declares fm

/-! ## register propagation on one basic block (`register_propagation`, Model/Propagate.lean) -/

/-- REFUTED for the code as it is (known finding `propagation-past-redefinition`): handed the block
    `v0 = (char) p10; p10 %= p11; return v0` with the chains `build_def_use` computes for it, the model of
    `register_propagation` leaves `p10 %= p11; return (char) p10` (`CastExpression.is_const()` is true for a cast of a
    `Param`, and for a "constant" right-hand side the pass does not ask `clear_path`): with `p10 = 7`, `p11 = 4` the
    block returns 7 before the pass and 3 after it. -/
theorem propagation_past_redefinition_refuted :
    Propagate.propagate Propagate.pastRedefinition =
        ⟨[10, 11],
         [.assign (some 10) (.bin .rem (some 10) (.var 10) (some 11) (.var 11)),
          .ret (some 0) (.un .i2c (some 10) (.var 10))]⟩ ∧
      Propagate.pastRedefinition.run Propagate.javaSem Propagate.env74 = .ret 7 [] ∧
      (Propagate.propagate Propagate.pastRedefinition).run Propagate.javaSem Propagate.env74 = .ret 3 [] ∧
      ¬ Propagate.SafeBlock Propagate.pastRedefinition :=
  ⟨Propagate.past_redefinition_output, Propagate.past_redefinition_before, Propagate.past_redefinition_after,
   Propagate.past_redefinition_not_safe⟩

/-- PARTIAL soundness of `register_propagation` on one basic block.  `SafeBlock b` (decidable; computed by running the
    model of the pass on `b`) says that EVERY change the pass makes on `b` is of the kind its comments promise: the
    definition `x := e` is live and precedes the use, `e` makes no invoke and does not read `x`, no live
    instruction between the definition and the use assigns `x` or a register of `e`, `replace` only overwrites
    occurrences of `x`, and a definition that is deleted is dead and either cannot throw (no `/`, `%`) or is evaluated
    by the instructions that follow, on the same operands, before any call or return (`Propagate.forces`).  Then the block the pass leaves has the outcome of `b`
    (returned value or exception, and the sequence of calls made) for EVERY meaning of the operators and calls
    (`Sem`: any total meaning of the operators other than `/`, `%`), in every environment and world. -/
theorem propagate_sound_partial (S : Propagate.Sem) (b : Propagate.Block) (h : Propagate.SafeBlock b)
    (ρ : Propagate.Env) (w : Propagate.World) :
    Propagate.run S ρ w (Propagate.propagate b).stmts = Propagate.run S ρ w b.stmts :=
  Propagate.propagate_sound S b h ρ w

/-- non-vacuity: `v0 = p10 + p11; v1 = v0 * v0; v2 = v1 - 1; return v2` is a `SafeBlock`, and the pass folds it into
    `return ((p10 + p11) * (p10 + p11)) - 1` -/
theorem propagate_sound_nonvacuous : Propagate.SafeBlock Propagate.safeExample ∧
    (Propagate.propagate Propagate.safeExample).stmts.length = 1 :=
  ⟨Propagate.safeExample_safe.1, by rw [Propagate.safeExample_safe.2]; rfl⟩

/-! ## dead-code elimination on one basic block (`dead_code_elimination`, `update_chain`) -/

/-- REFUTED for the code as it is (known finding `division-not-a-side-effect`): `BinaryExpression.has_side_effect()` is
    false for `/` and `%`, so the model of `dead_code_elimination` deletes the unused `v0 = p10 / p11` from
    `v0 = p10 / p11; return p10`: with `p11 = 0` the block throws before the pass and returns 5 after it. -/
theorem dce_removes_throwing_division_refuted :
    Propagate.dce Propagate.deadDivision = ⟨[10, 11], [.ret (some 10) (.var 10)]⟩ ∧
      Propagate.deadDivision.run Propagate.javaSem Propagate.env50 = .throw [] ∧
      (Propagate.dce Propagate.deadDivision).run Propagate.javaSem Propagate.env50 = .ret 5 [] :=
  ⟨Propagate.dead_division_output, Propagate.dead_division_before, Propagate.dead_division_after⟩

/-- PARTIAL soundness of `dead_code_elimination` on one basic block: if every instruction it deletes is a pure
    definition (no invoke, no `/`, `%`) of a register that is not read again before it is assigned, and every call it
    strips of its register defines one that is not read again (`(dcePass b).ok`, decidable, computed by running the
    model), the block it leaves has the outcome of `b`. -/
theorem dce_sound_partial (S : Propagate.Sem) (b : Propagate.Block) (h : (Propagate.dcePass b).ok = true)
    (ρ : Propagate.Env) (w : Propagate.World) :
    Propagate.run S ρ w (Propagate.dce b).stmts = Propagate.run S ρ w b.stmts :=
  Propagate.dce_sound S b h ρ w

/-- the two passes in the order of the pipeline, `register_propagation` on the chains `dead_code_elimination` leaves -/
theorem dce_then_propagate_sound_partial (S : Propagate.Sem) (b : Propagate.Block)
    (h : (Propagate.dceThenPropagate b).ok = true) (ρ : Propagate.Env) (w : Propagate.World) :
    Propagate.run S ρ w ((Propagate.dceThenPropagate b).ins.map (·.2)) = Propagate.run S ρ w b.stmts :=
  Propagate.dce_propagate_sound S b h ρ w

/-- non-vacuity: a dead chain `v0 = p10 + p11; v1 = - v0; v2 = f0(p10); v3 = v1 * v1; return p11` is deleted from its
    end and the call keeps its place without a register; every step is checked -/
theorem dce_sound_nonvacuous : (Propagate.dcePass Propagate.deadChain).ok = true ∧
    (Propagate.dce Propagate.deadChain).stmts.length = 2 :=
  ⟨Propagate.deadChain_safe.1, by rw [Propagate.deadChain_safe.2]; rfl⟩

/-- non-vacuity for a division: `v0 = p10 / p11; v1 = v0 + 1; return v1` is a `SafeBlock` (the pass leaves
    `return (p10 / p11) + 1`, the exception of a zero divisor included) -/
theorem propagate_sound_division_nonvacuous : Propagate.SafeBlock Propagate.divisionExample ∧
    (Propagate.propagate Propagate.divisionExample).stmts.length = 1 :=
  ⟨Propagate.divisionExample_safe.1, by rw [Propagate.divisionExample_safe.2]; rfl⟩

/-- REFUTED for the code as it is (known finding `division-not-a-side-effect`, at the level of this pass): from
    `v0 = p10 / p11; v1 = f1(p10); return v1 + v0` the model of `register_propagation` makes
    `return f1(p10) + p10 / p11`: with `p11 = 0` the block throws before calling `f1`, the result calls `f1` and then
    throws. -/
theorem propagation_moves_division_behind_call_refuted :
    Propagate.divisionBehindCall.run Propagate.javaSem Propagate.env50 = .throw [] ∧
      (Propagate.propagate Propagate.divisionBehindCall).run Propagate.javaSem Propagate.env50 = .throw [(1, 5)] ∧
      ¬ Propagate.SafeBlock Propagate.divisionBehindCall :=
  ⟨Propagate.division_behind_call_before, Propagate.division_behind_call_after, Propagate.division_behind_call_not_safe⟩

/-- REFUTED for the code as it is (known finding `declaration-inside-expression`): on
    `v0 = (char) p10; v1 = p10 + 1; v2 = v1 * 2; v3 = v0 + 1; v4 = v0 - v3; v5 = v4 + v2; return v5` (every register
    assigned once, no invoke, no division) the model of `register_propagation` deletes `v0 = (char) p10` although the
    block it leaves, `return (((char) p10) - (v0 + 1)) + ((p10 + 1) * 2)`, still reads `v0`: the result depends on what
    `v0` held on entry (15 before the pass, 9 after it for `p10 = 7`, `v0 = 13`); the Writer then prints the declaration
    of `v0` inside the expression.  So "every register is assigned once" does not imply `SafeBlock`. -/
theorem propagation_deletes_used_definition_refuted :
    (Propagate.propagate Propagate.usedDefinitionDeleted).stmts.length = 1 ∧
      Propagate.usedDefinitionDeleted.run Propagate.javaSem Propagate.env7 = .ret 15 [] ∧
      (Propagate.propagate Propagate.usedDefinitionDeleted).run Propagate.javaSem Propagate.env7 = .ret 9 [] ∧
      ¬ Propagate.SafeBlock Propagate.usedDefinitionDeleted :=
  ⟨by rw [Propagate.used_definition_deleted_output]; rfl, Propagate.used_definition_deleted_before,
   Propagate.used_definition_deleted_after, Propagate.used_definition_deleted_not_safe⟩

end AgVerif.C21
