/-
C30 — Locale qualifiers round-trip through the configuration encoding.
Property theorems only (lemmas: AgVerif/Proof/Locale.lean).

Model: AgVerif.Locale (`_unpack_language_or_region`, `_pack_language_or_region`,
`set_language_and_region`, `get_language_and_region` of ARSCResTableConfig, with
fixes/C30-pack-three-letter-locale.diff).   Spec: AgVerif.Spec.Locale (AOSP
`unpackLanguageOrRegion` / `packLanguageOrRegion`, directory-name syntax `ll-rRR`).

Strings are lists of code points.  Every theorem quantifies over *all* bytes / characters of
its domain: all packed codes (first byte ≥ 0x80, 2^15 of them per half), all plain two-character
codes (7-bit, no `-`), hence in particular all 26² + 26³ lowercase languages and all
36² + 10³ uppercase/digit regions.
-/
import AgVerif.Proof.Locale
import AgVerif.Gen.LocaleConsts
import AgVerif.Proof.PyLocale
namespace AgVerif.C30
open AgVerif.Locale AgVerif.Spec.Locale

/-- Decoding agrees with AOSP `unpackLanguageOrRegion` on every pair of bytes except the
    malformed `00 xx` (AOSP reports no code, the Python code reports the lone character). -/
theorem unpack_spec (c0 c1 base : Nat) (h0 : c0 < 256) (h1 : c1 < 256)
    (hb : 0 < base) (hb' : base ≤ 224) (h : c0 = 0 → c1 = 0) :
    unpack c0 c1 base = unpackStr c0 c1 base := by
  unfold unpackStr unpackLanguageOrRegion
  by_cases hp : 128 ≤ c0
  · rw [unpack_packed c0 c1 base hp h0 h1, if_pos ((and80_ne_zero c0 h0).2 hp)]
    simp only [and1F, andE0_shr c1 h1, and03_shl, and7C_shr c0 h0]
    have e1 : (c1 % 32 + base) % 256 = c1 % 32 + base := by omega
    have e2 : (c1 / 32 + c0 % 4 * 8 + base) % 256 = c1 / 32 + c0 % 4 * 8 + base := by omega
    have e3 : (c0 / 4 % 32 + base) % 256 = c0 / 4 % 32 + base := by omega
    rw [e1, e2, e3]
    simp only [cstr]
    rw [if_neg (by omega), if_neg (by omega), if_neg (by omega)]
    simp
  · have hn : ¬ (c0 &&& 0x80 ≠ 0) := by rw [and80_ne_zero c0 h0]; exact hp
    rw [unpack_plain c0 c1 base (by omega), if_neg hn]
    by_cases hz : c0 = 0
    · have := h hz; subst hz; subst this; simp [cstr]
    · rw [if_pos hz, if_pos hz]
      by_cases hz1 : c1 = 0
      · subst hz1; simp [cstr, hz]
      · simp [cstr, hz, hz1]

/-- The three characters of a packed code are the three 5-bit fields, in AOSP's order
    (first = low five bits of the second byte, third = bits 2..6 of the first byte). -/
theorem unpack3_fields (c0 c1 base : Nat) (h : Packed c0 c1) :
    unpack c0 c1 base = [c1 % 32 + base, c1 / 32 + c0 % 4 * 8 + base, c0 / 4 % 32 + base] :=
  unpack_of_packed c0 c1 base h

/-- Two-character codes are packed the way AOSP `packLanguageOrRegion` does. -/
theorem pack2_spec (a b base : Nat) (ha : a < 256) (hb : b < 256) :
    packLanguageOrRegion [a, b] base = some (pack [a, b] base) := by
  simp [packLanguageOrRegion, pack, Nat.mod_eq_of_lt ha, Nat.mod_eq_of_lt hb]

/-- Three-character codes (any characters; the third one not NUL and not `-`, which AOSP reads
    as the end of a two-letter code) are packed the way AOSP `packLanguageOrRegion` does. -/
theorem pack3_spec (a b c base : Nat) (hc0 : c ≠ 0) (hc : c ≠ 45) :
    packLanguageOrRegion [a, b, c] base = some (pack [a, b, c] base) := by
  simp only [packLanguageOrRegion, pack, off7, sub7]
  rw [if_neg (by omega)]
  simp only [← AgVerif.Bits.and_FF]

/-- Every encoded half (absent, packed three-letter, plain two-letter) is re-encoded to itself. -/
theorem unpack_pack (c0 c1 base : Nat) (h : Half c0 c1) :
    pack (unpack c0 c1 base) base = (c0, c1) :=
  half_pack_unpack c0 c1 base h

/-- Every code (two characters, or three characters in the 5-bit range of the base) is decoded
    from its encoding unchanged. -/
theorem pack_unpack (base : Nat) (s : List Nat) (h : Code base s) :
    unpack (pack s base).1 (pack s base).2 base = s :=
  code_unpack_pack base s h

/-- Configuration → string → configuration: for every non-zero locale word whose language and
    region halves are valid, encoding the reported string gives the same word. -/
theorem get_set (l0 l1 r0 r1 : Nat) (hl : Half l0 l1) (hr : Half r0 r1)
    (hne : localeWord (l0, l1) (r0, r1) ≠ 0) :
    setLocale (getLocale (localeWord (l0, l1) (r0, r1))) = localeWord (l0, l1) (r0, r1) := by
  unfold localeWord at *
  simp only at *
  have ⟨hl0, hl1⟩ := half_bytes l0 l1 hl
  have ⟨hr0, hr1⟩ := half_bytes r0 r1 hr
  rw [getLocale_bytes l0 l1 r0 r1 hl0 hl1 hr0 hr1 hne]
  have dl := half_noDash l0 l1 97 (by omega) hl
  have dr := half_noDash r0 r1 48 (by omega) hr
  by_cases hR : unpack r0 r1 48 = []
  · rw [if_neg (by simpa using hR), setLocale_lang _ dl, half_pack_unpack l0 l1 97 hl]
    have := (half_nil_iff r0 r1 48 hr).1 hR
    obtain ⟨rfl, rfl⟩ := this
    exact word_or l0 l1 0 0 hl0 hl1 (by omega)
  · rw [if_pos hR, setLocale_lang_region _ _ dl dr hR, half_pack_unpack l0 l1 97 hl,
      half_pack_unpack r0 r1 48 hr]
    exact word_or l0 l1 r0 r1 hl0 hl1 hr0

/-- String → configuration: a language code alone is stored the way AOSP packs it. -/
theorem set_spec_language (l : List Nat) (hl : Code 97 l) :
    setLocale l = localeWord (pack l 97) (0, 0) := by
  rw [setLocale_lang l (code_noDash 97 (by omega) l hl)]
  have h := code_half 97 l hl
  have hb := half_bytes _ _ (Or.inr h)
  rw [word_or _ _ 0 0 hb.1 hb.2 (by omega)]; rfl

/-- String → configuration: `language-rregion` is stored as the two AOSP-packed halves. -/
theorem set_spec (l r : List Nat) (hl : Code 97 l) (hr : Code 48 r) :
    setLocale (l ++ [45, 114] ++ r) = localeWord (pack l 97) (pack r 48) := by
  rw [setLocale_lang_region l r (code_noDash 97 (by omega) l hl) (code_noDash 48 (by omega) r hr)
    (code_ne_nil 48 r hr)]
  have hb := half_bytes _ _ (Or.inr (code_half 97 l hl))
  have hb' := half_bytes _ _ (Or.inr (code_half 48 r hr))
  rw [word_or _ _ _ _ hb.1 hb.2 hb'.1]; rfl

/-- String → configuration → string, language only. -/
theorem set_get_language (l : List Nat) (hl : Code 97 l) :
    getLocale (setLocale l) = l := by
  rw [set_spec_language l hl]
  have h := code_half 97 l hl
  have hb := half_bytes _ _ (Or.inr h)
  have hne : (pack l 97).1 + (pack l 97).2 * 2 ^ 8 + 0 * 2 ^ 16 + 0 * 2 ^ 24 ≠ 0 := by
    rcases h with ⟨h1, _⟩ | ⟨h1, _⟩ <;> omega
  unfold localeWord
  rw [getLocale_bytes _ _ 0 0 hb.1 hb.2 (by omega) (by omega) hne, unpack_zero,
    if_neg (by simp), code_unpack_pack 97 l hl]

/-- String → configuration → string, language and region: the reported string is the one that
    was encoded. -/
theorem set_get (l r : List Nat) (hl : Code 97 l) (hr : Code 48 r) :
    getLocale (setLocale (l ++ [45, 114] ++ r)) = l ++ [45, 114] ++ r := by
  rw [set_spec l r hl hr]
  have h := code_half 97 l hl
  have hb := half_bytes _ _ (Or.inr h)
  have hb' := half_bytes _ _ (Or.inr (code_half 48 r hr))
  have hne : (pack l 97).1 + (pack l 97).2 * 2 ^ 8 + (pack r 48).1 * 2 ^ 16 + (pack r 48).2 * 2 ^ 24 ≠ 0 := by
    rcases h with ⟨h1, _⟩ | ⟨h1, _⟩ <;> omega
  unfold localeWord
  rw [getLocale_bytes _ _ _ _ hb.1 hb.2 hb'.1 hb'.2 hne, code_unpack_pack 48 r hr,
    if_pos (code_ne_nil 48 r hr), code_unpack_pack 97 l hl]

/-- The reported string is AOSP's: unpacked language, then `-r` and the unpacked region when
    there is one (stated for configurations that have a language, as AOSP prints nothing
    otherwise). -/
theorem get_spec (l0 l1 r0 r1 : Nat) (hl : Half l0 l1) (hr : Half r0 r1) (hl0 : l0 ≠ 0) :
    getLocale (localeWord (l0, l1) (r0, r1))
      = localeString (unpackStr l0 l1 97) (unpackStr r0 r1 48) := by
  have ⟨b0, b1⟩ := half_bytes l0 l1 hl
  have ⟨b2, b3⟩ := half_bytes r0 r1 hr
  have hz : r0 = 0 → r1 = 0 := by
    intro h; rcases hr with ⟨_, h2⟩ | ⟨h2, _⟩ | ⟨h2, _⟩ <;> omega
  rw [← unpack_spec l0 l1 97 b0 b1 (by omega) (by omega) (by omega),
    ← unpack_spec r0 r1 48 b2 b3 (by omega) (by omega) hz]
  unfold localeWord localeString
  simp only
  rw [getLocale_bytes l0 l1 r0 r1 b0 b1 b2 b3 (by omega)]
  by_cases hR : unpack r0 r1 48 = []
  · rw [if_neg (by simpa using hR), if_pos hR]
  · rw [if_pos hR, if_neg hR]

/-- The default locale: word 0 is reported as `"\x00\x00"` and that string encodes to 0. -/
theorem default_roundtrip : getLocale 0 = [0, 0] ∧ setLocale [0, 0] = 0 := by
  constructor <;> decide

/-- The design's `roundtrip2`: two lowercase letters and a two-character uppercase/digit region. -/
theorem roundtrip2 (a b x y : Nat) (ha : isLower a) (hb : isLower b)
    (hx : isUpperOrDigit x) (hy : isUpperOrDigit y) :
    getLocale (setLocale [a, b, 45, 114, x, y]) = [a, b, 45, 114, x, y]
    ∧ setLocale [a, b, 45, 114, x, y] = a + b * 2 ^ 8 + x * 2 ^ 16 + y * 2 ^ 24 := by
  have hl : Code 97 [a, b] := Or.inl ⟨a, b, rfl, by unfold isLower at *; unfold Plain; omega⟩
  have hr : Code 48 [x, y] := Or.inl ⟨x, y, rfl, by unfold isUpperOrDigit at *; unfold Plain; omega⟩
  exact ⟨set_get [a, b] [x, y] hl hr, set_spec [a, b] [x, y] hl hr⟩

/-- The design's `roundtrip3` (refuted on the unfixed code, D15): three lowercase letters, with
    a three-digit region, come back unchanged — and do not collapse to the default locale. -/
theorem roundtrip3 (a b c x y z : Nat) (ha : isLower a) (hb : isLower b) (hc : isLower c)
    (hx : isDigit x) (hy : isDigit y) (hz : isDigit z) :
    getLocale (setLocale [a, b, c]) = [a, b, c] ∧ setLocale [a, b, c] ≠ 0
    ∧ getLocale (setLocale [a, b, c, 45, 114, x, y, z]) = [a, b, c, 45, 114, x, y, z] := by
  unfold isLower isDigit at *
  have hl : Code 97 [a, b, c] := Or.inr ⟨a - 97, b - 97, c - 97, by
    simp only [List.cons.injEq, and_true]; omega, by omega, by omega, by omega⟩
  have hr : Code 48 [x, y, z] := Or.inr ⟨x - 48, y - 48, z - 48, by
    simp only [List.cons.injEq, and_true]; omega, by omega, by omega, by omega⟩
  refine ⟨set_get_language _ hl, ?_, set_get [a, b, c] [x, y, z] hl hr⟩
  rw [set_spec_language _ hl]
  rcases code_half 97 _ hl with ⟨h1, _⟩ | ⟨h1, _⟩ <;> unfold localeWord <;> omega

/-- Tie to the source: the integer, `ord(..)` and string constants of the four functions, as
    regenerated from the working tree by gen/locale.py, are the ones the model was transliterated
    from (masks 0x80/0x1F/0xE0/0x03/0x7C, shifts 5/3/2; 0x7F, 0x80, 0xFF, shifts 2/3/5; bases
    `a` = 97 and `0` = 48; separator "-r"; byte masks and shifts of the locale word; "\x00\x00"). -/
theorem source_constants :
    Gen.LocaleConsts.unpackLanguageOrRegion
      = [[0], [0x80], [1], [0x1F], [1], [0xE0], [5], [0], [0x03], [3], [0], [0x7C], [2],
         [0], [0], [1], [1]]
    ∧ Gen.LocaleConsts.packLanguageOrRegion
      = [[97], [0], [0], [2], [0], [0], [1], [1], [3], [0], [0x7F], [1], [0x7F], [2], [0x7F],
         [0], [0x80], [2], [3], [0xFF], [1], [5], [0xFF]]
    ∧ Gen.LocaleConsts.setLanguageAndRegion
      = [[45, 114], [97], [48], [0], [0], [0], [1], [8], [0], [16], [1], [24]]
    ∧ Gen.LocaleConsts.getLanguageAndRegion
      = [[0], [0xFF], [0xFF00], [8], [97], [0xFF0000], [16], [0xFF000000], [24], [48],
         [45, 114], [0, 0]]
    ∧ Gen.LocaleConsts.unpackLanguageOrRegionArity = 3
    ∧ Gen.LocaleConsts.packLanguageOrRegionArity = 3 := by
  decide

/-! ### non-vacuity: concrete locales satisfy the hypotheses and have the expected encodings -/

-- "fil" = 66 69 6c  →  ad 05   (the witness of D15)
example : setLocale [102, 105, 108] = 0x05ad ∧ getLocale 0x05ad = [102, 105, 108] := by decide
example : Code 97 [102, 105, 108] := Or.inr ⟨5, 8, 11, rfl, by omega, by omega, by omega⟩
-- "es-r419"
example : setLocale [101, 115, 45, 114, 52, 49, 57] = 0x24a47365 := by decide
example : getLocale 0x24a47365 = [101, 115, 45, 114, 52, 49, 57] := by decide
example : Code 48 [52, 49, 57] := Or.inr ⟨4, 1, 9, rfl, by omega, by omega, by omega⟩
-- "en-rUS"
example : setLocale [101, 110, 45, 114, 85, 83] = 0x53556e65 := by decide
example : Half 0x65 0x6e ∧ Half 0x55 0x53 ∧ Half 0xad 0x05 ∧ Half 0 0 := by
  unfold Half Packed Plain; omega
example : isLower 102 ∧ isUpperOrDigit 85 ∧ isDigit 52 := by
  unfold isLower isUpperOrDigit isDigit; omega

/-! ### the source, translated, is the model
AgVerif.Gen.PyLocale is generated on each run from the Python source of the two pure helpers by
gen/py2lean.py (statement by statement; subset in its docstring, operators in Model/PyInt.lean). -/

/-- `_unpack_language_or_region` as translated from the source = the hand model `unpack`, for
    every pair of bytes and every base `chr` accepts (the code uses 0x61 and 0x30). -/
theorem gen_unpack_eq (c0 c1 base : Nat) (h0 : c0 < 256) (h1 : c1 < 256) (hb : base ≤ 1114000) :
    Gen.PyLocale.unpack_language_or_region [(c0 : Int), (c1 : Int)] (base : Int)
      = some (PyLocale.ints (unpack c0 c1 base)) :=
  PyLocale.gen_unpack_eq c0 c1 base h0 h1 hb

/-- `_pack_language_or_region` as translated from the source = the hand model `pack`, for every
    string (any length, any code points) and every base. -/
theorem gen_pack_eq (s : List Nat) (base : Nat) :
    Gen.PyLocale.pack_language_or_region (PyLocale.ints s) (base : Int)
      = some [(((pack s base).1 : Nat) : Int), (((pack s base).2 : Nat) : Int)] :=
  PyLocale.gen_pack_eq s base

/-- unpack_pack, about the translated source: packing what the source unpacks gives the bytes back. -/
theorem src_unpack_pack (c0 c1 base : Nat) (h : Half c0 c1) (h0 : c0 < 256) (h1 : c1 < 256)
    (hb : base ≤ 1114000) :
    ∃ str : List Nat,
      Gen.PyLocale.unpack_language_or_region [(c0 : Int), (c1 : Int)] (base : Int) = some (PyLocale.ints str) ∧
      Gen.PyLocale.pack_language_or_region (PyLocale.ints str) (base : Int) = some [(c0 : Int), (c1 : Int)] := by
  refine ⟨unpack c0 c1 base, gen_unpack_eq c0 c1 base h0 h1 hb, ?_⟩
  rw [gen_pack_eq, unpack_pack c0 c1 base h]

example : Gen.PyLocale.unpack_language_or_region [0x98, 0xa5] 0x61 = some [0x66, 0x66, 0x67] := by decide
example : Gen.PyLocale.pack_language_or_region [0x66, 0x66, 0x67] 0x61 = some [0x98, 0xa5] := by decide

end AgVerif.C30
